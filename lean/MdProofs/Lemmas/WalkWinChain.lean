/-
  Helper lemmas for C04, x86 chains through STACK WIN records — the induction on the chain.

  * `walkLoop_chain_rel` — the chain induction in relational form: the per-frame invariant `View`
    also sees the frame below (`grand callee`: STACK WIN evaluation depends on whether there is one
    and on its parameter size), and a step lemma only has to exhibit SOME frame that satisfies the
    per-frame assertion `Good` and re-establishes the invariant — no closed form of the frame is
    needed (`walkLoop_chain_generic` of `WalkChainMixed` is the functional special case without
    the frame below).
  * its instance for x86 and `PreW`: per frame `linkMixed` with technique `win`, `fp` or `scan`.
-/
import MdProofs.Lemmas.WalkWinChainStep
set_option linter.unusedSimpArgs false
namespace MdModel.Walk
open MdModel MdModel.Win

/-- the shape of every chain precondition: inside the stack memory and linked, frame by frame;
    at the end outside the stack memory or at the generated end -/
def preChain {σ : Type} (inR : σ → Bool) (link : σ → Exp → Bool) (endp : σ → Bool) (next : σ → Exp → σ) :
    σ → List Exp → Bool
  | st, [] => !inR st || endp st
  | st, e :: rest => inR st && link st e && preChain inR link endp next (next st e) rest

/-- two lists of equal length, related position by position -/
inductive All2 {α β : Type} (R : α → β → Prop) : List α → List β → Prop where
  | nil : All2 R [] []
  | cons {a b l m} : R a b → All2 R l m → All2 R (a :: l) (b :: m)

theorem All2.length_eq {α β : Type} {R : α → β → Prop} {l : List α} {m : List β} (h : All2 R l m) :
    l.length = m.length := by
  induction h with
  | nil => rfl
  | cons _ _ ih => simp [ih]

theorem All2.get {α β : Type} {R : α → β → Prop} {l : List α} {m : List β} (h : All2 R l m) :
    ∀ (i : Nat) (hi : i < m.length), R (l[i]'(by rw [h.length_eq]; exact hi)) m[i] := by
  induction h with
  | nil => intro i hi; cases hi
  | cons hr _ ih =>
    intro i hi
    cases i with
    | zero => exact hr
    | succ i => exact ih i (by simpa using hi)

theorem All2.imp {α β : Type} {R S : α → β → Prop} (hrs : ∀ a b, R a b → S a b) {l : List α} {m : List β}
    (h : All2 R l m) : All2 S l m := by
  induction h with
  | nil => exact .nil
  | cons hr _ ih => exact .cons (hrs _ _ hr) ih

/-- The chain induction, relational, with the frame below in the invariant. -/
theorem walkLoop_chain_rel {σ : Type} {env : Env} {mem : Mem}
    (View : Frame → Option Frame → σ → Prop) (link : σ → Exp → Bool) (endp : σ → Bool) (spOf : σ → Nat)
    (next : σ → Exp → σ) (Good : Exp → Frame → Prop)
    (hsp : ∀ f g st, View f g st → f.ctx.sp = spOf st)
    (hstep : ∀ f g st e, View f g st → link st e = true →
      ∃ f', step env mem (symbolise env f) g = some f' ∧ View f' (some (symbolise env f)) (next st e) ∧ Good e f')
    (hend : ∀ f g st, View f g st → endp st = true → step env mem (symbolise env f) g = none) :
    ∀ (chain : List Exp) (n : Nat) (f : Frame) (g : Option Frame) (st : σ),
      View f g st → preChain (fun st => mem.inRange (spOf st)) link endp next st chain = true →
      need mem f ≤ n →
      ∃ frames, walkLoop env mem n f g = symbolise env f :: frames ∧
        All2 (fun fr e => ∃ f', fr = symbolise env f' ∧ Good e f') frames chain := by
  intro chain
  induction chain with
  | nil =>
    intro n f g st hv hp hn
    cases n with
    | zero => have := need_pos mem f; omega
    | succ n =>
      refine ⟨[], ?_, All2.nil⟩
      simp only [walkLoop]
      split
      · rfl
      · rename_i hin
        simp only [symbolise_ctx, Bool.not_eq_true, Bool.not_eq_false] at hin
        simp only [preChain, Bool.or_eq_true, Bool.not_eq_true'] at hp
        have he : endp st = true := by
          rcases hp with hp | hp
          · rw [← hsp f g st hv] at hp; rw [hp] at hin; cases hin
          · exact hp
        rw [hend f g st hv he]
  | cons e rest ih =>
    intro n f g st hv hp hn
    cases n with
    | zero => have := need_pos mem f; omega
    | succ n =>
      simp only [preChain, Bool.and_eq_true] at hp
      obtain ⟨⟨hin, hl⟩, hrest⟩ := hp
      obtain ⟨f', hst, hv', hg⟩ := hstep f g st e hv hl
      have hin' : mem.inRange (symbolise env f).ctx.sp = true := by
        simp only [symbolise_ctx, hsp f g st hv, hin]
      have hneed := need_step hin' (step_link hst)
      simp only [need_symbolise] at hneed
      obtain ⟨frames, hw, hall⟩ := ih n f' (some (symbolise env f)) (next st e) hv' hrest (by omega)
      refine ⟨symbolise env f' :: frames, ?_, All2.cons ⟨f', rfl, hg⟩ hall⟩
      simp only [walkLoop, hin', Bool.not_true, Bool.false_eq_true, ↓reduceIte, hst, hw]

/-! ### the instance: x86, `PreW`, techniques `win` / `fp` / `scan` -/

/-- the techniques covered here (`cfi`: canonical STACK CFI frames are the other builder's part) -/
def techOK (e : Exp) : Bool := e.tech == "win" || e.tech == "fp" || e.tech == "scan"

/-- the label `walk_stack` gives a frame of technique `e.tech` (`win` ↦ `cfi`, as the code labels
    frames found through STACK WIN records) -/
def x86Trust (e : Exp) : Trust := if e.tech = "win" then .cfi else if e.tech = "fp" then .fp else .scan

theorem x86Trust_ne_context (e : Exp) : x86Trust e ≠ .context := by
  unfold x86Trust; split
  · decide
  · split <;> decide

theorem symbOfW_none (w : World) (mtbl : List RangeMap.Entry) (ftbls : List (List RangeMap.Entry))
    (wts : List WinTables) (i : Nat) (h : (symbOfW w mtbl ftbls wts i).1 = none) :
    (symbOfW w mtbl ftbls wts i).2 = none := by
  unfold symbOfW at h ⊢
  cases hm : moduleAt mtbl i with
  | none => rfl
  | some j =>
    simp only [hm] at h
    split at h <;> cases h

theorem mkEnvW_symb_none (os : Os) (w : World) (wins : List (List Win.Rec)) (mem : Mem) (i : Nat)
    (h : ((mkEnvW .x86 os w wins mem).symb i).1 = none) : ((mkEnvW .x86 os w wins mem).symb i).2 = none :=
  symbOfW_none _ _ _ _ i h

/-- the frame a step produced is again in the state `PreW` moves to -/
theorem WinView.next {env : Env} (hsymb : ∀ i, (env.symb i).1 = none → (env.symb i).2 = none)
    {f : Frame} {g : Option Frame} {st : MState} (hv : WinView f g st) {t : Trust} {e : Exp} {f' : Frame}
    (hg : FrameIs t e f') (ht : t ≠ .context) :
    WinView f' (some (symbolise env f)) (nextState env .x86 st e) := by
  refine ⟨hg.instr, hg.ip, hg.sp, hg.vip, hg.vsp, hg.fp, ?_, rfl, ?_, ?_, hg.wf, hg.m64⟩
  · intro r v hl
    have hmem : (r, v) ∈ e.regs := by
      obtain ⟨l1, l2, hh, _⟩ := List.lookup_eq_some_iff.mp hl
      have hh' : e.regs = l1 ++ (r, v) :: l2 := hh
      rw [hh']; simp
    exact (hg.regs (r, v) hmem).2
  · show gcpOf (some (symbolise env f)) = ((env.symb st.instr).2.map (·.psize)).getD 0
    simp only [gcpOf, Option.bind_some, symbolise, hv.instr]
    cases h1 : (env.symb st.instr).1 with
    | none => simp [hsymb _ h1]
    | some j => simp
  · constructor
    · intro h; cases h
    · intro h; rw [hg.trust] at h; exact absurd h ht

theorem WinView.symbolise {env : Env} {f : Frame} {g : Option Frame} {st : MState} (hv : WinView f g st) :
    WinView (symbolise env f) g st :=
  ⟨hv.instr, hv.ip, hv.sp, hv.vip, hv.vsp, hv.fp, hv.regs, hv.first, hv.gcp, hv.trust, hv.wf, hv.m64⟩

/-- one link of an x86 chain: technique `win`, `fp` or `scan`, and `PreW`'s condition for it -/
def linkX (w : World) (wins : List (List Win.Rec)) (os : Os) (mem : Mem) (st : MState) (e : Exp) : Bool :=
  techOK e && linkMixed w wins (mkEnvW .x86 os w wins mem) .x86 os mem st e

/-- **one `get_caller_frame`** on a frame in state `st`, for an expected caller `e` of technique
    `win`, `fp` or `scan` -/
theorem step_x86_mixed {os : Os} {w : World} {wins : List (List Win.Rec)} {mem : Mem}
    (f : Frame) (g : Option Frame) (st : MState) (e : Exp)
    (hv : WinView f g st) (hl : linkX w wins os mem st e = true) :
    ∃ f', step (mkEnvW .x86 os w wins mem) mem (symbolise (mkEnvW .x86 os w wins mem) f) g = some f' ∧
      WinView f' (some (symbolise (mkEnvW .x86 os w wins mem) f)) (nextState (mkEnvW .x86 os w wins mem) .x86 st e) ∧
      FrameIs (x86Trust e) e f' := by
  have hvs := hv.symbolise (env := mkEnvW .x86 os w wins mem)
  suffices h : ∃ f', step (mkEnvW .x86 os w wins mem) mem (symbolise (mkEnvW .x86 os w wins mem) f) g = some f' ∧
      FrameIs (x86Trust e) e f' by
    obtain ⟨f', h1, h2⟩ := h
    exact ⟨f', h1, hv.next (mkEnvW_symb_none os w wins mem) h2 (x86Trust_ne_context e), h2⟩
  simp only [linkX, linkMixed, Bool.and_eq_true, decide_eq_true_eq, Bool.or_eq_true, Arch.leafOk,
    Bool.and_false, Bool.false_and, or_false, Bool.false_eq_true] at hl
  obtain ⟨hok, ⟨⟨⟨hret, hspm⟩, hretm⟩, hsp⟩, hl⟩ := hl
  have hspm' : e.sp ≤ U32MAX := hspm
  have hretm' : e.ret ≤ U32MAX := hretm
  by_cases hw : e.tech = "win"
  · rw [if_pos hw] at hl
    simp only [Bool.and_eq_true, beq_iff_eq, true_and] at hl
    have ht : x86Trust e = .cfi := by simp [x86Trust, hw]
    rw [ht]
    cases hq : winAt w wins st.instr with
    | mk fd fpo =>
      cases fd with
      | some si => exact step_win_fd hvs hq hl hret hretm' hspm' hsp
      | none =>
        cases fpo with
        | some si => exact step_win_fpo hvs hq hl hret hretm' hspm' hsp
        | none => unfold linkWinM at hl; simp [hq] at hl
  · by_cases hf : e.tech = "fp"
    · have hc : ¬ e.tech = "cfi" := by rw [hf]; decide
      rw [if_neg hw, if_neg hc, if_pos hf] at hl
      simp only [Bool.and_eq_true] at hl
      have ht : x86Trust e = .fp := by simp [x86Trust, hf]
      rw [ht]
      obtain ⟨⟨⟨hn, _⟩, hregs⟩, hl⟩ := hl
      cases hfp : st.fp with
      | none => simp [hfp] at hl
      | some f0 =>
        simp only [hfp] at hl
        exact step_mixed_fp hvs hn hfp hl hregs hretm' hspm'
    · have hs : e.tech = "scan" := by
        simp only [techOK, Bool.or_eq_true, beq_iff_eq] at hok
        rcases hok with (h | h) | h
        · exact absurd h hw
        · exact absurd h hf
        · exact h
      have hc : ¬ e.tech = "cfi" := by rw [hs]; decide
      rw [if_neg hw, if_neg hc, if_neg hf, if_pos hs] at hl
      simp only [Bool.and_eq_true] at hl
      have ht : x86Trust e = .scan := by simp [x86Trust, hs]
      rw [ht]
      obtain ⟨⟨hn, hdead⟩, hl⟩ := hl
      exact step_mixed_scan hvs hn hdead hl hret hretm'

/-- the generated end of an x86 stack: no technique finds a caller -/
theorem step_x86_end {os : Os} {w : World} {wins : List (List Win.Rec)} {mem : Mem}
    (f : Frame) (g : Option Frame) (st : MState)
    (hv : WinView f g st) (he : endMixed w wins .x86 os mem st = true) :
    step (mkEnvW .x86 os w wins mem) mem (symbolise (mkEnvW .x86 os w wins mem) f) g = none := by
  have hvs := hv.symbolise (env := mkEnvW .x86 os w wins mem)
  simp only [endMixed, Bool.and_eq_true, decide_eq_true_eq, Bool.or_eq_true, reduceCtorEq, beq_iff_eq,
    false_and, false_or, or_false, Arch.ptr, Consts.ptr_x86] at he
  obtain ⟨⟨⟨hn, hbase⟩, hz⟩, he⟩ := he
  have hcfi : (mkEnvW .x86 os w wins mem).cfi (symbolise (mkEnvW .x86 os w wins mem) f) g = none :=
    cfi_none_of_noRecord (by rw [hvs.instr]; exact hn)
  have hz' : zerosFrom mem 4 (symbolise (mkEnvW .x86 os w wins mem) f).ctx.sp = true := by
    rw [hvs.sp]; exact hz
  rcases he with hdead | hrec
  · simp only [fpDead, hasFpTech, Bool.not_true, Bool.false_or, Bool.or_eq_true, Option.isNone_iff_eq_none,
      Bool.and_eq_true, beq_iff_eq, decide_eq_true_eq] at hdead
    refine step_end_x86_dead rfl hcfi hz' ?_
    rcases hdead with h | ⟨⟨h, _⟩, hb⟩
    · left
      have := hv.fp
      rw [h] at this
      show f.ctx.hasLit "ebp" = false
      by_cases hl : f.ctx.hasLit "ebp" = true
      · simp [hl] at this
      · simpa using hl
    · right
      exact ⟨(hvs.fp_some h).2.1, hb⟩
  · cases hfp : st.fp with
    | none => simp [hfp] at hrec
    | some f0 =>
      simp only [hfp, Bool.and_eq_true, decide_eq_true_eq, beq_iff_eq] at hrec
      obtain ⟨⟨⟨⟨_, hr1⟩, hr2⟩, hlt⟩, _⟩ := hrec
      obtain ⟨h1, h2, _⟩ := hvs.fp_some hfp
      have hlt' : f0 < U32MAX - 8 := by
        have hlt2 := of_decide_eq_true hlt
        have : Arch.x86.regMax = 4294967295 := rfl
        simp only [U32MAX]; omega
      refine step_end_x86_record (sp := st.sp) (fp := f0) rfl hcfi ⟨hvs.sp, h2, hvs.m64, h1⟩ ?_
      simp only [endFp, Bool.and_eq_true, decide_eq_true_eq, beq_iff_eq]
      exact ⟨⟨hbase, hz⟩, ⟨hr1, hr2⟩, hlt'⟩

theorem lookup_filter_map {p : String → Bool} {gv : String → Nat} {r : String} {v : Nat} :
    ∀ (l : List String), ((l.filter p).map fun x => (x, gv x)).lookup r = some v → p r = true ∧ gv r = v := by
  intro l
  induction l with
  | nil => intro h; cases h
  | cons a l ih =>
    intro h
    by_cases hp : p a = true
    · simp only [List.filter_cons, hp, if_true, List.map_cons, List.lookup_cons] at h
      by_cases hra : r = a
      · subst hra
        simp only [beq_self_eq_true, Option.some.injEq] at h
        exact ⟨hp, h⟩
      · have hb : (r == a) = false := by simpa using hra
        rw [hb] at h
        exact ih h
    · simp only [List.filter_cons, hp, Bool.false_eq_true, if_false] at h
      exact ih h

/-- the context frame is in `PreW`'s initial state -/
theorem winView_context (ctx : Ctx) (hip : ctx.has .x86 "eip" = true) (hsp : ctx.has .x86 "esp" = true)
    (hm : ctx.m64 = false) (hwf : ∀ r ∈ x86Regs, ctx.raw .x86 r ≤ U32MAX) :
    WinView (Frame.ofCtx ctx .context) none (initState .x86 ctx) := by
  refine ⟨rfl, rfl, rfl, ?_, ?_, ?_, ?_, rfl, rfl, ?_, hwf, hm⟩
  · show ctx.hasLit "eip" = true
    rw [← has_x86 ctx (by decide)]; exact hip
  · show ctx.hasLit "esp" = true
    rw [← has_x86 ctx (by decide)]; exact hsp
  · show (if ctx.has .x86 "ebp" = true then some (ctx.raw .x86 "ebp") else none) = _
    rw [has_x86 ctx (by decide)]; rfl
  · intro r v hl
    exact lookup_filter_map (p := fun r => decide (r ≠ Arch.x86.fpName ∧ r ≠ Arch.x86.spName ∧ ctx.hasLit r = true))
      (gv := fun r => ctx.raw .x86 r) _ hl |> fun ⟨h1, h2⟩ => ⟨(of_decide_eq_true h1).2.2, h2⟩
  · exact ⟨fun _ => rfl, fun _ => rfl⟩

theorem preMixedFrom_preChain (w : World) (wins : List (List Win.Rec)) (os : Os) (mem : Mem) :
    ∀ (chain : List Exp) (st : MState), chain.all techOK = true →
      preMixedFrom w wins (mkEnvW .x86 os w wins mem) .x86 os mem st chain = true →
      preChain (fun st => mem.inRange st.sp) (linkX w wins os mem) (endMixed w wins .x86 os mem)
        (nextState (mkEnvW .x86 os w wins mem) .x86) st chain = true := by
  intro chain
  induction chain with
  | nil => intro st _ h; exact h
  | cons e rest ih =>
    intro st ht h
    simp only [List.all_cons, Bool.and_eq_true] at ht
    simp only [preMixedFrom, Bool.and_eq_true] at h
    simp only [preChain, linkX, Bool.and_eq_true]
    exact ⟨⟨h.1.1, ht.1, h.1.2⟩, ih _ ht.2 h.2⟩

/-- **the walk loop on an x86 chain** of `win` / `fp` / `scan` frames, any depth -/
theorem walkLoop_x86_chain {os : Os} {w : World} {wins : List (List Win.Rec)} {mem : Mem}
    (chain : List Exp) (n : Nat) (f : Frame) (g : Option Frame) (st : MState)
    (hv : WinView f g st) (ht : chain.all techOK = true)
    (hp : preMixedFrom w wins (mkEnvW .x86 os w wins mem) .x86 os mem st chain = true)
    (hn : need mem f ≤ n) :
    ∃ frames, walkLoop (mkEnvW .x86 os w wins mem) mem n f g =
        symbolise (mkEnvW .x86 os w wins mem) f :: frames ∧
      All2 (fun fr e => ∃ f', fr = symbolise (mkEnvW .x86 os w wins mem) f' ∧ FrameIs (x86Trust e) e f')
        frames chain :=
  walkLoop_chain_rel (env := mkEnvW .x86 os w wins mem) (mem := mem) WinView (linkX w wins os mem)
    (endMixed w wins .x86 os mem) (fun st => st.sp) (nextState (mkEnvW .x86 os w wins mem) .x86)
    (fun e f' => FrameIs (x86Trust e) e f')
    (fun _ _ _ h => h.sp) step_x86_mixed step_x86_end chain n f g st hv
    (preMixedFrom_preChain w wins os mem chain st ht hp) hn

end MdModel.Walk
