/-
  Helper lemmas for C04, chains whose technique changes from frame to frame (part 3): x86 with
  STACK WIN records present — the STACK CFI branch of the dispatcher.

  In `mkEnvW` an x86 frame reaches STACK CFI through `SymbolFile::walk_frame`: no frame-data and no
  FPO record at the lookup address ⇒ `walk_with_stack_cfi` on the walker as STACK WIN left it
  (`cfiWalkW`, caller registers converted through C07's `Caller`). `step_x86_cfi` is the fourth
  branch of `step_x86_mixed`; `walkLoop_x86_chain4` the chain for all four techniques.
-/
import MdProofs.Lemmas.WalkMixedView
set_option linter.unusedSimpArgs false
namespace MdModel.Walk
open MdModel MdModel.Win

/-- where a STACK CFI record is found: module, symbol file, table entry -/
theorem cfiRecordAt_cases {w : World} {instr : Nat} {rec : CfiRec} (h : cfiRecordAt w instr = some rec) :
    ∃ i m sf j, moduleAt (modTable w.mods) instr = some i ∧ w.mods[i]? = some m ∧
      w.syms[i]? = some (some sf) ∧ ¬ instr < m.base ∧
      RangeMap.get (cfiTable sf) (instr - m.base) = some j ∧ sf.cfis[j]? = some rec := by
  unfold cfiRecordAt at h
  split at h
  · cases h
  · rename_i i hi
    split at h
    · rename_i m sf hm hsf
      have hs : w.syms[i]? = some (some sf) := by
        cases hq : w.syms[i]? with
        | none => rw [hq] at hsf; cases hsf
        | some o => rw [hq] at hsf; simp only [Option.join_some] at hsf; rw [hsf]
      split at h
      · cases h
      · rename_i hlt
        split at h
        · rename_i j hj
          exact ⟨i, m, sf, j, hi, hm, hs, hlt, hj, h⟩
        · cases h
    · cases h

/-- `walk_frame` on an address without STACK WIN record, with a STACK CFI record without delta
    lines: the record's rules, on the walker as the (empty) STACK WIN step left it -/
theorem cfiWalkW_of_record {w : World} {wins : List (List Win.Rec)} {mem : Mem} {f : Frame} {g : Option Frame}
    {rec : CfiRec} (h1 : (winAt w wins f.instruction).1.isNone = true)
    (h2 : (winAt w wins f.instruction).2.isNone = true)
    (hrec : cfiRecordAt w f.instruction = some rec) (hadds : rec.adds = []) :
    cfiWalkW w (modTable w.mods) (cfiTables w) (wins.map winTables) mem f g =
      (walkCfi { arch := .x86, callee := f.ctx, mem := mem }
        { ctx := { ctxOfCaller (callerOfCtx f.ctx) with valid := f.ctx.valid }, valid := (callerOfCtx f.ctx).valid }
        rec.init []).map fun o => { o.ctx with valid := some o.valid } := by
  obtain ⟨i, m, sf, j, hi, hm, hs, hlt, hj, hget⟩ := cfiRecordAt_cases hrec
  have hct : (cfiTables w)[i]? = some (cfiTable sf) := by
    simp only [cfiTables, List.getElem?_map, hs, Option.map_some]
  have hat := winAt_none (wins := wins) h1 h2 hi hm hs hlt
  unfold cfiWalkW
  simp only [hi, hm, hs, Option.join_some, hct, if_neg hlt, hat, winResult]
  unfold walkFrameCfi
  simp only [if_neg hlt, hj, hget, hadds, List.mergeSort_nil, List.takeWhile_nil, List.map_nil]
  rfl

theorem calleeSaved_x86Regs {r : String} (h : Arch.x86.calleeSaved.contains r = true) : r ∈ x86Regs := by
  have : r ∈ Arch.x86.calleeSaved := by simpa using h
  simp only [Arch.calleeSaved, List.mem_cons, List.not_mem_nil, or_false] at this
  rcases this with rfl | rfl | rfl | rfl <;> decide

theorem x86Regs_canon {r : String} (h : r ∈ x86Regs) : Arch.x86.canon r = some r := by
  simp only [x86Regs, List.mem_cons, List.not_mem_nil, or_false] at h
  rcases h with rfl | rfl | rfl | rfl | rfl | rfl | rfl | rfl | rfl | rfl <;> decide

/-- the caller half handed to STACK CFI holds the callee's register values (32 bit) -/
theorem ctxOfCaller_callerOfCtx_raw {c : Ctx} (hwf : ∀ r ∈ x86Regs, c.raw .x86 r ≤ U32MAX) {r : String}
    (hr : r ∈ x86Regs) (v : Option (List String)) :
    ({ ctxOfCaller (callerOfCtx c) with valid := v } : Ctx).raw .x86 r = c.raw .x86 r := by
  have : ({ ctxOfCaller (callerOfCtx c) with valid := v } : Ctx).raw .x86 r = (ctxOfCaller (callerOfCtx c)).raw .x86 r := rfl
  rw [this, ctxOfCaller_raw _ hr, callerOfCtx_vals c hr, Option.getD_some, u32_toNat_ofNat (hwf r hr)]

theorem slotWord_le (a : Arch) (mem : Mem) (cfa lit : Nat) : slotWord a mem cfa lit ≤ a.regMax := by
  unfold slotWord
  cases hrd : mem.read ((cfa + lit) % W64) a.ptr with
  | none => exact Nat.zero_le _
  | some v => exact read_le_regMax hrd

/-- **one x86 frame through a canonical STACK CFI record, STACK WIN records present elsewhere** -/
theorem step_x86_cfi {os : Os} {w : World} {wins : List (List Win.Rec)} {mem : Mem} {f : Frame}
    {g : Option Frame} {st : MState} {e : Exp}
    (hv : WinView f g st) (h1 : (winAt w wins st.instr).1.isNone = true)
    (h2 : (winAt w wins st.instr).2.isNone = true)
    (hl : linkCfiM w .x86 (mkEnvW .x86 os w wins mem).mask mem st e = true)
    (hret : 4096 ≤ e.ret) (hretm : e.ret ≤ U32MAX) (hspm : e.sp ≤ U32MAX) (hsp : st.sp < e.sp) :
    ∃ f', step (mkEnvW .x86 os w wins mem) mem f g = some f' ∧ FrameIs .cfi e f' := by
  have hspget : f.ctx.get .x86 Arch.x86.spName = some st.sp := by
    show f.ctx.get .x86 "esp" = _
    rw [get_x86 f.ctx (by decide), hv.vsp, raw_x86_esp, hv.sp]; rfl
  obtain ⟨rec, ret0, saved, hrec, hadds, hwalk, hret0, hnd, hsv, hfpc, hregsc⟩ :=
    walkCfi_of_link hl (c := f.ctx) hspget hspm (by intro _ h; cases h)
      { ctx := { ctxOfCaller (callerOfCtx f.ctx) with valid := f.ctx.valid }, valid := (callerOfCtx f.ctx).valid }
  have hret0' : ret0 = e.ret := hret0
  subst hret0'
  have hcw := cfiWalkW_of_record (mem := mem) (g := g) (wins := wins) (f := f)
    (by rw [hv.instr]; exact h1) (by rw [hv.instr]; exact h2) (by rw [hv.instr]; exact hrec) hadds
  rw [hwalk, Option.map_some] at hcw
  generalize ho : canonOut Arch.x86 mem
    { ctx := { ctxOfCaller (callerOfCtx f.ctx) with valid := f.ctx.valid }, valid := (callerOfCtx f.ctx).valid }
    e.sp e.ret saved = o at hcw
  have hcfi : (mkEnvW .x86 os w wins mem).cfi f g = some { o.ctx with valid := some o.valid } := by
    rw [mkEnvW_cfi_x86 os w wins mem f g hv.vsp]; exact hcw
  -- validity and values after the rules
  have hmemV : ∀ n, n ∈ o.valid ↔
      (n ∈ x86CalleeSaved ∧ f.ctx.hasLit n = true) ∨ n = "esp" ∨ n = "eip" ∨ n ∈ saved.map (·.1) := by
    intro n
    rw [← ho, canonOut_valid]
    show n ∈ (callerOfCtx f.ctx).valid ∨ _ ↔ _
    rw [callerOfCtx_valid]
    rfl
  have hraw : ∀ r, r ∈ x86Regs → r ≠ "eip" → r ≠ "esp" →
      o.ctx.raw .x86 r = match saved.lookup r with
        | some lit => slotWord .x86 mem e.sp lit
        | none => f.ctx.raw .x86 r := by
    intro r hr h1 h2
    rw [← ho, canonOut_raw hnd (x86Regs_canon hr) h1 h2]
    cases saved.lookup r with
    | some lit => rfl
    | none => exact ctxOfCaller_callerOfCtx_raw hv.wf hr _
  have hip : o.ctx.ip = e.ret := by rw [← ho]; rfl
  have hsp' : o.ctx.sp = e.sp := by rw [← ho]; rfl
  have hlit : ∀ n, ({ o.ctx with valid := some o.valid } : Ctx).hasLit n = o.valid.contains n := fun _ => rfl
  have hrawv : ∀ r, ({ o.ctx with valid := some o.valid } : Ctx).raw .x86 r = o.ctx.raw .x86 r := fun _ => rfl
  refine ⟨{ ctx := { o.ctx with valid := some o.valid }, trust := .cfi, instruction := e.ret - 1 }, ?_, ?_⟩
  · unfold step
    simp only [effArch, show (mkEnvW Arch.x86 os w wins mem).arch = .x86 from rfl, Arch.isMips,
      Bool.false_eq_true, if_false, candidate, hcfi]
    simp only [epilogue, nullish_eq, hip, hsp', Arch.adj, Consts.adj_x86, Arch.leafOk, Bool.false_and,
      Bool.not_false, and_true]
    rw [if_neg (by omega), if_neg (by rw [hv.sp]; omega)]
  · refine ⟨hip, hsp', rfl, rfl, ?_, ?_, ?_, ?_, ?_, ?_⟩
    · rw [hlit]; simpa using (hmemV "eip").mpr (Or.inr (Or.inr (Or.inl rfl)))
    · rw [hlit]; simpa using (hmemV "esp").mpr (Or.inr (Or.inl rfl))
    · -- the frame pointer
      rw [hlit, hrawv, hraw "ebp" (by decide) (by decide) (by decide)]
      have hfpc' : match saved.lookup "ebp" with
          | some lit => e.fp = some (slotWord .x86 mem e.sp lit)
          | none => e.fp = st.fp := by
        have := hfpc
        show match saved.lookup Arch.x86.fpName with | some lit => _ | none => _
        cases hlk : saved.lookup Arch.x86.fpName with
        | some lit => rw [hlk] at this; exact this
        | none =>
          rw [hlk] at this
          rw [this]
          cases st.fp <;> rfl
      cases hlk : saved.lookup "ebp" with
      | some lit =>
        rw [hlk] at hfpc'
        have : o.valid.contains "ebp" = true := by
          simpa using (hmemV "ebp").mpr (Or.inr (Or.inr (Or.inr (List.mem_map.mpr ⟨_, lookup_some_mem hlk, rfl⟩))))
        simp only [this, if_true]
        exact hfpc'
      | none =>
        rw [hlk] at hfpc'
        have hnot : "ebp" ∉ saved.map (·.1) := lookup_none_not_mem hlk
        have hiff : o.valid.contains "ebp" = f.ctx.hasLit "ebp" := by
          rw [Bool.eq_iff_iff]
          simp only [List.contains_iff_mem, hmemV]
          constructor
          · rintro (h | h | h | h)
            · exact h.2
            · exact absurd h (by decide)
            · exact absurd h (by decide)
            · exact absurd h hnot
          · intro h; exact Or.inl ⟨by decide, h⟩
        rw [hiff, hfpc']
        exact hv.fp
    · -- the claimed registers
      intro p hp
      obtain ⟨q1, q2, q3, q4⟩ := hregsc p hp
      have hx := calleeSaved_x86Regs q1
      have hne1 : p.1 ≠ "eip" := by
        intro h; rw [h] at q1; revert q1; decide
      have hne2 : p.1 ≠ "esp" := q2
      refine ⟨hx, ?_, ?_⟩
      · rw [hlit]
        cases hlk : saved.lookup p.1 with
        | some lit =>
          simpa using (hmemV p.1).mpr (Or.inr (Or.inr (Or.inr (List.mem_map.mpr ⟨_, lookup_some_mem hlk, rfl⟩))))
        | none =>
          rw [hlk] at q4
          obtain ⟨r1, _⟩ := hv.regs p.1 p.2 q4
          have hcs : p.1 ∈ x86CalleeSaved := by
            have : p.1 ∈ Arch.x86.calleeSaved := by simpa using q1
            exact this
          simpa using (hmemV p.1).mpr (Or.inl ⟨hcs, r1⟩)
      · rw [hrawv, hraw p.1 hx hne1 hne2]
        cases hlk : saved.lookup p.1 with
        | some lit => rw [hlk] at q4; exact q4
        | none =>
          rw [hlk] at q4
          exact (hv.regs p.1 p.2 q4).2
    · -- 32-bit values
      intro r hr
      rw [hrawv]
      by_cases he1 : r = "eip"
      · subst he1
        show o.ctx.ip ≤ U32MAX
        rw [hip]; exact hretm
      · by_cases he2 : r = "esp"
        · subst he2
          show o.ctx.sp ≤ U32MAX
          rw [hsp']; exact hspm
        · rw [hraw r hr he1 he2]
          cases saved.lookup r with
          | some lit => exact slotWord_le .x86 mem e.sp lit
          | none => exact hv.wf r hr
    · rw [← ho]; rfl

/-! ### the dispatcher with all four techniques -/

theorem x86Trust_eq_techTrust {e : Exp} (h : techOK e = true) : x86Trust e = techTrust e := by
  simp only [techOK, Bool.or_eq_true, beq_iff_eq] at h
  unfold x86Trust techTrust
  rcases h with (h | h) | h <;> simp [h]

/-- **one `get_caller_frame`** on an x86 frame in state `st`, for an expected caller of ANY of the
    four techniques (`win`, `cfi`, `fp`, `scan`) — `PreW`'s own link predicate -/
theorem step_x86_mixed4 {os : Os} {w : World} {wins : List (List Win.Rec)} {mem : Mem}
    (f : Frame) (g : Option Frame) (st : MState) (e : Exp)
    (hv : WinView f g st)
    (hl : linkMixed w wins (mkEnvW .x86 os w wins mem) .x86 os mem st e = true) :
    ∃ f', step (mkEnvW .x86 os w wins mem) mem (symbolise (mkEnvW .x86 os w wins mem) f) g = some f' ∧
      WinView f' (some (symbolise (mkEnvW .x86 os w wins mem) f)) (nextState (mkEnvW .x86 os w wins mem) .x86 st e) ∧
      FrameIs (techTrust e) e f' := by
  by_cases hok : techOK e = true
  · have hlx : linkX w wins os mem st e = true := by simp only [linkX, hok, hl, Bool.and_self]
    obtain ⟨f', h1, h2, h3⟩ := step_x86_mixed f g st e hv hlx
    exact ⟨f', h1, h2, x86Trust_eq_techTrust hok ▸ h3⟩
  · have hvs := hv.symbolise (env := mkEnvW .x86 os w wins mem)
    simp only [techOK, Bool.or_eq_true, beq_iff_eq, not_or] at hok
    obtain ⟨⟨hw, hf⟩, hs⟩ := hok
    have hl' := hl
    simp only [linkMixed, Bool.and_eq_true, decide_eq_true_eq, Bool.or_eq_true, Arch.leafOk,
      Bool.and_false, Bool.false_and, or_false, Bool.false_eq_true, if_neg hw] at hl'
    obtain ⟨⟨⟨⟨hret, hspm⟩, hretm⟩, hsp⟩, hl'⟩ := hl'
    by_cases hc : e.tech = "cfi"
    · rw [if_pos hc] at hl'
      simp only [Bool.and_eq_true] at hl'
      obtain ⟨⟨h1, h2⟩, hlc⟩ := hl'
      have ht : techTrust e = .cfi := by simp [techTrust, hc]
      obtain ⟨f', hst, hfi⟩ := step_x86_cfi (os := os) hvs h1 h2 hlc hret hretm hspm hsp
      rw [ht]
      exact ⟨f', hst, hv.next (mkEnvW_symb_none os w wins mem) hfi (by decide), hfi⟩
    · rw [if_neg hc, if_neg hf, if_neg hs] at hl'
      cases hl'

theorem preMixedFrom_preChain4 (w : World) (wins : List (List Win.Rec)) (os : Os) (mem : Mem) :
    ∀ (chain : List Exp) (st : MState),
      preMixedFrom w wins (mkEnvW .x86 os w wins mem) .x86 os mem st chain = true →
      preChain (fun st => mem.inRange st.sp) (linkMixed w wins (mkEnvW .x86 os w wins mem) .x86 os mem)
        (endMixed w wins .x86 os mem) (nextState (mkEnvW .x86 os w wins mem) .x86) st chain = true := by
  intro chain
  induction chain with
  | nil => intro st h; exact h
  | cons e rest ih =>
    intro st h
    simp only [preMixedFrom, Bool.and_eq_true] at h
    simp only [preChain, Bool.and_eq_true]
    exact ⟨⟨h.1.1, h.1.2⟩, ih _ h.2⟩

/-- **the walk loop on an x86 chain** of `win` / `cfi` / `fp` / `scan` frames, any order, any depth -/
theorem walkLoop_x86_chain4 {os : Os} {w : World} {wins : List (List Win.Rec)} {mem : Mem}
    (chain : List Exp) (n : Nat) (f : Frame) (g : Option Frame) (st : MState)
    (hv : WinView f g st)
    (hp : preMixedFrom w wins (mkEnvW .x86 os w wins mem) .x86 os mem st chain = true)
    (hn : need mem f ≤ n) :
    ∃ frames, walkLoop (mkEnvW .x86 os w wins mem) mem n f g =
        symbolise (mkEnvW .x86 os w wins mem) f :: frames ∧
      All2 (fun fr e => ∃ f', fr = symbolise (mkEnvW .x86 os w wins mem) f' ∧ FrameIs (techTrust e) e f')
        frames chain :=
  walkLoop_chain_rel (env := mkEnvW .x86 os w wins mem) (mem := mem) WinView
    (linkMixed w wins (mkEnvW .x86 os w wins mem) .x86 os mem)
    (endMixed w wins .x86 os mem) (fun st => st.sp) (nextState (mkEnvW .x86 os w wins mem) .x86)
    (fun e f' => FrameIs (techTrust e) e f')
    (fun _ _ _ h => h.sp) step_x86_mixed4 step_x86_end chain n f g st hv
    (preMixedFrom_preChain4 w wins os mem chain st hp) hn

end MdModel.Walk
