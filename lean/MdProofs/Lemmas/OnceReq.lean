/-
  C12 helper lemmas for the request-level model (`MdModel.OnceReq`): shape of the generated item
  programs, what `compS`/`consume` do on the expansion of one request, and transfer of the base
  machine's invariants through the simulation.
-/
import MdProofs.Lemmas.OnceSim
import MdProofs.Lemmas.OnceCount
import MdProofs.Lemmas.OnceKeys
import MdProofs.Lemmas.OncePriv
namespace MdModel.Once
open MdModel

/-- every request names a module of the table, and a file kind is one of the three `FileKind`s -/
def RCfg.WF (rc : RCfg) : Prop :=
  ∀ prog ∈ rc.progs, ∀ q ∈ prog, q.mod < rc.M ∧ ∀ fk, q.kind = .file fk → fk < 3

/-! ## shape of the item configuration -/

@[simp] theorem toICfg_ntasks (rc : RCfg) : (toICfg rc).ntasks = rc.T := by
  simp [toICfg, ICfg.ntasks, RCfg.T]

@[simp] theorem toICfg_sup (rc : RCfg) : (toICfg rc).sup = slotSup rc := rfl

@[simp] theorem toICfg_outcome (rc : RCfg) (k : Nat) : (toICfg rc).outcome k = (slotSup rc k).res := rfl

theorem toICfg_prog (rc : RCfg) {t : Nat} (ht : t < rc.T) :
    (toICfg rc).prog t = expandFrom rc t 0 (rc.prog t) := by
  simp [toICfg, ICfg.prog, List.getD_eq_getElem?_getD, ht]

theorem rc_prog_mem {rc : RCfg} {t : Nat} {q : Req} (h : q ∈ rc.prog t) : rc.prog t ∈ rc.progs := by
  unfold RCfg.prog at h ⊢
  by_cases ht : t < rc.progs.length
  · simp [List.getD_eq_getElem?_getD, ht]
  · simp [List.getD_eq_getElem?_getD, ht] at h

theorem key_lt {rc : RCfg} (hwf : rc.WF) {t : Nat} {q : Req} (h : q ∈ rc.prog t) :
    rc.key q.mod < rc.M :=
  keyIx_lt (hwf _ (rc_prog_mem h) q h).1

theorem fk_lt {rc : RCfg} (hwf : rc.WF) {t : Nat} {q : Req} (h : q ∈ rc.prog t) {fk : Nat}
    (hk : q.kind = .file fk) : fk < 3 :=
  (hwf _ (rc_prog_mem h) q h).2 fk hk

/-! ## transfer through the simulation -/

theorem rexec_log (rc : RCfg) (sched : List Nat) :
    (rexec rc sched).log =
      (exec (compile (toICfg rc)) sched (init (compile (toICfg rc)))).log :=
  sim_log (toICfg rc) sched

theorem rexec_abs (rc : RCfg) (sched : List Nat) :
    absS (toICfg rc) (rexec rc sched) =
      exec (compile (toICfg rc)) sched (init (compile (toICfg rc))) :=
  sim_exec (toICfg rc) sched

/-! ## `compS` on lists of items -/

/-- the slots looked up, statically, among `items` (after dropping `n`) -/
def staticSlots (ic : ICfg) : Nat → List Item → List Nat
  | _, [] => []
  | n + 1, _ :: r => staticSlots ic n r
  | 0, i :: r => i.slot :: staticSlots ic (skipOf (ic.outcome i.slot) i) r

/-- the skip count that is left over after `items` -/
def leftSkip (ic : ICfg) : Nat → List Item → Nat
  | n, [] => n
  | n + 1, _ :: r => leftSkip ic n r
  | 0, i :: r => leftSkip ic (skipOf (ic.outcome i.slot) i) r

/-- the (position, result) observations, statically, of `items` (positions count from `p`) -/
def staticObs (ic : ICfg) : Nat → Nat → List Item → List (Nat × Res)
  | _, _, [] => []
  | n + 1, p, _ :: r => staticObs ic n (p + 1) r
  | 0, p, i :: r => (p, ic.outcome i.slot) :: staticObs ic (skipOf (ic.outcome i.slot) i) (p + 1) r

theorem compS_append (ic : ICfg) (n : Nat) (items rest : List Item) :
    compS ic n (items ++ rest) = staticSlots ic n items ++ compS ic (leftSkip ic n items) rest := by
  induction items generalizing n with
  | nil => simp [staticSlots, leftSkip]
  | cons i r ih =>
    cases n with
    | succ n => simp only [List.cons_append, compS, staticSlots, leftSkip]; exact ih n
    | zero => simp only [List.cons_append, compS, staticSlots, leftSkip, List.cons.injEq, true_and]; exact ih _

theorem leftSkip_length (ic : ICfg) (l : List Item) : leftSkip ic l.length l = 0 := by
  induction l with
  | nil => rfl
  | cons a l ih => simp only [List.length_cons, leftSkip]; exact ih

theorem staticSlots_length (ic : ICfg) (l : List Item) : staticSlots ic l.length l = [] := by
  induction l with
  | nil => rfl
  | cons a l ih => simp only [List.length_cons, staticSlots]; exact ih

theorem staticObs_length (ic : ICfg) (p : Nat) (l : List Item) : staticObs ic l.length p l = [] := by
  induction l generalizing p with
  | nil => rfl
  | cons a l ih => simp only [List.length_cons, staticObs]; exact ih _

/-- items that never skip: everything is looked up, nothing is left over -/
theorem noskip_range' (ic : ICfg) (f : Nat → Item) (hf : ∀ p, (f p).skipOk = 0) (a d : Nat) :
    staticSlots ic 0 ((List.range' a d).map f) = (List.range' a d).map (fun p => (f p).slot) ∧
    leftSkip ic 0 ((List.range' a d).map f) = 0 ∧
    staticObs ic 0 a ((List.range' a d).map f) =
      (List.range' a d).map (fun p => (p, ic.outcome (f p).slot)) := by
  induction d generalizing a with
  | zero => simp [staticSlots, leftSkip, staticObs]
  | succ d ih =>
    have hs : ∀ r, skipOf r (f a) = 0 := by intro r; simp [skipOf, hf a]
    have := ih (a + 1)
    simp only [List.range'_succ, List.map_cons, staticSlots, leftSkip, staticObs, hs, this, and_self]

/-- the providers a walk consults from `a` on (`d` providers left): up to the first good one -/
def walkStop (good : Nat → Bool) : Nat → Nat → List Nat
  | _, 0 => []
  | a, d + 1 => a :: (if good a then [] else walkStop good (a + 1) d)

/-- the items of a walk: a provider whose symbols are found and have CFI ends the request -/
theorem walk_range' (ic : ICfg) (f : Nat → Item) (P : Nat) (cfi : Nat → Bool)
    (hsk : ∀ p, (f p).skipOk = if cfi p then P - 1 - p else 0) (a d : Nat) (had : a + d = P) :
    staticSlots ic 0 ((List.range' a d).map f) =
      (walkStop (fun p => ic.outcome (f p).slot == .ok && cfi p) a d).map (fun p => (f p).slot) ∧
    leftSkip ic 0 ((List.range' a d).map f) = 0 ∧
    staticObs ic 0 a ((List.range' a d).map f) =
      (walkStop (fun p => ic.outcome (f p).slot == .ok && cfi p) a d).map
        (fun p => (p, ic.outcome (f p).slot)) := by
  induction d generalizing a with
  | zero => simp [staticSlots, leftSkip, staticObs, walkStop]
  | succ d ih =>
    simp only [List.range'_succ, List.map_cons, staticSlots, leftSkip, staticObs, walkStop]
    by_cases hg : (ic.outcome (f a).slot == .ok && cfi a) = true
    · simp only [Bool.and_eq_true, beq_iff_eq] at hg
      have hskip : skipOf (ic.outcome (f a).slot) (f a) = ((List.range' (a + 1) d).map f).length := by
        simp only [skipOf, hg.1, if_true, hsk a, hg.2, List.length_map, List.length_range']
        omega
      rw [hskip, staticSlots_length, leftSkip_length, staticObs_length]
      simp [hg.1, hg.2]
    · have hskip : skipOf (ic.outcome (f a).slot) (f a) = 0 := by
        simp only [skipOf, hsk a]
        by_cases ho : ic.outcome (f a).slot = .ok
        · have : cfi a = false := by simpa [ho] using hg
          simp [this]
        · simp [ho]
      have hg' : (ic.outcome (f a).slot == .ok && cfi a) = false := by simpa using hg
      have := ih (a + 1) (by omega)
      rw [hskip]
      simp only [hg', this, Bool.false_eq_true, if_false, List.map_cons, and_self]

theorem walkStop_find (good : Nat → Bool) (a d : Nat) :
    (walkStop good a d).find? good = (List.range' a d).find? good := by
  induction d generalizing a with
  | zero => rfl
  | succ d ih =>
    simp only [walkStop, List.range'_succ, List.find?_cons]
    by_cases hg : good a = true
    · simp [hg]
    · have hg' : good a = false := by simpa using hg
      simp only [hg', Bool.false_eq_true, if_false]
      exact ih (a + 1)

/-- the providers consulted by a walk: `0..p*` for the first good `p*`, all of them if there is none -/
theorem walkStop_eq (good : Nat → Bool) (a d : Nat) :
    walkStop good a d =
      match (List.range' a d).find? good with
      | some p => List.range' a (p + 1 - a)
      | none => List.range' a d := by
  induction d generalizing a with
  | zero => simp [walkStop]
  | succ d ih =>
    simp only [walkStop, List.range'_succ, List.find?_cons]
    by_cases hg : good a = true
    · simp [hg, List.range'_succ]
    · have hg' : good a = false := by simpa using hg
      simp only [hg', Bool.false_eq_true, if_false]
      rw [ih (a + 1)]
      cases hf : (List.range' (a + 1) d).find? good with
      | none => rfl
      | some p =>
        simp only
        have hm := List.mem_of_find?_eq_some hf
        simp only [List.mem_range'_1] at hm
        have : p + 1 - a = (p + 1 - (a + 1)) + 1 := by omega
        rw [this, List.range'_succ]

/-- what a task has seen, replayed against the items of one request: the static observations, and
    the rest of what it has seen is left for the following requests -/
theorem consume_static (ic : ICfg) (n p : Nat) (items rest : List Item) (tail : List (Nat × Res)) :
    consume n p items ((compS ic n (items ++ rest)).map (expected (compile ic)) ++ tail) =
      some (staticObs ic n p items,
        (compS ic (leftSkip ic n items) rest).map (expected (compile ic)) ++ tail) := by
  induction items generalizing n p with
  | nil => simp [consume, staticObs, leftSkip]
  | cons i r ih =>
    cases n with
    | succ n => simp only [List.cons_append, compS, consume, staticObs, leftSkip]; exact ih n _
    | zero =>
      simp only [List.cons_append, compS, List.map_cons, consume, staticObs, leftSkip, expected,
        compile_outcome]
      rw [ih]
      rfl

/-- a slot that `compS` keeps is the slot of one of the items -/
theorem mem_compS {ic : ICfg} {n : Nat} {l : List Item} {s : Nat} (h : s ∈ compS ic n l) :
    ∃ i ∈ l, i.slot = s := by
  induction l generalizing n with
  | nil => simp [compS] at h
  | cons a l ih =>
    cases n with
    | succ n =>
      simp only [compS] at h
      obtain ⟨i, hi, he⟩ := ih h
      exact ⟨i, List.mem_cons_of_mem _ hi, he⟩
    | zero =>
      simp only [compS, List.mem_cons] at h
      rcases h with h | h
      · exact ⟨a, by simp, h.symm⟩
      · obtain ⟨i, hi, he⟩ := ih h
        exact ⟨i, List.mem_cons_of_mem _ hi, he⟩

/-! ## the items of a request -/

theorem mem_expandFrom {rc : RCfg} {t : Nat} {i : Item} {j : Nat} {qs : List Req}
    (h : i ∈ expandFrom rc t j qs) : ∃ q ∈ qs, ∃ j', i ∈ expandReq rc t j' q ∧
      qs[j' - j]? = some q ∧ j ≤ j' := by
  induction qs generalizing j with
  | nil => simp [expandFrom] at h
  | cons q qs ih =>
    simp only [expandFrom, List.mem_append] at h
    rcases h with h | h
    · exact ⟨q, by simp, j, h, by simp, Nat.le_refl _⟩
    · obtain ⟨q', hq', j', hj', hget, hle⟩ := ih h
      refine ⟨q', List.mem_cons_of_mem _ hq', j', hj', ?_, by omega⟩
      have : j' - j = (j' - (j + 1)) + 1 := by omega
      rw [this, List.getElem?_cons_succ]; exact hget

/-- every slot a compiled program mentions is the `symbols` slot of the key of a module some
    fill/walk request names, a file-cache slot of such a key, or the private slot of a
    `get_file_path` request -/
theorem slot_forms {rc : RCfg} (hwf : rc.WF) {s : Nat}
    (h : s ∈ allKeys (compile (toICfg rc))) :
    (∃ p t q, p < rc.P ∧ q ∈ rc.prog t ∧ (∀ fk, q.kind ≠ .file fk) ∧
      s = symSlot rc p (rc.key q.mod)) ∨
    (∃ p k fk, p < rc.P ∧ k < rc.M ∧ fk < 3 ∧ s = fileSlot rc p k fk) ∨
    (∃ t j p fk m, t < rc.T ∧ p < rc.P ∧ (rc.prog t)[j]? = some ⟨.file fk, m⟩ ∧
      s = privSlot rc t j p) := by
  obtain ⟨t, ht, hs⟩ := exists_task_of_key h
  rw [compile_ntasks, toICfg_ntasks] at ht
  rw [compile_prog, toICfg_prog rc ht] at hs
  obtain ⟨i, hi, rfl⟩ := mem_compS hs
  obtain ⟨q, hq, j, hij, hget, _⟩ := mem_expandFrom hi
  have hk := key_lt hwf hq
  simp only [expandReq, List.mem_map, List.mem_range] at hij
  obtain ⟨p, hp, rfl⟩ := hij
  cases hkind : q.kind with
  | fill => simp only [hkind]; exact Or.inl ⟨p, t, q, hp, hq, by simp [hkind], rfl⟩
  | walk => simp only [hkind]; exact Or.inl ⟨p, t, q, hp, hq, by simp [hkind], rfl⟩
  | file fk =>
    simp only [hkind]
    by_cases hc : (rc.prov p).cached = true
    · simp only [hc, if_true]
      exact Or.inr (Or.inl ⟨p, _, fk, hp, hk, fk_lt hwf hq hkind, rfl⟩)
    · simp only [hc]
      refine Or.inr (Or.inr ⟨t, j, p, fk, q.mod, ht, hp, ?_, rfl⟩)
      simp only [Nat.sub_zero] at hget
      rw [hget]
      cases q with
      | mk kind m => simp only at hkind; subst hkind; rfl

/-- a `symbols` slot of provider `p` that a compiled program mentions -/
theorem sym_slot_form {rc : RCfg} (hwf : rc.WF) {s p : Nat}
    (h : s ∈ allKeys (compile (toICfg rc))) (hs : isSym rc p s = true) :
    ∃ t q, q ∈ rc.prog t ∧ s = symSlot rc p (rc.key q.mod) := by
  rcases slot_forms hwf h with ⟨p', t, q, _, hq, _, rfl⟩ | ⟨p', k, fk, _, _, _, rfl⟩ |
    ⟨t, j, p', fk, m, _, _, _, rfl⟩
  · rw [isSym_symSlot rc (key_lt hwf hq)] at hs
    simp only [decide_eq_true_eq] at hs
    exact ⟨t, q, hq, by rw [hs]⟩
  · rw [isSym_fileSlot] at hs; cases hs
  · rw [isSym_privSlot] at hs; cases hs

/-- every supplier call / return in the log concerns a slot some compiled program mentions -/
theorem ret_mem_allKeys {cfg : Cfg} {s : State} (hA : InvA cfg s) (hC : CountInv s) {k : Nat}
    (hk : Event.ret k ∈ s.log) : k ∈ allKeys cfg := by
  apply nonEmpty_mem_allKeys hA
  have hc : 0 < retCount k s.log := List.count_pos_iff.mpr hk
  have := (hC k).2
  cases hs : s.slot k with
  | empty => simp [hs, Slot.isDone] at this; omega
  | held u => simp [hs, Slot.isDone] at this; omega
  | done r => simp [Slot.nonEmpty]

theorem call_mem_allKeys {cfg : Cfg} {s : State} (hA : InvA cfg s) (hC : CountInv s) {k : Nat}
    (hk : Event.call k ∈ s.log) : k ∈ allKeys cfg := by
  apply nonEmpty_mem_allKeys hA
  have hc : 0 < callCount k s.log := List.count_pos_iff.mpr hk
  have := (hC k).1
  by_cases hne : (s.slot k).nonEmpty = true
  · exact hne
  · simp [hne] at this; omega

/-! ## the statistics map -/

/-- distinct module keys of the table have distinct code-file leaf names (the hypothesis under
    which the leaf-name-keyed statistics tell the modules apart; finding F16 is its failure) -/
def RCfg.LeafDistinct (rc : RCfg) : Prop :=
  ∀ i j, i < rc.M → j < rc.M → leafOfKey rc (rc.key i) = leafOfKey rc (rc.key j) → rc.key i = rc.key j

theorem mem_statWrites {rc : RCfg} {p : Nat} {log : List Event} {l : Option Nat} {r : Res} :
    (l, r) ∈ statWrites rc p log ↔
      ∃ s, Event.ret s ∈ log ∧ isSym rc p s = true ∧ l = leafOfKey rc (s / 4 % rc.M) ∧
        r = (slotSup rc s).res := by
  simp only [statWrites, List.mem_filterMap]
  constructor
  · rintro ⟨e, he, h⟩
    cases e with
    | call _ => simp at h
    | seen _ _ _ => simp at h
    | ret s =>
      simp only at h
      split at h
      · rename_i hs
        simp only [Option.some.injEq, Prod.mk.injEq] at h
        exact ⟨s, he, hs, h.1.symm, h.2.symm⟩
      · cases h
  · rintro ⟨s, he, hs, rfl, rfl⟩
    exact ⟨_, he, by simp [hs]⟩

theorem statGet_some_mem {ws : List (Option Nat × Res)} {l : Option Nat} {r : Res}
    (h : statGet ws l = some r) : (l, r) ∈ ws := by
  simp only [statGet, Option.map_eq_some_iff] at h
  obtain ⟨e, he, rfl⟩ := h
  have hm := List.mem_of_find?_eq_some he
  have hp := List.find?_some he
  simp only [beq_iff_eq] at hp
  rw [← hp]
  exact List.mem_reverse.mp hm

theorem statGet_of_unique {ws : List (Option Nat × Res)} {l : Option Nat} {r : Res}
    (hex : ∃ r0, (l, r0) ∈ ws) (huniq : ∀ r', (l, r') ∈ ws → r' = r) : statGet ws l = some r := by
  obtain ⟨r0, hr0⟩ := hex
  have hsome : (ws.reverse.find? fun e => e.1 == l).isSome = true := by
    rw [List.find?_isSome]
    exact ⟨(l, r0), List.mem_reverse.mpr hr0, by simp⟩
  obtain ⟨e, he⟩ := Option.isSome_iff_exists.mp hsome
  have hm := List.mem_reverse.mp (List.mem_of_find?_eq_some he)
  have hp := List.find?_some he
  simp only [beq_iff_eq] at hp
  have : e = (l, e.2) := by rw [← hp]
  rw [this] at hm
  simp only [statGet, he, Option.map_some, Option.some.injEq]
  exact huniq _ hm

/-! ## one request: items, observations, combined answer -/

/-- the item of request `q` (request `j` of task `t`) at provider `p` -/
def reqItem (rc : RCfg) (t j : Nat) (q : Req) (p : Nat) : Item :=
  match q.kind with
  | .fill => ⟨symSlot rc p (rc.key q.mod), 0⟩
  | .walk => ⟨symSlot rc p (rc.key q.mod), if (rc.prov p).cfi (rc.key q.mod) then rc.P - 1 - p else 0⟩
  | .file fk =>
    ⟨if (rc.prov p).cached then fileSlot rc p (rc.key q.mod) fk else privSlot rc t j p, 0⟩

theorem expandReq_eq (rc : RCfg) (t j : Nat) (q : Req) :
    expandReq rc t j q = (List.range' 0 rc.P).map (reqItem rc t j q) := by
  unfold expandReq
  rw [List.range_eq_range']
  rfl

/-- the result provider `p`'s supplier gives for request `q` -/
def provRes (rc : RCfg) (q : Req) (p : Nat) : Res :=
  match q.kind with
  | .file fk => ((rc.prov p).file (rc.key q.mod) fk).res
  | _ => ((rc.prov p).sym (rc.key q.mod)).res

theorem reqItem_outcome {rc : RCfg} (hwf : rc.WF) {t j : Nat} (ht : t < rc.T) {q : Req}
    (hq : (rc.prog t)[j]? = some q) {p : Nat} (hp : p < rc.P) :
    (toICfg rc).outcome (reqItem rc t j q p).slot = provRes rc q p := by
  have hmem : q ∈ rc.prog t := List.mem_of_getElem? hq
  have hk := key_lt hwf hmem
  simp only [toICfg_outcome, reqItem, provRes]
  cases hkind : q.kind with
  | fill => simp only [slotSup_sym rc hk]
  | walk => simp only [slotSup_sym rc hk]
  | file fk =>
    simp only
    by_cases hc : (rc.prov p).cached = true
    · simp only [hc, if_true, slotSup_file rc hk (fk_lt hwf hmem hkind)]
    · simp only [hc]
      have hq' : (rc.prog t)[j]? = some ⟨.file fk, q.mod⟩ := by
        rw [hq]; cases q with
        | mk kind m => simp only at hkind; subst hkind; rfl
      simp only [Bool.false_eq_true, if_false, slotSup_priv rc ht hp hq']

theorem find?_congr_mem {α : Type} {l : List α} {p q : α → Bool} (h : ∀ x ∈ l, p x = q x) :
    l.find? p = l.find? q := by
  induction l with
  | nil => rfl
  | cons a l ih =>
    simp only [List.find?_cons, h a (by simp)]
    rw [ih (fun x hx => h x (List.mem_cons_of_mem _ hx))]

theorem filter_congr_mem {α : Type} {l : List α} {p q : α → Bool} (h : ∀ x ∈ l, p x = q x) :
    l.filter p = l.filter q := List.filter_congr h

/-- the per-provider observations of one request, as the supplier tables determine them -/
theorem req_static {rc : RCfg} (hwf : rc.WF) {t j : Nat} (ht : t < rc.T) {q : Req}
    (hq : (rc.prog t)[j]? = some q) :
    leftSkip (toICfg rc) 0 (expandReq rc t j q) = 0 ∧
    staticObs (toICfg rc) 0 0 (expandReq rc t j q) =
      (specConsulted rc q).map (fun p => (p, provRes rc q p)) ∧
    staticSlots (toICfg rc) 0 (expandReq rc t j q) =
      (specConsulted rc q).map (fun p => (reqItem rc t j q p).slot) := by
  rw [expandReq_eq]
  have hout : ∀ p ∈ List.range' 0 rc.P, (toICfg rc).outcome (reqItem rc t j q p).slot = provRes rc q p := by
    intro p hp
    simp only [List.mem_range'_1] at hp
    exact reqItem_outcome hwf ht hq (by omega)
  cases hkind : q.kind with
  | walk =>
    have hsk : ∀ p, (reqItem rc t j q p).skipOk =
        if (rc.prov p).cfi (rc.key q.mod) then rc.P - 1 - p else 0 := by
      intro p; simp [reqItem, hkind]
    obtain ⟨h1, h2, h3⟩ := walk_range' (toICfg rc) (reqItem rc t j q) rc.P
      (fun p => (rc.prov p).cfi (rc.key q.mod)) hsk 0 rc.P (by omega)
    have hgood : ∀ p ∈ List.range' 0 rc.P,
        ((toICfg rc).outcome (reqItem rc t j q p).slot == .ok && (rc.prov p).cfi (rc.key q.mod)) =
        (((rc.prov p).sym (rc.key q.mod)).res == .ok && (rc.prov p).cfi (rc.key q.mod)) := by
      intro p hp
      rw [hout p hp]; simp [provRes, hkind]
    have hstop : walkStop (fun p => (toICfg rc).outcome (reqItem rc t j q p).slot == .ok &&
        (rc.prov p).cfi (rc.key q.mod)) 0 rc.P = specConsulted rc q := by
      rw [walkStop_eq, find?_congr_mem hgood]
      simp only [specConsulted, hkind, List.range_eq_range', Nat.sub_zero]
      rfl
    have hsub : ∀ p ∈ specConsulted rc q, p ∈ List.range' 0 rc.P := by
      intro p hp
      simp only [specConsulted, hkind] at hp
      split at hp
      · rename_i p' hf
        have := List.mem_of_find?_eq_some hf
        simp only [List.mem_range] at this hp
        simp only [List.mem_range'_1]; omega
      · simp only [List.mem_range] at hp
        simp only [List.mem_range'_1]; omega
    refine ⟨h2, ?_, ?_⟩
    · rw [h3, hstop]
      apply List.map_congr_left
      intro p hp
      rw [hout p (hsub p hp)]
    · rw [h1, hstop]
  | fill =>
    have hsk : ∀ p, (reqItem rc t j q p).skipOk = 0 := by intro p; simp [reqItem, hkind]
    obtain ⟨h1, h2, h3⟩ := noskip_range' (toICfg rc) (reqItem rc t j q) hsk 0 rc.P
    have hc : specConsulted rc q = List.range' 0 rc.P := by
      simp [specConsulted, hkind, List.range_eq_range']
    refine ⟨h2, ?_, ?_⟩
    · rw [h3, hc]
      apply List.map_congr_left
      intro p hp
      rw [hout p hp]
    · rw [h1, hc]
  | file fk =>
    have hsk : ∀ p, (reqItem rc t j q p).skipOk = 0 := by intro p; simp [reqItem, hkind]
    obtain ⟨h1, h2, h3⟩ := noskip_range' (toICfg rc) (reqItem rc t j q) hsk 0 rc.P
    have hc : specConsulted rc q = List.range' 0 rc.P := by
      simp [specConsulted, hkind, List.range_eq_range']
    refine ⟨h2, ?_, ?_⟩
    · rw [h3, hc]
      apply List.map_congr_left
      intro p hp
      rw [hout p hp]
    · rw [h1, hc]

/-- combining the observations the tables determine gives the answer the tables determine -/
theorem combine_spec (rc : RCfg) (q : Req) :
    combine rc q ((specConsulted rc q).map (fun p => (p, provRes rc q p))) = specOut rc q := by
  cases hkind : q.kind with
  | fill =>
    simp only [combine, specOut, specConsulted, hkind, provRes]
    rw [List.filter_map, List.getLast?_map]
    cases hl : (List.filter ((fun o : Nat × Res => o.2 == Res.ok) ∘
        fun p => (p, ((rc.prov p).sym (rc.key q.mod)).res)) (List.range rc.P)).getLast? with
    | none =>
      have : (List.filter (fun p => ((rc.prov p).sym (rc.key q.mod)).res == Res.ok) (List.range rc.P)).getLast? = none := hl
      simp [this]
    | some p =>
      have : (List.filter (fun p => ((rc.prov p).sym (rc.key q.mod)).res == Res.ok) (List.range rc.P)).getLast? = some p := hl
      simp [this]
  | walk =>
    simp only [combine, specOut, specConsulted, hkind, provRes]
    rw [List.find?_map]
    cases hf : (List.range rc.P).find? (fun p => ((rc.prov p).sym (rc.key q.mod)).res == .ok &&
        (rc.prov p).cfi (rc.key q.mod)) with
    | none =>
      simp only
      have : List.find? ((fun o : Nat × Res => o.2 == Res.ok && (rc.prov o.1).cfi (rc.key q.mod)) ∘
          fun p => (p, ((rc.prov p).sym (rc.key q.mod)).res)) (List.range rc.P) = none := hf
      simp [this]
    | some p =>
      simp only
      have hp := List.find?_some hf
      have hlt : p < rc.P := by
        have := List.mem_of_find?_eq_some hf; simpa using this
      -- within `range (p+1)` the first good provider is still `p`
      have : List.find? ((fun o : Nat × Res => o.2 == Res.ok && (rc.prov o.1).cfi (rc.key q.mod)) ∘
          fun p => (p, ((rc.prov p).sym (rc.key q.mod)).res)) (List.range (p + 1)) = some p := by
        have hall : ∀ j, j < p → (!(((rc.prov j).sym (rc.key q.mod)).res == .ok &&
            (rc.prov j).cfi (rc.key q.mod))) = true := by
          have := (List.find?_range_eq_some.mp hf).2.2
          exact this
        apply List.find?_range_eq_some.mpr
        refine ⟨hp, by simp, ?_⟩
        intro j hj
        exact hall j hj
      simp [this]
  | file fk =>
    simp only [combine, specOut, specConsulted, hkind, provRes]
    rw [List.find?_map]
    cases hf : (List.range rc.P).find? (fun p => ((rc.prov p).file (rc.key q.mod) fk).res == .ok) with
    | none =>
      have : List.find? ((fun o : Nat × Res => o.2 == Res.ok) ∘
          fun p => (p, ((rc.prov p).file (rc.key q.mod) fk).res)) (List.range rc.P) = none := hf
      simp [this]
    | some p =>
      have : List.find? ((fun o : Nat × Res => o.2 == Res.ok) ∘
          fun p => (p, ((rc.prov p).file (rc.key q.mod) fk).res)) (List.range rc.P) = some p := hf
      simp [this]

/-- replaying what a finished task has seen against its requests gives the tables' answers -/
theorem outcomesFrom_static {rc : RCfg} (hwf : rc.WF) {t : Nat} (ht : t < rc.T) (j : Nat)
    (qs : List Req) (hsuf : ∀ i, i < qs.length → (rc.prog t)[j + i]? = qs[i]?) :
    outcomesFrom rc t j qs
      ((compS (toICfg rc) 0 (expandFrom rc t j qs)).map (expected (compile (toICfg rc)))) =
    qs.map (specOut rc) := by
  induction qs generalizing j with
  | nil => simp [outcomesFrom]
  | cons q qs ih =>
    have hq : (rc.prog t)[j]? = some q := by
      have := hsuf 0 (by simp); simpa using this
    obtain ⟨hl, ho, _⟩ := req_static hwf ht hq
    simp only [outcomesFrom, expandFrom]
    have hc := consume_static (toICfg rc) 0 0 (expandReq rc t j q) (expandFrom rc t (j + 1) qs) []
    simp only [List.append_nil] at hc
    rw [hc, hl, ho]
    simp only [combine_spec, List.map_cons, List.cons.injEq, true_and]
    apply ih (j + 1)
    intro i hi
    have := hsuf (i + 1) (by simp; omega)
    simp only [List.getElem?_cons_succ] at this
    rw [← this]; congr 1; omega

/-- the slots a finished task has looked up: request by request, the consulted providers in order -/
theorem compS_expandFrom {rc : RCfg} (hwf : rc.WF) {t : Nat} (ht : t < rc.T) (j : Nat)
    (qs : List Req) (hsuf : ∀ i, i < qs.length → (rc.prog t)[j + i]? = qs[i]?) :
    compS (toICfg rc) 0 (expandFrom rc t j qs) =
      (qs.zipIdx j).flatMap fun x => (specConsulted rc x.1).map fun p => (reqItem rc t x.2 x.1 p).slot := by
  induction qs generalizing j with
  | nil => simp [expandFrom, compS]
  | cons q qs ih =>
    have hq : (rc.prog t)[j]? = some q := by
      have := hsuf 0 (by simp); simpa using this
    obtain ⟨hl, _, hs⟩ := req_static hwf ht hq
    simp only [expandFrom, compS_append, hl, hs, List.zipIdx_cons, List.flatMap_cons]
    congr 1
    apply ih (j + 1)
    intro i hi
    have := hsuf (i + 1) (by simp; omega)
    simp only [List.getElem?_cons_succ] at this
    rw [← this]; congr 1; omega

/-! ## private slots are private -/

theorem count_compS_le (ic : ICfg) (n : Nat) (l : List Item) (s : Nat) :
    (compS ic n l).count s ≤ (l.map (·.slot)).count s := by
  induction l generalizing n with
  | nil => simp [compS]
  | cons a l ih =>
    cases n with
    | succ n =>
      simp only [compS, List.map_cons, List.count_cons]
      have := ih n; omega
    | zero =>
      simp only [compS, List.map_cons, List.count_cons]
      have := ih (skipOf (ic.outcome a.slot) a); omega

theorem count_map_le_of_inj_at {L : List Nat} {g : Nat → Nat} {s p : Nat}
    (h : ∀ x ∈ L, g x = s → x = p) : (L.map g).count s ≤ L.count p := by
  induction L with
  | nil => simp
  | cons a L ih =>
    have := ih (fun x hx => h x (List.mem_cons_of_mem _ hx))
    simp only [List.map_cons, List.count_cons]
    by_cases hg : g a = s
    · have hap := h a (by simp) hg
      subst hap
      simp [hg]; omega
    · simp [hg]; omega

/-- an item of request `(t', j')` whose slot is the private slot of `(t, j, p)` -/
theorem reqItem_priv {rc : RCfg} {t' j' p' t j p : Nat} {q : Req} (ht' : t' < rc.T) (ht : t < rc.T)
    (hp' : p' < rc.P) (hp : p < rc.P)
    (h : (reqItem rc t' j' q p').slot = privSlot rc t j p) : t' = t ∧ j' = j ∧ p' = p := by
  unfold reqItem at h
  cases hk : q.kind with
  | fill => simp only [hk] at h; exact absurd h (sym_ne_priv rc _ _ _ _ _)
  | walk => simp only [hk] at h; exact absurd h (sym_ne_priv rc _ _ _ _ _)
  | file fk =>
    simp only [hk] at h
    by_cases hc : (rc.prov p').cached = true
    · simp only [hc, if_true] at h; exact absurd h (file_ne_priv rc _ _ _ _ _ _)
    · simp only [hc] at h
      exact privSlot_inj ht' ht hp' hp h

theorem priv_mem_expandFrom {rc : RCfg} {t' t j p j0 : Nat} {qs : List Req} (ht' : t' < rc.T)
    (ht : t < rc.T) (hp : p < rc.P)
    (h : privSlot rc t j p ∈ (expandFrom rc t' j0 qs).map (·.slot)) : t' = t ∧ j0 ≤ j := by
  obtain ⟨i, hi, he⟩ := List.mem_map.mp h
  obtain ⟨q, _, j', hij, _, hle⟩ := mem_expandFrom hi
  simp only [expandReq_eq, List.mem_map, List.mem_range'_1] at hij
  obtain ⟨p', hp', rfl⟩ := hij
  obtain ⟨h1, h2, _⟩ := reqItem_priv ht' ht (by omega) hp he
  exact ⟨h1, by omega⟩

theorem count_priv_expandFrom {rc : RCfg} {t j p : Nat} (ht : t < rc.T) (hp : p < rc.P) (j0 : Nat)
    (qs : List Req) : ((expandFrom rc t j0 qs).map (·.slot)).count (privSlot rc t j p) ≤ 1 := by
  induction qs generalizing j0 with
  | nil => simp [expandFrom]
  | cons q qs ih =>
    simp only [expandFrom, List.map_append, List.count_append]
    by_cases hj : j0 = j
    · subst hj
      have hrest : ((expandFrom rc t (j0 + 1) qs).map (·.slot)).count (privSlot rc t j0 p) = 0 := by
        apply List.count_eq_zero.mpr
        intro hm
        have := (priv_mem_expandFrom ht ht hp hm).2
        omega
      have hseg : ((expandReq rc t j0 q).map (·.slot)).count (privSlot rc t j0 p) ≤ 1 := by
        rw [expandReq_eq, List.map_map]
        have h1 := count_map_le_of_inj_at (L := List.range' 0 rc.P)
          (g := (fun i : Item => i.slot) ∘ reqItem rc t j0 q) (s := privSlot rc t j0 p) (p := p)
          (by
            intro x hx hg
            simp only [List.mem_range'_1] at hx
            exact (reqItem_priv ht ht (by omega) hp hg).2.2)
        have h2 : (List.range' 0 rc.P).count p ≤ 1 :=
          List.nodup_iff_count.mp (List.nodup_range') p
        omega
      omega
    · have hseg : ((expandReq rc t j0 q).map (·.slot)).count (privSlot rc t j p) = 0 := by
        apply List.count_eq_zero.mpr
        intro hm
        obtain ⟨i, hi, he⟩ := List.mem_map.mp hm
        simp only [expandReq_eq, List.mem_map, List.mem_range'_1] at hi
        obtain ⟨p', hp', rfl⟩ := hi
        exact hj (reqItem_priv ht ht (by omega) hp he).2.1
      have := ih (j0 + 1)
      omega

/-- **private slots are never contended**: no task ever waits for the lock of the private slot of
    a `get_file_path` request — the lookup is a plain call -/
theorem private_slot_never_waited {rc : RCfg} (sched : List Nat) {t j p : Nat} (ht : t < rc.T)
    (hp : p < rc.P) (u : Nat) :
    ((exec (compile (toICfg rc)) sched (init (compile (toICfg rc)))).task u).ctl ≠
      .waiting (privSlot rc t j p) := by
  have hprog : ∀ t', privSlot rc t j p ∈ (compile (toICfg rc)).prog t' → t' = t := by
    intro t' hm
    rw [compile_prog] at hm
    by_cases ht' : t' < rc.T
    · rw [toICfg_prog rc ht'] at hm
      obtain ⟨i, hi, he⟩ := mem_compS hm
      exact (priv_mem_expandFrom ht' ht hp (List.mem_map.mpr ⟨i, hi, he⟩)).1
    · have : (toICfg rc).prog t' = [] := by
        have hle : rc.T ≤ t' := by omega
        simp [toICfg, ICfg.prog, List.getD_eq_getElem?_getD, hle]
      rw [this] at hm; simp [compS] at hm
  apply private_key_never_waited (invA_reach _ sched)
  · intro t₁ t₂ h1 h2; rw [hprog t₁ h1, hprog t₂ h2]
  · intro t'
    by_cases hm : privSlot rc t j p ∈ (compile (toICfg rc)).prog t'
    · have := hprog t' hm; subst this
      rw [compile_prog, toICfg_prog rc ht]
      exact Nat.le_trans (count_compS_le _ _ _ _) (count_priv_expandFrom ht hp 0 _)
    · rw [List.count_eq_zero.mpr hm]; omega

end MdModel.Once
