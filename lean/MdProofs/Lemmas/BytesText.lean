/-
  MdProofs.Lemmas.BytesText — the text-stream iterators of `MdModel.DumpText`: no panic
  (slice indices, `idx + 1`), every span handed out lies inside the line it came from, the line
  loop ends within `len + 1` iterations, nothing is allocated.
-/
import MdModel.DumpText
import MdProofs.Lemmas.Bytes
namespace MdModel.Dump
open MdModel

/-- a value produced by `m` (if any) satisfies `P` -/
def Yields {α : Type} (m : M α) (P : α → Prop) : Prop := ∀ a, m.res = .ok a → P a

/-- `sp` is an ordered span inside `[lo, hi]` -/
def SpanIn (lo hi : Nat) (sp : Span) : Prop := lo ≤ sp.1 ∧ sp.1 ≤ sp.2 ∧ sp.2 ≤ hi

theorem yields_pure {α : Type} {P : α → Prop} {a : α} (h : P a) : Yields (pure a : M α) P := by
  intro x hx; cases hx; exact h

theorem yields_bind {α β : Type} {x : M α} {f : α → M β} {P : α → Prop} {Q : β → Prop}
    (hx : Yields x P) (hf : ∀ a, P a → Yields (f a) Q) : Yields (x >>= f) Q := by
  intro v hv
  obtain ⟨a, ha, hfa⟩ := bind_ok hv
  exact hf a (hx a ha) v hfa

/-! ### searching -/

theorem findFwd_some (b : Bytes) (p : UInt8 → Bool) : ∀ (n i j : Nat), findFwd b p n i = some j →
    i ≤ j ∧ j < i + n ∧ p (b.getD j 0) = true ∧ ∀ k, i ≤ k → k < j → p (b.getD k 0) = false := by
  intro n
  induction n with
  | zero => intro i j h; simp [findFwd] at h
  | succ n ih =>
    intro i j h
    unfold findFwd at h
    split at h
    · rename_i hp
      cases h
      exact ⟨Nat.le_refl _, by omega, hp, fun k h1 h2 => by omega⟩
    · rename_i hp
      have ⟨h1, h2, h3, h4⟩ := ih _ _ h
      refine ⟨by omega, by omega, h3, fun k hk1 hk2 => ?_⟩
      by_cases hki : k = i
      · subst hki; simpa using hp
      · exact h4 k (by omega) hk2

theorem findBwd_some (b : Bytes) (p : UInt8 → Bool) (lo : Nat) : ∀ (n j : Nat), findBwd b p lo n = some j →
    lo ≤ j ∧ j < lo + n ∧ p (b.getD j 0) = true := by
  intro n
  induction n with
  | zero => intro j h; simp [findBwd] at h
  | succ n ih =>
    intro j h
    unfold findBwd at h
    split at h
    · rename_i hp
      cases h
      exact ⟨by omega, by omega, hp⟩
    · have ⟨h1, h2, h3⟩ := ih _ h
      exact ⟨h1, by omega, h3⟩

theorem position_some {b : Bytes} {p : UInt8 → Bool} {lo hi j : Nat} (h : position b p lo hi = some j) :
    lo ≤ j ∧ j < hi ∧ p (b.getD j 0) = true ∧ ∀ k, lo ≤ k → k < j → p (b.getD k 0) = false := by
  unfold position at h
  have ⟨h1, h2, h3, h4⟩ := findFwd_some b p _ _ _ h
  exact ⟨h1, by omega, h3, h4⟩

theorem rposition_some {b : Bytes} {p : UInt8 → Bool} {lo hi j : Nat} (h : rposition b p lo hi = some j) :
    lo ≤ j ∧ j < hi ∧ p (b.getD j 0) = true := by
  unfold rposition at h
  have ⟨h1, h2, h3⟩ := findBwd_some b p lo _ _ h
  exact ⟨h1, by omega, h3⟩

/-! ### the slice helpers -/

theorem checkRange_safe {B : Nat} (site : String) {len a c : Nat} (h : a ≤ c ∧ c ≤ len) :
    Safe B (checkRange site len a c) := by
  unfold checkRange; rw [if_pos h]; exact safe_pure _

theorem checkRangeInclusive_safe {B : Nat} (site : String) {len f l : Nat} (h1 : f ≤ l + 1) (h2 : l + 1 ≤ len)
    (h3 : len < 9223372036854775808) : Safe B (checkRangeInclusive site len f l) := by
  unfold checkRangeInclusive
  rw [if_neg (by unfold USIZE_MAX U64MAX; omega), if_pos ⟨h1, h2⟩]
  exact safe_pure _

theorem checkRangeInclusive_ok {site : String} {len f l : Nat} {r : Nat × Nat}
    (h : (checkRangeInclusive site len f l).res = .ok r) : r = (f, l + 1) ∧ f ≤ l + 1 ∧ l + 1 ≤ len := by
  unfold checkRangeInclusive at h
  split at h
  · cases h
  · split at h
    · rename_i hc; cases h; exact ⟨rfl, hc⟩
    · cases h

/-! ### trim / strip_quotes / split_once -/

theorem trim_spec {B : Nat} (b : Bytes) {lo hi : Nat} (hle : lo ≤ hi) (hhi : hi < 9223372036854775808) :
    Safe B (trimAsciiWhitespace b lo hi) ∧ Yields (trimAsciiWhitespace b lo hi) (SpanIn lo hi) := by
  unfold trimAsciiWhitespace
  split
  · rename_i f l hf hl
    have ⟨hf1, hf2, _, hfmin⟩ := position_some hf
    have ⟨hl1, hl2, hlp⟩ := rposition_some hl
    have hfl : f ≤ l := by
      by_cases h : f ≤ l
      · exact h
      · have := hfmin l hl1 (by omega)
        rw [this] at hlp; cases hlp
    constructor
    · exact safe_bind (checkRangeInclusive_safe _ (by omega) (by omega) (by omega)) (fun _ _ => safe_pure _)
    · refine yields_bind (P := fun r => r = (f - lo, l - lo + 1)) (fun r hr => (checkRangeInclusive_ok hr).1) ?_
      intro r hr
      subst hr
      exact yields_pure ⟨by simp, by simp; omega, by simp; omega⟩
  · exact ⟨safe_pure _, yields_pure ⟨Nat.le_refl _, Nat.le_refl _, hle⟩⟩

theorem stripQuotes_spec {B : Nat} (b : Bytes) {lo hi : Nat} (hle : lo ≤ hi) (hhi : hi < 9223372036854775808) :
    Safe B (stripQuotes b lo hi) ∧ Yields (stripQuotes b lo hi) (SpanIn lo hi) := by
  have ⟨ht1, ht2⟩ := trim_spec (B := B) b hle hhi
  unfold stripQuotes
  constructor
  · refine safe_bind ht1 (fun t _ => ?_)
    split
    · split <;> exact safe_pure _
    · exact safe_pure _
  · refine yields_bind ht2 (fun t ht => ?_)
    obtain ⟨h1, h2, h3⟩ := ht
    split
    · split
      · exact yields_pure ⟨by simp; omega, by simp; omega, by simp; omega⟩
      · exact yields_pure ⟨h1, h2, h3⟩
    · exact yields_pure ⟨h1, h2, h3⟩

/-- what `split_once` hands out: the label is `[lo, idx)`, the value `[idx+1, hi)` -/
def SplitOk (lo hi : Nat) (o : Option (Span × Span)) : Prop :=
  ∀ l v, o = some (l, v) → l.1 = lo ∧ l.1 ≤ l.2 ∧ l.2 + 1 = v.1 ∧ v.1 ≤ v.2 ∧ v.2 = hi

theorem splitOnce_spec {B : Nat} (b : Bytes) (sep : UInt8) {lo hi : Nat} (hhi : hi < 9223372036854775808) :
    Safe B (splitOnce b sep lo hi) ∧ Yields (splitOnce b sep lo hi) (SplitOk lo hi) := by
  unfold splitOnce
  split
  · exact ⟨safe_pure _, yields_pure (fun l v h => by cases h)⟩
  · rename_i i hi'
    have ⟨h1, h2, _, _⟩ := position_some hi'
    constructor
    · refine safe_bind (checkRange_safe _ ⟨by omega, by omega⟩) (fun _ _ => ?_)
      refine safe_bind (usizeAdd_safe _ (by unfold USIZE_MAX U64MAX; omega)) (fun j hj => ?_)
      have := usizeAdd_ok hj
      refine safe_bind (checkRange_safe _ ⟨by omega, by omega⟩) (fun _ _ => safe_pure _)
    · refine yields_bind (P := fun _ => True) (fun _ _ => trivial) (fun _ _ => ?_)
      refine yields_bind (P := fun j => j = i - lo + 1) (fun j hj => usizeAdd_ok hj) (fun j hj => ?_)
      refine yields_bind (P := fun _ => True) (fun _ _ => trivial) (fun _ _ => ?_)
      subst hj
      refine yields_pure ?_
      intro l v h
      cases h
      dsimp only
      omega

/-- key and value of one line: both inside the line, the key before the value -/
def KvIn (lo hi : Nat) (o : Option (Span × Span)) : Prop :=
  ∀ k v, o = some (k, v) → SpanIn lo hi k ∧ SpanIn lo hi v ∧ k.2 < v.1

theorem kvLine_spec {B : Nat} (b : Bytes) (sep : UInt8) {lo hi : Nat} (_hle : lo ≤ hi) (hhi : hi < 9223372036854775808) :
    Safe B (kvLine b sep lo hi) ∧ Yields (kvLine b sep lo hi) (KvIn lo hi) := by
  have ⟨hs1, hs2⟩ := splitOnce_spec (B := B) b sep (lo := lo) hhi
  unfold kvLine
  constructor
  · refine safe_bind hs1 (fun r hr => ?_)
    split
    · exact safe_pure _
    · rename_i label val
      have ⟨a1, a2, a3, a4, a5⟩ := hs2 _ hr label val rfl
      refine safe_bind (stripQuotes_spec b (by omega) (by omega)).1 (fun _ _ => ?_)
      exact safe_bind (stripQuotes_spec b (by omega) (by omega)).1 (fun _ _ => safe_pure _)
  · refine yields_bind hs2 (fun r hr => ?_)
    split
    · exact yields_pure (fun k v h => by cases h)
    · rename_i label val
      have ⟨a1, a2, a3, a4, a5⟩ := hr label val rfl
      refine yields_bind (stripQuotes_spec (B := B) b (lo := label.1) (hi := label.2) (by omega) (by omega)).2 (fun k hk => ?_)
      refine yields_bind (stripQuotes_spec (B := B) b (lo := val.1) (hi := val.2) (by omega) (by omega)).2 (fun v hv => ?_)
      refine yields_pure ?_
      intro k' v' h
      cases h
      obtain ⟨k1, k2, k3⟩ := hk
      obtain ⟨v1, v2, v3⟩ := hv
      exact ⟨⟨by omega, k2, by omega⟩, ⟨by omega, v2, by omega⟩, by omega⟩

/-! ### nothing is allocated -/

theorem allocs_bind_nil {α β : Type} {x : M α} {f : α → M β} (hx : x.allocs = []) (hf : ∀ a, (f a).allocs = []) :
    (x >>= f).allocs = [] := by
  rw [M.bind_def]
  unfold M.bind'
  cases x.res with
  | ok a => simp [hx, hf a]
  | err e => simp [hx]
  | panic s => simp [hx]

theorem checkRange_allocs (site : String) (len a c : Nat) : (checkRange site len a c).allocs = [] := by
  unfold checkRange; split <;> rfl

theorem checkRangeInclusive_allocs (site : String) (len f l : Nat) : (checkRangeInclusive site len f l).allocs = [] := by
  unfold checkRangeInclusive; split; · rfl
  split <;> rfl

theorem usizeAdd_allocs (site : String) (a c : Nat) : (usizeAdd site a c).allocs = [] := by
  unfold usizeAdd; split <;> rfl

theorem trim_allocs (b : Bytes) (lo hi : Nat) : (trimAsciiWhitespace b lo hi).allocs = [] := by
  unfold trimAsciiWhitespace
  split
  · exact allocs_bind_nil (checkRangeInclusive_allocs _ _ _ _) (fun _ => rfl)
  · rfl

theorem stripQuotes_allocs (b : Bytes) (lo hi : Nat) : (stripQuotes b lo hi).allocs = [] := by
  unfold stripQuotes
  refine allocs_bind_nil (trim_allocs b lo hi) (fun t => ?_)
  split
  · split <;> rfl
  · rfl

theorem splitOnce_allocs (b : Bytes) (sep : UInt8) (lo hi : Nat) : (splitOnce b sep lo hi).allocs = [] := by
  unfold splitOnce
  split
  · rfl
  · refine allocs_bind_nil (checkRange_allocs _ _ _ _) (fun _ => ?_)
    refine allocs_bind_nil (usizeAdd_allocs _ _ _) (fun _ => ?_)
    exact allocs_bind_nil (checkRange_allocs _ _ _ _) (fun _ => rfl)

/-- the justification for `scanLines` taking a plain outcome: one line's work allocates nothing -/
theorem kvLine_allocs (b : Bytes) (sep : UInt8) (lo hi : Nat) : (kvLine b sep lo hi).allocs = [] := by
  unfold kvLine
  refine allocs_bind_nil (splitOnce_allocs b sep lo hi) (fun r => ?_)
  split
  · rfl
  · refine allocs_bind_nil (stripQuotes_allocs _ _ _) (fun _ => ?_)
    exact allocs_bind_nil (stripQuotes_allocs _ _ _) (fun _ => rfl)

/-! ### the line loop -/

/-- The line loop: if the per-line function cannot panic on a line inside the stream and its results
    satisfy `Q`, then with `fuel ≥ len - start + 1` the loop does not panic (in particular the
    "does not end" outcome is unreachable), allocates nothing, yields only `Q`-values, at most one
    per remaining byte plus one. -/
theorem scanLines_spec {α : Type} (b : Bytes) (f : Nat → Nat → Res (Option α)) (Q : α → Prop)
    (hf : ∀ lo hi, lo ≤ hi → hi ≤ b.size → (∀ s, f lo hi ≠ .panic s) ∧ ∀ o, f lo hi = .ok o → ∀ x, o = some x → Q x) :
    ∀ (fuel start : Nat) (acc : List α), start ≤ b.size → b.size - start + 1 ≤ fuel → (∀ x ∈ acc, Q x) →
      NoPanic (scanLines b f fuel start acc) ∧ (scanLines b f fuel start acc).allocs = [] ∧
      ∀ l, (scanLines b f fuel start acc).res = .ok l → (∀ x ∈ l, Q x) ∧ l.length ≤ acc.length + (b.size - start) + 1 := by
  intro fuel
  induction fuel with
  | zero => intro start acc _ h; omega
  | succ fuel ih =>
    intro start acc hstart hfuel hacc
    unfold scanLines
    dsimp only
    have hstop : start ≤ (position b (fun c => c == 0x0A) start b.size).getD b.size ∧
        (position b (fun c => c == 0x0A) start b.size).getD b.size ≤ b.size := by
      cases hp : position b (fun c => c == 0x0A) start b.size with
      | none => simp; omega
      | some idx => have := position_some hp; simp; omega
    have ⟨hnp, hq⟩ := hf start _ hstop.1 hstop.2
    split
    · rename_i s hs; exact absurd hs (hnp s)
    · exact ⟨fun s h => (by cases h), rfl, fun l h => (by cases h)⟩
    · rename_i o ho
      have hacc' : ∀ x ∈ consOpt o acc, Q x := by
        intro x hx
        cases o with
        | none => exact hacc x hx
        | some y =>
          simp only [consOpt] at hx
          cases List.mem_cons.mp hx with
          | inl h => subst h; exact hq _ ho _ rfl
          | inr h => exact hacc x h
      have hlen' : (consOpt o acc).length ≤ acc.length + 1 := by
        cases o <;> simp [consOpt]
      split
      · refine ⟨fun s h => (by cases h), rfl, fun l h => ?_⟩
        have := pure_ok h
        subst this
        refine ⟨fun x hx => hacc' x (List.mem_reverse.mp hx), ?_⟩
        simp only [List.length_reverse]
        omega
      · rename_i idx hidx
        have ⟨h1, h2, _, _⟩ := position_some hidx
        have ⟨r1, r2, r3⟩ := ih (idx + 1) _ (by omega) (by omega) hacc'
        refine ⟨r1, r2, fun l hl => ?_⟩
        have ⟨q1, q2⟩ := r3 l hl
        exact ⟨q1, by omega⟩

theorem scanLines_safe {α : Type} {B : Nat} {b : Bytes} {f : Nat → Nat → Res (Option α)} {fuel start : Nat} {acc : List α}
    (h : NoPanic (scanLines b f fuel start acc) ∧ (scanLines b f fuel start acc).allocs = [] ∧
      ∀ l, (scanLines b f fuel start acc).res = .ok l → True) : Safe B (scanLines b f fuel start acc) :=
  ⟨h.1, fun a ha => by rw [h.2.1] at ha; cases ha⟩

/-- key/value pairs of a whole stream: spans inside the stream, key before value -/
def KvOk (len : Nat) (kv : Span × Span) : Prop := SpanIn 0 len kv.1 ∧ SpanIn 0 len kv.2 ∧ kv.1.2 < kv.2.1

theorem linuxListIter_spec (b : Bytes) (sep : UInt8) (hsz : b.size < 9223372036854775808) :
    NoPanic (linuxListIter b sep) ∧ (linuxListIter b sep).allocs = [] ∧
    ∀ l, (linuxListIter b sep).res = .ok l → (∀ kv ∈ l, KvOk b.size kv) ∧ l.length ≤ b.size + 1 := by
  unfold linuxListIter
  have := scanLines_spec b (fun lo hi => (kvLine b sep lo hi).res) (KvOk b.size) (by
    intro lo hi hle hhi
    have ⟨s1, s2⟩ := kvLine_spec (B := 0) b sep hle (by omega)
    refine ⟨fun s => s1.1 s, fun o ho x hx => ?_⟩
    subst hx
    obtain ⟨k, v⟩ := x
    obtain ⟨⟨a1, a2, a3⟩, ⟨c1, c2, c3⟩, d⟩ := s2 _ ho k v rfl
    refine ⟨⟨?_, ?_, ?_⟩, ⟨?_, ?_, ?_⟩, ?_⟩ <;> dsimp only at * <;> omega)
    (b.size + 1) 0 [] (by omega) (by omega) (by intro x hx; cases hx)
  refine ⟨this.1, this.2.1, fun l hl => ?_⟩
  have := this.2.2 l hl
  simpa using this

theorem linesIter_spec (b : Bytes) :
    NoPanic (linesIter b) ∧ (linesIter b).allocs = [] ∧
    ∀ l, (linesIter b).res = .ok l → (∀ sp ∈ l, SpanIn 0 b.size sp) ∧ l.length ≤ b.size + 1 := by
  unfold linesIter
  have := scanLines_spec b (fun lo hi => .ok (some (lo, hi))) (SpanIn 0 b.size) (by
    intro lo hi hle hhi
    refine ⟨fun s h => (by cases h), fun o ho x hx => ?_⟩
    cases ho
    cases hx
    exact ⟨by simp, hle, hhi⟩)
    (b.size + 1) 0 [] (by omega) (by omega) (by intro x hx; cases hx)
  refine ⟨this.1, this.2.1, fun l hl => ?_⟩
  have := this.2.2 l hl
  simpa using this


/-- the line loop never logs an allocation, whatever the per-line function -/
theorem scanLines_allocs {α : Type} (b : Bytes) (f : Nat → Nat → Res (Option α)) :
    ∀ (fuel start : Nat) (acc : List α), (scanLines b f fuel start acc).allocs = [] := by
  intro fuel
  induction fuel with
  | zero => intro start acc; rfl
  | succ fuel ih =>
    intro start acc
    unfold scanLines
    dsimp only
    split
    · rfl
    · rfl
    · split
      · rfl
      · exact ih _ _

theorem noErr_scanLines {α : Type} (b : Bytes) (f : Nat → Nat → Res (Option α)) (hf : ∀ lo hi e, f lo hi ≠ .err e) :
    ∀ (fuel start : Nat) (acc : List α) (e : Err), (scanLines b f fuel start acc).res ≠ .err e := by
  intro fuel
  induction fuel with
  | zero => intro start acc e h; cases h
  | succ fuel ih =>
    intro start acc e h
    unfold scanLines at h
    dsimp only at h
    split at h
    · cases h
    · rename_i e' he; exact hf _ _ _ he
    · split at h
      · cases h
      · exact ih _ _ _ h

/-! ### the iterators have no error outcome either: they always yield a list -/

theorem res_bind_not_err {α β : Type} {x : M α} {f : α → M β} (hx : ∀ e, x.res ≠ .err e) (hf : ∀ a e, (f a).res ≠ .err e) :
    ∀ e, (x >>= f).res ≠ .err e := by
  intro e h
  rw [M.bind_def] at h
  unfold M.bind' at h
  cases hres : x.res with
  | ok a => rw [hres] at h; exact hf a e h
  | err e' => exact hx e' hres
  | panic s => rw [hres] at h; cases h

theorem checkRange_not_err (site : String) (len a c : Nat) : ∀ e, (checkRange site len a c).res ≠ .err e := by
  intro e h; unfold checkRange at h; split at h <;> cases h

theorem checkRangeInclusive_not_err (site : String) (len f l : Nat) : ∀ e, (checkRangeInclusive site len f l).res ≠ .err e := by
  intro e h; unfold checkRangeInclusive at h
  split at h
  · cases h
  · split at h <;> cases h

theorem usizeAdd_not_err (site : String) (a c : Nat) : ∀ e, (usizeAdd site a c).res ≠ .err e := by
  intro e h; unfold usizeAdd at h; split at h <;> cases h

theorem trim_not_err (b : Bytes) (lo hi : Nat) : ∀ e, (trimAsciiWhitespace b lo hi).res ≠ .err e := by
  unfold trimAsciiWhitespace
  split
  · exact res_bind_not_err (checkRangeInclusive_not_err _ _ _ _) (fun _ e h => by cases h)
  · intro e h; cases h

theorem stripQuotes_not_err (b : Bytes) (lo hi : Nat) : ∀ e, (stripQuotes b lo hi).res ≠ .err e := by
  unfold stripQuotes
  refine res_bind_not_err (trim_not_err b lo hi) (fun t e h => ?_)
  split at h
  · split at h <;> cases h
  · cases h

theorem splitOnce_not_err (b : Bytes) (sep : UInt8) (lo hi : Nat) : ∀ e, (splitOnce b sep lo hi).res ≠ .err e := by
  unfold splitOnce
  split
  · intro e h; cases h
  · exact res_bind_not_err (checkRange_not_err _ _ _ _) (fun _ =>
      res_bind_not_err (usizeAdd_not_err _ _ _) (fun _ =>
        res_bind_not_err (checkRange_not_err _ _ _ _) (fun _ e h => by cases h)))

theorem kvLine_not_err (b : Bytes) (sep : UInt8) (lo hi : Nat) : ∀ e, (kvLine b sep lo hi).res ≠ .err e := by
  unfold kvLine
  refine res_bind_not_err (splitOnce_not_err b sep lo hi) (fun r => ?_)
  split
  · intro e h; cases h
  · exact res_bind_not_err (stripQuotes_not_err _ _ _) (fun _ =>
      res_bind_not_err (stripQuotes_not_err _ _ _) (fun _ e h => by cases h))


end MdModel.Dump
