/-
  Helper lemmas for C18 (MdModel.Regs): association lists, the name universe read off the
  generated tables, the character-level `sparc_alias_index`, and the TABLE FACTS — Boolean checks
  over the generated finite tables, re-decided by the kernel whenever context.rs / format.rs change.
-/
import MdModel.Regs
namespace MdModel.Regs
open MdModel MdModel.Gen.Regs

deriving instance DecidableEq for Outcome

/-! ## association lists -/

theorem assoc_some_mem {β : Type} {l : List (String × β)} {k : String} {b : β}
    (h : assoc l k = some b) : (k, b) ∈ l := by
  induction l with
  | nil => simp [assoc] at h
  | cons p t ih =>
    obtain ⟨a, b'⟩ := p
    simp only [assoc] at h
    split at h
    · cases h; subst_vars; simp
    · exact List.mem_cons_of_mem _ (ih h)

theorem assoc_none_of_not_mem {β : Type} {l : List (String × β)} {k : String}
    (h : k ∉ l.map (·.1)) : assoc l k = none := by
  induction l with
  | nil => rfl
  | cons p t ih =>
    obtain ⟨a, b'⟩ := p
    simp only [List.map_cons, List.mem_cons, not_or] at h
    simp only [assoc]
    rw [if_neg (fun e => h.1 e.symm)]
    exact ih h.2

theorem assoc_some_key_mem {β : Type} {l : List (String × β)} {k : String} {b : β}
    (h : assoc l k = some b) : k ∈ l.map (·.1) := by
  have := assoc_some_mem h
  exact List.mem_map.mpr ⟨(k, b), this, rfl⟩

/-! ## `default_memoize_register` -/

theorem defaultMemo_some {regs : List String} {n r : String} (h : defaultMemo regs n = some r) :
    r = n ∧ n ∈ regs := by
  unfold defaultMemo at h
  have h1 := List.find?_some h
  have h2 := List.mem_of_find?_eq_some h
  simp at h1
  subst h1
  exact ⟨rfl, h2⟩

theorem defaultMemo_none {regs : List String} {n : String} (h : n ∉ regs) :
    defaultMemo regs n = none := by
  unfold defaultMemo
  rw [List.find?_eq_none]
  intro x hx hp
  simp at hp
  subst hp
  exact h hx

theorem defaultMemo_mem {regs : List String} {n : String} (h : n ∈ regs) :
    defaultMemo regs n = some n := by
  cases hd : defaultMemo regs n with
  | none =>
    unfold defaultMemo at hd
    rw [List.find?_eq_none] at hd
    exact absurd (by simp) (hd n h)
  | some r => rw [(defaultMemo_some hd).1]

/-! ## `dedup` and the name universe -/

theorem mem_dedup {a : String} {l : List String} : a ∈ dedup l ↔ a ∈ l := by
  induction l with
  | nil => simp [dedup]
  | cons b t ih =>
    simp only [dedup]
    split
    · rename_i hc
      simp only [List.contains_eq_mem, decide_eq_true_eq] at hc
      rw [ih]
      constructor
      · exact List.mem_cons_of_mem _
      · intro h
        rcases List.mem_cons.mp h with rfl | h
        · exact hc
        · exact h
    · simp [ih]

theorem known_of_registers {c : Ctx} {n : String} (h : n ∈ registers c) : n ∈ knownNames c := by
  unfold knownNames; rw [mem_dedup]; simp [h]
theorem known_of_getKey {c : Ctx} {n : String} (h : n ∈ (getArms c).map (·.1)) : n ∈ knownNames c := by
  unfold knownNames; rw [mem_dedup]; simp only [List.mem_append]; simp [h]
theorem known_of_setKey {c : Ctx} {n : String} (h : n ∈ (setArms c).map (·.1)) : n ∈ knownNames c := by
  unfold knownNames; rw [mem_dedup]; simp only [List.mem_append]; simp [h]
theorem known_of_memoKey {c : Ctx} {n : String} (h : n ∈ memoKeys c) : n ∈ knownNames c := by
  unfold knownNames; rw [mem_dedup]; simp only [List.mem_append]; simp [h]
theorem known_of_validKey {c : Ctx} {n : String} (h : n ∈ validKeys c) : n ∈ knownNames c := by
  unfold knownNames; rw [mem_dedup]; simp only [List.mem_append]; simp [h]

/-! ## `sparc_alias_index` only maps the spelled-out window aliases -/

theorem aliasIndex_some_mem {sa : SparcAlias} {n : String} {i : Nat}
    (h : aliasIndex sa n = some i) : n ∈ sparcAliasNames sa := by
  unfold aliasIndex at h
  split at h
  · rename_i c0 c1 hl
    split at h
    · rename_i hr
      split at h
      · rename_i b hb
        have hb1 := List.find?_some hb
        have hb2 := List.mem_of_find?_eq_some hb
        simp at hb1
        unfold sparcAliasNames
        rw [List.mem_flatMap]
        refine ⟨b, hb2, ?_⟩
        rw [List.mem_map]
        refine ⟨c1.toNat - sa.digitLo.toNat, ?_, ?_⟩
        · rw [List.mem_range]; omega
        · have : sa.digitLo.toNat + (c1.toNat - sa.digitLo.toNat) = c1.toNat := by omega
          rw [this, Char.ofNat_toNat, hb1, ← hl, String.ofList_toList]
      · cases h
    · cases h
  · cases h

/-! ## reading the model through resolved cells -/

/-- canonical name as a plain option (`none` also for a panic; `memoize_total` shows there is none) -/
def memoName (c : Ctx) (n : String) : Option String :=
  match memoize c n with
  | .ok r => r
  | .panic _ => none

/-- `n` and `m` denote the same storage cell (for the getter) -/
def sameReg (c : Ctx) (n m : String) : Bool :=
  (getCell c n).isSome && (getCell c n == getCell c m)

theorem getAlways_of_cell {c : Ctx} {n : String} {cell : Cell} (st : State)
    (h : getCell c n = some cell) (hb : inBounds c cell = true) :
    getAlways c st n = .ok (st cell) := by
  unfold getCell at h
  unfold getAlways
  split at h
  · rename_i r hr
    rw [hr]
    simp only [place, h, hb, if_true]
  · cases h

theorem setRegister_of_cell {c : Ctx} {n : String} {cell : Cell} (st : State) (v : Nat)
    (h : setCell c n = some cell) (hb : inBounds c cell = true) :
    setRegister c st n v = .ok (some (st.write cell v)) := by
  unfold setCell at h
  unfold setRegister
  split at h
  · rename_i r hr
    rw [hr]
    simp only [place, h, hb, if_true]
  · cases h

theorem setRegister_ok_some {c : Ctx} {st st' : State} {n : String} {v : Nat}
    (h : setRegister c st n v = .ok (some st')) :
    ∃ cell, setCell c n = some cell ∧ inBounds c cell = true ∧ st' = st.write cell v := by
  unfold setRegister at h
  cases hr : assoc (setArms c) n with
  | none => rw [hr] at h; cases h
  | some r =>
    rw [hr] at h
    simp only [place] at h
    cases hc : resolve r with
    | none => rw [hc] at h; cases h
    | some cell =>
      rw [hc] at h
      by_cases hb : inBounds c cell = true
      · simp only [hb, if_true, Outcome.ok.injEq, Option.some.injEq] at h
        exact ⟨cell, by simp [setCell, hr, hc], hb, h.symm⟩
      · simp only [hb] at h; cases h

theorem getAlways_unknown {c : Ctx} {n : String} (st : State) (h : n ∉ (getArms c).map (·.1)) :
    getAlways c st n = .panic "unreachable: invalid register" := by
  unfold getAlways; rw [assoc_none_of_not_mem h]

theorem setRegister_unknown {c : Ctx} {n : String} (st : State) (v : Nat)
    (h : n ∉ (setArms c).map (·.1)) : setRegister c st n v = .ok none := by
  unfold setRegister; rw [assoc_none_of_not_mem h]

theorem memoize_unknown {c : Ctx} {n : String} (h : n ∉ knownNames c) :
    memoize c n = .ok none := by
  have hr : n ∉ registers c := fun hh => h (known_of_registers hh)
  have hk : n ∉ memoKeys c := fun hh => h (known_of_memoKey hh)
  unfold memoize
  unfold memoKeys at hk
  split
  · rw [defaultMemo_none hr]
  · rename_i as hrule
    rw [hrule] at hk
    rw [assoc_none_of_not_mem hk]
    simp only [defaultMemo_none hr]
  · rename_i hrule
    rw [hrule] at hk
    cases hi : aliasIndex sparcAlias n with
    | some i => exact absurd (aliasIndex_some_mem hi) hk
    | none => simp only [defaultMemo_none hr]

theorem memoize_some_known {c : Ctx} {n r : String} (h : memoize c n = .ok (some r)) :
    n ∈ knownNames c := by
  by_cases hk : n ∈ knownNames c
  · exact hk
  · rw [memoize_unknown hk] at h; cases h

theorem isValid_some_unknown {c : Ctx} {n : String} {S : List String}
    (h : n ∉ knownNames c) (hS : n ∉ S) : isValid c n (.some S) = .ok false := by
  have hc : S.contains n = false := by simpa using hS
  have hv : n ∉ validKeys c := fun hh => h (known_of_validKey hh)
  simp only [isValid]
  unfold validKeys at hv
  split
  · rw [hc]
  · rename_i gs hrule
    rw [hrule] at hv
    have : gs.find? (fun g => g.1.contains n) = none := by
      rw [List.find?_eq_none]
      intro g hg hcon
      apply hv
      rw [List.mem_flatMap]
      exact ⟨g, hg, List.mem_append_left _ (by simpa using hcon)⟩
    rw [this]
    simp only [hc]
  · rw [if_neg (by rw [hc]; exact Bool.false_ne_true), memoize_unknown h]
  · rw [if_neg (by rw [hc]; exact Bool.false_ne_true), memoize_unknown h]

theorem isValid_some_self {c : Ctx} {n : String} {S : List String}
    (h : n ∉ knownNames c) (hS : n ∈ S) : isValid c n (.some S) = .ok true := by
  have hc : S.contains n = true := by simpa using hS
  have hv : n ∉ validKeys c := fun hh => h (known_of_validKey hh)
  simp only [isValid]
  unfold validKeys at hv
  split
  · rw [hc]
  · rename_i gs hrule
    rw [hrule] at hv
    have : gs.find? (fun g => g.1.contains n) = none := by
      rw [List.find?_eq_none]
      intro g hg hcon
      apply hv
      rw [List.mem_flatMap]
      exact ⟨g, hg, List.mem_append_left _ (by simpa using hcon)⟩
    rw [this]
    simp only [hc]
  · rw [if_pos hc]
  · rw [if_pos hc]

/-! ## table facts — decided by the kernel over the generated tables -/

/-- a name is fully served by the tables: the getter and the setter have an arm for it, both
    resolve to the SAME cell, the cell exists in the struct (no index panic), `memoize_register`
    gives it a canonical name from `REGISTERS` that is its own canonical name and denotes the same
    cell -/
def nameOk (c : Ctx) (n : String) : Bool :=
  match getCell c n, memoName c n with
  | some cell, some r =>
    inBounds c cell && (setCell c n == some cell) && (registers c).contains r
      && (memoName c r == some r) && (getCell c r == some cell)
  | _, _ => false

/-- no panic in `memoize_register` for a table name -/
def memoTotal (c : Ctx) (n : String) : Bool :=
  match memoize c n with
  | .ok _ => true
  | .panic _ => false

/-- `REGISTERS` is duplicate-free and its names denote pairwise different cells -/
def pairwiseDistinctCells (c : Ctx) : List String → Bool
  | [] => true
  | a :: t => t.all (fun b => a != b && getCell c a != getCell c b) && pairwiseDistinctCells c t

/-! ## validity through aliases -/

/-- the names whose presence in the validity set makes `n` valid, read off `register_is_valid`
    (for the list-shaped rules; the `sparcCanon` rule compares canonical names instead and is
    handled by `isValid_sparcCanon`) -/
def validNames (c : Ctx) (n : String) : List String :=
  match validRule c with
  | .default => [n]
  | .groups gs =>
    (match gs.find? (fun g => g.1.contains n) with
     | some g => g.2
     | none => [n])
  | .sparcMemo =>
    (match memoName c n with
     | some r => [n, r]
     | none => [n])
  | .sparcCanon => [n]

def isCanonRule (c : Ctx) : Bool :=
  match validRule c with
  | .sparcCanon => true
  | _ => false

theorem isValid_some_eq {c : Ctx} {n : String} (S : List String) (hm : memoTotal c n = true)
    (hr : isCanonRule c = false) :
    isValid c n (.some S) = .ok ((validNames c n).any fun a => S.contains a) := by
  simp only [isValid, validNames]
  cases hv : validRule c with
  | default => simp
  | groups gs =>
    simp only []
    cases hf : gs.find? (fun g => g.1.contains n) with
    | none => simp
    | some g => simp
  | sparcMemo =>
    simp only []
    unfold memoTotal at hm
    unfold memoName
    split at hm
    · rename_i r hr
      rw [hr]
      cases r with
      | none => by_cases hc : n ∈ S <;> simp [hc]
      | some r => by_cases hc : n ∈ S <;> simp [hc]
    · cases hm
  | sparcCanon => simp [isCanonRule, hv] at hr

theorem anyMemoIs_eq {c : Ctx} {r : String} {S : List String} (h : ∀ o ∈ S, memoTotal c o = true) :
    anyMemoIs c r S = .ok (S.any fun o => memoName c o == some r) := by
  induction S with
  | nil => rfl
  | cons o t ih =>
    have ho := h o List.mem_cons_self
    have iht := ih (fun x hx => h x (List.mem_cons_of_mem _ hx))
    unfold memoTotal at ho
    simp only [anyMemoIs, List.any_cons]
    unfold memoName
    split at ho
    · rename_i m hm
      rw [hm]
      by_cases e : m = some r
      · simp [e]
      · simp only [e, if_false, iht]
        have : (m == some r) = false := by simpa using e
        simp [this, memoName]
    · cases ho

/-- the `sparcCanon` rule in closed form -/
theorem isValid_sparcCanon {c : Ctx} {n : String} (S : List String) (hv : isCanonRule c = true)
    (hn : memoTotal c n = true) (hS : ∀ o ∈ S, memoTotal c o = true) :
    isValid c n (.some S) = .ok (S.contains n ||
      (match memoName c n with
       | some r => S.any fun o => memoName c o == some r
       | none => false)) := by
  simp only [isValid]
  cases hr : validRule c with
  | default => simp [isCanonRule, hr] at hv
  | groups gs => simp [isCanonRule, hr] at hv
  | sparcMemo => simp [isCanonRule, hr] at hv
  | sparcCanon =>
    simp only []
    by_cases hc : S.contains n = true
    · rw [if_pos hc, hc]; rfl
    · have hc' : S.contains n = false := by simpa using hc
      rw [if_neg hc, hc']
      unfold memoTotal at hn
      unfold memoName
      split at hn
      · rename_i m hm
        rw [hm]
        cases m with
        | none => simp
        | some r => simp only [Bool.false_or]; exact anyMemoIs_eq hS
      · cases hn

end MdModel.Regs
