/-
  C18 TABLE FACTS: Boolean checks over the tables generated from context.rs / format.rs, decided
  by the kernel (`decide +kernel`, no native evaluation).  They are re-decided whenever the
  generated tables change; a changed arm (`"r11" => self.iregs[12]`), a missing alias, swapped
  sp/ip names, a broken `sparc_alias_index` … makes one of them false and the build fails.
-/
import MdProofs.Lemmas.Regs
namespace MdModel.Regs
open MdModel MdModel.Gen.Regs

theorem known_ok (c : Ctx) : (knownNames c).all (fun n => nameOk c n && memoTotal c n) = true := by
  cases c <;> decide +kernel

/-- getter and setter have exactly the same patterns, in the same order -/
theorem arms_same_keys (c : Ctx) : (setArms c).map (·.1) = (getArms c).map (·.1) := by
  cases c <;> decide +kernel

/-- same canonical name ⇔ same cell, over all table names -/
theorem known_alias_iff (c : Ctx) :
    (knownNames c).all (fun n => (knownNames c).all fun m =>
      (memoName c n == memoName c m) == (getCell c n == getCell c m)) = true := by
  cases c <;> decide +kernel

theorem registers_distinct (c : Ctx) : pairwiseDistinctCells c (registers c) = true := by
  cases c <;> decide +kernel

/-- `general_purpose_registers()` lists the variant's own `REGISTERS` -/
theorem gpr_registers (c : Ctx) : registers (gprOf c) = registers c := by
  cases c <;> decide +kernel

/-- sp/ip names denote exactly the cells the dedicated accessors read -/
theorem sp_ip_cells (c : Ctx) :
    (getCell c (spName c) = resolve (spCell c) ∧ (getCell c (spName c)).isSome = true) ∧
    (getCell c (ipName c) = resolve (ipCell c) ∧ (getCell c (ipName c)).isSome = true) := by
  cases c <;> decide +kernel

/-- `.into()` appears exactly for the 32-bit contexts (widening, never narrowing) -/
theorem widens_iff (c : Ctx) : widens c = (regBits c == 32) ∧ (regBits c = 32 ∨ regBits c = 64) := by
  cases c <;> decide +kernel

/-- for the list-shaped validity rules (every context but SPARC): the names whose presence in the
    set makes `n` valid are exactly the table names of the same cell. (The SPARC rule compares
    canonical names; it is covered by `known_alias_iff` instead — `isValid_some_sameReg`.) -/
theorem known_valid_names (c : Ctx) :
    (knownNames c).all (fun n => (knownNames c).all fun m =>
      isCanonRule c || ((validNames c n).contains m == sameReg c n m)) = true := by
  cases c <;> decide +kernel

/-- the tables are those of a successful translation of the current source (a failed translation
    writes blank tables with `translationOk := false`) -/
theorem translation_ok : translationOk = true := by decide

end MdModel.Regs
