/-
  Helper lemmas for C04, canonical STACK CFI chains (part 2): one `get_caller_frame` on a frame
  whose lookup address is covered by a canonical record, for all seven context kinds/modes.

  * `cfiFrame` — the frame the walker must produce for an expected caller of a CFI chain.
  * `CfiInv` / `CfiView` — what is known of every frame of such a chain below an all-valid context.
  * `cfiOf_link` — `get_caller_by_cfi` on a linked frame yields `cfiFrame`'s registers.
  * `step_cfi` — `get_caller_frame` on a linked frame yields `cfiFrame`.
-/
import MdProofs.Lemmas.WalkCfiChain
namespace MdModel.Walk
open MdModel

/-- the link register of the leaf rule -/
def lrName (a : Arch) : String := if a.isMips then "ra" else "lr"

/-- validity set of every frame found by CFI below an all-valid context: the callee-saved
    registers (all forwarded), the stack pointer and the instruction pointer -/
def validAfter (a : Arch) : List String := setInsert (setInsert a.calleeSaved a.spName) a.ipName

/-- does the record covering `instr` save the frame pointer in a frame of `bytes` bytes -/
def savesFpAt (w : World) (a : Arch) (instr bytes : Nat) : Bool :=
  match cfiRecordAt w instr with
  | some rec => decide (tokenize rec.init = canonicalToks a bytes true)
  | none => false

/-- the frame the walker must produce for the expected caller `e` of the frame `st` of a CFI chain:
    the callee's registers with ip := generated return address, sp := generated stack pointer,
    the frame pointer := the claimed one where the record saves it (on ARM64 always: the
    ptr-auth strip rewrites it), validity = forwarded callee-saved registers + sp + ip -/
def cfiFrame (w : World) (a : Arch) (st : Frame) (e : Exp) : Frame :=
  let sets := savesFpAt w a st.instruction (e.sp - st.ctx.sp) || a == .arm64 || a == .arm64old
  { ctx := { ip := e.ret, sp := e.sp,
             rest := if sets then assocSet st.ctx.rest a.fpName (e.fp.getD 0) else st.ctx.rest,
             valid := some (validAfter a), m64 := st.ctx.m64 },
    trust := .cfi, instruction := e.ret - a.adj }

/-- `linkCfi` on the registers of a frame -/
def cfiLink (w : World) (a : Arch) (mask : Nat) (mem : Mem) (st : Frame) (e : Exp) : Bool :=
  linkCfi w a mask mem st.instruction st.ctx.sp (st.ctx.raw a a.fpName) (st.ctx.raw a (lrName a))
    (st.trust == .context) e

/-- every frame of a CFI chain below an all-valid context: the context frame itself (everything
    valid) or a frame with the validity set `validAfter`; the MIPS mode of the walk -/
def CfiInv (a : Arch) (st : Frame) : Prop :=
  effArch a st.ctx = a ∧
  ((st.trust = .context ∧ st.ctx.valid = none) ∨ (st.trust ≠ .context ∧ st.ctx.valid = some (validAfter a))) ∧
  st.ctx.sp ≤ a.regMax

/-- `f` is the (symbolised) frame `st` -/
def CfiView (a : Arch) (f st : Frame) : Prop :=
  f.ctx = st.ctx ∧ f.trust = st.trust ∧ f.instruction = st.instruction ∧ CfiInv a st

/-! ### what the invariant gives -/

theorem forwarded_of_inv {a : Arch} {c : Ctx} (h : c.valid = none ∨ c.valid = some (validAfter a)) :
    forwarded a c = a.calleeSaved := by
  rcases h with h | h <;> cases a <;>
    simp [forwarded, Ctx.has, Ctx.hasLit, h, validAfter, setInsert, Arch.calleeSaved, Arch.canon, Arch.registers,
      Arch.aliases, Arch.spName, Arch.ipName]

theorem validAfter_fp (a : Arch) : setInsert (validAfter a) a.fpName = validAfter a := by
  cases a <;> decide

/-- the stack-pointer validity test at the head of every `get_caller_by_cfi` -/
theorem spOk_of_inv {a : Arch} {c : Ctx} (h : c.valid = none ∨ c.valid = some (validAfter a)) :
    (match a with
      | .x86 => c.hasLit "esp"
      | .amd64 => c.hasLit "rsp"
      | .arm => c.has a "r13"
      | _ => c.has a "sp") = true := by
  rcases h with h | h <;> cases a <;>
    simp [Ctx.has, Ctx.hasLit, h, validAfter, setInsert, Arch.calleeSaved, Arch.canon, Arch.registers,
      Arch.aliases, Arch.spName, Arch.ipName]

/-- the callee's stack pointer as the evaluator reads it -/
theorem reg_sp_of_inv {a : Arch} {c : Ctx} (h : c.valid = none ∨ c.valid = some (validAfter a))
    (hsp : c.sp ≤ a.regMax) : c.get a a.spName = some c.sp := by
  have hlt : a = .mips32 → c.sp < 4294967296 := by
    intro ha; subst ha
    have : c.sp ≤ U32MAX := hsp
    simp only [U32MAX] at this
    omega
  rcases h with h | h <;> cases a <;>
    simp [Ctx.get, Ctx.has, Ctx.raw, h, validAfter, setInsert, Arch.calleeSaved, Arch.canon, Arch.registers,
      Arch.aliases, Arch.spName, Arch.ipName] <;> exact hlt rfl

/-- the link register of an all-valid context as the evaluator reads it -/
theorem reg_lr_of_all {a : Arch} {c : Ctx} (h : c.valid = none) (hl : a.leafOk = true)
    (hlr : c.raw a (lrName a) ≤ a.regMax) :
    c.get a (if a.isMips then "ra" else "lr") = some (c.raw a (lrName a)) := by
  have hlt : a = .mips32 → c.raw a "ra" < 4294967296 := by
    intro ha; subst ha
    have : c.raw .mips32 "ra" ≤ U32MAX := hlr
    simp only [U32MAX] at this
    omega
  cases a <;> simp only [Arch.leafOk, Bool.false_eq_true] at hl
  all_goals simp only [Arch.isMips, Bool.false_eq_true, if_false, if_true, lrName]
  all_goals simp [Ctx.get, Ctx.has, h, Arch.canon, Arch.registers]
  exact hlt rfl

/-! ### `get_caller_by_cfi` around `walk_frame` -/

/-- after a successful `walk_frame` whose validity set is `validAfter`: the caller context; on
    ARM64 the ptr-auth bits of pc and of the (valid) frame pointer are stripped, lr is not valid -/
theorem cfiOf_of_walk {a : Arch} {w : World} {mask : Nat} {mem : Mem} {f : Frame} {g : Option Frame}
    {o : CfiOut} (heff : effArch a f.ctx = a)
    (hval : f.ctx.valid = none ∨ f.ctx.valid = some (validAfter a))
    (hw : cfiWalk a w (modTable w.mods) (cfiTables w) mem f = some o) (hov : o.valid = validAfter a) :
    cfiOf a w (modTable w.mods) (cfiTables w) mask mem f g =
      some (if a = .arm64 ∨ a = .arm64old then
              { o.ctx with ip := o.ctx.ip &&& mask,
                           rest := assocSet o.ctx.rest "fp" (assocGet o.ctx.rest "fp" &&& mask),
                           valid := some (validAfter a) }
            else { o.ctx with valid := some (validAfter a) }) := by
  unfold cfiOf
  simp only [heff, hw]
  rcases hval with h | h <;> cases a <;>
    simp [Ctx.has, Ctx.hasLit, h, hov, validAfter, setInsert, Arch.calleeSaved, Arch.canon, Arch.registers,
      Arch.aliases, Arch.spName, Arch.ipName, Ctx.set, Ctx.raw]

theorem cfiOf_of_none {a : Arch} {w : World} {mask : Nat} {mem : Mem} {f : Frame} {g : Option Frame}
    (heff : effArch a f.ctx = a) (h : cfiRecordAt w f.instruction = none) :
    cfiOf a w (modTable w.mods) (cfiTables w) mask mem f g = none := by
  unfold cfiOf
  simp only [heff, cfiWalk_of_none a w mem f h, ite_self]

/-! ### association lists -/

theorem assocGet_assocSet_same (l : List (String × Nat)) (k : String) (v : Nat) :
    assocGet (assocSet l k v) k = v := by
  induction l with
  | nil => simp [assocSet, assocGet]
  | cons p l ih =>
    obtain ⟨k', v'⟩ := p
    by_cases h : k' = k
    · simp [assocSet, assocGet, h]
    · simp [assocSet, assocGet, h, ih]

theorem assocSet_assocSet_same (l : List (String × Nat)) (k : String) (v v' : Nat) :
    assocSet (assocSet l k v) k v' = assocSet l k v' := by
  induction l with
  | nil => simp [assocSet]
  | cons p l ih =>
    obtain ⟨k', v''⟩ := p
    by_cases h : k' = k
    · simp [assocSet, h]
    · simp [assocSet, h, ih]

theorem stripOf_eq (a : Arch) (mask v : Nat) :
    stripOf a mask v = if a = .arm64 ∨ a = .arm64old then v &&& mask else v := by
  cases a <;> simp [stripOf]

theorem raw_fpName (a : Arch) (c : Ctx) : c.raw a a.fpName = assocGet c.rest a.fpName := by
  cases a <;> simp [Ctx.raw, Arch.canon, Arch.fpName, Arch.registers, Arch.ipName, Arch.spName]

theorem fpName_arm64 {a : Arch} (h : a = .arm64 ∨ a = .arm64old) : a.fpName = "fp" := by
  rcases h with h | h <;> subst h <;> rfl

theorem leafToks_ne_canonical (a : Arch) (bytes : Nat) (b : Bool) : leafToks a ≠ canonicalToks a bytes b := by
  intro h
  have := congrArg List.length h
  cases b <;> simp [leafToks, canonicalToks] at this

/-! ### `get_caller_by_cfi` on a linked frame -/

/-- the caller context `get_caller_by_cfi` builds from the registers `walk_frame` left behind
    (`ip0`, the generated stack pointer, `rest0`) is the context of `cfiFrame` -/
theorem cfiOf_assemble {a : Arch} {w : World} {mask : Nat} {mem : Mem} {f : Frame} {g : Option Frame}
    {e : Exp} {ip0 : Nat} {rest0 : List (String × Nat)} (hinv : CfiInv a f)
    (hw : cfiWalk a w (modTable w.mods) (cfiTables w) mem f =
      some { ctx := { f.ctx with sp := e.sp, ip := ip0, rest := rest0 }, valid := validAfter a })
    (hip : e.ret = stripOf a mask ip0)
    (hrest : (if savesFpAt w a f.instruction (e.sp - f.ctx.sp) || a == .arm64 || a == .arm64old
                then assocSet f.ctx.rest a.fpName (e.fp.getD 0) else f.ctx.rest) =
             if a = .arm64 ∨ a = .arm64old then assocSet rest0 "fp" (assocGet rest0 "fp" &&& mask) else rest0) :
    cfiOf a w (modTable w.mods) (cfiTables w) mask mem f g = some (cfiFrame w a f e).ctx := by
  obtain ⟨heff, htv, _⟩ := hinv
  have hval : f.ctx.valid = none ∨ f.ctx.valid = some (validAfter a) := by
    rcases htv with h | h
    · exact Or.inl h.2
    · exact Or.inr h.2
  rw [cfiOf_of_walk heff hval hw rfl]
  unfold cfiFrame
  simp only [hrest, hip, stripOf_eq]
  split <;> rfl

theorem cfiOf_link {a : Arch} {w : World} {mask : Nat} {mem : Mem} {f : Frame} {g : Option Frame} {e : Exp}
    (hinv : CfiInv a f) (hl : cfiLink w a mask mem f e = true) :
    cfiOf a w (modTable w.mods) (cfiTables w) mask mem f g = some (cfiFrame w a f e).ctx := by
  have hinv' := hinv
  obtain ⟨heff, htv, _⟩ := hinv
  have hval : f.ctx.valid = none ∨ f.ctx.valid = some (validAfter a) := by
    rcases htv with h | h
    · exact Or.inl h.2
    · exact Or.inr h.2
  have hfw := forwarded_of_inv hval
  unfold cfiLink linkCfi at hl
  simp only [Bool.and_eq_true, decide_eq_true_eq] at hl
  obtain ⟨⟨⟨h4096, hspmax⟩, hretmax⟩, hm⟩ := hl
  cases hrec : cfiRecordAt w f.instruction with
  | none => rw [hrec] at hm; cases hm
  | some rec =>
    rw [hrec] at hm
    simp only [Bool.and_eq_true, List.isEmpty_iff] at hm
    obtain ⟨hadds, hm⟩ := hm
    have hwalk := cfiWalk_of_record a w mem f rec hrec hadds
    rw [hfw] at hwalk
    by_cases hleaf : (f.trust == Trust.context) = true ∧ a.leafOk = true ∧ tokenize rec.init = leafToks a
    · -- the leaf rule of the context frame
      rw [if_pos hleaf] at hm
      simp only [Bool.and_eq_true, decide_eq_true_eq, beq_iff_eq] at hm
      obtain ⟨⟨⟨hesp, hlrmax⟩, heret⟩, hefp⟩ := hm
      rw [raw_fpName] at hefp
      have hctx : f.ctx.valid = none := by
        rcases htv with h | h
        · exact h.2
        · exact absurd (by simpa using hleaf.1) h.1
      have hspm : f.ctx.sp ≤ a.regMax := by omega
      have hw2 := walkCfi_leaf { arch := a, callee := f.ctx, mem := mem }
        { ctx := f.ctx, valid := a.calleeSaved } rec.init f.ctx.sp (f.ctx.raw a (lrName a)) hleaf.2.1 hleaf.2.2
        (reg_sp_of_inv hval hspm) hspm (reg_lr_of_all hctx hleaf.2.1 hlrmax) hlrmax
      refine cfiOf_assemble hinv' (ip0 := f.ctx.raw a (lrName a)) (rest0 := f.ctx.rest) ?_ heret ?_
      · rw [hwalk, hw2, hesp]; rfl
      · have hs : savesFpAt w a f.instruction (e.sp - f.ctx.sp) = false := by
          simp only [savesFpAt, hrec, hleaf.2.2, decide_eq_false_iff_not]
          exact leafToks_ne_canonical a _ true
        rw [hs, hefp]
        by_cases h64 : a = .arm64 ∨ a = .arm64old
        · have hb : (a == .arm64 || a == .arm64old) = true := by
            rcases h64 with h | h <;> subst h <;> rfl
          simp only [Bool.false_or, hb, if_true, if_pos h64, Option.getD_some, stripOf_eq,
            fpName_arm64 h64]
        · have hb : (a == .arm64 || a == .arm64old) = false := by
            cases a <;> simp at h64 ⊢
          simp only [Bool.false_or, hb, Bool.false_eq_true, if_false, if_neg h64]
    · rw [if_neg hleaf] at hm
      simp only [Bool.and_eq_true, decide_eq_true_eq, beq_iff_eq] at hm
      obtain ⟨⟨⟨hlt, hpb⟩, hret⟩, hm⟩ := hm
      have hsum : f.ctx.sp + (e.sp - f.ctx.sp) = e.sp := by omega
      have hspm : f.ctx.sp ≤ a.regMax := by omega
      have hreg := reg_sp_of_inv hval hspm
      cases hrd : mem.read (e.sp - a.ptr) a.ptr with
      | none => rw [hrd] at hret; cases hret
      | some ret =>
        rw [hrd] at hret
        simp only [Option.map_some, Option.some.injEq] at hret
        by_cases hsv : tokenize rec.init = canonicalToks a (e.sp - f.ctx.sp) true
        · -- the rule saves the frame pointer
          rw [if_pos hsv] at hm
          simp only [Bool.and_eq_true, decide_eq_true_eq, beq_iff_eq] at hm
          obtain ⟨⟨h2p, hfpv⟩, hsome⟩ := hm
          cases hrf : mem.read (e.sp - 2 * a.ptr) a.ptr with
          | none =>
            rw [hrf] at hfpv
            simp only [Option.map_none] at hfpv
            rw [← hfpv] at hsome
            cases hsome
          | some v =>
            rw [hrf] at hfpv
            simp only [Option.map_some] at hfpv
            have hw2 := walkCfi_canon_fp { arch := a, callee := f.ctx, mem := mem }
              { ctx := f.ctx, valid := a.calleeSaved } rec.init (e.sp - f.ctx.sp) f.ctx.sp ret v hsv hreg
              (by show f.ctx.sp + (e.sp - f.ctx.sp) ≤ a.regMax; omega)
              (by show 2 * a.ptr ≤ f.ctx.sp + (e.sp - f.ctx.sp); omega)
              (by show mem.read (f.ctx.sp + (e.sp - f.ctx.sp) - a.ptr) a.ptr = some ret; rw [hsum]; exact hrd)
              (by show mem.read (f.ctx.sp + (e.sp - f.ctx.sp) - 2 * a.ptr) a.ptr = some v; rw [hsum]; exact hrf)
            refine cfiOf_assemble hinv' (ip0 := ret) (rest0 := assocSet f.ctx.rest a.fpName v) ?_ hret.symm ?_
            · rw [hwalk, hw2]
              simp only [hsum]
              show some _ = some _
              congr 2
              exact validAfter_fp a
            · have hs : savesFpAt w a f.instruction (e.sp - f.ctx.sp) = true := by
                simp only [savesFpAt, hrec, hsv, decide_true]
              rw [hs, ← hfpv]
              by_cases h64 : a = .arm64 ∨ a = .arm64old
              · simp only [Bool.true_or, if_true, if_pos h64, Option.getD_some, stripOf_eq, fpName_arm64 h64,
                  assocGet_assocSet_same, assocSet_assocSet_same]
              · simp only [Bool.true_or, if_true, if_neg h64, Option.getD_some, stripOf_eq]
        · -- the frame pointer is forwarded
          rw [if_neg hsv] at hm
          simp only [Bool.and_eq_true, decide_eq_true_eq, beq_iff_eq] at hm
          obtain ⟨hns, hefp⟩ := hm
          rw [raw_fpName] at hefp
          have hw2 := walkCfi_canon { arch := a, callee := f.ctx, mem := mem }
            { ctx := f.ctx, valid := a.calleeSaved } rec.init (e.sp - f.ctx.sp) f.ctx.sp ret hns hreg
            (by show f.ctx.sp + (e.sp - f.ctx.sp) ≤ a.regMax; omega)
            (by show a.ptr ≤ f.ctx.sp + (e.sp - f.ctx.sp); omega)
            (by show mem.read (f.ctx.sp + (e.sp - f.ctx.sp) - a.ptr) a.ptr = some ret; rw [hsum]; exact hrd)
          refine cfiOf_assemble hinv' (ip0 := ret) (rest0 := f.ctx.rest) ?_ hret.symm ?_
          · rw [hwalk, hw2]
            simp only [hsum]
            rfl
          · have hs : savesFpAt w a f.instruction (e.sp - f.ctx.sp) = false := by
              simp only [savesFpAt, hrec, hsv, decide_false]
            rw [hs, hefp]
            by_cases h64 : a = .arm64 ∨ a = .arm64old
            · have hb : (a == .arm64 || a == .arm64old) = true := by
                rcases h64 with h | h <;> subst h <;> rfl
              simp only [Bool.false_or, hb, if_true, if_pos h64, Option.getD_some, stripOf_eq,
                fpName_arm64 h64]
            · have hb : (a == .arm64 || a == .arm64old) = false := by
                cases a <;> simp at h64 ⊢
              simp only [Bool.false_or, hb, Bool.false_eq_true, if_false, if_neg h64]

/-! ### one `get_caller_frame` -/

/-- what the epilogue of `get_caller_frame` needs of a linked frame -/
theorem cfiLink_epilogue {a : Arch} {w : World} {mask : Nat} {mem : Mem} {f : Frame} {e : Exp}
    (hl : cfiLink w a mask mem f e = true) :
    4096 ≤ e.ret ∧ (f.ctx.sp < e.sp ∨ (a.leafOk = true ∧ f.trust = .context ∧ e.sp = f.ctx.sp)) := by
  unfold cfiLink linkCfi at hl
  simp only [Bool.and_eq_true, decide_eq_true_eq] at hl
  obtain ⟨⟨⟨h4096, _⟩, _⟩, hm⟩ := hl
  refine ⟨h4096, ?_⟩
  cases hrec : cfiRecordAt w f.instruction with
  | none => rw [hrec] at hm; cases hm
  | some rec =>
    rw [hrec] at hm
    simp only [Bool.and_eq_true] at hm
    obtain ⟨_, hm⟩ := hm
    split at hm
    · rename_i hleaf
      simp only [Bool.and_eq_true, decide_eq_true_eq] at hm
      exact Or.inr ⟨hleaf.2.1, by simpa using hleaf.1, hm.1.1.1⟩
    · simp only [Bool.and_eq_true, decide_eq_true_eq] at hm
      exact Or.inl hm.1.1.1

theorem cfiView_transfer {a : Arch} {w : World} {mask : Nat} {mem : Mem} {f st : Frame} (e : Exp)
    (hv : CfiView a f st) :
    CfiInv a f ∧ cfiLink w a mask mem f e = cfiLink w a mask mem st e ∧ cfiFrame w a f e = cfiFrame w a st e := by
  obtain ⟨h1, h2, h3, h4⟩ := hv
  refine ⟨?_, ?_, ?_⟩
  · unfold CfiInv at *
    rw [h1, h2]; exact h4
  · unfold cfiLink
    rw [h1, h2, h3]
  · unfold cfiFrame
    rw [h1, h3]

/-- **one `get_caller_frame` on a frame covered by a canonical STACK CFI record** -/
theorem step_cfi {env : Env} {a : Arch} {w : World} {mem : Mem} (harch : env.arch = a)
    (hcfi : env.cfi = cfiOf a w (modTable w.mods) (cfiTables w) env.mask mem)
    (f : Frame) (g : Option Frame) (st : Frame) (e : Exp)
    (hv : CfiView a f st) (hl : cfiLink w a env.mask mem st e = true) :
    step env mem f g = some (cfiFrame w a st e) := by
  obtain ⟨hinv, hle, hfe⟩ := cfiView_transfer (w := w) (mask := env.mask) (mem := mem) e hv
  rw [← hle] at hl
  rw [← hfe]
  obtain ⟨h4096, hsp⟩ := cfiLink_epilogue hl
  have hc := cfiOf_link (g := g) hinv hl
  unfold step
  simp only [harch, hinv.1, candidate, hcfi, hc]
  unfold epilogue
  have hip : (cfiFrame w a f e).ctx.ip = e.ret := rfl
  have hsp' : (cfiFrame w a f e).ctx.sp = e.sp := rfl
  rw [hip, hsp', nullish_eq, if_neg (by omega)]
  rcases hsp with h | ⟨h1, h2, h3⟩
  · rw [if_neg (by omega)]
    rfl
  · rw [if_neg (by simp [h1, h2, h3])]
    rfl

end MdModel.Walk
