/-
  MdProofs.Lemmas.EncodeMaps — C02: the LINUX MAPS text stream reads back: lines, the six
  space-separated fields, fixed-width hexadecimal / decimal numbers through `from_str_radix`,
  permission characters, and every spelling of the path column.
-/
import MdProofs.Lemmas.EncodeHandles
namespace MdModel.Encode
open MdModel MdModel.Dump MdModel.Gen.Layouts MdModel.Gen.LayoutsC02

/-! ## numbers -/

/-- a byte `fixedDigits` can produce -/
abbrev IsDigitByte (c : UInt8) : Prop := (48 ≤ c ∧ c ≤ 57) ∨ (97 ≤ c ∧ c ≤ 102)

theorem digitByte_isDigit : ∀ d, d < 16 → IsDigitByte (digitByte d) := by decide

theorem digitVal16 : ∀ d, d < 16 → digitVal 16 (digitByte d) = some d := by decide
theorem digitVal10 : ∀ d, d < 10 → digitVal 10 (digitByte d) = some d := by decide

theorem fixedDigits_length (b : Nat) : ∀ (w n : Nat), (fixedDigits b w n).length = w := by
  intro w
  induction w with
  | zero => intro n; rfl
  | succ w ih => intro n; simp [fixedDigits, ih]

theorem fixedDigits_isDigit {b : Nat} (hb : 0 < b ∧ b ≤ 16) : ∀ (w n : Nat), ∀ c ∈ fixedDigits b w n, IsDigitByte c := by
  intro w
  induction w with
  | zero => intro n c hc; simp [fixedDigits] at hc
  | succ w ih =>
    intro n c hc
    simp only [fixedDigits, List.mem_append, List.mem_singleton] at hc
    cases hc with
    | inl h => exact ih _ c h
    | inr h =>
      subst h
      exact digitByte_isDigit _ (by have := Nat.mod_lt n hb.1; omega)

theorem digitsVal_append (radix maxv : Nat) : ∀ (xs ys : List UInt8) (acc : Nat),
    digitsVal radix maxv acc (xs ++ ys) = (digitsVal radix maxv acc xs).bind fun a => digitsVal radix maxv a ys := by
  intro xs
  induction xs with
  | nil => intro ys acc; rfl
  | cons x xs ih =>
    intro ys acc
    simp only [List.cons_append, digitsVal]
    cases digitVal radix x with
    | none => rfl
    | some d =>
      simp only
      split
      · rfl
      · exact ih ys _

/-- **`from_str_radix` on `w` printed digits gives the number back** (base 10 or 16) -/
theorem digitsVal_fixed {b maxv : Nat} (hb : b = 10 ∨ b = 16) : ∀ (w n : Nat), n < b ^ w → n ≤ maxv →
    digitsVal b maxv 0 (fixedDigits b w n) = some n := by
  intro w
  induction w with
  | zero => intro n h _; simp at h; subst h; rfl
  | succ w ih =>
    intro n h hm
    have hbpos : 0 < b := by rcases hb with rfl | rfl <;> decide
    have hdiv : n / b < b ^ w := by
      rw [Nat.pow_succ] at h
      exact Nat.div_lt_of_lt_mul (by rw [Nat.mul_comm]; exact h)
    have hle : n / b ≤ maxv := Nat.le_trans (Nat.div_le_self n b) hm
    have hmod := Nat.mod_lt n hbpos
    have hdv : digitVal b (digitByte (n % b)) = some (n % b) := by
      rcases hb with rfl | rfl
      · exact digitVal10 _ hmod
      · exact digitVal16 _ hmod
    simp only [fixedDigits, digitsVal_append, ih _ hdiv hle, Option.bind, digitsVal, hdv]
    have : n / b * b + n % b = n := by rw [Nat.mul_comm]; exact Nat.div_add_mod n b
    rw [this, if_neg (by omega)]

theorem parseUnsigned_fixed {b maxv : Nat} (hb : b = 10 ∨ b = 16) (w n : Nat) (hw : 0 < w) (h : n < b ^ w) (hm : n ≤ maxv) :
    parseUnsigned b maxv (fixedDigits b w n) = some n := by
  have hb16 : 0 < b ∧ b ≤ 16 := by rcases hb with rfl | rfl <;> decide
  have hdig := fixedDigits_isDigit hb16 w n
  have hlen := fixedDigits_length b w n
  have hval := digitsVal_fixed (maxv := maxv) hb w n h hm
  cases hl : fixedDigits b w n with
  | nil => rw [hl] at hlen; simp at hlen; omega
  | cons c cs =>
    rw [hl] at hval hdig
    have hc := hdig c (by simp)
    have hne : c ≠ 43 := by
      intro h43; subst h43
      unfold IsDigitByte at hc
      revert hc; decide
    unfold parseUnsigned
    split
    · rename_i rest heq
      simp only [List.cons.injEq] at heq
      exact absurd heq.1 hne
    · simp [hval]

theorem parseI32Hex_fixed (n : Nat) (h : n < 2 ^ 31) : parseI32Hex (fixedDigits 16 8 n) = some n := by
  have hdig := fixedDigits_isDigit (b := 16) (by decide) 8 n
  have hlen := fixedDigits_length 16 8 n
  have hp := parseUnsigned_fixed (b := 16) (maxv := 2147483647) (.inr rfl) 8 n (by decide)
    (by have : (16 : Nat) ^ 8 = 2 ^ 32 := by decide
        omega) (by omega)
  cases hl : fixedDigits 16 8 n with
  | nil => rw [hl] at hlen; simp at hlen
  | cons c cs =>
    rw [hl] at hp hdig
    have hc := hdig c (by simp)
    have hne : c ≠ 45 := by
      intro h45; subst h45
      unfold IsDigitByte at hc
      revert hc; decide
    unfold parseI32Hex
    split
    · rename_i rest heq
      simp only [List.cons.injEq] at heq
      exact absurd heq.1 hne
    · exact hp

theorem parsePerms_enc : ∀ p, p < 32 → parsePerms (encPerms p) = p := by decide

/-! ## splitting -/

theorem splitOnByte_none (c : UInt8) : ∀ (a : List UInt8), c ∉ a → splitOnByte c a = [a] := by
  intro a
  induction a with
  | nil => intro _; rfl
  | cons x xs ih =>
    intro h
    have hx : (x == c) = false := by
      simp only [List.mem_cons, not_or] at h
      simpa using fun hh => h.1 hh.symm
    have := ih (fun hh => h (List.mem_cons_of_mem _ hh))
    simp [splitOnByte, hx, this]

theorem splitOnByte_sep (c : UInt8) : ∀ (a rest : List UInt8), c ∉ a →
    splitOnByte c (a ++ c :: rest) = a :: splitOnByte c rest := by
  intro a
  induction a with
  | nil => intro rest _; simp [splitOnByte]
  | cons x xs ih =>
    intro rest h
    have hx : (x == c) = false := by
      simp only [List.mem_cons, not_or] at h
      simpa using fun hh => h.1 hh.symm
    have := ih rest (fun hh => h (List.mem_cons_of_mem _ hh))
    simp [splitOnByte, hx, this]

theorem splitNByte_sep (c : UInt8) (n : Nat) : ∀ (a rest : List UInt8), c ∉ a →
    splitNByte c (n + 2) (a ++ c :: rest) = a :: splitNByte c (n + 1) rest := by
  intro a
  induction a with
  | nil => intro rest _; simp [splitNByte]
  | cons x xs ih =>
    intro rest h
    have hx : (x == c) = false := by
      simp only [List.mem_cons, not_or] at h
      simpa using fun hh => h.1 hh.symm
    have := ih rest (fun hh => h (List.mem_cons_of_mem _ hh))
    simp [splitNByte, hx, this]

theorem splitPair_enc (sep : UInt8) (a b : List UInt8) (ha : sep ∉ a) (hb : sep ∉ b) :
    splitPair sep (a ++ sep :: b) = some (a, b) := by
  unfold splitPair
  rw [splitOnByte_sep sep a b ha, splitOnByte_none sep b hb]

theorem digit_not {c x : UInt8} (hc : IsDigitByte c) (hx : ¬ IsDigitByte x) : c ≠ x := by
  intro h; subst h; exact hx hc

theorem not_mem_fixedDigits {b : Nat} (hb : 0 < b ∧ b ≤ 16) (w n : Nat) (x : UInt8) (hx : ¬ IsDigitByte x) :
    x ∉ fixedDigits b w n := fun h => hx (fixedDigits_isDigit hb w n x h)

theorem not_mem_encPerms : ∀ p, p < 32 → (32 : UInt8) ∉ encPerms p := by decide

/-! ## lines -/

/-- the text of `n` lines, each closed by `\n` -/
def joinLines : List (List UInt8) → List UInt8
  | [] => []
  | l :: ls => l ++ [10] ++ joinLines ls

theorem splitOnByte_joinLines : ∀ (ls : List (List UInt8)), (∀ l ∈ ls, (10 : UInt8) ∉ l) →
    splitOnByte 10 (joinLines ls) = ls ++ [[]] := by
  intro ls
  induction ls with
  | nil => intro _; rfl
  | cons l ls ih =>
    intro h
    simp only [joinLines, List.append_assoc, List.singleton_append]
    rw [splitOnByte_sep 10 l _ (h l (by simp)), ih (fun l' hl' => h l' (by simp [hl']))]
    rfl

theorem textLines_joinLines (ls : List (List UInt8)) (h10 : ∀ l ∈ ls, (10 : UInt8) ∉ l)
    (h13 : ∀ l ∈ ls, l.getLast? ≠ some 13) : textLines (joinLines ls) = ls := by
  unfold textLines
  rw [splitOnByte_joinLines ls h10]
  simp only [List.dropLast_concat, List.getLast?_append, List.getLast?_singleton, Option.some_or]
  conv => rhs; rw [← List.map_id ls]
  apply List.map_congr_left
  intro l hl
  have := h13 l hl
  simp [this]

theorem encLinuxMaps_eq (xs : List MapEntry) : encLinuxMaps xs = joinLines (xs.map mapLineBody) := by
  induction xs with
  | nil => rfl
  | cons x xs ih => simp [encLinuxMaps, joinLines, ih]

/-! ## UTF-8 -/

theorem utf8Valid_cons_ascii (a : UInt8) (h : a < 0x80) (rest : List UInt8) : utf8Valid (a :: rest) = utf8Valid rest := by
  match rest with
  | [] => simp [utf8Valid, h]
  | [b] => simp [utf8Valid, h]
  | [b, c] => simp [utf8Valid, h]
  | b :: c :: d :: r => simp [utf8Valid, h]

theorem utf8Valid_ascii_append : ∀ (pre rest : List UInt8), (∀ c ∈ pre, c < 0x80) →
    utf8Valid (pre ++ rest) = utf8Valid rest := by
  intro pre
  induction pre with
  | nil => intro rest _; rfl
  | cons a pre ih =>
    intro rest h
    rw [List.cons_append, utf8Valid_cons_ascii a (h a (by simp)), ih rest (fun c hc => h c (by simp [hc]))]

/-! ## the path column -/

/-- a printable ASCII byte (no white space, no control character) -/
abbrev Printable (c : UInt8) : Prop := 0x21 ≤ c ∧ c ≤ 0x7E

theorem printable_not_ws (c : UInt8) (h : Printable c) : ¬ (9 ≤ c ∧ c ≤ 13 ∨ (c == 32) = true) := by
  obtain ⟨h1, h2⟩ := h
  rw [UInt8.le_iff_toNat_le] at h1 h2
  simp only [UInt8.le_iff_toNat_le, beq_iff_eq, ← UInt8.toNat_inj]
  simp only [UInt8.toNat_ofNat] at *
  omega

theorem wsHead_printable (c : UInt8) (rest : List UInt8) (h : Printable c) : wsHead (c :: rest) = 0 := by
  unfold wsHead
  split <;> first
    | (exfalso; revert h; decide)
    | (rename_i heq; simp only [List.cons.injEq] at heq; obtain ⟨rfl, _⟩ := heq; exfalso; revert h; decide)
    | skip
  · rename_i heq
    simp only [List.cons.injEq] at heq
    obtain ⟨rfl, _⟩ := heq
    rw [if_neg (printable_not_ws _ h)]
  · rfl

theorem printable_not_ws2 (c : UInt8) (h : Printable c) :
    ¬ (128 ≤ c ∧ c ≤ 138 ∨ (c == 168) = true ∨ (c == 169) = true ∨ (c == 175) = true) := by
  obtain ⟨h1, h2⟩ := h
  rw [UInt8.le_iff_toNat_le] at h1 h2
  simp only [UInt8.le_iff_toNat_le, beq_iff_eq, ← UInt8.toNat_inj]
  simp only [UInt8.toNat_ofNat] at *
  omega

theorem wsLast_printable (c : UInt8) (rest : List UInt8) (h : Printable c) : wsLast (c :: rest) = 0 := by
  unfold wsLast
  split <;> first
    | (exfalso; revert h; decide)
    | (rename_i heq; simp only [List.cons.injEq] at heq; obtain ⟨rfl, _⟩ := heq; exfalso; revert h; decide)
    | skip
  · rename_i heq
    simp only [List.cons.injEq] at heq
    obtain ⟨rfl, _⟩ := heq
    rw [if_neg (printable_not_ws2 _ h), if_neg (printable_not_ws _ h)]
  · rename_i heq
    simp only [List.cons.injEq] at heq
    obtain ⟨rfl, _⟩ := heq
    rw [if_neg (printable_not_ws _ h)]
  · rfl

/-- text that `str::trim` leaves alone: empty, or printable ASCII at both ends -/
def TrimStable (s : List UInt8) : Prop :=
  s = [] ∨ ((∃ c, s.head? = some c ∧ Printable c) ∧ ∃ c, s.getLast? = some c ∧ Printable c)

theorem trimStartGo_stable (fuel : Nat) (s : List UInt8) (h : TrimStable s) : trimStartGo fuel s = s := by
  cases fuel with
  | zero => rfl
  | succ f =>
    rcases h with rfl | ⟨⟨c, hc, hp⟩, _⟩
    · rfl
    · cases s with
      | nil => simp at hc
      | cons x xs =>
        simp only [List.head?_cons, Option.some.injEq] at hc
        subst hc
        simp [trimStartGo, wsHead_printable x xs hp]

theorem trimEndGo_stable (fuel : Nat) (s : List UInt8) (h : TrimStable s) : trimEndGo fuel s.reverse = s.reverse := by
  cases fuel with
  | zero => rfl
  | succ f =>
    rcases h with rfl | ⟨_, ⟨c, hc, hp⟩⟩
    · rfl
    · cases hr : s.reverse with
      | nil => rfl
      | cons x xs =>
        have : s.getLast? = some x := by
          rw [List.getLast?_eq_head?_reverse, hr]; rfl
        rw [this] at hc
        simp only [Option.some.injEq] at hc
        subst hc
        simp [trimEndGo, wsLast_printable x xs hp]

theorem trimBytes_stable (s : List UInt8) (h : TrimStable s) : trimBytes s = s := by
  unfold trimBytes
  simp only [trimStartGo_stable _ s h, trimEndGo_stable _ s h, List.reverse_reverse]

def SPECIAL_NAMES : List (List UInt8) := [S_HEAP, S_STACK, S_VDSO, S_VVAR, S_VSYSCALL, S_ROLLUP]

/-- a path column the text format can carry unambiguously: a file path must not look like one of
    the bracketed pseudo-paths or a `/SYSV` key and must not begin or end with white space (the
    parser trims); a bracketed name must not be one of the fixed ones -/
def PathFits : MapPath → Prop
  | .path p => p ≠ [] ∧ TrimStable p ∧ p ∉ SPECIAL_NAMES ∧ startsWithB p S_STACK_COLON = false ∧
      ¬ (p.head? = some 91 ∧ p.getLast? = some 93) ∧ startsWithB p S_SYSV = false
  | .tstack tid => tid < 2 ^ 32
  | .vsys k => k < 2 ^ 32
  | .other s => ([91] ++ s ++ [93]) ∉ SPECIAL_NAMES ∧ startsWithB ([91] ++ s ++ [93]) S_STACK_COLON = false
  | _ => True

theorem getLast?_cons_snoc (a b : UInt8) (s : List UInt8) : (a :: (s ++ [b])).getLast? = some b := by
  rw [← List.cons_append, List.getLast?_concat]

theorem trimStable_brackets (mid : List UInt8) : TrimStable ([91] ++ mid ++ [93]) := by
  refine .inr ⟨⟨91, by simp, by decide⟩, ⟨93, by simp [getLast?_cons_snoc], by decide⟩⟩

theorem mapPathOf_path (p : List UInt8) (h : PathFits (.path p)) : (mapPathOf p).res = .ok (.path p) := by
  obtain ⟨h0, ht, hs, hc, hb, hv⟩ := h
  simp only [SPECIAL_NAMES, List.mem_cons, List.not_mem_nil, or_false, not_or] at hs
  obtain ⟨n1, n2, n3, n4, n5, n6⟩ := hs
  unfold mapPathOf
  simp only [trimBytes_stable p ht]
  simp [h0, n1, n2, n3, n4, n5, n6, hc, hb, hv]

theorem mapPathOf_other (s : List UInt8) (h : PathFits (.other s)) :
    (mapPathOf ([91] ++ s ++ [93])).res = .ok (.other s) := by
  obtain ⟨hs, hc⟩ := h
  simp only [SPECIAL_NAMES, List.mem_cons, List.not_mem_nil, or_false, not_or] at hs
  obtain ⟨n1, n2, n3, n4, n5, n6⟩ := hs
  unfold mapPathOf
  simp only [trimBytes_stable _ (trimStable_brackets s)]
  simp only [List.singleton_append, List.cons_append, List.nil_append] at n1 n2 n3 n4 n5 n6 hc ⊢
  simp [n1, n2, n3, n4, n5, n6, hc, getLast?_cons_snoc]

theorem mapPathOf_tstack (tid : Nat) (h : tid < 2 ^ 32) :
    (mapPathOf (S_STACK_COLON ++ fixedDigits 10 10 tid ++ [93])).res = .ok (.tstack tid) := by
  have hp := parseUnsigned_fixed (b := 10) (maxv := 4294967295) (.inl rfl) 10 tid (by decide)
    (by have : (10 : Nat) ^ 10 = 10000000000 := by decide
        omega) (by omega)
  have hdig := fixedDigits_isDigit (b := 10) (by decide) 10 tid
  have hlen := fixedDigits_length 10 10 tid
  match hd : fixedDigits 10 10 tid, hlen with
  | [d0, d1, d2, d3, d4, d5, d6, d7, d8, d9], _ =>
    rw [hd] at hp hdig
    have h58 : (58 : UInt8) ∉ [d0, d1, d2, d3, d4, d5, d6, d7, d8, d9] := fun hm => by
      have := hdig 58 hm; revert this; decide
    have hst : TrimStable (S_STACK_COLON ++ [d0, d1, d2, d3, d4, d5, d6, d7, d8, d9] ++ [93]) :=
      trimStable_brackets ([115, 116, 97, 99, 107, 58] ++ [d0, d1, d2, d3, d4, d5, d6, d7, d8, d9])
    unfold mapPathOf
    simp only [trimBytes_stable _ hst]
    have hsplit : splitOnByte 58 ([115, 116, 97, 99, 107] ++ 58 :: [d0, d1, d2, d3, d4, d5, d6, d7, d8, d9]) =
        [[115, 116, 97, 99, 107], [d0, d1, d2, d3, d4, d5, d6, d7, d8, d9]] := by
      rw [splitOnByte_sep 58 _ _ (by decide), splitOnByte_none 58 _ h58]
    simp [S_STACK_COLON, S_HEAP, S_STACK, S_VDSO, S_VVAR, S_VSYSCALL, S_ROLLUP, startsWithB, List.dropLast] at hsplit ⊢
    simp [hsplit, hp]

theorem mapPathOf_vsys (k : Nat) (h : k < 2 ^ 32) :
    (mapPathOf (S_SYSV ++ fixedDigits 16 8 k)).res = .ok (.vsys k) := by
  have hp := parseUnsigned_fixed (b := 16) (maxv := 4294967295) (.inr rfl) 8 k (by decide)
    (by have : (16 : Nat) ^ 8 = 2 ^ 32 := by decide
        omega) (by omega)
  have hlen := fixedDigits_length 16 8 k
  match hd : fixedDigits 16 8 k, hlen with
  | [d0, d1, d2, d3, d4, d5, d6, d7], _ =>
    rw [hd] at hp
    have hdig := fixedDigits_isDigit (b := 16) (by decide) 8 k
    rw [hd] at hdig
    have hst : TrimStable (S_SYSV ++ [d0, d1, d2, d3, d4, d5, d6, d7]) := by
      refine .inr ⟨⟨47, by simp [S_SYSV], by decide⟩, ⟨d7, by simp [S_SYSV], ?_⟩⟩
      have := hdig d7 (by simp)
      unfold IsDigitByte at this
      unfold Printable
      simp only [UInt8.le_iff_toNat_le, UInt8.toNat_ofNat] at *
      omega
    unfold mapPathOf
    simp only [trimBytes_stable _ hst]
    simp [S_SYSV, S_STACK_COLON, S_HEAP, S_STACK, S_VDSO, S_VVAR, S_VSYSCALL, S_ROLLUP, startsWithB, hp]

theorem mapPathOf_enc (p : MapPath) (h : PathFits p) : (mapPathOf (encMapPath p)).res = .ok p := by
  cases p with
  | path q => exact mapPathOf_path q h
  | heap => rfl
  | stack => rfl
  | tstack tid => exact mapPathOf_tstack tid h
  | vdso => rfl
  | vvar => rfl
  | vsyscall => rfl
  | rollup => rfl
  | anonymous => rfl
  | vsys k => exact mapPathOf_vsys k h
  | other s => exact mapPathOf_other s h

theorem digit_printable {c : UInt8} (h : IsDigitByte c) : Printable c := by
  unfold IsDigitByte at h
  unfold Printable
  simp only [UInt8.le_iff_toNat_le, UInt8.toNat_ofNat] at *
  omega

theorem printable_ascii {c : UInt8} (h : Printable c) : c < 0x80 := by
  unfold Printable at h
  simp only [UInt8.le_iff_toNat_le, UInt8.lt_iff_toNat_lt, UInt8.toNat_ofNat] at *
  omega

/-- the last byte of a path column is printable (so it is neither `\r` nor white space) -/
theorem pathText_last (p : MapPath) (h : PathFits p) : ∀ c, (encMapPath p).getLast? = some c → Printable c := by
  cases p with
  | path q =>
    obtain ⟨h0, ht, _⟩ := h
    intro c hc
    rcases ht with rfl | ⟨_, ⟨c', hc', hp⟩⟩
    · exact absurd rfl h0
    · simp only [encMapPath] at hc
      rw [hc] at hc'
      cases hc'; exact hp
  | tstack tid =>
    intro c hc
    simp only [encMapPath, List.getLast?_concat, Option.some.injEq] at hc
    subst hc; decide
  | vsys k =>
    intro c hc
    have hlen := fixedDigits_length 16 8 k
    have hdig := fixedDigits_isDigit (b := 16) (by decide) 8 k
    match hd : fixedDigits 16 8 k, hlen with
    | [d0, d1, d2, d3, d4, d5, d6, d7], _ =>
      rw [hd] at hdig
      simp only [encMapPath, hd, S_SYSV, List.cons_append, List.nil_append] at hc
      simp at hc
      subst hc
      exact digit_printable (hdig _ (by simp))
  | other s =>
    intro c hc
    simp only [encMapPath, List.getLast?_concat, Option.some.injEq] at hc
    subst hc; decide
  | heap => intro c hc; simp [encMapPath, S_HEAP] at hc; subst hc; decide
  | stack => intro c hc; simp [encMapPath, S_STACK] at hc; subst hc; decide
  | vdso => intro c hc; simp [encMapPath, S_VDSO] at hc; subst hc; decide
  | vvar => intro c hc; simp [encMapPath, S_VVAR] at hc; subst hc; decide
  | vsyscall => intro c hc; simp [encMapPath, S_VSYSCALL] at hc; subst hc; decide
  | rollup => intro c hc; simp [encMapPath, S_ROLLUP] at hc; subst hc; decide
  | anonymous => intro c hc; simp [encMapPath] at hc

/-! ## one line, and the whole stream -/

/-- an entry the text format can carry -/
def MapEntryFits (x : MapEntry) : Prop :=
  x.lo < 2 ^ 64 ∧ x.hi < 2 ^ 64 ∧ x.perms < 32 ∧ x.offset < 2 ^ 64 ∧ x.devMajor < 2 ^ 31 ∧ x.devMinor < 2 ^ 31 ∧
  x.inode < 2 ^ 64 ∧ PathFits x.path ∧ utf8Valid (encMapPath x.path) = true ∧ (10 : UInt8) ∉ encMapPath x.path

/-- everything before the path column -/
def mapLineHead (x : MapEntry) : List UInt8 :=
  fixedDigits 16 16 x.lo ++ [45] ++ fixedDigits 16 16 x.hi ++ [32] ++ encPerms x.perms ++ [32] ++
  fixedDigits 16 16 x.offset ++ [32] ++ fixedDigits 16 8 x.devMajor ++ [58] ++ fixedDigits 16 8 x.devMinor ++ [32] ++
  fixedDigits 10 20 x.inode ++ [32]

theorem mapLineBody_eq (x : MapEntry) : mapLineBody x = mapLineHead x ++ encMapPath x.path := rfl

theorem encPerms_ascii : ∀ p, p < 32 → ∀ c ∈ encPerms p, c < 0x80 ∧ c ≠ 10 := by decide

theorem all_append {P : UInt8 → Prop} {a b : List UInt8} (ha : ∀ c ∈ a, P c) (hb : ∀ c ∈ b, P c) :
    ∀ c ∈ a ++ b, P c := by
  intro c hc
  rcases List.mem_append.mp hc with h | h
  · exact ha c h
  · exact hb c h

theorem all_single {P : UInt8 → Prop} {x : UInt8} (h : P x) : ∀ c ∈ [x], P c := by
  intro c hc
  simp only [List.mem_singleton] at hc
  subst hc; exact h

theorem mapLineHead_ascii (x : MapEntry) (hp : x.perms < 32) : ∀ c ∈ mapLineHead x, c < 0x80 ∧ c ≠ 10 := by
  have hd16 : ∀ w n, ∀ c ∈ fixedDigits 16 w n, c < 0x80 ∧ c ≠ 10 := fun w n c h => by
    have hd := fixedDigits_isDigit (b := 16) (by decide) w n c h
    exact ⟨printable_ascii (digit_printable hd), fun h10 => by subst h10; revert hd; decide⟩
  have hd10 : ∀ w n, ∀ c ∈ fixedDigits 10 w n, c < 0x80 ∧ c ≠ 10 := fun w n c h => by
    have hd := fixedDigits_isDigit (b := 10) (by decide) w n c h
    exact ⟨printable_ascii (digit_printable hd), fun h10 => by subst h10; revert hd; decide⟩
  unfold mapLineHead
  exact all_append (all_append (all_append (all_append (all_append (all_append (all_append (all_append (all_append
    (all_append (all_append (all_append (all_append (hd16 _ _) (all_single (by decide))) (hd16 _ _))
    (all_single (by decide))) (encPerms_ascii _ hp)) (all_single (by decide))) (hd16 _ _)) (all_single (by decide)))
    (hd16 _ _)) (all_single (by decide))) (hd16 _ _)) (all_single (by decide))) (hd10 _ _)) (all_single (by decide))

theorem mapEntryOfLine_enc (x : MapEntry) (h : MapEntryFits x) : (mapEntryOfLine (mapLineBody x)).res = .ok x := by
  obtain ⟨h1, h2, h3, h4, h5, h6, h7, hpath, _, _⟩ := h
  have nd16 : ∀ w n (c : UInt8), ¬ IsDigitByte c → c ∉ fixedDigits 16 w n := fun w n c hc =>
    not_mem_fixedDigits (by decide) w n c hc
  have nd10 : ∀ w n (c : UInt8), ¬ IsDigitByte c → c ∉ fixedDigits 10 w n := fun w n c hc =>
    not_mem_fixedDigits (by decide) w n c hc
  have hshape : mapLineBody x =
      (fixedDigits 16 16 x.lo ++ 45 :: fixedDigits 16 16 x.hi) ++ 32 :: (encPerms x.perms ++ 32 ::
        (fixedDigits 16 16 x.offset ++ 32 :: ((fixedDigits 16 8 x.devMajor ++ 58 :: fixedDigits 16 8 x.devMinor) ++ 32 ::
          (fixedDigits 10 20 x.inode ++ 32 :: encMapPath x.path)))) := by
    simp [mapLineBody]
  have hsplit : splitNByte 32 6 (mapLineBody x) =
      [fixedDigits 16 16 x.lo ++ 45 :: fixedDigits 16 16 x.hi, encPerms x.perms, fixedDigits 16 16 x.offset,
       fixedDigits 16 8 x.devMajor ++ 58 :: fixedDigits 16 8 x.devMinor, fixedDigits 10 20 x.inode, encMapPath x.path] := by
    rw [hshape]
    rw [splitNByte_sep 32 4 _ _ (by
      simp only [List.mem_append, List.mem_cons, not_or]
      exact ⟨nd16 _ _ 32 (by decide), by decide, nd16 _ _ 32 (by decide)⟩)]
    rw [splitNByte_sep 32 3 _ _ (not_mem_encPerms _ h3)]
    rw [splitNByte_sep 32 2 _ _ (nd16 _ _ 32 (by decide))]
    rw [splitNByte_sep 32 1 _ _ (by
      simp only [List.mem_append, List.mem_cons, not_or]
      exact ⟨nd16 _ _ 32 (by decide), by decide, nd16 _ _ 32 (by decide)⟩)]
    rw [splitNByte_sep 32 0 _ _ (nd10 _ _ 32 (by decide))]
    simp [splitNByte]
  have p64 : (16 : Nat) ^ 16 = 2 ^ 64 := by decide
  have hU : U64MAX = 2 ^ 64 - 1 := by decide
  have hlo := parseUnsigned_fixed (b := 16) (maxv := U64MAX) (.inr rfl) 16 x.lo (by decide) (by omega) (by omega)
  have hhi := parseUnsigned_fixed (b := 16) (maxv := U64MAX) (.inr rfl) 16 x.hi (by decide) (by omega) (by omega)
  have hoff := parseUnsigned_fixed (b := 16) (maxv := U64MAX) (.inr rfl) 16 x.offset (by decide) (by omega) (by omega)
  have hino := parseUnsigned_fixed (b := 10) (maxv := U64MAX) (.inl rfl) 20 x.inode (by decide)
    (by have : (10 : Nat) ^ 20 = 100000000000000000000 := by decide
        omega) (by omega)
  have hmaj := parseI32Hex_fixed x.devMajor h5
  have hmin := parseI32Hex_fixed x.devMinor h6
  have haddr := splitPair_enc 45 (fixedDigits 16 16 x.lo) (fixedDigits 16 16 x.hi) (nd16 _ _ 45 (by decide)) (nd16 _ _ 45 (by decide))
  have hdev := splitPair_enc 58 (fixedDigits 16 8 x.devMajor) (fixedDigits 16 8 x.devMinor) (nd16 _ _ 58 (by decide))
    (nd16 _ _ 58 (by decide))
  unfold mapEntryOfLine
  simp only [hsplit, haddr, hlo, hhi, hoff, hdev, hmaj, hmin, hino]
  rw [res_bind_ok (mapPathOf_enc x.path hpath)]
  simp only [parsePerms_enc _ h3]
  rfl

theorem mapLineBody_head (x : MapEntry) : ∃ c, (mapLineBody x).head? = some c ∧ IsDigitByte c := by
  have hlen := fixedDigits_length 16 16 x.lo
  have hdig := fixedDigits_isDigit (b := 16) (by decide) 16 x.lo
  cases hd : fixedDigits 16 16 x.lo with
  | nil => rw [hd] at hlen; simp at hlen
  | cons c cs =>
    rw [hd] at hdig
    exact ⟨c, by simp [mapLineBody, hd], hdig c (by simp)⟩

theorem mapLineBody_valid (x : MapEntry) (h : MapEntryFits x) : utf8Valid (mapLineBody x) = true := by
  rw [mapLineBody_eq, utf8Valid_ascii_append _ _ (fun c hc => (mapLineHead_ascii x h.2.2.1 c hc).1)]
  exact h.2.2.2.2.2.2.2.2.1

theorem mapLineBody_no_nl (x : MapEntry) (h : MapEntryFits x) : (10 : UInt8) ∉ mapLineBody x := by
  rw [mapLineBody_eq]
  intro hm
  rcases List.mem_append.mp hm with hm | hm
  · exact (mapLineHead_ascii x h.2.2.1 10 hm).2 rfl
  · exact h.2.2.2.2.2.2.2.2.2 hm

theorem mapLineBody_last (x : MapEntry) (h : MapEntryFits x) : (mapLineBody x).getLast? ≠ some 13 := by
  rw [mapLineBody_eq]
  cases ht : encMapPath x.path with
  | nil =>
    simp only [List.append_nil, mapLineHead, List.getLast?_concat]
    decide
  | cons c cs =>
    rw [List.getLast?_append]
    intro h13
    cases hl : (c :: cs).getLast? with
    | none => simp at hl
    | some v =>
      rw [hl] at h13
      simp only [Option.some_or, Option.some.injEq] at h13
      subst h13
      have := pathText_last x.path h.2.2.2.2.2.2.2.1 13 (by rw [ht]; exact hl)
      revert this; decide

theorem mapsLoop_enc : ∀ (xs : List MapEntry) (cur : Bool) (acc : List MapEntry), (∀ x ∈ xs, MapEntryFits x) →
    (mapsLoop (xs.map mapLineBody) cur acc).res = .ok (acc.reverse ++ xs) := by
  intro xs
  induction xs with
  | nil => intro cur acc _; simp [mapsLoop]
  | cons x xs ih =>
    intro cur acc h
    have hx := h x (by simp)
    obtain ⟨c, hc1, hc2⟩ := mapLineBody_head x
    have hup : ((mapLineBody x).head?.map fun c => decide (65 ≤ c ∧ c ≤ 90)) ≠ some true := by
      rw [hc1]
      simp only [Option.map_some, ne_eq, Option.some.injEq, decide_eq_true_eq]
      unfold IsDigitByte at hc2
      simp only [UInt8.le_iff_toNat_le, UInt8.toNat_ofNat] at *
      omega
    simp only [List.map_cons, mapsLoop, mapLineBody_valid x hx, Bool.not_true, Bool.false_eq_true, if_false]
    rw [if_neg (by simpa using hup)]
    rw [res_bind_ok (mapEntryOfLine_enc x hx), ih true (x :: acc) (fun y hy => h y (by simp [hy]))]
    simp

/-- **`MinidumpLinuxMaps::read` on an encoded stream**: every entry, in order -/
theorem readLinuxMaps_enc {s : Bytes} {xs : List MapEntry} (hs : s.toList = encLinuxMaps xs) (h : ∀ x ∈ xs, MapEntryFits x) :
    (readLinuxMaps s).res = .ok xs := by
  unfold readLinuxMaps
  rw [hs, encLinuxMaps_eq, textLines_joinLines]
  · simpa using mapsLoop_enc xs false [] h
  · intro l hl
    obtain ⟨x, hx, rfl⟩ := List.mem_map.mp hl
    exact mapLineBody_no_nl x (h x hx)
  · intro l hl
    obtain ⟨x, hx, rfl⟩ := List.mem_map.mp hl
    exact mapLineBody_last x (h x hx)

end MdModel.Encode
