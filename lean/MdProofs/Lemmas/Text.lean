/-
  Helper lemmas for the text-report model (`MdModel.Text`). Property theorems are in
  `MdProofs/C13Text.lean`.
-/
import MdModel.Text
import MdProofs.Lemmas.Json
import MdProofs.C08
namespace MdModel.Text
open MdModel MdModel.Json

/-! ## outcomes -/

theorem obind_ok {α β : Type} {x : Outcome α} {f : α → Outcome β} {b : β} (h : obind x f = .ok b) :
    ∃ a, x = .ok a ∧ f a = .ok b := by
  cases x with
  | ok a => exact ⟨a, rfl, h⟩
  | panic s => cases h

theorem obind_ok_iff {α β : Type} {x : Outcome α} {f : α → Outcome β} {b : β} :
    obind x f = .ok b ↔ ∃ a, x = .ok a ∧ f a = .ok b :=
  ⟨obind_ok, fun ⟨a, hx, hf⟩ => by rw [hx]; exact hf⟩

theorem checkedSub_ok {site : String} {a b : Nat} (h : b ≤ a) : checkedSub site a b = .ok (a - b) := by
  unfold checkedSub
  rw [if_neg (by omega)]

/-! ## `zipD` -/

theorem zipD_length {α β : Type} (d : β) (as : List α) (bs : List β) : (zipD d as bs).length = as.length := by
  induction as generalizing bs with
  | nil => simp [zipD]
  | cons a as ih => cases bs <;> simp [zipD, ih]

theorem zipD_map_fst {α β : Type} (d : β) (as : List α) (bs : List β) : (zipD d as bs).map (·.1) = as := by
  induction as generalizing bs with
  | nil => simp [zipD]
  | cons a as ih => cases bs <;> simp [zipD, ih]

theorem zipD_getElem? {α β : Type} (d : β) (as : List α) (bs : List β) (i : Nat) :
    (zipD d as bs)[i]? = (as[i]?).map fun a => (a, bs[i]?.getD d) := by
  induction as generalizing bs i with
  | nil => simp [zipD]
  | cons a as ih =>
    cases bs with
    | nil => cases i <;> simp [zipD, ih]
    | cons b bs => cases i <;> simp [zipD, ih]

theorem mem_zipD_fst {α β : Type} {d : β} {as : List α} {bs : List β} {p : α × β}
    (h : p ∈ zipD d as bs) : p.1 ∈ as := by
  rw [← zipD_map_fst d as bs]
  exact List.mem_map_of_mem h

/-! ## rendering -/

theorem renderLines_append (a b : List TLine) : renderLines (a ++ b) = renderLines a ++ renderLines b := by
  simp [renderLines]

/-! ## totality of the call-stack printer -/

/-- what the three subtractions of a frame line need -/
def FrameOK (f : FrameM) (x : FrameX) : Prop :=
  (∀ nm base, f.module = some (nm, base) → base ≤ f.instruction) ∧
  (∀ fb, f.functionBase = some fb → fb ≤ f.instruction) ∧
  (∀ lb, x.lineBase = some lb → lb ≤ f.instruction)

theorem frameBody_total (f : FrameM) (x : FrameX) (h : FrameOK f x) : ∃ cs, frameBody f x = .ok cs := by
  obtain ⟨hm, hf, hl⟩ := h
  unfold frameBody
  split
  · rename_i name base hmod
    have hb := hm name base hmod
    split
    · rename_i fn fb _ hfb
      have hfb' := hf fb hfb
      split
      · rename_i file line lb _ _ hlb
        have := hl lb hlb
        rw [checkedSub_ok this]; exact ⟨_, rfl⟩
      · rw [checkedSub_ok hfb']; exact ⟨_, rfl⟩
    · rw [checkedSub_ok hb]; exact ⟨_, rfl⟩
  · exact ⟨_, rfl⟩

theorem framesLines_total (n : Nat) (ps : List (FrameM × FrameX)) (h : ∀ p ∈ ps, FrameOK p.1 p.2) :
    ∃ ls, framesLines n ps = .ok ls := by
  induction ps generalizing n with
  | nil => exact ⟨[], rfl⟩
  | cons p ps ih =>
    obtain ⟨f, x⟩ := p
    obtain ⟨body, hb⟩ := frameBody_total f x (h (f, x) List.mem_cons_self)
    obtain ⟨more, hm⟩ := ih (n + f.inlines.length + 1) (fun q hq => h q (List.mem_cons_of_mem _ hq))
    simp only [framesLines, hb, hm, obind]
    exact ⟨_, rfl⟩

/-- every frame of a thread (paired with its extras) satisfies `FrameOK` -/
def ThreadOK (t : ThreadM) (x : ThreadX) : Prop :=
  ∀ p ∈ zipD FrameX.dflt t.frames x.frames, FrameOK p.1 p.2

theorem stackLines_total (t : ThreadM) (x : ThreadX) (h : ThreadOK t x) : ∃ ls, stackLines t x = .ok ls := by
  obtain ⟨ls, hls⟩ := framesLines_total 0 _ h
  simp only [stackLines, hls, obind]
  exact ⟨_, rfl⟩

theorem otherThreadsLines_total (req : Option Nat) (i : Nat) (ps : List (ThreadM × ThreadX))
    (h : ∀ p ∈ ps, ThreadOK p.1 p.2) : ∃ ls, otherThreadsLines req i ps = .ok ls := by
  induction ps generalizing i with
  | nil => exact ⟨[], rfl⟩
  | cons p ps ih =>
    obtain ⟨t, x⟩ := p
    obtain ⟨more, hm⟩ := ih (i + 1) (fun q hq => h q (List.mem_cons_of_mem _ hq))
    simp only [otherThreadsLines]
    split
    · exact ⟨more, hm⟩
    · obtain ⟨ls, hls⟩ := stackLines_total t x (h (t, x) List.mem_cons_self)
      simp only [hls, hm, obind]
      exact ⟨_, rfl⟩

/-! ## the module lists never panic (C08: only modules with a valid range are iterated) -/

def modEntries (ms : List ModuleM) : List (Option RangeMap.Rng × RangeMap.Val) :=
  ms.zipIdx.map fun (m, i) => (RangeMap.mkRange m.base m.size, i)

theorem modulesByAddr_eq (ms : List ModuleM) :
    modulesByAddr ms = (RangeMap.safeVec (modEntries ms)).map (·.2) := rfl

theorem modEntries_wf (ms : List ModuleM) : RangeMap.InputWF (modEntries ms) := by
  intro e he r hr
  simp only [modEntries, List.mem_map] at he
  obtain ⟨⟨m, i⟩, _, rfl⟩ := he
  have := RangeMap.mkRange_wf hr
  exact ⟨this.1, this.2.1⟩

theorem mem_modEntries {ms : List ModuleM} {o : Option RangeMap.Rng} {i : Nat}
    (h : (o, i) ∈ modEntries ms) : ∃ m, ms[i]? = some m ∧ o = RangeMap.mkRange m.base m.size := by
  simp only [modEntries, List.mem_map] at h
  obtain ⟨⟨m, j⟩, hmem, heq⟩ := h
  simp only [Prod.mk.injEq] at heq
  obtain ⟨rfl, rfl⟩ := heq
  exact ⟨m, List.mem_zipIdx_iff_getElem?.mp hmem, rfl⟩

/-- every position `by_addr` yields is a module of the list, and that module has a range -/
theorem mem_modulesByAddr {ms : List ModuleM} {i : Nat} (h : i ∈ modulesByAddr ms) :
    ∃ m r, ms[i]? = some m ∧ RangeMap.mkRange m.base m.size = some r := by
  rw [modulesByAddr_eq, List.mem_map] at h
  obtain ⟨e, he, rfl⟩ := h
  have hsep := RangeMap.safeVec_sep (modEntries ms) (modEntries_wf ms)
  have hwf := hsep.wf e he
  have hcov := RangeMap.keep_covered (RangeMap.validOnly (RangeMap.sortOpt (modEntries ms))) e he
  obtain ⟨s, hs, hv, _, _⟩ := hcov e.1.lo (Nat.le_refl _) hwf.1
  simp only [RangeMap.validOnly, List.mem_filterMap, Option.map_eq_some_iff] at hs
  obtain ⟨x, hx, r, hr, rfl⟩ := hs
  have hx' : x ∈ modEntries ms := List.mem_mergeSort.mp hx
  obtain ⟨o, j⟩ := x
  obtain ⟨m, hm, ho⟩ := mem_modEntries hx'
  simp only at hr hv
  subst hr
  exact ⟨m, r, hv ▸ hm, ho.symm⟩

theorem rangeText_total (site : String) (base size : Nat) (r : RangeMap.Rng)
    (h : RangeMap.mkRange base size = some r) : ∃ cs, rangeText site base size = .ok cs := by
  unfold RangeMap.mkRange at h
  split at h; · cases h
  split at h; · cases h
  rename_i h0 h1
  unfold rangeText checkedAdd
  rw [if_neg h1]
  simp only [obind]
  rw [checkedSub_ok (by omega)]
  exact ⟨_, rfl⟩

theorem moduleLines_total (s : StateModel) (is : List Nat) (h : ∀ i ∈ is, i ∈ modulesByAddr s.modules) :
    ∃ ls, moduleLines s is = .ok ls := by
  induction is with
  | nil => exact ⟨[], rfl⟩
  | cons i rest ih =>
    obtain ⟨m, r, hm, hr⟩ := mem_modulesByAddr (h i List.mem_cons_self)
    obtain ⟨cs, hcs⟩ := rangeText_total "Loaded modules" m.base m.size r hr
    obtain ⟨ls, hls⟩ := ih (fun j hj => h j (List.mem_cons_of_mem _ hj))
    simp only [moduleLines, hm, moduleLine, hcs, hls, obind]
    exact ⟨_, rfl⟩

def unlEntries (ms : List UnloadedM) : List (Option RangeMap.Rng × RangeMap.Val) :=
  (ms.map fun m => RangeMap.mkRange m.base m.size).zipIdx.map fun (r, i) => (r, i)

theorem unloadedByAddr_eq (ms : List UnloadedM) :
    unloadedByAddr ms = (RangeMap.sortEntries (RangeMap.validOnly (unlEntries ms))).map (·.2) := rfl

theorem mem_unloadedByAddr {ms : List UnloadedM} {i : Nat} (h : i ∈ unloadedByAddr ms) :
    ∃ m r, ms[i]? = some m ∧ RangeMap.mkRange m.base m.size = some r := by
  rw [unloadedByAddr_eq, List.mem_map] at h
  obtain ⟨e, he, rfl⟩ := h
  have he' : e ∈ RangeMap.validOnly (unlEntries ms) := List.mem_mergeSort.mp he
  simp only [RangeMap.validOnly, List.mem_filterMap, Option.map_eq_some_iff] at he'
  obtain ⟨x, hx, r, hr, rfl⟩ := he'
  simp only [unlEntries, List.mem_map] at hx
  obtain ⟨⟨o, j⟩, hmem, rfl⟩ := hx
  have hj := List.mem_zipIdx_iff_getElem?.mp hmem
  simp only [List.getElem?_map, Option.map_eq_some_iff] at hj
  obtain ⟨m, hm, ho⟩ := hj
  simp only at hr
  exact ⟨m, r, hm, by rw [ho, hr]⟩

theorem unloadedLines_total (s : StateModel) (is : List Nat) (h : ∀ i ∈ is, i ∈ unloadedByAddr s.unloaded) :
    ∃ ls, unloadedLines s is = .ok ls := by
  induction is with
  | nil => exact ⟨[], rfl⟩
  | cons i rest ih =>
    obtain ⟨m, r, hm, hr⟩ := mem_unloadedByAddr (h i List.mem_cons_self)
    obtain ⟨cs, hcs⟩ := rangeText_total "Unloaded modules" m.base m.size r hr
    obtain ⟨ls, hls⟩ := ih (fun j hj => h j (List.mem_cons_of_mem _ hj))
    simp only [unloadedLines, hm, unloadedLine, hcs, hls, obind]
    exact ⟨_, rfl⟩

/-! ## hash containers: only membership / lookup is used -/

theorem lookupS_perm {α : Type} {l l' : List (String × α)} (hp : l.Perm l')
    (nd : (l.map (·.1)).Nodup) (k : String) : lookupS k l = lookupS k l' := by
  induction hp with
  | nil => rfl
  | cons x _ ih =>
    obtain ⟨k', v⟩ := x
    simp only [List.map_cons, List.nodup_cons] at nd
    simp only [lookupS, ih nd.2]
  | swap x y l =>
    obtain ⟨kx, vx⟩ := x
    obtain ⟨ky, vy⟩ := y
    simp only [List.map_cons, List.nodup_cons, List.mem_cons, not_or] at nd
    simp only [lookupS]
    by_cases h1 : k = ky <;> by_cases h2 : k = kx
    · exact absurd (h1.symm.trans h2) nd.1.1
    · simp [h1]
      intro h; exact absurd h nd.1.1
    · simp [h2]
      intro h; exact absurd h.symm nd.1.1
    · simp [h1, h2]
  | trans p₁ _ ih₁ ih₂ =>
    rw [ih₁ nd]
    exact ih₂ ((p₁.map (·.1)).nodup_iff.mp nd)

/-- two lists related element by element -/
def AllRel {α : Type} (R : α → α → Prop) : List α → List α → Prop
  | [], [] => True
  | a :: as, b :: bs => R a b ∧ AllRel R as bs
  | _, _ => False

theorem AllRel.refl {α : Type} {R : α → α → Prop} (hr : ∀ a, R a a) : ∀ l, AllRel R l l
  | [] => trivial
  | a :: as => ⟨hr a, AllRel.refl hr as⟩

theorem AllRel.length {α : Type} {R : α → α → Prop} : ∀ {l l' : List α}, AllRel R l l' → l.length = l'.length
  | [], [], _ => rfl
  | _ :: _, _ :: _, h => by simp [AllRel.length h.2]
  | [], _ :: _, h => h.elim
  | _ :: _, [], h => h.elim

theorem AllRel.getElem? {α : Type} {R : α → α → Prop} :
    ∀ {l l' : List α}, AllRel R l l' → ∀ (i : Nat) (a : α), l[i]? = some a → ∃ b, l'[i]? = some b ∧ R a b
  | [], [], _, i, a, h => by simp at h
  | x :: xs, y :: ys, h, 0, a, hi => by simp at hi; subst hi; exact ⟨y, rfl, h.1⟩
  | x :: xs, y :: ys, h, i + 1, a, hi => by
    simp at hi
    obtain ⟨b, hb, hr⟩ := AllRel.getElem? h.2 i a hi
    exact ⟨b, by simpa using hb, hr⟩
  | [], _ :: _, h, _, _, _ => h.elim
  | _ :: _, [], h, _, _, _ => h.elim

/-- the validity set: the same set, in any iteration order -/
def ValidEquiv : Option (List String) → Option (List String) → Prop
  | none, none => True
  | some a, some b => a.Perm b
  | _, _ => False

structure CtxEquiv (c c' : RegCtx) : Prop where
  regSize : c.regSize = c'.regSize
  gpr : c.gpr = c'.gpr
  valid : ValidEquiv c.valid c'.valid

theorem regValid_equiv {c c' : RegCtx} (h : CtxEquiv c c') (name : String) : regValid c name = regValid c' name := by
  have hv := h.valid
  unfold regValid
  cases h1 : c.valid with
  | none =>
    cases h2 : c'.valid with
    | none => rfl
    | some b => rw [h1, h2] at hv; exact hv.elim
  | some a =>
    cases h2 : c'.valid with
    | none => rw [h1, h2] at hv; exact hv.elim
    | some b =>
      rw [h1, h2] at hv
      simp only [ValidEquiv] at hv
      show a.contains name = b.contains name
      rw [Bool.eq_iff_iff, List.contains_iff_mem, List.contains_iff_mem]
      exact hv.mem_iff

theorem regLoop_equiv {c c' : RegCtx} (h : CtxEquiv c c') (rs : List (String × Nat)) (out : List (List Char))
    (cur : List Char) : regLoop c rs out cur = regLoop c' rs out cur := by
  induction rs generalizing out cur with
  | nil => rfl
  | cons r rest ih =>
    have hv := regValid_equiv h r.1
    have hc : regCell c r = regCell c' r := by simp only [regCell, h.regSize]
    show (if regValid c r.1 then
            (if cur.length + (regCell c r).length > 80 then regLoop c rest ((' ' :: cur) :: out) (regCell c r)
             else regLoop c rest out (cur ++ regCell c r))
          else regLoop c rest out cur) =
         (if regValid c' r.1 then
            (if cur.length + (regCell c' r).length > 80 then regLoop c' rest ((' ' :: cur) :: out) (regCell c' r)
             else regLoop c' rest out (cur ++ regCell c' r))
          else regLoop c' rest out cur)
    rw [hv, hc, ih, ih, ih]

theorem regLines_equiv {c c' : RegCtx} (h : CtxEquiv c c') : regLines c = regLines c' := by
  unfold regLines
  rw [regLoop_equiv h, h.gpr]

/-- the same frame up to the iteration order of its validity set -/
structure FrameEquiv (f f' : FrameM) : Prop where
  rest : f' = { f with ctx := f'.ctx }
  ctx : CtxEquiv f.ctx f'.ctx

theorem FrameEquiv.refl (f : FrameM) : FrameEquiv f f :=
  ⟨rfl, rfl, rfl, by cases f.ctx.valid <;> simp [ValidEquiv]⟩

theorem frameBody_equiv {f f' : FrameM} (h : FrameEquiv f f') (x : FrameX) : frameBody f x = frameBody f' x := by
  rw [h.rest]; rfl

theorem inlineLines_equiv {f f' : FrameM} (h : FrameEquiv f f') (n : Nat) (is : List InlineM) :
    inlineLines f n is = inlineLines f' n is := by
  induction is generalizing n with
  | nil => rfl
  | cons i rest ih =>
    simp only [inlineLines, ih]
    rw [h.rest]; rfl

theorem zipD_allRel {α β : Type} {R : α → α → Prop} (d : β) :
    ∀ {as as' : List α} (bs : List β), AllRel R as as' →
      AllRel (fun p p' => R p.1 p'.1 ∧ p.2 = p'.2) (zipD d as bs) (zipD d as' bs)
  | [], [], _, _ => trivial
  | _ :: _, _ :: _, [], h => ⟨⟨h.1, rfl⟩, zipD_allRel d [] h.2⟩
  | _ :: _, _ :: _, _ :: bs, h => ⟨⟨h.1, rfl⟩, zipD_allRel d bs h.2⟩
  | [], _ :: _, _, h => h.elim
  | _ :: _, [], _, h => h.elim

theorem framesLines_equiv :
    ∀ {ps ps' : List (FrameM × FrameX)} (n : Nat),
      AllRel (fun p p' => FrameEquiv p.1 p'.1 ∧ p.2 = p'.2) ps ps' → framesLines n ps = framesLines n ps'
  | [], [], _, _ => rfl
  | (f, x) :: ps, (f', x') :: ps', n, h => by
    obtain ⟨⟨hf, hx⟩, hrest⟩ := h
    simp only at hf hx
    subst hx
    have hin : f'.inlines = f.inlines := by rw [hf.rest]
    have htr : f'.trust = f.trust := by rw [hf.rest]
    simp only [framesLines, frameBody_equiv hf, hin, htr, ← inlineLines_equiv hf, ← regLines_equiv hf.ctx,
      framesLines_equiv (n + f.inlines.length + 1) hrest]
  | [], _ :: _, _, h => h.elim
  | _ :: _, [], _, h => h.elim

/-- the same thread up to the iteration order of the validity sets of its frames -/
structure ThreadEquiv (t t' : ThreadM) : Prop where
  rest : t' = { t with frames := t'.frames }
  frames : AllRel FrameEquiv t.frames t'.frames

theorem ThreadEquiv.refl (t : ThreadM) : ThreadEquiv t t := ⟨rfl, AllRel.refl FrameEquiv.refl _⟩

theorem stackLines_equiv {t t' : ThreadM} (h : ThreadEquiv t t') (x : ThreadX) : stackLines t x = stackLines t' x := by
  have he : t'.frames.isEmpty = t.frames.isEmpty := by
    have := h.frames.length
    cases h1 : t.frames <;> cases h2 : t'.frames <;> simp [h1, h2] at this ⊢
  simp only [stackLines, framesLines_equiv 0 (zipD_allRel FrameX.dflt x.frames h.frames), he]

theorem headerText_equiv {t t' : ThreadM} (h : ThreadEquiv t t') (i : Nat) (m : Option Bool) :
    headerText i t m = headerText i t' m := by
  rw [h.rest]; rfl

theorem otherThreadsLines_equiv (req : Option Nat) :
    ∀ {ps ps' : List (ThreadM × ThreadX)} (i : Nat),
      AllRel (fun p p' => ThreadEquiv p.1 p'.1 ∧ p.2 = p'.2) ps ps' →
      otherThreadsLines req i ps = otherThreadsLines req i ps'
  | [], [], _, _ => rfl
  | (t, x) :: ps, (t', x') :: ps', i, h => by
    obtain ⟨⟨ht, hx⟩, hrest⟩ := h
    simp only at ht hx
    subst hx
    simp only [otherThreadsLines, stackLines_equiv ht, headerText_equiv ht, otherThreadsLines_equiv req (i + 1) hrest]
  | [], _ :: _, _, h => h.elim
  | _ :: _, [], _, h => h.elim

theorem certText_congr {c c' : List (String × String)} (h : ∀ k, lookupS k c = lookupS k c') (name : String) :
    certText c name = certText c' name := by
  simp only [certText, h]

theorem moduleLines_congr {s s' : StateModel} (hm : s.modules = s'.modules)
    (hc : ∀ k, lookupS k s.certInfo = lookupS k s'.certInfo) (is : List Nat) :
    moduleLines s is = moduleLines s' is := by
  induction is with
  | nil => rfl
  | cons i rest ih => simp only [moduleLines, moduleLine, hm, certText_congr hc, ih]

theorem unloadedLines_congr {s s' : StateModel} (hu : s.unloaded = s'.unloaded)
    (hc : ∀ k, lookupS k s.certInfo = lookupS k s'.certInfo) (is : List Nat) :
    unloadedLines s is = unloadedLines s' is := by
  induction is with
  | nil => rfl
  | cons i rest ih => simp only [unloadedLines, unloadedLine, hu, certText_congr hc, ih]

theorem requestingLines_equiv {s s' : StateModel} (x : TextExtra)
    (hreq : s.requestingThread = s'.requestingThread) (hexc : s.exc = s'.exc)
    (ht : AllRel ThreadEquiv s.threads s'.threads) : requestingLines s x = requestingLines s' x := by
  unfold requestingLines
  rw [← hreq, ← hexc]
  cases s.requestingThread with
  | none => rfl
  | some i =>
    simp only
    cases h1 : s.threads[i]? with
    | none =>
      have : s'.threads[i]? = none := by
        rw [List.getElem?_eq_none_iff] at h1 ⊢
        rw [← ht.length]; exact h1
      rw [this]
    | some t =>
      obtain ⟨t', h2, hr⟩ := ht.getElem? i t h1
      rw [h2]
      simp only [stackLines_equiv hr, headerText_equiv hr]

/-! ## the bit-flip sort -/

/-- what a bit-flip line shows of an entry -/
def flipShown (f : BitFlip × FlipX) : Option String × Nat × String := (f.1.sourceRegister, f.1.address, f.2.conf3)

theorem flipLines_shown (pw : PW) :
    ∀ (n : Nat) (l l' : List (BitFlip × FlipX)), l.map flipShown = l'.map flipShown →
      flipLines pw n l = flipLines pw n l'
  | _, [], [], _ => rfl
  | n, (b, x) :: l, (b', x') :: l', h => by
    simp only [List.map_cons, List.cons.injEq, flipShown, Prod.mk.injEq] at h
    obtain ⟨⟨h1, h2, h3⟩, hrest⟩ := h
    simp only [flipLines, h1, h2, h3, flipLines_shown pw (n + 1) l l' hrest]
  | _, [], _ :: _, h => by simp at h
  | _, _ :: _, [], h => by simp at h

theorem map_eq_of_key {α κ σ : Type} (key : α → κ) (shown : α → σ) (P : α → Prop)
    (h : ∀ a b, P a → P b → key a = key b → shown a = shown b) :
    ∀ l1 l2 : List α, (∀ a ∈ l1, P a) → (∀ a ∈ l2, P a) → l1.map key = l2.map key →
      l1.map shown = l2.map shown
  | [], [], _, _, _ => rfl
  | a :: l1, b :: l2, h1, h2, hk => by
    simp only [List.map_cons, List.cons.injEq] at hk ⊢
    exact ⟨h a b (h1 a List.mem_cons_self) (h2 b List.mem_cons_self) hk.1,
      map_eq_of_key key shown P h l1 l2 (fun x hx => h1 x (List.mem_cons_of_mem _ hx))
        (fun x hx => h2 x (List.mem_cons_of_mem _ hx)) hk.2⟩
  | [], _ :: _, _, _, hk => by simp at hk
  | _ :: _, [], _, _, hk => by simp at hk

theorem eq_of_nodup_map {α κ : Type} (key : α → κ) :
    ∀ {l : List α}, (l.map key).Nodup → ∀ {a b : α}, a ∈ l → b ∈ l → key a = key b → a = b
  | [], _, _, _, ha, _, _ => by simp at ha
  | x :: l, nd, a, b, ha, hb, hk => by
    simp only [List.map_cons, List.nodup_cons, List.mem_map, not_exists, not_and] at nd
    rcases List.mem_cons.mp ha with rfl | ha' <;> rcases List.mem_cons.mp hb with rfl | hb'
    · rfl
    · exact absurd hk.symm (nd.1 b hb')
    · exact absurd hk (nd.1 a ha')
    · exact eq_of_nodup_map key nd.2 ha' hb' hk

theorem validOrder_keys {fs : List (BitFlip × FlipX)} {o : List Nat} (h : validOrder fs o = true) :
    (o.filterMap (fs[·]?)).map flipKey = (sortFlips fs).map flipKey := by
  simp only [validOrder, Bool.and_eq_true, beq_iff_eq] at h
  exact h.2

theorem mem_filterMap_getElem? {α : Type} {fs : List α} {o : List Nat} {a : α}
    (h : a ∈ o.filterMap (fs[·]?)) : a ∈ fs := by
  simp only [List.mem_filterMap] at h
  obtain ⟨i, _, hi⟩ := h
  exact List.mem_of_getElem? hi

/-! ## kinds of lines -/

def headerOf (l : TLine) : Option (Nat × Bool) :=
  match l.kind with
  | .header i m => some (i, m)
  | _ => none
def frameOf (l : TLine) : Option Nat :=
  match l.kind with
  | .frame i => some i
  | _ => none
def loadedOf (l : TLine) : Option Nat :=
  match l.kind with
  | .loaded i => some i
  | _ => none
def unloadedOf (l : TLine) : Option Nat :=
  match l.kind with
  | .unloaded i => some i
  | _ => none

/-- every line of the list is a plain line -/
def AllPlain (ls : List TLine) : Prop := ∀ l ∈ ls, l.kind = .plain

theorem AllPlain.nil : AllPlain [] := fun _ h => by simp at h
theorem AllPlain.append {a b : List TLine} (ha : AllPlain a) (hb : AllPlain b) : AllPlain (a ++ b) := by
  intro l hl
  rcases List.mem_append.mp hl with h | h
  · exact ha l h
  · exact hb l h
theorem AllPlain.cons {l : TLine} {ls : List TLine} (h : l.kind = .plain) (hs : AllPlain ls) : AllPlain (l :: ls) := by
  intro x hx
  rcases List.mem_cons.mp hx with rfl | h'
  · exact h
  · exact hs x h'
theorem AllPlain.map_plc (cs : List (List Char)) : AllPlain (cs.map plc) := by
  intro l hl
  simp only [List.mem_map] at hl
  obtain ⟨c, _, rfl⟩ := hl
  rfl

theorem AllPlain.filterMap_eq_nil {β : Type} {ls : List TLine} (h : AllPlain ls) (f : TLine → Option β)
    (hf : ∀ l, l.kind = .plain → f l = none) : ls.filterMap f = [] := by
  rw [List.filterMap_eq_nil_iff]
  exact fun l hl => hf l (h l hl)

theorem headerOf_plain (l : TLine) (h : l.kind = .plain) : headerOf l = none := by simp [headerOf, h]
theorem frameOf_plain (l : TLine) (h : l.kind = .plain) : frameOf l = none := by simp [frameOf, h]
theorem loadedOf_plain (l : TLine) (h : l.kind = .plain) : loadedOf l = none := by simp [loadedOf, h]
theorem unloadedOf_plain (l : TLine) (h : l.kind = .plain) : unloadedOf l = none := by simp [unloadedOf, h]

theorem optLine_plain (label : String) (o : Option String) : AllPlain (optLine label o) := by
  cases o <;> simp [optLine, AllPlain, plc]
theorem optLine0x_plain (label : String) (o : Option Nat) : AllPlain (optLine0x label o) := by
  cases o <;> simp [optLine0x, AllPlain, plc]

theorem sysLines_plain (s : StateModel) : AllPlain (sysLines s) := by
  unfold sysLines
  cases s.sys.osVer <;> cases s.sys.cpuInfo <;> cases s.lsb <;> simp [AllPlain, plc]

theorem memAccessLines_plain (pw : PW) : ∀ (n : Nat) (l : List MemAccess), AllPlain (memAccessLines pw n l)
  | _, [] => AllPlain.nil
  | n, a :: rest => by
    have ih := memAccessLines_plain pw (n + 1) rest
    unfold memAccessLines
    refine AllPlain.append (AllPlain.append (AllPlain.append (AllPlain.append ?_ ?_) ?_) ?_) ih
    · simp [AllPlain, plc]
    · cases a.size <;> simp [AllPlain, plc, pl]
    · split <;> simp [AllPlain, guardLine, pl]
    · split <;> simp [AllPlain, plc]

theorem flipLines_plain (pw : PW) : ∀ (n : Nat) (l : List (BitFlip × FlipX)), AllPlain (flipLines pw n l)
  | _, [] => AllPlain.nil
  | n, (b, x) :: rest => by
    unfold flipLines
    exact AllPlain.cons rfl (flipLines_plain pw (n + 1) rest)

theorem crashLines_plain (pw : PW) (e : ExcInfo) (x : TextExtra) : AllPlain (crashLines pw e x) := by
  unfold crashLines
  refine AllPlain.append (AllPlain.append (AllPlain.append (AllPlain.append (AllPlain.append (AllPlain.append ?_ ?_) ?_) ?_) ?_) ?_) ?_
  · simp [AllPlain, plc]
  · split <;> simp [AllPlain, plc]
  · split <;> simp [AllPlain, plc]
  · split
    · simp [AllPlain, pl]
    · exact AllPlain.cons rfl (memAccessLines_plain pw 0 _)
    · exact AllPlain.nil
  · split
    · refine AllPlain.append (by simp [AllPlain, plc, pl]) ?_
      split <;> simp [AllPlain, guardLine, pl]
    · simp [AllPlain, pl]
    · exact AllPlain.nil
  · split
    · exact AllPlain.nil
    · exact AllPlain.cons rfl (flipLines_plain pw 0 _)
  · split
    · exact AllPlain.nil
    · refine AllPlain.cons rfl ?_
      intro l hl
      simp only [List.mem_map] at hl
      obtain ⟨i, _, rfl⟩ := hl
      rfl

theorem macRecordLines_plain : ∀ (n : Nat) (l : List MacRecord), AllPlain (macRecordLines n l)
  | _, [] => AllPlain.nil
  | n, r :: rest => by
    unfold macRecordLines
    refine AllPlain.append (AllPlain.append (AllPlain.append (AllPlain.append (AllPlain.append (AllPlain.append
      (AllPlain.append (AllPlain.append (AllPlain.append ?_ ?_) ?_) ?_) ?_) ?_) ?_) ?_) ?_) (macRecordLines_plain (n + 1) rest)
    · simp [AllPlain, plc]
    all_goals first | exact optLine_plain _ _ | exact optLine0x_plain _ _

theorem miscLines_plain (s : StateModel) (x : TextExtra) : AllPlain (miscLines s x) := by
  unfold miscLines
  refine AllPlain.append (AllPlain.append (AllPlain.append (AllPlain.append (AllPlain.append (optLine_plain _ _) ?_) ?_) ?_) ?_) ?_
  · split
    · exact AllPlain.cons rfl (AllPlain.append (macRecordLines_plain 0 _) (by simp [AllPlain, plc]))
    · exact AllPlain.nil
  · split <;> simp [AllPlain, plc]
  · split <;> simp [AllPlain, plc, pl]
  · simp [AllPlain, plc]
  · split <;> simp [AllPlain, plc]

theorem argLines_plain (pb : Nat) : ∀ (n : Nat) (l : List (String × Option Nat)), AllPlain (argLines pb n l)
  | _, [] => AllPlain.nil
  | n, (nm, v) :: rest => by
    unfold argLines
    exact AllPlain.cons rfl (argLines_plain pb (n + 1) rest)

theorem argsLines_plain (x : FrameX) : AllPlain (argsLines x) := by
  unfold argsLines
  split
  · exact AllPlain.nil
  · exact AllPlain.cons rfl (AllPlain.append (argLines_plain _ 0 _) (by simp [AllPlain, plc]))

theorem regLines_plain (c : RegCtx) : AllPlain (regLines c) := AllPlain.map_plc _

theorem streamLines_plain (x : TextExtra) : AllPlain (streamLines x) := by
  unfold streamLines
  refine AllPlain.append ?_ ?_ <;> split <;> first
    | exact AllPlain.nil
    | (refine AllPlain.cons rfl (AllPlain.cons rfl ?_)
       intro l hl
       simp only [List.mem_map] at hl
       obtain ⟨i, _, rfl⟩ := hl
       rfl)

theorem softLines_plain (s : StateModel) : AllPlain (softLines s) := by
  unfold softLines
  split <;> simp [AllPlain, plc, pl]

/-- the brief report: plain summary lines, then the requesting thread's block -/
theorem briefLines_shape (pw : PW) (s : StateModel) (x : TextExtra) (hd : List TLine)
    (h : briefLines pw s x = .ok hd) :
    ∃ pre req, hd = pre ++ req ∧ AllPlain pre ∧ requestingLines s x = .ok req := by
  simp only [briefLines] at h
  obtain ⟨req, hreq, h⟩ := obind_ok h
  cases h
  refine ⟨_, req, rfl, ?_, hreq⟩
  refine AllPlain.append (AllPlain.append (sysLines_plain s) ?_) (miscLines_plain s x)
  split
  · exact crashLines_plain _ _ _
  · simp [AllPlain, pl]

/-! ## the numbered lines of a call stack -/

/-- a call-stack block consists of plain lines and numbered frame lines -/
def StackKinds (ls : List TLine) : Prop := ∀ l ∈ ls, l.kind = .plain ∨ ∃ i, l.kind = .frame i

theorem StackKinds.of_plain {ls : List TLine} (h : AllPlain ls) : StackKinds ls := fun l hl => Or.inl (h l hl)
theorem StackKinds.append {a b : List TLine} (ha : StackKinds a) (hb : StackKinds b) : StackKinds (a ++ b) := by
  intro l hl
  rcases List.mem_append.mp hl with h | h
  · exact ha l h
  · exact hb l h
theorem StackKinds.filterMap_eq_nil {β : Type} {ls : List TLine} (h : StackKinds ls) (f : TLine → Option β)
    (hp : ∀ l, l.kind = .plain → f l = none) (hf : ∀ l i, l.kind = .frame i → f l = none) :
    ls.filterMap f = [] := by
  rw [List.filterMap_eq_nil_iff]
  intro l hl
  rcases h l hl with h1 | ⟨i, h1⟩
  · exact hp l h1
  · exact hf l i h1

theorem headerOf_frame (l : TLine) (i : Nat) (h : l.kind = .frame i) : headerOf l = none := by simp [headerOf, h]
theorem loadedOf_frame (l : TLine) (i : Nat) (h : l.kind = .frame i) : loadedOf l = none := by simp [loadedOf, h]
theorem unloadedOf_frame (l : TLine) (i : Nat) (h : l.kind = .frame i) : unloadedOf l = none := by simp [unloadedOf, h]

theorem plain_frames {ls : List TLine} (h : AllPlain ls) : ls.filterMap frameOf = [] :=
  h.filterMap_eq_nil frameOf frameOf_plain

theorem inlineLines_frames (f : FrameM) : ∀ (n : Nat) (is : List InlineM),
    (inlineLines f n is).filterMap frameOf = List.range' n is.length
  | _, [] => rfl
  | n, i :: rest => by
    simp only [inlineLines, List.length_cons, List.range'_succ]
    rw [List.filterMap_cons, List.filterMap_cons]
    simp only [frameOf, inlineLine, pl]
    rw [inlineLines_frames f (n + 1) rest]

theorem inlineLines_kinds (f : FrameM) : ∀ (n : Nat) (is : List InlineM), StackKinds (inlineLines f n is)
  | _, [] => fun _ h => by simp [inlineLines] at h
  | n, i :: rest => by
    intro l hl
    simp only [inlineLines, List.mem_cons] at hl
    rcases hl with rfl | rfl | h
    · exact Or.inr ⟨n, rfl⟩
    · exact Or.inl rfl
    · exact inlineLines_kinds f (n + 1) rest l h

/-- numbered lines a list of frames produces: one per frame and one per inline frame -/
def frameLineCount (fs : List FrameM) : Nat := (fs.map fun f => f.inlines.length + 1).sum

theorem framesLines_frames : ∀ (n : Nat) (ps : List (FrameM × FrameX)) (ls : List TLine),
    framesLines n ps = .ok ls →
      ls.filterMap frameOf = List.range' n (frameLineCount (ps.map (·.1))) ∧ StackKinds ls
  | n, [], ls, h => by
    simp only [framesLines] at h
    cases h
    exact ⟨rfl, fun _ h => by simp at h⟩
  | n, (f, x) :: rest, ls, h => by
    simp only [framesLines] at h
    obtain ⟨body, _, h⟩ := obind_ok h
    obtain ⟨more, hmore, h⟩ := obind_ok h
    cases h
    obtain ⟨ih1, ih2⟩ := framesLines_frames (n + f.inlines.length + 1) rest more hmore
    constructor
    · simp only [List.filterMap_append, inlineLines_frames, plain_frames (regLines_plain _),
        plain_frames (argsLines_plain _), ih1, List.filterMap_cons, List.filterMap_nil, frameOf, plc,
        List.map_cons, frameLineCount, List.sum_cons, List.append_nil]
      have e1 : List.range' n f.inlines.length ++ [n + f.inlines.length] = List.range' n (f.inlines.length + 1) := by
        have := List.range'_append (s := n) (m := f.inlines.length) (n := 1) (step := 1)
        simpa using this
      rw [e1]
      simp [Nat.add_assoc]
    · refine StackKinds.append (StackKinds.append (StackKinds.append (StackKinds.append (StackKinds.append
        (inlineLines_kinds f n f.inlines) ?_) (StackKinds.of_plain (regLines_plain _))) ?_)
        (StackKinds.of_plain (argsLines_plain _))) ih2
      · intro l hl
        simp only [List.mem_singleton] at hl
        subst hl
        exact Or.inr ⟨_, rfl⟩
      · exact StackKinds.of_plain (by simp [AllPlain, plc])

theorem stackLines_frames (t : ThreadM) (x : ThreadX) (ls : List TLine) (h : stackLines t x = .ok ls) :
    ls.filterMap frameOf = List.range (frameLineCount t.frames) ∧ StackKinds ls := by
  simp only [stackLines] at h
  obtain ⟨fl, hfl, h⟩ := obind_ok h
  cases h
  obtain ⟨h1, h2⟩ := framesLines_frames 0 _ fl hfl
  rw [zipD_map_fst] at h1
  have hp : AllPlain (if t.frames.isEmpty then [pl "<no frames>"] else []) := by
    split <;> simp [AllPlain, pl]
  exact ⟨by rw [List.filterMap_append, plain_frames hp, h1, List.nil_append, List.range_eq_range'],
    StackKinds.append (StackKinds.of_plain hp) h2⟩

/-! ## thread headers and module lines -/

/-- is this thread printed by the loop over all threads? (not the requesting one, not the dump writer) -/
def otherSel (req : Option Nat) (p : (ThreadM × ThreadX) × Nat) : Bool :=
  !(decide (req = some p.2) || p.1.2.skipped)

theorem stackLines_noheader {t : ThreadM} {x : ThreadX} {ls : List TLine} (h : stackLines t x = .ok ls) :
    ls.filterMap headerOf = [] ∧ ls.filterMap loadedOf = [] ∧ ls.filterMap unloadedOf = [] := by
  have hk := (stackLines_frames t x ls h).2
  exact ⟨hk.filterMap_eq_nil _ headerOf_plain headerOf_frame, hk.filterMap_eq_nil _ loadedOf_plain loadedOf_frame,
    hk.filterMap_eq_nil _ unloadedOf_plain unloadedOf_frame⟩

theorem otherThreadsLines_headers (req : Option Nat) :
    ∀ (i : Nat) (ps : List (ThreadM × ThreadX)) (ls : List TLine), otherThreadsLines req i ps = .ok ls →
      ls.filterMap headerOf = ((ps.zipIdx i).filter (otherSel req)).map (fun p => (p.2, false)) ∧
      ls.filterMap loadedOf = [] ∧ ls.filterMap unloadedOf = []
  | _, [], ls, h => by
    simp only [otherThreadsLines] at h
    cases h
    exact ⟨rfl, rfl, rfl⟩
  | i, (t, x) :: rest, ls, h => by
    simp only [otherThreadsLines] at h
    split at h
    · rename_i hc
      have ih := otherThreadsLines_headers req (i + 1) rest ls h
      have hs : otherSel req ((t, x), i) = false := by
        simp only [otherSel, Bool.not_eq_false', Bool.or_eq_true, decide_eq_true_eq]
        exact hc
      simp only [List.zipIdx_cons, List.filter_cons, hs]
      exact ih
    · rename_i hc
      obtain ⟨sl, hsl, h⟩ := obind_ok h
      obtain ⟨more, hmore, h⟩ := obind_ok h
      cases h
      obtain ⟨ih1, ih2, ih3⟩ := otherThreadsLines_headers req (i + 1) rest more hmore
      obtain ⟨s1, s2, s3⟩ := stackLines_noheader hsl
      have hs : otherSel req ((t, x), i) = true := by
        simp only [otherSel, Bool.not_eq_true', Bool.or_eq_false_iff, decide_eq_false_iff_not]
        simp only [not_or, Bool.not_eq_true] at hc
        exact hc
      simp only [List.zipIdx_cons, List.filter_cons, hs, List.filterMap_cons, List.filterMap_append, headerOf,
        loadedOf, unloadedOf, s1, s2, s3, ih1, ih2, ih3, List.map_cons, List.nil_append, if_true]
      exact ⟨trivial, trivial, trivial⟩

theorem moduleLines_kinds (s : StateModel) : ∀ (is : List Nat) (ls : List TLine), moduleLines s is = .ok ls →
    ls.map (·.kind) = is.map Kind.loaded
  | [], ls, h => by simp only [moduleLines] at h; cases h; rfl
  | i :: rest, ls, h => by
    simp only [moduleLines] at h
    split at h
    · cases h
    · obtain ⟨l, hl, h⟩ := obind_ok h
      obtain ⟨more, hmore, h⟩ := obind_ok h
      cases h
      simp only [moduleLine] at hl
      obtain ⟨r, _, hl⟩ := obind_ok hl
      cases hl
      simp only [List.map_cons, moduleLines_kinds s rest more hmore]

theorem unloadedLines_kinds (s : StateModel) : ∀ (is : List Nat) (ls : List TLine), unloadedLines s is = .ok ls →
    ls.map (·.kind) = is.map Kind.unloaded
  | [], ls, h => by simp only [unloadedLines] at h; cases h; rfl
  | i :: rest, ls, h => by
    simp only [unloadedLines] at h
    split at h
    · cases h
    · obtain ⟨l, hl, h⟩ := obind_ok h
      obtain ⟨more, hmore, h⟩ := obind_ok h
      cases h
      simp only [unloadedLine] at hl
      obtain ⟨r, _, hl⟩ := obind_ok hl
      cases hl
      simp only [List.map_cons, unloadedLines_kinds s rest more hmore]

/-- extraction through the kinds of the lines -/
theorem filterMap_of_kinds {β : Type} (g : Kind → Option β) (f : TLine → Option β) (hf : ∀ l, f l = g l.kind)
    (ls : List TLine) : ls.filterMap f = (ls.map (·.kind)).filterMap g := by
  induction ls with
  | nil => rfl
  | cons l rest ih => simp only [List.filterMap_cons, List.map_cons, hf, ih]

def kHeader : Kind → Option (Nat × Bool)
  | .header i m => some (i, m)
  | _ => none
def kLoaded : Kind → Option Nat
  | .loaded i => some i
  | _ => none
def kUnloaded : Kind → Option Nat
  | .unloaded i => some i
  | _ => none

theorem headerOf_kind (l : TLine) : headerOf l = kHeader l.kind := by
  unfold headerOf kHeader; cases l.kind <;> rfl
theorem loadedOf_kind (l : TLine) : loadedOf l = kLoaded l.kind := by
  unfold loadedOf kLoaded; cases l.kind <;> rfl
theorem unloadedOf_kind (l : TLine) : unloadedOf l = kUnloaded l.kind := by
  unfold unloadedOf kUnloaded; cases l.kind <;> rfl

theorem loaded_kinds (is : List Nat) :
    (is.map Kind.loaded).filterMap kLoaded = is ∧ (is.map Kind.loaded).filterMap kUnloaded = [] ∧
    (is.map Kind.loaded).filterMap kHeader = [] := by
  induction is with
  | nil => exact ⟨rfl, rfl, rfl⟩
  | cons i rest ih => simp [kLoaded, kUnloaded, kHeader, ih.1]

theorem unloaded_kinds (is : List Nat) :
    (is.map Kind.unloaded).filterMap kUnloaded = is ∧ (is.map Kind.unloaded).filterMap kLoaded = [] ∧
    (is.map Kind.unloaded).filterMap kHeader = [] := by
  induction is with
  | nil => exact ⟨rfl, rfl, rfl⟩
  | cons i rest ih => simp [kLoaded, kUnloaded, kHeader, ih.1]

/-- the text of every header the loop over all threads writes -/
theorem otherThreadsLines_header_text (req : Option Nat) :
    ∀ (i : Nat) (ps : List (ThreadM × ThreadX)) (ls : List TLine), otherThreadsLines req i ps = .ok ls →
      ∀ l ∈ ls, ∀ k m, l.kind = .header k m →
        m = false ∧ ∃ p, (ps.zipIdx i)[k - i]? = some (p, k) ∧ i ≤ k ∧ l.text = headerText k p.1 none
  | _, [], ls, h => by
    simp only [otherThreadsLines] at h
    cases h
    intro l hl; simp at hl
  | i, (t, x) :: rest, ls, h => by
    simp only [otherThreadsLines] at h
    have shift : ∀ (more : List TLine), otherThreadsLines req (i + 1) rest = .ok more →
        ∀ l ∈ more, ∀ k m, l.kind = .header k m →
          m = false ∧ ∃ p, (((t, x) :: rest).zipIdx i)[k - i]? = some (p, k) ∧ i ≤ k ∧ l.text = headerText k p.1 none := by
      intro more hmore l hl k m hk
      obtain ⟨hm, p, hp, hik, htx⟩ := otherThreadsLines_header_text req (i + 1) rest more hmore l hl k m hk
      refine ⟨hm, p, ?_, by omega, htx⟩
      have : k - i = (k - (i + 1)) + 1 := by omega
      rw [List.zipIdx_cons, this, List.getElem?_cons_succ]
      exact hp
    split at h
    · exact shift ls h
    · obtain ⟨sl, hsl, h⟩ := obind_ok h
      obtain ⟨more, hmore, h⟩ := obind_ok h
      cases h
      intro l hl k m hk
      rcases List.mem_cons.mp hl with rfl | hl'
      · simp only [Kind.header.injEq] at hk
        obtain ⟨rfl, rfl⟩ := hk
        exact ⟨rfl, (t, x), by simp [List.zipIdx_cons], Nat.le_refl _, rfl⟩
      · rcases List.mem_append.mp hl' with h1 | h1
        · have := (stackLines_frames t x sl hsl).2 l h1
          rcases this with h2 | ⟨j, h2⟩ <;> rw [h2] at hk <;> cases hk
        · exact shift more hmore l h1 k m hk

/-! ## `by_addr()` of the module lists (on top of C08) -/

open RangeMap in
/-- when all values are distinct `keep` never merges: every kept entry is an input entry -/
theorem keep_mem_of_nodup : ∀ (o : Option Entry) (xs : List Entry),
    ((o.toList ++ xs).map (·.2)).Nodup → ∀ e ∈ keep o xs, e ∈ o.toList ++ xs
  | none, [], _, e, he => by simp [keep] at he
  | some l, [], _, e, he => by simp [keep] at he; simp [he]
  | none, x :: rest, nd, e, he => by
    simp only [keep] at he
    exact keep_mem_of_nodup (some x) rest (by simpa using nd) e he
  | some (lr, lv), x :: rest, nd, e, he => by
    simp only [keep] at he
    have nd' : lv ≠ x.2 ∧ (((lr, lv) :: rest).map (·.2)).Nodup ∧ ((x :: rest).map (·.2)).Nodup := by
      simp only [Option.toList_some, List.singleton_append, List.map_cons, List.nodup_cons, List.mem_cons,
        not_or] at nd ⊢
      exact ⟨nd.1.1, ⟨nd.1.2, nd.2.2⟩, nd.2⟩
    split at he
    · have := keep_mem_of_nodup (some (lr, lv)) rest (by simpa using nd'.2.1) e he
      simp only [Option.toList_some, List.singleton_append, List.mem_cons] at this ⊢
      rcases this with h | h
      · exact Or.inl h
      · exact Or.inr (Or.inr h)
    · split at he
      · rename_i _ h2
        exact absurd h2.2.symm nd'.1
      · simp only [Option.toList_some, List.singleton_append, List.mem_cons] at he ⊢
        rcases he with h | h
        · exact Or.inl h
        · have := keep_mem_of_nodup (some x) rest (by simpa using nd'.2.2) e h
          simp only [Option.toList_some, List.singleton_append, List.mem_cons] at this
          exact Or.inr this

theorem validOnly_map_snd_sublist (l : List (Option RangeMap.Rng × RangeMap.Val)) :
    ((RangeMap.validOnly l).map (·.2)).Sublist (l.map (·.2)) := by
  induction l with
  | nil => exact List.Sublist.slnil
  | cons x rest ih =>
    obtain ⟨o, v⟩ := x
    cases o with
    | none => simpa [RangeMap.validOnly] using ih.cons v
    | some r => simpa [RangeMap.validOnly] using ih.cons_cons v

open RangeMap in
/-- with pairwise distinct values, every entry of the table is an input entry (range unchanged) -/
theorem safeVec_mem_of_nodup (xs : List (Option Rng × Val)) (nd : (xs.map (·.2)).Nodup) :
    ∀ e ∈ safeVec xs, (some e.1, e.2) ∈ xs := by
  intro e he
  have nd1 : ((sortOpt xs).map (·.2)).Nodup :=
    (((List.mergeSort_perm xs _).map (·.2)).nodup_iff).mpr nd
  have nd2 : ((validOnly (sortOpt xs)).map (·.2)).Nodup := (validOnly_map_snd_sublist _).nodup nd1
  have hm := keep_mem_of_nodup none (validOnly (sortOpt xs)) (by simpa using nd2) e he
  simp only [Option.toList_none, List.nil_append, validOnly, List.mem_filterMap, Option.map_eq_some_iff] at hm
  obtain ⟨x, hx, r, hr, rfl⟩ := hm
  have hx' : x ∈ xs := List.mem_mergeSort.mp hx
  obtain ⟨o, v⟩ := x
  simp only at hr
  subst hr
  exact hx'

theorem modEntries_values (ms : List ModuleM) : (modEntries ms).map (·.2) = List.range ms.length := by
  have : (modEntries ms).map (·.2) = (ms.zipIdx).map Prod.snd := by
    simp only [modEntries, List.map_map]
    apply List.map_congr_left
    intro ⟨m, i⟩ _
    rfl
  rw [this, List.zipIdx_map_snd, List.range_eq_range']

theorem modEntries_getElem? (ms : List ModuleM) (i : Nat) :
    (modEntries ms)[i]? = (ms[i]?).map fun m => (RangeMap.mkRange m.base m.size, i) := by
  simp only [modEntries, List.getElem?_map, List.getElem?_zipIdx, Nat.zero_add, Option.map_map]
  rfl

/-- the module a listed position stands for, and its exact range -/
theorem modulesByAddr_entry {ms : List ModuleM} {e : RangeMap.Entry}
    (he : e ∈ RangeMap.safeVec (modEntries ms)) :
    ∃ m, ms[e.2]? = some m ∧ RangeMap.mkRange m.base m.size = some e.1 := by
  have nd : ((modEntries ms).map (·.2)).Nodup := by rw [modEntries_values]; exact List.nodup_range
  obtain ⟨m, hm, ho⟩ := mem_modEntries (safeVec_mem_of_nodup _ nd e he)
  exact ⟨m, hm, ho.symm⟩

/-- **address order**: the listed modules are strictly ascending and pairwise disjoint -/
theorem modulesByAddr_sorted (ms : List ModuleM) :
    (modulesByAddr ms).Pairwise fun i j =>
      ∃ mi mj, ms[i]? = some mi ∧ ms[j]? = some mj ∧ 0 < mi.size ∧ mi.base + mi.size ≤ mj.base := by
  rw [modulesByAddr_eq, List.pairwise_map]
  have hp := RangeMap.safeVec_sorted_disjoint (modEntries ms) (modEntries_wf ms)
  refine List.Pairwise.imp_of_mem ?_ hp
  intro a b ha hb hab
  obtain ⟨ma, hma, hra⟩ := modulesByAddr_entry ha
  obtain ⟨mb, hmb, hrb⟩ := modulesByAddr_entry hb
  have wa := RangeMap.mkRange_wf hra
  have wb := RangeMap.mkRange_wf hrb
  refine ⟨ma, mb, hma, hmb, ?_, ?_⟩ <;> omega

theorem modulesByAddr_nodup (ms : List ModuleM) : (modulesByAddr ms).Nodup := by
  refine (modulesByAddr_sorted ms).imp ?_
  intro i j ⟨mi, mj, hi, hj, hs, hle⟩ hij
  subst hij
  rw [hi] at hj
  cases hj
  omega

/-- **completeness**: a module with a valid range that intersects no other module's range is listed -/
theorem modulesByAddr_complete (ms : List ModuleM) (i : Nat) (m : ModuleM) (r : RangeMap.Rng)
    (hm : ms[i]? = some m) (hr : RangeMap.mkRange m.base m.size = some r)
    (hiso : ∀ j m' r', j ≠ i → ms[j]? = some m' → RangeMap.mkRange m'.base m'.size = some r' →
      r.intersects r' = false) :
    i ∈ modulesByAddr ms := by
  have hi : i < (modEntries ms).length := by
    have := (List.getElem?_eq_some_iff.mp hm).1
    simpa [modEntries] using this
  have hx : (modEntries ms)[i]? = some (some r, i) := by rw [modEntries_getElem?, hm, ← hr]; rfl
  have hsplit : modEntries ms = (modEntries ms).take i ++ (some r, i) :: (modEntries ms).drop (i + 1) := by
    have h1 := (List.take_append_drop i (modEntries ms)).symm
    have h2 : (modEntries ms).drop i = (some r, i) :: (modEntries ms).drop (i + 1) := by
      rw [List.drop_eq_getElem_cons hi]
      congr 1
      have := List.getElem?_eq_some_iff.mp hx
      exact this.2
    rw [h2] at h1
    exact h1
  have hwf := modEntries_wf ms
  have hiso' : ∀ e ∈ (modEntries ms).take i ++ (modEntries ms).drop (i + 1), ∀ s, e.1 = some s →
      r.intersects s = false := by
    intro e he s hs
    have : ∃ j, j ≠ i ∧ (modEntries ms)[j]? = some e := by
      rcases List.mem_append.mp he with h | h
      · obtain ⟨k, hk⟩ := List.mem_iff_getElem?.mp h
        rw [List.getElem?_take] at hk
        split at hk
        · exact ⟨k, by omega, hk⟩
        · cases hk
      · obtain ⟨k, hk⟩ := List.mem_iff_getElem?.mp h
        rw [List.getElem?_drop] at hk
        exact ⟨i + 1 + k, by omega, hk⟩
    obtain ⟨j, hj, hje⟩ := this
    rw [modEntries_getElem?] at hje
    cases hmj : ms[j]? with
    | none => rw [hmj] at hje; cases hje
    | some m' =>
      rw [hmj] at hje
      simp only [Option.map_some, Option.some.injEq] at hje
      subst hje
      exact hiso j m' s hj hmj hs
  have hrw := RangeMap.mkRange_wf hr
  have hget := RangeMap.get_complete ((modEntries ms).take i) ((modEntries ms).drop (i + 1)) r i r.lo
    (hsplit ▸ hwf) hiso' ⟨Nat.le_refl _, hrw.1⟩
  rw [← hsplit] at hget
  obtain ⟨e, he, _, hv⟩ := RangeMap.get_sound_mem _ _ _ hget
  rw [modulesByAddr_eq, List.mem_map]
  exact ⟨e, he, hv⟩

/-- the unloaded list: exactly the modules with a valid range, each once -/
theorem mem_unloadedByAddr_iff (ms : List UnloadedM) (i : Nat) :
    i ∈ unloadedByAddr ms ↔ ∃ m r, ms[i]? = some m ∧ RangeMap.mkRange m.base m.size = some r := by
  constructor
  · exact mem_unloadedByAddr
  · rintro ⟨m, r, hm, hr⟩
    rw [unloadedByAddr_eq, List.mem_map]
    refine ⟨(r, i), List.mem_mergeSort.mpr ?_, rfl⟩
    simp only [RangeMap.validOnly, List.mem_filterMap, Option.map_eq_some_iff]
    refine ⟨(some r, i), ?_, r, rfl, rfl⟩
    simp only [unlEntries, List.mem_map]
    refine ⟨(some r, i), List.mem_zipIdx_iff_getElem?.mpr ?_, rfl⟩
    simp only [List.getElem?_map, hm, Option.map_some, hr]

theorem unlEntries_values (ms : List UnloadedM) : (unlEntries ms).map (·.2) = List.range ms.length := by
  have : (unlEntries ms).map (·.2) = ((ms.map fun m => RangeMap.mkRange m.base m.size).zipIdx).map Prod.snd := by
    simp only [unlEntries, List.map_map]
    apply List.map_congr_left
    intro ⟨m, i⟩ _
    rfl
  rw [this, List.zipIdx_map_snd, List.range_eq_range', List.length_map]

theorem unloadedByAddr_nodup (ms : List UnloadedM) : (unloadedByAddr ms).Nodup := by
  rw [unloadedByAddr_eq]
  have h1 : ((RangeMap.validOnly (unlEntries ms)).map (·.2)).Nodup :=
    (validOnly_map_snd_sublist _).nodup (by rw [unlEntries_values]; exact List.nodup_range)
  exact (((List.mergeSort_perm (RangeMap.validOnly (unlEntries ms)) _).map (fun e : RangeMap.Entry => e.2)).nodup_iff).mpr h1

/-- … in `(base, end)` order (C08 `unloaded_sorted`) -/
theorem unloadedByAddr_sorted (ms : List UnloadedM) :
    (unloadedByAddr ms).Pairwise fun i j =>
      ∃ mi mj ri rj, ms[i]? = some mi ∧ ms[j]? = some mj ∧ RangeMap.mkRange mi.base mi.size = some ri ∧
        RangeMap.mkRange mj.base mj.size = some rj ∧ RangeMap.rle ri rj = true := by
  rw [unloadedByAddr_eq, List.pairwise_map]
  have hp : (RangeMap.sortEntries (RangeMap.validOnly (unlEntries ms))).Pairwise
      (fun x y => RangeMap.rle x.1 y.1 = true) :=
    RangeMap.unloaded_sorted (ms.map fun (m : UnloadedM) => RangeMap.mkRange m.base m.size)
  refine List.Pairwise.imp_of_mem ?_ hp
  intro a b ha hb hab
  have key : ∀ e ∈ RangeMap.sortEntries (RangeMap.validOnly (unlEntries ms)),
      ∃ m, ms[e.2]? = some m ∧ RangeMap.mkRange m.base m.size = some e.1 := by
    intro e he
    have he' : e ∈ RangeMap.validOnly (unlEntries ms) := List.mem_mergeSort.mp he
    simp only [RangeMap.validOnly, List.mem_filterMap, Option.map_eq_some_iff] at he'
    obtain ⟨x, hx, r, hr, rfl⟩ := he'
    simp only [unlEntries, List.mem_map] at hx
    obtain ⟨⟨o, j⟩, hmem, rfl⟩ := hx
    have hj := List.mem_zipIdx_iff_getElem?.mp hmem
    simp only [List.getElem?_map, Option.map_eq_some_iff] at hj
    obtain ⟨m, hm, ho⟩ := hj
    simp only at hr
    exact ⟨m, hm, by rw [ho, hr]⟩
  obtain ⟨ma, hma, hra⟩ := key a ha
  obtain ⟨mb, hmb, hrb⟩ := key b hb
  exact ⟨ma, mb, a.1, b.1, hma, hmb, hra, hrb, hab⟩

/-! ## numbered lines, character by character -/

/-- leading decimal digits followed by two spaces; `one`: exactly one digit, else at least two -/
def numbered (one : Bool) (cs : List Char) : Bool :=
  (if one then (cs.takeWhile isDigit).length == 1 else decide (2 ≤ (cs.takeWhile isDigit).length)) &&
  (cs.dropWhile isDigit).take 2 == [' ', ' ']

/-- the shape `{frame_idx:2}  …` of a numbered frame line — the very test engine `text`'s oracle
    applies to the lines of the real output (`frame_line_index` in harness/src/engines/text.rs):
    a space and ONE digit, or at least two digits, then two spaces -/
def isFrameLine : List Char → Bool
  | [] => false
  | c :: rest => if c = ' ' then numbered true rest else numbered false (c :: rest)

theorem takeWhile_digits (ds r : List Char) (c : Char) (hd : ds.all isDigit = true) (hc : isDigit c = false) :
    (ds ++ c :: r).takeWhile isDigit = ds ∧ (ds ++ c :: r).dropWhile isDigit = c :: r := by
  induction ds with
  | nil => simp [hc]
  | cons d ds ih =>
    simp only [List.all_cons, Bool.and_eq_true] at hd
    simp [hd.1, ih hd.2]

theorem natDigits_all (n : Nat) : (natDigits n).all isDigit = true :=
  digitsB_all 10 isDigit (by decide) (fun d hd => (digitChar_dec d hd).1) n

theorem natDigits_small (n : Nat) (h : n < 10) : natDigits n = [digitChar n] := by
  unfold natDigits
  rw [digitsB_eq, if_pos (Or.inl h)]

theorem natDigits_large (n : Nat) (h : 10 ≤ n) : 2 ≤ (natDigits n).length := by
  unfold natDigits
  rw [digitsB_eq, if_neg (by omega)]
  have := digitsB_ne_nil 10 (n / 10)
  cases hd : digitsB 10 (n / 10) with
  | nil => exact absurd hd this
  | cons a b => simp

/-- a numbered line is recognised as one -/
theorem isFrameLine_numbered (i : Nat) (body : List Char) :
    isFrameLine (padSp 2 (dec i) ++ "  ".toList ++ body) = true := by
  have hsp : isDigit ' ' = false := by decide
  have h2 : "  ".toList = [' ', ' '] := rfl
  rw [h2]
  by_cases hi : i < 10
  · have hd := (digitChar_dec i hi).1
    have e : padSp 2 (dec i) ++ [' ', ' '] ++ body = ' ' :: ([digitChar i] ++ ' ' :: (' ' :: body)) := by
      simp [dec, natDigits_small i hi, padSp]
    obtain ⟨t1, t2⟩ := takeWhile_digits [digitChar i] (' ' :: body) ' ' (by simp [hd]) hsp
    rw [e]
    show (if ' ' = ' ' then numbered true ([digitChar i] ++ ' ' :: (' ' :: body))
          else numbered false (' ' :: ([digitChar i] ++ ' ' :: (' ' :: body)))) = true
    rw [if_pos rfl]
    unfold numbered
    rw [t1, t2]
    simp
  · have hlen := natDigits_large i (by omega)
    have hall := natDigits_all i
    have hpad : padSp 2 (dec i) = natDigits i := by
      simp only [padSp, dec]
      have : 2 - (natDigits i).length = 0 := by omega
      rw [this]; rfl
    rw [hpad]
    cases hds : natDigits i with
    | nil => rw [hds] at hlen; simp at hlen
    | cons c rest =>
      have hc : isDigit c = true := by
        rw [hds] at hall
        simp only [List.all_cons, Bool.and_eq_true] at hall
        exact hall.1
      have hne : c ≠ ' ' := by
        intro h; rw [h] at hc; rw [hsp] at hc; cases hc
      obtain ⟨t1, t2⟩ := takeWhile_digits (c :: rest) (' ' :: body) ' ' (by rw [← hds]; exact hall) hsp
      have e : (c :: rest) ++ [' ', ' '] ++ body = c :: (rest ++ ' ' :: (' ' :: body)) := by simp
      rw [e]
      show (if c = ' ' then numbered true (rest ++ ' ' :: (' ' :: body))
            else numbered false (c :: (rest ++ ' ' :: (' ' :: body)))) = true
      rw [if_neg hne]
      have e2 : c :: (rest ++ ' ' :: (' ' :: body)) = (c :: rest) ++ ' ' :: (' ' :: body) := rfl
      rw [e2]
      unfold numbered
      rw [t1, t2]
      have h1 : 1 ≤ rest.length := by
        have h0 : (natDigits i).length = rest.length + 1 := by rw [hds]; rfl
        omega
      simp
      exact h1

/-- what the other lines of a call-stack block look like: empty, or starting with a character that
    is neither a space nor a digit, or a space followed by nothing or by another space -/
def NotNumbered (cs : List Char) : Prop :=
  cs = [] ∨ (∃ c r, cs = c :: r ∧ c ≠ ' ' ∧ isDigit c = false) ∨
  (∃ r, cs = ' ' :: r ∧ (r = [] ∨ ∃ r', r = ' ' :: r'))

theorem isFrameLine_notNumbered (cs : List Char) (h : NotNumbered cs) : isFrameLine cs = false := by
  have hsp : isDigit ' ' = false := by decide
  rcases h with rfl | ⟨c, r, rfl, hc, hd⟩ | ⟨r, rfl, hr⟩
  · rfl
  · simp [isFrameLine, hc, numbered, List.takeWhile, hd]
  · rcases hr with rfl | ⟨r', rfl⟩
    · simp [isFrameLine, numbered]
    · simp [isFrameLine, numbered, List.takeWhile, hsp]

/-- every line of a call-stack block is a numbered frame line (kind and characters) or a plain
    line that cannot be mistaken for one -/
def StackLineOK (l : TLine) : Prop :=
  (∃ i body, l.kind = .frame i ∧ l.text = padSp 2 (dec i) ++ "  ".toList ++ body) ∨
  (l.kind = .plain ∧ NotNumbered l.text)

theorem exists_body4 (p a b c d : List Char) : ∃ body, p ++ a ++ b ++ c ++ d = p ++ body :=
  ⟨a ++ b ++ c ++ d, by simp [List.append_assoc]⟩

theorem notNumbered_two_spaces (r : List Char) : NotNumbered (' ' :: ' ' :: r) :=
  Or.inr (Or.inr ⟨_, rfl, Or.inr ⟨r, rfl⟩⟩)

theorem regLoop_lines (c : RegCtx) : ∀ (rs : List (String × Nat)) (out : List (List Char)) (cur : List Char),
    (∀ l ∈ out, NotNumbered l) → (cur = [] ∨ ∃ r, cur = ' ' :: r) →
    ∀ l ∈ regLoop c rs out cur, NotNumbered l
  | [], out, cur, hout, hcur, l, hl => by
    simp only [regLoop, List.mem_reverse] at hl
    split at hl
    · exact hout l hl
    · rcases List.mem_cons.mp hl with rfl | h
      · rcases hcur with rfl | ⟨r, rfl⟩
        · exact Or.inr (Or.inr ⟨_, rfl, Or.inl rfl⟩)
        · exact notNumbered_two_spaces r
      · exact hout l h
  | r :: rest, out, cur, hout, hcur, l, hl => by
    have hflush : NotNumbered (' ' :: cur) := by
      rcases hcur with rfl | ⟨r', rfl⟩
      · exact Or.inr (Or.inr ⟨_, rfl, Or.inl rfl⟩)
      · exact notNumbered_two_spaces r'
    have hcell : ∃ r', regCell c r = ' ' :: r' := ⟨_, rfl⟩
    simp only [regLoop] at hl
    split at hl
    · split at hl
      · refine regLoop_lines c rest _ _ ?_ (Or.inr hcell) l hl
        intro l' hl'
        rcases List.mem_cons.mp hl' with rfl | h
        · exact hflush
        · exact hout l' h
      · refine regLoop_lines c rest out _ hout ?_ l hl
        rcases hcur with rfl | ⟨r', rfl⟩
        · exact Or.inr (by simpa using hcell)
        · exact Or.inr ⟨_, rfl⟩
    · exact regLoop_lines c rest out cur hout hcur l hl

theorem regLines_ok (c : RegCtx) : ∀ l ∈ regLines c, StackLineOK l := by
  intro l hl
  simp only [regLines, List.mem_map] at hl
  obtain ⟨cs, hcs, rfl⟩ := hl
  exact Or.inr ⟨rfl, regLoop_lines c c.gpr [] [] (fun _ h => by simp at h) (Or.inl rfl) cs hcs⟩

theorem inlineLines_ok (f : FrameM) : ∀ (n : Nat) (is : List InlineM), ∀ l ∈ inlineLines f n is, StackLineOK l
  | _, [], l, hl => by simp [inlineLines] at hl
  | n, i :: rest, l, hl => by
    simp only [inlineLines, List.mem_cons] at hl
    rcases hl with rfl | rfl | h
    · obtain ⟨body, hb⟩ := exists_body4 (padSp 2 (dec n) ++ "  ".toList)
        (match f.module with
         | some (name, _) => baseN name
         | none => []) ['!'] i.function.toList
        (match i.file, i.line with
         | some file, some line => " [".toList ++ baseN file ++ " : ".toList ++ dec line ++ [']']
         | _, _ => [])
      exact Or.inl ⟨n, body, rfl, hb⟩
    · exact Or.inr ⟨rfl, notNumbered_two_spaces _⟩
    · exact inlineLines_ok f (n + 1) rest l h

theorem argLines_ok (pb : Nat) : ∀ (n : Nat) (as : List (String × Option Nat)), ∀ l ∈ argLines pb n as, StackLineOK l
  | _, [], l, hl => by simp [argLines] at hl
  | n, (nm, v) :: rest, l, hl => by
    simp only [argLines, List.mem_cons] at hl
    rcases hl with rfl | h
    · exact Or.inr ⟨rfl, notNumbered_two_spaces _⟩
    · exact argLines_ok pb (n + 1) rest l h

theorem argsLines_ok (x : FrameX) : ∀ l ∈ argsLines x, StackLineOK l := by
  intro l hl
  unfold argsLines at hl
  split at hl
  · simp at hl
  · simp only [List.mem_cons, List.mem_append, List.not_mem_nil, or_false] at hl
    rcases hl with rfl | h | rfl
    · exact Or.inr ⟨rfl, notNumbered_two_spaces _⟩
    · exact argLines_ok _ 0 _ l h
    · exact Or.inr ⟨rfl, Or.inl rfl⟩

theorem framesLines_ok : ∀ (n : Nat) (ps : List (FrameM × FrameX)) (ls : List TLine),
    framesLines n ps = .ok ls → ∀ l ∈ ls, StackLineOK l
  | n, [], ls, h, l, hl => by
    simp only [framesLines] at h
    cases h
    simp at hl
  | n, (f, x) :: rest, ls, h, l, hl => by
    simp only [framesLines] at h
    obtain ⟨body, _, h⟩ := obind_ok h
    obtain ⟨more, hmore, h⟩ := obind_ok h
    cases h
    simp only [List.mem_append, List.mem_cons, List.not_mem_nil, or_false] at hl
    rcases hl with ((((h1 | rfl) | h1) | rfl) | h1) | h1
    · exact inlineLines_ok f n f.inlines l h1
    · exact Or.inl ⟨_, body, rfl, rfl⟩
    · exact regLines_ok f.ctx l h1
    · exact Or.inr ⟨rfl, notNumbered_two_spaces _⟩
    · exact argsLines_ok x l h1
    · exact framesLines_ok (n + f.inlines.length + 1) rest more hmore l h1

theorem stackLines_ok (t : ThreadM) (x : ThreadX) (ls : List TLine) (h : stackLines t x = .ok ls) :
    ∀ l ∈ ls, StackLineOK l := by
  simp only [stackLines] at h
  obtain ⟨fl, hfl, h⟩ := obind_ok h
  cases h
  intro l hl
  rcases List.mem_append.mp hl with h1 | h1
  · split at h1
    · simp only [List.mem_cons, List.not_mem_nil, or_false] at h1
      subst h1
      exact Or.inr ⟨rfl, Or.inr (Or.inl ⟨'<', _, rfl, by decide, by decide⟩)⟩
    · simp at h1
  · exact framesLines_ok 0 _ fl hfl l h1

/-- kind and characters agree on every line of a call-stack block -/
theorem stackLines_chars (t : ThreadM) (x : ThreadX) (ls : List TLine) (h : stackLines t x = .ok ls) :
    ∀ l ∈ ls, isFrameLine l.text = (frameOf l).isSome := by
  intro l hl
  rcases stackLines_ok t x ls h l hl with ⟨i, body, hk, ht⟩ | ⟨hk, hn⟩
  · rw [ht, isFrameLine_numbered]
    simp [frameOf, hk]
  · rw [isFrameLine_notNumbered _ hn]
    simp [frameOf, hk]

theorem filterMap_length_eq_filter {β : Type} (f : TLine → Option β) (ls : List TLine) :
    (ls.filterMap f).length = (ls.filter fun l => (f l).isSome).length := by
  induction ls with
  | nil => rfl
  | cons l rest ih =>
    cases h : f l <;> simp [List.filterMap_cons, List.filter_cons, h, ih]

/-! ## from the characters back to the lines -/

/-- split at `\n` (`acc`: the current piece, reversed); a trailing piece without `\n` is kept -/
def splitLines : List Char → List Char → List (List Char)
  | [], acc => if acc.isEmpty then [] else [acc.reverse]
  | c :: r, acc => if c = '\n' then acc.reverse :: splitLines r [] else splitLines r (c :: acc)

theorem splitLines_line (t rest acc : List Char) (h : '\n' ∉ t) :
    splitLines (t ++ '\n' :: rest) acc = (acc.reverse ++ t) :: splitLines rest [] := by
  induction t generalizing acc with
  | nil => simp [splitLines]
  | cons c t ih =>
    simp only [List.mem_cons, not_or] at h
    have hc : c ≠ '\n' := fun e => h.1 e.symm
    simp only [List.cons_append, splitLines, if_neg hc, ih (c :: acc) h.2, List.reverse_cons, List.append_assoc,
      List.nil_append]

/-- when no line contains a newline, the written characters split back into exactly the lines -/
theorem splitLines_render (ls : List TLine) (h : ∀ l ∈ ls, '\n' ∉ l.text) :
    splitLines (renderLines ls) [] = ls.map (·.text) := by
  induction ls with
  | nil => rfl
  | cons l rest ih =>
    have h1 := h l List.mem_cons_self
    have h2 := ih (fun x hx => h x (List.mem_cons_of_mem _ hx))
    have e : renderLines (l :: rest) = l.text ++ '\n' :: renderLines rest := by
      simp [renderLines]
    rw [e, splitLines_line _ _ _ h1, h2]
    simp

end MdModel.Text
