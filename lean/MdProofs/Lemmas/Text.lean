/-
  Helper lemmas for the text-report model (`MdModel.Text`). Property theorems are in
  `MdProofs/C13Text.lean`.
-/
import MdModel.Text
import MdProofs.Lemmas.Json
import MdProofs.C08
namespace MdModel.Text
open MdModel MdModel.Json

/-! ## outcomes -/

theorem obind_ok {α β : Type} {x : Outcome α} {f : α → Outcome β} {b : β} (h : obind x f = .ok b) :
    ∃ a, x = .ok a ∧ f a = .ok b := by
  cases x with
  | ok a => exact ⟨a, rfl, h⟩
  | panic s => cases h

theorem obind_ok_iff {α β : Type} {x : Outcome α} {f : α → Outcome β} {b : β} :
    obind x f = .ok b ↔ ∃ a, x = .ok a ∧ f a = .ok b :=
  ⟨obind_ok, fun ⟨a, hx, hf⟩ => by rw [hx]; exact hf⟩

theorem checkedSub_ok {site : String} {a b : Nat} (h : b ≤ a) : checkedSub site a b = .ok (a - b) := by
  unfold checkedSub
  rw [if_neg (by omega)]

/-! ## `zipD` -/

theorem zipD_length {α β : Type} (d : β) (as : List α) (bs : List β) : (zipD d as bs).length = as.length := by
  induction as generalizing bs with
  | nil => simp [zipD]
  | cons a as ih => cases bs <;> simp [zipD, ih]

theorem zipD_map_fst {α β : Type} (d : β) (as : List α) (bs : List β) : (zipD d as bs).map (·.1) = as := by
  induction as generalizing bs with
  | nil => simp [zipD]
  | cons a as ih => cases bs <;> simp [zipD, ih]

theorem zipD_getElem? {α β : Type} (d : β) (as : List α) (bs : List β) (i : Nat) :
    (zipD d as bs)[i]? = (as[i]?).map fun a => (a, bs[i]?.getD d) := by
  induction as generalizing bs i with
  | nil => simp [zipD]
  | cons a as ih =>
    cases bs with
    | nil => cases i <;> simp [zipD, ih]
    | cons b bs => cases i <;> simp [zipD, ih]

theorem mem_zipD_fst {α β : Type} {d : β} {as : List α} {bs : List β} {p : α × β}
    (h : p ∈ zipD d as bs) : p.1 ∈ as := by
  rw [← zipD_map_fst d as bs]
  exact List.mem_map_of_mem h

/-! ## rendering -/

theorem renderLines_append (a b : List TLine) : renderLines (a ++ b) = renderLines a ++ renderLines b := by
  simp [renderLines]

/-! ## totality of the call-stack printer -/

/-- what the three subtractions of a frame line need -/
def FrameOK (f : FrameM) (x : FrameX) : Prop :=
  (∀ nm base, f.module = some (nm, base) → base ≤ f.instruction) ∧
  (∀ fb, f.functionBase = some fb → fb ≤ f.instruction) ∧
  (∀ lb, x.lineBase = some lb → lb ≤ f.instruction)

theorem frameBody_total (f : FrameM) (x : FrameX) (h : FrameOK f x) : ∃ cs, frameBody f x = .ok cs := by
  obtain ⟨hm, hf, hl⟩ := h
  unfold frameBody
  split
  · rename_i name base hmod
    have hb := hm name base hmod
    split
    · rename_i fn fb _ hfb
      have hfb' := hf fb hfb
      split
      · rename_i file line lb _ _ hlb
        have := hl lb hlb
        rw [checkedSub_ok this]; exact ⟨_, rfl⟩
      · rw [checkedSub_ok hfb']; exact ⟨_, rfl⟩
    · rw [checkedSub_ok hb]; exact ⟨_, rfl⟩
  · exact ⟨_, rfl⟩

theorem framesLines_total (n : Nat) (ps : List (FrameM × FrameX)) (h : ∀ p ∈ ps, FrameOK p.1 p.2) :
    ∃ ls, framesLines n ps = .ok ls := by
  induction ps generalizing n with
  | nil => exact ⟨[], rfl⟩
  | cons p ps ih =>
    obtain ⟨f, x⟩ := p
    obtain ⟨body, hb⟩ := frameBody_total f x (h (f, x) List.mem_cons_self)
    obtain ⟨more, hm⟩ := ih (n + f.inlines.length + 1) (fun q hq => h q (List.mem_cons_of_mem _ hq))
    simp only [framesLines, hb, hm, obind]
    exact ⟨_, rfl⟩

/-- every frame of a thread (paired with its extras) satisfies `FrameOK` -/
def ThreadOK (t : ThreadM) (x : ThreadX) : Prop :=
  ∀ p ∈ zipD FrameX.dflt t.frames x.frames, FrameOK p.1 p.2

theorem stackLines_total (t : ThreadM) (x : ThreadX) (h : ThreadOK t x) : ∃ ls, stackLines t x = .ok ls := by
  obtain ⟨ls, hls⟩ := framesLines_total 0 _ h
  simp only [stackLines, hls, obind]
  exact ⟨_, rfl⟩

theorem otherThreadsLines_total (req : Option Nat) (i : Nat) (ps : List (ThreadM × ThreadX))
    (h : ∀ p ∈ ps, ThreadOK p.1 p.2) : ∃ ls, otherThreadsLines req i ps = .ok ls := by
  induction ps generalizing i with
  | nil => exact ⟨[], rfl⟩
  | cons p ps ih =>
    obtain ⟨t, x⟩ := p
    obtain ⟨more, hm⟩ := ih (i + 1) (fun q hq => h q (List.mem_cons_of_mem _ hq))
    simp only [otherThreadsLines]
    split
    · exact ⟨more, hm⟩
    · obtain ⟨ls, hls⟩ := stackLines_total t x (h (t, x) List.mem_cons_self)
      simp only [hls, hm, obind]
      exact ⟨_, rfl⟩

/-! ## the module lists never panic (C08: only modules with a valid range are iterated) -/

def modEntries (ms : List ModuleM) : List (Option RangeMap.Rng × RangeMap.Val) :=
  ms.zipIdx.map fun (m, i) => (RangeMap.mkRange m.base m.size, i)

theorem modulesByAddr_eq (ms : List ModuleM) :
    modulesByAddr ms = (RangeMap.safeVec (modEntries ms)).map (·.2) := rfl

theorem modEntries_wf (ms : List ModuleM) : RangeMap.InputWF (modEntries ms) := by
  intro e he r hr
  simp only [modEntries, List.mem_map] at he
  obtain ⟨⟨m, i⟩, _, rfl⟩ := he
  have := RangeMap.mkRange_wf hr
  exact ⟨this.1, this.2.1⟩

theorem mem_modEntries {ms : List ModuleM} {o : Option RangeMap.Rng} {i : Nat}
    (h : (o, i) ∈ modEntries ms) : ∃ m, ms[i]? = some m ∧ o = RangeMap.mkRange m.base m.size := by
  simp only [modEntries, List.mem_map] at h
  obtain ⟨⟨m, j⟩, hmem, heq⟩ := h
  simp only [Prod.mk.injEq] at heq
  obtain ⟨rfl, rfl⟩ := heq
  exact ⟨m, List.mem_zipIdx_iff_getElem?.mp hmem, rfl⟩

/-- every position `by_addr` yields is a module of the list, and that module has a range -/
theorem mem_modulesByAddr {ms : List ModuleM} {i : Nat} (h : i ∈ modulesByAddr ms) :
    ∃ m r, ms[i]? = some m ∧ RangeMap.mkRange m.base m.size = some r := by
  rw [modulesByAddr_eq, List.mem_map] at h
  obtain ⟨e, he, rfl⟩ := h
  have hsep := RangeMap.safeVec_sep (modEntries ms) (modEntries_wf ms)
  have hwf := hsep.wf e he
  have hcov := RangeMap.keep_covered (RangeMap.validOnly (RangeMap.sortOpt (modEntries ms))) e he
  obtain ⟨s, hs, hv, _, _⟩ := hcov e.1.lo (Nat.le_refl _) hwf.1
  simp only [RangeMap.validOnly, List.mem_filterMap, Option.map_eq_some_iff] at hs
  obtain ⟨x, hx, r, hr, rfl⟩ := hs
  have hx' : x ∈ modEntries ms := List.mem_mergeSort.mp hx
  obtain ⟨o, j⟩ := x
  obtain ⟨m, hm, ho⟩ := mem_modEntries hx'
  simp only at hr hv
  subst hr
  exact ⟨m, r, hv ▸ hm, ho.symm⟩

theorem rangeText_total (site : String) (base size : Nat) (r : RangeMap.Rng)
    (h : RangeMap.mkRange base size = some r) : ∃ cs, rangeText site base size = .ok cs := by
  unfold RangeMap.mkRange at h
  split at h; · cases h
  split at h; · cases h
  rename_i h0 h1
  unfold rangeText checkedAdd
  rw [if_neg h1]
  simp only [obind]
  rw [checkedSub_ok (by omega)]
  exact ⟨_, rfl⟩

theorem moduleLines_total (s : StateModel) (is : List Nat) (h : ∀ i ∈ is, i ∈ modulesByAddr s.modules) :
    ∃ ls, moduleLines s is = .ok ls := by
  induction is with
  | nil => exact ⟨[], rfl⟩
  | cons i rest ih =>
    obtain ⟨m, r, hm, hr⟩ := mem_modulesByAddr (h i List.mem_cons_self)
    obtain ⟨cs, hcs⟩ := rangeText_total "Loaded modules" m.base m.size r hr
    obtain ⟨ls, hls⟩ := ih (fun j hj => h j (List.mem_cons_of_mem _ hj))
    simp only [moduleLines, hm, moduleLine, hcs, hls, obind]
    exact ⟨_, rfl⟩

def unlEntries (ms : List UnloadedM) : List (Option RangeMap.Rng × RangeMap.Val) :=
  (ms.map fun m => RangeMap.mkRange m.base m.size).zipIdx.map fun (r, i) => (r, i)

theorem unloadedByAddr_eq (ms : List UnloadedM) :
    unloadedByAddr ms = (RangeMap.sortEntries (RangeMap.validOnly (unlEntries ms))).map (·.2) := rfl

theorem mem_unloadedByAddr {ms : List UnloadedM} {i : Nat} (h : i ∈ unloadedByAddr ms) :
    ∃ m r, ms[i]? = some m ∧ RangeMap.mkRange m.base m.size = some r := by
  rw [unloadedByAddr_eq, List.mem_map] at h
  obtain ⟨e, he, rfl⟩ := h
  have he' : e ∈ RangeMap.validOnly (unlEntries ms) := List.mem_mergeSort.mp he
  simp only [RangeMap.validOnly, List.mem_filterMap, Option.map_eq_some_iff] at he'
  obtain ⟨x, hx, r, hr, rfl⟩ := he'
  simp only [unlEntries, List.mem_map] at hx
  obtain ⟨⟨o, j⟩, hmem, rfl⟩ := hx
  have hj := List.mem_zipIdx_iff_getElem?.mp hmem
  simp only [List.getElem?_map, Option.map_eq_some_iff] at hj
  obtain ⟨m, hm, ho⟩ := hj
  simp only at hr
  exact ⟨m, r, hm, by rw [ho, hr]⟩

theorem unloadedLines_total (s : StateModel) (is : List Nat) (h : ∀ i ∈ is, i ∈ unloadedByAddr s.unloaded) :
    ∃ ls, unloadedLines s is = .ok ls := by
  induction is with
  | nil => exact ⟨[], rfl⟩
  | cons i rest ih =>
    obtain ⟨m, r, hm, hr⟩ := mem_unloadedByAddr (h i List.mem_cons_self)
    obtain ⟨cs, hcs⟩ := rangeText_total "Unloaded modules" m.base m.size r hr
    obtain ⟨ls, hls⟩ := ih (fun j hj => h j (List.mem_cons_of_mem _ hj))
    simp only [unloadedLines, hm, unloadedLine, hcs, hls, obind]
    exact ⟨_, rfl⟩

/-! ## hash containers: only membership / lookup is used -/

theorem lookupS_perm {α : Type} {l l' : List (String × α)} (hp : l.Perm l')
    (nd : (l.map (·.1)).Nodup) (k : String) : lookupS k l = lookupS k l' := by
  induction hp with
  | nil => rfl
  | cons x _ ih =>
    obtain ⟨k', v⟩ := x
    simp only [List.map_cons, List.nodup_cons] at nd
    simp only [lookupS, ih nd.2]
  | swap x y l =>
    obtain ⟨kx, vx⟩ := x
    obtain ⟨ky, vy⟩ := y
    simp only [List.map_cons, List.nodup_cons, List.mem_cons, not_or] at nd
    simp only [lookupS]
    by_cases h1 : k = ky <;> by_cases h2 : k = kx
    · exact absurd (h1.symm.trans h2) nd.1.1
    · simp [h1]
      intro h; exact absurd h nd.1.1
    · simp [h2]
      intro h; exact absurd h.symm nd.1.1
    · simp [h1, h2]
  | trans p₁ _ ih₁ ih₂ =>
    rw [ih₁ nd]
    exact ih₂ ((p₁.map (·.1)).nodup_iff.mp nd)

/-- two lists related element by element -/
def AllRel {α : Type} (R : α → α → Prop) : List α → List α → Prop
  | [], [] => True
  | a :: as, b :: bs => R a b ∧ AllRel R as bs
  | _, _ => False

theorem AllRel.refl {α : Type} {R : α → α → Prop} (hr : ∀ a, R a a) : ∀ l, AllRel R l l
  | [] => trivial
  | a :: as => ⟨hr a, AllRel.refl hr as⟩

theorem AllRel.length {α : Type} {R : α → α → Prop} : ∀ {l l' : List α}, AllRel R l l' → l.length = l'.length
  | [], [], _ => rfl
  | _ :: _, _ :: _, h => by simp [AllRel.length h.2]
  | [], _ :: _, h => h.elim
  | _ :: _, [], h => h.elim

theorem AllRel.getElem? {α : Type} {R : α → α → Prop} :
    ∀ {l l' : List α}, AllRel R l l' → ∀ (i : Nat) (a : α), l[i]? = some a → ∃ b, l'[i]? = some b ∧ R a b
  | [], [], _, i, a, h => by simp at h
  | x :: xs, y :: ys, h, 0, a, hi => by simp at hi; subst hi; exact ⟨y, rfl, h.1⟩
  | x :: xs, y :: ys, h, i + 1, a, hi => by
    simp at hi
    obtain ⟨b, hb, hr⟩ := AllRel.getElem? h.2 i a hi
    exact ⟨b, by simpa using hb, hr⟩
  | [], _ :: _, h, _, _, _ => h.elim
  | _ :: _, [], h, _, _, _ => h.elim

/-- the validity set: the same set, in any iteration order -/
def ValidEquiv : Option (List String) → Option (List String) → Prop
  | none, none => True
  | some a, some b => a.Perm b
  | _, _ => False

structure CtxEquiv (c c' : RegCtx) : Prop where
  regSize : c.regSize = c'.regSize
  gpr : c.gpr = c'.gpr
  valid : ValidEquiv c.valid c'.valid

theorem regValid_equiv {c c' : RegCtx} (h : CtxEquiv c c') (name : String) : regValid c name = regValid c' name := by
  have hv := h.valid
  unfold regValid
  cases h1 : c.valid with
  | none =>
    cases h2 : c'.valid with
    | none => rfl
    | some b => rw [h1, h2] at hv; exact hv.elim
  | some a =>
    cases h2 : c'.valid with
    | none => rw [h1, h2] at hv; exact hv.elim
    | some b =>
      rw [h1, h2] at hv
      simp only [ValidEquiv] at hv
      show a.contains name = b.contains name
      rw [Bool.eq_iff_iff, List.contains_iff_mem, List.contains_iff_mem]
      exact hv.mem_iff

theorem regLoop_equiv {c c' : RegCtx} (h : CtxEquiv c c') (rs : List (String × Nat)) (out : List (List Char))
    (cur : List Char) : regLoop c rs out cur = regLoop c' rs out cur := by
  induction rs generalizing out cur with
  | nil => rfl
  | cons r rest ih =>
    have hv := regValid_equiv h r.1
    have hc : regCell c r = regCell c' r := by simp only [regCell, h.regSize]
    show (if regValid c r.1 then
            (if cur.length + (regCell c r).length > 80 then regLoop c rest ((' ' :: cur) :: out) (regCell c r)
             else regLoop c rest out (cur ++ regCell c r))
          else regLoop c rest out cur) =
         (if regValid c' r.1 then
            (if cur.length + (regCell c' r).length > 80 then regLoop c' rest ((' ' :: cur) :: out) (regCell c' r)
             else regLoop c' rest out (cur ++ regCell c' r))
          else regLoop c' rest out cur)
    rw [hv, hc, ih, ih, ih]

theorem regLines_equiv {c c' : RegCtx} (h : CtxEquiv c c') : regLines c = regLines c' := by
  unfold regLines
  rw [regLoop_equiv h, h.gpr]

/-- the same frame up to the iteration order of its validity set -/
structure FrameEquiv (f f' : FrameM) : Prop where
  rest : f' = { f with ctx := f'.ctx }
  ctx : CtxEquiv f.ctx f'.ctx

theorem FrameEquiv.refl (f : FrameM) : FrameEquiv f f :=
  ⟨rfl, rfl, rfl, by cases f.ctx.valid <;> simp [ValidEquiv]⟩

theorem frameBody_equiv {f f' : FrameM} (h : FrameEquiv f f') (x : FrameX) : frameBody f x = frameBody f' x := by
  rw [h.rest]; rfl

theorem inlineLines_equiv {f f' : FrameM} (h : FrameEquiv f f') (n : Nat) (is : List InlineM) :
    inlineLines f n is = inlineLines f' n is := by
  induction is generalizing n with
  | nil => rfl
  | cons i rest ih =>
    simp only [inlineLines, ih]
    rw [h.rest]; rfl

theorem zipD_allRel {α β : Type} {R : α → α → Prop} (d : β) :
    ∀ {as as' : List α} (bs : List β), AllRel R as as' →
      AllRel (fun p p' => R p.1 p'.1 ∧ p.2 = p'.2) (zipD d as bs) (zipD d as' bs)
  | [], [], _, _ => trivial
  | _ :: _, _ :: _, [], h => ⟨⟨h.1, rfl⟩, zipD_allRel d [] h.2⟩
  | _ :: _, _ :: _, _ :: bs, h => ⟨⟨h.1, rfl⟩, zipD_allRel d bs h.2⟩
  | [], _ :: _, _, h => h.elim
  | _ :: _, [], _, h => h.elim

theorem framesLines_equiv :
    ∀ {ps ps' : List (FrameM × FrameX)} (n : Nat),
      AllRel (fun p p' => FrameEquiv p.1 p'.1 ∧ p.2 = p'.2) ps ps' → framesLines n ps = framesLines n ps'
  | [], [], _, _ => rfl
  | (f, x) :: ps, (f', x') :: ps', n, h => by
    obtain ⟨⟨hf, hx⟩, hrest⟩ := h
    simp only at hf hx
    subst hx
    have hin : f'.inlines = f.inlines := by rw [hf.rest]
    have htr : f'.trust = f.trust := by rw [hf.rest]
    simp only [framesLines, frameBody_equiv hf, hin, htr, ← inlineLines_equiv hf, ← regLines_equiv hf.ctx,
      framesLines_equiv (n + f.inlines.length + 1) hrest]
  | [], _ :: _, _, h => h.elim
  | _ :: _, [], _, h => h.elim

/-- the same thread up to the iteration order of the validity sets of its frames -/
structure ThreadEquiv (t t' : ThreadM) : Prop where
  rest : t' = { t with frames := t'.frames }
  frames : AllRel FrameEquiv t.frames t'.frames

theorem ThreadEquiv.refl (t : ThreadM) : ThreadEquiv t t := ⟨rfl, AllRel.refl FrameEquiv.refl _⟩

theorem stackLines_equiv {t t' : ThreadM} (h : ThreadEquiv t t') (x : ThreadX) : stackLines t x = stackLines t' x := by
  have he : t'.frames.isEmpty = t.frames.isEmpty := by
    have := h.frames.length
    cases h1 : t.frames <;> cases h2 : t'.frames <;> simp [h1, h2] at this ⊢
  simp only [stackLines, framesLines_equiv 0 (zipD_allRel FrameX.dflt x.frames h.frames), he]

theorem headerText_equiv {t t' : ThreadM} (h : ThreadEquiv t t') (i : Nat) (m : Option Bool) :
    headerText i t m = headerText i t' m := by
  rw [h.rest]; rfl

theorem otherThreadsLines_equiv (req : Option Nat) :
    ∀ {ps ps' : List (ThreadM × ThreadX)} (i : Nat),
      AllRel (fun p p' => ThreadEquiv p.1 p'.1 ∧ p.2 = p'.2) ps ps' →
      otherThreadsLines req i ps = otherThreadsLines req i ps'
  | [], [], _, _ => rfl
  | (t, x) :: ps, (t', x') :: ps', i, h => by
    obtain ⟨⟨ht, hx⟩, hrest⟩ := h
    simp only at ht hx
    subst hx
    simp only [otherThreadsLines, stackLines_equiv ht, headerText_equiv ht, otherThreadsLines_equiv req (i + 1) hrest]
  | [], _ :: _, _, h => h.elim
  | _ :: _, [], _, h => h.elim

theorem certText_congr {c c' : List (String × String)} (h : ∀ k, lookupS k c = lookupS k c') (name : String) :
    certText c name = certText c' name := by
  simp only [certText, h]

theorem moduleLines_congr {s s' : StateModel} (hm : s.modules = s'.modules)
    (hc : ∀ k, lookupS k s.certInfo = lookupS k s'.certInfo) (is : List Nat) :
    moduleLines s is = moduleLines s' is := by
  induction is with
  | nil => rfl
  | cons i rest ih => simp only [moduleLines, moduleLine, hm, certText_congr hc, ih]

theorem unloadedLines_congr {s s' : StateModel} (hu : s.unloaded = s'.unloaded)
    (hc : ∀ k, lookupS k s.certInfo = lookupS k s'.certInfo) (is : List Nat) :
    unloadedLines s is = unloadedLines s' is := by
  induction is with
  | nil => rfl
  | cons i rest ih => simp only [unloadedLines, unloadedLine, hu, certText_congr hc, ih]

theorem requestingLines_equiv {s s' : StateModel} (x : TextExtra)
    (hreq : s.requestingThread = s'.requestingThread) (hexc : s.exc = s'.exc)
    (ht : AllRel ThreadEquiv s.threads s'.threads) : requestingLines s x = requestingLines s' x := by
  unfold requestingLines
  rw [← hreq, ← hexc]
  cases s.requestingThread with
  | none => rfl
  | some i =>
    simp only
    cases h1 : s.threads[i]? with
    | none =>
      have : s'.threads[i]? = none := by
        rw [List.getElem?_eq_none_iff] at h1 ⊢
        rw [← ht.length]; exact h1
      rw [this]
    | some t =>
      obtain ⟨t', h2, hr⟩ := ht.getElem? i t h1
      rw [h2]
      simp only [stackLines_equiv hr, headerText_equiv hr]

/-! ## the bit-flip sort -/

/-- what a bit-flip line shows of an entry -/
def flipShown (f : BitFlip × FlipX) : Option String × Nat × String := (f.1.sourceRegister, f.1.address, f.2.conf3)

theorem flipLines_shown (pw : PW) :
    ∀ (n : Nat) (l l' : List (BitFlip × FlipX)), l.map flipShown = l'.map flipShown →
      flipLines pw n l = flipLines pw n l'
  | _, [], [], _ => rfl
  | n, (b, x) :: l, (b', x') :: l', h => by
    simp only [List.map_cons, List.cons.injEq, flipShown, Prod.mk.injEq] at h
    obtain ⟨⟨h1, h2, h3⟩, hrest⟩ := h
    simp only [flipLines, h1, h2, h3, flipLines_shown pw (n + 1) l l' hrest]
  | _, [], _ :: _, h => by simp at h
  | _, _ :: _, [], h => by simp at h

theorem map_eq_of_key {α κ σ : Type} (key : α → κ) (shown : α → σ) (P : α → Prop)
    (h : ∀ a b, P a → P b → key a = key b → shown a = shown b) :
    ∀ l1 l2 : List α, (∀ a ∈ l1, P a) → (∀ a ∈ l2, P a) → l1.map key = l2.map key →
      l1.map shown = l2.map shown
  | [], [], _, _, _ => rfl
  | a :: l1, b :: l2, h1, h2, hk => by
    simp only [List.map_cons, List.cons.injEq] at hk ⊢
    exact ⟨h a b (h1 a List.mem_cons_self) (h2 b List.mem_cons_self) hk.1,
      map_eq_of_key key shown P h l1 l2 (fun x hx => h1 x (List.mem_cons_of_mem _ hx))
        (fun x hx => h2 x (List.mem_cons_of_mem _ hx)) hk.2⟩
  | [], _ :: _, _, _, hk => by simp at hk
  | _ :: _, [], _, _, hk => by simp at hk

theorem eq_of_nodup_map {α κ : Type} (key : α → κ) :
    ∀ {l : List α}, (l.map key).Nodup → ∀ {a b : α}, a ∈ l → b ∈ l → key a = key b → a = b
  | [], _, _, _, ha, _, _ => by simp at ha
  | x :: l, nd, a, b, ha, hb, hk => by
    simp only [List.map_cons, List.nodup_cons, List.mem_map, not_exists, not_and] at nd
    rcases List.mem_cons.mp ha with rfl | ha' <;> rcases List.mem_cons.mp hb with rfl | hb'
    · rfl
    · exact absurd hk.symm (nd.1 b hb')
    · exact absurd hk (nd.1 a ha')
    · exact eq_of_nodup_map key nd.2 ha' hb' hk

theorem validOrder_keys {fs : List (BitFlip × FlipX)} {o : List Nat} (h : validOrder fs o = true) :
    (o.filterMap (fs[·]?)).map flipKey = (sortFlips fs).map flipKey := by
  simp only [validOrder, Bool.and_eq_true, beq_iff_eq] at h
  exact h.2

theorem mem_filterMap_getElem? {α : Type} {fs : List α} {o : List Nat} {a : α}
    (h : a ∈ o.filterMap (fs[·]?)) : a ∈ fs := by
  simp only [List.mem_filterMap] at h
  obtain ⟨i, _, hi⟩ := h
  exact List.mem_of_getElem? hi

end MdModel.Text
