/-
  Helper lemmas for C15 about `MdModel.Json`: objects as sorted association lists,
  `omapM`/`framesJson` positional facts, digits and hex strings.
-/
import MdModel.Json
namespace MdModel.Json
open MdModel

/-! ## objects -/

theorem getKV_insertKV (k k' : String) (v : Json) (m : List (String × Json)) :
    getKV k' (insertKV k v m) = if k' = k then some v else getKV k' m := by
  induction m with
  | nil => simp [insertKV, getKV]
  | cons h t ih =>
    obtain ⟨hk, hv⟩ := h
    simp only [insertKV]
    split
    · subst_vars
      simp only [getKV]
      split <;> rfl
    · split
      · simp [getKV]
      · simp only [getKV, ih]
        split
        · subst_vars
          split
          · rename_i h1 _ h2; exact absurd h2.symm h1
          · rfl
        · rfl

/-- the last binding of `k` in a literal member list -/
def lookupLast (k : String) : List (String × Json) → Option Json
  | [] => none
  | (k', v) :: r =>
    match lookupLast k r with
    | some x => some x
    | none => if k = k' then some v else none

theorem getKV_foldl (k : String) (kvs acc : List (String × Json)) :
    getKV k (kvs.foldl (fun m kv => insertKV kv.1 kv.2 m) acc) =
      match lookupLast k kvs with
      | some x => some x
      | none => getKV k acc := by
  induction kvs generalizing acc with
  | nil => simp [lookupLast]
  | cons h t ih =>
    obtain ⟨hk, hv⟩ := h
    simp only [List.foldl_cons, ih, lookupLast, getKV_insertKV]
    cases lookupLast k t <;> simp
    split <;> rfl

/-- `json!({…}).get(k)` is the last binding of `k` -/
theorem get_mkObj (k : String) (kvs : List (String × Json)) :
    (mkObj kvs).get k = lookupLast k kvs := by
  simp only [mkObj, Json.get, getKV_foldl, getKV]
  cases lookupLast k kvs <;> rfl

theorem lookupLast_append (k : String) (a b : List (String × Json)) :
    lookupLast k (a ++ b) = match lookupLast k b with
      | some x => some x
      | none => lookupLast k a := by
  induction a with
  | nil => simp [lookupLast]; cases lookupLast k b <;> rfl
  | cons h t ih =>
    obtain ⟨hk, hv⟩ := h
    simp only [List.cons_append, lookupLast, ih]
    cases lookupLast k b <;> simp

/-! ## `omapM` -/

theorem omapM_ok {α β : Type} (f : α → Outcome β) :
    ∀ (xs : List α) (ys : List β), omapM f xs = .ok ys →
      ys.length = xs.length ∧ ∀ (i : Nat) (x : α), xs[i]? = some x → ∃ y, ys[i]? = some y ∧ f x = .ok y := by
  intro xs
  induction xs with
  | nil =>
    intro ys h
    simp only [omapM] at h
    cases h
    simp
  | cons x xs ih =>
    intro ys h
    simp only [omapM, obind] at h
    split at h
    · rename_i y hy
      split at h
      · rename_i ys' hys
        cases h
        obtain ⟨hl, hi⟩ := ih ys' hys
        refine ⟨by simp [hl], ?_⟩
        intro i a ha
        cases i with
        | zero => simp at ha; subst ha; exact ⟨y, by simp, hy⟩
        | succ i => simp at ha; simpa using hi i a ha
      · cases h
    · cases h

theorem omapM_total {α β : Type} (f : α → Outcome β) (xs : List α)
    (h : ∀ x ∈ xs, ∃ y, f x = .ok y) : ∃ ys, omapM f xs = .ok ys := by
  induction xs with
  | nil => exact ⟨[], rfl⟩
  | cons x xs ih =>
    obtain ⟨y, hy⟩ := h x (by simp)
    obtain ⟨ys, hys⟩ := ih (fun a ha => h a (by simp [ha]))
    exact ⟨y :: ys, by simp [omapM, obind, hy, hys]⟩

theorem framesJson_ok (pw : PW) :
    ∀ (fs : List FrameM) (i0 : Nat) (js : List Json), framesJson pw i0 fs = .ok js →
      js.length = fs.length ∧
      ∀ (k : Nat) (f : FrameM), fs[k]? = some f → ∃ j, js[k]? = some j ∧ frameJson pw (i0 + k) f = .ok j := by
  intro fs
  induction fs with
  | nil =>
    intro i0 js h
    simp only [framesJson] at h
    cases h
    simp
  | cons f fs ih =>
    intro i0 js h
    simp only [framesJson, obind] at h
    split at h
    · rename_i j hj
      split at h
      · rename_i js' hjs
        cases h
        obtain ⟨hl, hi⟩ := ih (i0 + 1) js' hjs
        refine ⟨by simp [hl], ?_⟩
        intro k a ha
        cases k with
        | zero => simp at ha; subst ha; exact ⟨j, by simp, by simpa using hj⟩
        | succ k =>
          simp at ha
          obtain ⟨j', h1, h2⟩ := hi k a ha
          exact ⟨j', by simpa using h1, by rw [← h2]; congr 1; omega⟩
      · cases h
    · cases h

theorem framesJson_total (pw : PW) (fs : List FrameM)
    (h : ∀ f ∈ fs, ∀ i, ∃ j, frameJson pw i f = .ok j) : ∀ i0, ∃ js, framesJson pw i0 fs = .ok js := by
  induction fs with
  | nil => intro i0; exact ⟨[], rfl⟩
  | cons f fs ih =>
    intro i0
    obtain ⟨j, hj⟩ := h f (by simp) i0
    obtain ⟨js, hjs⟩ := ih (fun a ha => h a (by simp [ha])) (i0 + 1)
    exact ⟨j :: js, by simp [framesJson, obind, hj, hjs]⟩

/-! ## digits -/

theorem digitChar_dec : ∀ d, d < 10 → isDigit (digitChar d) = true ∧ decVal (digitChar d) = d := by
  decide
theorem digitChar_hex : ∀ d, d < 16 →
    isHexLower (digitChar d) = true ∧ hexVal (digitChar d) = d ∧ (digitChar d = '0' → d = 0) := by
  decide
theorem digitChar_dec0 : ∀ d, d < 10 → (digitChar d = '0' → d = 0) := by decide

theorem valB_snoc (b : Nat) (dv : Char → Nat) (ds : List Char) (c : Char) :
    valB b dv (ds ++ [c]) = valB b dv ds * b + dv c := by
  simp [valB, List.foldl_append]

theorem digitsB_eq (b n : Nat) :
    digitsB b n = if n < b ∨ b < 2 then [digitChar n] else digitsB b (n / b) ++ [digitChar (n % b)] := by
  rw [digitsB]
  split <;> rfl

/-- the digits denote the number -/
theorem valB_digitsB (b : Nat) (dv : Char → Nat) (hb : 2 ≤ b) (hdv : ∀ d, d < b → dv (digitChar d) = d) :
    ∀ n, valB b dv (digitsB b n) = n := by
  intro n
  induction n using Nat.strongRecOn with
  | _ n ih =>
    rw [digitsB_eq]
    split
    · rename_i h
      have : n < b := by omega
      simp [valB, hdv n this]
    · rename_i h
      have hn : ¬ n < b := fun x => h (Or.inl x)
      have hlt : n / b < n := Nat.div_lt_self (by omega) (by omega)
      rw [valB_snoc, ih _ hlt, hdv _ (Nat.mod_lt _ (by omega))]
      exact Nat.div_add_mod' n b

theorem digitsB_all (b : Nat) (P : Char → Bool) (hb : 2 ≤ b) (hP : ∀ d, d < b → P (digitChar d) = true) :
    ∀ n, (digitsB b n).all P = true := by
  intro n
  induction n using Nat.strongRecOn with
  | _ n ih =>
    rw [digitsB_eq]
    split
    · rename_i h
      have : n < b := by omega
      simp [hP n this]
    · rename_i h
      have hn : ¬ n < b := fun x => h (Or.inl x)
      have hlt : n / b < n := Nat.div_lt_self (by omega) (by omega)
      simp only [List.all_append, ih _ hlt, List.all_cons, hP _ (Nat.mod_lt _ (by omega)),
        List.all_nil, Bool.and_self]

/-- first digit: no leading zero except for the number 0 itself -/
theorem digitsB_head (b : Nat) (hb : 2 ≤ b) :
    ∀ n, ∃ d r, digitsB b n = digitChar d :: r ∧ d < b ∧ (d = 0 → n = 0 ∧ r = []) := by
  intro n
  induction n using Nat.strongRecOn with
  | _ n ih =>
    rw [digitsB_eq]
    split
    · rename_i h
      have : n < b := by omega
      exact ⟨n, [], rfl, this, fun h0 => ⟨h0, rfl⟩⟩
    · rename_i h
      have hn : ¬ n < b := fun x => h (Or.inl x)
      have hlt : n / b < n := Nat.div_lt_self (by omega) (by omega)
      obtain ⟨d, r, hd, hdb, h0⟩ := ih _ hlt
      refine ⟨d, r ++ [digitChar (n % b)], by rw [hd]; rfl, hdb, ?_⟩
      intro hd0
      have := (h0 hd0).1
      have : 0 < n / b := Nat.div_pos (by omega) (by omega)
      omega

theorem digitsB_length_le (b : Nat) (hb : 2 ≤ b) :
    ∀ n w, 1 ≤ w → n < b ^ w → (digitsB b n).length ≤ w := by
  intro n
  induction n using Nat.strongRecOn with
  | _ n ih =>
    intro w hw hlt
    rw [digitsB_eq]
    split
    · simpa using hw
    · rename_i h
      have hn : ¬ n < b := fun x => h (Or.inl x)
      have hdl : n / b < n := Nat.div_lt_self (by omega) (by omega)
      cases w with
      | zero => omega
      | succ w =>
        cases w with
        | zero => simp at hlt; omega
        | succ w =>
          have : n / b < b ^ (w + 1) := by
            rw [Nat.div_lt_iff_lt_mul (by omega)]
            rw [Nat.pow_succ] at hlt
            exact hlt
          have := ih _ hdl (w + 1) (by omega) this
          simp only [List.length_append, List.length_cons, List.length_nil]
          omega

theorem digitsB_ne_nil (b n : Nat) : digitsB b n ≠ [] := by
  rw [digitsB_eq]
  split <;> simp

theorem valB_zeros (b : Nat) (dv : Char → Nat) (h0 : dv '0' = 0) (k : Nat) (ds : List Char) :
    valB b dv (List.replicate k '0' ++ ds) = valB b dv ds := by
  induction k with
  | zero => simp
  | succ k ih =>
    simp only [List.replicate_succ, List.cons_append]
    simp only [valB, List.foldl_cons, Nat.zero_mul, h0, Nat.add_zero] at ih ⊢
    exact ih

end MdModel.Json
