/-
  Helper lemmas for C15 about `MdModel.Json`: objects as sorted association lists,
  `omapM`/`framesJson` positional facts, digits and hex strings.
-/
import MdModel.Json
namespace MdModel.Json
open MdModel

/-! ## objects -/

theorem getKV_insertKV (k k' : String) (v : Json) (m : List (String × Json)) :
    getKV k' (insertKV k v m) = if k' = k then some v else getKV k' m := by
  induction m with
  | nil => simp [insertKV, getKV]
  | cons h t ih =>
    obtain ⟨hk, hv⟩ := h
    simp only [insertKV]
    split
    · subst_vars
      simp only [getKV]
      split <;> rfl
    · split
      · simp [getKV]
      · simp only [getKV, ih]
        split
        · subst_vars
          split
          · rename_i h1 _ h2; exact absurd h2.symm h1
          · rfl
        · rfl

/-- the last binding of `k` in a literal member list -/
def lookupLast (k : String) : List (String × Json) → Option Json
  | [] => none
  | (k', v) :: r =>
    match lookupLast k r with
    | some x => some x
    | none => if k = k' then some v else none

theorem getKV_foldl (k : String) (kvs acc : List (String × Json)) :
    getKV k (kvs.foldl (fun m kv => insertKV kv.1 kv.2 m) acc) =
      match lookupLast k kvs with
      | some x => some x
      | none => getKV k acc := by
  induction kvs generalizing acc with
  | nil => simp [lookupLast]
  | cons h t ih =>
    obtain ⟨hk, hv⟩ := h
    simp only [List.foldl_cons, ih, lookupLast, getKV_insertKV]
    cases lookupLast k t <;> simp
    split <;> rfl

/-- `json!({…}).get(k)` is the last binding of `k` -/
theorem get_mkObj (k : String) (kvs : List (String × Json)) :
    (mkObj kvs).get k = lookupLast k kvs := by
  simp only [mkObj, Json.get, getKV_foldl, getKV]
  cases lookupLast k kvs <;> rfl

theorem lookupLast_append (k : String) (a b : List (String × Json)) :
    lookupLast k (a ++ b) = match lookupLast k b with
      | some x => some x
      | none => lookupLast k a := by
  induction a with
  | nil => simp [lookupLast]; cases lookupLast k b <;> rfl
  | cons h t ih =>
    obtain ⟨hk, hv⟩ := h
    simp only [List.cons_append, lookupLast, ih]
    cases lookupLast k b <;> simp

/-! ## `omapM` -/

theorem omapM_ok {α β : Type} (f : α → Outcome β) :
    ∀ (xs : List α) (ys : List β), omapM f xs = .ok ys →
      ys.length = xs.length ∧ ∀ (i : Nat) (x : α), xs[i]? = some x → ∃ y, ys[i]? = some y ∧ f x = .ok y := by
  intro xs
  induction xs with
  | nil =>
    intro ys h
    simp only [omapM] at h
    cases h
    simp
  | cons x xs ih =>
    intro ys h
    simp only [omapM, obind] at h
    split at h
    · rename_i y hy
      split at h
      · rename_i ys' hys
        cases h
        obtain ⟨hl, hi⟩ := ih ys' hys
        refine ⟨by simp [hl], ?_⟩
        intro i a ha
        cases i with
        | zero => simp at ha; subst ha; exact ⟨y, by simp, hy⟩
        | succ i => simp at ha; simpa using hi i a ha
      · cases h
    · cases h

theorem omapM_total {α β : Type} (f : α → Outcome β) (xs : List α)
    (h : ∀ x ∈ xs, ∃ y, f x = .ok y) : ∃ ys, omapM f xs = .ok ys := by
  induction xs with
  | nil => exact ⟨[], rfl⟩
  | cons x xs ih =>
    obtain ⟨y, hy⟩ := h x (by simp)
    obtain ⟨ys, hys⟩ := ih (fun a ha => h a (by simp [ha]))
    exact ⟨y :: ys, by simp [omapM, obind, hy, hys]⟩

theorem framesJson_ok (pw : PW) :
    ∀ (fs : List FrameM) (i0 : Nat) (js : List Json), framesJson pw i0 fs = .ok js →
      js.length = fs.length ∧
      ∀ (k : Nat) (f : FrameM), fs[k]? = some f → ∃ j, js[k]? = some j ∧ frameJson pw (i0 + k) f = .ok j := by
  intro fs
  induction fs with
  | nil =>
    intro i0 js h
    simp only [framesJson] at h
    cases h
    simp
  | cons f fs ih =>
    intro i0 js h
    simp only [framesJson, obind] at h
    split at h
    · rename_i j hj
      split at h
      · rename_i js' hjs
        cases h
        obtain ⟨hl, hi⟩ := ih (i0 + 1) js' hjs
        refine ⟨by simp [hl], ?_⟩
        intro k a ha
        cases k with
        | zero => simp at ha; subst ha; exact ⟨j, by simp, by simpa using hj⟩
        | succ k =>
          simp at ha
          obtain ⟨j', h1, h2⟩ := hi k a ha
          exact ⟨j', by simpa using h1, by rw [← h2]; congr 1; omega⟩
      · cases h
    · cases h

theorem framesJson_total (pw : PW) (fs : List FrameM)
    (h : ∀ f ∈ fs, ∀ i, ∃ j, frameJson pw i f = .ok j) : ∀ i0, ∃ js, framesJson pw i0 fs = .ok js := by
  induction fs with
  | nil => intro i0; exact ⟨[], rfl⟩
  | cons f fs ih =>
    intro i0
    obtain ⟨j, hj⟩ := h f (by simp) i0
    obtain ⟨js, hjs⟩ := ih (fun a ha => h a (by simp [ha])) (i0 + 1)
    exact ⟨j :: js, by simp [framesJson, obind, hj, hjs]⟩

end MdModel.Json
