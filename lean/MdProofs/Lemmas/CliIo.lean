/-
  Helper lemmas for C20's world model (`MdModel.CliIo`): the file-system operations, clean
  (append-position) handles, standard output.
-/
import MdModel.CliIo
namespace MdModel.Cli

/-! ### file system -/

@[simp] theorem Fs.set_entry_same (fs : Fs) (p : Path) (e : Entry) : (fs.set p e).entry p = e := by
  simp [Fs.set]

theorem Fs.set_entry_other (fs : Fs) (p q : Path) (e : Entry) (h : q ≠ p) :
    (fs.set p e).entry q = fs.entry q := by
  simp [Fs.set, h]

@[simp] theorem Fs.set_limit (fs : Fs) (p : Path) (e : Entry) : (fs.set p e).limit = fs.limit := rfl

theorem create_handle {fs fs' : Fs} {p : Path} {h : Handle} (hc : fs.create p = some (fs', h)) :
    h = ⟨p, 0⟩ := by
  unfold Fs.create at hc
  split at hc <;> simp at hc <;> exact hc.2.symm

theorem create_limit {fs fs' : Fs} {p : Path} {h : Handle} (hc : fs.create p = some (fs', h)) :
    fs'.limit = fs.limit := by
  unfold Fs.create at hc
  split at hc <;> simp at hc <;> rw [← hc.1] <;> rfl

theorem create_entry_other {fs fs' : Fs} {p q : Path} {h : Handle} (hc : fs.create p = some (fs', h))
    (hq : q ≠ p) : fs'.entry q = fs.entry q := by
  unfold Fs.create at hc
  split at hc <;> simp at hc <;> rw [← hc.1] <;> first | rfl | exact Fs.set_entry_other _ _ _ _ hq

/-- a path that denotes a regular file or nothing (but creatable) -/
def Regular (fs : Fs) (p : Path) : Prop := (∃ c, fs.entry p = .file c) ∨ fs.entry p = .absent true

/-- `File::create` TRUNCATES: whatever the file held before, it is empty afterwards -/
theorem create_regular {fs : Fs} {p : Path} (hr : Regular fs p) :
    fs.create p = some (fs.set p (.file []), ⟨p, 0⟩) := by
  unfold Fs.create
  rcases hr with ⟨c, hc⟩ | hc <;> rw [hc]

theorem create_some_entry_self {fs fs' : Fs} {p : Path} {h : Handle} (hc : fs.create p = some (fs', h)) :
    fs'.entry p = .file [] ∨ (fs'.entry p = fs.entry p ∧ (fs.entry p = .full ∨ fs.entry p = .null)) := by
  unfold Fs.create at hc
  split at hc <;> simp at hc <;> rw [← hc.1]
  · left; simp
  · left; simp
  · right; simp_all
  · right; simp_all

theorem write_entry_other (fs : Fs) (h : Handle) (bs : Bytes) (q : Path) (hq : q ≠ h.path) :
    (fs.write h bs).1.entry q = fs.entry q := by
  unfold Fs.write
  split <;> try rfl
  dsimp only
  split
  · rfl
  · exact Fs.set_entry_other _ _ _ _ hq

theorem write_limit (fs : Fs) (h : Handle) (bs : Bytes) : (fs.write h bs).1.limit = fs.limit := by
  unfold Fs.write
  split <;> try rfl
  dsimp only
  split <;> rfl

theorem write_path (fs : Fs) (h : Handle) (bs : Bytes) : (fs.write h bs).2.1.path = h.path := by
  unfold Fs.write
  split <;> rfl

theorem writeAt_end (c bs : Bytes) : writeAt c c.length bs = c ++ bs := by
  simp [writeAt]

theorem room_le (lim : Option Nat) (off n : Nat) : room lim off n ≤ n := by
  unfold room; split
  · exact Nat.le_refl _
  · exact Nat.min_le_left _ _

/-- a handle positioned at the end of the regular file it denotes -/
def Clean (fs : Fs) (h : Handle) (c : Bytes) : Prop := fs.entry h.path = .file c ∧ h.off = c.length

theorem clean_create (fs : Fs) (p : Path) :
    Clean (fs.set p (.file [])) ⟨p, 0⟩ [] := by
  simp [Clean]

/-- writing through a clean handle appends the part that fits; success iff everything fitted -/
theorem write_clean {fs : Fs} {h : Handle} {c : Bytes} (hc : Clean fs h c) (bs : Bytes) :
    ∃ k, k ≤ bs.length ∧ Clean (fs.write h bs).1 (fs.write h bs).2.1 (c ++ bs.take k) ∧
      ((fs.write h bs).2.2 = true ↔ k = bs.length) ∧ k = room (fs.limit h.path) h.off bs.length := by
  refine ⟨room (fs.limit h.path) h.off bs.length, room_le _ _ _, ?_, ?_, rfl⟩
  · obtain ⟨he, ho⟩ := hc
    have hle := room_le (fs.limit h.path) h.off bs.length
    unfold Fs.write
    rw [he]
    dsimp only
    by_cases hk : room (fs.limit h.path) h.off bs.length = 0
    · rw [if_pos hk, hk]
      exact ⟨by simpa using he, by simpa using ho⟩
    · rw [if_neg hk]
      refine ⟨?_, ?_⟩
      · show (fs.set h.path _).entry h.path = _
        rw [Fs.set_entry_same, ho, writeAt_end]
      · show h.off + _ = _
        rw [List.length_append, List.length_take, Nat.min_eq_left hle, ho]
  · unfold Fs.write
    rw [hc.1]
    simp

theorem write_clean_ok {fs : Fs} {h : Handle} {c : Bytes} (hc : Clean fs h c) (bs : Bytes)
    (hok : (fs.write h bs).2.2 = true) : Clean (fs.write h bs).1 (fs.write h bs).2.1 (c ++ bs) := by
  obtain ⟨k, _, hcl, hiff, _⟩ := write_clean hc bs
  have := hiff.mp hok
  subst this
  simpa using hcl

theorem write_clean_unlimited {fs : Fs} {h : Handle} {c : Bytes} (hc : Clean fs h c) (bs : Bytes)
    (hl : fs.limit h.path = none) : (fs.write h bs).2.2 = true := by
  obtain ⟨k, _, _, hiff, hk⟩ := write_clean hc bs
  rw [hl] at hk
  exact hiff.mpr (by simpa [room] using hk)

/-- a clean handle stays clean when another path is written or created -/
theorem clean_write_other {fs : Fs} {h g : Handle} {c : Bytes} (hc : Clean fs h c) (bs : Bytes)
    (hne : h.path ≠ g.path) : Clean (fs.write g bs).1 h c :=
  ⟨by rw [write_entry_other _ _ _ _ hne]; exact hc.1, hc.2⟩

theorem clean_create_other {fs fs' : Fs} {h g : Handle} {p : Path} {c : Bytes} (hc : Clean fs h c)
    (hcr : fs.create p = some (fs', g)) (hne : h.path ≠ p) : Clean fs' h c :=
  ⟨by rw [create_entry_other hcr hne]; exact hc.1, hc.2⟩

/-! ### standard output -/

/-- an unbounded descriptor -/
def Stdout.Healthy (s : Stdout) : Prop := s.cap = none

theorem stdout_write_healthy (s : Stdout) (r : Rep) (hs : s.Healthy) :
    (s.write r).2 = none ∧ (s.write r).1.Healthy ∧
      (s.write r).1.out ++ (s.write r).1.buf = s.out ++ s.buf ++ r.bytes := by
  unfold Stdout.Healthy at hs
  have hroom : ∀ n, s.room n = n := by intro n; simp [Stdout.room, hs]
  unfold Stdout.write
  simp only [hroom, if_true]
  refine ⟨trivial, hs, ?_⟩
  simp [List.append_assoc]

theorem stdout_atExit_healthy (s : Stdout) (hs : s.Healthy) :
    s.atExit.out = s.out ++ s.buf := by
  unfold Stdout.Healthy at hs
  simp [Stdout.atExit, Stdout.room, hs]

/-! ### the small steps of `run` -/

@[simp] theorem finish_exit (c : Nat) (w : World) : (finish c w).exit = c := rfl
@[simp] theorem finish_fs (c : Nat) (w : World) : (finish c w).world.fs = w.fs := rfl
@[simp] theorem finish_stderr (c : Nat) (w : World) : (finish c w).world.stderr = w.stderr := rfl
@[simp] theorem finish_stdout (c : Nat) (w : World) : (finish c w).world.stdout = w.stdout.atExit := rfl

@[simp] theorem failWith_other_exit (w : World) : (failWith w .other).exit = 1 := rfl
@[simp] theorem failWith_pipe_exit (w : World) : (failWith w .brokenPipe).exit = 0 := rfl
@[simp] theorem failWith_fs (w : World) (k : ErrKind) : (failWith w k).world.fs = w.fs := by
  cases k <;> rfl
@[simp] theorem failWith_stdout (w : World) (k : ErrKind) :
    (failWith w k).world.stdout = w.stdout.atExit := by
  cases k <;> rfl

@[simp] theorem done_none (w : World) : done w none = finish 0 w := rfl
@[simp] theorem done_some (w : World) (k : ErrKind) : done w (some k) = failWith w k := rfl
@[simp] theorem done_fs (w : World) (e : Option ErrKind) : (done w e).world.fs = w.fs := by
  cases e <;> simp
@[simp] theorem done_stdout (w : World) (e : Option ErrKind) :
    (done w e).world.stdout = w.stdout.atExit := by
  cases e <;> simp

theorem logErr_stdout (render : Diag → Bytes) (cfg : Cfg) (w : World) (lg : Option Handle) (d : Diag) :
    (logErr render cfg w lg d).stdout = w.stdout := by
  unfold logErr; split
  · rfl
  · split <;> rfl

theorem logErr_entry_other (render : Diag → Bytes) (cfg : Cfg) (w : World) (lg : Option Handle) (d : Diag)
    (q : Path) (hq : ∀ h, lg = some h → q ≠ h.path) :
    (logErr render cfg w lg d).fs.entry q = w.fs.entry q := by
  unfold logErr; split
  · rfl
  · split
    · rfl
    · rename_i h
      exact write_entry_other _ _ _ _ (hq h rfl)

theorem logErr_none_fs (render : Diag → Bytes) (cfg : Cfg) (w : World) (d : Diag) :
    (logErr render cfg w none d).fs = w.fs := by
  unfold logErr; split <;> rfl

/-- `openOpt` in one statement -/
theorem openOpt_some {w w' : World} {p : Option Path} {lg : Option Handle} (h : openOpt w p = some (w', lg)) :
    w'.stdout = w.stdout ∧ w'.stderr = w.stderr ∧ w'.fs.limit = w.fs.limit ∧
    lg = p.map (fun q => ⟨q, 0⟩) ∧ (∀ q, p ≠ some q → w'.fs.entry q = w.fs.entry q) ∧
    (p = none → w' = w) := by
  unfold openOpt at h
  cases p with
  | none => simp at h; obtain ⟨rfl, rfl⟩ := h; simp
  | some q =>
    simp only at h
    split at h
    · simp at h
    · rename_i fs' g hc
      simp at h
      obtain ⟨rfl, rfl⟩ := h
      refine ⟨rfl, rfl, create_limit hc, ?_, ?_, by simp⟩
      · simp [create_handle hc]
      · intro x hx
        exact create_entry_other hc (by intro hxq; exact hx (by rw [hxq]))

/-! ### the stages of `run` -/

theorem emitFile_spec {w : World} {h : Handle} {c : Bytes} (hc : Clean w.fs h c) (r : Rep) :
    ∃ k, k ≤ r.bytes.length ∧
      Clean (emitFile w h r).1.fs (emitFile w h r).2.1 (c ++ r.bytes.take k) ∧
      (emitFile w h r).2.2 = (if k = r.bytes.length then none else some .other) ∧
      k = room (w.fs.limit h.path) h.off r.bytes.length := by
  obtain ⟨k, hk, hcl, hiff, hr⟩ := write_clean hc r.bytes
  refine ⟨k, hk, hcl, ?_, hr⟩
  show (if (w.fs.write h r.bytes).2.2 = true then none else some ErrKind.other) = _
  by_cases hkk : k = r.bytes.length
  · rw [if_pos (hiff.mpr hkk), if_pos hkk]
  · rw [if_neg (fun h => hkk (hiff.mp h)), if_neg hkk]

theorem emitFile_frame (w : World) (h : Handle) (r : Rep) :
    (emitFile w h r).1.stdout = w.stdout ∧ (emitFile w h r).1.stderr = w.stderr ∧
    (emitFile w h r).1.fs.limit = w.fs.limit ∧ (emitFile w h r).2.1.path = h.path ∧
    (∀ q, q ≠ h.path → (emitFile w h r).1.fs.entry q = w.fs.entry q) :=
  ⟨rfl, rfl, write_limit _ _ _, write_path _ _ _, fun q hq => write_entry_other _ _ _ _ hq⟩


theorem emit_file (w : World) (h : Handle) (r : Rep) :
    emit w (.file h) r = ((emitFile w h r).1, .file (emitFile w h r).2.1, (emitFile w h r).2.2) := rfl

theorem not_dump_and_cyborg {f : Flags} (hg : groupCount f ≤ 1) (hd : f.dump = true) : f.cyborg = false := by
  obtain ⟨h, j, c, d, b, p⟩ := f
  cases c <;> cases d <;> cases h <;> cases j <;> simp_all [groupCount, b2n]

theorem writeJson_file_exit0 (f : Flags) (reps : Reports) (json : Bool) (cy : Option Handle) (h : Handle)
    (w : World) (c : Bytes) (hc : Clean w.fs h c)
    (hcy : ∀ g, cy = some g → g.path ≠ h.path)
    (h0 : (writeJson f reps json cy (.file h) w).exit = 0) :
    (writeJson f reps json cy (.file h) w).world.fs.entry h.path
      = .file (c ++ (if json && cy.isNone then (jsonRep f reps).bytes else [])) ∧
    (∀ g, cy = some g → Clean w.fs g [] → json = true →
      (writeJson f reps json cy (.file h) w).world.fs.entry g.path = .file (jsonRep f reps).bytes) := by
  unfold writeJson at h0 ⊢
  cases json with
  | false =>
    simp only [Bool.false_eq_true, if_false, finish_fs, Bool.false_and] at h0 ⊢
    exact ⟨by simpa using hc.1, by intro g _ _ hf; exact absurd hf (by simp)⟩
  | true =>
    simp only [if_true] at h0 ⊢
    cases cy with
    | none =>
      simp only [emit_file] at h0 ⊢
      obtain ⟨k, hk, hcl, he, _⟩ := emitFile_spec hc (jsonRep f reps)
      rw [he] at h0 ⊢
      by_cases hkk : k = (jsonRep f reps).bytes.length
      · subst hkk
        simp only [if_true, done_none, finish_fs] at h0 ⊢
        have hp := (emitFile_frame w h (jsonRep f reps)).2.2.2.1
        refine ⟨?_, by intro g hg; cases hg⟩
        rw [← hp, hcl.1]; simp
      · simp [hkk] at h0
    | some g =>
      have hne := hcy g rfl
      simp only at h0 ⊢
      have hfr := emitFile_frame w g (jsonRep f reps)
      refine ⟨?_, ?_⟩
      · rw [done_fs, hfr.2.2.2.2 _ (Ne.symm hne), hc.1]; simp
      · intro g' hg' hcg _
        cases hg'
        obtain ⟨k, hk, hcl, he, _⟩ := emitFile_spec hcg (jsonRep f reps)
        rw [he] at h0
        by_cases hkk : k = (jsonRep f reps).bytes.length
        · subst hkk
          rw [done_fs, ← hfr.2.2.2.1, hcl.1]; simp
        · simp [hkk] at h0

/-- both files open, the primary is a file: status 0 means every due report arrived completely -/
theorem afterOpen_file_exit0 (render : Diag → Bytes) (cfg : Cfg) (inp : Input) (reps : Reports)
    (lg cy : Option Handle) (h : Handle) (w : World)
    (hc : Clean w.fs h [])
    (hcy : ∀ g, cy = some g → g.path ≠ h.path)
    (hcyb : cy.isSome = cfg.flags.cyborg) (hgrp : groupCount cfg.flags ≤ 1)
    (h0 : (afterOpen render cfg inp reps (humanOn cfg.flags) (jsonOn cfg.flags) lg cy (.file h) w).exit = 0) :
    (afterOpen render cfg inp reps (humanOn cfg.flags) (jsonOn cfg.flags) lg cy (.file h) w).world.fs.entry h.path
      = .file (primaryBytes cfg.flags reps) ∧
    (∀ g, cy = some g → Clean w.fs g [] →
      (afterOpen render cfg inp reps (humanOn cfg.flags) (jsonOn cfg.flags) lg cy (.file h) w).world.fs.entry g.path
        = .file (jsonRep cfg.flags reps).bytes) := by
  unfold afterOpen at h0 ⊢
  by_cases hd : cfg.flags.dump = true
  · simp only [hd, if_true, emit_file] at h0 ⊢
    obtain ⟨k, hk, hcl, he, _⟩ := emitFile_spec hc (dumpRep cfg.flags reps)
    rw [he] at h0 ⊢
    by_cases hkk : k = (dumpRep cfg.flags reps).bytes.length
    · subst hkk
      simp only [if_true, done_none, finish_fs] at h0 ⊢
      have hp := (emitFile_frame w h (dumpRep cfg.flags reps)).2.2.2.1
      refine ⟨?_, ?_⟩
      · rw [← hp, hcl.1]; simp [primaryBytes, hd]
      · intro g hg _
        have := not_dump_and_cyborg hgrp hd
        rw [hg] at hcyb; simp [this] at hcyb
    · simp [hkk] at h0
  · have hd' : cfg.flags.dump = false := by simpa using hd
    simp only [hd', Bool.false_eq_true, if_false] at h0 ⊢
    have key : (writeReports cfg.flags reps (humanOn cfg.flags) (jsonOn cfg.flags) cy (.file h) w).exit = 0 →
        (writeReports cfg.flags reps (humanOn cfg.flags) (jsonOn cfg.flags) cy (.file h) w).world.fs.entry h.path
          = .file (primaryBytes cfg.flags reps) ∧
        (∀ g, cy = some g → Clean w.fs g [] →
          (writeReports cfg.flags reps (humanOn cfg.flags) (jsonOn cfg.flags) cy (.file h) w).world.fs.entry g.path
            = .file (jsonRep cfg.flags reps).bytes) := by
      intro h0
      have hjs : ∀ g, cy = some g → jsonOn cfg.flags = true := by
        intro g hg; rw [hg] at hcyb; simp [jsonOn, ← hcyb]
      have hnone : (jsonOn cfg.flags && cy.isNone) = (jsonOn cfg.flags && !cfg.flags.cyborg) := by
        rw [← hcyb]; cases cy <;> simp
      unfold writeReports at h0 ⊢
      cases hh : humanOn cfg.flags with
      | false =>
        simp only [hh, emitIf, Bool.false_eq_true, if_false] at h0 ⊢
        obtain ⟨h1, h2⟩ := writeJson_file_exit0 cfg.flags reps _ cy h w [] hc hcy h0
        refine ⟨?_, fun g hg hcg => h2 g hg hcg (hjs g hg)⟩
        rw [h1, hnone]; simp [primaryBytes, hd', hh]
      | true =>
        simp only [hh, emitIf, if_true, emit_file] at h0 ⊢
        obtain ⟨k, hk, hcl, he, _⟩ := emitFile_spec hc (humanRep cfg.flags reps)
        have hfr := emitFile_frame w h (humanRep cfg.flags reps)
        rw [he] at h0 ⊢
        by_cases hkk : k = (humanRep cfg.flags reps).bytes.length
        · subst hkk
          simp only [if_true] at h0 ⊢
          rw [List.take_length] at hcl
          have hcy' : ∀ g, cy = some g → g.path ≠ (emitFile w h (humanRep cfg.flags reps)).2.1.path := by
            intro g hg
            rw [hfr.2.2.2.1]; exact hcy g hg
          obtain ⟨h1, h2⟩ := writeJson_file_exit0 cfg.flags reps _ cy _ _ _ hcl hcy' h0
          rw [hfr.2.2.2.1] at h1
          refine ⟨?_, fun g hg hcg => h2 g hg
            ⟨by rw [hfr.2.2.2.2 _ (hcy g hg)]; exact hcg.1, hcg.2⟩ (hjs g hg)⟩
          rw [h1, hnone]; simp [primaryBytes, hd', hh]
        · simp [hkk] at h0
    cases inp with
    | unprocessable => simp at h0
    | unreadable => exact key h0
    | ok => exact key h0

theorem regular_of_entry_eq {fs fs' : Fs} {p : Path} (h : fs'.entry p = fs.entry p) (hr : Regular fs p) :
    Regular fs' p := by
  unfold Regular; rw [h]; exact hr

theorem emitReports_file_exit0 (render : Diag → Bytes) (cfg : Cfg) (inp : Input) (reps : Reports)
    (lg : Option Handle) (w : World) (p : Path)
    (hp : cfg.outputFile = some p) (hreg : Regular w.fs p)
    (hcy : cfg.flags.cyborg = true → cfg.cyborgPath ≠ p) (hgrp : groupCount cfg.flags ≤ 1)
    (h0 : (emitReports render cfg inp reps (humanOn cfg.flags) (jsonOn cfg.flags) lg w).exit = 0) :
    (emitReports render cfg inp reps (humanOn cfg.flags) (jsonOn cfg.flags) lg w).world.fs.entry p
      = .file (primaryBytes cfg.flags reps) ∧
    (cfg.flags.cyborg = true → Regular w.fs cfg.cyborgPath →
      (emitReports render cfg inp reps (humanOn cfg.flags) (jsonOn cfg.flags) lg w).world.fs.entry cfg.cyborgPath
        = .file (jsonRep cfg.flags reps).bytes) := by
  unfold emitReports at h0 ⊢
  cases hco : openOpt w (if cfg.flags.cyborg = true then some cfg.cyborgPath else none) with
  | none => rw [hco] at h0; simp at h0
  | some r =>
    obtain ⟨w1, cy⟩ := r
    rw [hco] at h0
    simp only at h0 ⊢
    obtain ⟨_, _, _, hcy', hent, _⟩ := openOpt_some hco
    have hpe : w1.fs.entry p = w.fs.entry p := by
      apply hent
      split
      · rename_i hc; intro he; exact hcy hc (by simpa using he)
      · simp
    have hreg1 : Regular w1.fs p := regular_of_entry_eq hpe hreg
    simp only [hp, openPrimary, create_regular hreg1] at h0 ⊢
    have hcl : Clean (w1.fs.set p (.file [])) ⟨p, 0⟩ [] := clean_create _ _
    have hne : ∀ g, cy = some g → g.path ≠ p := by
      intro g hg
      rw [hg] at hcy'
      by_cases hc : cfg.flags.cyborg = true
      · simp [hc] at hcy'; rw [hcy']; exact hcy hc
      · simp [hc] at hcy'
    have hcyb : cy.isSome = cfg.flags.cyborg := by
      rw [hcy']; cases cfg.flags.cyborg <;> simp
    obtain ⟨h1, h2⟩ := afterOpen_file_exit0 render cfg inp reps lg cy ⟨p, 0⟩
      { w1 with fs := w1.fs.set p (.file []) } hcl hne hcyb hgrp h0
    refine ⟨h1, ?_⟩
    intro hc hrc
    have hcyv : cy = some ⟨cfg.cyborgPath, 0⟩ := by rw [hcy']; simp [hc]
    apply h2 _ hcyv
    -- the cyborg file was created (truncated) first and the creation of the output file left it alone
    have hcreate : w.fs.create cfg.cyborgPath = some (w.fs.set cfg.cyborgPath (.file []), ⟨cfg.cyborgPath, 0⟩) :=
      create_regular hrc
    have hw1 : w1.fs.entry cfg.cyborgPath = .file [] := by
      unfold openOpt at hco
      simp only [hc, if_true, hcreate] at hco
      simp at hco
      rw [← hco.1]; simp
    exact ⟨by
      show (w1.fs.set p (.file [])).entry cfg.cyborgPath = _
      rw [Fs.set_entry_other _ _ _ _ (hcy hc)]; exact hw1, rfl⟩

/-- what an exit status 0 of `run` (without `--help-markdown`) implies about the stages before the
    reports: the options were accepted, the log file (if any) could be created, the dump was
    readable, and the rest is `emitReports` in the world after the log file's creation -/
theorem run_exit0_stages (render : Diag → Bytes) (cfg : Cfg) (inp : Input) (reps : Reports) (w : World)
    (hmd : cfg.helpMarkdown = false) (h0 : (run render cfg inp reps w).exit = 0) :
    groupCount cfg.flags ≤ 1 ∧ inp ≠ .unreadable ∧
    ∃ w0 lg, openOpt w cfg.logFile = some (w0, lg) ∧
      run render cfg inp reps w = emitReports render cfg inp reps (humanOn cfg.flags) (jsonOn cfg.flags) lg w0 := by
  unfold run at h0 ⊢
  simp only [hmd, b2n, Bool.false_eq_true, if_false, Nat.add_zero] at h0 ⊢
  by_cases hg : groupCount cfg.flags > 1
  · simp [hg] at h0
  · simp only [hg, if_false] at h0 ⊢
    refine ⟨by omega, ?_⟩
    cases hlo : openOpt w cfg.logFile with
    | none => rw [hlo] at h0; simp at h0
    | some r =>
      obtain ⟨w0, lg⟩ := r
      rw [hlo] at h0
      simp only at h0 ⊢
      split at h0
      · simp at h0
      · split at h0
        · simp at h0
        · rename_i hpr hbr
          simp only [hpr, hbr, if_false]
          cases inp with
          | unreadable => simp at h0
          | unprocessable => exact ⟨by simp, w0, lg, rfl, rfl⟩
          | ok => exact ⟨by simp, w0, lg, rfl, rfl⟩


/-! ### primary = standard output, unbounded -/

theorem emit_stdout (w : World) (r : Rep) :
    emit w .stdout r = ({ w with stdout := (w.stdout.write r).1 }, .stdout, (w.stdout.write r).2) := rfl

theorem emitFile_stdout (w : World) (h : Handle) (r : Rep) : (emitFile w h r).1.stdout = w.stdout := rfl

/-- all bytes handed to standard output so far -/
def Stdout.total (s : Stdout) : Bytes := s.out ++ s.buf

theorem writeJson_stdout_healthy (f : Flags) (reps : Reports) (json : Bool) (cy : Option Handle)
    (w : World) (hs : w.stdout.Healthy)
    (h0 : (writeJson f reps json cy .stdout w).exit = 0) :
    (writeJson f reps json cy .stdout w).world.stdout.out
      = w.stdout.total ++ (if json && cy.isNone then (jsonRep f reps).bytes else []) ∧
    (∀ g, cy = some g → Clean w.fs g [] → json = true →
      (writeJson f reps json cy .stdout w).world.fs.entry g.path = .file (jsonRep f reps).bytes) := by
  unfold writeJson at h0 ⊢
  cases json with
  | false =>
    simp only [Bool.false_eq_true, if_false, finish_stdout, Bool.false_and] at h0 ⊢
    exact ⟨by simp [stdout_atExit_healthy _ hs, Stdout.total], by intro g _ _ hf; exact absurd hf (by simp)⟩
  | true =>
    simp only [if_true] at h0 ⊢
    cases cy with
    | none =>
      simp only [emit_stdout] at h0 ⊢
      obtain ⟨he, hh, ht⟩ := stdout_write_healthy w.stdout (jsonRep f reps) hs
      refine ⟨?_, by intro g hg; cases hg⟩
      rw [done_stdout]
      simp only
      rw [stdout_atExit_healthy _ hh, ht]; simp [Stdout.total]
    | some g =>
      simp only at h0 ⊢
      refine ⟨?_, ?_⟩
      · rw [done_stdout, emitFile_stdout, stdout_atExit_healthy _ hs]; simp [Stdout.total]
      · intro g' hg' hcg _
        cases hg'
        have hfr := emitFile_frame w g (jsonRep f reps)
        obtain ⟨k, hk, hcl, he, _⟩ := emitFile_spec hcg (jsonRep f reps)
        rw [he] at h0
        by_cases hkk : k = (jsonRep f reps).bytes.length
        · subst hkk
          rw [done_fs, ← hfr.2.2.2.1, hcl.1]; simp
        · simp [hkk] at h0

theorem afterOpen_stdout_healthy_exit0 (render : Diag → Bytes) (cfg : Cfg) (inp : Input) (reps : Reports)
    (lg cy : Option Handle) (w : World) (hs : w.stdout.Healthy)
    (hcyb : cy.isSome = cfg.flags.cyborg) (hgrp : groupCount cfg.flags ≤ 1)
    (h0 : (afterOpen render cfg inp reps (humanOn cfg.flags) (jsonOn cfg.flags) lg cy .stdout w).exit = 0) :
    (afterOpen render cfg inp reps (humanOn cfg.flags) (jsonOn cfg.flags) lg cy .stdout w).world.stdout.out
      = w.stdout.total ++ primaryBytes cfg.flags reps ∧
    (∀ g, cy = some g → Clean w.fs g [] →
      (afterOpen render cfg inp reps (humanOn cfg.flags) (jsonOn cfg.flags) lg cy .stdout w).world.fs.entry g.path
        = .file (jsonRep cfg.flags reps).bytes) := by
  unfold afterOpen at h0 ⊢
  by_cases hd : cfg.flags.dump = true
  · simp only [hd, if_true, emit_stdout] at h0 ⊢
    obtain ⟨he, hh, ht⟩ := stdout_write_healthy w.stdout (dumpRep cfg.flags reps) hs
    refine ⟨?_, ?_⟩
    · rw [done_stdout]; simp only
      rw [stdout_atExit_healthy _ hh, ht]; simp [Stdout.total, primaryBytes, hd]
    · intro g hg _
      have := not_dump_and_cyborg hgrp hd
      rw [hg] at hcyb; simp [this] at hcyb
  · have hd' : cfg.flags.dump = false := by simpa using hd
    simp only [hd', Bool.false_eq_true, if_false] at h0 ⊢
    have key : (writeReports cfg.flags reps (humanOn cfg.flags) (jsonOn cfg.flags) cy .stdout w).exit = 0 →
        (writeReports cfg.flags reps (humanOn cfg.flags) (jsonOn cfg.flags) cy .stdout w).world.stdout.out
          = w.stdout.total ++ primaryBytes cfg.flags reps ∧
        (∀ g, cy = some g → Clean w.fs g [] →
          (writeReports cfg.flags reps (humanOn cfg.flags) (jsonOn cfg.flags) cy .stdout w).world.fs.entry g.path
            = .file (jsonRep cfg.flags reps).bytes) := by
      intro h0
      have hjs : ∀ g, cy = some g → jsonOn cfg.flags = true := by
        intro g hg; rw [hg] at hcyb; simp [jsonOn, ← hcyb]
      have hnone : (jsonOn cfg.flags && cy.isNone) = (jsonOn cfg.flags && !cfg.flags.cyborg) := by
        rw [← hcyb]; cases cy <;> simp
      unfold writeReports at h0 ⊢
      cases hh : humanOn cfg.flags with
      | false =>
        simp only [hh, emitIf, Bool.false_eq_true, if_false] at h0 ⊢
        obtain ⟨h1, h2⟩ := writeJson_stdout_healthy cfg.flags reps _ cy w hs h0
        refine ⟨?_, fun g hg hcg => h2 g hg hcg (hjs g hg)⟩
        rw [h1, hnone]; simp [primaryBytes, hd', hh]
      | true =>
        simp only [hh, emitIf, if_true, emit_stdout] at h0 ⊢
        obtain ⟨he, hhl, ht⟩ := stdout_write_healthy w.stdout (humanRep cfg.flags reps) hs
        rw [he] at h0 ⊢
        simp only at h0 ⊢
        obtain ⟨h1, h2⟩ := writeJson_stdout_healthy cfg.flags reps _ cy
          { w with stdout := (w.stdout.write (humanRep cfg.flags reps)).1 } hhl h0
        refine ⟨?_, fun g hg hcg => h2 g hg hcg (hjs g hg)⟩
        rw [h1, hnone]
        simp only [Stdout.total] at ht ⊢
        rw [ht]; simp [primaryBytes, hd', hh]
    cases inp with
    | unprocessable => simp at h0
    | unreadable => exact key h0
    | ok => exact key h0


theorem emitReports_stdout_healthy_exit0 (render : Diag → Bytes) (cfg : Cfg) (inp : Input) (reps : Reports)
    (lg : Option Handle) (w : World)
    (hp : cfg.outputFile = none) (hs : w.stdout.Healthy) (hgrp : groupCount cfg.flags ≤ 1)
    (h0 : (emitReports render cfg inp reps (humanOn cfg.flags) (jsonOn cfg.flags) lg w).exit = 0) :
    (emitReports render cfg inp reps (humanOn cfg.flags) (jsonOn cfg.flags) lg w).world.stdout.out
      = w.stdout.total ++ primaryBytes cfg.flags reps ∧
    (cfg.flags.cyborg = true → Regular w.fs cfg.cyborgPath →
      (emitReports render cfg inp reps (humanOn cfg.flags) (jsonOn cfg.flags) lg w).world.fs.entry cfg.cyborgPath
        = .file (jsonRep cfg.flags reps).bytes) := by
  unfold emitReports at h0 ⊢
  cases hco : openOpt w (if cfg.flags.cyborg = true then some cfg.cyborgPath else none) with
  | none => rw [hco] at h0; simp at h0
  | some r =>
    obtain ⟨w1, cy⟩ := r
    rw [hco] at h0
    simp only [hp, openPrimary] at h0 ⊢
    obtain ⟨hso, _, _, hcy', hent, _⟩ := openOpt_some hco
    have hs1 : w1.stdout.Healthy := by rw [Stdout.Healthy, hso]; exact hs
    have hcyb : cy.isSome = cfg.flags.cyborg := by
      rw [hcy']; cases cfg.flags.cyborg <;> simp
    obtain ⟨h1, h2⟩ := afterOpen_stdout_healthy_exit0 render cfg inp reps lg cy w1 hs1 hcyb hgrp h0
    refine ⟨by rw [h1, Stdout.total, hso]; rfl, ?_⟩
    intro hc hrc
    have hcyv : cy = some ⟨cfg.cyborgPath, 0⟩ := by rw [hcy']; simp [hc]
    apply h2 _ hcyv
    have hcreate := create_regular hrc
    unfold openOpt at hco
    simp only [hc, if_true, hcreate] at hco
    simp at hco
    exact ⟨by rw [← hco.1]; simp, rfl⟩

end MdModel.Cli
