/-
  Helper lemmas for C20's world model (`MdModel.CliIo`): the file-system operations, clean
  (append-position) handles, standard output.
-/
import MdModel.CliIo
namespace MdModel.Cli

/-! ### file system -/

@[simp] theorem Fs.set_entry_same (fs : Fs) (p : Path) (e : Entry) : (fs.set p e).entry p = e := by
  simp [Fs.set]

theorem Fs.set_entry_other (fs : Fs) (p q : Path) (e : Entry) (h : q ≠ p) :
    (fs.set p e).entry q = fs.entry q := by
  simp [Fs.set, h]

@[simp] theorem Fs.set_limit (fs : Fs) (p : Path) (e : Entry) : (fs.set p e).limit = fs.limit := rfl

theorem create_handle {fs fs' : Fs} {p : Path} {h : Handle} (hc : fs.create p = some (fs', h)) :
    h = ⟨p, 0⟩ := by
  unfold Fs.create at hc
  split at hc <;> simp at hc <;> exact hc.2.symm

theorem create_limit {fs fs' : Fs} {p : Path} {h : Handle} (hc : fs.create p = some (fs', h)) :
    fs'.limit = fs.limit := by
  unfold Fs.create at hc
  split at hc <;> simp at hc <;> rw [← hc.1] <;> rfl

theorem create_entry_other {fs fs' : Fs} {p q : Path} {h : Handle} (hc : fs.create p = some (fs', h))
    (hq : q ≠ p) : fs'.entry q = fs.entry q := by
  unfold Fs.create at hc
  split at hc <;> simp at hc <;> rw [← hc.1] <;> first | rfl | exact Fs.set_entry_other _ _ _ _ hq

/-- a path that denotes a regular file or nothing (but creatable) -/
def Regular (fs : Fs) (p : Path) : Prop := (∃ c, fs.entry p = .file c) ∨ fs.entry p = .absent true

/-- `File::create` TRUNCATES: whatever the file held before, it is empty afterwards -/
theorem create_regular {fs : Fs} {p : Path} (hr : Regular fs p) :
    fs.create p = some (fs.set p (.file []), ⟨p, 0⟩) := by
  unfold Fs.create
  rcases hr with ⟨c, hc⟩ | hc <;> rw [hc]

theorem create_some_entry_self {fs fs' : Fs} {p : Path} {h : Handle} (hc : fs.create p = some (fs', h)) :
    fs'.entry p = .file [] ∨ (fs'.entry p = fs.entry p ∧ (fs.entry p = .full ∨ fs.entry p = .null)) := by
  unfold Fs.create at hc
  split at hc <;> simp at hc <;> rw [← hc.1]
  · left; simp
  · left; simp
  · right; simp_all
  · right; simp_all

theorem write_entry_other (fs : Fs) (h : Handle) (bs : Bytes) (q : Path) (hq : q ≠ h.path) :
    (fs.write h bs).1.entry q = fs.entry q := by
  unfold Fs.write
  split <;> try rfl
  dsimp only
  split
  · rfl
  · exact Fs.set_entry_other _ _ _ _ hq

theorem write_limit (fs : Fs) (h : Handle) (bs : Bytes) : (fs.write h bs).1.limit = fs.limit := by
  unfold Fs.write
  split <;> try rfl
  dsimp only
  split <;> rfl

theorem write_path (fs : Fs) (h : Handle) (bs : Bytes) : (fs.write h bs).2.1.path = h.path := by
  unfold Fs.write
  split <;> rfl

theorem writeAt_end (c bs : Bytes) : writeAt c c.length bs = c ++ bs := by
  simp [writeAt]

theorem room_le (lim : Option Nat) (off n : Nat) : room lim off n ≤ n := by
  unfold room; split
  · exact Nat.le_refl _
  · exact Nat.min_le_left _ _

/-- a handle positioned at the end of the regular file it denotes -/
def Clean (fs : Fs) (h : Handle) (c : Bytes) : Prop := fs.entry h.path = .file c ∧ h.off = c.length

theorem clean_create (fs : Fs) (p : Path) :
    Clean (fs.set p (.file [])) ⟨p, 0⟩ [] := by
  simp [Clean]

/-- writing through a clean handle appends the part that fits; success iff everything fitted -/
theorem write_clean {fs : Fs} {h : Handle} {c : Bytes} (hc : Clean fs h c) (bs : Bytes) :
    ∃ k, k ≤ bs.length ∧ Clean (fs.write h bs).1 (fs.write h bs).2.1 (c ++ bs.take k) ∧
      ((fs.write h bs).2.2 = true ↔ k = bs.length) ∧ k = room (fs.limit h.path) h.off bs.length := by
  refine ⟨room (fs.limit h.path) h.off bs.length, room_le _ _ _, ?_, ?_, rfl⟩
  · obtain ⟨he, ho⟩ := hc
    have hle := room_le (fs.limit h.path) h.off bs.length
    unfold Fs.write
    rw [he]
    dsimp only
    by_cases hk : room (fs.limit h.path) h.off bs.length = 0
    · rw [if_pos hk, hk]
      exact ⟨by simpa using he, by simpa using ho⟩
    · rw [if_neg hk]
      refine ⟨?_, ?_⟩
      · show (fs.set h.path _).entry h.path = _
        rw [Fs.set_entry_same, ho, writeAt_end]
      · show h.off + _ = _
        rw [List.length_append, List.length_take, Nat.min_eq_left hle, ho]
  · unfold Fs.write
    rw [hc.1]
    simp

theorem write_clean_ok {fs : Fs} {h : Handle} {c : Bytes} (hc : Clean fs h c) (bs : Bytes)
    (hok : (fs.write h bs).2.2 = true) : Clean (fs.write h bs).1 (fs.write h bs).2.1 (c ++ bs) := by
  obtain ⟨k, _, hcl, hiff, _⟩ := write_clean hc bs
  have := hiff.mp hok
  subst this
  simpa using hcl

theorem write_clean_unlimited {fs : Fs} {h : Handle} {c : Bytes} (hc : Clean fs h c) (bs : Bytes)
    (hl : fs.limit h.path = none) : (fs.write h bs).2.2 = true := by
  obtain ⟨k, _, _, hiff, hk⟩ := write_clean hc bs
  rw [hl] at hk
  exact hiff.mpr (by simpa [room] using hk)

/-- a clean handle stays clean when another path is written or created -/
theorem clean_write_other {fs : Fs} {h g : Handle} {c : Bytes} (hc : Clean fs h c) (bs : Bytes)
    (hne : h.path ≠ g.path) : Clean (fs.write g bs).1 h c :=
  ⟨by rw [write_entry_other _ _ _ _ hne]; exact hc.1, hc.2⟩

theorem clean_create_other {fs fs' : Fs} {h g : Handle} {p : Path} {c : Bytes} (hc : Clean fs h c)
    (hcr : fs.create p = some (fs', g)) (hne : h.path ≠ p) : Clean fs' h c :=
  ⟨by rw [create_entry_other hcr hne]; exact hc.1, hc.2⟩

/-! ### standard output -/

/-- an unbounded descriptor -/
def Stdout.Healthy (s : Stdout) : Prop := s.cap = none

theorem stdout_write_healthy (s : Stdout) (r : Rep) (hs : s.Healthy) :
    (s.write r).2 = none ∧ (s.write r).1.Healthy ∧
      (s.write r).1.out ++ (s.write r).1.buf = s.out ++ s.buf ++ r.bytes := by
  unfold Stdout.Healthy at hs
  have hroom : ∀ n, s.room n = n := by intro n; simp [Stdout.room, hs]
  unfold Stdout.write
  simp only [hroom, if_true]
  refine ⟨trivial, hs, ?_⟩
  simp [List.append_assoc]

theorem stdout_atExit_healthy (s : Stdout) (hs : s.Healthy) :
    s.atExit.out = s.out ++ s.buf := by
  unfold Stdout.Healthy at hs
  simp [Stdout.atExit, Stdout.room, hs]

/-! ### the small steps of `run` -/

@[simp] theorem finish_exit (c : Nat) (w : World) : (finish c w).exit = c := rfl
@[simp] theorem finish_fs (c : Nat) (w : World) : (finish c w).world.fs = w.fs := rfl
@[simp] theorem finish_stderr (c : Nat) (w : World) : (finish c w).world.stderr = w.stderr := rfl
@[simp] theorem finish_stdout (c : Nat) (w : World) : (finish c w).world.stdout = w.stdout.atExit := rfl

@[simp] theorem failWith_other_exit (w : World) : (failWith w .other).exit = 1 := rfl
@[simp] theorem failWith_pipe_exit (w : World) : (failWith w .brokenPipe).exit = 0 := rfl
@[simp] theorem failWith_fs (w : World) (k : ErrKind) : (failWith w k).world.fs = w.fs := by
  cases k <;> rfl
@[simp] theorem failWith_stdout (w : World) (k : ErrKind) :
    (failWith w k).world.stdout = w.stdout.atExit := by
  cases k <;> rfl

@[simp] theorem done_none (w : World) : done w none = finish 0 w := rfl
@[simp] theorem done_some (w : World) (k : ErrKind) : done w (some k) = failWith w k := rfl
@[simp] theorem done_fs (w : World) (e : Option ErrKind) : (done w e).world.fs = w.fs := by
  cases e <;> simp
@[simp] theorem done_stdout (w : World) (e : Option ErrKind) :
    (done w e).world.stdout = w.stdout.atExit := by
  cases e <;> simp

/-! `output.flush()?` is invisible when the primary is a file or an unbounded standard output -/

@[simp] theorem doneThen_file (w : World) (e : Option ErrKind) (h : Handle) : doneThen w e (.file h) = done w e := by
  cases e <;> rfl

@[simp] theorem finishOk_file (w : World) (h : Handle) : finishOk w (.file h) = finish 0 w := rfl

theorem stdout_flush_healthy (s : Stdout) (hs : s.Healthy) :
    s.flush.2 = none ∧ s.flush.1.atExit = s.atExit := by
  unfold Stdout.Healthy at hs
  have hroom : ∀ n, s.room n = n := by intro n; simp [Stdout.room, hs]
  unfold Stdout.flush
  simp only [hroom, if_true]
  refine ⟨trivial, ?_⟩
  simp [Stdout.atExit, Stdout.room, hs]

theorem finishOk_healthy (w : World) (hs : w.stdout.Healthy) : finishOk w .stdout = finish 0 w := by
  obtain ⟨h1, h2⟩ := stdout_flush_healthy w.stdout hs
  unfold finishOk flushPrimary
  simp only [h1, done_none]
  unfold finish
  simp only [h2]

theorem doneThen_healthy (w : World) (e : Option ErrKind) (hs : w.stdout.Healthy) :
    doneThen w e .stdout = done w e := by
  cases e with
  | none => exact finishOk_healthy w hs
  | some k => rfl

theorem logErr_stdout (render : Diag → Bytes) (cfg : Cfg) (w : World) (lg : Option Handle) (d : Diag) :
    (logErr render cfg w lg d).stdout = w.stdout := by
  unfold logErr; split
  · rfl
  · split <;> rfl

theorem logErr_entry_other (render : Diag → Bytes) (cfg : Cfg) (w : World) (lg : Option Handle) (d : Diag)
    (q : Path) (hq : ∀ h, lg = some h → q ≠ h.path) :
    (logErr render cfg w lg d).fs.entry q = w.fs.entry q := by
  unfold logErr; split
  · rfl
  · split
    · rfl
    · rename_i h
      exact write_entry_other _ _ _ _ (hq h rfl)

theorem logErr_none_fs (render : Diag → Bytes) (cfg : Cfg) (w : World) (d : Diag) :
    (logErr render cfg w none d).fs = w.fs := by
  unfold logErr; split <;> rfl

/-- `openOpt` in one statement -/
theorem openOpt_some {w w' : World} {p : Option Path} {lg : Option Handle} (h : openOpt w p = some (w', lg)) :
    w'.stdout = w.stdout ∧ w'.stderr = w.stderr ∧ w'.fs.limit = w.fs.limit ∧
    lg = p.map (fun q => ⟨q, 0⟩) ∧ (∀ q, p ≠ some q → w'.fs.entry q = w.fs.entry q) ∧
    (p = none → w' = w) := by
  unfold openOpt at h
  cases p with
  | none => simp at h; obtain ⟨rfl, rfl⟩ := h; simp
  | some q =>
    simp only at h
    split at h
    · simp at h
    · rename_i fs' g hc
      simp at h
      obtain ⟨rfl, rfl⟩ := h
      refine ⟨rfl, rfl, create_limit hc, ?_, ?_, by simp⟩
      · simp [create_handle hc]
      · intro x hx
        exact create_entry_other hc (by intro hxq; exact hx (by rw [hxq]))

/-! ### the stages of `run` -/

theorem emitFile_spec {w : World} {h : Handle} {c : Bytes} (hc : Clean w.fs h c) (r : Rep) :
    ∃ k, k ≤ r.bytes.length ∧
      Clean (emitFile w h r).1.fs (emitFile w h r).2.1 (c ++ r.bytes.take k) ∧
      (emitFile w h r).2.2 = (if k = r.bytes.length then none else some .other) ∧
      k = room (w.fs.limit h.path) h.off r.bytes.length := by
  obtain ⟨k, hk, hcl, hiff, hr⟩ := write_clean hc r.bytes
  refine ⟨k, hk, hcl, ?_, hr⟩
  show (if (w.fs.write h r.bytes).2.2 = true then none else some ErrKind.other) = _
  by_cases hkk : k = r.bytes.length
  · rw [if_pos (hiff.mpr hkk), if_pos hkk]
  · rw [if_neg (fun h => hkk (hiff.mp h)), if_neg hkk]

theorem emitFile_frame (w : World) (h : Handle) (r : Rep) :
    (emitFile w h r).1.stdout = w.stdout ∧ (emitFile w h r).1.stderr = w.stderr ∧
    (emitFile w h r).1.fs.limit = w.fs.limit ∧ (emitFile w h r).2.1.path = h.path ∧
    (∀ q, q ≠ h.path → (emitFile w h r).1.fs.entry q = w.fs.entry q) :=
  ⟨rfl, rfl, write_limit _ _ _, write_path _ _ _, fun q hq => write_entry_other _ _ _ _ hq⟩


theorem emit_file (w : World) (h : Handle) (r : Rep) :
    emit w (.file h) r = ((emitFile w h r).1, .file (emitFile w h r).2.1, (emitFile w h r).2.2) := rfl

theorem not_dump_and_cyborg {f : Flags} (hg : groupCount f ≤ 1) (hd : f.dump = true) : f.cyborg = false := by
  obtain ⟨h, j, c, d, b, p⟩ := f
  cases c <;> cases d <;> cases h <;> cases j <;> simp_all [groupCount, b2n]

theorem writeJson_file_exit0 (f : Flags) (reps : Reports) (json : Bool) (cy : Option Handle) (h : Handle)
    (w : World) (c : Bytes) (hc : Clean w.fs h c)
    (hcy : ∀ g, cy = some g → g.path ≠ h.path)
    (h0 : (writeJson f reps json cy (.file h) w).exit = 0) :
    (writeJson f reps json cy (.file h) w).world.fs.entry h.path
      = .file (c ++ (if json && cy.isNone then (jsonRep f reps).bytes else [])) ∧
    (∀ g, cy = some g → Clean w.fs g [] → json = true →
      (writeJson f reps json cy (.file h) w).world.fs.entry g.path = .file (jsonRep f reps).bytes) := by
  unfold writeJson at h0 ⊢
  cases json with
  | false =>
    simp only [Bool.false_eq_true, if_false, finish_fs, Bool.false_and] at h0 ⊢
    exact ⟨by simpa using hc.1, by intro g _ _ hf; exact absurd hf (by simp)⟩
  | true =>
    simp only [if_true] at h0 ⊢
    cases cy with
    | none =>
      simp only [emit_file, doneThen_file] at h0 ⊢
      obtain ⟨k, hk, hcl, he, _⟩ := emitFile_spec hc (jsonRep f reps)
      rw [he] at h0 ⊢
      by_cases hkk : k = (jsonRep f reps).bytes.length
      · subst hkk
        simp only [if_true, done_none, finish_fs] at h0 ⊢
        have hp := (emitFile_frame w h (jsonRep f reps)).2.2.2.1
        refine ⟨?_, by intro g hg; cases hg⟩
        rw [← hp, hcl.1]; simp
      · simp [hkk] at h0
    | some g =>
      have hne := hcy g rfl
      simp only [doneThen_file] at h0 ⊢
      have hfr := emitFile_frame w g (jsonRep f reps)
      refine ⟨?_, ?_⟩
      · rw [done_fs, hfr.2.2.2.2 _ (Ne.symm hne), hc.1]; simp
      · intro g' hg' hcg _
        cases hg'
        obtain ⟨k, hk, hcl, he, _⟩ := emitFile_spec hcg (jsonRep f reps)
        rw [he] at h0
        by_cases hkk : k = (jsonRep f reps).bytes.length
        · subst hkk
          rw [done_fs, ← hfr.2.2.2.1, hcl.1]; simp
        · simp [hkk] at h0

/-- both files open, the primary is a file: status 0 means every due report arrived completely -/
theorem afterOpen_file_exit0 (render : Diag → Bytes) (cfg : Cfg) (inp : Input) (reps : Reports)
    (lg cy : Option Handle) (h : Handle) (w : World)
    (hc : Clean w.fs h [])
    (hcy : ∀ g, cy = some g → g.path ≠ h.path)
    (hcyb : cy.isSome = cfg.flags.cyborg) (hgrp : groupCount cfg.flags ≤ 1)
    (h0 : (afterOpen render cfg inp reps (humanOn cfg.flags) (jsonOn cfg.flags) lg cy (.file h) w).exit = 0) :
    (afterOpen render cfg inp reps (humanOn cfg.flags) (jsonOn cfg.flags) lg cy (.file h) w).world.fs.entry h.path
      = .file (primaryBytes cfg.flags reps) ∧
    (∀ g, cy = some g → Clean w.fs g [] →
      (afterOpen render cfg inp reps (humanOn cfg.flags) (jsonOn cfg.flags) lg cy (.file h) w).world.fs.entry g.path
        = .file (jsonRep cfg.flags reps).bytes) := by
  unfold afterOpen at h0 ⊢
  by_cases hd : cfg.flags.dump = true
  · simp only [hd, if_true, emit_file, doneThen_file] at h0 ⊢
    obtain ⟨k, hk, hcl, he, _⟩ := emitFile_spec hc (dumpRep cfg.flags reps)
    rw [he] at h0 ⊢
    by_cases hkk : k = (dumpRep cfg.flags reps).bytes.length
    · subst hkk
      simp only [if_true, done_none, finish_fs] at h0 ⊢
      have hp := (emitFile_frame w h (dumpRep cfg.flags reps)).2.2.2.1
      refine ⟨?_, ?_⟩
      · rw [← hp, hcl.1]; simp [primaryBytes, hd]
      · intro g hg _
        have := not_dump_and_cyborg hgrp hd
        rw [hg] at hcyb; simp [this] at hcyb
    · simp [hkk] at h0
  · have hd' : cfg.flags.dump = false := by simpa using hd
    simp only [hd', Bool.false_eq_true, if_false] at h0 ⊢
    have key : (writeReports cfg.flags reps (humanOn cfg.flags) (jsonOn cfg.flags) cy (.file h) w).exit = 0 →
        (writeReports cfg.flags reps (humanOn cfg.flags) (jsonOn cfg.flags) cy (.file h) w).world.fs.entry h.path
          = .file (primaryBytes cfg.flags reps) ∧
        (∀ g, cy = some g → Clean w.fs g [] →
          (writeReports cfg.flags reps (humanOn cfg.flags) (jsonOn cfg.flags) cy (.file h) w).world.fs.entry g.path
            = .file (jsonRep cfg.flags reps).bytes) := by
      intro h0
      have hjs : ∀ g, cy = some g → jsonOn cfg.flags = true := by
        intro g hg; rw [hg] at hcyb; simp [jsonOn, ← hcyb]
      have hnone : (jsonOn cfg.flags && cy.isNone) = (jsonOn cfg.flags && !cfg.flags.cyborg) := by
        rw [← hcyb]; cases cy <;> simp
      unfold writeReports at h0 ⊢
      cases hh : humanOn cfg.flags with
      | false =>
        simp only [hh, emitIf, Bool.false_eq_true, if_false] at h0 ⊢
        obtain ⟨h1, h2⟩ := writeJson_file_exit0 cfg.flags reps _ cy h w [] hc hcy h0
        refine ⟨?_, fun g hg hcg => h2 g hg hcg (hjs g hg)⟩
        rw [h1, hnone]; simp [primaryBytes, hd', hh]
      | true =>
        simp only [hh, emitIf, if_true, emit_file] at h0 ⊢
        obtain ⟨k, hk, hcl, he, _⟩ := emitFile_spec hc (humanRep cfg.flags reps)
        have hfr := emitFile_frame w h (humanRep cfg.flags reps)
        rw [he] at h0 ⊢
        by_cases hkk : k = (humanRep cfg.flags reps).bytes.length
        · subst hkk
          simp only [if_true] at h0 ⊢
          rw [List.take_length] at hcl
          have hcy' : ∀ g, cy = some g → g.path ≠ (emitFile w h (humanRep cfg.flags reps)).2.1.path := by
            intro g hg
            rw [hfr.2.2.2.1]; exact hcy g hg
          obtain ⟨h1, h2⟩ := writeJson_file_exit0 cfg.flags reps _ cy _ _ _ hcl hcy' h0
          rw [hfr.2.2.2.1] at h1
          refine ⟨?_, fun g hg hcg => h2 g hg
            ⟨by rw [hfr.2.2.2.2 _ (hcy g hg)]; exact hcg.1, hcg.2⟩ (hjs g hg)⟩
          rw [h1, hnone]; simp [primaryBytes, hd', hh]
        · simp [hkk] at h0
    cases inp with
    | unprocessable => simp at h0
    | unreadable =>
      by_cases hl : cfg.localUnsupported = true
      · simp [hl] at h0
      · simp only [hl, if_false] at h0 ⊢; exact key h0
    | ok =>
      by_cases hl : cfg.localUnsupported = true
      · simp [hl] at h0
      · simp only [hl, if_false] at h0 ⊢; exact key h0

theorem regular_of_entry_eq {fs fs' : Fs} {p : Path} (h : fs'.entry p = fs.entry p) (hr : Regular fs p) :
    Regular fs' p := by
  unfold Regular; rw [h]; exact hr

theorem emitReports_file_exit0 (render : Diag → Bytes) (cfg : Cfg) (inp : Input) (reps : Reports)
    (lg : Option Handle) (w : World) (p : Path)
    (hp : cfg.outputFile = some p) (hreg : Regular w.fs p)
    (hcy : cfg.flags.cyborg = true → cfg.cyborgPath ≠ p) (hgrp : groupCount cfg.flags ≤ 1)
    (h0 : (emitReports render cfg inp reps (humanOn cfg.flags) (jsonOn cfg.flags) lg w).exit = 0) :
    (emitReports render cfg inp reps (humanOn cfg.flags) (jsonOn cfg.flags) lg w).world.fs.entry p
      = .file (primaryBytes cfg.flags reps) ∧
    (cfg.flags.cyborg = true → Regular w.fs cfg.cyborgPath →
      (emitReports render cfg inp reps (humanOn cfg.flags) (jsonOn cfg.flags) lg w).world.fs.entry cfg.cyborgPath
        = .file (jsonRep cfg.flags reps).bytes) := by
  unfold emitReports at h0 ⊢
  cases hco : openOpt w (if cfg.flags.cyborg = true then some cfg.cyborgPath else none) with
  | none => rw [hco] at h0; simp at h0
  | some r =>
    obtain ⟨w1, cy⟩ := r
    rw [hco] at h0
    simp only at h0 ⊢
    obtain ⟨_, _, _, hcy', hent, _⟩ := openOpt_some hco
    have hpe : w1.fs.entry p = w.fs.entry p := by
      apply hent
      split
      · rename_i hc; intro he; exact hcy hc (by simpa using he)
      · simp
    have hreg1 : Regular w1.fs p := regular_of_entry_eq hpe hreg
    simp only [hp, openPrimary, create_regular hreg1] at h0 ⊢
    have hcl : Clean (w1.fs.set p (.file [])) ⟨p, 0⟩ [] := clean_create _ _
    have hne : ∀ g, cy = some g → g.path ≠ p := by
      intro g hg
      rw [hg] at hcy'
      by_cases hc : cfg.flags.cyborg = true
      · simp [hc] at hcy'; rw [hcy']; exact hcy hc
      · simp [hc] at hcy'
    have hcyb : cy.isSome = cfg.flags.cyborg := by
      rw [hcy']; cases cfg.flags.cyborg <;> simp
    obtain ⟨h1, h2⟩ := afterOpen_file_exit0 render cfg inp reps lg cy ⟨p, 0⟩
      { w1 with fs := w1.fs.set p (.file []) } hcl hne hcyb hgrp h0
    refine ⟨h1, ?_⟩
    intro hc hrc
    have hcyv : cy = some ⟨cfg.cyborgPath, 0⟩ := by rw [hcy']; simp [hc]
    apply h2 _ hcyv
    -- the cyborg file was created (truncated) first and the creation of the output file left it alone
    have hcreate : w.fs.create cfg.cyborgPath = some (w.fs.set cfg.cyborgPath (.file []), ⟨cfg.cyborgPath, 0⟩) :=
      create_regular hrc
    have hw1 : w1.fs.entry cfg.cyborgPath = .file [] := by
      unfold openOpt at hco
      simp only [hc, if_true, hcreate] at hco
      simp at hco
      rw [← hco.1]; simp
    exact ⟨by
      show (w1.fs.set p (.file [])).entry cfg.cyborgPath = _
      rw [Fs.set_entry_other _ _ _ _ (hcy hc)]; exact hw1, rfl⟩

/-- what an exit status 0 of `run` (without `--help-markdown`) implies about the stages before the
    reports: the options were accepted, the log file (if any) could be created, the dump was
    readable, and the rest is `emitReports` in the world after the log file's creation -/
theorem run_exit0_stages (render : Diag → Bytes) (cfg : Cfg) (inp : Input) (reps : Reports) (w : World)
    (hmd : cfg.helpMarkdown = false) (h0 : (run render cfg inp reps w).exit = 0) :
    groupCount cfg.flags ≤ 1 ∧ inp ≠ .unreadable ∧
    ∃ w0 lg, openOpt w cfg.logFile = some (w0, lg) ∧
      run render cfg inp reps w = emitReports render cfg inp reps (humanOn cfg.flags) (jsonOn cfg.flags) lg w0 := by
  unfold run at h0 ⊢
  simp only [hmd, b2n, Bool.false_eq_true, if_false, Nat.add_zero] at h0 ⊢
  by_cases hg : groupCount cfg.flags > 1
  · simp [hg] at h0
  · simp only [hg, if_false] at h0 ⊢
    refine ⟨by omega, ?_⟩
    cases hlo : openOpt w cfg.logFile with
    | none => rw [hlo] at h0; simp at h0
    | some r =>
      obtain ⟨w0, lg⟩ := r
      rw [hlo] at h0
      simp only at h0 ⊢
      split at h0
      · simp at h0
      · split at h0
        · simp at h0
        · rename_i hpr hbr
          simp only [hpr, hbr, if_false]
          cases inp with
          | unreadable => simp at h0
          | unprocessable => exact ⟨by simp, w0, lg, rfl, rfl⟩
          | ok => exact ⟨by simp, w0, lg, rfl, rfl⟩


/-! ### primary = standard output, unbounded -/

theorem emit_stdout (w : World) (r : Rep) :
    emit w .stdout r = ({ w with stdout := (w.stdout.write r).1 }, .stdout, (w.stdout.write r).2) := rfl

theorem emitFile_stdout (w : World) (h : Handle) (r : Rep) : (emitFile w h r).1.stdout = w.stdout := rfl

/-- all bytes handed to standard output so far -/
def Stdout.total (s : Stdout) : Bytes := s.out ++ s.buf

theorem writeJson_stdout_healthy (f : Flags) (reps : Reports) (json : Bool) (cy : Option Handle)
    (w : World) (hs : w.stdout.Healthy)
    (h0 : (writeJson f reps json cy .stdout w).exit = 0) :
    (writeJson f reps json cy .stdout w).world.stdout.out
      = w.stdout.total ++ (if json && cy.isNone then (jsonRep f reps).bytes else []) ∧
    (∀ g, cy = some g → Clean w.fs g [] → json = true →
      (writeJson f reps json cy .stdout w).world.fs.entry g.path = .file (jsonRep f reps).bytes) := by
  unfold writeJson at h0 ⊢
  cases json with
  | false =>
    simp only [Bool.false_eq_true, if_false, finishOk_healthy w hs, finish_stdout, Bool.false_and] at h0 ⊢
    exact ⟨by simp [stdout_atExit_healthy _ hs, Stdout.total], by intro g _ _ hf; exact absurd hf (by simp)⟩
  | true =>
    simp only [if_true] at h0 ⊢
    cases cy with
    | none =>
      simp only [emit_stdout] at h0 ⊢
      obtain ⟨he, hh, ht⟩ := stdout_write_healthy w.stdout (jsonRep f reps) hs
      rw [doneThen_healthy _ _ (show (World.mk w.fs (w.stdout.write (jsonRep f reps)).1 w.stderr).stdout.Healthy from hh)] at h0 ⊢
      refine ⟨?_, by intro g hg; cases hg⟩
      rw [done_stdout]
      simp only
      rw [stdout_atExit_healthy _ hh, ht]; simp [Stdout.total]
    | some g =>
      simp only at h0 ⊢
      rw [doneThen_healthy _ _ (show (emitFile w g (jsonRep f reps)).1.stdout.Healthy from hs)] at h0 ⊢
      refine ⟨?_, ?_⟩
      · rw [done_stdout, emitFile_stdout, stdout_atExit_healthy _ hs]; simp [Stdout.total]
      · intro g' hg' hcg _
        cases hg'
        have hfr := emitFile_frame w g (jsonRep f reps)
        obtain ⟨k, hk, hcl, he, _⟩ := emitFile_spec hcg (jsonRep f reps)
        rw [he] at h0
        by_cases hkk : k = (jsonRep f reps).bytes.length
        · subst hkk
          rw [done_fs, ← hfr.2.2.2.1, hcl.1]; simp
        · simp [hkk] at h0

theorem afterOpen_stdout_healthy_exit0 (render : Diag → Bytes) (cfg : Cfg) (inp : Input) (reps : Reports)
    (lg cy : Option Handle) (w : World) (hs : w.stdout.Healthy)
    (hcyb : cy.isSome = cfg.flags.cyborg) (hgrp : groupCount cfg.flags ≤ 1)
    (h0 : (afterOpen render cfg inp reps (humanOn cfg.flags) (jsonOn cfg.flags) lg cy .stdout w).exit = 0) :
    (afterOpen render cfg inp reps (humanOn cfg.flags) (jsonOn cfg.flags) lg cy .stdout w).world.stdout.out
      = w.stdout.total ++ primaryBytes cfg.flags reps ∧
    (∀ g, cy = some g → Clean w.fs g [] →
      (afterOpen render cfg inp reps (humanOn cfg.flags) (jsonOn cfg.flags) lg cy .stdout w).world.fs.entry g.path
        = .file (jsonRep cfg.flags reps).bytes) := by
  unfold afterOpen at h0 ⊢
  by_cases hd : cfg.flags.dump = true
  · simp only [hd, if_true, emit_stdout] at h0 ⊢
    obtain ⟨he, hh, ht⟩ := stdout_write_healthy w.stdout (dumpRep cfg.flags reps) hs
    rw [doneThen_healthy _ _ (show (World.mk w.fs (w.stdout.write (dumpRep cfg.flags reps)).1 w.stderr).stdout.Healthy from hh)] at h0 ⊢
    refine ⟨?_, ?_⟩
    · rw [done_stdout]; simp only
      rw [stdout_atExit_healthy _ hh, ht]; simp [Stdout.total, primaryBytes, hd]
    · intro g hg _
      have := not_dump_and_cyborg hgrp hd
      rw [hg] at hcyb; simp [this] at hcyb
  · have hd' : cfg.flags.dump = false := by simpa using hd
    simp only [hd', Bool.false_eq_true, if_false] at h0 ⊢
    have key : (writeReports cfg.flags reps (humanOn cfg.flags) (jsonOn cfg.flags) cy .stdout w).exit = 0 →
        (writeReports cfg.flags reps (humanOn cfg.flags) (jsonOn cfg.flags) cy .stdout w).world.stdout.out
          = w.stdout.total ++ primaryBytes cfg.flags reps ∧
        (∀ g, cy = some g → Clean w.fs g [] →
          (writeReports cfg.flags reps (humanOn cfg.flags) (jsonOn cfg.flags) cy .stdout w).world.fs.entry g.path
            = .file (jsonRep cfg.flags reps).bytes) := by
      intro h0
      have hjs : ∀ g, cy = some g → jsonOn cfg.flags = true := by
        intro g hg; rw [hg] at hcyb; simp [jsonOn, ← hcyb]
      have hnone : (jsonOn cfg.flags && cy.isNone) = (jsonOn cfg.flags && !cfg.flags.cyborg) := by
        rw [← hcyb]; cases cy <;> simp
      unfold writeReports at h0 ⊢
      cases hh : humanOn cfg.flags with
      | false =>
        simp only [hh, emitIf, Bool.false_eq_true, if_false] at h0 ⊢
        obtain ⟨h1, h2⟩ := writeJson_stdout_healthy cfg.flags reps _ cy w hs h0
        refine ⟨?_, fun g hg hcg => h2 g hg hcg (hjs g hg)⟩
        rw [h1, hnone]; simp [primaryBytes, hd', hh]
      | true =>
        simp only [hh, emitIf, if_true, emit_stdout] at h0 ⊢
        obtain ⟨he, hhl, ht⟩ := stdout_write_healthy w.stdout (humanRep cfg.flags reps) hs
        rw [he] at h0 ⊢
        simp only at h0 ⊢
        obtain ⟨h1, h2⟩ := writeJson_stdout_healthy cfg.flags reps _ cy
          { w with stdout := (w.stdout.write (humanRep cfg.flags reps)).1 } hhl h0
        refine ⟨?_, fun g hg hcg => h2 g hg hcg (hjs g hg)⟩
        rw [h1, hnone]
        simp only [Stdout.total] at ht ⊢
        rw [ht]; simp [primaryBytes, hd', hh]
    cases inp with
    | unprocessable => simp at h0
    | unreadable =>
      by_cases hl : cfg.localUnsupported = true
      · simp [hl] at h0
      · simp only [hl, if_false] at h0 ⊢; exact key h0
    | ok =>
      by_cases hl : cfg.localUnsupported = true
      · simp [hl] at h0
      · simp only [hl, if_false] at h0 ⊢; exact key h0


theorem emitReports_stdout_healthy_exit0 (render : Diag → Bytes) (cfg : Cfg) (inp : Input) (reps : Reports)
    (lg : Option Handle) (w : World)
    (hp : cfg.outputFile = none) (hs : w.stdout.Healthy) (hgrp : groupCount cfg.flags ≤ 1)
    (h0 : (emitReports render cfg inp reps (humanOn cfg.flags) (jsonOn cfg.flags) lg w).exit = 0) :
    (emitReports render cfg inp reps (humanOn cfg.flags) (jsonOn cfg.flags) lg w).world.stdout.out
      = w.stdout.total ++ primaryBytes cfg.flags reps ∧
    (cfg.flags.cyborg = true → Regular w.fs cfg.cyborgPath →
      (emitReports render cfg inp reps (humanOn cfg.flags) (jsonOn cfg.flags) lg w).world.fs.entry cfg.cyborgPath
        = .file (jsonRep cfg.flags reps).bytes) := by
  unfold emitReports at h0 ⊢
  cases hco : openOpt w (if cfg.flags.cyborg = true then some cfg.cyborgPath else none) with
  | none => rw [hco] at h0; simp at h0
  | some r =>
    obtain ⟨w1, cy⟩ := r
    rw [hco] at h0
    simp only [hp, openPrimary] at h0 ⊢
    obtain ⟨hso, _, _, hcy', hent, _⟩ := openOpt_some hco
    have hs1 : w1.stdout.Healthy := by rw [Stdout.Healthy, hso]; exact hs
    have hcyb : cy.isSome = cfg.flags.cyborg := by
      rw [hcy']; cases cfg.flags.cyborg <;> simp
    obtain ⟨h1, h2⟩ := afterOpen_stdout_healthy_exit0 render cfg inp reps lg cy w1 hs1 hcyb hgrp h0
    refine ⟨by rw [h1, Stdout.total, hso]; rfl, ?_⟩
    intro hc hrc
    have hcyv : cy = some ⟨cfg.cyborgPath, 0⟩ := by rw [hcy']; simp [hc]
    apply h2 _ hcyv
    have hcreate := create_regular hrc
    unfold openOpt at hco
    simp only [hc, if_true, hcreate] at hco
    simp at hco
    exact ⟨by rw [← hco.1]; simp, rfl⟩

/-! ### what a failing run leaves behind -/

theorem take_append_left_le {α} (a b : List α) (k : Nat) (hk : k ≤ a.length) : (a ++ b).take k = a.take k := by
  rw [List.take_append_of_le_length hk]

theorem take_len_add {α} (a b : List α) (k : Nat) : (a ++ b).take (a.length + k) = a ++ b.take k := by
  rw [List.take_append]
  rw [List.take_of_length_le (by omega)]
  congr 2
  omega

/-- `writeJson`, primary = clean file: whatever the status, the primary holds `c` followed by a prefix of
    the JSON report that was due on it; the prefix is empty or complete unless the file is size-limited -/
theorem writeJson_file_any (f : Flags) (reps : Reports) (json : Bool) (cy : Option Handle) (h : Handle)
    (w : World) (c : Bytes) (hc : Clean w.fs h c) (hcy : ∀ g, cy = some g → g.path ≠ h.path) :
    ∃ k, (writeJson f reps json cy (.file h) w).world.fs.entry h.path
        = .file (c ++ (if json && cy.isNone then (jsonRep f reps).bytes else []).take k) ∧
      ((writeJson f reps json cy (.file h) w).exit ≠ 0 → w.fs.limit h.path = none → cy.isSome) := by
  unfold writeJson
  cases json with
  | false =>
    refine ⟨0, ?_, ?_⟩
    · simpa using hc.1
    · simp
  | true =>
    simp only [if_true]
    cases cy with
    | none =>
      simp only [emit_file, doneThen_file]
      obtain ⟨k, hk, hcl, he, hr⟩ := emitFile_spec hc (jsonRep f reps)
      have hp := (emitFile_frame w h (jsonRep f reps)).2.2.2.1
      refine ⟨k, ?_, ?_⟩
      · rw [done_fs, ← hp, hcl.1]; simp
      · rw [he]
        intro hne hlim
        rw [hlim] at hr
        simp [room] at hr
        simp [hr] at hne
    | some g =>
      have hne := hcy g rfl
      have hfr := emitFile_frame w g (jsonRep f reps)
      simp only [doneThen_file]
      refine ⟨0, ?_, by simp⟩
      rw [done_fs, hfr.2.2.2.2 _ (Ne.symm hne), hc.1]; simp


/-- both files open, the primary is a clean file: WHATEVER the exit status, the primary holds a prefix
    of the bytes due on it. If the status is not 0 and the primary is not size-limited, that prefix
    is empty — or, in cyborg mode only, the complete human report (the JSON write failed afterwards). -/
theorem afterOpen_file_any (render : Diag → Bytes) (cfg : Cfg) (inp : Input) (reps : Reports)
    (lg cy : Option Handle) (h : Handle) (w : World)
    (hc : Clean w.fs h [])
    (hcy : ∀ g, cy = some g → g.path ≠ h.path) (hlg : ∀ g, lg = some g → g.path ≠ h.path)
    (hcyb : cy.isSome = cfg.flags.cyborg) :
    ∃ k, (afterOpen render cfg inp reps (humanOn cfg.flags) (jsonOn cfg.flags) lg cy (.file h) w).world.fs.entry h.path
        = .file ((primaryBytes cfg.flags reps).take k) ∧
      ((afterOpen render cfg inp reps (humanOn cfg.flags) (jsonOn cfg.flags) lg cy (.file h) w).exit ≠ 0 →
        w.fs.limit h.path = none →
        k = 0 ∨ (cfg.flags.cyborg = true ∧ (primaryBytes cfg.flags reps).take k = (humanRep cfg.flags reps).bytes)) := by
  unfold afterOpen
  by_cases hd : cfg.flags.dump = true
  · simp only [hd, if_true, emit_file, doneThen_file]
    obtain ⟨k, hk, hcl, he, hr⟩ := emitFile_spec hc (dumpRep cfg.flags reps)
    have hp := (emitFile_frame w h (dumpRep cfg.flags reps)).2.2.2.1
    refine ⟨k, ?_, ?_⟩
    · rw [done_fs, ← hp, hcl.1]; simp [primaryBytes, hd]
    · rw [he]
      intro hne hlim
      rw [hlim] at hr
      simp [room] at hr
      simp [hr] at hne
  · have hd' : cfg.flags.dump = false := by simpa using hd
    simp only [hd', Bool.false_eq_true, if_false]
    have hnone : (jsonOn cfg.flags && cy.isNone) = (jsonOn cfg.flags && !cfg.flags.cyborg) := by
      rw [← hcyb]; cases cy <;> simp
    have key : ∃ k, (writeReports cfg.flags reps (humanOn cfg.flags) (jsonOn cfg.flags) cy (.file h) w).world.fs.entry h.path
          = .file ((primaryBytes cfg.flags reps).take k) ∧
        ((writeReports cfg.flags reps (humanOn cfg.flags) (jsonOn cfg.flags) cy (.file h) w).exit ≠ 0 →
          w.fs.limit h.path = none →
          k = 0 ∨ (cfg.flags.cyborg = true ∧ (primaryBytes cfg.flags reps).take k = (humanRep cfg.flags reps).bytes)) := by
      unfold writeReports
      cases hh : humanOn cfg.flags with
      | false =>
        simp only [emitIf, Bool.false_eq_true, if_false]
        obtain ⟨k, h1, h2⟩ := writeJson_file_any cfg.flags reps (jsonOn cfg.flags) cy h w [] hc hcy
        refine ⟨k, ?_, ?_⟩
        · rw [h1, hnone]; simp [primaryBytes, hd', hh]
        · intro hne hlim
          have := h2 hne hlim
          rw [hcyb] at this
          -- cyborg mode always has the human report on: contradiction with `hh`
          simp [humanOn, this] at hh
      | true =>
        simp only [emitIf, if_true, emit_file]
        obtain ⟨k1, hk1, hcl, he, hr⟩ := emitFile_spec hc (humanRep cfg.flags reps)
        have hfr := emitFile_frame w h (humanRep cfg.flags reps)
        rw [he]
        by_cases hkk : k1 = (humanRep cfg.flags reps).bytes.length
        · subst hkk
          simp only [if_true]
          rw [List.take_length] at hcl
          have hcy' : ∀ g, cy = some g → g.path ≠ (emitFile w h (humanRep cfg.flags reps)).2.1.path := by
            intro g hg; rw [hfr.2.2.2.1]; exact hcy g hg
          obtain ⟨k, h1, h2⟩ := writeJson_file_any cfg.flags reps (jsonOn cfg.flags) cy _ _ _ hcl hcy'
          rw [hfr.2.2.2.1] at h1
          refine ⟨(humanRep cfg.flags reps).bytes.length + k, ?_, ?_⟩
          · rw [h1, hnone]
            simp only [primaryBytes, hd', hh, Bool.false_eq_true, if_false, if_true, List.nil_append]
            rw [take_len_add]
          · intro hne hlim
            have hlim' : (emitFile w h (humanRep cfg.flags reps)).1.fs.limit
                (emitFile w h (humanRep cfg.flags reps)).2.1.path = none := by
              rw [hfr.2.2.1, hfr.2.2.2.1]; exact hlim
            have hcs := h2 hne hlim'
            rw [hcyb] at hcs
            right
            refine ⟨hcs, ?_⟩
            simp only [primaryBytes, hd', hh, Bool.false_eq_true, if_false, if_true, hcs, jsonOn,
              Bool.not_true, Bool.and_false, List.append_nil]
            rw [List.take_of_length_le (by omega)]
        · simp only [hkk, if_false]
          refine ⟨k1, ?_, ?_⟩
          · rw [failWith_fs, ← hfr.2.2.2.1, hcl.1]
            simp only [List.nil_append, primaryBytes, hd', hh, Bool.false_eq_true, if_false, if_true]
            rw [List.take_append_of_le_length hk1]
          · intro _ hlim
            rw [hlim] at hr
            simp [room] at hr
            exact absurd hr hkk
    cases inp with
    | unprocessable =>
      refine ⟨0, ?_, by simp⟩
      simp only [finish_fs, List.take_zero]
      rw [logErr_entry_other render cfg w lg _ h.path (fun g hg => (hlg g hg).symm)]
      exact hc.1
    | unreadable =>
      by_cases hl : cfg.localUnsupported = true
      · simp only [hl, if_true]
        refine ⟨0, ?_, by simp⟩
        simp only [finish_fs, List.take_zero]
        rw [logErr_entry_other render cfg w lg _ h.path (fun g hg => (hlg g hg).symm)]
        exact hc.1
      · simp only [hl, if_false]; exact key
    | ok =>
      by_cases hl : cfg.localUnsupported = true
      · simp only [hl, if_true]
        refine ⟨0, ?_, by simp⟩
        simp only [finish_fs, List.take_zero]
        rw [logErr_entry_other render cfg w lg _ h.path (fun g hg => (hlg g hg).symm)]
        exact hc.1
      · simp only [hl, if_false]; exact key


theorem writeJson_stdout_healthy_any (f : Flags) (reps : Reports) (json : Bool) (cy : Option Handle)
    (w : World) (hs : w.stdout.Healthy) :
    (writeJson f reps json cy .stdout w).world.stdout.out
      = w.stdout.total ++ (if json && cy.isNone then (jsonRep f reps).bytes else []) ∧
    ((writeJson f reps json cy .stdout w).exit ≠ 0 → cy.isSome) := by
  unfold writeJson
  cases json with
  | false =>
    simp only [Bool.false_eq_true, if_false, finishOk_healthy w hs, finish_stdout, Bool.false_and]
    exact ⟨by simp [stdout_atExit_healthy _ hs, Stdout.total], by simp⟩
  | true =>
    simp only [if_true]
    cases cy with
    | none =>
      simp only [emit_stdout]
      obtain ⟨he, hh, ht⟩ := stdout_write_healthy w.stdout (jsonRep f reps) hs
      rw [doneThen_healthy _ _ (show (World.mk w.fs (w.stdout.write (jsonRep f reps)).1 w.stderr).stdout.Healthy from hh)]
      refine ⟨?_, by rw [he]; simp⟩
      rw [done_stdout]
      simp only
      rw [stdout_atExit_healthy _ hh, ht]; simp [Stdout.total]
    | some g =>
      simp only
      rw [doneThen_healthy _ _ (show (emitFile w g (jsonRep f reps)).1.stdout.Healthy from hs)]
      refine ⟨?_, by simp⟩
      rw [done_stdout, emitFile_stdout, stdout_atExit_healthy _ hs]; simp [Stdout.total]

/-- both files open, the primary is an unbounded standard output: a status other than 0 leaves
    nothing of a report on it — except, in cyborg mode, the COMPLETE human report when the JSON write
    to the cyborg file failed afterwards -/
theorem afterOpen_stdout_healthy_fail (render : Diag → Bytes) (cfg : Cfg) (inp : Input) (reps : Reports)
    (lg cy : Option Handle) (w : World) (hs : w.stdout.Healthy)
    (hcyb : cy.isSome = cfg.flags.cyborg)
    (hne : (afterOpen render cfg inp reps (humanOn cfg.flags) (jsonOn cfg.flags) lg cy .stdout w).exit ≠ 0) :
    (afterOpen render cfg inp reps (humanOn cfg.flags) (jsonOn cfg.flags) lg cy .stdout w).world.stdout.out
      = w.stdout.total ∨
    (cfg.flags.cyborg = true ∧ inp ≠ .unprocessable ∧
     (afterOpen render cfg inp reps (humanOn cfg.flags) (jsonOn cfg.flags) lg cy .stdout w).world.stdout.out
      = w.stdout.total ++ (humanRep cfg.flags reps).bytes) := by
  unfold afterOpen at hne ⊢
  by_cases hd : cfg.flags.dump = true
  · simp only [hd, if_true, emit_stdout] at hne ⊢
    obtain ⟨he, hh, _⟩ := stdout_write_healthy w.stdout (dumpRep cfg.flags reps) hs
    rw [doneThen_healthy _ _ (show (World.mk w.fs (w.stdout.write (dumpRep cfg.flags reps)).1 w.stderr).stdout.Healthy from hh)] at hne
    rw [he] at hne; simp at hne
  · have hd' : cfg.flags.dump = false := by simpa using hd
    simp only [hd', Bool.false_eq_true, if_false] at hne ⊢
    have key : (writeReports cfg.flags reps (humanOn cfg.flags) (jsonOn cfg.flags) cy .stdout w).exit ≠ 0 →
        cfg.flags.cyborg = true ∧
        (writeReports cfg.flags reps (humanOn cfg.flags) (jsonOn cfg.flags) cy .stdout w).world.stdout.out
          = w.stdout.total ++ (humanRep cfg.flags reps).bytes := by
      intro hne
      unfold writeReports at hne ⊢
      cases hh : humanOn cfg.flags with
      | false =>
        simp only [hh, emitIf, Bool.false_eq_true, if_false] at hne ⊢
        have := (writeJson_stdout_healthy_any cfg.flags reps (jsonOn cfg.flags) cy w hs).2 hne
        rw [hcyb] at this
        simp [humanOn, this] at hh
      | true =>
        simp only [hh, emitIf, if_true, emit_stdout] at hne ⊢
        obtain ⟨he, hhl, ht⟩ := stdout_write_healthy w.stdout (humanRep cfg.flags reps) hs
        rw [he] at hne ⊢
        simp only at hne ⊢
        obtain ⟨h1, h2⟩ := writeJson_stdout_healthy_any cfg.flags reps (jsonOn cfg.flags) cy
          { w with stdout := (w.stdout.write (humanRep cfg.flags reps)).1 } hhl
        have hcs := h2 hne
        refine ⟨by rw [← hcyb]; exact hcs, ?_⟩
        rw [h1]
        have : cy.isNone = false := by cases cy <;> simp_all
        simp only [this, Bool.and_false, Bool.false_eq_true, if_false, List.append_nil]
        simp only [Stdout.total] at ht ⊢
        exact ht
    cases inp with
    | unprocessable =>
      left
      simp only [finish_stdout, logErr_stdout]
      simp [stdout_atExit_healthy _ hs, Stdout.total]
    | unreadable =>
      by_cases hl : cfg.localUnsupported = true
      · left
        simp only [hl, if_true, finish_stdout, logErr_stdout]
        simp [stdout_atExit_healthy _ hs, Stdout.total]
      · simp only [hl, if_false] at hne ⊢
        right; exact ⟨(key hne).1, by simp, (key hne).2⟩
    | ok =>
      by_cases hl : cfg.localUnsupported = true
      · left
        simp only [hl, if_true, finish_stdout, logErr_stdout]
        simp [stdout_atExit_healthy _ hs, Stdout.total]
      · simp only [hl, if_false] at hne ⊢
        right; exact ⟨(key hne).1, by simp, (key hne).2⟩


/-- the shape of `run` without `--help-markdown`: an early exit with a non-zero status that touched
    nothing but (possibly) the log file, or `emitReports` in the world after the log file's creation -/
theorem run_cases (render : Diag → Bytes) (cfg : Cfg) (inp : Input) (reps : Reports) (w : World)
    (hmd : cfg.helpMarkdown = false) :
    (∃ c w', c ≠ 0 ∧ run render cfg inp reps w = finish c w' ∧ w'.stdout = w.stdout ∧
        ∀ q, cfg.logFile ≠ some q → w'.fs.entry q = w.fs.entry q) ∨
    (∃ w0 lg, openOpt w cfg.logFile = some (w0, lg) ∧ groupCount cfg.flags ≤ 1 ∧ inp ≠ .unreadable ∧
        run render cfg inp reps w
          = emitReports render cfg inp reps (humanOn cfg.flags) (jsonOn cfg.flags) lg w0) := by
  unfold run
  simp only [hmd, b2n, Bool.false_eq_true, if_false, Nat.add_zero]
  by_cases hg : groupCount cfg.flags > 1
  · left
    exact ⟨2, { w with stderr := w.stderr ++ [.usage] }, by simp, by simp [hg], rfl, fun _ _ => rfl⟩
  · simp only [hg, if_false]
    cases hlo : openOpt w cfg.logFile with
    | none => left; exact ⟨1, _, by simp, rfl, rfl, fun _ _ => rfl⟩
    | some r =>
      obtain ⟨w0, lg⟩ := r
      obtain ⟨hso, _, _, hlg, hent, _⟩ := openOpt_some hlo
      have hlog : ∀ (d : Diag) q, cfg.logFile ≠ some q →
          (logErr render cfg w0 lg d).fs.entry q = w.fs.entry q := by
        intro d q hq
        rw [logErr_entry_other render cfg w0 lg d q, hent q hq]
        intro g hg'
        rw [hlg] at hg'
        cases hlf : cfg.logFile with
        | none => rw [hlf] at hg'; simp at hg'
        | some x =>
          rw [hlf] at hg' hq; simp at hg'
          rw [← hg']; simpa using Ne.symm hq
      simp only
      split
      · left; exact ⟨1, _, by simp, rfl, by rw [logErr_stdout, hso], hlog _⟩
      · split
        · left; exact ⟨1, _, by simp, rfl, by rw [logErr_stdout, hso], hlog _⟩
        · cases inp with
          | unreadable => left; exact ⟨1, _, by simp, rfl, by rw [logErr_stdout, hso], hlog _⟩
          | unprocessable => right; exact ⟨w0, lg, rfl, by omega, by simp, rfl⟩
          | ok => right; exact ⟨w0, lg, rfl, by omega, by simp, rfl⟩


theorem emitReports_file_any (render : Diag → Bytes) (cfg : Cfg) (inp : Input) (reps : Reports)
    (lg : Option Handle) (w : World) (p : Path)
    (hp : cfg.outputFile = some p) (hreg : Regular w.fs p)
    (hcy : cfg.flags.cyborg = true → cfg.cyborgPath ≠ p) (hlg : ∀ g, lg = some g → g.path ≠ p) :
    (emitReports render cfg inp reps (humanOn cfg.flags) (jsonOn cfg.flags) lg w).world.fs.entry p = w.fs.entry p ∨
    ∃ k, (emitReports render cfg inp reps (humanOn cfg.flags) (jsonOn cfg.flags) lg w).world.fs.entry p
        = .file ((primaryBytes cfg.flags reps).take k) ∧
      ((emitReports render cfg inp reps (humanOn cfg.flags) (jsonOn cfg.flags) lg w).exit ≠ 0 →
        w.fs.limit p = none →
        k = 0 ∨ (cfg.flags.cyborg = true ∧ (primaryBytes cfg.flags reps).take k = (humanRep cfg.flags reps).bytes)) := by
  unfold emitReports
  cases hco : openOpt w (if cfg.flags.cyborg = true then some cfg.cyborgPath else none) with
  | none => left; simp
  | some r =>
    obtain ⟨w1, cy⟩ := r
    right
    simp only
    obtain ⟨_, _, hlim, hcy', hent, _⟩ := openOpt_some hco
    have hpe : w1.fs.entry p = w.fs.entry p := by
      apply hent
      split
      · rename_i hc; intro he; exact hcy hc (by simpa using he)
      · simp
    have hreg1 : Regular w1.fs p := regular_of_entry_eq hpe hreg
    simp only [hp, openPrimary, create_regular hreg1]
    have hcl : Clean (w1.fs.set p (.file [])) ⟨p, 0⟩ [] := clean_create _ _
    have hne : ∀ g, cy = some g → g.path ≠ p := by
      intro g hg
      rw [hg] at hcy'
      by_cases hc : cfg.flags.cyborg = true
      · simp [hc] at hcy'; rw [hcy']; exact hcy hc
      · simp [hc] at hcy'
    have hcyb : cy.isSome = cfg.flags.cyborg := by
      rw [hcy']; cases cfg.flags.cyborg <;> simp
    obtain ⟨k, h1, h2⟩ := afterOpen_file_any render cfg inp reps lg cy ⟨p, 0⟩
      { w1 with fs := w1.fs.set p (.file []) } hcl hne hlg hcyb
    exact ⟨k, h1, fun hne hl => h2 hne (by show w1.fs.limit p = none; rw [hlim]; exact hl)⟩

theorem emitReports_stdout_healthy_fail (render : Diag → Bytes) (cfg : Cfg) (inp : Input) (reps : Reports)
    (lg : Option Handle) (w : World)
    (hp : cfg.outputFile = none) (hs : w.stdout.Healthy)
    (hne : (emitReports render cfg inp reps (humanOn cfg.flags) (jsonOn cfg.flags) lg w).exit ≠ 0) :
    (emitReports render cfg inp reps (humanOn cfg.flags) (jsonOn cfg.flags) lg w).world.stdout.out
      = w.stdout.total ∨
    (cfg.flags.cyborg = true ∧ inp ≠ .unprocessable ∧
     (emitReports render cfg inp reps (humanOn cfg.flags) (jsonOn cfg.flags) lg w).world.stdout.out
      = w.stdout.total ++ (humanRep cfg.flags reps).bytes) := by
  unfold emitReports at hne ⊢
  cases hco : openOpt w (if cfg.flags.cyborg = true then some cfg.cyborgPath else none) with
  | none =>
    left
    simp only [failWith_stdout]
    rw [stdout_atExit_healthy _ hs]; rfl
  | some r =>
    obtain ⟨w1, cy⟩ := r
    rw [hco] at hne
    simp only [hp, openPrimary] at hne ⊢
    obtain ⟨hso, _, _, hcy', _, _⟩ := openOpt_some hco
    have hs1 : w1.stdout.Healthy := by rw [Stdout.Healthy, hso]; exact hs
    have hcyb : cy.isSome = cfg.flags.cyborg := by
      rw [hcy']; cases cfg.flags.cyborg <;> simp
    have := afterOpen_stdout_healthy_fail render cfg inp reps lg cy w1 hs1 hcyb hne
    rw [Stdout.total, hso] at this
    exact this

/-! ### exit statuses, healthy worlds, single-report runs -/

variable (render : Diag → Bytes) (cfg : Cfg) (inp : Input) (reps : Reports) (w : World)

theorem failWith_exit_mem (w : World) (k : ErrKind) : (failWith w k).exit = 0 ∨ (failWith w k).exit = 1 := by
  cases k <;> simp

theorem done_exit_mem (w : World) (e : Option ErrKind) : (done w e).exit = 0 ∨ (done w e).exit = 1 := by
  cases e with
  | none => simp
  | some k => simpa using failWith_exit_mem w k

theorem finishOk_exit_mem (w : World) (out : Writer) : (finishOk w out).exit = 0 ∨ (finishOk w out).exit = 1 :=
  done_exit_mem _ _

theorem doneThen_exit_mem (w : World) (e : Option ErrKind) (out : Writer) :
    (doneThen w e out).exit = 0 ∨ (doneThen w e out).exit = 1 := by
  cases e with
  | none => exact finishOk_exit_mem w out
  | some k => exact failWith_exit_mem w k

theorem writeJson_exit_mem (f : Flags) (json : Bool) (cy : Option Handle) (out : Writer) (w : World) :
    (writeJson f reps json cy out w).exit = 0 ∨ (writeJson f reps json cy out w).exit = 1 := by
  unfold writeJson
  split
  · split <;> exact doneThen_exit_mem _ _ _
  · exact finishOk_exit_mem _ _

theorem afterOpen_exit_mem (human json : Bool) (lg cy : Option Handle) (out : Writer) (w : World) :
    (afterOpen render cfg inp reps human json lg cy out w).exit = 0 ∨
    (afterOpen render cfg inp reps human json lg cy out w).exit = 1 := by
  unfold afterOpen
  split
  · exact doneThen_exit_mem _ _ _
  · split
    · simp
    · split
      · simp
      · unfold writeReports
        split
        · exact failWith_exit_mem _ _
        · exact writeJson_exit_mem _ _ _ _ _ _

theorem emitReports_exit_mem (human json : Bool) (lg : Option Handle) (w : World) :
    (emitReports render cfg inp reps human json lg w).exit = 0 ∨
    (emitReports render cfg inp reps human json lg w).exit = 1 := by
  unfold emitReports
  split
  · simp
  · split
    · simp
    · exact afterOpen_exit_mem _ _ _ _ _ _ _ _ _ _

/-! ### healthy worlds: nothing fails that the options and the input do not make fail -/

def IsFile (fs : Fs) (p : Path) : Prop := ∃ c, fs.entry p = .file c

/-- an open handle on an unlimited regular file -/
def HandleOk (fs : Fs) (g : Handle) : Prop := IsFile fs g.path ∧ fs.limit g.path = none

def WriterOk (w : World) : Writer → Prop
  | .stdout => w.stdout.Healthy
  | .file h => HandleOk w.fs h

theorem isFile_write (fs : Fs) (h : Handle) (bs : Bytes) (q : Path) (hq : IsFile fs q) :
    IsFile (fs.write h bs).1 q := by
  by_cases hqp : q = h.path
  · subst hqp
    obtain ⟨c, hc⟩ := hq
    unfold Fs.write
    rw [hc]
    dsimp only
    split
    · exact ⟨c, hc⟩
    · exact ⟨_, Fs.set_entry_same _ _ _⟩
  · rw [IsFile, write_entry_other _ _ _ _ hqp]; exact hq

theorem write_ok_unlimited (fs : Fs) (h : Handle) (bs : Bytes) (hh : HandleOk fs h) :
    (fs.write h bs).2.2 = true := by
  obtain ⟨⟨c, hc⟩, hl⟩ := hh
  unfold Fs.write
  rw [hc, hl]
  simp [room]

theorem handleOk_write (fs : Fs) (h g : Handle) (bs : Bytes) (hg : HandleOk fs g) :
    HandleOk (fs.write h bs).1 g :=
  ⟨isFile_write _ _ _ _ hg.1, by rw [write_limit]; exact hg.2⟩

theorem handleOk_write_self (fs : Fs) (h : Handle) (bs : Bytes) (hg : HandleOk fs h) :
    HandleOk (fs.write h bs).1 (fs.write h bs).2.1 := by
  have := handleOk_write fs h h bs hg
  unfold HandleOk at this ⊢
  rw [write_path]; exact this

theorem emitFile_ok (w : World) (h : Handle) (r : Rep) (hh : HandleOk w.fs h) :
    (emitFile w h r).2.2 = none ∧ HandleOk (emitFile w h r).1.fs (emitFile w h r).2.1 ∧
    (∀ g, HandleOk w.fs g → HandleOk (emitFile w h r).1.fs g) ∧
    (emitFile w h r).1.stdout = w.stdout := by
  refine ⟨?_, handleOk_write_self _ _ _ hh, fun g hg => handleOk_write _ _ _ _ hg, rfl⟩
  show (if (w.fs.write h r.bytes).2.2 = true then none else some ErrKind.other) = none
  rw [write_ok_unlimited _ _ _ hh]; rfl

theorem emit_ok (w : World) (out : Writer) (r : Rep) (ho : WriterOk w out) :
    (emit w out r).2.2 = none ∧ WriterOk (emit w out r).1 (emit w out r).2.1 ∧
    (∀ g, HandleOk w.fs g → HandleOk (emit w out r).1.fs g) := by
  cases out with
  | stdout =>
    obtain ⟨he, hh, _⟩ := stdout_write_healthy w.stdout r ho
    exact ⟨he, hh, fun g hg => hg⟩
  | file h =>
    obtain ⟨he, hh, hg, _⟩ := emitFile_ok w h r ho
    exact ⟨he, hh, hg⟩

theorem finishOk_ok (w : World) (out : Writer) (ho : WriterOk w out) : (finishOk w out).exit = 0 := by
  cases out with
  | stdout => rw [finishOk_healthy w ho]; rfl
  | file h => rfl

theorem afterOpen_healthy_exit (human json : Bool) (lg cy : Option Handle) (out : Writer) (w : World)
    (ho : WriterOk w out) (hcy : ∀ g, cy = some g → HandleOk w.fs g) :
    (afterOpen render cfg inp reps human json lg cy out w).exit
      = if cfg.flags.dump then 0 else if inp = .unprocessable then 1
        else if cfg.localUnsupported then 1 else 0 := by
  unfold afterOpen
  by_cases hd : cfg.flags.dump = true
  · simp only [hd, if_true]
    rw [(emit_ok w out _ ho).1]
    exact finishOk_ok _ _ (emit_ok w out _ ho).2.1
  · simp only [hd, if_false]
    have key : (writeReports cfg.flags reps human json cy out w).exit = 0 := by
      unfold writeReports
      have hE : (emitIf human w out (humanRep cfg.flags reps)).2.2 = none ∧
          WriterOk (emitIf human w out (humanRep cfg.flags reps)).1 (emitIf human w out (humanRep cfg.flags reps)).2.1 ∧
          (∀ g, HandleOk w.fs g → HandleOk (emitIf human w out (humanRep cfg.flags reps)).1.fs g) := by
        unfold emitIf
        split
        · exact emit_ok w out _ ho
        · exact ⟨rfl, ho, fun g hg => hg⟩
      rw [hE.1]
      simp only
      unfold writeJson
      split
      · cases cy with
        | none =>
          simp only
          rw [(emit_ok _ _ _ hE.2.1).1]
          exact finishOk_ok _ _ (emit_ok _ _ _ hE.2.1).2.1
        | some g =>
          simp only
          rw [(emitFile_ok _ g _ (hE.2.2 g (hcy g rfl))).1]
          apply finishOk_ok
          -- the write to the cyborg file leaves the primary writer as it was
          cases hw : (emitIf human w out (humanRep cfg.flags reps)).2.1 with
          | stdout =>
            have := hE.2.1; rw [hw] at this
            exact this
          | file h' =>
            have := hE.2.1; rw [hw] at this
            exact (emitFile_ok _ g _ (hE.2.2 g (hcy g rfl))).2.2.1 h' this
      · exact finishOk_ok _ _ hE.2.1
    cases inp with
    | unprocessable => simp
    | unreadable => by_cases hl : cfg.localUnsupported = true <;> simp [hl, key]
    | ok => by_cases hl : cfg.localUnsupported = true <;> simp [hl, key]

/-- every file the command line names can be created and grown without limit; standard output is unbounded -/
structure Healthy (cfg : Cfg) (w : World) : Prop where
  stdout : w.stdout.cap = none
  log : ∀ l, cfg.logFile = some l → Regular w.fs l
  cyborg : cfg.flags.cyborg = true → Regular w.fs cfg.cyborgPath ∧ w.fs.limit cfg.cyborgPath = none
  output : ∀ p, cfg.outputFile = some p → Regular w.fs p ∧ w.fs.limit p = none

theorem regular_set_file (fs : Fs) (q p : Path) (c : Bytes) (hr : Regular fs p) :
    Regular (fs.set q (.file c)) p := by
  by_cases hpq : p = q
  · subst hpq; left; exact ⟨c, by simp⟩
  · unfold Regular; rw [Fs.set_entry_other _ _ _ _ hpq]; exact hr

theorem isFile_set_file (fs : Fs) (q p : Path) (c : Bytes) (hr : IsFile fs p) :
    IsFile (fs.set q (.file c)) p := by
  by_cases hpq : p = q
  · subst hpq; exact ⟨c, by simp⟩
  · unfold IsFile; rw [Fs.set_entry_other _ _ _ _ hpq]; exact hr

theorem emitReports_healthy_exit (human json : Bool) (lg : Option Handle) (w : World)
    (hs : w.stdout.cap = none)
    (hcy : cfg.flags.cyborg = true → Regular w.fs cfg.cyborgPath ∧ w.fs.limit cfg.cyborgPath = none)
    (hout : ∀ p, cfg.outputFile = some p → Regular w.fs p ∧ w.fs.limit p = none) :
    (emitReports render cfg inp reps human json lg w).exit
      = if cfg.flags.dump then 0 else if inp = .unprocessable then 1
        else if cfg.localUnsupported then 1 else 0 := by
  unfold emitReports
  -- the cyborg file
  have hopen : ∃ w1 cy, openOpt w (if cfg.flags.cyborg = true then some cfg.cyborgPath else none) = some (w1, cy) ∧
      w1.stdout = w.stdout ∧ (∀ g, cy = some g → HandleOk w1.fs g) ∧
      (∀ p, Regular w.fs p → Regular w1.fs p) ∧ w1.fs.limit = w.fs.limit := by
    by_cases hc : cfg.flags.cyborg = true
    · obtain ⟨hr, hl⟩ := hcy hc
      refine ⟨{ w with fs := w.fs.set cfg.cyborgPath (.file []) }, some ⟨cfg.cyborgPath, 0⟩, ?_, rfl, ?_, ?_, rfl⟩
      · simp [openOpt, hc, create_regular hr]
      · intro g hg; cases hg
        exact ⟨⟨[], by simp⟩, hl⟩
      · intro p hp; exact regular_set_file _ _ _ _ hp
    · exact ⟨w, none, by simp [openOpt, hc], rfl, by simp, fun _ h => h, rfl⟩
  obtain ⟨w1, cy, ho, hso, hcyok, hreg, hlim⟩ := hopen
  rw [ho]
  simp only
  -- the primary
  cases hof : cfg.outputFile with
  | none =>
    simp only [openPrimary]
    exact afterOpen_healthy_exit render cfg inp reps human json lg cy .stdout w1
      (by show w1.stdout.Healthy; rw [Stdout.Healthy, hso]; exact hs) hcyok
  | some p =>
    obtain ⟨hr, hl⟩ := hout p hof
    simp only [openPrimary, create_regular (hreg p hr)]
    apply afterOpen_healthy_exit
    · exact ⟨⟨[], by simp⟩, by show w1.fs.limit p = none; rw [hlim]; exact hl⟩
    · intro g hg
      obtain ⟨hf, hll⟩ := hcyok g hg
      exact ⟨isFile_set_file _ _ _ _ hf, hll⟩

/-- the exit status as a function of the options and the input class only -/
def exitOf (f : Flags) (i : Input) : Nat :=
  match cli f i with
  | .usage => 2
  | .exit1 => 1
  | .exit0 _ _ => 0

theorem exitOf_eq (f : Flags) (i : Input) :
    exitOf f i =
      if groupCount f > 1 then 2
      else if f.pretty && !jsonOn f then 1
      else if f.brief && !(humanOn f || f.dump) then 1
      else if i = .unreadable then 1
      else if f.dump then 0
      else if i = .unprocessable then 1 else 0 := by
  obtain ⟨h, j, c, d, b, p⟩ := f
  cases h <;> cases j <;> cases c <;> cases d <;> cases b <;> cases p <;> cases i <;> decide

/-! ### exact statements of the behaviours that contradict the property text -/

/-- only `--cyborg` of the five formats -/
theorem cyborg_only {f : Flags} (hg : groupCount f ≤ 1) (hc : f.cyborg = true) :
    f.human = false ∧ f.json = false ∧ f.dump = false := by
  obtain ⟨h, j, c, d, b, p⟩ := f
  cases c <;> cases d <;> cases h <;> cases j <;> simp_all [groupCount, b2n]

theorem write_file_unlimited (fs : Fs) (h : Handle) (c bs : Bytes) (he : fs.entry h.path = .file c)
    (hl : fs.limit h.path = none) (hbs : bs ≠ []) :
    fs.write h bs = (fs.set h.path (.file (writeAt c h.off bs)), ⟨h.path, h.off + bs.length⟩, true) := by
  unfold Fs.write
  rw [he, hl]
  have : bs.length ≠ 0 := by simpa using hbs
  simp [room, this]

theorem writeAt_zero (c bs : Bytes) : writeAt c 0 bs = bs ++ c.drop bs.length := by
  simp [writeAt]

/-- the one report of a non-cyborg run -/
def soleRep (f : Flags) (reps : Reports) : Rep :=
  if f.dump then dumpRep f reps else if f.json then jsonRep f reps else humanRep f reps

/-- a non-cyborg run on a processable file, no `--log-file`, no `--output-file`, options accepted:
    `run` is one `write` of the sole report to standard output, then `output.flush()?`, then `main`'s
    error handling -/
theorem run_sole_stdout
    (hacc : exitOf cfg.flags .ok = 0) (hc : cfg.flags.cyborg = false) (hmd : cfg.helpMarkdown = false)
    (hlu : cfg.localUnsupported = false)
    (hlog : cfg.logFile = none) (hout : cfg.outputFile = none) :
    run render cfg .ok reps w
      = doneThen { w with stdout := (w.stdout.write (soleRep cfg.flags reps)).1 }
          (w.stdout.write (soleRep cfg.flags reps)).2 .stdout := by
  rw [exitOf_eq] at hacc
  by_cases hgn : groupCount cfg.flags > 1
  · rw [if_pos hgn] at hacc; cases hacc
  rw [if_neg hgn] at hacc
  by_cases hp : (cfg.flags.pretty && !jsonOn cfg.flags) = true
  · rw [if_pos hp] at hacc; cases hacc
  rw [if_neg hp] at hacc
  by_cases hb : (cfg.flags.brief && !(humanOn cfg.flags || cfg.flags.dump)) = true
  · rw [if_pos hb] at hacc; cases hacc
  have hg1 : groupCount cfg.flags ≤ 1 := by omega
  simp only [run, hmd, b2n, hgn, hlog, openOpt, hp, hb, hout, emitReports, openPrimary, hc,
    Bool.false_eq_true, if_false, Nat.add_zero]
  unfold afterOpen soleRep
  cases hd : cfg.flags.dump with
  | true => simp [emit_stdout]
  | false =>
    have hh : humanOn cfg.flags = !cfg.flags.json := by simp [humanOn, hc, hd]
    have hj : jsonOn cfg.flags = cfg.flags.json := by simp [jsonOn, hc]
    simp only [Bool.false_eq_true, if_false, writeReports, hh, hj, hlu]
    cases hjs : cfg.flags.json with
    | true => simp [emitIf, writeJson, emit_stdout]
    | false =>
      simp only [emitIf, Bool.not_false, if_true, emit_stdout, writeJson, Bool.false_eq_true, if_false]
      cases (w.stdout.write (humanRep cfg.flags reps)).2 <;> rfl

theorem take_split {α} (l : List α) (k c : Nat) (hk : k ≤ c) :
    l.take k ++ (l.drop k).take (c - k) = l.take c := by
  have : c = k + (c - k) := by omega
  conv => rhs; rw [this]
  rw [List.take_add]

theorem take_min_length {α} (l : List α) (m : Nat) : l.take (min l.length m) = l.take m := by
  by_cases h : m ≤ l.length
  · rw [Nat.min_eq_right h]
  · have h' : l.length ≤ m := by omega
    rw [Nat.min_eq_left h', List.take_of_length_le (Nat.le_refl _), List.take_of_length_le h']

/-- `write` on an empty standard output that accepts `c` bytes: everything but the pending tail fits -/
theorem stdout_write_fits (s : Stdout) (r : Rep) (c : Nat) (he : s.out = [] ∧ s.buf = []) (hc : s.cap = some c)
    (hfit : r.bytes.length - min r.pend r.bytes.length ≤ c) :
    (s.write r).2 = none ∧ ((s.write r).1.atExit).out = r.bytes.take c := by
  have hlen : (r.bytes.take (r.bytes.length - min r.pend r.bytes.length)).length
      = r.bytes.length - min r.pend r.bytes.length := by
    rw [List.length_take]; omega
  unfold Stdout.write
  simp only [he.1, he.2, List.nil_append, Stdout.room, hc, List.length_nil, Nat.sub_zero, hlen]
  rw [if_pos (by omega)]
  refine ⟨rfl, ?_⟩
  simp only [Stdout.atExit, Stdout.room, hc, hlen]
  generalize r.bytes.length - min r.pend r.bytes.length = k at *
  rw [take_min_length, take_split _ _ _ hfit]

/-- … and the explicit `flush()` that follows: it succeeds iff the whole report fits; either way the
    first `c` bytes are what standard output holds in the end -/
theorem stdout_write_then_flush (s : Stdout) (r : Rep) (c : Nat) (he : s.out = [] ∧ s.buf = []) (hc : s.cap = some c)
    (hfit : r.bytes.length - min r.pend r.bytes.length ≤ c) :
    (s.write r).2 = none ∧
    ((s.write r).1.flush.2 = if r.bytes.length ≤ c then none else some s.kind) ∧
    ((s.write r).1.flush.1.atExit).out = r.bytes.take c := by
  have hlen : (r.bytes.take (r.bytes.length - min r.pend r.bytes.length)).length
      = r.bytes.length - min r.pend r.bytes.length := by
    rw [List.length_take]; omega
  unfold Stdout.write
  simp only [he.1, he.2, List.nil_append, Stdout.room, hc, List.length_nil, Nat.sub_zero, hlen]
  rw [if_pos (by omega)]
  refine ⟨rfl, ?_, ?_⟩
  · simp only [Stdout.flush, Stdout.room, hc, hlen, List.length_drop]
    generalize hk : r.bytes.length - min r.pend r.bytes.length = k at *
    have hkl : k ≤ r.bytes.length := by omega
    by_cases hle : r.bytes.length ≤ c
    · rw [if_pos hle, if_pos (by omega)]
    · rw [if_neg hle, if_neg (by omega)]
  · simp only [Stdout.flush, Stdout.room, hc, hlen, List.length_drop]
    generalize hk : r.bytes.length - min r.pend r.bytes.length = k at *
    have hkl : k ≤ r.bytes.length := by omega
    by_cases hle : r.bytes.length ≤ c
    · rw [if_pos (by omega)]
      simp only [Stdout.atExit, List.take_nil, List.append_nil, List.take_append_drop]
      rw [List.take_of_length_le hle]
    · rw [if_neg (by omega)]
      simp only [Stdout.atExit, List.take_nil, List.append_nil]
      have : min (r.bytes.length - k) (c - k) = c - k := by omega
      rw [this, take_split _ _ _ hfit]

/-- … the part before the pending tail does not fit: the error is seen -/
theorem stdout_write_overflow (s : Stdout) (r : Rep) (c : Nat) (he : s.out = [] ∧ s.buf = []) (hc : s.cap = some c)
    (hover : c < r.bytes.length - min r.pend r.bytes.length) :
    (s.write r).2 = some s.kind ∧ ((s.write r).1.atExit).out = r.bytes.take c := by
  have hlen : (r.bytes.take (r.bytes.length - min r.pend r.bytes.length)).length
      = r.bytes.length - min r.pend r.bytes.length := by
    rw [List.length_take]; omega
  unfold Stdout.write
  simp only [he.1, he.2, List.nil_append, Stdout.room, hc, List.length_nil, Nat.sub_zero, hlen]
  rw [if_neg (by omega)]
  refine ⟨rfl, ?_⟩
  simp only [Stdout.atExit, List.take_nil, List.append_nil]
  rw [List.take_take]
  congr 1
  omega

end MdModel.Cli
