/-
  Helper lemmas for C13 §2 (MdModel.Det, the per-architecture CFI label tables): ASCII labels are
  determined by the `&str` handed to `memoize_register`; on the generated tables of
  `MdModel.Gen.Regs` two different labels can only denote one register when one of them is a key
  of the CPU's alias arms (`r11`/`r13`/`r14`/`r15` on ARM, `x29`/`x30` on ARM64 and ARM64_OLD) —
  the trait default `default_memoize_register` answers with the label itself.
-/
import MdModel.Det
namespace MdModel.Det
open MdModel MdModel.Gen.Regs

theorem ofNat_toNat_small (n : Nat) (h : n < 128) : (Char.ofNat n).toNat = n := by
  have : n.isValidChar := by left; omega
  simp [Char.ofNat, this, Char.toNat, Char.ofNatAux]

/-- labels made of ASCII bytes are determined by their string -/
theorem labelStr_inj {a b : List Nat} (ha : ∀ x, x ∈ a → x < 128) (hb : ∀ x, x ∈ b → x < 128)
    (h : labelStr a = labelStr b) : a = b := by
  unfold labelStr at h
  have h' := String.ofList_injective h
  induction a generalizing b with
  | nil => cases b with
    | nil => rfl
    | cons y ys => simp at h'
  | cons x xs ih =>
    cases b with
    | nil => simp at h'
    | cons y ys =>
      simp only [List.map_cons, List.cons.injEq] at h'
      have hx := ofNat_toNat_small x (ha x (by simp))
      have hy := ofNat_toNat_small y (hb y (by simp))
      have : x = y := by rw [← hx, ← hy, h'.1]
      subst this
      congr 1
      apply ih (fun z hz => ha z (by simp [hz])) (fun z hz => hb z (by simp [hz]))
      · rw [h'.2]
      · exact h'.2

/-- `default_memoize_register` answers with (the static copy of) the name it was asked for -/
theorem defaultMemo_eq {regs : List String} {n r : String} (h : Regs.defaultMemo regs n = some r) :
    r = n := by
  unfold Regs.defaultMemo at h
  have := List.find?_some h
  simpa using this

theorem findIdx?_getElem? {regs : List String} {r : String} {i : Nat}
    (h : regs.findIdx? (· == r) = some i) : regs[i]? = some r := by
  rw [List.findIdx?_eq_some_iff_getElem] at h
  obtain ⟨hi, hp, _⟩ := h
  rw [List.getElem?_eq_getElem hi]
  simp only [beq_iff_eq] at hp
  rw [hp]

/-- what `canonCpu c label = some i` means: `memoize_register` answered `REGISTERS[i]` -/
theorem canonCpu_spec {c : Ctx} {label : List Nat} {i : Nat} (h : canonCpu c label = some i) :
    ∃ r, Regs.memoize c (labelStr label) = .ok (some r) ∧ (registers c)[i]? = some r := by
  unfold canonCpu at h
  split at h
  · rename_i r hm
    exact ⟨r, hm, findIdx?_getElem? h⟩
  · cases h

/-- is the label a key of the CPU's own alias arms of `memoize_register` (`"x29" => Some("fp")` …)? -/
def armKey (c : Ctx) (label : List Nat) : Bool :=
  match memoRule c with
  | .arms as => (Regs.assoc as (labelStr label)).isSome
  | _ => false

/-- on every CPU whose `memoize_register` is the trait default or alias arms in front of it (all
    but SPARC), two labels that denote one register are the same string or one of them is an
    alias-arm key -/
theorem alias_needs_arm_key {c : Ctx} (hc : c ≠ .SPARC) {a b : List Nat} {i : Nat}
    (ha : canonCpu c a = some i) (hb : canonCpu c b = some i) :
    labelStr a = labelStr b ∨ armKey c a = true ∨ armKey c b = true := by
  obtain ⟨ra, hma, hia⟩ := canonCpu_spec ha
  obtain ⟨rb, hmb, hib⟩ := canonCpu_spec hb
  have hr : ra = rb := by rw [hia] at hib; exact Option.some.inj hib
  subst hr
  unfold armKey
  unfold Regs.memoize at hma hmb
  cases hrule : memoRule c with
  | default =>
    rw [hrule] at hma hmb
    simp only [Outcome.ok.injEq] at hma hmb
    left
    rw [← defaultMemo_eq hma, ← defaultMemo_eq hmb]
  | arms as =>
    rw [hrule] at hma hmb
    simp only at hma hmb ⊢
    cases haa : Regs.assoc as (labelStr a) with
    | some _ => right; left; rfl
    | none =>
      cases hab : Regs.assoc as (labelStr b) with
      | some _ => right; right; rfl
      | none =>
        rw [haa] at hma
        rw [hab] at hmb
        simp only [Outcome.ok.injEq] at hma hmb
        left
        rw [← defaultMemo_eq hma, ← defaultMemo_eq hmb]
  | sparcIndex =>
    exfalso
    cases c <;> simp_all [memoRule]

end MdModel.Det
