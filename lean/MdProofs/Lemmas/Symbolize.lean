/-
  Helper lemmas for C11 (symbolication). Property theorems are in `MdProofs/C11.lean`.
-/
import MdModel.Symbolize
import MdProofs.C08
namespace MdModel.Symbolize
open MdModel MdModel.RangeMap

/-! ### what `build` establishes -/

theorem lineInput_wf (ls : List Line) : InputWF (lineInput ls) := by
  intro e he r hr
  simp only [lineInput, List.mem_map] at he
  obtain ⟨l, _, rfl⟩ := he
  have := mkRangeLine_wf hr
  exact ⟨this.1, this.2.1⟩

/-- the `Function` that `finish_item` stores for a FUNC record (`finishItem_ok`: it never fails) -/
def finOf (f : Func) : BFunc :=
  let ls := f.lines.filter fun l => l.size > 0
  { addr := f.addr, size := f.size, psize := f.psize, name := f.name,
    lines := ls, ltab := safeVec (lineInput ls),
    inls := (f.inls.filter fun x => x.size > 0).mergeSort inlLe }

theorem finishItem_ok (f : Func) : finishItem f = .ok (finOf f) := by
  unfold finishItem finOf
  simp only [safe_ok _ (lineInput_wf _)]

theorem finishAll_ok (fs : List Func) : finishAll fs = .ok (fs.map finOf) := by
  induction fs with
  | nil => rfl
  | cons f rest ih => simp only [finishAll, finishItem_ok, ih, List.map_cons]

theorem funcInput_wf (bs : List BFunc) : ∀ e ∈ funcInput bs, WF e := by
  intro e he
  simp only [funcInput, validOnly, List.mem_filterMap, List.mem_map, Option.map_eq_some_iff] at he
  obtain ⟨x, ⟨b, _, rfl⟩, r, hr, rfl⟩ := he
  have := mkRange_wf hr
  exact ⟨this.1, this.2.1⟩

/-- what `build` establishes about the tables `fill_symbol` reads -/
structure Built (r : Recs) (sf : SymFile) : Prop where
  funcs : sf.funcs = r.funcs.map finOf
  ftab : sf.ftab = safeVecP (funcInput sf.funcs)
  pubs : sf.pubs = r.pubs.mergeSort pubLe
  files : sf.files = r.files
  origins : sf.origins = r.origins
  wfd : winTable r.win4 = .ok sf.wfd
  wfpo : winTable r.win0 = .ok sf.wfpo

theorem build_built {r : Recs} {sf : SymFile} (h : build r = .ok sf) : Built r sf := by
  unfold build at h
  simp only [finishAll_ok, safeP_ok _ (funcInput_wf _)] at h
  split at h
  · cases h
  · rename_i wfd hwfd
    split at h
    · cases h
    · rename_i wfpo hwfpo
      cases h
      exact ⟨rfl, rfl, rfl, rfl, rfl, hwfd, hwfpo⟩

/-! ### `binary_search_by` -/

theorem bsLoop_range (probe : Nat → Ordering) (fuel base size : Nat) (hs : 1 ≤ size) :
    base ≤ bsLoop probe fuel base size ∧ bsLoop probe fuel base size < base + size := by
  induction fuel generalizing base size with
  | zero => simp only [bsLoop]; omega
  | succ fuel ih =>
    simp only [bsLoop]
    split
    · rename_i h
      have hh : 1 ≤ size - size / 2 := by omega
      split
      · have := ih base (size - size / 2) hh; omega
      · have := ih (base + size / 2) (size - size / 2) hh; omega
    · omega

/-- the loop only ever moves `base` onto an element that does not compare `Greater` -/
theorem bsLoop_notgt (probe : Nat → Ordering) (fuel base size : Nat) :
    bsLoop probe fuel base size = base ∨ probe (bsLoop probe fuel base size) ≠ .gt := by
  induction fuel generalizing base size with
  | zero => left; rfl
  | succ fuel ih =>
    simp only [bsLoop]
    split
    · split
      · exact ih base _
      · rename_i hm
        rcases ih (base + size / 2) (size - size / 2) with h | h
        · right; rw [h]; exact hm
        · right; exact h
    · left; rfl

theorem binarySearchBy_found {n : Nat} {probe : Nat → Ordering} {i : Nat}
    (h : binarySearchBy n probe = .found i) : i < n ∧ probe i = .eq := by
  unfold binarySearchBy at h
  split at h
  · cases h
  · rename_i hn
    have hr := bsLoop_range probe n 0 n (by omega)
    simp only at h
    split at h
    · rename_i he; cases h; exact ⟨by omega, he⟩
    · cases h
    · cases h

theorem binarySearchBy_notFound_succ {n : Nat} {probe : Nat → Ordering} {i : Nat}
    (h : binarySearchBy n probe = .notFound (i + 1)) : i < n ∧ probe i = .lt := by
  unfold binarySearchBy at h
  split at h
  · cases h
  · rename_i hn
    have hr := bsLoop_range probe n 0 n (by omega)
    have hg := bsLoop_notgt probe n 0 n
    simp only at h
    split at h
    · cases h
    · rename_i he
      simp only [BS.notFound.injEq] at h
      have : bsLoop probe n 0 n = i := by omega
      rw [this] at he hr
      exact ⟨by omega, he⟩
    · rename_i he
      simp only [BS.notFound.injEq] at h
      rcases hg with hg | hg
      · omega
      · exact absurd he hg

/-! ### lookups return records that cover the address -/

theorem cmpNat_eq {a b : Nat} : cmpNat a b = .eq ↔ a = b := by
  unfold cmpNat; split
  · simp; omega
  · split <;> simp <;> omega

theorem cmpNat_lt {a b : Nat} : cmpNat a b = .lt ↔ a < b := by
  unfold cmpNat; split
  · simp; assumption
  · split <;> simp <;> omega

theorem cmpNat_gt {a b : Nat} : cmpNat a b = .gt ↔ a > b := by
  unfold cmpNat; split
  · simp; omega
  · split <;> simp <;> omega

theorem cmpDepthAddr_eq {d a : Nat} {i : Inl} :
    cmpDepthAddr d a i = .eq ↔ i.depth = d ∧ i.addr = a := by
  unfold cmpDepthAddr
  split
  · rename_i h; rw [cmpNat_eq] at h; rw [cmpNat_eq]; simp [h]
  · rename_i o hne
    constructor
    · intro h; rw [h] at hne; exact absurd rfl (hne · )
    · intro ⟨h, _⟩; exact absurd (cmpNat_eq.mpr h) (hne ·)

theorem cmpDepthAddr_lt {d a : Nat} {i : Inl} :
    cmpDepthAddr d a i = .lt ↔ i.depth < d ∨ (i.depth = d ∧ i.addr < a) := by
  unfold cmpDepthAddr
  split
  · rename_i h; rw [cmpNat_eq] at h; rw [cmpNat_lt]; simp [h]
  · rename_i o hne
    constructor
    · intro h; left; exact cmpNat_lt.mp h
    · intro h
      rcases h with h | ⟨h, _⟩
      · exact cmpNat_lt.mpr h
      · exact absurd (cmpNat_eq.mpr h) (hne ·)

theorem probeOf_some {α : Type} {xs : List α} {cmp : α → Ordering} {k : Nat} {o : Ordering}
    (h : probeOf xs cmp k = o) (hk : k < xs.length) : ∃ x, xs[k]? = some x ∧ cmp x = o := by
  unfold probeOf at h
  rw [List.getElem?_eq_getElem hk] at h ⊢
  exact ⟨_, rfl, h⟩

/-- **soundness of `get_inlinee_at_depth`** — with no hypothesis on the inlinee list (sorted or
    not): the returned record is one of the list, has the requested depth, starts at or below the
    address and ends above it. -/
theorem inlineeAt_sound {inls : List Inl} {d a : Nat} {x : Inl}
    (h : inlineeAt inls d a = .ok (some x)) :
    x ∈ inls ∧ x.depth = d ∧ x.addr ≤ a ∧ a < x.addr + x.size ∧ x.addr + x.size ≤ U64MAX := by
  unfold inlineeAt at h
  simp only at h
  -- the candidate
  have hc : ∀ c, (match binarySearchBy inls.length (probeOf inls (cmpDepthAddr d a)) with
      | .found i => match inls[i]? with
        | some x => Outcome.ok (some x)
        | none => .panic "get_inlinee_at_depth: self.inlinees[index]"
      | .notFound 0 => .ok none
      | .notFound (i + 1) => match inls[i]? with
        | some x => .ok (some x)
        | none => .panic "get_inlinee_at_depth: self.inlinees[index - 1]") = .ok (some c) →
      c ∈ inls ∧ (c.depth < d ∨ (c.depth = d ∧ c.addr ≤ a)) := by
    intro c hcand
    split at hcand
    · rename_i i hbs
      obtain ⟨hi, hp⟩ := binarySearchBy_found hbs
      obtain ⟨y, hy, hcmp⟩ := probeOf_some hp hi
      rw [hy] at hcand
      simp only [Outcome.ok.injEq, Option.some.injEq] at hcand
      subst hcand
      rw [cmpDepthAddr_eq] at hcmp
      exact ⟨List.mem_of_getElem? hy, by omega⟩
    · cases hcand
    · rename_i i hbs
      obtain ⟨hi, hp⟩ := binarySearchBy_notFound_succ hbs
      obtain ⟨y, hy, hcmp⟩ := probeOf_some hp hi
      rw [hy] at hcand
      simp only [Outcome.ok.injEq, Option.some.injEq] at hcand
      subst hcand
      rw [cmpDepthAddr_lt] at hcmp
      exact ⟨List.mem_of_getElem? hy, by omega⟩
  split at h
  · cases h
  · cases h
  · rename_i c hcand
    obtain ⟨hm, hk⟩ := hc c hcand
    split at h
    · cases h
    · split at h
      · cases h
      · split at h
        · simp only [Outcome.ok.injEq, Option.some.injEq] at h
          subst h
          refine ⟨hm, by omega, by omega, by omega, by omega⟩
        · cases h

theorem funcVal_get {bs : List BFunc} {b : BFunc} (hb : b ∈ bs) :
    ∃ f, bs[funcVal bs b]? = some f ∧ f.key = b.key := by
  have hmem : b.key ∈ bs.map BFunc.key := List.mem_map_of_mem hb
  have hlt : funcVal bs b < (bs.map BFunc.key).length := List.idxOf_lt_length_iff.mpr hmem
  have hget := List.getElem_idxOf hlt
  have hlt' : funcVal bs b < bs.length := by simpa using hlt
  refine ⟨bs[funcVal bs b], List.getElem?_eq_getElem hlt', ?_⟩
  have := List.getElem_map BFunc.key (l := bs) (i := funcVal bs b) (h := hlt)
  rw [← this]
  exact hget

/-- **soundness of `functions.get`** for the table `build` produces: the function found is one
    of the stored functions and its own range contains the address. -/
theorem funcAt_sound {funcs : List BFunc} {a : Nat} {f : BFunc}
    (h : funcAt funcs (safeVecP (funcInput funcs)) a = some f) :
    f ∈ funcs ∧ 0 < f.size ∧ f.addr ≤ a ∧ a < f.addr + f.size ∧ f.addr + f.size ≤ U64MAX := by
  unfold funcAt at h
  cases hg : get (safeVecP (funcInput funcs)) a with
  | none => rw [hg] at h; cases h
  | some v =>
    rw [hg] at h
    simp only [Option.bind_some] at h
    obtain ⟨r, hr, h1, h2⟩ := getP_sound _ a v hg
    simp only [funcInput, validOnly, List.mem_filterMap, List.mem_map, Option.map_eq_some_iff] at hr
    obtain ⟨x, ⟨b, hb, rfl⟩, r', hr', heq⟩ := hr
    simp only [Prod.mk.injEq] at heq
    obtain ⟨rfl, rfl⟩ := heq
    obtain ⟨f', hf', hkey⟩ := funcVal_get hb
    rw [hf'] at h
    cases h
    simp only [BFunc.key, Prod.mk.injEq] at hkey
    obtain ⟨ha, hs, -⟩ := hkey
    obtain ⟨w1, w2, w3, w4⟩ := mkRange_wf hr'
    have hpos : 0 < b.size ∧ b.addr + b.size ≤ U64MAX := by
      unfold mkRange at hr'; split at hr'
      · cases hr'
      · split at hr'
        · cases hr'
        · omega
    refine ⟨List.mem_of_getElem? hf', by omega, by omega, by omega, by omega⟩

/-- **soundness of `lines.get`** for the table `finish_item` produces -/
theorem lineAt_sound {b : BFunc} (hl : b.ltab = safeVec (lineInput b.lines)) {a : Nat} {l : Line}
    (h : lineAt b a = some l) :
    l ∈ b.lines ∧ 0 < l.size ∧ l.addr ≤ a ∧ a ≤ l.addr + (l.size - 1) ∧
      l.addr + (l.size - 1) ≤ U64MAX := by
  unfold lineAt at h
  rw [hl] at h
  cases hg : get (safeVec (lineInput b.lines)) a with
  | none => rw [hg] at h; cases h
  | some v =>
    rw [hg] at h
    simp only [Option.bind_some] at h
    obtain ⟨r, hr, h1, h2⟩ := get_sound _ a v hg
    simp only [lineInput, List.mem_map, Prod.mk.injEq] at hr
    obtain ⟨l', hl', hr', rfl⟩ := hr
    have hlt : List.idxOf l' b.lines < b.lines.length := List.idxOf_lt_length_iff.mpr hl'
    rw [List.getElem?_eq_getElem hlt, List.getElem_idxOf hlt] at h
    cases h
    obtain ⟨w1, w2, w3⟩ := mkRangeLine_wf hr'
    have hpos : 0 < l.size := by
      unfold mkRangeLine at hr'; split at hr'
      · cases hr'
      · omega
    have hhi : r.hi = l.addr + (l.size - 1) := by
      unfold mkRangeLine at hr'; split at hr'
      · cases hr'
      · split at hr'
        · cases hr'
        · cases hr'; rfl
    exact ⟨hl', hpos, by omega, by omega, by omega⟩

/-! ### unfolding `fillSymbol` -/

theorem checkedAdd_ok {a b : Nat} {site : String} {c : Nat} (h : checkedAdd a b site = .ok c) :
    c = a + b ∧ a + b ≤ U64MAX := by
  unfold checkedAdd at h
  split at h
  · cases h
  · cases h; exact ⟨rfl, by omega⟩

theorem checkedAdd_of_le {a b : Nat} (site : String) (h : a + b ≤ U64MAX) :
    checkedAdd a b site = .ok (a + b) := by
  unfold checkedAdd
  rw [if_neg (by omega)]

theorem setSource_ok {sf : SymFile} {fr fr' : Frame} {fid line address base : Nat}
    (h : setSource sf fr fid line address base = .ok fr') :
    (mapGet sf.files fid = none ∧ fr' = fr) ∨
    (∃ file, mapGet sf.files fid = some file ∧ address + base ≤ U64MAX ∧
      fr' = { fr with src := some (file, line, address + base) }) := by
  unfold setSource at h
  split at h
  · rename_i hm; cases h; exact .inl ⟨hm, rfl⟩
  · rename_i file hm
    split at h
    · cases h
    · rename_i b hb
      obtain ⟨rfl, hle⟩ := checkedAdd_ok hb
      cases h
      exact .inr ⟨file, hm, hle, rfl⟩

/-- the three ways `fill_symbol` ends once a FUNC has been found -/
inductive FuncCase (sf : SymFile) (f : BFunc) (base addr : Nat) (fr : Frame) : Prop where
  /-- a depth-0 inlinee covers the address: its call site is the source location, the inline
      loop produces the inline frames -/
  | inlined (x : Inl) (fr0 : Frame) (inl : List InlineFrame)
      (h0 : inlineeAt f.inls 0 addr = .ok (some x))
      (hs : setSource sf { fn := some (f.name, f.addr + base, paramSize sf addr f) }
              x.callFile x.callLine x.addr base = .ok fr0)
      (hl : inlineLoop sf f addr (f.inls.length + 1) 1 x.origin = some (.ok inl))
      (hfr : fr = { fr0 with inl := inl })
  /-- no inlinee, a line record covers the address -/
  | line (l : Line)
      (h0 : inlineeAt f.inls 0 addr = .ok none)
      (hl : lineAt f addr = some l)
      (hs : setSource sf { fn := some (f.name, f.addr + base, paramSize sf addr f) }
              l.file l.line l.addr base = .ok fr)
  /-- neither -/
  | bare
      (h0 : inlineeAt f.inls 0 addr = .ok none)
      (hl : lineAt f addr = none)
      (hfr : fr = { fn := some (f.name, f.addr + base, paramSize sf addr f) })

theorem fillSymbol_func {sf : SymFile} {base instr : Nat} {fr : Frame} {f : BFunc}
    (hge : base ≤ instr) (hf : funcAt sf.funcs sf.ftab (instr - base) = some f)
    (h : fillSymbol sf base instr = .ok fr) :
    f.addr + base ≤ U64MAX ∧ FuncCase sf f base (instr - base) fr := by
  unfold fillSymbol at h
  rw [if_neg (by omega)] at h
  simp only [hf] at h
  split at h
  · cases h
  · rename_i fbase hfb
    obtain ⟨rfl, hle⟩ := checkedAdd_ok hfb
    refine ⟨hle, ?_⟩
    split at h
    · cases h
    · rename_i x h0
      split at h
      · cases h
      · rename_i fr0 hs
        split at h
        · cases h
        · cases h
        · rename_i inl hl
          cases h
          exact .inlined x fr0 inl h0 hs hl rfl
    · rename_i h0
      split at h
      · rename_i hl
        cases h
        exact .bare h0 hl rfl
      · rename_i l hl
        exact .line l h0 hl h

/-- `fill_symbol` when no FUNC covers the address -/
theorem fillSymbol_nofunc {sf : SymFile} {base instr : Nat} {fr : Frame}
    (hge : base ≤ instr) (hf : funcAt sf.funcs sf.ftab (instr - base) = none)
    (h : fillSymbol sf base instr = .ok fr) :
    fr = {} ∨
    ∃ p, findNearestPublic sf.pubs (instr - base) = some p ∧
      (∀ prev, prevFunc sf (instr - base) = some prev → prev.addr < p.addr) ∧
      p.addr + base ≤ U64MAX ∧ fr = { fn := some (p.name, p.addr + base, p.psize) } := by
  unfold fillSymbol at h
  rw [if_neg (by omega)] at h
  simp only [hf] at h
  split at h
  · cases h; exact .inl rfl
  · rename_i p hp
    split at h
    · rename_i prev hprev
      split at h
      · cases h; exact .inl rfl
      · rename_i hcut
        split at h
        · cases h
        · rename_i b hb
          obtain ⟨rfl, hle⟩ := checkedAdd_ok hb
          cases h
          refine .inr ⟨p, hp, ?_, hle, rfl⟩
          intro q hq; rw [hprev] at hq; cases hq; omega
    · rename_i hprev
      split at h
      · cases h
      · rename_i b hb
        obtain ⟨rfl, hle⟩ := checkedAdd_ok hb
        cases h
        refine .inr ⟨p, hp, ?_, hle, rfl⟩
        intro q hq; rw [hprev] at hq; cases hq

theorem fillSymbol_below {sf : SymFile} {base instr : Nat} (hlt : instr < base) :
    fillSymbol sf base instr = .ok {} := by
  unfold fillSymbol; rw [if_pos hlt]

/-! ### the inline loop -/

theorem filter_length_mono {α : Type} (l : List α) (p q : α → Bool)
    (hpq : ∀ x, p x = true → q x = true) : (l.filter p).length ≤ (l.filter q).length := by
  induction l with
  | nil => simp
  | cons z rest ih =>
    simp only [List.filter_cons]
    cases hp : p z <;> cases hq : q z
    · simpa using ih
    · simp only [Bool.false_eq_true, if_false, if_true, List.length_cons]; omega
    · have := hpq z hp; rw [hq] at this; cases this
    · simp only [if_true, List.length_cons]; omega

theorem filter_length_lt {α : Type} (l : List α) (p q : α → Bool) (hpq : ∀ x, p x = true → q x = true)
    (x : α) (hx : x ∈ l) (hqx : q x = true) (hpx : p x = false) :
    (l.filter p).length < (l.filter q).length := by
  induction l with
  | nil => cases hx
  | cons y rest ih =>
    have hle := filter_length_mono rest p q hpq
    rcases List.mem_cons.mp hx with rfl | hx
    · simp only [List.filter_cons, hqx, hpx, if_true, Bool.false_eq_true, if_false, List.length_cons]
      omega
    · have := ih hx
      simp only [List.filter_cons]
      cases hp : p y <;> cases hq : q y
      · simpa using this
      · simp only [Bool.false_eq_true, if_false, if_true, List.length_cons]; omega
      · have := hpq y hp; rw [hq] at this; cases this
      · simp only [if_true, List.length_cons]; omega

/-- the loop returns as soon as the fuel exceeds the number of inlinees at the current depth or
    deeper: every round that continues has found an inlinee of exactly the current depth -/
theorem inlineLoop_ne_none (sf : SymFile) (f : BFunc) (addr : Nat) (fuel depth origin : Nat)
    (h : (f.inls.filter fun x => decide (depth ≤ x.depth)).length < fuel) :
    inlineLoop sf f addr fuel depth origin ≠ none := by
  induction fuel generalizing depth origin with
  | zero => omega
  | succ fuel ih =>
    simp only [inlineLoop]
    split
    · simp
    · split
      · simp
      · simp
      · rename_i x hx
        obtain ⟨hm, hd, _⟩ := inlineeAt_sound hx
        have hlt := filter_length_lt f.inls (fun y => decide (depth + 1 ≤ y.depth))
          (fun y => decide (depth ≤ y.depth)) (by intro y hy; simp at hy ⊢; omega) x hm
          (by simp; omega) (by simp; omega)
        have := ih (depth + 1) x.origin (by omega)
        split
        · rename_i hn; exact absurd hn this
        · simp
        · simp

/-- the inline frames for a chain of inlinees: `origin` names the function the chain starts in
    (the origin of the inlinee one depth up), `xs` are the inlinees at the following depths. The
    frame of each depth carries the name of *its* origin and the call site recorded in the *next*
    deeper inlinee ("call sites shifted by one depth"); the last frame carries the innermost line
    record. Frames whose origin id has no INLINE_ORIGIN record are skipped, as in the code. -/
def chainFrames (sf : SymFile) (f : BFunc) (addr : Nat) : Nat → List Inl → List InlineFrame
  | origin, [] => lastInline sf f addr origin
  | origin, y :: rest =>
    (match mapGet sf.origins origin with
      | some name => [⟨name, mapGet sf.files y.callFile, some y.callLine⟩]
      | none => []) ++ chainFrames sf f addr y.origin rest

theorem inlineLoop_chain (sf : SymFile) (f : BFunc) (addr : Nat) (fuel depth origin : Nat)
    (inl : List InlineFrame) (h : inlineLoop sf f addr fuel depth origin = some (.ok inl)) :
    ∃ xs : List Inl,
      (∀ k x, xs[k]? = some x → inlineeAt f.inls (depth + k) addr = .ok (some x)) ∧
      inlineeAt f.inls (depth + xs.length) addr = .ok none ∧
      inl = chainFrames sf f addr origin xs := by
  induction fuel generalizing depth origin inl with
  | zero => simp [inlineLoop] at h
  | succ fuel ih =>
    simp only [inlineLoop] at h
    split at h
    · cases h
    · split at h
      · cases h
      · rename_i hn
        simp only [Option.some.injEq, Outcome.ok.injEq] at h
        exact ⟨[], by simp, by simpa using hn, by simp [chainFrames, h]⟩
      · rename_i x hx
        split at h
        · cases h
        · cases h
        · rename_i rest hrest
          simp only [Option.some.injEq, Outcome.ok.injEq] at h
          obtain ⟨xs, h1, h2, h3⟩ := ih (depth + 1) x.origin rest hrest
          refine ⟨x :: xs, ?_, ?_, ?_⟩
          · intro k y hk
            cases k with
            | zero => simp at hk; subst hk; simpa using hx
            | succ k =>
              simp at hk
              have := h1 k y hk
              rw [show depth + (k + 1) = depth + 1 + k by omega]; exact this
          · rw [show depth + (x :: xs).length = depth + 1 + xs.length by simp; omega]; exact h2
          · simp only [chainFrames, ← h3]; exact h.symm

/-! ### no panic -/

theorem inlineeAt_ok (inls : List Inl) (d a : Nat) : ∃ o, inlineeAt inls d a = .ok o := by
  unfold inlineeAt
  simp only
  split
  · rename_i s hc
    -- the candidate cannot be a panic: both indices are in range
    split at hc
    · rename_i i hbs
      obtain ⟨hi, _⟩ := binarySearchBy_found hbs
      rw [List.getElem?_eq_getElem hi] at hc
      cases hc
    · cases hc
    · rename_i i hbs
      obtain ⟨hi, _⟩ := binarySearchBy_notFound_succ hbs
      rw [List.getElem?_eq_getElem hi] at hc
      cases hc
  · exact ⟨_, rfl⟩
  · split
    · exact ⟨_, rfl⟩
    · split
      · exact ⟨_, rfl⟩
      · split <;> exact ⟨_, rfl⟩

theorem inlineLoop_ok (sf : SymFile) (f : BFunc) (addr : Nat) (fuel depth origin : Nat)
    (hfuel : (f.inls.filter fun x => decide (depth ≤ x.depth)).length < fuel)
    (hd : depth + (f.inls.filter fun x => decide (depth ≤ x.depth)).length < U32MAX) :
    ∃ inl, inlineLoop sf f addr fuel depth origin = some (.ok inl) := by
  induction fuel generalizing depth origin with
  | zero => omega
  | succ fuel ih =>
    simp only [inlineLoop]
    rw [if_neg (by omega)]
    obtain ⟨o, ho⟩ := inlineeAt_ok f.inls depth addr
    rw [ho]
    cases o with
    | none => exact ⟨_, rfl⟩
    | some x =>
      simp only
      obtain ⟨hm, hdx, _⟩ := inlineeAt_sound ho
      have hlt := filter_length_lt f.inls (fun y => decide (depth + 1 ≤ y.depth))
        (fun y => decide (depth ≤ y.depth)) (by intro y hy; simp at hy ⊢; omega) x hm
        (by simp; omega) (by simp; omega)
      obtain ⟨rest, hrest⟩ := ih (depth + 1) x.origin (by omega) (by omega)
      rw [hrest]
      exact ⟨_, rfl⟩

theorem setSource_ne_panic (sf : SymFile) (fr : Frame) (fid line address base : Nat)
    (h : address + base ≤ U64MAX) : ∃ fr', setSource sf fr fid line address base = .ok fr' := by
  unfold setSource
  split
  · exact ⟨_, rfl⟩
  · rw [checkedAdd_of_le _ h]; exact ⟨_, rfl⟩

/-! ### the derived orders -/

theorem lexLe_refl (a : List Nat) : lexLe a a = true := by
  induction a with
  | nil => rfl
  | cons x xs ih => simp [lexLe, ih]

theorem lexLe_total (a b : List Nat) : lexLe a b = true ∨ lexLe b a = true := by
  induction a generalizing b with
  | nil => left; rfl
  | cons x xs ih =>
    cases b with
    | nil => right; rfl
    | cons y ys =>
      simp only [lexLe, Bool.or_eq_true, Bool.and_eq_true, decide_eq_true_eq, beq_iff_eq]
      rcases Nat.lt_trichotomy x y with h | h | h
      · left; left; exact h
      · rcases ih ys with h' | h'
        · left; right; exact ⟨h, h'⟩
        · right; right; exact ⟨h.symm, h'⟩
      · right; left; exact h

theorem lexLe_trans (a b c : List Nat) : lexLe a b = true → lexLe b c = true → lexLe a c = true := by
  induction a generalizing b c with
  | nil => intros; rfl
  | cons x xs ih =>
    cases b with
    | nil => intro h; simp [lexLe] at h
    | cons y ys =>
      cases c with
      | nil => intro _ h; simp [lexLe] at h
      | cons z zs =>
        simp only [lexLe, Bool.or_eq_true, Bool.and_eq_true, decide_eq_true_eq, beq_iff_eq]
        intro h1 h2
        rcases h1 with h1 | ⟨h1, h1'⟩ <;> rcases h2 with h2 | ⟨h2, h2'⟩
        · left; omega
        · left; omega
        · left; omega
        · right; exact ⟨by omega, ih ys zs h1' h2'⟩

theorem lexLe_antisymm (a b : List Nat) : lexLe a b = true → lexLe b a = true → a = b := by
  induction a generalizing b with
  | nil => cases b with
    | nil => intros; rfl
    | cons y ys => intro _ h; simp [lexLe] at h
  | cons x xs ih =>
    cases b with
    | nil => intro h; simp [lexLe] at h
    | cons y ys =>
      simp only [lexLe, Bool.or_eq_true, Bool.and_eq_true, decide_eq_true_eq, beq_iff_eq]
      intro h1 h2
      rcases h1 with h1 | ⟨h1, h1'⟩ <;> rcases h2 with h2 | ⟨h2, h2'⟩
      · omega
      · omega
      · omega
      · rw [h1, ih ys h1' h2']

theorem pubLe_iff (p q : Pub) : pubLe p q = true ↔
    p.addr < q.addr ∨ (p.addr = q.addr ∧
      ((lexLe p.name q.name = true ∧ p.name ≠ q.name) ∨ (p.name = q.name ∧ p.psize ≤ q.psize))) := by
  simp [pubLe]

theorem pubLe_refl (p : Pub) : pubLe p p = true := by
  rw [pubLe_iff]; right; exact ⟨rfl, .inr ⟨rfl, Nat.le_refl _⟩⟩

theorem pubLe_total (p q : Pub) : (pubLe p q || pubLe q p) = true := by
  rw [Bool.or_eq_true, pubLe_iff, pubLe_iff]
  rcases Nat.lt_trichotomy p.addr q.addr with h | h | h
  · left; left; exact h
  · by_cases hn : p.name = q.name
    · rcases Nat.le_total p.psize q.psize with h' | h'
      · left; right; exact ⟨h, .inr ⟨hn, h'⟩⟩
      · right; right; exact ⟨h.symm, .inr ⟨hn.symm, h'⟩⟩
    · rcases lexLe_total p.name q.name with h' | h'
      · left; right; exact ⟨h, .inl ⟨h', hn⟩⟩
      · right; right; exact ⟨h.symm, .inl ⟨h', fun e => hn e.symm⟩⟩
  · right; left; exact h

theorem pubLe_trans (p q s : Pub) : pubLe p q = true → pubLe q s = true → pubLe p s = true := by
  rw [pubLe_iff, pubLe_iff, pubLe_iff]
  intro h1 h2
  rcases h1 with h1 | ⟨h1, h1'⟩ <;> rcases h2 with h2 | ⟨h2, h2'⟩
  · left; omega
  · left; omega
  · left; omega
  · right
    refine ⟨by omega, ?_⟩
    rcases h1' with ⟨a1, a2⟩ | ⟨a1, a2⟩ <;> rcases h2' with ⟨b1, b2⟩ | ⟨b1, b2⟩
    · left
      refine ⟨lexLe_trans _ _ _ a1 b1, ?_⟩
      intro e
      rw [← e] at b1
      exact a2 (lexLe_antisymm _ _ a1 b1)
    · left; rw [← b1]; exact ⟨a1, a2⟩
    · left; rw [a1]; exact ⟨b1, b2⟩
    · right; exact ⟨a1.trans b1, by omega⟩

/-- `p` is the nearest preceding PUBLIC of `a`: the greatest PUBLIC record, in the order the
    parser sorts them by (address, then name, then parameter size), among those at or below `a`.
    In particular no PUBLIC lies strictly between `p.addr` and `a`. -/
def NearestPublic (pubs : List Pub) (a : Nat) (p : Pub) : Prop :=
  p ∈ pubs ∧ p.addr ≤ a ∧ ∀ q ∈ pubs, q.addr ≤ a → pubLe q p = true

theorem NearestPublic.addr_max {pubs : List Pub} {a : Nat} {p : Pub} (h : NearestPublic pubs a p) :
    ∀ q ∈ pubs, q.addr ≤ a → q.addr ≤ p.addr := by
  intro q hq hqa
  have := (pubLe_iff q p).mp (h.2.2 q hq hqa)
  omega

theorem findNearestPublic_spec (pubs : List Pub) (a : Nat) :
    (∀ p, findNearestPublic (pubs.mergeSort pubLe) a = some p → NearestPublic pubs a p) ∧
    (findNearestPublic (pubs.mergeSort pubLe) a = none → ∀ q ∈ pubs, a < q.addr) := by
  have hsorted : (pubs.mergeSort pubLe).Pairwise (fun x y => pubLe x y = true) :=
    List.pairwise_mergeSort pubLe_trans pubLe_total pubs
  constructor
  · intro p h
    unfold findNearestPublic at h
    obtain ⟨hp, as, bs, hsplit, has⟩ := List.find?_eq_some_iff_append.mp h
    have hrev : pubs.mergeSort pubLe = bs.reverse ++ p :: as.reverse := by
      have := congrArg List.reverse hsplit
      simpa using this
    rw [hrev] at hsorted
    have hmem : ∀ q, q ∈ pubs ↔ q ∈ bs.reverse ++ p :: as.reverse := by
      intro q; rw [← hrev]; exact List.mem_mergeSort.symm
    refine ⟨(hmem p).mpr (by simp), by simpa using hp, ?_⟩
    intro q hq hqa
    rcases List.mem_append.mp ((hmem q).mp hq) with hq | hq
    · exact (List.pairwise_append.mp hsorted).2.2 q hq p List.mem_cons_self
    · rcases List.mem_cons.mp hq with rfl | hq
      · exact pubLe_refl _
      · have := has q (List.mem_reverse.mp hq)
        simp at this
        omega
  · intro h q hq
    unfold findNearestPublic at h
    have := List.find?_eq_none.mp h q (List.mem_reverse.mpr (List.mem_mergeSort.mpr hq))
    simp at this
    omega

/-! ### binary search over a sorted sequence: the last element that is not `Greater` -/

theorem bsLoop_upper (probe : Nat → Ordering) (n : Nat)
    (hmono : ∀ i j, i ≤ j → j < n → probe i = .gt → probe j = .gt)
    (fuel base size : Nat) (hs : 1 ≤ size) (hf : size ≤ fuel + 1) (hn : base + size ≤ n)
    (hup : ∀ j, base + size ≤ j → j < n → probe j = .gt) :
    ∀ j, bsLoop probe fuel base size < j → j < n → probe j = .gt := by
  induction fuel generalizing base size with
  | zero =>
    simp only [bsLoop]
    intro j hj hjn
    exact hup j (by omega) hjn
  | succ fuel ih =>
    simp only [bsLoop]
    split
    · rename_i h1
      have hh : 1 ≤ size - size / 2 := by omega
      have hf' : size - size / 2 ≤ fuel + 1 := by omega
      split
      · rename_i hgt
        apply ih base (size - size / 2) hh hf' (by omega)
        intro j hj hjn
        exact hmono (base + size / 2) j (by omega) hjn hgt
      · apply ih (base + size / 2) (size - size / 2) hh hf' (by omega)
        intro j hj hjn
        exact hup j (by omega) hjn
    · intro j hj hjn
      exact hup j (by omega) hjn

theorem binarySearchBy_mono {n : Nat} {probe : Nat → Ordering}
    (hmono : ∀ i j, i ≤ j → j < n → probe i = .gt → probe j = .gt) :
    (∀ i, binarySearchBy n probe = .found i →
        i < n ∧ probe i = .eq ∧ ∀ j, i < j → j < n → probe j = .gt) ∧
    (binarySearchBy n probe = .notFound 0 → ∀ j, j < n → probe j = .gt) ∧
    (∀ i, binarySearchBy n probe = .notFound (i + 1) →
        i < n ∧ probe i = .lt ∧ ∀ j, i < j → j < n → probe j = .gt) := by
  unfold binarySearchBy
  by_cases hn : n = 0
  · simp only [hn, if_true]
    refine ⟨?_, ?_, ?_⟩
    · intro i h; cases h
    · intro _ j hj; omega
    · intro i h; cases h
  · simp only [hn, if_false]
    have hr := bsLoop_range probe n 0 n (by omega)
    have hg := bsLoop_notgt probe n 0 n
    have hu := bsLoop_upper probe n hmono n 0 n (by omega) (by omega) (by omega)
      (by intro j hj hjn; omega)
    generalize bsLoop probe n 0 n = L at hr hg hu
    refine ⟨?_, ?_, ?_⟩
    · intro i h
      split at h
      · rename_i he; cases h; exact ⟨by omega, he, hu⟩
      · cases h
      · cases h
    · intro h j hj
      split at h
      · cases h
      · cases h
      · rename_i he
        simp only [BS.notFound.injEq] at h
        subst h
        by_cases hj0 : j = 0
        · subst hj0; exact he
        · exact hu j (by omega) hj
    · intro i h
      split at h
      · cases h
      · rename_i he
        simp only [BS.notFound.injEq] at h
        have : L = i := by omega
        subst this
        exact ⟨by omega, he, hu⟩
      · rename_i he
        simp only [BS.notFound.injEq] at h
        rcases hg with hg | hg
        · omega
        · exact absurd he hg

/-! ### table entries are records -/

theorem keep_some_loval (src : List Entry) (l : Entry) (xs : List Entry)
    (hl : ∃ s ∈ src, s.1.lo = l.1.lo ∧ s.2 = l.2) (hx : ∀ e ∈ xs, e ∈ src) :
    ∀ e' ∈ keep (some l) xs, ∃ s ∈ src, s.1.lo = e'.1.lo ∧ s.2 = e'.2 := by
  induction xs generalizing l with
  | nil => intro e' he'; simp [keep] at he'; subst he'; exact hl
  | cons e rest ih =>
    obtain ⟨lr, lv⟩ := l
    have hrest : ∀ e ∈ rest, e ∈ src := fun x h => hx x (List.mem_cons_of_mem _ h)
    simp only [keep]
    split
    · exact ih (lr, lv) hl hrest
    · split
      · exact ih _ (by simpa using hl) hrest
      · intro e' he'
        rcases List.mem_cons.mp he' with rfl | he'
        · exact hl
        · exact ih e ⟨e, hx e List.mem_cons_self, rfl, rfl⟩ hrest e' he'

/-- every entry of a table built by the safe builder has the start and the value of an input entry -/
theorem keep_loval (xs : List Entry) : ∀ e' ∈ keep none xs, ∃ s ∈ xs, s.1.lo = e'.1.lo ∧ s.2 = e'.2 := by
  cases xs with
  | nil => intro e' he'; simp [keep] at he'
  | cons e rest =>
    simp only [keep]
    exact keep_some_loval (e :: rest) e rest ⟨e, List.mem_cons_self, rfl, rfl⟩
      (fun x h => List.mem_cons_of_mem _ h)

/-- every entry of the function table stands for a stored function with a valid range that
    starts where the entry starts -/
theorem ftab_entry {bs : List BFunc} {e : Entry} (he : e ∈ safeVecP (funcInput bs)) :
    ∃ g, bs[e.2]? = some g ∧ g ∈ bs ∧ g.addr = e.1.lo ∧ 0 < g.size ∧ g.addr + g.size ≤ U64MAX := by
  obtain ⟨s, hs, hlo, hv⟩ := keep_loval _ e he
  have hs' : s ∈ funcInput bs := List.mem_mergeSort.mp hs
  simp only [funcInput, validOnly, List.mem_filterMap, List.mem_map, Option.map_eq_some_iff] at hs'
  obtain ⟨x, ⟨b, hb, rfl⟩, r', hr', rfl⟩ := hs'
  obtain ⟨g, hg, hkey⟩ := funcVal_get hb
  simp only [BFunc.key, Prod.mk.injEq] at hkey
  obtain ⟨ha, hsz, -⟩ := hkey
  obtain ⟨w1, w2, w3, w4⟩ := mkRange_wf hr'
  have hpos : 0 < b.size ∧ b.addr + b.size ≤ U64MAX := by
    unfold mkRange at hr'; split at hr'
    · cases hr'
    · split at hr'
      · cases hr'
      · omega
  simp only at hlo hv
  refine ⟨g, by rw [← hv]; exact hg, List.mem_of_getElem? hg, by omega, by omega, by omega⟩

/-! ### the nearest previous FUNC -/

theorem sep_lo_mono {m : List Entry} (hs : Sep m) {i j : Nat} {x y : Entry}
    (hi : m[i]? = some x) (hj : m[j]? = some y) (hij : i ≤ j) : x.1.lo ≤ y.1.lo := by
  by_cases h : i = j
  · subst h; rw [hi] at hj; cases hj; omega
  · have hi' := List.getElem?_eq_some_iff.mp hi
    have hj' := List.getElem?_eq_some_iff.mp hj
    obtain ⟨hil, rfl⟩ := hi'
    obtain ⟨hjl, rfl⟩ := hj'
    have := List.pairwise_iff_getElem.mp hs.pairwise i j hil hjl (by omega)
    have hw := (hs.wf _ (List.getElem_mem hil)).1
    omega

/-- what `prev_func` is, for a normalized table: nothing if no entry starts below the address (or
    one starts exactly at it), else the entry with the greatest start below the address -/
theorem prevEntry_spec (m : List Entry) (hs : Sep m) (a : Nat) :
    (∀ i, binarySearchBy m.length (probeOf m fun e => cmpNat e.1.lo a) = .found i →
        ∃ e, m[i]? = some e ∧ e.1.lo = a) ∧
    (binarySearchBy m.length (probeOf m fun e => cmpNat e.1.lo a) = .notFound 0 →
        ∀ e ∈ m, a < e.1.lo) ∧
    (∀ i, binarySearchBy m.length (probeOf m fun e => cmpNat e.1.lo a) = .notFound (i + 1) →
        ∃ e, m[i]? = some e ∧ e.1.lo < a ∧ ∀ e' ∈ m, e'.1.lo ≤ a → e'.1.lo ≤ e.1.lo) := by
  have hmono : ∀ i j, i ≤ j → j < m.length →
      probeOf m (fun e => cmpNat e.1.lo a) i = .gt → probeOf m (fun e => cmpNat e.1.lo a) j = .gt := by
    intro i j hij hj hgt
    obtain ⟨x, hx, hcx⟩ := probeOf_some hgt (by omega)
    obtain ⟨y, hy, hcy⟩ := probeOf_some (o := probeOf m (fun e => cmpNat e.1.lo a) j) rfl hj
    rw [← hcy]
    have := sep_lo_mono hs hx hy hij
    rw [cmpNat_gt] at hcx ⊢
    omega
  obtain ⟨h1, h2, h3⟩ := binarySearchBy_mono hmono
  refine ⟨?_, ?_, ?_⟩
  · intro i h
    obtain ⟨hi, he, _⟩ := h1 i h
    obtain ⟨x, hx, hcx⟩ := probeOf_some he hi
    exact ⟨x, hx, cmpNat_eq.mp hcx⟩
  · intro h e he
    obtain ⟨j, hj, rfl⟩ := List.getElem_of_mem he
    have := h2 h j hj
    obtain ⟨y, hy, hcy⟩ := probeOf_some this hj
    rw [List.getElem?_eq_getElem hj] at hy
    cases hy
    exact cmpNat_gt.mp hcy
  · intro i h
    obtain ⟨hi, he, hup⟩ := h3 i h
    obtain ⟨x, hx, hcx⟩ := probeOf_some he hi
    refine ⟨x, hx, cmpNat_lt.mp hcx, ?_⟩
    intro e' he' hle
    obtain ⟨j, hj, rfl⟩ := List.getElem_of_mem he'
    by_cases hji : j ≤ i
    · exact sep_lo_mono hs (List.getElem?_eq_getElem hj) hx hji
    · have := hup j (by omega) hj
      obtain ⟨y, hy, hcy⟩ := probeOf_some this hj
      rw [List.getElem?_eq_getElem hj] at hy
      cases hy
      have := cmpNat_gt.mp hcy
      omega

end MdModel.Symbolize
