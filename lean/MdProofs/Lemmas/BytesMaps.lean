/-
  MdProofs.Lemmas.BytesMaps — `MinidumpLinuxMaps` on arbitrary bytes (MdModel.DumpMaps over C02's
  line parser in MdModel.Dump2): the reader reaches a panic outcome exactly on `MapsHostile` text,
  its outcome is the one of C02's `mapsLoop`, and every logged allocation is backed by the stream.
-/
import MdModel.DumpMaps
import MdProofs.Lemmas.BytesFull
namespace MdModel.Dump
open MdModel

/-! ### panic outcomes of monadic code -/

/-- the panic outcome is reached -/
def IsPanic {α : Type} (m : M α) : Prop := ∃ s, m.res = .panic s

theorem isPanic_pure {α : Type} (a : α) : ¬ IsPanic (pure a : M α) := by intro ⟨s, h⟩; cases h
theorem isPanic_fail {α : Type} (e : Err) : ¬ IsPanic (M.fail e : M α) := by intro ⟨s, h⟩; cases h
theorem isPanic_panic {α : Type} (site : String) : IsPanic (M.panic site : M α) := ⟨site, rfl⟩

theorem isPanic_bind {α β : Type} (x : M α) (f : α → M β) :
    IsPanic (x >>= f) ↔ IsPanic x ∨ ∃ a, x.res = .ok a ∧ IsPanic (f a) := by
  rw [M.bind_def]
  unfold M.bind' IsPanic
  cases hres : x.res with
  | ok a =>
    constructor
    · intro ⟨s, h⟩; exact .inr ⟨a, rfl, s, h⟩
    · intro h
      cases h with
      | inl h => obtain ⟨s, h⟩ := h; cases h
      | inr h => obtain ⟨a', ha', s, h⟩ := h; cases ha'; exact ⟨s, h⟩
  | err e =>
    constructor
    · intro ⟨s, h⟩; cases h
    · intro h
      cases h with
      | inl h => obtain ⟨s, h⟩ := h; cases h
      | inr h => obtain ⟨a', ha', _⟩ := h; cases ha'
  | panic p =>
    constructor
    · intro _; exact .inl ⟨p, rfl⟩
    · intro _; exact ⟨p, rfl⟩

theorem isPanic_alloc_bind {β : Type} (n sz : Nat) (ex : Bool) (f : Unit → M β) :
    IsPanic (M.alloc n sz ex >>= f) ↔ IsPanic (f ()) := by
  rw [isPanic_bind]
  constructor
  · intro h
    cases h with
    | inl h => obtain ⟨s, h⟩ := h; cases h
    | inr h => obtain ⟨a, _, h⟩ := h; exact h
  · intro h; exact .inr ⟨(), rfl, h⟩

theorem noPanic_iff {α : Type} (m : M α) : NoPanic m ↔ ¬ IsPanic m := by
  unfold NoPanic IsPanic
  constructor
  · intro h ⟨s, hs⟩; exact h s hs
  · intro h s hs; exact h ⟨s, hs⟩

/-! ### the path column: `MMapPath::from` panics exactly on the two hostile shapes -/

theorem startsWithB_eq {s p : List UInt8} (h : startsWithB s p = true) : ∃ t, s = p ++ t := by
  unfold startsWithB at h
  exact ⟨s.drop p.length, (List.prefix_iff_eq_append.mp (List.isPrefixOf_iff_prefix.mp h)).symm⟩

theorem mapPathOf_panic_iff (raw : List UInt8) : IsPanic (mapPathOf raw) ↔ HostilePath (trimBytes raw) = true := by
  unfold mapPathOf HostilePath HostileStackPath HostileSysvPath
  generalize trimBytes raw = x
  simp only
  by_cases hst : startsWithB x S_STACK_COLON = true
  · -- `[stack:…`: none of the fixed names, the slice end decides
    obtain ⟨t, rfl⟩ := startsWithB_eq hst
    have hne : (S_STACK_COLON ++ t == []) = false := by simp [S_STACK_COLON]
    have h1 : (S_STACK_COLON ++ t == S_HEAP) = false := by simp [S_STACK_COLON, S_HEAP]
    have h2 : (S_STACK_COLON ++ t == S_STACK) = false := by simp [S_STACK_COLON, S_STACK]
    have h3 : (S_STACK_COLON ++ t == S_VDSO) = false := by simp [S_STACK_COLON, S_VDSO]
    have h4 : (S_STACK_COLON ++ t == S_VVAR) = false := by simp [S_STACK_COLON, S_VVAR]
    have h5 : (S_STACK_COLON ++ t == S_VSYSCALL) = false := by simp [S_STACK_COLON, S_VSYSCALL]
    have h6 : (S_STACK_COLON ++ t == S_ROLLUP) = false := by simp [S_STACK_COLON, S_ROLLUP]
    have hsv : startsWithB (S_STACK_COLON ++ t) S_SYSV = false := by simp [startsWithB, S_STACK_COLON, S_SYSV, List.isPrefixOf]
    simp only [hne, h1, h2, h3, h4, h5, h6, hst, hsv, Bool.false_eq_true, ↓reduceIte, Bool.true_and, Bool.false_and, Bool.or_false]
    split
    · rename_i hlast
      exact ⟨fun _ => hlast, fun _ => isPanic_panic _⟩
    · rename_i hlast
      constructor
      · intro hp
        exfalso
        split at hp
        · exact isPanic_fail _ hp
        · split at hp
          · exact isPanic_fail _ hp
          · exact isPanic_pure _ hp
      · intro h; exact absurd h hlast
  · have hst' : startsWithB x S_STACK_COLON = false := by simpa using hst
    by_cases hsv : startsWithB x S_SYSV = true
    · obtain ⟨t, rfl⟩ := startsWithB_eq hsv
      have hne : (S_SYSV ++ t == []) = false := by simp [S_SYSV]
      have h1 : (S_SYSV ++ t == S_HEAP) = false := by simp [S_SYSV, S_HEAP]
      have h2 : (S_SYSV ++ t == S_STACK) = false := by simp [S_SYSV, S_STACK]
      have h3 : (S_SYSV ++ t == S_VDSO) = false := by simp [S_SYSV, S_VDSO]
      have h4 : (S_SYSV ++ t == S_VVAR) = false := by simp [S_SYSV, S_VVAR]
      have h5 : (S_SYSV ++ t == S_VSYSCALL) = false := by simp [S_SYSV, S_VSYSCALL]
      have h6 : (S_SYSV ++ t == S_ROLLUP) = false := by simp [S_SYSV, S_ROLLUP]
      have hbr : ¬ (((S_SYSV ++ t).head? == some 91) = true ∧ ((S_SYSV ++ t).getLast? == some 93) = true) := by
        intro ⟨h, _⟩; simp [S_SYSV] at h
      simp only [hne, h1, h2, h3, h4, h5, h6, hst', hsv, hbr, Bool.false_eq_true, ↓reduceIte, Bool.true_and, Bool.false_and,
        Bool.false_or, Bool.or_eq_true, decide_eq_true_eq]
      split
      · rename_i hlen
        exact ⟨fun _ => .inl hlen, fun _ => isPanic_panic _⟩
      · rename_i hlen
        split
        · rename_i hc
          exact ⟨fun _ => .inr hc, fun _ => isPanic_panic _⟩
        · rename_i hc
          constructor
          · intro hp
            exfalso
            split at hp
            · exact isPanic_fail _ hp
            · exact isPanic_pure _ hp
          · intro h
            cases h with
            | inl h => exact absurd h hlen
            | inr h => exact absurd h hc
    · have hsv' : startsWithB x S_SYSV = false := by simpa using hsv
      simp only [hst', hsv', Bool.false_and, Bool.or_false, Bool.false_eq_true, ↓reduceIte, iff_false]
      intro hp
      repeat (first | (split at hp; · exact isPanic_pure _ hp) | exact isPanic_pure _ hp)

/-! ### an smaps attribute line panics exactly on the third shape -/

theorem smapsAttribute_panic_iff (line : List UInt8) : IsPanic (smapsAttribute line) ↔ HostileAttrLine line = true := by
  unfold smapsAttribute HostileAttrLine
  by_cases hv : startsWithB line S_VMFLAGS = true
  · simp only [hv, ↓reduceIte, Bool.not_true, Bool.false_and, Bool.false_eq_true, iff_false]
    exact isPanic_pure _
  · have hv' : startsWithB line S_VMFLAGS = false := by simpa using hv
    simp only [hv', Bool.false_eq_true, ↓reduceIte, Bool.not_false, Bool.true_and]
    cases hw : asciiWords line with
    | nil => simp only; exact ⟨fun h => absurd h (isPanic_pure _), fun h => by cases h⟩
    | cons k ws =>
      cases ws with
      | nil => simp only; exact ⟨fun h => absurd h (isPanic_pure _), fun h => by cases h⟩
      | cons v rest =>
        cases rest with
        | nil =>
          simp only
          cases hp : parseUnsigned 10 U64MAX v with
          | none => simp only [Bool.false_eq_true, iff_false]; exact isPanic_fail _
          | some val =>
            simp only [ne_eq, not_true_eq_false, false_and, ↓reduceIte, Bool.false_eq_true, iff_false]
            exact isPanic_pure _
        | cons r rs =>
          simp only
          cases hp : parseUnsigned 10 U64MAX v with
          | none => simp only [Bool.false_eq_true, iff_false]; exact isPanic_fail _
          | some val =>
            simp only [ne_eq, reduceCtorEq, not_false_eq_true, true_and, decide_eq_true_eq]
            split
            · rename_i h; exact ⟨fun _ => h, fun _ => isPanic_panic _⟩
            · rename_i h; exact ⟨fun hp' => absurd hp' (isPanic_pure _), fun h' => absurd h' h⟩

/-! ### a map-entry line: the five leading columns, then the path column -/

theorem mapEntryOfLine_eq (line : List UInt8) :
    mapEntryOfLine line =
      match mapEntryCols line with
      | none => M.fail .StreamReadFailure
      | some (h, path) => mapPathOf path >>= fun p => pure { h with path := p } := by
  unfold mapEntryOfLine mapEntryCols
  generalize splitNByte 32 6 line = cols
  rcases cols with _ | ⟨address, _ | ⟨perms, _ | ⟨offset, _ | ⟨dev, _ | ⟨inode, _ | ⟨path, _ | ⟨g, r⟩⟩⟩⟩⟩⟩⟩ <;> try rfl
  simp only
  cases splitPair 45 address with
  | none => rfl
  | some ab =>
    obtain ⟨a, b⟩ := ab
    simp only
    cases parseUnsigned 16 U64MAX a with
    | none => rfl
    | some lo =>
      cases parseUnsigned 16 U64MAX b with
      | none => rfl
      | some hi =>
        simp only
        cases parseUnsigned 16 U64MAX offset with
        | none => rfl
        | some off =>
          simp only
          cases splitPair 58 dev with
          | none => rfl
          | some dd =>
            obtain ⟨dm, dn⟩ := dd
            simp only
            cases parseI32Hex dm with
            | none => rfl
            | some maj =>
              cases parseI32Hex dn with
              | none => rfl
              | some min =>
                simp only
                cases parseUnsigned 10 U64MAX inode with
                | none => rfl
                | some ino => rfl

theorem mapEntryOfLine_panic_iff (line : List UInt8) :
    IsPanic (mapEntryOfLine line) ↔
      (match mapEntryCols line with
       | some (_, path) => HostilePath (trimBytes path)
       | none => false) = true := by
  rw [mapEntryOfLine_eq]
  cases mapEntryCols line with
  | none => simp only [Bool.false_eq_true, iff_false]; exact isPanic_fail _
  | some hp =>
    obtain ⟨h, path⟩ := hp
    simp only
    rw [isPanic_bind, mapPathOf_panic_iff]
    constructor
    · intro hh
      cases hh with
      | inl h1 => exact h1
      | inr h2 => obtain ⟨_, _, h3⟩ := h2; exact absurd h3 (isPanic_pure _)
    · intro hh; exact .inl hh

/-! ### the line loop: a panic outcome exactly when the first line that is not accepted is hostile -/

/-- one step of the loop: `x` is the line's own parser, `hostile` its panic condition -/
theorem step_panic_iff {α β : Type} (x : M α) (f : α → M β) (hostile : Bool) (next : α → Bool)
    (hx : IsPanic x ↔ hostile = true) (hf : ∀ a, x.res = .ok a → (IsPanic (f a) ↔ next a = true)) :
    IsPanic (x >>= f) ↔
      (if hostile = true then true
       else match x.res with
         | .ok a => next a
         | _ => false) = true := by
  rw [isPanic_bind]
  cases hostile with
  | true =>
    simp only [↓reduceIte, iff_true]
    exact .inl (hx.mpr rfl)
  | false =>
    have hnp : ¬ IsPanic x := by rw [hx]; simp
    simp only [Bool.false_eq_true, ↓reduceIte]
    cases hres : x.res with
    | ok a =>
      simp only
      rw [← hf a hres]
      constructor
      · intro h
        cases h with
        | inl h => exact absurd h hnp
        | inr h => obtain ⟨a', ha', hp⟩ := h; cases ha'; exact hp
      · intro hp; exact .inr ⟨a, rfl, hp⟩
    | err e =>
      simp only [Bool.false_eq_true, iff_false]
      intro h
      cases h with
      | inl h => exact hnp h
      | inr h => obtain ⟨a', ha', _⟩ := h; cases ha'
    | panic p => exact absurd ⟨p, hres⟩ hnp

theorem mapsLoopX_panic_iff : ∀ (ls : List (List UInt8)) (cur : Bool) (acc : List MapEntry),
    IsPanic (mapsLoopX ls cur acc) ↔ hostileFrom ls cur = true := by
  intro ls
  induction ls with
  | nil =>
    intro cur acc
    simp only [mapsLoopX, hostileFrom, Bool.false_eq_true, iff_false]
    exact isPanic_pure _
  | cons line rest ih =>
    intro cur acc
    unfold mapsLoopX hostileFrom HostileLine lineAccepted
    rw [isPanic_alloc_bind]
    by_cases hu : utf8Valid line = true
    · simp only [hu, Bool.not_true, Bool.false_eq_true, ↓reduceIte, Bool.true_and]
      by_cases hup : startsUpper line = true
      · simp only [hup, ↓reduceIte]
        cases cur with
        | false =>
          simp only [Bool.not_false, ↓reduceIte, Bool.false_and, Bool.false_eq_true, iff_false]
          exact isPanic_fail _
        | true =>
          simp only [Bool.not_true, Bool.false_eq_true, ↓reduceIte, Bool.true_and]
          rw [isPanic_alloc_bind, isPanic_alloc_bind]
          have := step_panic_iff (smapsAttribute line) (fun _ => mapsLoopX rest true acc) (HostileAttrLine line)
            (fun _ => hostileFrom rest true) (smapsAttribute_panic_iff line) (fun _ _ => ih true acc)
          rw [this]
          cases (smapsAttribute line).res <;> rfl
      · have hup' : startsUpper line = false := by simpa using hup
        simp only [hup', Bool.false_eq_true, ↓reduceIte]
        have := step_panic_iff (mapEntryOfLine line) (fun en => mapsLoopX rest true (en :: acc))
          (match mapEntryCols line with
            | some (_, path) => HostilePath (trimBytes path)
            | none => false)
          (fun _ => hostileFrom rest true) (mapEntryOfLine_panic_iff line) (fun en _ => ih true (en :: acc))
        rw [this]
        cases (mapEntryOfLine line).res <;> rfl
    · have hu' : utf8Valid line = false := by simpa using hu
      simp only [hu', Bool.not_false, ↓reduceIte, Bool.false_and, Bool.false_eq_true, iff_false]
      exact isPanic_fail _

/-- the outcome of the logged loop is the outcome of C02's `mapsLoop` (the allocation log is the only
    difference): C02's round-trip theorems speak about the same reader -/
theorem mapsLoopX_res : ∀ (ls : List (List UInt8)) (cur : Bool) (acc : List MapEntry),
    (mapsLoopX ls cur acc).res = (mapsLoop ls cur acc).res := by
  intro ls
  induction ls with
  | nil => intro cur acc; rfl
  | cons line rest ih =>
    intro cur acc
    unfold mapsLoopX mapsLoop
    have hab : ∀ {β : Type} (n sz : Nat) (ex : Bool) (f : Unit → M β), (M.alloc n sz ex >>= f).res = (f ()).res := by
      intro β n sz ex f; rfl
    rw [hab]
    by_cases hu : utf8Valid line = true
    · simp only [hu, Bool.not_true, Bool.false_eq_true, ↓reduceIte]
      have hsu : startsUpper line = ((line.head?.map fun c => decide (65 ≤ c ∧ c ≤ 90)) == some true) := rfl
      rw [← hsu]
      by_cases hup : startsUpper line = true
      · simp only [hup, ↓reduceIte]
        cases cur with
        | false => rfl
        | true =>
          simp only [Bool.not_true, Bool.false_eq_true, ↓reduceIte]
          rw [hab, hab, M.bind_def, M.bind_def]
          unfold M.bind'
          cases (smapsAttribute line).res with
          | ok u => simp only; exact ih true acc
          | err e => rfl
          | panic p => rfl
      · have hup' : startsUpper line = false := by simpa using hup
        simp only [hup', Bool.false_eq_true, ↓reduceIte]
        rw [M.bind_def, M.bind_def]
        unfold M.bind'
        cases (mapEntryOfLine line).res with
        | ok en => simp only; exact ih true (en :: acc)
        | err e => rfl
        | panic p => rfl
    · have hu' : utf8Valid line = false := by simpa using hu
      simp only [hu', Bool.not_false, ↓reduceIte]

/-! ### what an accepted map-entry line guarantees: numbers in range, at least five blanks -/

theorem digitsVal_le (radix maxv : Nat) : ∀ (s : List UInt8) (acc v : Nat), acc ≤ maxv →
    digitsVal radix maxv acc s = some v → v ≤ maxv := by
  intro s
  induction s with
  | nil => intro acc v ha h; simp only [digitsVal] at h; cases h; exact ha
  | cons c cs ih =>
    intro acc v ha h
    simp only [digitsVal] at h
    split at h
    · cases h
    · split at h
      · cases h
      · exact ih _ _ (by omega) h

theorem parseUnsigned_le {radix maxv : Nat} {s : List UInt8} {v : Nat} (h : parseUnsigned radix maxv s = some v) : v ≤ maxv := by
  have key : ∀ ds : List UInt8, (if ds.isEmpty = true then none else digitsVal radix maxv 0 ds) = some v → v ≤ maxv := by
    intro ds hd
    by_cases he : ds.isEmpty = true
    · rw [if_pos he] at hd; cases hd
    · rw [if_neg he] at hd; exact digitsVal_le _ _ _ _ _ (Nat.zero_le _) hd
  exact key _ h

theorem splitNByte_length_le (c : UInt8) : ∀ (n : Nat) (s : List UInt8), (splitNByte c n s).length ≤ s.length + 1 := by
  intro n s
  induction s generalizing n with
  | nil =>
    match n with
    | 0 => simp [splitNByte]
    | 1 => simp [splitNByte]
    | n + 2 => simp [splitNByte]
  | cons x xs ih =>
    match n with
    | 0 => simp [splitNByte]
    | 1 => simp [splitNByte]
    | n + 2 =>
      simp only [splitNByte]
      split
      · have := ih (n + 1); simp only [List.length_cons]; omega
      · have := ih (n + 2)
        split
        · simp
        · rename_i p ps hp; rw [hp] at this; simp only [List.length_cons] at this ⊢; omega

theorem mapEntryCols_some {line : List UInt8} {h : MapEntry} {path : List UInt8} (hc : mapEntryCols line = some (h, path)) :
    5 ≤ line.length ∧ h.hi ≤ U64MAX := by
  unfold mapEntryCols at hc
  have hlen := splitNByte_length_le 32 6 line
  generalize splitNByte 32 6 line = cols at hc hlen
  rcases cols with _ | ⟨address, _ | ⟨perms, _ | ⟨offset, _ | ⟨dev, _ | ⟨inode, _ | ⟨path', _ | ⟨g, r⟩⟩⟩⟩⟩⟩⟩ <;> try cases hc
  simp only [List.length_cons, List.length_nil] at hlen
  refine ⟨by omega, ?_⟩
  simp only at hc
  split at hc
  · cases hc
  · rename_i a b _
    split at hc
    · rename_i lo hi hlo hhi
      split at hc
      · cases hc
      · split at hc
        · cases hc
        · split at hc
          · split at hc
            · cases hc
            · cases hc; exact parseUnsigned_le hhi
          · cases hc
    · cases hc

theorem mapEntryOfLine_ok {line : List UInt8} {en : MapEntry} (h : (mapEntryOfLine line).res = .ok en) :
    5 ≤ line.length ∧ en.hi ≤ U64MAX := by
  rw [mapEntryOfLine_eq] at h
  cases hc : mapEntryCols line with
  | none => rw [hc] at h; cases h
  | some hp =>
    obtain ⟨hd, path⟩ := hp
    rw [hc] at h
    simp only at h
    obtain ⟨p, _, h2⟩ := bind_ok h
    have := pure_ok h2
    subst this
    exact mapEntryCols_some (h := hd) (path := path) hc

/-! ### how much text the lines are: every line with its terminator is backed by the stream -/

/-- bytes of the lines plus one terminator each -/
def linesWeight (ls : List (List UInt8)) : Nat := (ls.map List.length).sum + ls.length

theorem linesWeight_nil : linesWeight [] = 0 := rfl
theorem linesWeight_cons (l : List UInt8) (ls : List (List UInt8)) : linesWeight (l :: ls) = l.length + 1 + linesWeight ls := by
  simp [linesWeight]; omega
theorem linesWeight_append (xs ys : List (List UInt8)) : linesWeight (xs ++ ys) = linesWeight xs + linesWeight ys := by
  simp [linesWeight]; omega

theorem splitOnByte_ne_nil (c : UInt8) : ∀ s : List UInt8, splitOnByte c s ≠ [] := by
  intro s
  induction s with
  | nil => simp [splitOnByte]
  | cons x xs ih =>
    simp only [splitOnByte]
    split
    · simp
    · split
      · simp
      · simp

theorem splitOnByte_weight (c : UInt8) : ∀ s : List UInt8, linesWeight (splitOnByte c s) = s.length + 1 := by
  intro s
  induction s with
  | nil => simp [splitOnByte, linesWeight]
  | cons x xs ih =>
    simp only [splitOnByte]
    split
    · rw [linesWeight_cons, ih]; simp; omega
    · split
      · rename_i h; exact absurd h (splitOnByte_ne_nil c xs)
      · rename_i p ps hp
        rw [hp, linesWeight_cons] at ih
        rw [linesWeight_cons]
        simp only [List.length_cons]
        omega

theorem linesWeight_map_le (f : List UInt8 → List UInt8) (hf : ∀ l, (f l).length ≤ l.length) :
    ∀ ls : List (List UInt8), linesWeight (ls.map f) ≤ linesWeight ls := by
  intro ls
  induction ls with
  | nil => simp [linesWeight]
  | cons l ls ih =>
    rw [List.map_cons, linesWeight_cons, linesWeight_cons]
    have := hf l
    omega

theorem textLines_weight (s : List UInt8) : linesWeight (textLines s) ≤ s.length + 1 := by
  unfold textLines
  have hw := splitOnByte_weight 10 s
  have hne := splitOnByte_ne_nil 10 s
  generalize splitOnByte 10 s = pieces at hw hne
  have hsplit : pieces = pieces.dropLast ++ [pieces.getLast hne] := (List.dropLast_concat_getLast hne).symm
  have hlast : pieces.getLast? = some (pieces.getLast hne) := List.getLast?_eq_some_getLast hne
  have hstrip : ∀ l : List UInt8, (if (l.getLast? == some 13) = true then l.dropLast else l).length ≤ l.length := by
    intro l; split
    · simp
    · exact Nat.le_refl _
  have hterm := linesWeight_map_le (fun l : List UInt8 => if (l.getLast? == some 13) = true then l.dropLast else l) hstrip pieces.dropLast
  rw [hsplit, linesWeight_append, linesWeight_cons, linesWeight_nil] at hw
  simp only [hlast]
  split
  · omega
  · rename_i l hl heq
    cases heq
    rw [linesWeight_append, linesWeight_cons, linesWeight_nil]
    omega
  · rename_i h; cases h

theorem mem_linesWeight {l : List UInt8} {ls : List (List UInt8)} (h : l ∈ ls) : l.length + 1 ≤ linesWeight ls := by
  induction ls with
  | nil => cases h
  | cons x xs ih =>
    rw [linesWeight_cons]
    cases List.mem_cons.mp h with
    | inl heq => subst heq; omega
    | inr hmem => have := ih hmem; omega

theorem length_le_linesWeight (ls : List (List UInt8)) : ls.length ≤ linesWeight ls := by
  unfold linesWeight; omega

/-- the entries the loop returns are backed by the lines: 6 bytes each (five blanks and a terminator) -/
theorem mapsLoopX_ok_count : ∀ (ls : List (List UInt8)) (cur : Bool) (acc es : List MapEntry),
    (mapsLoopX ls cur acc).res = .ok es →
      es.length * 6 ≤ acc.length * 6 + linesWeight ls ∧ ((∀ x ∈ acc, x.hi ≤ U64MAX) → ∀ x ∈ es, x.hi ≤ U64MAX) := by
  intro ls
  induction ls with
  | nil =>
    intro cur acc es h
    simp only [mapsLoopX] at h
    cases h
    exact ⟨by simp [linesWeight], fun ha x hx => ha x (List.mem_reverse.mp hx)⟩
  | cons line rest ih =>
    intro cur acc es h
    rw [mapsLoopX_res] at h
    unfold mapsLoop at h
    rw [linesWeight_cons]
    split at h
    · cases h
    · split at h
      · split at h
        · cases h
        · obtain ⟨_, _, h⟩ := bind_ok h
          rw [← mapsLoopX_res] at h
          have ⟨h1, h2⟩ := ih _ _ _ h
          exact ⟨by omega, h2⟩
      · obtain ⟨en, hen, h⟩ := bind_ok h
        rw [← mapsLoopX_res] at h
        have ⟨h1, h2⟩ := ih _ _ _ h
        have ⟨h5, hhi⟩ := mapEntryOfLine_ok hen
        refine ⟨by simp only [List.length_cons] at h1; omega, fun ha => h2 (fun x hx => ?_)⟩
        cases List.mem_cons.mp hx with
        | inl heq => subst heq; exact hhi
        | inr hmem => exact ha x hmem

/-! ### allocation bounds that do not need "no panic" -/

theorem allocsLe_pure {α : Type} {B : Nat} (a : α) : AllocsLe B (pure a : M α) := by intro x h; cases h
theorem allocsLe_fail {α : Type} {B : Nat} (e : Err) : AllocsLe B (M.fail e : M α) := by intro x h; cases h
theorem allocsLe_panic {α : Type} {B : Nat} (s : String) : AllocsLe B (M.panic s : M α) := by intro x h; cases h
theorem allocsLe_alloc {B n sz : Nat} {ex : Bool} (h : n * sz ≤ B) : AllocsLe B (M.alloc n sz ex) := (safe_alloc h).2

theorem allocsLe_bind {α β : Type} {B : Nat} {x : M α} {f : α → M β}
    (hx : AllocsLe B x) (hf : ∀ a, x.res = .ok a → AllocsLe B (f a)) : AllocsLe B (x >>= f) := by
  rw [M.bind_def]
  unfold M.bind'
  cases hres : x.res with
  | ok a =>
    intro al hal
    simp only [List.mem_append] at hal
    cases hal with
    | inl h1 => exact hx al h1
    | inr h2 => exact hf a hres al h2
  | err e => exact hx
  | panic s => exact hx

theorem allocsLe_catch {α : Type} {B : Nat} {x : M α} (hx : AllocsLe B x) : AllocsLe B (M.catch' x) := by
  unfold M.catch'
  cases x.res <;> exact hx

theorem allocsLe_getStream {α : Type} {B : Nat} (d : Dump) (b : Bytes) (ty : Nat) (reader : Bytes → M α)
    (h : ∀ s, s.size ≤ b.size → AllocsLe B (reader s)) : AllocsLe B (getStream d b ty reader) := by
  unfold getStream
  split
  · exact allocsLe_pure _
  · rename_i s hs
    exact allocsLe_catch (h s (getRawStream_size hs))

theorem smapsAttribute_allocs (line : List UInt8) : (smapsAttribute line).allocs = [] := by
  unfold smapsAttribute
  split
  · rfl
  · split
    · split
      · rfl
      · split <;> rfl
    · rfl

theorem allocs_ite_nil {α : Type} {c : Prop} [Decidable c] {x y : M α} (hx : x.allocs = []) (hy : y.allocs = []) :
    (if c then x else y).allocs = [] := by
  by_cases h : c
  · rw [if_pos h]; exact hx
  · rw [if_neg h]; exact hy

theorem allocs_optMatch_nil {α β : Type} (o : Option β) {x : M α} {f : β → M α} (hx : x.allocs = [])
    (hf : ∀ b, (f b).allocs = []) :
    (match o with
     | none => x
     | some b => f b).allocs = [] := by
  cases o with
  | none => exact hx
  | some b => exact hf b

theorem mapPathOf_allocs (raw : List UInt8) : (mapPathOf raw).allocs = [] := by
  unfold mapPathOf
  dsimp only
  refine allocs_ite_nil rfl (allocs_ite_nil rfl (allocs_ite_nil rfl (allocs_ite_nil rfl (allocs_ite_nil rfl
    (allocs_ite_nil rfl (allocs_ite_nil rfl (allocs_ite_nil ?_ (allocs_ite_nil rfl (allocs_ite_nil ?_ rfl)))))))))
  · refine allocs_ite_nil rfl ?_
    cases (splitOnByte 58 (List.drop 1 (trimBytes raw)).dropLast)[1]? with
    | none => rfl
    | some t => simp only; cases parseUnsigned 10 4294967295 t <;> rfl
  · refine allocs_ite_nil rfl (allocs_ite_nil rfl ?_)
    cases parseUnsigned 16 4294967295 (List.take 8 (List.drop 5 (trimBytes raw))) <;> rfl

theorem mapEntryOfLine_allocs (line : List UInt8) : (mapEntryOfLine line).allocs = [] := by
  rw [mapEntryOfLine_eq]
  cases mapEntryCols line with
  | none => rfl
  | some hp =>
    obtain ⟨h, path⟩ := hp
    simp only
    rw [M.bind_def]
    unfold M.bind'
    have := mapPathOf_allocs path
    cases hres : (mapPathOf path).res <;> simp [this] <;> rfl

theorem allocsLe_of_nil {α : Type} {B : Nat} {m : M α} (h : m.allocs = []) : AllocsLe B m := by
  intro a ha; rw [h] at ha; cases ha

/-- the loop's log: per line its `String`, per attribute line a key and a hash-map slot — all backed
    by the lines themselves -/
theorem mapsLoopX_allocsLe {B : Nat} : ∀ (ls : List (List UInt8)) (cur : Bool) (acc : List MapEntry),
    (∀ l ∈ ls, 2 * l.length ≤ B) → (cur = true → SMAPS_SLOT ≤ B) → (∀ l ∈ ls, 5 ≤ l.length → SMAPS_SLOT ≤ B) →
      AllocsLe B (mapsLoopX ls cur acc) := by
  intro ls
  induction ls with
  | nil => intro cur acc _ _ _; exact allocsLe_pure _
  | cons line rest ih =>
    intro cur acc hl hc h5
    have hline := hl line List.mem_cons_self
    have hl' : ∀ l ∈ rest, 2 * l.length ≤ B := fun l h => hl l (List.mem_cons_of_mem _ h)
    have h5' : ∀ l ∈ rest, 5 ≤ l.length → SMAPS_SLOT ≤ B := fun l h => h5 l (List.mem_cons_of_mem _ h)
    unfold mapsLoopX
    refine allocsLe_bind (allocsLe_alloc (by omega)) (fun _ _ => ?_)
    split
    · exact allocsLe_fail _
    · split
      · split
        · exact allocsLe_fail _
        · rename_i hcur
          have hcur' : cur = true := by simpa using hcur
          refine allocsLe_bind (allocsLe_alloc (by omega)) (fun _ _ => ?_)
          refine allocsLe_bind (allocsLe_alloc (by have := hc hcur'; omega)) (fun _ _ => ?_)
          refine allocsLe_bind (allocsLe_of_nil (smapsAttribute_allocs line)) (fun _ _ => ?_)
          exact ih cur acc hl' hc h5'
      · refine allocsLe_bind (allocsLe_of_nil (mapEntryOfLine_allocs line)) (fun en hen => ?_)
        have ⟨h5line, _⟩ := mapEntryOfLine_ok hen
        exact ih true (en :: acc) hl' (fun _ => h5 line List.mem_cons_self h5line) h5'

theorem cnt_mapsLoopX : ∀ (ls : List (List UInt8)) (cur : Bool) (acc : List MapEntry),
    CntLe (3 * ls.length) (mapsLoopX ls cur acc) := by
  intro ls
  induction ls with
  | nil => intro cur acc; exact cnt_pure _
  | cons line rest ih =>
    intro cur acc
    unfold mapsLoopX
    refine (cnt_bind (cnt_alloc _ _ _) (C := 2 + 3 * rest.length) (fun _ _ => ?_)).mono (by simp only [List.length_cons]; omega)
    split
    · exact (cnt_fail _).mono (by omega)
    · split
      · split
        · exact (cnt_fail _).mono (by omega)
        · refine (cnt_bind (cnt_alloc _ _ _) (C := 1 + 3 * rest.length) (fun _ _ => ?_)).mono (by omega)
          refine (cnt_bind (cnt_alloc _ _ _) (C := 3 * rest.length) (fun _ _ => ?_)).mono (by omega)
          refine (cnt_bind (A := 0) ?_ (C := 3 * rest.length) (fun _ _ => ih _ _)).mono (by omega)
          rw [cnt_zero_iff]; exact smapsAttribute_allocs line
      · refine (cnt_bind (A := 0) ?_ (C := 3 * rest.length) (fun _ _ => ih _ _)).mono (by omega)
        rw [cnt_zero_iff]; exact mapEntryOfLine_allocs line

/-! ### the lookup table never fails, the lookups stay inside the entry vector -/

theorem mapsInput_wf (es : List MapEntry) (h : ∀ x ∈ es, x.hi ≤ U64MAX) :
    RangeMap.InputWF (es.zipIdx.map fun (x, i) => (RangeMap.mkRangeMap x.lo x.hi, i)) := by
  intro en hen r hr
  simp only [List.mem_map] at hen
  obtain ⟨⟨x, i⟩, hmem, rfl⟩ := hen
  have hx : x ∈ es := by
    have := List.mem_zipIdx hmem
    simp only [Nat.zero_add] at this
    obtain ⟨_, _, h3⟩ := this
    rw [h3]; exact List.getElem_mem _
  exact RangeMap.mkRangeMap_wf (h x hx) hr

theorem mapsFromRegions_ok (es : List MapEntry) (h : ∀ x ∈ es, x.hi ≤ U64MAX) :
    (mapsFromRegions es).res = .ok (RangeMap.safeVec (es.zipIdx.map fun (x, i) => (RangeMap.mkRangeMap x.lo x.hi, i))) := by
  unfold mapsFromRegions
  rw [RangeMap.safe_ok _ (mapsInput_wf es h)]
  rfl

/-- an index the table serves is an index of the entry vector -/
theorem mapsTable_index_lt (es : List MapEntry) (a i : Nat)
    (h : RangeMap.get (RangeMap.safeVec (es.zipIdx.map fun (x, i) => (RangeMap.mkRangeMap x.lo x.hi, i))) a = some i) :
    i < es.length := by
  obtain ⟨r, hr, _⟩ := RangeMap.get_sound _ a i h
  simp only [List.mem_map] at hr
  obtain ⟨⟨x, j⟩, hmem, heq⟩ := hr
  have := List.mem_zipIdx hmem
  simp only [Nat.zero_add] at this
  simp only [Prod.mk.injEq] at heq
  obtain ⟨_, hji⟩ := heq
  obtain ⟨_, h2, _⟩ := this
  subst hji
  exact h2

/-- a `LinuxMapsX` as `readLinuxMapsX` builds it -/
def MapsWF (m : LinuxMapsX) : Prop :=
  m.table = RangeMap.safeVec (m.entries.zipIdx.map fun (x, i) => (RangeMap.mkRangeMap x.lo x.hi, i))

theorem mapsInfoAt_safe {B : Nat} (m : LinuxMapsX) (hm : MapsWF m) (a : Nat) : Safe B (mapsInfoAt m a) := by
  unfold mapsInfoAt
  split
  · exact safe_pure _
  · rename_i i hi
    rw [hm] at hi
    have := mapsTable_index_lt m.entries a i hi
    rw [List.getElem?_eq_getElem this]
    exact safe_pure _

theorem mapsProbes_safe {B : Nat} (m : LinuxMapsX) (hm : MapsWF m) : ∀ as : List Nat, Safe B (mapsProbes m as) := by
  intro as
  induction as with
  | nil => exact safe_pure _
  | cons a rest ih =>
    unfold mapsProbes
    exact safe_bind (mapsInfoAt_safe m hm a) (fun _ _ => safe_bind ih (fun _ _ => safe_pure _))

theorem mapsProbes_allocs (m : LinuxMapsX) : ∀ as : List Nat, (mapsProbes m as).allocs = [] := by
  intro as
  induction as with
  | nil => rfl
  | cons a rest ih =>
    unfold mapsProbes
    have h1 : (mapsInfoAt m a).allocs = [] := by
      unfold mapsInfoAt; split; · rfl
      · split <;> rfl
    rw [M.bind_def]; unfold M.bind'
    cases (mapsInfoAt m a).res with
    | ok r =>
      simp only [h1, List.nil_append]
      rw [M.bind_def]; unfold M.bind'
      cases (mapsProbes m rest).res <;> simp [ih] <;> rfl
    | err e => exact h1
    | panic p => exact h1

/-! ### the whole reader -/

theorem readLinuxMapsX_panic_iff (b : Bytes) : IsPanic (readLinuxMapsX b) ↔ MapsHostile b.toList := by
  unfold readLinuxMapsX MapsHostile
  rw [isPanic_bind, mapsLoopX_panic_iff]
  constructor
  · intro h
    cases h with
    | inl h => exact h
    | inr h =>
      exfalso
      obtain ⟨es, hes, hp⟩ := h
      rw [isPanic_alloc_bind, isPanic_bind] at hp
      have hhi := (mapsLoopX_ok_count _ _ _ _ hes).2 (fun x hx => by cases hx)
      cases hp with
      | inl hp => obtain ⟨s, hs⟩ := hp; rw [mapsFromRegions_ok es hhi] at hs; cases hs
      | inr hp => obtain ⟨_, _, hp⟩ := hp; exact isPanic_pure _ hp
  · intro h; exact .inl h

theorem readLinuxMapsX_ok {b : Bytes} {m : LinuxMapsX} (h : (readLinuxMapsX b).res = .ok m) :
    MapsWF m ∧ m.entries.length * 6 ≤ b.size + 1 ∧
    (mapsLoop (textLines b.toList) false []).res = .ok m.entries := by
  unfold readLinuxMapsX at h
  obtain ⟨es, hes, h⟩ := bind_ok h
  obtain ⟨_, _, h⟩ := bind_ok h
  obtain ⟨t, ht, h⟩ := bind_ok h
  have := pure_ok h
  subst this
  have ⟨hcount, hhi⟩ := mapsLoopX_ok_count _ _ _ _ hes
  have hhi := hhi (fun x hx => by cases hx)
  rw [mapsFromRegions_ok es hhi] at ht
  cases ht
  have hw := textLines_weight b.toList
  simp only [List.length_nil, Nat.zero_mul, Nat.zero_add, Array.length_toList] at hcount hw
  refine ⟨rfl, by simp only; omega, ?_⟩
  rw [← mapsLoopX_res]; exact hes

/-- the outcome of `MinidumpLinuxMaps::read` as modelled here is the outcome of C02's `readLinuxMaps` -/
theorem readLinuxMapsX_entries (b : Bytes) :
    (match (readLinuxMapsX b).res with
     | .ok m => Res.ok m.entries
     | .err e => .err e
     | .panic s => .panic s) = (match (readLinuxMaps b).res with
     | .ok es => Res.ok es
     | .err e => .err e
     | .panic s => .panic s) := by
  unfold readLinuxMaps
  rw [← mapsLoopX_res]
  unfold readLinuxMapsX
  rw [M.bind_def]; unfold M.bind'
  cases hres : (mapsLoopX (textLines b.toList) false []).res with
  | ok es =>
    simp only
    have hhi := (mapsLoopX_ok_count _ _ _ _ hres).2 (fun x hx => by cases hx)
    have h2 : (M.alloc es.length MAPINFO_SZ false >>= fun _ => mapsFromRegions es >>= fun t => (pure ⟨es, t⟩ : M LinuxMapsX)).res
        = .ok ⟨es, RangeMap.safeVec (es.zipIdx.map fun (x, i) => (RangeMap.mkRangeMap x.lo x.hi, i))⟩ := by
      rw [M.bind_def]; unfold M.bind'
      simp only [M.alloc]
      rw [M.bind_def]; unfold M.bind'
      rw [mapsFromRegions_ok es hhi]
      rfl
    rw [h2]
  | err e => rfl
  | panic p => rfl

theorem readLinuxMapsX_allocsLe (b : Bytes) : AllocsLe (32 * b.size) (readLinuxMapsX b) := by
  have hw := textLines_weight b.toList
  simp only [Array.length_toList] at hw
  have hline : ∀ l ∈ textLines b.toList, l.length ≤ b.size := by
    intro l hl; have := mem_linesWeight hl; omega
  unfold readLinuxMapsX
  refine allocsLe_bind ?_ (fun es hes => ?_)
  · refine mapsLoopX_allocsLe _ _ _ (fun l hl => by have := hline l hl; omega) (fun h => by cases h) (fun l hl h5 => ?_)
    have := hline l hl
    unfold SMAPS_SLOT; omega
  · have ⟨hcount, _⟩ := mapsLoopX_ok_count _ _ _ _ hes
    simp only [List.length_nil, Nat.zero_mul, Nat.zero_add] at hcount
    refine allocsLe_bind (allocsLe_alloc (by unfold MAPINFO_SZ; omega)) (fun _ _ => ?_)
    refine allocsLe_bind ?_ (fun _ _ => allocsLe_pure _)
    unfold mapsFromRegions
    refine allocsLe_bind (allocsLe_alloc (by omega)) (fun _ _ => ?_)
    split
    · exact allocsLe_pure _
    · exact allocsLe_panic _

theorem cnt_readLinuxMapsX (b : Bytes) : CntLe (3 * b.size + 5) (readLinuxMapsX b) := by
  have hw := textLines_weight b.toList
  have hl := length_le_linesWeight (textLines b.toList)
  simp only [Array.length_toList] at hw
  unfold readLinuxMapsX
  refine (cnt_bind (cnt_mapsLoopX _ _ _) (C := 2) (fun _ _ => ?_)).mono (by omega)
  refine (cnt_bind (cnt_alloc _ _ _) (C := 1) (fun _ _ => ?_)).mono (by omega)
  refine (cnt_bind (A := 1) ?_ (C := 0) (fun _ _ => cnt_pure _)).mono (by omega)
  unfold mapsFromRegions
  refine (cnt_bind (cnt_alloc _ _ _) (C := 0) (fun _ _ => ?_)).mono (by omega)
  split
  · exact cnt_pure _
  · exact cnt_panic _

/-! ### the hostile line, exhibited: the decidable frontier as "a prefix of accepted lines, then a hostile one" -/

/-- the parser state after a run of accepted lines (`none`: some line is not accepted) -/
def acceptedRun : List (List UInt8) → Bool → Option Bool
  | [], cur => some cur
  | l :: rest, cur =>
    match lineAccepted cur l with
    | some cur' => acceptedRun rest cur'
    | none => none

/-- a hostile line is never accepted (it panics) -/
theorem hostile_not_accepted (cur : Bool) (l : List UInt8) (h : HostileLine cur l = true) : lineAccepted cur l = none := by
  unfold HostileLine at h
  unfold lineAccepted
  simp only [Bool.and_eq_true] at h
  obtain ⟨hu, h⟩ := h
  simp only [hu, Bool.not_true, Bool.false_eq_true, ↓reduceIte]
  split at h
  · rename_i hup
    simp only [Bool.and_eq_true] at h
    obtain ⟨hc, hh⟩ := h
    simp only [hup, ↓reduceIte, hc, Bool.not_true, Bool.false_eq_true]
    obtain ⟨s, hs⟩ := (smapsAttribute_panic_iff l).mpr hh
    rw [hs]
  · rename_i hup
    have hup' : startsUpper l = false := by simpa using hup
    simp only [hup', Bool.false_eq_true, ↓reduceIte]
    obtain ⟨s, hs⟩ := (mapEntryOfLine_panic_iff l).mpr h
    rw [hs]

theorem hostileFrom_iff_exists : ∀ (ls : List (List UInt8)) (cur : Bool),
    hostileFrom ls cur = true ↔
      ∃ pre l post cur', ls = pre ++ l :: post ∧ acceptedRun pre cur = some cur' ∧ HostileLine cur' l = true := by
  intro ls
  induction ls with
  | nil =>
    intro cur
    simp only [hostileFrom, Bool.false_eq_true, false_iff]
    intro ⟨pre, l, post, _, h, _⟩
    cases pre <;> cases h
  | cons x rest ih =>
    intro cur
    unfold hostileFrom
    by_cases hh : HostileLine cur x = true
    · simp only [hh, ↓reduceIte, true_iff]
      exact ⟨[], x, rest, cur, rfl, rfl, hh⟩
    · simp only [hh, Bool.false_eq_true, ↓reduceIte]
      cases hacc : lineAccepted cur x with
      | none =>
        simp only [Bool.false_eq_true, false_iff]
        intro ⟨pre, l, post, cur', heq, hrun, hl⟩
        cases pre with
        | nil =>
          simp only [List.nil_append, List.cons.injEq] at heq
          obtain ⟨h1, _⟩ := heq
          subst h1
          simp only [acceptedRun, Option.some.injEq] at hrun
          subst hrun
          exact hh hl
        | cons p ps =>
          simp only [List.cons_append, List.cons.injEq] at heq
          obtain ⟨h1, _⟩ := heq
          subst h1
          simp only [acceptedRun, hacc] at hrun
          cases hrun
      | some c =>
        simp only
        rw [ih c]
        constructor
        · intro ⟨pre, l, post, cur', heq, hrun, hl⟩
          exact ⟨x :: pre, l, post, cur', by rw [heq]; rfl, by simp only [acceptedRun, hacc]; exact hrun, hl⟩
        · intro ⟨pre, l, post, cur', heq, hrun, hl⟩
          cases pre with
          | nil =>
            simp only [List.nil_append, List.cons.injEq] at heq
            obtain ⟨h1, _⟩ := heq
            subst h1
            simp only [acceptedRun, Option.some.injEq] at hrun
            subst hrun
            exact absurd hl hh
          | cons p ps =>
            simp only [List.cons_append, List.cons.injEq] at heq
            obtain ⟨h1, h2⟩ := heq
            subst h1
            simp only [acceptedRun, hacc] at hrun
            exact ⟨ps, l, post, cur', h2, hrun, hl⟩

/-! ### the proposed guard `maps_text_is_safe`: it stops every panic and refuses no text that reads -/

theorem mapEntryCols_path {line : List UInt8} {h : MapEntry} {path : List UInt8} (hc : mapEntryCols line = some (h, path)) :
    (splitNByte 32 6 line)[5]? = some path := by
  unfold mapEntryCols at hc
  generalize splitNByte 32 6 line = cols at hc
  rcases cols with _ | ⟨address, _ | ⟨perms, _ | ⟨offset, _ | ⟨dev, _ | ⟨inode, _ | ⟨path', _ | ⟨g, r⟩⟩⟩⟩⟩⟩⟩ <;> try cases hc
  simp only at hc
  split at hc
  · cases hc
  · split at hc
    · split at hc
      · cases hc
      · split at hc
        · cases hc
        · split at hc
          · split at hc
            · cases hc
            · cases hc; rfl
          · cases hc
    · cases hc

theorem lineAccepted_utf8 {cur : Bool} {l : List UInt8} {c : Bool} (h : lineAccepted cur l = some c) : utf8Valid l = true := by
  unfold lineAccepted at h
  by_cases hu : utf8Valid l = true
  · exact hu
  · have hu' : utf8Valid l = false := by simpa using hu
    simp [hu'] at h

theorem hostileLine_guardBad {cur : Bool} {l : List UInt8} (h : HostileLine cur l = true) :
    utf8Valid l = true ∧ guardLineBad l = true := by
  unfold HostileLine at h
  simp only [Bool.and_eq_true] at h
  obtain ⟨hu, h⟩ := h
  refine ⟨hu, ?_⟩
  unfold guardLineBad
  split at h
  · rename_i hup
    simp only [Bool.and_eq_true] at h
    simp only [hup, ↓reduceIte]
    exact h.2
  · rename_i hup
    have hup' : startsUpper l = false := by simpa using hup
    simp only [hup', Bool.false_eq_true, ↓reduceIte]
    cases hc : mapEntryCols l with
    | none => rw [hc] at h; cases h
    | some hp =>
      obtain ⟨hd, path⟩ := hp
      rw [hc] at h
      rw [mapEntryCols_path hc]
      exact h

/-- **the guard is sound**: text on which the unguarded reader panics is refused -/
theorem guard_sound : ∀ (ls : List (List UInt8)) (cur : Bool), hostileFrom ls cur = true → mapsGuardOk ls = false := by
  intro ls
  induction ls with
  | nil => intro cur h; cases h
  | cons l rest ih =>
    intro cur h
    unfold hostileFrom at h
    unfold mapsGuardOk
    by_cases hh : HostileLine cur l = true
    · have ⟨hu, hb⟩ := hostileLine_guardBad hh
      simp [hu, hb]
    · simp only [hh, Bool.false_eq_true, ↓reduceIte] at h
      cases hacc : lineAccepted cur l with
      | none => rw [hacc] at h; cases h
      | some c =>
        rw [hacc] at h
        have hu := lineAccepted_utf8 hacc
        simp only [hu, Bool.not_true, Bool.false_eq_true, ↓reduceIte]
        split
        · rfl
        · exact ih c h

/-- **the guard is tight**: it refuses no text that the unguarded reader reads successfully -/
theorem guard_tight : ∀ (ls : List (List UInt8)) (cur : Bool) (acc es : List MapEntry),
    mapsGuardOk ls = false → (mapsLoopX ls cur acc).res ≠ .ok es := by
  intro ls
  induction ls with
  | nil => intro cur acc es h; cases h
  | cons l rest ih =>
    intro cur acc es h hok
    unfold mapsGuardOk at h
    by_cases hu : utf8Valid l = true
    · simp only [hu, Bool.not_true, Bool.false_eq_true, ↓reduceIte] at h
      rw [mapsLoopX_res] at hok
      unfold mapsLoop at hok
      simp only [hu, Bool.not_true, Bool.false_eq_true, ↓reduceIte] at hok
      have hsu : startsUpper l = ((l.head?.map fun c => decide (65 ≤ c ∧ c ≤ 90)) == some true) := rfl
      rw [← hsu] at hok
      by_cases hbad : guardLineBad l = true
      · unfold guardLineBad at hbad
        by_cases hup : startsUpper l = true
        · simp only [hup, ↓reduceIte] at hok hbad
          split at hok
          · cases hok
          · obtain ⟨_, hs, _⟩ := bind_ok hok
            obtain ⟨p, hp⟩ := (smapsAttribute_panic_iff l).mpr hbad
            rw [hp] at hs; cases hs
        · have hup' : startsUpper l = false := by simpa using hup
          simp only [hup', Bool.false_eq_true, ↓reduceIte] at hok hbad
          obtain ⟨en, hen, _⟩ := bind_ok hok
          rw [mapEntryOfLine_eq] at hen
          cases hc : mapEntryCols l with
          | none => rw [hc] at hen; cases hen
          | some hp =>
            obtain ⟨hd, path⟩ := hp
            rw [hc] at hen
            rw [mapEntryCols_path hc] at hbad
            simp only at hen hbad
            obtain ⟨_, hpath, _⟩ := bind_ok hen
            obtain ⟨s, hs⟩ := (mapPathOf_panic_iff path).mpr hbad
            rw [hs] at hpath; cases hpath
      · simp only [hbad, Bool.false_eq_true, ↓reduceIte] at h
        split at hok
        · split at hok
          · cases hok
          · obtain ⟨_, _, hrest⟩ := bind_ok hok
            rw [← mapsLoopX_res] at hrest
            exact ih _ _ _ h hrest
        · obtain ⟨en, _, hrest⟩ := bind_ok hok
          rw [← mapsLoopX_res] at hrest
          exact ih _ _ _ h hrest
    · have hu' : utf8Valid l = false := by simpa using hu
      simp [hu'] at h

theorem mapsGuard_res : ∀ ls : List (List UInt8), (mapsGuard ls).res = .ok (mapsGuardOk ls) := by
  intro ls
  induction ls with
  | nil => rfl
  | cons l rest ih =>
    unfold mapsGuard mapsGuardOk
    have hab : ∀ {β : Type} (n sz : Nat) (ex : Bool) (f : Unit → M β), (M.alloc n sz ex >>= f).res = (f ()).res := by
      intro β n sz ex f; rfl
    rw [hab]
    split
    · rfl
    · split
      · rfl
      · exact ih

theorem mapsGuard_allocsLe {B : Nat} : ∀ ls : List (List UInt8), (∀ l ∈ ls, 2 * l.length ≤ B) → AllocsLe B (mapsGuard ls) := by
  intro ls
  induction ls with
  | nil => intro _; exact allocsLe_pure _
  | cons l rest ih =>
    intro h
    unfold mapsGuard
    refine allocsLe_bind (allocsLe_alloc (by have := h l List.mem_cons_self; omega)) (fun _ _ => ?_)
    split
    · exact allocsLe_pure _
    · split
      · exact allocsLe_pure _
      · exact ih (fun x hx => h x (List.mem_cons_of_mem _ hx))

theorem cnt_mapsGuard : ∀ ls : List (List UInt8), CntLe ls.length (mapsGuard ls) := by
  intro ls
  induction ls with
  | nil => exact cnt_pure _
  | cons l rest ih =>
    unfold mapsGuard
    refine (cnt_bind (cnt_alloc _ _ _) (C := rest.length) (fun _ _ => ?_)).mono (by simp only [List.length_cons]; omega)
    split
    · exact (cnt_pure _).mono (by omega)
    · split
      · exact (cnt_pure _).mono (by omega)
      · exact ih

/-- the reader panics iff it is the unguarded one and the text is hostile -/
theorem readLinuxMapsG_panic_iff (guarded : Bool) (b : Bytes) :
    IsPanic (readLinuxMapsG guarded b) ↔ guarded = false ∧ MapsHostile b.toList := by
  unfold readLinuxMapsG
  cases guarded with
  | false => simp only [Bool.false_eq_true, ↓reduceIte, true_and]; exact readLinuxMapsX_panic_iff b
  | true =>
    simp only [↓reduceIte, Bool.true_eq_false, false_and, iff_false]
    rw [isPanic_bind]
    intro h
    cases h with
    | inl h => obtain ⟨s, hs⟩ := h; rw [mapsGuard_res] at hs; cases hs
    | inr h =>
      obtain ⟨ok, hok, hp⟩ := h
      rw [mapsGuard_res] at hok
      cases hok
      split at hp
      · rename_i hg
        have hh := (readLinuxMapsX_panic_iff b).mp hp
        unfold MapsHostile at hh
        have := guard_sound _ _ hh
        rw [this] at hg; cases hg
      · exact isPanic_fail _ hp

/-- with the guard, a stream reads exactly when it read without it, with the same result -/
theorem readLinuxMapsG_true_ok_iff (b : Bytes) (m : LinuxMapsX) :
    (readLinuxMapsG true b).res = .ok m ↔ (readLinuxMapsX b).res = .ok m := by
  unfold readLinuxMapsG
  simp only [↓reduceIte]
  rw [M.bind_def]; unfold M.bind'
  rw [mapsGuard_res]
  simp only
  cases hg : mapsGuardOk (textLines b.toList) with
  | true => simp only [↓reduceIte]
  | false =>
    simp only [Bool.false_eq_true, ↓reduceIte]
    constructor
    · intro h; cases h
    · intro h
      exfalso
      unfold readLinuxMapsX at h
      obtain ⟨es, hes, _⟩ := bind_ok h
      exact guard_tight _ _ _ _ hg hes

theorem readLinuxMapsG_ok {g : Bool} {b : Bytes} {m : LinuxMapsX} (h : (readLinuxMapsG g b).res = .ok m) :
    (readLinuxMapsX b).res = .ok m := by
  cases g with
  | false => exact h
  | true => exact (readLinuxMapsG_true_ok_iff b m).mp h

theorem readLinuxMapsG_allocsLe (g : Bool) (b : Bytes) : AllocsLe (32 * b.size) (readLinuxMapsG g b) := by
  unfold readLinuxMapsG
  split
  · have hw := textLines_weight b.toList
    simp only [Array.length_toList] at hw
    refine allocsLe_bind (mapsGuard_allocsLe _ (fun l hl => by have := mem_linesWeight hl; omega)) (fun ok _ => ?_)
    split
    · exact readLinuxMapsX_allocsLe b
    · exact allocsLe_fail _
  · exact readLinuxMapsX_allocsLe b

theorem cnt_readLinuxMapsG (g : Bool) (b : Bytes) : CntLe (4 * b.size + 6) (readLinuxMapsG g b) := by
  unfold readLinuxMapsG
  split
  · have hw := textLines_weight b.toList
    have hl := length_le_linesWeight (textLines b.toList)
    simp only [Array.length_toList] at hw
    refine (cnt_bind (cnt_mapsGuard _) (C := 3 * b.size + 5) (fun ok _ => ?_)).mono (by omega)
    split
    · exact cnt_readLinuxMapsX b
    · exact (cnt_fail _).mono (by omega)
  · exact (cnt_readLinuxMapsX b).mono (by omega)

end MdModel.Dump
