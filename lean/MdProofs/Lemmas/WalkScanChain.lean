/-
  Helper lemmas for C04, scan-only chains on the architectures whose scanner does nothing but
  scan (ARM64 both layouts, MIPS64): the scan loop returns the first valid word, one
  `get_caller_frame` on a scanned frame, the end of the chain, the induction on the chain.
-/
import MdProofs.Lemmas.WalkChain
namespace MdModel.Walk
open MdModel

/-- the scan loop stops at the first accepted word: `k` rejected readable words, then an accepted one -/
theorem scanFrom_first {ok : Nat → Bool} {mem : Mem} {p lim sp k r : Nat}
    (hrej : ∀ j, j < k → ∃ w, mem.read (sp + j * p) p = some w ∧ ok w = false)
    (hacc : mem.read (sp + k * p) p = some r) (hok : ok r = true) (hlim : sp + k * p ≤ lim) :
    ∀ (n i : Nat), i ≤ k → k < i + n → scanFrom ok mem p lim sp n i = some (k, sp + k * p, r) := by
  intro n
  induction n with
  | zero => intro i h1 h2; omega
  | succ n ih =>
    intro i h1 h2
    unfold scanFrom
    simp only
    have hmono : sp + i * p ≤ sp + k * p := by
      have := Nat.mul_le_mul_right p h1; omega
    rw [if_neg (by omega)]
    by_cases hik : i = k
    · subst hik
      rw [hacc]
      simp only [hok, if_true]
    · obtain ⟨w, hw, hwok⟩ := hrej i (by omega)
      rw [hw]
      simp only [hwok, Bool.false_eq_true, if_false]
      exact ih (i + 1) (by omega) (by omega)

/-- architectures whose `get_caller_by_scan` only scans (no frame-pointer recovery, no skip) and
    whose words are 8 bytes -/
def Arch.plainScan64 : Arch → Bool
  | .arm64 | .arm64old | .mips64 => true
  | _ => false

/-- the frame the walker must produce for an expected caller found by scanning -/
def scanFrame (a : Arch) (e : Exp) : Frame :=
  match a with
  | .mips64 => { ctx := { ip := e.ret, sp := e.sp, rest := [], valid := some ["pc", "sp"], m64 := true },
                 trust := .scan, instruction := e.ret - 8 }
  | _ => { ctx := { ip := e.ret, sp := e.sp, rest := [], valid := some ["pc", "sp"] },
           trust := .scan, instruction := e.ret - 4 }

/-- what the scanner of `a` sees of a frame: stack pointer valid, no usable frame pointer, the
    window its trust selects (160 words for the context frame, 40 for a frame found by any
    technique), the MIPS mode -/
def ScanView (a : Arch) (f : Frame) (sp : Nat) (first : Bool) : Prop :=
  f.ctx.sp = sp ∧ f.ctx.get a "sp" = some sp ∧
  scanWindow a f.trust = (if first then scanWindow a .context else scanWindow a .scan) ∧
  effArch a f.ctx = a ∧
  (a = .mips64 ∨ f.ctx.get a "x29" = none ∨ f.ctx.get a "x29" = some 0)

theorem linkScan_spec {env : Env} {a : Arch} {mem : Mem} {sp : Nat} {first : Bool} {e : Exp}
    (ha : a.plainScan64 = true) (h : linkScan env a mem sp first e = true) :
    ∃ k, e.sp = sp + k * 8 + 8 ∧ k < (if first then scanWindow a .context else scanWindow a .scan) ∧
      e.sp ≤ U64MAX ∧ 4096 ≤ e.ret ∧
      (∀ j, j < k → ∃ w, mem.read (sp + j * 8) 8 = some w ∧ instrValid env a w = false) ∧
      mem.read (sp + k * 8) 8 = some e.ret ∧ instrValid env a e.ret = true := by
  have hp : a.ptr = 8 := by cases a <;> simp [Arch.plainScan64] at ha <;> rfl
  have hm32 : ¬ (a = .mips32 ∧ (!first) = true) := by
    intro hh; rw [hh.1] at ha; simp [Arch.plainScan64] at ha
  have hmax : a.regMax = U64MAX := by cases a <;> simp [Arch.plainScan64] at ha <;> rfl
  unfold linkScan at h
  simp only [hp, if_neg hm32, hmax, Bool.and_eq_true, decide_eq_true_eq, beq_iff_eq, List.all_eq_true,
    List.mem_range] at h
  obtain ⟨⟨⟨⟨⟨⟨⟨h1, h2⟩, h3⟩, h4⟩, h5⟩, h6⟩, h7⟩, h8⟩ := h
  refine ⟨(e.sp - 8 - sp) / 8, h2, ?_, h4, h5, ?_, h7, h8⟩
  · cases a <;> simp [Arch.plainScan64] at ha <;> cases first <;> exact h3
  · intro j hj
    have := h6 j hj
    split at this
    · rename_i w hw
      simp only [Bool.and_eq_true, decide_eq_true_eq, Bool.not_eq_true'] at this
      exact ⟨w, hw, this.2⟩
    · cases this

theorem window_of_trust (a : Arch) (first : Bool) :
    scanWindow a (if first then Trust.context else Trust.scan) =
      (if first then scanWindow a .context else scanWindow a .scan) := by
  cases first <;> rfl

theorem byFp_none_arm64 {env : Env} {a : Arch} {mem : Mem} {c : Ctx} {sp : Nat}
    (ha : a = .arm64 ∨ a = .arm64old) (hsp : c.get a "sp" = some sp)
    (hfp : c.get a "x29" = none ∨ c.get a "x29" = some 0) : byFp env a mem c = none := by
  rcases ha with ha | ha <;> subst ha
  all_goals
    simp only [byFp, fpArm64]
    rcases hfp with h | h
    · rw [h]
    · rw [h, hsp]
      simp [nonCanonArm64, Consts.arm64_canon_lo, U64MAX]

theorem step_scan {env : Env} {a : Arch} {mem : Mem} {f : Frame} {g : Option Frame} {e : Exp}
    {sp : Nat} {first : Bool} (ha : a.plainScan64 = true) (harch : env.arch = a)
    (hcfi : ∀ f g, env.cfi f g = none) (hv : ScanView a f sp first)
    (hl : linkScan env a mem sp first e = true) :
    step env mem f g = some (scanFrame a e) := by
  obtain ⟨hsp, hget, htrust, heff, hfp⟩ := hv
  obtain ⟨k, hesp, hk, hmax, hret, hrej, hacc, hok⟩ := linkScan_spec ha hl
  have hscan : scanFrom (instrValid env a) mem 8 U64MAX sp (scanWindow a f.trust) 0 =
      some (k, sp + k * 8, e.ret) := by
    rw [htrust]
    exact scanFrom_first hrej hacc hok (by omega) _ 0 (Nat.zero_le _) (by omega)
  have hnot : ¬ (sp + k * 8 + 8 > U64MAX) := by omega
  unfold step
  simp only [harch, heff, candidate, hcfi]
  cases a <;> simp only [Arch.plainScan64, Bool.false_eq_true] at ha
  · -- arm64
    have hf := byFp_none_arm64 (env := env) (mem := mem) (Or.inl rfl) hget (by
      rcases hfp with h | h | h
      · cases h
      · exact Or.inl h
      · exact Or.inr h)
    simp only [hf, byScan, scanArm64, hget, hscan, if_neg hnot]
    simp [epilogue, nullish_eq, scanFrame, Arch.adj, Consts.adj_arm64, hesp, hsp]
    omega
  · -- arm64old
    have hf := byFp_none_arm64 (env := env) (mem := mem) (Or.inr rfl) hget (by
      rcases hfp with h | h | h
      · cases h
      · exact Or.inl h
      · exact Or.inr h)
    simp only [hf, byScan, scanArm64, hget, hscan, if_neg hnot]
    simp [epilogue, nullish_eq, scanFrame, Arch.adj, Consts.adj_arm64old, hesp, hsp]
    omega
  · -- mips64
    have hm : f.ctx.m64 = true := by
      simp only [effArch, Arch.isMips, if_true] at heff
      split at heff
      · assumption
      · cases heff
    simp only [byFp, byScan, scanMips64, hget]
    have hw : Consts.mips_max_stack / Consts.ptr_mips64 = scanWindow .mips64 f.trust := by
      cases f.trust <;> rfl
    rw [hw, hscan]
    simp only [if_neg hnot]
    simp [epilogue, nullish_eq, scanFrame, Arch.adj, Consts.adj_mips, hesp, hsp, hm]
    omega

theorem step_scan_end {env : Env} {a : Arch} {mem : Mem} {f : Frame} {g : Option Frame}
    {sp : Nat} {first : Bool} (ha : a.plainScan64 = true) (harch : env.arch = a)
    (hcfi : ∀ f g, env.cfi f g = none) (hv : ScanView a f sp first)
    (hz : zerosFrom mem a.ptr sp = true) : step env mem f g = none := by
  obtain ⟨hsp, hget, htrust, heff, hfp⟩ := hv
  have hp : a.ptr = 8 := by cases a <;> simp [Arch.plainScan64] at ha <;> rfl
  rw [hp] at hz
  have hok : instrValid env a 0 = false := by
    cases a <;> simp [Arch.plainScan64] at ha <;>
      simp [instrValid, instrPre, nonCanonArm64, Consts.arm64_canon_lo, Consts.mips_min_ip]
  have hscan : ∀ n, scanFrom (instrValid env a) mem 8 U64MAX sp n 0 = none :=
    fun n => scanFrom_zeros (by decide) hz hok n 0
  unfold step
  simp only [harch, heff, candidate, hcfi]
  cases a <;> simp only [Arch.plainScan64, Bool.false_eq_true] at ha
  · have hf := byFp_none_arm64 (env := env) (mem := mem) (Or.inl rfl) hget (by
      rcases hfp with h | h | h
      · cases h
      · exact Or.inl h
      · exact Or.inr h)
    simp only [hf, byScan, scanArm64, hget, hscan]
  · have hf := byFp_none_arm64 (env := env) (mem := mem) (Or.inr rfl) hget (by
      rcases hfp with h | h | h
      · cases h
      · exact Or.inl h
      · exact Or.inr h)
    simp only [hf, byScan, scanArm64, hget, hscan]
  · simp only [byFp, byScan, scanMips64, hget, hscan]

theorem scanFrame_view (a : Arch) (ha : a.plainScan64 = true) (e : Exp) :
    ScanView a (scanFrame a e) e.sp false := by
  cases a <;> simp only [Arch.plainScan64, Bool.false_eq_true] at ha
  · exact ⟨rfl, rfl, rfl, rfl, Or.inr (Or.inl rfl)⟩
  · exact ⟨rfl, rfl, rfl, rfl, Or.inr (Or.inl rfl)⟩
  · exact ⟨rfl, rfl, rfl, rfl, Or.inl rfl⟩

theorem scan_view_context (a : Arch) (ha : a.plainScan64 = true) (c : Ctx) (hv : c.valid = none)
    (hfp : c.raw a a.fpName = 0) (hm : a = .mips64 → c.m64 = true) :
    ScanView a (Frame.ofCtx c .context) c.sp true := by
  cases a <;> simp only [Arch.plainScan64, Bool.false_eq_true] at ha
  · refine ⟨rfl, ?_, rfl, rfl, Or.inr (Or.inr ?_)⟩
    · simp [Frame.ofCtx, Ctx.get, Ctx.has, hv, Arch.canon, Arch.registers, Ctx.raw, Arch.spName, Arch.ipName]
    · have : c.raw .arm64 "x29" = 0 := hfp
      simp [Frame.ofCtx, Ctx.get, Ctx.has, hv, Arch.canon, this]
  · refine ⟨rfl, ?_, rfl, rfl, Or.inr (Or.inr ?_)⟩
    · simp [Frame.ofCtx, Ctx.get, Ctx.has, hv, Arch.canon, Arch.registers, Ctx.raw, Arch.spName, Arch.ipName]
    · have : c.raw .arm64old "x29" = 0 := hfp
      simp [Frame.ofCtx, Ctx.get, Ctx.has, hv, Arch.canon, this]
  · refine ⟨rfl, ?_, rfl, ?_, Or.inl rfl⟩
    · simp [Frame.ofCtx, Ctx.get, Ctx.has, hv, Arch.canon, Arch.registers, Ctx.raw, Arch.spName, Arch.ipName]
    · simp [Frame.ofCtx, effArch, Arch.isMips, hm rfl]

/-- expected frames of a scan-only chain -/
def expectedScan (env : Env) (a : Arch) (chain : List Exp) : List Frame :=
  chain.map fun e => symbolise env (scanFrame a e)

theorem walkLoop_scan_chain {env : Env} {mem : Mem} {a : Arch} (ha : a.plainScan64 = true)
    (harch : env.arch = a) (hcfi : ∀ f g, env.cfi f g = none) :
    ∀ (chain : List Exp) (n : Nat) (f : Frame) (g : Option Frame) (sp : Nat) (first : Bool),
      ScanView a f sp first → preScanFrom env a mem sp first chain = true → need mem f ≤ n →
      walkLoop env mem n f g = symbolise env f :: expectedScan env a chain := by
  intro chain
  induction chain with
  | nil =>
    intro n f g sp first hv hp hn
    cases n with
    | zero => have := need_pos mem f; omega
    | succ n =>
      simp only [walkLoop, expectedScan, List.map_nil]
      have hsp : f.ctx.sp = sp := hv.1
      split
      · rfl
      · rename_i hin
        simp only [symbolise_ctx, Bool.not_eq_true, Bool.not_eq_false] at hin
        simp only [preScanFrom, Bool.or_eq_true, Bool.not_eq_true'] at hp
        have hz : zerosFrom mem a.ptr sp = true := by
          rcases hp with hp | hp
          · rw [← hsp] at hp; rw [hp] at hin; cases hin
          · exact hp
        have hv' : ScanView a (symbolise env f) sp first := hv
        rw [step_scan_end ha harch hcfi hv' hz]
  | cons e rest ih =>
    intro n f g sp first hv hp hn
    cases n with
    | zero => have := need_pos mem f; omega
    | succ n =>
      simp only [preScanFrom, Bool.and_eq_true] at hp
      obtain ⟨⟨hin, hl⟩, hrest⟩ := hp
      have hsp : f.ctx.sp = sp := hv.1
      have hv' : ScanView a (symbolise env f) sp first := hv
      have hst := step_scan (g := g) ha harch hcfi hv' hl
      have hin' : mem.inRange (symbolise env f).ctx.sp = true := by
        simp only [symbolise_ctx, hsp, hin]
      simp only [walkLoop, hin', Bool.not_true, Bool.false_eq_true, ↓reduceIte, hst, expectedScan, List.map_cons]
      have hneed := need_step hin' (step_link hst)
      simp only [need_symbolise] at hneed
      have := ih n (scanFrame a e) (some (symbolise env f)) e.sp false (scanFrame_view a ha e) hrest (by omega)
      rw [this]
      rfl

end MdModel.Walk
