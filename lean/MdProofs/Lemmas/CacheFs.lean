/-
  Helper lemmas about `MdModel.CacheFs`: what one step of a `locate_symbols` call can do to the
  cache and to its own state. Everything is for an arbitrary `ParserModel` satisfying `ParserLaws`.
-/
import MdModel.CacheFs
namespace MdModel.CacheFs

variable {P : ParserModel}

/-- Local invariant of a call: the server being talked to is one of the configured ones, the parser
    state is the one reached on the chunks received, and a live temp file holds exactly the bytes
    the parser handed to the tee callback. -/
def PhaseInv (req : Req) : Phase P → Prop
  | .awaitStatus u rest => ∃ pre, req.urls = pre ++ u :: rest
  | .streaming u rest temp nl ps rx =>
    (∃ pre, req.urls = pre ++ u :: rest) ∧
    ∃ cb, P.runRev rx = some (ps, cb) ∧ (∀ t, temp = some t → t = cb) ∧ nl = updNl false cb
  | _ => True

theorem updNl_append (nl : Bool) (a b : Bytes) : updNl (updNl nl a) b = updNl nl (a ++ b) := by
  unfold updNl
  rw [List.getLast?_append]
  cases b.getLast? <;> cases a.getLast? <;> simp

theorem updNl_endsNl {cb : Bytes} (h : updNl false cb = true) : EndsNl cb := by
  unfold updNl at h
  cases hl : cb.getLast? with
  | none => simp [hl] at h
  | some x =>
    simp [hl] at h
    subst h
    obtain ⟨ys, hys⟩ := List.getLast?_eq_some_iff.mp hl
    exact ⟨ys, hys⟩

theorem nextUrl_inv (req : Req) (rest : List Url) (h : ∃ pre, req.urls = pre ++ rest) :
    PhaseInv (P := P) req (nextUrl rest) := by
  cases rest with
  | nil => simp [nextUrl, PhaseInv]
  | cons u r => simpa [nextUrl, PhaseInv] using h

theorem suffix_tail {urls pre : List Url} {u : Url} {rest : List Url}
    (h : urls = pre ++ u :: rest) : ∃ pre', urls = pre' ++ rest :=
  ⟨pre ++ [u], by simp [h]⟩

theorem tee_some {temp : Option Bytes} {cb : Bytes} {w : Bool} {t : Bytes}
    (h : tee temp cb w = some t) : ∃ t0, temp = some t0 ∧ t = t0 ++ cb := by
  cases temp with
  | none => simp [tee] at h
  | some t0 =>
    cases w <;> simp [tee] at h
    exact ⟨t0, rfl, h.symm⟩

theorem step_done (c : Cache) (req : Req) (r : Result) (e : Ev) :
    step (P := P) c req (.done r) e = (c, .done r) := by
  cases e <;> rfl

theorem step_dropped (c : Cache) (req : Req) (e : Ev) :
    step (P := P) c req .dropped e = (c, .dropped) := by
  cases e <;> rfl

theorem runTask_done (c : Cache) (req : Req) (r : Result) (es : List Ev) :
    runTask (P := P) c req (.done r) es = (c, .done r) := by
  induction es with
  | nil => rfl
  | cons e es ih => simp [runTask, step_done, ih]

theorem runTask_dropped (c : Cache) (req : Req) (es : List Ev) :
    runTask (P := P) c req .dropped es = (c, .dropped) := by
  induction es with
  | nil => rfl
  | cons e es ih => simp [runTask, step_dropped, ih]

/-- the local invariant is preserved by every step -/
theorem step_inv (c : Cache) (req : Req) (ph : Phase P) (e : Ev) (h : PhaseInv req ph) :
    PhaseInv req (step c req ph e).2 := by
  cases ph with
  | start =>
    cases e with
    | lookup =>
      simp only [step]
      cases lookupLocal c req with
      | some b => trivial
      | none => exact nextUrl_inv req req.urls ⟨[], rfl⟩
    | drop => trivial
    | status _ _ => trivial
    | chunk _ _ => trivial
    | eof _ => trivial
    | netError => trivial
  | awaitStatus u rest =>
    obtain ⟨pre, hpre⟩ := h
    cases e with
    | lookup => exact ⟨pre, hpre⟩
    | chunk _ _ => exact ⟨pre, hpre⟩
    | eof _ => exact ⟨pre, hpre⟩
    | drop => trivial
    | netError => exact nextUrl_inv req rest (suffix_tail hpre)
    | status code createOk =>
      simp only [step]
      cases isErrorStatus code with
      | true => exact nextUrl_inv req rest (suffix_tail hpre)
      | false =>
        refine ⟨⟨pre, hpre⟩, [], rfl, ?_, rfl⟩
        intro t ht
        cases createOk <;> simp at ht
        exact ht
  | streaming u rest temp nl ps rx =>
    obtain ⟨⟨pre, hpre⟩, cb, hrun, htemp, hnl⟩ := h
    cases e with
    | lookup => exact ⟨⟨pre, hpre⟩, cb, hrun, htemp, hnl⟩
    | status _ _ => exact ⟨⟨pre, hpre⟩, cb, hrun, htemp, hnl⟩
    | chunk b w =>
      simp only [step]
      cases hf : P.feed ps b with
      | none => exact nextUrl_inv req rest (suffix_tail hpre)
      | some r =>
        obtain ⟨ps', cb'⟩ := r
        refine ⟨⟨pre, hpre⟩, cb ++ cb', ?_, ?_, ?_⟩
        · simp [ParserModel.runRev, hrun, hf]
        · intro t ht
          obtain ⟨t0, h0, rfl⟩ := tee_some ht
          rw [htemp t0 h0]
        · rw [hnl, updNl_append]
    | eof io =>
      simp only [step]
      cases hf : P.finish ps with
      | none => exact nextUrl_inv req rest (suffix_tail hpre)
      | some r =>
        obtain ⟨fin, t⟩ := r
        simp only []
        cases tee temp fin io.writeOk with
        | none => trivial
        | some tt => simp only []; split <;> trivial
    | netError => exact nextUrl_inv req rest (suffix_tail hpre)
    | drop => simp [step, PhaseInv]
  | done r => rw [step_done]; exact h
  | dropped => rw [step_dropped]; exact h

theorem runTask_inv (c : Cache) (req : Req) (ph : Phase P) (es : List Ev) (h : PhaseInv req ph) :
    PhaseInv req (runTask c req ph es).2 := by
  induction es generalizing c ph with
  | nil => exact h
  | cons e es ih => exact ih _ _ (step_inv c req ph e h)

/-- **the only step that touches the cache.** Either the cache is literally unchanged, or the call
    was streaming the response of `u` with chunks `rx`, the event is end-of-response, the streaming
    parse of exactly these chunks returned `Ok(t)`, the temp file holds the whole body, the result
    ends in a line feed, the result is `downloaded rx u`, and the cache becomes
    `commit … (whole body) …`. -/
theorem step_cache (hl : ParserLaws P) (c : Cache) (req : Req) (ph : Phase P) (e : Ev)
    (h : PhaseInv req ph) :
    (step c req ph e).1 = c ∨
    ∃ u rest temp nl ps rx io t,
      ph = .streaming u rest temp nl ps rx ∧ e = .eof io ∧ u ∈ req.urls ∧
      P.stream rx = some (bodyOf rx, t) ∧ EndsNl (bodyOf rx) ∧
      (step c req ph e).2 = .done (.downloaded rx u) ∧
      (step c req ph e).1 = commit c req.path u (bodyOf rx) io := by
  cases ph with
  | start =>
    left
    cases e with
    | lookup => simp only [step]; cases lookupLocal c req <;> rfl
    | drop => rfl
    | status _ _ => rfl
    | chunk _ _ => rfl
    | eof _ => rfl
    | netError => rfl
  | awaitStatus u rest =>
    left
    cases e with
    | status code _ => simp only [step]; cases isErrorStatus code <;> rfl
    | lookup => rfl
    | drop => rfl
    | chunk _ _ => rfl
    | eof _ => rfl
    | netError => rfl
  | streaming u rest temp nl ps rx =>
    obtain ⟨⟨pre, hpre⟩, cb, hrun, htemp, hnl⟩ := h
    cases e with
    | lookup => left; rfl
    | status _ _ => left; rfl
    | netError => left; rfl
    | drop => left; rfl
    | chunk b w =>
      left
      simp only [step]
      cases P.feed ps b with
      | none => rfl
      | some r => rfl
    | eof io =>
      simp only [step]
      cases hf : P.finish ps with
      | none => left; rfl
      | some r =>
        obtain ⟨fin, t⟩ := r
        simp only []
        cases ht : tee temp fin io.writeOk with
        | none => left; rfl
        | some tt =>
          simp only []
          cases hn : updNl nl fin with
          | false => left; rfl
          | true =>
            right
            obtain ⟨t0, h0, rfl⟩ := tee_some ht
            have hcb : t0 = cb := htemp t0 h0
            have hbody : cb ++ fin = bodyOf rx := (hl.callback_prefix rx ps cb hrun).2 fin t hf
            have hends : EndsNl (bodyOf rx) := by
              rw [← hbody]
              apply updNl_endsNl
              rw [← updNl_append, ← hnl]
              exact hn
            refine ⟨u, rest, temp, nl, ps, rx, io, t, rfl, rfl, ?_, ?_, hends, ?_, ?_⟩
            · simp [hpre]
            · simp [ParserModel.stream, hrun, hf, hbody]
            · simp
            · simp [hcb, hbody]
  | done r => left; rw [step_done]
  | dropped => left; rw [step_dropped]

/-- a result `downloaded rx u` is only ever produced from a complete response that stream-parsed `Ok` -/
theorem step_downloaded (hl : ParserLaws P) (c : Cache) (req : Req) (ph : Phase P) (e : Ev)
    (h : PhaseInv req ph) (rx : List Bytes) (u : Url)
    (hd : (step c req ph e).2 = .done (.downloaded rx u)) :
    ph = .done (.downloaded rx u) ∨ (u ∈ req.urls ∧ ∃ t, P.stream rx = some (bodyOf rx, t)) := by
  cases ph with
  | start =>
    exfalso
    cases e with
    | lookup =>
      simp only [step] at hd
      cases hh : lookupLocal c req with
      | some b => simp [hh] at hd
      | none => simp only [hh] at hd; cases hu : req.urls <;> simp [hu, nextUrl] at hd
    | drop => simp [step] at hd
    | status _ _ => simp [step] at hd
    | chunk _ _ => simp [step] at hd
    | eof _ => simp [step] at hd
    | netError => simp [step] at hd
  | awaitStatus u' rest =>
    exfalso
    cases e with
    | status code _ =>
      simp only [step] at hd
      cases hh : isErrorStatus code with
      | true => simp only [hh] at hd; cases rest <;> simp [nextUrl] at hd
      | false => simp [hh] at hd
    | netError => cases rest <;> simp [step, nextUrl] at hd
    | lookup => simp [step] at hd
    | drop => simp [step] at hd
    | chunk _ _ => simp [step] at hd
    | eof _ => simp [step] at hd
  | streaming u' rest temp nl ps rx' =>
    obtain ⟨⟨pre, hpre⟩, cb, hrun, htemp, hnl⟩ := h
    cases e with
    | lookup => simp [step] at hd
    | status _ _ => simp [step] at hd
    | netError => cases rest <;> simp [step, nextUrl] at hd
    | drop => simp [step] at hd
    | chunk b w =>
      simp only [step] at hd
      cases hf : P.feed ps b with
      | none => rw [hf] at hd; cases rest <;> simp [nextUrl] at hd
      | some r => rw [hf] at hd; simp at hd
    | eof io =>
      simp only [step] at hd
      cases hf : P.finish ps with
      | none => rw [hf] at hd; cases rest <;> simp [nextUrl] at hd
      | some r =>
        obtain ⟨fin, t⟩ := r
        rw [hf] at hd
        have hbody : cb ++ fin = bodyOf rx' := (hl.callback_prefix rx' ps cb hrun).2 fin t hf
        have : rx' = rx ∧ u' = u := by
          simp only [] at hd
          split at hd
          · simpa using hd
          · split at hd <;> simpa using hd
        obtain ⟨rfl, rfl⟩ := this
        right
        refine ⟨by simp [hpre], t, ?_⟩
        simp [ParserModel.stream, hrun, hf, hbody]
  | done r => left; rw [step_done] at hd; exact hd
  | dropped => rw [step_dropped] at hd; simp at hd

/-- `commit_cache_file`, exactly: what happens at the target name, and that no other name changes -/
theorem commit_spec (c : Cache) (p : Path) (u : Url) (t : Bytes) (io : CommitIo) :
    (∀ q, q ≠ p → commit c p u t io q = c q) ∧
    (commit c p u t io p = c p ∨
     commit c p u t io p = some (.file (t ++ trailer u)) ∨
     (commit c p u t io p = none ∧ ∃ n, c p = some n)) := by
  obtain ⟨w, tr, rm, ps⟩ := io
  constructor
  · intro q hq
    unfold commit
    cases hcp : c p with
    | none => cases tr <;> cases ps <;> simp [Cache.set, hq]
    | some n => cases n <;> cases tr <;> cases rm <;> cases ps <;> simp [Cache.set, hq]
  · unfold commit
    cases hcp : c p with
    | none => cases tr <;> cases ps <;> simp [Cache.set, hcp]
    | some n => cases n <;> cases tr <;> cases rm <;> cases ps <;> simp [Cache.set, hcp]


/-! ### single steps, for evaluating concrete runs -/

theorem step_chunk_some {c : Cache} {req : Req} {u : Url} {rest : List Url} {temp : Option Bytes} {nl : Bool}
    {ps ps' : P.σ} {rx : List Bytes} {b cb : Bytes} {w : Bool} (h : P.feed ps b = some (ps', cb)) :
    step c req (.streaming u rest temp nl ps rx) (.chunk b w) =
      (c, .streaming u rest (tee temp cb w) (updNl nl cb) ps' (b :: rx)) := by
  simp only [step, h]

theorem step_eof_commit {c : Cache} {req : Req} {u : Url} {rest : List Url} {temp : Option Bytes} {nl : Bool}
    {ps : P.σ} {rx : List Bytes} {fin tt : Bytes} {t : P.Sym} {io : CommitIo}
    (h : P.finish ps = some (fin, t)) (ht : tee temp fin io.writeOk = some tt) (hn : updNl nl fin = true) :
    step c req (.streaming u rest temp nl ps rx) (.eof io) =
      (commit c req.path u tt io, .done (.downloaded rx u)) := by
  simp only [step, h, ht, hn, if_true]


theorem runRev_suffix_some (xs ys : List Bytes) {r : P.σ × Bytes} (h : P.runRev (xs ++ ys) = some r) :
    ∃ r', P.runRev ys = some r' := by
  induction xs generalizing r with
  | nil => exact ⟨r, h⟩
  | cons x xs ih =>
    simp only [List.cons_append, ParserModel.runRev] at h
    cases ho : P.runRev (xs ++ ys) with
    | none => rw [ho] at h; simp at h
    | some r0 => exact ih ho

/-- a run of chunk events whose writes all succeed, from a streaming state: the state reached is
    the one `runRev` computes (newest chunk first), the temp file holds the callback bytes -/
theorem runTask_chunks (c : Cache) (req : Req) (u : Url) (rest : List Url) :
    ∀ (chunks : List Bytes) (rx0 : List Bytes) (s0 : P.σ) (cb0 : Bytes) (s1 : P.σ) (cb1 : Bytes),
      P.runRev rx0 = some (s0, cb0) → P.runRev (chunks.reverse ++ rx0) = some (s1, cb1) →
      runTask c req (.streaming u rest (some cb0) (updNl false cb0) s0 rx0) (chunks.map fun b => Ev.chunk b true) =
        (c, .streaming u rest (some cb1) (updNl false cb1) s1 (chunks.reverse ++ rx0)) := by
  intro chunks
  induction chunks with
  | nil =>
    intro rx0 s0 cb0 s1 cb1 h0 h1
    simp only [List.reverse_nil, List.nil_append] at h1
    rw [h0] at h1
    cases h1
    rfl
  | cons b bs ih =>
    intro rx0 s0 cb0 s1 cb1 h0 h1
    have e : (b :: bs).reverse ++ rx0 = bs.reverse ++ (b :: rx0) := by simp
    rw [e] at h1 ⊢
    obtain ⟨⟨s', cb'⟩, hb⟩ := runRev_suffix_some bs.reverse (b :: rx0) h1
    have hfeed : ∃ cbd, P.feed s0 b = some (s', cbd) ∧ cb' = cb0 ++ cbd := by
      simp only [ParserModel.runRev, h0] at hb
      cases hf : P.feed s0 b with
      | none => rw [hf] at hb; simp at hb
      | some r =>
        obtain ⟨s2, cbd⟩ := r
        rw [hf] at hb
        simp only [Option.some.injEq, Prod.mk.injEq] at hb
        exact ⟨cbd, by rw [hb.1], hb.2.symm⟩
    obtain ⟨cbd, hf, hcb⟩ := hfeed
    simp only [List.map_cons, runTask, step_chunk_some hf]
    have := ih (b :: rx0) s' cb' s1 cb1 hb h1
    simp only [tee, if_true, updNl_append]
    rw [← hcb]
    exact this

theorem getElem?_set_fst {α β : Type} (l : List (α × β)) (i : Nat) (a : α) (b b' : β)
    (h : l[i]? = some (a, b)) : (l.set i (a, b')).map Prod.fst = l.map Prod.fst := by
  induction l generalizing i with
  | nil => simp
  | cons x xs ih =>
    cases i with
    | zero => simp at h; simp [h]
    | succ i => simp at h; simp [ih i h]

end MdModel.CacheFs
