/-
  Consecutive frames of a walk in ANY environment (no hypothesis on the CFI oracle, no `CtxOk`), and
  what a frame of trust `cfi` is in `Walk.mkEnvW` on x86: the epilogue applied to `cfiWalkW`'s
  result (STACK WIN evaluation first — C07 —, STACK CFI on the walker STACK WIN left otherwise).
-/
import MdProofs.Lemmas.CfiEnvGen
import MdProofs.Lemmas.WalkWinChainStep
namespace MdModel.CfiBridge
open MdModel

/-- `StepChain` without the `CtxOk` invariant -/
def RawChain (env : Walk.Env) (mem : Walk.Mem) : Walk.Frame → List Walk.Frame → Prop
  | _, [] => True
  | p, f :: rest =>
    (∃ g f', mem.inRange p.ctx.sp = true ∧ Walk.step env mem p g = some f' ∧ f = Walk.symbolise env f') ∧
    RawChain env mem f rest

theorem walkLoop_raw {env : Walk.Env} {mem : Walk.Mem} :
    ∀ (n : Nat) (f : Walk.Frame) (g : Option Walk.Frame),
      ∃ rest, Walk.walkLoop env mem n f g = Walk.symbolise env f :: rest ∧
        RawChain env mem (Walk.symbolise env f) rest := by
  intro n
  induction n with
  | zero => intro f g; exact ⟨[], rfl, trivial⟩
  | succ n ih =>
    intro f g
    simp only [Walk.walkLoop]
    split
    · exact ⟨[], rfl, trivial⟩
    · rename_i hin
      split
      · exact ⟨[], rfl, trivial⟩
      · rename_i f' hstep
        obtain ⟨rest', hr, hc⟩ := ih f' (some (Walk.symbolise env f))
        refine ⟨_, rfl, ?_⟩
        rw [hr]
        refine ⟨⟨_, f', ?_, hstep, rfl⟩, hc⟩
        simpa using hin

theorem rawChain_index {env : Walk.Env} {mem : Walk.Mem} :
    ∀ (rest : List Walk.Frame) (p : Walk.Frame), RawChain env mem p rest →
      ∀ (i : Nat) (h : i + 1 < (p :: rest).length),
        ∃ g f', mem.inRange (p :: rest)[i].ctx.sp = true ∧ Walk.step env mem (p :: rest)[i] g = some f' ∧
          (p :: rest)[i + 1] = Walk.symbolise env f' := by
  intro rest
  induction rest with
  | nil => intro p _ i h; simp at h
  | cons f t ih =>
    intro p hc i h
    obtain ⟨hl, ht⟩ := hc
    cases i with
    | zero => exact hl
    | succ j =>
      have := ih f ht j (by simpa using h)
      simpa using this

/-- `StepsOk` without the `CtxOk` parts -/
def RawSteps (env : Walk.Env) (mem : Option Walk.Mem) (fs : List Walk.Frame) : Prop :=
  ∀ (i : Nat) (h : i + 1 < fs.length),
    ∃ m g f', mem = some m ∧ m.inRange fs[i].ctx.sp = true ∧
      Walk.step env m fs[i] g = some f' ∧ fs[i + 1] = Walk.symbolise env f'

/-- **every later frame of a walk is the symbolised `get_caller_frame` of the frame below it** — for
    every environment (`walk_steps` without `CfiOk` / `CtxOk`) -/
theorem walk_steps_raw (env : Walk.Env) (mem : Option Walk.Mem) (ctx : Walk.Ctx) :
    RawSteps env (mem.bind fun m => m.range?.map fun _ => m) (Walk.walk env mem ctx) := by
  unfold Walk.walk
  simp only
  split
  · intro i h; simp at h
  · rename_i m hm
    obtain ⟨rest, hfs, hc⟩ := walkLoop_raw (env := env) (mem := m) (Walk.walkFuel m) (Walk.Frame.ofCtx ctx .context) none
    rw [hfs]
    intro i h
    obtain ⟨g, f', h3, h4, h5⟩ := rawChain_index rest _ hc i h
    exact ⟨m, g, f', hm, h3, h4, h5⟩

/-- x86 `get_caller_by_cfi` in `mkEnvW` answers only when `esp` is valid, and then it is `cfiWalkW` -/
theorem mkEnvW_cfi_x86_some {os : Walk.Os} {w : Walk.World} {wins : List (List Win.Rec)} {mem : Walk.Mem}
    {f : Walk.Frame} {g : Option Walk.Frame} {r : Walk.Ctx}
    (h : (Walk.mkEnvW .x86 os w wins mem).cfi f g = some r) :
    f.ctx.hasLit "esp" = true ∧
    Walk.cfiWalkW w (Walk.modTable w.mods) (Walk.cfiTables w) (wins.map Walk.winTables) mem f g = some r := by
  cases he : f.ctx.hasLit "esp" with
  | false =>
    simp only [Walk.mkEnvW, Walk.cfiOfW, Walk.effArch, Walk.Arch.isMips, Bool.false_eq_true, if_false, if_true, he,
      Bool.not_false] at h
    cases h
  | true =>
    rw [Walk.mkEnvW_cfi_x86 os w wins mem f g he] at h
    exact ⟨rfl, h⟩

open Walk in
/-- **the two sources of `cfiWalkW`'s answer** (x86 `SymbolFile::walk_frame` with STACK WIN records):
    a module `i` with symbol file `sf` covers the lookup address, and with `(fd, fpo)` the frame-data /
    FPO STACK WIN records at the module-relative address, C07's `winResult` on the callee's
    `winWalker` either SUCCEEDS (`.ok (true, c)`) and the caller context is `ctxOfCaller c` — a STACK
    WIN frame —, or finds nothing to evaluate (`.ok (false, c)`) and the caller context is STACK CFI
    evaluation (`walkFrameCfi`, C06's evaluator) on the walker as STACK WIN left it. -/
theorem cfiWalkW_cases {w : World} {mtbl : List RangeMap.Entry} {ctbls : List (List RangeMap.Entry)}
    {wts : List WinTables} {mem : Mem} {f : Frame} {g : Option Frame} {r : Ctx}
    (h : cfiWalkW w mtbl ctbls wts mem f g = some r) :
    ∃ i m sf ct fd fpo, moduleAt mtbl f.instruction = some i ∧ w.mods[i]? = some m ∧
      (w.syms[i]?).join = some sf ∧ ctbls[i]? = some ct ∧ m.base ≤ f.instruction ∧
      (wts[i]?.getD WinTables.empty).at (f.instruction - m.base) = (fd, fpo) ∧
      ((∃ c, Win.winResult Win.clearNamesActual fd fpo (winWalker mem f g) (callerOfCtx f.ctx) = .ok (true, c) ∧
          r = ctxOfCaller c) ∨
       (∃ c o, Win.winResult Win.clearNamesActual fd fpo (winWalker mem f g) (callerOfCtx f.ctx) = .ok (false, c) ∧
          walkFrameCfi sf ct m.base { arch := .x86, callee := f.ctx, mem := mem }
            { cfiOutOfCaller c with ctx := { (cfiOutOfCaller c).ctx with valid := f.ctx.valid } } f.instruction = some o ∧
          r = { o.ctx with valid := some o.valid })) := by
  unfold cfiWalkW at h
  split at h
  · cases h
  · rename_i i hi
    split at h
    · rename_i m sf ct hm hs hc
      split at h
      · cases h
      · rename_i hlt
        simp only at h
        refine ⟨i, m, sf, ct, _, _, hi, hm, hs, hc, by omega, rfl, ?_⟩
        split at h
        · cases h
        · rename_i c hr
          exact .inl ⟨c, hr, (Option.some.inj h).symm⟩
        · rename_i c hr
          cases ho : walkFrameCfi sf ct m.base { arch := .x86, callee := f.ctx, mem := mem }
            { cfiOutOfCaller c with ctx := { (cfiOutOfCaller c).ctx with valid := f.ctx.valid } } f.instruction with
          | none => rw [ho] at h; cases h
          | some o => rw [ho] at h; exact .inr ⟨c, o, hr, ho, (Option.some.inj h).symm⟩
    · cases h

end MdModel.CfiBridge
