/-
  MdProofs.Lemmas.BytesFull — `readFull` (MdModel.DumpFull): no panic outcome, every allocation at
  most `K * len`, errors are values, at most 110 further allocations after `readAll`.
-/
import MdModel.DumpFull
import MdProofs.Lemmas.BytesMisc
import MdProofs.Lemmas.BytesText
import MdProofs.Lemmas.BytesTotal
namespace MdModel.Dump
open MdModel MdModel.Gen.Layouts MdModel.Gen.LayoutsX

/-! ### what `readAll` guarantees about its result -/

theorem getStream_ok_inv {α : Type} {d : Dump} {b : Bytes} {ty : Nat} {reader : Bytes → M α} {a : α}
    (h : (getStream d b ty reader).res = .ok (.ok a)) : ∃ s, s.size ≤ b.size ∧ (reader s).res = .ok a := by
  unfold getStream at h
  split at h
  · cases h
  · rename_i s hs
    unfold M.catch' at h
    split at h
    · rename_i a' hres
      cases h
      exact ⟨s, getRawStream_size hs, hres⟩
    · cases h
    · cases h

theorem readMemoryList_length {ms : MemSizes} {b all : Bytes} {e : Endian} {rs : List Region}
    (h : (readMemoryList ms b all e).res = .ok rs) : rs.length * 16 ≤ b.size := by
  unfold readMemoryList at h
  obtain ⟨raws, hraws, h⟩ := bind_ok h
  obtain ⟨_, _, h⟩ := bind_ok h
  have := pure_ok h
  subst this
  have h1 := readStreamList_ok hraws
  rw [size_memdesc] at h1
  exact Nat.le_trans (Nat.mul_le_mul_right _ (List.length_filterMap_le _ _)) h1

theorem mem64Regions_length (allLen : Nat) : ∀ (raws : List (List Nat)) (rva : Nat) (rs : List Region),
    mem64Regions allLen rva raws = .ok rs → rs.length = raws.length := by
  intro raws
  induction raws with
  | nil => intro rva rs h; simp [mem64Regions] at h; cases h; rfl
  | cons v vs ih =>
    intro rva rs h
    unfold mem64Regions at h
    split at h
    · cases h
    · split at h
      · split at h
        · cases h
        · rename_i rs' hrs'
          cases h
          simp [ih _ _ hrs']
      · cases h

theorem readMemory64List_length {ms : MemSizes} {b all : Bytes} {e : Endian} {rs : List Region}
    (h : (readMemory64List ms b all e).res = .ok rs) : rs.length * 16 ≤ b.size := by
  unfold readMemory64List at h
  split at h
  · rename_i count rva _ _
    split at h
    · cases h
    · rename_i counted hc
      have ⟨hc1, hc2⟩ := ensureCountInBound_ok hc
      rw [size_memdesc64] at hc1
      split at h
      · cases h
      · obtain ⟨_, _, h⟩ := bind_ok h
        obtain ⟨raws, hraws, h⟩ := bind_ok h
        obtain ⟨_, _, h⟩ := bind_ok h
        have h1 := readEntries_length (ofOption_ok hraws)
        have h2 := mem64Regions_length _ _ _ _ (ofExcept_ok h)
        omega
  · cases h

/-- the facts about a `Parsed` that `readExtra`'s safety needs -/
structure ParsedOk (b : Bytes) (p : Parsed) : Prop where
  memory : ∀ rs, p.memory = .ok rs → rs.length * 16 ≤ b.size
  memory64 : ∀ rs, p.memory64 = .ok rs → rs.length * 16 ≤ b.size
  exception : ∀ x, p.exception = .ok x → x.info.length = 15

theorem readAll_parsedOk {ms : MemSizes} {b : Bytes} {p : Parsed} (h : (readAll ms b).res = .ok (.ok p)) :
    ParsedOk b p := by
  unfold readAll at h
  split at h
  · cases h
  · rename_i d _
    obtain ⟨c, hc, h⟩ := bind_ok h
    obtain ⟨cp, _, h⟩ := bind_ok h
    have := pure_ok h
    cases this
    unfold readCore at hc
    dsimp only at hc
    obtain ⟨threads, _, hc⟩ := bind_ok hc
    obtain ⟨modules, _, hc⟩ := bind_ok hc
    obtain ⟨unloaded, _, hc⟩ := bind_ok hc
    obtain ⟨memory, hmem, hc⟩ := bind_ok hc
    obtain ⟨memory64, hmem64, hc⟩ := bind_ok hc
    obtain ⟨memInfo, _, hc⟩ := bind_ok hc
    obtain ⟨threadNames, _, hc⟩ := bind_ok hc
    obtain ⟨threadInfo, _, hc⟩ := bind_ok hc
    obtain ⟨handles, _, hc⟩ := bind_ok hc
    obtain ⟨exception, hexc, hc⟩ := bind_ok hc
    have := pure_ok hc
    subst this
    refine ⟨fun rs hrs => ?_, fun rs hrs => ?_, fun x hx => ?_⟩
    · simp only at hrs
      subst hrs
      obtain ⟨s, hs, hr⟩ := getStream_ok_inv hmem
      have := readMemoryList_length hr
      omega
    · simp only at hrs
      subst hrs
      obtain ⟨s, hs, hr⟩ := getStream_ok_inv hmem64
      have := readMemory64List_length hr
      omega
    · simp only at hx
      subst hx
      obtain ⟨s, hs, hr⟩ := getStream_ok_inv hexc
      exact readException_info_length hr

/-! ### pieces of `readExtra` -/

theorem tableOf_safe {B : Nat} (r : Except Err (List Region)) (h : ∀ rs, r = .ok rs → rs.length * 32 ≤ B) :
    Safe B (tableOf r) := by
  unfold tableOf
  split
  · rename_i rs
    exact safe_bind (memTable_safe rs (h rs rfl)) (fun _ _ => safe_pure _)
  · exact safe_pure _

theorem readKvStream_safe {B : Nat} (s : Bytes) (sep : UInt8) (hs : s.size < 9223372036854775808) :
    Safe B (readKvStream s sep) := by
  have := linuxListIter_spec s sep hs
  exact ⟨this.1, fun a ha => by unfold readKvStream at ha; rw [this.2.1] at ha; cases ha⟩

theorem readLinesStream_safe {B : Nat} (s : Bytes) : Safe B (readLinesStream s) := by
  have := linesIter_spec s
  exact ⟨this.1, fun a ha => by unfold readLinesStream at ha; rw [this.2.1] at ha; cases ha⟩

theorem macPrint_safe {B : Nat} (rs : List MacRecord) : Safe B (macPrint rs) := by
  unfold macPrint
  refine safe_loop_inv _ _ _ (fun _ _ => True) trivial ?_
  intro n i hi _
  exact ⟨safe_bind (macRecordAt_safe rs i hi) (fun _ _ => safe_pure _), fun _ _ => trivial⟩

theorem readExtra_safe (b : Bytes) (p : Parsed) (hsz : SliceLen b.size) (hp : ParsedOk b p) :
    Safe (Bnd b) (readExtra b p) := by
  have hsz' := hsz
  unfold SliceLen at hsz'
  unfold readExtra
  dsimp only
  refine safe_bind (getSystemInfo_safe _ _ hsz (by unfold Bnd K; omega)) (fun sys _ => ?_)
  refine safe_bind (tableOf_safe _ (fun rs hrs => by have := hp.memory rs hrs; unfold Bnd K; omega)) (fun t32 _ => ?_)
  refine safe_bind (tableOf_safe _ (fun rs hrs => by have := hp.memory64 rs hrs; unfold Bnd K; omega)) (fun t64 _ => ?_)
  refine safe_bind ?_ (fun threads _ => ?_)
  · split
    · exact safe_bind (threadsX_safe _ _ _ _ hsz _) (fun _ _ => safe_pure _)
    · exact safe_pure _
  refine safe_bind ?_ (fun excCtx _ => ?_)
  · split
    · exact safe_bind (contextOf_safe _ _ _ _) (fun _ _ => safe_pure _)
    · exact safe_pure _
  refine safe_bind ?_ (fun reason _ => ?_)
  · split
    · rename_i x si hx _
      exact safe_bind (reasonInputs_safe x (hp.exception x hx)) (fun _ _ => safe_pure _)
    · exact safe_pure _
  refine safe_bind ?_ (fun memPrinted _ => ?_)
  · split
    · split
      · refine safe_bind (printContents_safe _ ?_) (fun _ _ => safe_pure _)
        simp only [Array.size_extract]; omega
      · exact safe_pure _
    · exact safe_pure _
  refine safe_bind (getStream_safe _ _ _ _ (fun s hs => readKvStream_safe s _ (by omega))) (fun _ _ => ?_)
  refine safe_bind (getStream_safe _ _ _ _ (fun s hs => readKvStream_safe s _ (by omega))) (fun _ _ => ?_)
  refine safe_bind (getStream_safe _ _ _ _ (fun s hs => readKvStream_safe s _ (by omega))) (fun _ _ => ?_)
  refine safe_bind (getStream_safe _ _ _ _ (fun s hs => readKvStream_safe s _ (by omega))) (fun _ _ => ?_)
  refine safe_bind (getStream_safe _ _ _ _ (fun s _ => readLinesStream_safe s)) (fun _ _ => ?_)
  refine safe_bind (getStream_safe _ _ _ _ (fun s _ => readBreakpadInfo_safe s _)) (fun _ _ => ?_)
  refine safe_bind (getStream_safe _ _ _ _ (fun s hs => readAssertion_safe s _ (by unfold Bnd K; omega))) (fun _ _ => ?_)
  refine safe_bind (getStream_safe _ _ _ _ (fun s _ => readMacCrashInfo_safe s b _ (by unfold Bnd K; omega))) (fun mac _ => ?_)
  refine safe_bind ?_ (fun _ _ => ?_)
  · split
    · exact macPrint_safe _
    · exact safe_pure _
  refine safe_bind (getStream_safe _ _ _ _ (fun s _ => readMacBootargs_safe s b _ hsz (by unfold Bnd K; omega))) (fun _ _ => ?_)
  exact safe_pure _

theorem readFull_safe (ms : MemSizes) (hms : ms.Bounded) (b : Bytes) (hsz : SliceLen b.size) :
    Safe (Bnd b) (readFull ms b) := by
  unfold readFull
  refine safe_bind (readAll_safe ms hms b hsz) (fun r hr => ?_)
  split
  · exact safe_pure _
  · rename_i p
    exact safe_bind (readExtra_safe b p hsz (readAll_parsedOk hr)) (fun _ _ => safe_pure _)

/-! ### errors are values -/

theorem noErr_loopGo {σ : Type} (step : σ → Nat → M σ) (h : ∀ s i, NoErr (step s i)) :
    ∀ (todo i : Nat) (s : σ) (rev : List Alloc), NoErr (M.loopGo step todo i s rev) := by
  intro todo
  induction todo with
  | zero => intro i s rev e he; simp [M.loopGo] at he
  | succ t ih =>
    intro i s rev e he
    unfold M.loopGo at he
    dsimp only at he
    split at he
    · exact ih _ _ _ e he
    · rename_i e' hres; exact h s i e' hres
    · cases he

theorem noErr_panic {α : Type} (site : String) : NoErr (M.panic site : M α) := by intro e h; cases h

theorem noErr_ite {α : Type} {c : Prop} [Decidable c] {x y : M α} (hx : NoErr x) (hy : NoErr y) :
    NoErr (if c then x else y) := by
  split <;> assumption

theorem noErr_usizeAdd (site : String) (a c : Nat) : NoErr (usizeAdd site a c) := by
  intro e h; unfold usizeAdd at h; split at h <;> cases h

theorem noErr_alloc (n sz : Nat) (ex : Bool) : NoErr (M.alloc n sz ex) := by intro e h; cases h

theorem noErr_arrayAt (l : Layout) (vs : List Nat) (arr : String) (i : Nat) : NoErr (arrayAt l vs arr i) := by
  intro e h; unfold arrayAt at h; split at h <;> cases h

theorem noErr_fieldAtName (l : Layout) (vs : List Nat) (n : String) : NoErr (fieldAtName l vs n) := by
  intro e h; unfold fieldAtName at h; split at h <;> cases h

theorem noErr_readRegs (l : Layout) (vs : List Nat) (arr : String) : ∀ is : List Nat, NoErr (readRegs l vs arr is) := by
  intro is
  induction is with
  | nil => exact noErr_pure _
  | cons i rest ih =>
    unfold readRegs
    exact noErr_bind (noErr_arrayAt _ _ _ _) (fun _ => noErr_bind ih (fun _ => noErr_pure _))

theorem noErr_contextOf (all : Bytes) (e : Endian) (arch : Nat) (range : Option (Nat × Nat)) :
    NoErr (contextOf all e arch range) := by
  unfold contextOf
  split
  · exact noErr_pure _
  · split
    · exact noErr_pure _
    · rename_i c _
      have hip : NoErr c.ip := by
        unfold Context.ip
        split <;> first | exact noErr_fieldAtName _ _ _ | exact noErr_arrayAt _ _ _ _
      have hsp : NoErr c.sp := by
        unfold Context.sp
        split <;> first | exact noErr_fieldAtName _ _ _ | exact noErr_arrayAt _ _ _ _
      exact noErr_bind hip (fun _ => noErr_bind hsp (fun _ =>
        noErr_bind (noErr_readRegs _ _ _ _) (fun _ => noErr_pure _)))

theorem noErr_printStackWords (cpu : CpuKind) (n : Nat) : NoErr (printStackWords cpu n) := by
  unfold printStackWords
  dsimp only
  refine noErr_ite (noErr_panic _) ?_
  exact noErr_loopGo _ (fun s i => noErr_ite (noErr_panic _) (noErr_usizeAdd _ _ _)) _ _ _ _

theorem noErr_printContents (n : Nat) : NoErr (printContents n) := by
  unfold printContents
  exact noErr_loopGo _ (fun s i => noErr_usizeAdd _ _ _) _ _ _ _

theorem noErr_threadsX (all : Bytes) (e : Endian) (sys : Option SysInfo) (mv : MemView) :
    ∀ ts : List Thread, NoErr (threadsX all e sys mv ts) := by
  intro ts
  induction ts with
  | nil => exact noErr_pure _
  | cons t rest ih =>
    unfold threadsX
    refine noErr_bind ?_ (fun _ => noErr_bind ih (fun _ => noErr_pure _))
    unfold threadX
    refine noErr_bind ?_ (fun _ => noErr_bind (noErr_printStackWords _ _) (fun _ => noErr_pure _))
    split
    · exact noErr_pure _
    · exact noErr_contextOf _ _ _ _

theorem noErr_memTable (rs : List Region) : NoErr (memTable rs) := by
  unfold memTable
  refine noErr_bind (noErr_alloc _ _ _) (fun _ => noErr_bind (noErr_alloc _ _ _) (fun _ => ?_))
  split
  · exact noErr_pure _
  · intro e h; cases h

theorem noErr_infoAt (x : Exception) (i : Nat) : NoErr (infoAt x i) := by
  intro e h; unfold infoAt at h; split at h <;> cases h

theorem noErr_macPrint (rs : List MacRecord) : NoErr (macPrint rs) := by
  unfold macPrint
  refine noErr_loopGo _ (fun s i => noErr_bind ?_ (fun _ => noErr_pure _)) _ _ _ _
  intro e h; unfold macRecordAt at h; split at h <;> cases h

theorem noErr_getSystemInfo (d : Dump) (b : Bytes) : NoErr (getSystemInfo d b) := by
  unfold getSystemInfo
  refine noErr_bind (getStream_noErr _ _ _ _) (fun eager => ?_)
  split
  · exact noErr_bind (noErr_alloc _ _ _) (fun _ => noErr_pure _)
  · exact getStream_noErr _ _ _ _

theorem noErr_tableOf (r : Except Err (List Region)) : NoErr (tableOf r) := by
  unfold tableOf
  split
  · exact noErr_bind (noErr_memTable _) (fun _ => noErr_pure _)
  · exact noErr_pure _

theorem noErr_reasonInputs (x : Exception) : NoErr (reasonInputs x) := by
  unfold reasonInputs
  exact noErr_bind (noErr_infoAt _ _) (fun _ => noErr_bind (noErr_infoAt _ _) (fun _ =>
    noErr_bind (noErr_infoAt _ _) (fun _ => noErr_pure _)))

theorem readExtra_noErr (b : Bytes) (p : Parsed) : NoErr (readExtra b p) := by
  unfold readExtra
  dsimp only
  refine noErr_bind (noErr_getSystemInfo _ _) (fun _ => ?_)
  refine noErr_bind (noErr_tableOf _) (fun _ => ?_)
  refine noErr_bind (noErr_tableOf _) (fun _ => ?_)
  refine noErr_bind ?_ (fun _ => ?_)
  · split
    · exact noErr_bind (noErr_threadsX _ _ _ _ _) (fun _ => noErr_pure _)
    · exact noErr_pure _
  refine noErr_bind ?_ (fun _ => ?_)
  · split
    · exact noErr_bind (noErr_contextOf _ _ _ _) (fun _ => noErr_pure _)
    · exact noErr_pure _
  refine noErr_bind ?_ (fun _ => ?_)
  · split
    · exact noErr_bind (noErr_reasonInputs _) (fun _ => noErr_pure _)
    · exact noErr_pure _
  refine noErr_bind ?_ (fun _ => ?_)
  · split
    · split
      · exact noErr_bind (noErr_printContents _) (fun _ => noErr_pure _)
      · exact noErr_pure _
    · exact noErr_pure _
  refine noErr_bind (getStream_noErr _ _ _ _) (fun _ => ?_)
  refine noErr_bind (getStream_noErr _ _ _ _) (fun _ => ?_)
  refine noErr_bind (getStream_noErr _ _ _ _) (fun _ => ?_)
  refine noErr_bind (getStream_noErr _ _ _ _) (fun _ => ?_)
  refine noErr_bind (getStream_noErr _ _ _ _) (fun _ => ?_)
  refine noErr_bind (getStream_noErr _ _ _ _) (fun _ => ?_)
  refine noErr_bind (getStream_noErr _ _ _ _) (fun _ => ?_)
  refine noErr_bind (getStream_noErr _ _ _ _) (fun _ => ?_)
  refine noErr_bind ?_ (fun _ => ?_)
  · split
    · exact noErr_macPrint _
    · exact noErr_pure _
  exact noErr_bind (getStream_noErr _ _ _ _) (fun _ => noErr_pure _)

theorem readFull_noErr (ms : MemSizes) (b : Bytes) : NoErr (readFull ms b) := by
  unfold readFull
  refine noErr_bind (readAll_noErr ms b) (fun r => ?_)
  split
  · exact noErr_pure _
  · exact noErr_bind (readExtra_noErr _ _) (fun _ => noErr_pure _)

/-! ### how many allocations `readExtra` makes: at most 110, whatever the file says -/

theorem cnt_zero_iff {α : Type} {m : M α} : CntLe 0 m ↔ m.allocs = [] := by
  unfold CntLe
  constructor
  · intro h; exact List.eq_nil_of_length_eq_zero (by omega)
  · intro h; rw [h]; exact Nat.le_refl _

theorem cnt_getStream_const {α : Type} {N : Nat} (d : Dump) (b : Bytes) (ty : Nat) (reader : Bytes → M α)
    (h : ∀ s, CntLe N (reader s)) : CntLe N (getStream d b ty reader) := by
  unfold getStream
  split
  · exact (cnt_pure _).mono (by omega)
  · exact cnt_catch (h _)

theorem cnt_panic {α : Type} (site : String) : CntLe 0 (M.panic site : M α) := Nat.le_refl _

theorem cnt_ite {α : Type} {N : Nat} {c : Prop} [Decidable c] {x y : M α} (hx : CntLe N x) (hy : CntLe N y) :
    CntLe N (if c then x else y) := by
  split <;> assumption

theorem allocs_loopGo_nil {σ : Type} (step : σ → Nat → M σ) (h : ∀ s i, (step s i).allocs = []) :
    ∀ (todo i : Nat) (s : σ) (rev : List Alloc), (M.loopGo step todo i s rev).allocs = rev.reverse := by
  intro todo
  induction todo with
  | zero => intro i s rev; simp [M.loopGo]
  | succ t ih =>
    intro i s rev
    unfold M.loopGo
    dsimp only
    split
    · rw [ih, h s i]; simp
    · simp [h s i]
    · simp [h s i]

theorem cnt_loop_zero {σ : Type} (n : Nat) (init : σ) (step : σ → Nat → M σ) (h : ∀ s i, CntLe 0 (step s i)) :
    CntLe 0 (M.loop n init step) := by
  rw [cnt_zero_iff]
  unfold M.loop
  rw [allocs_loopGo_nil step (fun s i => cnt_zero_iff.mp (h s i))]
  rfl

theorem cnt_arrayAt (l : Layout) (vs : List Nat) (arr : String) (i : Nat) : CntLe 0 (arrayAt l vs arr i) := by
  unfold arrayAt; split <;> exact Nat.le_refl _

theorem cnt_fieldAtName (l : Layout) (vs : List Nat) (n : String) : CntLe 0 (fieldAtName l vs n) := by
  unfold fieldAtName; split <;> exact Nat.le_refl _

theorem cnt_readRegs (l : Layout) (vs : List Nat) (arr : String) : ∀ is : List Nat, CntLe 0 (readRegs l vs arr is) := by
  intro is
  induction is with
  | nil => exact cnt_pure _
  | cons i rest ih =>
    unfold readRegs
    exact cnt_bind (cnt_arrayAt _ _ _ _) (C := 0) (fun _ _ => cnt_bind ih (C := 0) (fun _ _ => cnt_pure _))

theorem cnt_contextOf (all : Bytes) (e : Endian) (arch : Nat) (range : Option (Nat × Nat)) :
    CntLe 0 (contextOf all e arch range) := by
  unfold contextOf
  split
  · exact cnt_pure _
  · split
    · exact cnt_pure _
    · rename_i c _
      have hip : CntLe 0 c.ip := by
        unfold Context.ip
        split <;> first | exact cnt_fieldAtName _ _ _ | exact cnt_arrayAt _ _ _ _
      have hsp : CntLe 0 c.sp := by
        unfold Context.sp
        split <;> first | exact cnt_fieldAtName _ _ _ | exact cnt_arrayAt _ _ _ _
      exact cnt_bind hip (C := 0) (fun _ _ => cnt_bind hsp (C := 0) (fun _ _ =>
        cnt_bind (cnt_readRegs _ _ _ _) (C := 0) (fun _ _ => cnt_pure _)))

theorem cnt_printStackWords (cpu : CpuKind) (n : Nat) : CntLe 0 (printStackWords cpu n) := by
  unfold printStackWords
  dsimp only
  refine cnt_ite (cnt_panic _) ?_
  exact cnt_loop_zero _ _ _ (fun s i => cnt_ite (cnt_panic _) (cnt_usizeAdd _ _ _))

theorem cnt_printContents (n : Nat) : CntLe 0 (printContents n) := by
  unfold printContents
  exact cnt_loop_zero _ _ _ (fun s i => cnt_usizeAdd _ _ _)

theorem cnt_threadsX (all : Bytes) (e : Endian) (sys : Option SysInfo) (mv : MemView) :
    ∀ ts : List Thread, CntLe 0 (threadsX all e sys mv ts) := by
  intro ts
  induction ts with
  | nil => exact cnt_pure _
  | cons t rest ih =>
    unfold threadsX
    refine cnt_bind ?_ (C := 0) (fun _ _ => cnt_bind ih (C := 0) (fun _ _ => cnt_pure _))
    unfold threadX
    refine cnt_bind ?_ (C := 0) (fun _ _ => cnt_bind (cnt_printStackWords _ _) (C := 0) (fun _ _ => cnt_pure _))
    split
    · exact cnt_pure _
    · exact cnt_contextOf _ _ _ _

theorem cnt_memTable (rs : List Region) : CntLe 2 (memTable rs) := by
  unfold memTable
  refine (cnt_bind (cnt_alloc _ _ _) (C := 1) (fun _ _ => ?_)).mono (by omega)
  refine (cnt_bind (cnt_alloc _ _ _) (C := 0) (fun _ _ => ?_)).mono (by omega)
  split
  · exact cnt_pure _
  · exact cnt_panic _

theorem cnt_tableOf (r : Except Err (List Region)) : CntLe 2 (tableOf r) := by
  unfold tableOf
  split
  · exact (cnt_bind (cnt_memTable _) (C := 0) (fun _ _ => cnt_pure _)).mono (by omega)
  · exact (cnt_pure _).mono (by omega)

theorem cnt_readSystemInfoX (s all : Bytes) (e : Endian) : CntLe 1 (readSystemInfoX s all e) := by
  unfold readSystemInfoX
  split
  · exact (cnt_fail _).mono (by omega)
  · refine (cnt_bind (cnt_readStringUtf16 _ _ _) (C := 0) (fun _ _ => ?_)).mono (by omega)
    refine cnt_bind ?_ (C := 0) (fun _ _ => cnt_pure _)
    have hx : ∀ cpu d l r, CntLe 0 (cpuInfoX86 cpu e d l r) := by
      intro cpu d l r
      unfold cpuInfoX86
      refine cnt_bind ?_ (C := 0) (fun _ _ => cnt_pure _)
      split
      · exact cnt_bind (cnt_ofOption _ _) (C := 0) (fun _ _ => cnt_pure _)
      · exact cnt_pure _
    split
    · exact cnt_bind (hx _ _ _ _) (C := 0) (fun _ _ => cnt_pure _)
    · exact cnt_bind (hx _ _ _ _) (C := 0) (fun _ _ => cnt_pure _)
    · unfold cpuInfoArm
      exact cnt_bind (cnt_bind (cnt_ofOption _ _) (C := 0) (fun _ _ => cnt_pure _)) (C := 0) (fun _ _ => cnt_pure _)
    · exact cnt_pure _

theorem cnt_getSystemInfo (d : Dump) (b : Bytes) : CntLe 2 (getSystemInfo d b) := by
  unfold getSystemInfo
  refine (cnt_bind (cnt_getStream_const (N := 1) _ _ _ _ (fun s => cnt_readSystemInfoX s b _)) (C := 1) (fun _ _ => ?_)).mono (by omega)
  split
  · exact (cnt_bind (cnt_alloc _ _ _) (C := 0) (fun _ _ => cnt_pure _)).mono (by omega)
  · exact cnt_getStream_const (N := 1) _ _ _ _ (fun s => cnt_readSystemInfoX s b _)

theorem cnt_infoAt (x : Exception) (i : Nat) : CntLe 0 (infoAt x i) := by
  unfold infoAt; split <;> exact Nat.le_refl _

theorem cnt_reasonInputs (x : Exception) : CntLe 0 (reasonInputs x) := by
  unfold reasonInputs
  exact cnt_bind (cnt_infoAt _ _) (C := 0) (fun _ _ => cnt_bind (cnt_infoAt _ _) (C := 0) (fun _ _ =>
    cnt_bind (cnt_infoAt _ _) (C := 0) (fun _ _ => cnt_pure _)))

theorem cnt_readKvStream (s : Bytes) (sep : UInt8) : CntLe 0 (readKvStream s sep) := by
  rw [cnt_zero_iff]
  unfold readKvStream linuxListIter
  exact (scanLines_allocs _ _ _ _ _)

theorem cnt_readLinesStream (s : Bytes) : CntLe 0 (readLinesStream s) := by
  rw [cnt_zero_iff]
  unfold readLinesStream linesIter
  exact (scanLines_allocs _ _ _ _ _)

theorem cnt_readBreakpadInfo (b : Bytes) (e : Endian) : CntLe 0 (readBreakpadInfo b e) := by
  unfold readBreakpadInfo
  split
  · exact cnt_fail _
  · exact cnt_pure _

theorem cnt_utf16ToString (data : List Nat) : CntLe 1 (utf16ToString data) := by
  unfold utf16ToString
  dsimp only
  split
  · exact (cnt_bind (cnt_alloc _ _ _) (C := 0) (fun _ _ => cnt_pure _)).mono (by omega)
  · exact (cnt_panic _).mono (by omega)

theorem cnt_readAssertion (b : Bytes) (e : Endian) : CntLe 3 (readAssertion b e) := by
  unfold readAssertion
  split
  · exact (cnt_fail _).mono (by omega)
  · refine (cnt_bind (cnt_utf16ToString _) (C := 2) (fun _ _ => ?_)).mono (by omega)
    refine (cnt_bind (cnt_utf16ToString _) (C := 1) (fun _ _ => ?_)).mono (by omega)
    exact (cnt_bind (cnt_utf16ToString _) (C := 0) (fun _ _ => cnt_pure _)).mono (by omega)

theorem cnt_readCStringUtf8 (b : Bytes) (off : Nat) : CntLe 0 (readCStringUtf8 b off) := by
  unfold readCStringUtf8
  split
  · exact cnt_pure _
  · exact cnt_bind (cnt_usizeSub _ _ _) (C := 0) (fun _ _ =>
      cnt_bind (cnt_sliceRange _ _ _ _) (C := 0) (fun _ _ => cnt_pure _))

theorem cnt_readCStringUtf8X (b : Bytes) (off : Nat) : CntLe 1 (readCStringUtf8X b off) := by
  unfold readCStringUtf8X
  refine (cnt_bind (cnt_readCStringUtf8 b off) (C := 1) (fun r _ => ?_)).mono (by omega)
  split
  · exact (cnt_pure _).mono (by omega)
  · split
    · exact (cnt_bind (cnt_alloc _ _ _) (C := 0) (fun _ _ => cnt_pure _)).mono (by omega)
    · exact (cnt_pure _).mono (by omega)

theorem cnt_readCStrings (rec : Bytes) : ∀ (n off : Nat), CntLe n (readCStrings rec n off) := by
  intro n
  induction n with
  | zero => intro off; exact cnt_pure _
  | succ n ih =>
    intro off
    unfold readCStrings
    refine (cnt_bind (cnt_readCStringUtf8X rec off) (C := n) (fun r _ => ?_)).mono (by omega)
    split
    · exact (cnt_fail _).mono (by omega)
    · exact (cnt_bind (ih _) (C := 0) (fun _ _ => cnt_pure _)).mono (by omega)

theorem cnt_readMacVariant (rec : Bytes) (e : Endian) (so variant : Nat) (l : Layout) (n : Nat) (hn : n ≤ 5) :
    CntLe 5 (readMacVariant rec e so variant l n) := by
  unfold readMacVariant
  split
  · exact (cnt_fail _).mono (by omega)
  · split
    · exact (cnt_fail _).mono (by omega)
    · exact (cnt_bind (cnt_readCStrings rec _ _) (C := 0) (fun _ _ => cnt_pure _)).mono (by omega)

theorem cnt_readMacRecord (all : Bytes) (e : Endian) (so : Nat) (loc : Loc) (prev : Option Nat) :
    CntLe 5 (readMacRecord all e so loc prev) := by
  unfold readMacRecord
  split
  · exact (cnt_fail _).mono (by omega)
  · split
    · exact (cnt_fail _).mono (by omega)
    · dsimp only
      split
      · exact (cnt_fail _).mono (by omega)
      · split
        · exact (cnt_bind (cnt_readMacVariant _ _ _ _ _ _ (by decide)) (C := 0) (fun _ _ => cnt_pure _)).mono (by omega)
        · split
          · exact (cnt_bind (cnt_readMacVariant _ _ _ _ _ _ (by decide)) (C := 0) (fun _ _ => cnt_pure _)).mono (by omega)
          · split
            · exact (cnt_bind (cnt_readMacVariant _ _ _ _ _ _ (by decide)) (C := 0) (fun _ _ => cnt_pure _)).mono (by omega)
            · exact (cnt_pure _).mono (by omega)

theorem cnt_readMacRecords (all : Bytes) (e : Endian) (so : Nat) :
    ∀ (locs : List Loc) (prev : Option Nat), CntLe (5 * locs.length) (readMacRecords all e so locs prev) := by
  intro locs
  induction locs with
  | nil => intro prev; exact cnt_pure _
  | cons loc rest ih =>
    intro prev
    unfold readMacRecords
    refine (cnt_bind (cnt_readMacRecord all e so loc prev) (C := 5 * rest.length) (fun r _ => ?_)).mono
      (by simp only [List.length_cons]; omega)
    exact (cnt_bind (ih _) (C := 0) (fun _ _ => cnt_pure _)).mono (by omega)

theorem cnt_readMacCrashInfo (b all : Bytes) (e : Endian) : CntLe 100 (readMacCrashInfo b all e) := by
  unfold readMacCrashInfo
  split
  · exact (cnt_fail _).mono (by omega)
  · rename_i v hv
    have hlen := readFields_length hv
    rw [mac_header_length] at hlen
    have h1 := macRecordLocs_length (v.drop 3)
    have h2 : ((macRecordLocs (v.drop 3)).take (fld v 1)).length ≤ 20 := by
      have : (v.drop 3).length = 40 := by simp [hlen]
      simp only [List.length_take]
      omega
    exact (cnt_readMacRecords all e _ _ _).mono (by omega)

theorem cnt_macPrint (rs : List MacRecord) : CntLe 0 (macPrint rs) := by
  unfold macPrint
  refine cnt_loop_zero _ _ _ (fun s i => cnt_bind ?_ (C := 0) (fun _ _ => cnt_pure _))
  unfold macRecordAt
  split <;> exact Nat.le_refl _

theorem cnt_readMacBootargs (b all : Bytes) (e : Endian) : CntLe 1 (readMacBootargs b all e) := by
  unfold readMacBootargs
  split
  · exact (cnt_fail _).mono (by omega)
  · exact (cnt_bind (cnt_readStringUtf16 _ _ _) (C := 0) (fun _ _ => cnt_pure _)).mono (by omega)

/-- after `readAll`, `readExtra` makes at most 110 allocations: 2 for the system info, 4 for the two
    lookup tables, 3 for the assertion strings, at most 5 per macOS crash-info record (20 records
    at most), 1 for the boot args; contexts, stacks, text-stream iterators and printers make none -/
theorem cnt_readExtra (b : Bytes) (p : Parsed) : CntLe 110 (readExtra b p) := by
  unfold readExtra
  dsimp only
  refine (cnt_bind (cnt_getSystemInfo _ _) (C := 108) (fun _ _ => ?_)).mono (by omega)
  refine (cnt_bind (cnt_tableOf _) (C := 106) (fun _ _ => ?_)).mono (by omega)
  refine (cnt_bind (cnt_tableOf _) (C := 104) (fun _ _ => ?_)).mono (by omega)
  refine (cnt_bind (A := 0) ?_ (C := 104) (fun _ _ => ?_)).mono (by omega)
  · split
    · exact cnt_bind (cnt_threadsX _ _ _ _ _) (C := 0) (fun _ _ => cnt_pure _)
    · exact cnt_pure _
  refine (cnt_bind (A := 0) ?_ (C := 104) (fun _ _ => ?_)).mono (by omega)
  · split
    · exact cnt_bind (cnt_contextOf _ _ _ _) (C := 0) (fun _ _ => cnt_pure _)
    · exact cnt_pure _
  refine (cnt_bind (A := 0) ?_ (C := 104) (fun _ _ => ?_)).mono (by omega)
  · split
    · exact cnt_bind (cnt_reasonInputs _) (C := 0) (fun _ _ => cnt_pure _)
    · exact cnt_pure _
  refine (cnt_bind (A := 0) ?_ (C := 104) (fun _ _ => ?_)).mono (by omega)
  · split
    · split
      · exact cnt_bind (cnt_printContents _) (C := 0) (fun _ _ => cnt_pure _)
      · exact cnt_pure _
    · exact cnt_pure _
  refine (cnt_bind (cnt_getStream_const (N := 0) _ _ _ _ (fun s => cnt_readKvStream s _)) (C := 104) (fun _ _ => ?_)).mono (by omega)
  refine (cnt_bind (cnt_getStream_const (N := 0) _ _ _ _ (fun s => cnt_readKvStream s _)) (C := 104) (fun _ _ => ?_)).mono (by omega)
  refine (cnt_bind (cnt_getStream_const (N := 0) _ _ _ _ (fun s => cnt_readKvStream s _)) (C := 104) (fun _ _ => ?_)).mono (by omega)
  refine (cnt_bind (cnt_getStream_const (N := 0) _ _ _ _ (fun s => cnt_readKvStream s _)) (C := 104) (fun _ _ => ?_)).mono (by omega)
  refine (cnt_bind (cnt_getStream_const (N := 0) _ _ _ _ (fun s => cnt_readLinesStream s)) (C := 104) (fun _ _ => ?_)).mono (by omega)
  refine (cnt_bind (cnt_getStream_const (N := 0) _ _ _ _ (fun s => cnt_readBreakpadInfo s _)) (C := 104) (fun _ _ => ?_)).mono (by omega)
  refine (cnt_bind (cnt_getStream_const (N := 3) _ _ _ _ (fun s => cnt_readAssertion s _)) (C := 101) (fun _ _ => ?_)).mono (by omega)
  refine (cnt_bind (cnt_getStream_const (N := 100) _ _ _ _ (fun s => cnt_readMacCrashInfo s b _)) (C := 1) (fun _ _ => ?_)).mono (by omega)
  refine (cnt_bind (A := 0) ?_ (C := 1) (fun _ _ => ?_)).mono (by omega)
  · split
    · exact cnt_macPrint _
    · exact cnt_pure _
  exact (cnt_bind (cnt_getStream_const (N := 1) _ _ _ _ (fun s => cnt_readMacBootargs s b _)) (C := 0) (fun _ _ => cnt_pure _)).mono (by omega)

/-- the sum of the requests `readExtra` adds is linear in the file length -/
theorem total_readExtra (b : Bytes) (p : Parsed) (hsz : SliceLen b.size) (hp : ParsedOk b p) :
    totalBytes (readExtra b p).allocs ≤ 110 * (K * b.size) :=
  Nat.le_trans (totalBytes_le _ _ (readExtra_safe b p hsz hp).2) (Nat.mul_le_mul_right _ (cnt_readExtra b p))

end MdModel.Dump
