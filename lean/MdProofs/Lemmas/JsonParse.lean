/-
  Round trip `parse (render j) = some j` for `MdModel.Json` (C15, "valid UTF-8 JSON"):
  strings (every Unicode scalar value), numbers, and the array/object structure.
-/
import MdProofs.Lemmas.Json
namespace MdModel.Json
open MdModel

/-! ## strings -/

theorem hex4_ctrl : ∀ n, n < 32 →
    hex4 '0' '0' (digitChar (n / 16)) (digitChar (n % 16)) = some n := by decide

theorem char_of_toNat (c : Char) (n : Nat) (h : c.toNat = n) : c = Char.ofNat n := by
  subst h
  exact (Char.ofNat_toNat c).symm

/-- one escaped character is read back as itself, for one unit of fuel -/
theorem parseStrBody_esc (fuel : Nat) (c : Char) (r acc : List Char) :
    parseStrBody (fuel + 1) (escChar c ++ r) acc = parseStrBody fuel r (c :: acc) := by
  unfold escChar
  split
  · subst_vars; simp [parseStrBody, parseEscape, unescSimple]
  · split
    · subst_vars; simp [parseStrBody, parseEscape, unescSimple]
    · split
      · rename_i h; rw [char_of_toNat c 8 h]; simp [parseStrBody, parseEscape, unescSimple]
      · split
        · rename_i h; rw [char_of_toNat c 12 h]; simp [parseStrBody, parseEscape, unescSimple]
        · split
          · rename_i h; rw [char_of_toNat c 10 h]; simp [parseStrBody, parseEscape, unescSimple]
          · split
            · rename_i h; rw [char_of_toNat c 13 h]; simp [parseStrBody, parseEscape, unescSimple]
            · split
              · rename_i h; rw [char_of_toNat c 9 h]; simp [parseStrBody, parseEscape, unescSimple]
              · split
                · rename_i h
                  have h4 := hex4_ctrl c.toNat h
                  have hlo : ¬ (0xD800 ≤ c.toNat ∧ c.toNat < 0xDC00) := by omega
                  have hhi : ¬ (0xDC00 ≤ c.toNat ∧ c.toNat < 0xE000) := by omega
                  simp [parseStrBody, parseEscape, parseU, h4, hlo, hhi, Char.ofNat_toNat]
                · rename_i h1 h2 _ _ _ _ _ h8
                  simp [parseStrBody, h1, h2, h8]

theorem parseStrBody_flatMap (s : List Char) (rest acc : List Char) (fuel : Nat) (hf : s.length + 1 ≤ fuel) :
    parseStrBody fuel (s.flatMap escChar ++ '"' :: rest) acc = some (String.ofList (acc.reverse ++ s), rest) := by
  induction s generalizing acc fuel with
  | nil =>
    cases fuel with
    | zero => simp at hf
    | succ f => simp [parseStrBody]
  | cons c s ih =>
    cases fuel with
    | zero => simp at hf
    | succ f =>
      rw [List.flatMap_cons, List.append_assoc, parseStrBody_esc, ih _ _ (by simpa using hf)]
      simp

theorem escChar_length (c : Char) : 1 ≤ (escChar c).length := by
  unfold escChar
  repeat' split
  all_goals simp

theorem flatMap_esc_length (s : List Char) : s.length ≤ (s.flatMap escChar).length := by
  induction s with
  | nil => simp
  | cons c s ih =>
    have := escChar_length c
    simp only [List.flatMap_cons, List.length_append, List.length_cons]
    omega

/-! ### the fuel of `parseStr`: a scan to the closing quote instead of the length of the document -/

theorem strEnd_acc (b : Bool) (l : List Char) (a : Nat) : strEnd b l a = a + strEnd b l 0 := by
  induction l generalizing b a with
  | nil => simp [strEnd]
  | cons c r ih =>
    cases b with
    | true => simp only [strEnd]; rw [ih false (a + 1), ih false (0 + 1)]; omega
    | false =>
      simp only [strEnd]
      split
      · omega
      · split
        · rw [ih true (a + 1), ih true (0 + 1)]; omega
        · rw [ih false (a + 1), ih false (0 + 1)]; omega

theorem strEnd_plain (c : Char) (r : List Char) (a : Nat) (h1 : c ≠ '"') (h2 : c ≠ '\\') :
    strEnd false (c :: r) a = strEnd false r (a + 1) := by
  simp [strEnd, h1, h2]

/-- the scan steps over one escaped character exactly like `parseStrBody` does (`parseStrBody_esc`) -/
theorem strEnd_esc (c : Char) (t : List Char) (a : Nat) :
    strEnd false (escChar c ++ t) a = strEnd false t (a + (escChar c).length) := by
  unfold escChar
  split
  · simp [strEnd]
  · split
    · simp [strEnd]
    · split
      · simp [strEnd]
      · split
        · simp [strEnd]
        · split
          · simp [strEnd]
          · split
            · simp [strEnd]
            · split
              · simp [strEnd]
              · split
                · have hd : ∀ n, n < 16 → digitChar n ≠ '"' ∧ digitChar n ≠ '\\' := by decide
                  have h1 := hd (c.toNat / 16) (by omega)
                  have h2 := hd (c.toNat % 16) (by omega)
                  simp [strEnd, h1.1, h1.2, h2.1, h2.2]
                · rename_i h1 h2 _ _ _ _ _ _
                  simp [strEnd, h1, h2]

theorem strEnd_flatMap (s rest : List Char) (a : Nat) :
    strEnd false (s.flatMap escChar ++ '"' :: rest) a = a + (s.flatMap escChar).length := by
  induction s generalizing a with
  | nil => simp [strEnd]
  | cons c s ih =>
    rw [List.flatMap_cons, List.append_assoc, strEnd_esc, ih]
    simp only [List.length_append]
    omega

/-- **strings round-trip**, for every sequence of Unicode scalar values -/
theorem parseStr_renderStr (s : String) (rest : List Char) :
    ∃ body, renderStr s ++ rest = '"' :: body ∧ parseStr body = some (s, rest) := by
  refine ⟨s.toList.flatMap escChar ++ '"' :: rest, by simp [renderStr], ?_⟩
  unfold parseStr
  rw [parseStrBody_flatMap]
  · simp
  · have := flatMap_esc_length s.toList
    rw [strEnd_flatMap]
    omega

/-! ### … and the scan is enough fuel for EVERY input: `parseStr` is the function it was with the
    old fuel `r.length` (nothing is rejected that was accepted before, and vice versa) -/

theorem strEnd_le (b : Bool) (l : List Char) : strEnd b l 0 ≤ l.length := by
  induction l generalizing b with
  | nil => simp [strEnd]
  | cons c r ih =>
    cases b with
    | true => simp only [strEnd, List.length_cons]; rw [strEnd_acc]; have := ih false; omega
    | false =>
      simp only [strEnd, List.length_cons]
      split
      · omega
      · split
        · rw [strEnd_acc]; have := ih true; omega
        · rw [strEnd_acc]; have := ih false; omega

theorem isHexAny_plain (c : Char) (h : isHexAny c = true) : c ≠ '"' ∧ c ≠ '\\' := by
  constructor <;> (intro hc; subst hc; revert h; decide)

theorem hex4_plain {a b c d : Char} {h : Nat} (hh : hex4 a b c d = some h) :
    isHexAny a = true ∧ isHexAny b = true ∧ isHexAny c = true ∧ isHexAny d = true := by
  unfold hex4 at hh
  split at hh
  · rename_i hc
    simpa [Bool.and_eq_true, and_assoc] using hc
  · cases hh

/-- four hex digits are stepped over one by one -/
theorem strEnd_hex4 {a b c d : Char} {h : Nat} (hh : hex4 a b c d = some h) (r : List Char) (n : Nat) :
    strEnd false (a :: b :: c :: d :: r) n = strEnd false r (n + 4) := by
  obtain ⟨ha, hb, hc, hd⟩ := hex4_plain hh
  rw [strEnd_plain a _ _ (isHexAny_plain a ha).1 (isHexAny_plain a ha).2,
    strEnd_plain b _ _ (isHexAny_plain b hb).1 (isHexAny_plain b hb).2,
    strEnd_plain c _ _ (isHexAny_plain c hc).1 (isHexAny_plain c hc).2,
    strEnd_plain d _ _ (isHexAny_plain d hd).1 (isHexAny_plain d hd).2]

theorem strEnd_true_cons (c : Char) (r : List Char) (a : Nat) :
    strEnd true (c :: r) a = strEnd false r (a + 1) := by simp [strEnd]

theorem strEnd_bs (r : List Char) (a : Nat) : strEnd false ('\\' :: r) a = strEnd true r (a + 1) := by
  simp [strEnd]

/-- whatever an escape consumes, the scan (in its "after a backslash" state) steps over too and is
    back in its normal state at the same place -/
theorem parseEscape_strEnd (r r' : List Char) (ch : Char) (h : parseEscape r = some (ch, r')) :
    strEnd false r' 0 + 1 ≤ strEnd true r 0 ∧ r'.length < r.length := by
  cases r with
  | nil => simp [parseEscape] at h
  | cons e r2 =>
    simp only [parseEscape] at h
    split at h
    · -- `\u`
      unfold parseU at h
      split at h
      · rename_i a b c d r3
        split at h
        · cases h
        · rename_i hv hh
          split at h
          · split at h
            · rename_i bs u a2 b2 c2 d2 r4
              split at h
              · rename_i hbu
                obtain ⟨h1, h2⟩ := hbu
                subst h1 h2
                split at h
                · cases h
                · rename_i l hl
                  split at h
                  · simp only [Option.some.injEq, Prod.mk.injEq] at h
                    obtain ⟨_, rfl⟩ := h
                    rw [strEnd_true_cons, strEnd_hex4 hh, strEnd_bs, strEnd_true_cons, strEnd_hex4 hl,
                      strEnd_acc _ _ (_ + _)]
                    simp only [List.length_cons]
                    omega
                  · cases h
              · cases h
            · cases h
          · split at h
            · cases h
            · simp only [Option.some.injEq, Prod.mk.injEq] at h
              obtain ⟨_, rfl⟩ := h
              rw [strEnd_true_cons, strEnd_hex4 hh, strEnd_acc _ _ (_ + _)]
              simp only [List.length_cons]
              omega
      · cases h
    · split at h
      · cases h
        rw [strEnd_true_cons, strEnd_acc _ _ (_ + _)]
        simp only [List.length_cons]
        omega
      · cases h

/-- fuel that is certainly sufficient: past the closing quote, or the whole input -/
def EnoughFuel (f : Nat) (cs : List Char) : Prop := strEnd false cs 0 + 1 ≤ f ∨ cs.length ≤ f

theorem parseStrBody_enough : ∀ (n : Nat) (cs acc : List Char) (f g : Nat), cs.length ≤ n →
    EnoughFuel f cs → EnoughFuel g cs → parseStrBody f cs acc = parseStrBody g cs acc := by
  intro n
  induction n with
  | zero =>
    intro cs acc f g hn _ _
    have : cs = [] := List.eq_nil_of_length_eq_zero (by omega)
    subst this
    cases f <;> cases g <;> simp [parseStrBody]
  | succ n ih =>
    intro cs acc f g hn hf hg
    cases cs with
    | nil => cases f <;> cases g <;> simp [parseStrBody]
    | cons c r =>
      have hf1 : 1 ≤ f := by
        rcases hf with h | h
        · omega
        · simp only [List.length_cons] at h; omega
      have hg1 : 1 ≤ g := by
        rcases hg with h | h
        · omega
        · simp only [List.length_cons] at h; omega
      obtain ⟨f', rfl⟩ : ∃ f', f = f' + 1 := ⟨f - 1, by omega⟩
      obtain ⟨g', rfl⟩ : ∃ g', g = g' + 1 := ⟨g - 1, by omega⟩
      simp only [List.length_cons] at hn
      simp only [parseStrBody]
      by_cases hq : c = '"'
      · simp [hq]
      · by_cases hb : c = '\\'
        · subst hb
          simp only [if_true, show ('\\' : Char) ≠ '"' by decide, if_false]
          cases hpe : parseEscape r with
          | none => rfl
          | some p =>
            obtain ⟨ch, r'⟩ := p
            obtain ⟨h1, h2⟩ := parseEscape_strEnd r r' ch hpe
            have hstep : strEnd false ('\\' :: r) 0 = 1 + strEnd true r 0 := by
              rw [strEnd_bs, strEnd_acc _ _ (_ + _)]
            apply ih r' (ch :: acc) f' g' (by omega)
            · rcases hf with h | h
              · left; omega
              · right; simp only [List.length_cons] at h; omega
            · rcases hg with h | h
              · left; omega
              · right; simp only [List.length_cons] at h; omega
        · simp only [hq, hb, if_false]
          split
          · rfl
          · have hstep : strEnd false (c :: r) 0 = 1 + strEnd false r 0 := by
              rw [strEnd_plain c r 0 hq hb, strEnd_acc]
            apply ih r (c :: acc) f' g' (by omega)
            · rcases hf with h | h
              · left; omega
              · right; simp only [List.length_cons] at h; omega
            · rcases hg with h | h
              · left; omega
              · right; simp only [List.length_cons] at h; omega

/-- **no weakening**: with the scan as fuel `parseStr` is, on EVERY input, the function it was with
    the length of the whole remaining document as fuel -/
theorem parseStr_fuel (r : List Char) : parseStr r = parseStrBody r.length r [] :=
  parseStrBody_enough r.length r [] _ _ (Nat.le_refl _) (Or.inl (Nat.le_refl _)) (Or.inr (Nat.le_refl _))

/-! ## numbers -/

/-- what may follow a value inside a document: nothing, or `,` `]` `}` -/
def Delim (rest : List Char) : Prop := ∀ c r, rest = c :: r → c = ',' ∨ c = ']' ∨ c = '}'

def StartsNot (p : Char → Bool) (l : List Char) : Prop := ∀ c r, l = c :: r → p c = false

theorem takeWhile_app (p : Char → Bool) (xs tail : List Char) (hall : xs.all p = true)
    (ht : StartsNot p tail) :
    (xs ++ tail).takeWhile p = xs ∧ (xs ++ tail).dropWhile p = tail := by
  induction xs with
  | nil =>
    cases tail with
    | nil => simp
    | cons c r => simp [ht c r rfl]
  | cons x xs ih =>
    simp only [List.all_cons, Bool.and_eq_true] at hall
    obtain ⟨h1, h2⟩ := ih hall.2
    simp [hall.1, h1, h2]

theorem natDigits_all (n : Nat) : (natDigits n).all isDigit = true :=
  digitsB_all 10 isDigit (by decide) (fun d hd => (digitChar_dec d hd).1) n

theorem decValue_natDigits (n : Nat) : decValue (natDigits n) = n :=
  valB_digitsB 10 decVal (by decide) (fun d hd => (digitChar_dec d hd).2) n

theorem natDigits_head (n : Nat) :
    ∃ c r, natDigits n = c :: r ∧ isDigit c = true ∧ (c = '0' → r = []) := by
  obtain ⟨d, r, h1, h2, h3⟩ := digitsB_head 10 (by decide) n
  refine ⟨digitChar d, r, h1, (digitChar_dec d h2).1, fun h0 => (h3 (digitChar_dec0 d h2 h0)).2⟩

theorem Delim.notDigit {rest : List Char} (h : Delim rest) : StartsNot isDigit rest := by
  intro c r hc
  rcases h c r hc with h | h | h <;> subst h <;> decide

theorem toFin10_fracChar : ∀ d : Fin 10, toFin10 (fracChar d) = d := by decide
theorem fracChar_digit : ∀ d : Fin 10, isDigit (fracChar d) = true := by decide

theorem parseFrac_none (tail : List Char) (h : ∀ c r, tail = c :: r → c ≠ '.') :
    parseFrac tail = some ([], tail) := by
  cases tail with
  | nil => rfl
  | cons c r => simp [parseFrac, h c r rfl]

theorem parseFrac_some (frac : List (Fin 10)) (hne : frac ≠ []) (tail : List Char)
    (ht : StartsNot isDigit tail) :
    parseFrac ('.' :: (frac.map fracChar ++ tail)) = some (frac.map fracChar, tail) := by
  have hall : (frac.map fracChar).all isDigit = true := by
    simp [List.all_map, fracChar_digit]
  obtain ⟨h1, h2⟩ := takeWhile_app isDigit _ tail hall ht
  have : frac.map fracChar ≠ [] := by simpa using hne
  simp [parseFrac, h1, h2, this]

theorem parseExp_none (tail : List Char) (h : ∀ c r, tail = c :: r → c ≠ 'e' ∧ c ≠ 'E') :
    parseExp tail = some (none, tail) := by
  cases tail with
  | nil => rfl
  | cons c r => simp [parseExp, (h c r rfl).1, (h c r rfl).2]

theorem parseExp_some (neg : Bool) (e : Nat) (tail : List Char) (ht : StartsNot isDigit tail) :
    parseExp ('e' :: ((if neg then ['-'] else []) ++ natDigits e ++ tail)) = some (some (neg, e), tail) := by
  obtain ⟨h1, h2⟩ := takeWhile_app isDigit _ tail (natDigits_all e) ht
  obtain ⟨c, r, hd, hc, _⟩ := natDigits_head e
  have hne : natDigits e ≠ [] := by rw [hd]; simp
  cases neg with
  | true =>
    simp [parseExp, h1, h2, hne, decValue_natDigits]
  | false =>
    have hm : c ≠ '-' := by intro h; subst h; simp [isDigit] at hc
    have hp : c ≠ '+' := by intro h; subst h; simp [isDigit] at hc
    have hh : (natDigits e ++ tail).head? = some c := by rw [hd]; rfl
    simp [parseExp, hh, hm, hp, h1, h2, hne, decValue_natDigits]

/-- **numbers round-trip** -/
theorem parseNum_renderNum (n : JNum) (rest : List Char) (hd : Delim rest) :
    parseNum (renderNum n ++ rest) = some (n, rest) := by
  obtain ⟨neg, ip, frac, exp⟩ := n
  -- the three tails
  let T2 : List Char := (match exp with
    | none => []
    | some (eneg, e) => 'e' :: ((if eneg then ['-'] else []) ++ natDigits e)) ++ rest
  let T1 : List Char := (if frac = [] then [] else '.' :: frac.map fracChar) ++ T2
  have hT2 : parseExp T2 = some (exp, rest) := by
    cases exp with
    | none =>
      apply parseExp_none
      intro c r hc
      rcases hd c r hc with h | h | h <;> subst h <;> decide
    | some p =>
      obtain ⟨eneg, e⟩ := p
      have := parseExp_some eneg e rest hd.notDigit
      simpa [T2, List.append_assoc] using this
  have hT2d : StartsNot isDigit T2 := by
    cases exp with
    | none => exact hd.notDigit
    | some p =>
      intro c r hc
      simp only [T2, List.cons_append] at hc
      cases hc
      decide
  have hT2dot : ∀ c r, T2 = c :: r → c ≠ '.' := by
    cases exp with
    | none =>
      intro c r hc
      rcases hd c r hc with h | h | h <;> subst h <;> decide
    | some p =>
      intro c r hc
      simp only [T2, List.cons_append] at hc
      cases hc
      decide
  have hT1 : parseFrac T1 = some (frac.map fracChar, T2) := by
    by_cases hf : frac = []
    · subst hf
      simpa [T1] using parseFrac_none T2 hT2dot
    · have := parseFrac_some frac hf T2 hT2d
      simpa [T1, hf] using this
  have hT1d : StartsNot isDigit T1 := by
    by_cases hf : frac = []
    · subst hf; simpa [T1] using hT2d
    · intro c r hc
      simp only [T1, hf, if_false, List.cons_append] at hc
      cases hc
      decide
  obtain ⟨h1, h2⟩ := takeWhile_app isDigit (natDigits ip) T1 (natDigits_all ip) hT1d
  obtain ⟨c, r, hdg, hc, hz⟩ := natDigits_head ip
  have hne : natDigits ip ≠ [] := by rw [hdg]; simp
  have hlead : ¬ ((natDigits ip).head? = some '0' ∧ (natDigits ip).length > 1) := by
    rw [hdg]
    intro ⟨ha, hb⟩
    simp at ha
    have := hz ha
    subst this
    simp at hb
  have hmap : (frac.map fracChar).map toFin10 = frac := by
    simp [List.map_map, Function.comp_def, toFin10_fracChar]
  have hshape : renderNum ⟨neg, ip, frac, exp⟩ ++ rest = (if neg then ['-'] else []) ++ (natDigits ip ++ T1) := by
    simp only [renderNum, T1, T2, List.append_assoc]
    cases exp <;> rfl
  rw [hshape]
  cases neg with
  | true =>
    simp only [parseNum, if_true, List.cons_append, List.nil_append, List.head?_cons, List.drop_succ_cons,
      List.drop_zero, h1, h2, hne, hlead, if_false, hT1, hT2, hmap, decValue_natDigits]
    simp
  | false =>
    have hm : c ≠ '-' := by intro h; subst h; simp [isDigit] at hc
    have hh : (natDigits ip ++ T1).head? = some c := by rw [hdg]; rfl
    simp only [parseNum, Bool.false_eq_true, if_false, List.nil_append, hh, Option.some.injEq, hm, h1, h2, hne, hlead,
      hT1, hT2, hmap, decValue_natDigits]
    simp

/-! ## structure -/

theorem skipWs_cons (c : Char) (r : List Char) (h : isWs c = false) : skipWs (c :: r) = c :: r := by
  simp [skipWs, List.dropWhile, h]

/-- first characters that start a value and are not confused with white space or a closer -/
def Starter (c : Char) : Prop :=
  isWs c = false ∧ c ≠ ']' ∧ c ≠ '}' ∧ c ≠ ',' ∧ c ≠ ':'

theorem numStart_facts (c : Char) (h : c = '-' ∨ isDigit c = true) :
    Starter c ∧ c ≠ '"' ∧ c ≠ '[' ∧ c ≠ '{' ∧ c ≠ 'n' ∧ c ≠ 't' ∧ c ≠ 'f' := by
  rcases h with h | h
  · subst h; refine ⟨⟨?_, ?_, ?_, ?_, ?_⟩, ?_, ?_, ?_, ?_, ?_, ?_⟩ <;> decide
  · have hr : 48 ≤ c.toNat ∧ c.toNat ≤ 57 := by simpa [isDigit] using h
    have ne : ∀ d : Char, (d.toNat < 48 ∨ 57 < d.toNat) → c ≠ d := by
      intro d hd hcd; subst hcd; omega
    refine ⟨⟨?_, ne _ (by decide), ne _ (by decide), ne _ (by decide), ne _ (by decide)⟩,
      ne _ (by decide), ne _ (by decide), ne _ (by decide), ne _ (by decide), ne _ (by decide),
      ne _ (by decide)⟩
    simp only [isWs, Bool.or_eq_false_iff, decide_eq_false_iff_not]
    omega

theorem renderNum_head (n : JNum) :
    ∃ c r, renderNum n = c :: r ∧ (c = '-' ∨ isDigit c = true) := by
  obtain ⟨neg, ip, frac, exp⟩ := n
  obtain ⟨c, r, hd, hc, _⟩ := natDigits_head ip
  have key : ∀ tail : List Char, ∃ c' r', (if neg then ['-'] else []) ++ natDigits ip ++ tail = c' :: r' ∧
      (c' = '-' ∨ isDigit c' = true) := by
    intro tail
    cases neg
    · exact ⟨c, r ++ tail, by simp [hd], Or.inr hc⟩
    · exact ⟨'-', natDigits ip ++ tail, by simp, Or.inl rfl⟩
  obtain ⟨c', r', h1, h2⟩ := key ((if frac = [] then [] else '.' :: frac.map fracChar) ++
      (match exp with
       | none => []
       | some (neg, e) => 'e' :: ((if neg then ['-'] else []) ++ natDigits e)))
  refine ⟨c', r', ?_, h2⟩
  rw [← h1]
  simp only [renderNum, List.append_assoc]
  cases exp <;> rfl

theorem starter_lit (c : Char) (h : isWs c = false ∧ c ≠ ']' ∧ c ≠ '}' ∧ c ≠ ',' ∧ c ≠ ':') : Starter c := h

theorem render_head (j : Json) : ∃ c r, render j = c :: r ∧ Starter c := by
  cases j with
  | null => exact ⟨'n', ['u', 'l', 'l'], by simp only [render], by refine ⟨?_, ?_, ?_, ?_, ?_⟩ <;> decide⟩
  | bool b =>
    cases b
    · exact ⟨'f', ['a', 'l', 's', 'e'], by simp only [render], by refine ⟨?_, ?_, ?_, ?_, ?_⟩ <;> decide⟩
    · exact ⟨'t', ['r', 'u', 'e'], by simp only [render], by refine ⟨?_, ?_, ?_, ?_, ?_⟩ <;> decide⟩
  | num n =>
    obtain ⟨c, r, h1, h2⟩ := renderNum_head n
    exact ⟨c, r, by simp only [render, h1], (numStart_facts c h2).1⟩
  | str s =>
    exact ⟨'"', s.toList.flatMap escChar ++ ['"'], by simp only [render, renderStr],
      by refine ⟨?_, ?_, ?_, ?_, ?_⟩ <;> decide⟩
  | arr xs =>
    cases xs with
    | nil => exact ⟨'[', [']'], by simp only [render], by refine ⟨?_, ?_, ?_, ?_, ?_⟩ <;> decide⟩
    | cons x xs =>
      exact ⟨'[', render x ++ renderTail xs, by simp only [render], by refine ⟨?_, ?_, ?_, ?_, ?_⟩ <;> decide⟩
  | obj kvs =>
    cases kvs with
    | nil => exact ⟨'{', ['}'], by simp only [render], by refine ⟨?_, ?_, ?_, ?_, ?_⟩ <;> decide⟩
    | cons kv kvs =>
      obtain ⟨k, v⟩ := kv
      exact ⟨'{', renderStr k ++ ':' :: (render v ++ renderFTail kvs), by simp only [render],
        by refine ⟨?_, ?_, ?_, ?_, ?_⟩ <;> decide⟩

theorem renderTail_delim (xs : List Json) (rest : List Char) : Delim (renderTail xs ++ rest) := by
  intro c r h
  cases xs with
  | nil => simp [renderTail] at h; exact Or.inr (Or.inl h.1.symm)
  | cons x xs => simp [renderTail] at h; exact Or.inl h.1.symm

theorem renderFTail_delim (kvs : List (String × Json)) (rest : List Char) : Delim (renderFTail kvs ++ rest) := by
  intro c r h
  cases kvs with
  | nil => simp [renderFTail] at h; exact Or.inr (Or.inr h.1.symm)
  | cons kv kvs =>
    obtain ⟨k, v⟩ := kv
    simp [renderFTail] at h; exact Or.inl h.1.symm

/-- the three mutually dependent statements, for a given amount of fuel -/
def RT (fuel : Nat) : Prop :=
  (∀ (j : Json) (rest : List Char), (render j).length ≤ fuel → Delim rest →
    parseValue fuel (render j ++ rest) = some (j, rest)) ∧
  (∀ (x : Json) (xs acc : List Json) (rest : List Char),
    (render x ++ renderTail xs).length ≤ fuel → Delim rest →
    parseElems fuel (render x ++ renderTail xs ++ rest) acc = some (.arr (acc.reverse ++ x :: xs), rest)) ∧
  (∀ (k : String) (v : Json) (kvs acc : List (String × Json)) (rest : List Char),
    (renderStr k ++ ':' :: (render v ++ renderFTail kvs)).length ≤ fuel → Delim rest →
    parseMembers fuel (renderStr k ++ ':' :: (render v ++ renderFTail kvs) ++ rest) acc =
      some (.obj (acc.reverse ++ (k, v) :: kvs), rest))

theorem rt_value (f : Nat) (ih : RT f) (j : Json) (rest : List Char)
    (hlen : (render j).length ≤ f + 1) (hd : Delim rest) :
    parseValue (f + 1) (render j ++ rest) = some (j, rest) := by
  cases j with
  | null => simp [render, parseValue, skipWs, isWs]
  | bool b => cases b <;> simp [render, parseValue, skipWs, isWs]
  | num n =>
    obtain ⟨c, r, h1, h2⟩ := renderNum_head n
    obtain ⟨⟨hw, _⟩, q1, q2, q3, q4, q5, q6⟩ := numStart_facts c h2
    have hp := parseNum_renderNum n rest hd
    simp only [render, h1, List.cons_append] at hp ⊢
    simp only [parseValue, skipWs_cons c _ hw, q1, q2, q3, q4, q5, q6, if_false, h2, if_true, hp]
  | str s =>
    obtain ⟨body, h1, h2⟩ := parseStr_renderStr s rest
    simp only [render, h1]
    simp [parseValue, skipWs, isWs, h2]
  | arr xs =>
    cases xs with
    | nil => simp [render, parseValue, skipWs, isWs]
    | cons x xs =>
      obtain ⟨c, r, h1, hs, hb, _⟩ := render_head x
      have hl : (render x ++ renderTail xs).length ≤ f := by
        simp only [render, List.length_cons] at hlen; omega
      have := ih.2.1 x xs [] rest hl hd
      simp only [render, List.cons_append, List.append_assoc]
      simp only [h1, List.cons_append, List.append_assoc] at this ⊢
      simp [parseValue, skipWs_cons '[' _ (by decide), skipWs_cons c _ hs, hb, this]
  | obj kvs =>
    cases kvs with
    | nil => simp [render, parseValue, skipWs, isWs]
    | cons kv kvs =>
      obtain ⟨k, v⟩ := kv
      have hl : (renderStr k ++ ':' :: (render v ++ renderFTail kvs)).length ≤ f := by
        simp only [render, List.length_cons] at hlen; omega
      have := ih.2.2 k v kvs [] rest hl hd
      simp only [render, List.cons_append, List.append_assoc]
      simp only [renderStr, List.cons_append, List.append_assoc] at this ⊢
      simp only [List.nil_append, List.reverse_nil] at this
      simp [parseValue, skipWs_cons '{' _ (by decide), skipWs_cons '"' _ (by decide), this]

theorem render_length_pos (j : Json) : 1 ≤ (render j).length := by
  obtain ⟨c, r, h, _⟩ := render_head j
  rw [h]; simp

theorem renderTail_length_pos (xs : List Json) : 1 ≤ (renderTail xs).length := by
  cases xs <;> simp [renderTail]

theorem renderFTail_length_pos (kvs : List (String × Json)) : 1 ≤ (renderFTail kvs).length := by
  cases kvs with
  | nil => simp [renderFTail]
  | cons kv kvs => obtain ⟨k, v⟩ := kv; simp [renderFTail]

theorem rt_elems (f : Nat) (ih : RT f) (x : Json) (xs acc : List Json) (rest : List Char)
    (hlen : (render x ++ renderTail xs).length ≤ f + 1) (hd : Delim rest) :
    parseElems (f + 1) (render x ++ renderTail xs ++ rest) acc = some (.arr (acc.reverse ++ x :: xs), rest) := by
  have hx : (render x).length ≤ f := by
    have := renderTail_length_pos xs
    simp only [List.length_append] at hlen; omega
  have hv := ih.1 x (renderTail xs ++ rest) hx (renderTail_delim xs rest)
  rw [List.append_assoc]
  cases xs with
  | nil =>
    simp only [renderTail, List.cons_append, List.nil_append] at hv ⊢
    simp [parseElems, hv, skipWs_cons ']' _ (by decide)]
  | cons y ys =>
    have hl : (render y ++ renderTail ys).length ≤ f := by
      have := render_length_pos x
      simp only [renderTail, List.length_append, List.length_cons] at hlen ⊢; omega
    have hrec := ih.2.1 y ys (x :: acc) rest hl hd
    simp only [renderTail, List.cons_append, List.append_assoc] at hv hrec ⊢
    simp [parseElems, hv, skipWs_cons ',' _ (by decide), hrec]

theorem rt_members (f : Nat) (ih : RT f) (k : String) (v : Json) (kvs acc : List (String × Json))
    (rest : List Char)
    (hlen : (renderStr k ++ ':' :: (render v ++ renderFTail kvs)).length ≤ f + 1) (hd : Delim rest) :
    parseMembers (f + 1) (renderStr k ++ ':' :: (render v ++ renderFTail kvs) ++ rest) acc =
      some (.obj (acc.reverse ++ (k, v) :: kvs), rest) := by
  obtain ⟨body, hb1, hb2⟩ := parseStr_renderStr k (':' :: (render v ++ renderFTail kvs) ++ rest)
  have hk : 2 ≤ (renderStr k).length := by simp [renderStr]
  have hvlen : (render v).length ≤ f := by
    have := renderFTail_length_pos kvs
    simp only [List.length_append, List.length_cons] at hlen; omega
  have hv := ih.1 v (renderFTail kvs ++ rest) hvlen (renderFTail_delim kvs rest)
  rw [List.append_assoc, hb1]
  cases kvs with
  | nil =>
    simp only [renderFTail, List.cons_append, List.nil_append, List.append_assoc] at hv hb2 ⊢
    simp [parseMembers, skipWs_cons '"' _ (by decide), hb2, skipWs_cons ':' _ (by decide), hv,
      skipWs_cons '}' _ (by decide)]
  | cons kv' kvs' =>
    obtain ⟨k', v'⟩ := kv'
    have hl : (renderStr k' ++ ':' :: (render v' ++ renderFTail kvs')).length ≤ f := by
      have := render_length_pos v
      simp only [renderFTail, List.length_append, List.length_cons] at hlen ⊢; omega
    have hrec := ih.2.2 k' v' kvs' ((k, v) :: acc) rest hl hd
    simp only [renderFTail, List.cons_append, List.append_assoc] at hv hb2 hrec ⊢
    simp [parseMembers, skipWs_cons '"' _ (by decide), hb2, skipWs_cons ':' _ (by decide), hv,
      skipWs_cons ',' _ (by decide), hrec]

theorem rt_all : ∀ fuel, RT fuel := by
  intro fuel
  induction fuel with
  | zero =>
    refine ⟨?_, ?_, ?_⟩
    · intro j rest h; have := render_length_pos j; omega
    · intro x xs acc rest h
      have := render_length_pos x
      simp only [List.length_append] at h; omega
    · intro k v kvs acc rest h
      simp only [renderStr, List.length_append, List.length_cons] at h; omega
  | succ f ih =>
    exact ⟨fun j rest h hd => rt_value f ih j rest h hd,
      fun x xs acc rest h hd => rt_elems f ih x xs acc rest h hd,
      fun k v kvs acc rest h hd => rt_members f ih k v kvs acc rest h hd⟩

theorem delim_nil : Delim [] := by intro c r h; cases h

/-- the round trip on characters -/
theorem parse_render (j : Json) : parse (render j) = some j := by
  have := (rt_all ((render j).length + 1)).1 j [] (by omega) delim_nil
  simp only [List.append_nil] at this
  simp [parse, this, skipWs]

end MdModel.Json
