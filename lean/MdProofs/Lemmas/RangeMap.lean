/-
  Helper lemmas for C08 (range tables). Property theorems are in `MdProofs/C08.lean`.
-/
import MdModel.RangeMap
namespace MdModel.RangeMap
open MdModel

/-- an entry whose range is ordered and fits `u64` -/
def WF (e : Entry) : Prop := e.1.lo ≤ e.1.hi ∧ e.1.hi ≤ U64MAX

/-- consecutive entries `p`, `n` of a normalized vector: strictly separated and not mergeable -/
def Gap (p n : Entry) : Prop := p.1.hi < n.1.lo ∧ ¬ (n.1.lo ≤ satSucc p.1.hi ∧ n.2 = p.2)

/-- a normalized table: well-formed entries, each consecutive pair has a `Gap` -/
def Sep : List Entry → Prop
  | [] => True
  | [e] => WF e
  | p :: n :: rest => WF p ∧ Gap p n ∧ Sep (n :: rest)

theorem satSucc_ge (x : Nat) (h : x ≤ U64MAX) : x ≤ satSucc x := by
  unfold satSucc; split <;> omega

theorem satSucc_le (x : Nat) : satSucc x ≤ x + 1 := by
  unfold satSucc; split <;> omega

theorem Sep.tail {p : Entry} {rest : List Entry} (h : Sep (p :: rest)) : Sep rest := by
  cases rest with
  | nil => trivial
  | cons n rest => exact h.2.2

theorem Sep.head {p : Entry} {rest : List Entry} (h : Sep (p :: rest)) : WF p := by
  cases rest with
  | nil => exact h
  | cons n rest => exact h.1

theorem Sep.wf {m : List Entry} (h : Sep m) : ∀ e ∈ m, WF e := by
  induction m with
  | nil => intro e he; cases he
  | cons p rest ih =>
    intro e he
    rcases List.mem_cons.mp he with rfl | he
    · exact h.head
    · exact ih h.tail e he

/-- in a normalized table everything after `p` starts strictly above `p.hi` -/
theorem Sep.lt_of_mem {p : Entry} {rest : List Entry} (h : Sep (p :: rest)) :
    ∀ x ∈ rest, p.1.hi < x.1.lo := by
  induction rest generalizing p with
  | nil => intro x hx; cases hx
  | cons n rest ih =>
    intro x hx
    rcases List.mem_cons.mp hx with rfl | hx
    · exact h.2.1.1
    · have := ih h.2.2 x hx
      have hn : WF n := (Sep.tail h).head
      have := h.2.1.1
      unfold WF at hn
      omega

theorem Sep.pairwise {m : List Entry} (h : Sep m) :
    m.Pairwise (fun a b => a.1.hi < b.1.lo) := by
  induction m with
  | nil => exact List.Pairwise.nil
  | cons p rest ih =>
    exact List.Pairwise.cons (h.lt_of_mem) (ih h.tail)

/-! ### the pass produces a normalized table -/

theorem keep_head (l : Entry) (xs : List Entry) :
    ∃ l' t, keep (some l) xs = l' :: t ∧ l'.1.lo = l.1.lo ∧ l'.2 = l.2 ∧ l.1.hi ≤ l'.1.hi := by
  induction xs generalizing l with
  | nil => exact ⟨l, [], rfl, rfl, rfl, Nat.le_refl _⟩
  | cons e rest ih =>
    obtain ⟨lr, lv⟩ := l
    simp only [keep]
    split
    · exact ih (lr, lv)
    · split
      · obtain ⟨l', t, h1, h2, h3, h4⟩ := ih ({ lr with hi := max e.1.hi lr.hi }, lv)
        refine ⟨l', t, h1, h2, h3, ?_⟩
        simp at h4 ⊢
        omega
      · exact ⟨(lr, lv), _, rfl, rfl, rfl, Nat.le_refl _⟩

theorem keep_some_sep (l : Entry) (xs : List Entry) (hl : WF l) (hx : ∀ e ∈ xs, WF e) :
    Sep (keep (some l) xs) := by
  induction xs generalizing l with
  | nil => exact hl
  | cons e rest ih =>
    obtain ⟨lr, lv⟩ := l
    have he : WF e := hx e List.mem_cons_self
    have hrest : ∀ e ∈ rest, WF e := fun x h => hx x (List.mem_cons_of_mem _ h)
    simp only [keep]
    split
    · exact ih (lr, lv) hl hrest
    · split
      · apply ih _ _ hrest
        unfold WF at *
        simp at *
        omega
      · rename_i h1 h2
        obtain ⟨l', t, hk, hlo, hv, _⟩ := keep_head e rest
        have hs := ih e he hrest
        rw [hk] at hs ⊢
        refine ⟨hl, ⟨?_, ?_⟩, hs⟩
        · -- strict separation
          rw [hlo]
          by_cases hv' : e.2 = lv
          · have : ¬ e.1.lo ≤ satSucc lr.hi := fun h => h2 ⟨h, hv'⟩
            have := satSucc_ge lr.hi hl.2
            simp at *; omega
          · have : ¬ e.1.lo ≤ lr.hi := fun h => h1 ⟨h, hv'⟩
            simp at *; omega
        · rw [hlo, hv]; exact h2

theorem keep_sep (xs : List Entry) (hx : ∀ e ∈ xs, WF e) : Sep (keep none xs) := by
  cases xs with
  | nil => trivial
  | cons e rest =>
    simp only [keep]
    exact keep_some_sep e rest (hx e List.mem_cons_self)
      (fun x h => hx x (List.mem_cons_of_mem _ h))

/-! ### `normalize` is the identity on a normalized table and discards nothing -/

theorem keep_disc_of_sep (p : Entry) (rest : List Entry) (h : Sep (p :: rest)) :
    keep (some p) rest = p :: rest ∧ disc (some p) rest = [] := by
  induction rest generalizing p with
  | nil => exact ⟨rfl, rfl⟩
  | cons n rest ih =>
    obtain ⟨pr, pv⟩ := p
    obtain ⟨_, ⟨hlt, hnm⟩, hs⟩ := h
    have h1 : ¬ (n.1.lo ≤ pr.hi ∧ n.2 ≠ pv) := by
      intro ⟨h, _⟩; simp at hlt; omega
    obtain ⟨ihk, ihd⟩ := ih n hs
    simp only [keep, disc, if_neg h1, if_neg hnm, ihk, ihd, and_self]

theorem pass_of_sep (m : List Entry) (h : Sep m) : pass m = (m, []) := by
  cases m with
  | nil => rfl
  | cons p rest =>
    obtain ⟨hk, hd⟩ := keep_disc_of_sep p rest h
    simp [pass, keep, disc, hk, hd]

theorem rle_trans (a b c : Entry) : rle a.1 b.1 = true → rle b.1 c.1 = true → rle a.1 c.1 = true := by
  simp only [rle, Bool.or_eq_true, Bool.and_eq_true, decide_eq_true_eq, beq_iff_eq]
  omega

theorem rle_total (a b : Entry) : (rle a.1 b.1 || rle b.1 a.1) = true := by
  simp only [rle, Bool.or_eq_true, Bool.and_eq_true, decide_eq_true_eq, beq_iff_eq]
  omega

theorem sortEntries_of_sep (m : List Entry) (h : Sep m) : sortEntries m = m := by
  apply List.mergeSort_of_pairwise
  have hp := h.pairwise
  have hw := h.wf
  induction m with
  | nil => exact List.Pairwise.nil
  | cons p rest ih =>
    cases hp with
    | cons hhead htail =>
      refine List.Pairwise.cons ?_ (ih h.tail htail (fun e he => hw e (List.mem_cons_of_mem _ he)))
      intro x hx
      have := hhead x hx
      have := hw p List.mem_cons_self
      unfold WF at this
      simp only [rle, Bool.or_eq_true, Bool.and_eq_true, decide_eq_true_eq, beq_iff_eq]
      omega

/-! ### every kept range is covered by source ranges of the same value -/

/-- every address of `e` lies in a source entry with `e`'s value -/
def Covered (src : List Entry) (e : Entry) : Prop :=
  ∀ a, e.1.lo ≤ a → a ≤ e.1.hi → ∃ s ∈ src, s.2 = e.2 ∧ s.1.lo ≤ a ∧ a ≤ s.1.hi

theorem covered_self {src : List Entry} {e : Entry} (h : e ∈ src) : Covered src e :=
  fun a h1 h2 => ⟨e, h, rfl, h1, h2⟩

theorem keep_some_covered (src : List Entry) (l : Entry) (xs : List Entry)
    (hl : Covered src l) (hx : ∀ e ∈ xs, e ∈ src) :
    ∀ e' ∈ keep (some l) xs, Covered src e' := by
  induction xs generalizing l with
  | nil => intro e' he'; simp [keep] at he'; subst he'; exact hl
  | cons e rest ih =>
    obtain ⟨lr, lv⟩ := l
    have hrest : ∀ e ∈ rest, e ∈ src := fun x h => hx x (List.mem_cons_of_mem _ h)
    simp only [keep]
    split
    · exact ih (lr, lv) hl hrest
    · split
      · rename_i _ h2
        apply ih _ _ hrest
        intro a h1 h3
        simp at h1 h3
        by_cases ha : a ≤ lr.hi
        · exact hl a h1 ha
        · refine ⟨e, hx e List.mem_cons_self, h2.2, ?_, ?_⟩
          · have := satSucc_le lr.hi; omega
          · omega
      · intro e' he'
        rcases List.mem_cons.mp he' with rfl | he'
        · exact hl
        · exact ih e (covered_self (hx e List.mem_cons_self)) hrest e' he'

theorem keep_covered (xs : List Entry) : ∀ e' ∈ keep none xs, Covered xs e' := by
  cases xs with
  | nil => intro e' he'; simp [keep] at he'
  | cons e rest =>
    simp only [keep]
    exact keep_some_covered (e :: rest) e rest (covered_self List.mem_cons_self)
      (fun x h => List.mem_cons_of_mem _ h)

/-! ### binary search -/

theorem bsearch_go_sound (m : Array Entry) (a : Nat) (lo hi fuel : Nat) (v : Val)
    (h : bsearch.go m a lo hi fuel = some v) :
    ∃ e ∈ m.toList, e.1.contains a = true ∧ e.2 = v := by
  induction fuel generalizing lo hi with
  | zero => simp [bsearch.go] at h
  | succ fuel ih =>
    simp only [bsearch.go] at h
    split at h
    · split at h
      · rename_i hm
        split at h
        · exact ih _ _ h
        · split at h
          · exact ih _ _ h
          · rename_i h1 h2
            refine ⟨m[lo + (hi - lo) / 2], Array.getElem_mem_toList hm, ?_, by simpa using h⟩
            simp [Rng.contains]; omega
      · cases h
    · cases h

theorem get_sound_mem (m : List Entry) (a : Nat) (v : Val) (h : get m a = some v) :
    ∃ e ∈ m, e.1.contains a = true ∧ e.2 = v := by
  have := bsearch_go_sound m.toArray a 0 _ _ v h
  simpa using this

/-- on a normalized table the binary search finds the (unique) entry containing `a` -/
theorem bsearch_go_complete (m : Array Entry) (a : Nat) (hs : Sep m.toList)
    (i : Nat) (hi' : i < m.size) (hc : (m[i]).1.contains a = true)
    (lo hi fuel : Nat) (hlo : lo ≤ i) (hhi : i < hi) (hhm : hi ≤ m.size) (hf : hi - lo < fuel) :
    bsearch.go m a lo hi fuel = some (m[i]).2 := by
  have hpw := hs.pairwise
  have hwf := hs.wf
  have key : ∀ j k (hj : j < m.size) (hk : k < m.size), j < k → (m[j]).1.hi < (m[k]).1.lo := by
    intro j k hj hk hjk
    have := List.pairwise_iff_getElem.mp hpw j k (by simpa using hj) (by simpa using hk) hjk
    simpa using this
  have wf : ∀ j (hj : j < m.size), (m[j]).1.lo ≤ (m[j]).1.hi := by
    intro j hj
    exact (hwf m[j] (Array.getElem_mem_toList hj)).1
  simp only [Rng.contains, Bool.and_eq_true, decide_eq_true_eq] at hc
  induction fuel generalizing lo hi with
  | zero => omega
  | succ fuel ih =>
    simp only [bsearch.go]
    have hlt : lo < hi := by omega
    rw [dif_pos hlt]
    have hmid : lo + (hi - lo) / 2 < m.size := by omega
    rw [dif_pos hmid]
    by_cases hcmp : lo + (hi - lo) / 2 = i
    · subst hcmp
      have h1 : ¬ (m[lo + (hi - lo) / 2]).1.hi < a := by omega
      have h2 : ¬ (m[lo + (hi - lo) / 2]).1.lo > a := by omega
      simp only [if_neg h1, if_neg h2]
    · by_cases hlt' : lo + (hi - lo) / 2 < i
      · have := key _ i hmid hi' hlt'
        have := wf _ hmid
        have h1 : (m[lo + (hi - lo) / 2]).1.hi < a := by omega
        simp only [if_pos h1]
        exact ih _ _ (by omega) hhi hhm (by omega)
      · have hgt : i < lo + (hi - lo) / 2 := by omega
        have := key i _ hi' hmid hgt
        have := wf _ hmid
        have h1 : ¬ (m[lo + (hi - lo) / 2]).1.hi < a := by omega
        have h2 : (m[lo + (hi - lo) / 2]).1.lo > a := by omega
        simp only [if_neg h1, if_pos h2]
        exact ih _ _ hlo hgt (by omega) (by omega)

theorem get_complete_mem (m : List Entry) (hs : Sep m) (e : Entry) (he : e ∈ m) (a : Nat)
    (hc : e.1.contains a = true) : get m a = some e.2 := by
  obtain ⟨i, hi, rfl⟩ := List.getElem_of_mem he
  have := bsearch_go_complete m.toArray a (by simpa using hs) i (by simpa using hi)
    (by simpa using hc) 0 m.toArray.size (m.toArray.size + 1) (Nat.zero_le _) (by simpa using hi)
    (Nat.le_refl _) (by omega)
  simpa [get, bsearch] using this

end MdModel.RangeMap
