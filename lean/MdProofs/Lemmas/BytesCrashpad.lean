/-
  MdProofs.Lemmas.BytesCrashpad — `Safe (K * all.size)` for the Crashpad-info reader
  (`readCrashpadInfo` and its list / dictionary / annotation / module-link loops).
-/
import MdProofs.Lemmas.BytesStreams
namespace MdModel.Dump
open MdModel MdModel.Gen.Layouts

theorem readStringUtf8Unterminated_size {b s : Bytes} {off o : Nat} {e : Endian}
    (h : readStringUtf8Unterminated b off e = some (s, o)) : s.size ≤ b.size := by
  unfold readStringUtf8Unterminated at h
  split at h
  · cases h
  · split at h
    · cases h
    · split at h
      · cases h
      · simp only at h
        split at h
        · cases h
          simp [Array.size_extract]
          omega
        · cases h

theorem readStringUtf8_size {b s : Bytes} {off o : Nat} {e : Endian}
    (h : readStringUtf8 b off e = some (s, o)) : s.size ≤ b.size := by
  unfold readStringUtf8 at h
  split at h
  · cases h
  · rename_i s' o' hs
    split at h
    · cases h; exact readStringUtf8Unterminated_size hs
    · cases h

theorem stringListStep_safe (all data : Bytes) (e : Endian) (st : List Bytes × Nat) (i : Nat) :
    Safe (Bnd all) (stringListStep all data e st i) := by
  unfold stringListStep
  split
  · exact safe_fail _
  · split
    · exact safe_fail _
    · rename_i s o hs
      have := readStringUtf8_size hs
      split
      · exact safe_fail _
      · exact safe_bind (safe_alloc (by unfold Bnd K; omega)) (fun _ _ => safe_pure _)

theorem readStringList_safe (ms : MemSizes) (hms : ms.Bounded) (all : Bytes) (e : Endian) (loc : Loc) (budget : Nat) :
    Safe (Bnd all) (readStringList ms all e loc budget) := by
  unfold readStringList
  split
  · exact safe_fail _
  · split
    · exact safe_pure _
    · split
      · exact safe_fail _
      · rename_i count _
        split
        · exact safe_fail _
        · rename_i x hc
          have ⟨hc1, hc2⟩ := ensureCountInBound_ok hc
          refine safe_bind (safe_alloc ?_) (fun _ _ => ?_)
          · have := alloc_bound (count := count) (wire := 4) (len := all.size) (c := 8) (by omega) hms.string
            unfold Bnd K; omega
          · exact safe_bind (safe_loop _ _ _ (stringListStep_safe all _ e)) (fun _ _ => safe_pure _)

theorem dictStep_safe (all data : Bytes) (e : Endian) (st : List (Bytes × Bytes) × Nat) (i : Nat) :
    Safe (Bnd all) (dictStep all data e st i) := by
  unfold dictStep
  split
  · exact safe_fail _
  · split
    · rename_i k _ v _ hk hv
      have h1 := readStringUtf8_size hk
      have h2 := readStringUtf8_size hv
      split
      · exact safe_fail _
      · exact safe_bind (safe_alloc (by unfold Bnd K; omega)) (fun _ _ =>
          safe_bind (safe_alloc (by unfold Bnd K; omega)) (fun _ _ => safe_pure _))
    · exact safe_fail _

theorem readSimpleDict_safe (all : Bytes) (e : Endian) (loc : Loc) (budget : Nat) :
    Safe (Bnd all) (readSimpleDict all e loc budget) := by
  unfold readSimpleDict
  split
  · exact safe_fail _
  · split
    · exact safe_pure _
    · split
      · exact safe_fail _
      · exact safe_loop _ _ _ (dictStep_safe all _ e)

theorem annotationStep_safe (all data : Bytes) (e : Endian) (st : List (Bytes × AnnotationValue) × Nat) (i : Nat) :
    Safe (Bnd all) (annotationStep all data e st i) := by
  unfold annotationStep
  split
  · exact safe_fail _
  · split
    · exact safe_fail _
    · rename_i k _ hk
      have h1 := readStringUtf8_size hk
      have hb : k.size ≤ Bnd all := by unfold Bnd K; omega
      split
      · exact safe_fail _
      · dsimp only
        split
        · exact safe_bind (safe_alloc (by omega)) (fun _ _ => safe_pure _)
        · split
          · split
            · exact safe_fail _
            · rename_i v _ hv
              have h2 := readStringUtf8Unterminated_size hv
              split
              · exact safe_fail _
              · exact safe_bind (safe_alloc (by unfold Bnd K; omega)) (fun _ _ =>
                  safe_bind (safe_alloc (by omega)) (fun _ _ => safe_pure _))
          · split
            · exact safe_bind (safe_alloc (by omega)) (fun _ _ => safe_pure _)
            · exact safe_bind (safe_alloc (by omega)) (fun _ _ => safe_pure _)

theorem readAnnotationObjects_safe (all : Bytes) (e : Endian) (loc : Loc) (budget : Nat) :
    Safe (Bnd all) (readAnnotationObjects all e loc budget) := by
  unfold readAnnotationObjects
  split
  · exact safe_fail _
  · split
    · exact safe_pure _
    · split
      · exact safe_fail _
      · exact safe_loop _ _ _ (annotationStep_safe all _ e)

theorem readModuleCrashpadInfo_safe (ms : MemSizes) (hms : ms.Bounded) (all : Bytes) (e : Endian) (index : Nat) (loc : Loc) :
    Safe (Bnd all) (readModuleCrashpadInfo ms all e index loc) := by
  unfold readModuleCrashpadInfo
  split
  · exact safe_fail _
  · exact safe_bind (readStringList_safe ms hms all e _ _) (fun _ _ =>
      safe_bind (readSimpleDict_safe all e _ _) (fun _ _ =>
        safe_bind (readAnnotationObjects_safe all e _ _) (fun _ _ => safe_pure _)))

theorem linkStep_safe (ms : MemSizes) (hms : ms.Bounded) (all data : Bytes) (e : Endian)
    (st : List ModuleCrashpadInfo) (i : Nat) : Safe (Bnd all) (linkStep ms all data e st i) := by
  unfold linkStep
  split
  · exact safe_fail _
  · exact safe_bind (readModuleCrashpadInfo_safe ms hms all e _ _) (fun _ _ => safe_pure _)

theorem size_link : Layout.size MINIDUMP_MODULE_CRASHPAD_INFO_LINK = 12 := by decide

theorem readCrashpadModuleLinks_safe (ms : MemSizes) (hms : ms.Bounded) (all : Bytes) (e : Endian) (loc : Loc) :
    Safe (Bnd all) (readCrashpadModuleLinks ms all e loc) := by
  unfold readCrashpadModuleLinks
  split
  · exact safe_fail _
  · split
    · exact safe_pure _
    · split
      · exact safe_fail _
      · rename_i count _
        split
        · exact safe_fail _
        · rename_i x hc
          have ⟨hc1, hc2⟩ := ensureCountInBound_ok hc
          rw [size_link] at hc1
          refine safe_bind (safe_alloc ?_) (fun _ _ => ?_)
          · have := alloc_bound (count := count) (wire := 12) (len := all.size) (c := 10) (by omega) hms.moduleCrashpad
            unfold Bnd K; omega
          · exact safe_bind (safe_loop _ _ _ (linkStep_safe ms hms all _ e)) (fun _ _ => safe_pure _)

theorem readCrashpadInfo_safe (ms : MemSizes) (hms : ms.Bounded) (b all : Bytes) (e : Endian) :
    Safe (Bnd all) (readCrashpadInfo ms b all e) := by
  unfold readCrashpadInfo
  split
  · exact safe_fail _
  · split
    · exact safe_fail _
    · exact safe_bind (readSimpleDict_safe all e _ _) (fun _ _ =>
        safe_bind (readCrashpadModuleLinks_safe ms hms all e _) (fun _ _ => safe_pure _))

/-! ### `readAll` -/

theorem readAll_safe (ms : MemSizes) (hms : ms.Bounded) (b : Bytes) (hsz : SliceLen b.size) :
    Safe (Bnd b) (readAll ms b) := by
  unfold readAll
  split
  · exact safe_pure _
  · rename_i d _
    refine safe_bind (readCore_safe ms hms b d hsz) (fun _ _ => ?_)
    refine safe_bind (getStream_safe _ _ _ _ (fun s _ => readCrashpadInfo_safe ms hms s b _)) (fun _ _ => ?_)
    exact safe_pure _

theorem readAll_noErr (ms : MemSizes) (b : Bytes) : NoErr (readAll ms b) := by
  unfold readAll
  split
  · exact noErr_pure _
  · exact noErr_bind (readCore_noErr ms b _) (fun _ =>
      noErr_bind (getStream_noErr _ _ _ _) (fun _ => noErr_pure _))

end MdModel.Dump
