/-
  Helper lemmas for C03 about `MdModel.ArgRecovery` (arg_recovery.rs): UTF-8 facts behind the
  `&str` slices, the invariant of the argument-list parser, the read head.
-/
import MdModel.ArgRecovery
import MdProofs.Lemmas.Process
namespace MdModel.ArgRecovery
open MdModel MdModel.Process

/-! ### UTF-8: a continuation byte never follows an ASCII byte -/

/-- no continuation byte directly after an ASCII byte -/
def ncaB : Bytes → Bool
  | a :: b :: rest => !(decide (a.toNat < 128) && isCont b) && ncaB (b :: rest)
  | _ => true

/-- the string does not start with a continuation byte -/
def headOk : Bytes → Bool
  | [] => true
  | b :: _ => !isCont b

theorem isCont_false_of_lt {b : UInt8} (h : b.toNat < 128) : isCont b = false := by
  simp [isCont]; omega

theorem isCont_false_of_ge {b : UInt8} (h : 192 ≤ b.toNat) : isCont b = false := by
  simp [isCont]; omega

theorem isCont_ge {b : UInt8} (h : isCont b = true) : 128 ≤ b.toNat := by
  simp [isCont] at h; omega

theorem ncaB_cons_of_headOk (a : UInt8) (s : Bytes) (h1 : headOk s = true) (h2 : ncaB s = true) : ncaB (a :: s) = true := by
  cases s with
  | nil => rfl
  | cons b rest =>
    simp only [headOk, Bool.not_eq_true'] at h1
    simp [ncaB, h1, h2]

theorem ncaB_cons_of_ge (a : UInt8) (s : Bytes) (ha : 128 ≤ a.toNat) (h2 : ncaB s = true) : ncaB (a :: s) = true := by
  cases s with
  | nil => rfl
  | cons b rest =>
    have : ¬ a.toNat < 128 := by omega
    simp [ncaB, this, h2]

theorem valid_nca : ∀ (n : Nat) (s : Bytes), s.length ≤ n → validUtf8 s = true → headOk s = true ∧ ncaB s = true := by
  intro n
  induction n with
  | zero =>
    intro s hl _
    cases s with
    | nil => exact ⟨rfl, rfl⟩
    | cons b r => simp at hl
  | succ n ih =>
    intro s hl hv
    cases s with
    | nil => exact ⟨rfl, rfl⟩
    | cons b rest =>
      simp only [List.length_cons] at hl
      unfold validUtf8 at hv
      split at hv
      · rename_i hb
        obtain ⟨h1, h2⟩ := ih rest (by omega) hv
        exact ⟨by simp [headOk, isCont_false_of_lt hb], ncaB_cons_of_headOk b rest h1 h2⟩
      · split at hv
        · rename_i _ hb
          cases rest with
          | nil => cases hv
          | cons c1 r =>
            simp only [Bool.and_eq_true] at hv
            simp only [List.length_cons] at hl
            obtain ⟨h1, h2⟩ := ih r (by omega) hv.2
            refine ⟨by simp [headOk, isCont_false_of_ge (by omega : 192 ≤ b.toNat)], ?_⟩
            exact ncaB_cons_of_ge b _ (by omega) (ncaB_cons_of_ge c1 r (isCont_ge hv.1) h2)
        · split at hv
          · rename_i _ _ hb
            match rest, hv, hl with
            | c1 :: c2 :: r, hv, hl =>
              simp only [Bool.and_eq_true] at hv
              simp only [List.length_cons] at hl
              obtain ⟨h1, h2⟩ := ih r (by omega) hv.2
              refine ⟨by simp [headOk, isCont_false_of_ge (by omega : 192 ≤ b.toNat)], ?_⟩
              exact ncaB_cons_of_ge b _ (by omega) (ncaB_cons_of_ge c1 _ (isCont_ge hv.1.1) (ncaB_cons_of_ge c2 r (isCont_ge hv.1.2) h2))
            | [], hv, _ => cases hv
            | [_], hv, _ => cases hv
          · split at hv
            · rename_i _ _ _ hb
              match rest, hv, hl with
              | c1 :: c2 :: c3 :: r, hv, hl =>
                simp only [Bool.and_eq_true] at hv
                simp only [List.length_cons] at hl
                obtain ⟨h1, h2⟩ := ih r (by omega) hv.2
                refine ⟨by simp [headOk, isCont_false_of_ge (by omega : 192 ≤ b.toNat)], ?_⟩
                exact ncaB_cons_of_ge b _ (by omega) (ncaB_cons_of_ge c1 _ (isCont_ge hv.1.1.1)
                  (ncaB_cons_of_ge c2 _ (isCont_ge hv.1.1.2) (ncaB_cons_of_ge c3 r (isCont_ge hv.1.2) h2)))
              | [], hv, _ => cases hv
              | [_], hv, _ => cases hv
              | [_, _], hv, _ => cases hv
            · cases hv

theorem ncaB_of_valid (s : Bytes) (h : validUtf8 s = true) : ncaB s = true := (valid_nca s.length s (Nat.le_refl _) h).2

theorem ncaB_tail (a : UInt8) (s : Bytes) (h : ncaB (a :: s) = true) : ncaB s = true := by
  cases s with
  | nil => rfl
  | cons b rest => simp only [ncaB, Bool.and_eq_true] at h; exact h.2

theorem ncaB_append_right : ∀ (p q : Bytes), ncaB (p ++ q) = true → ncaB q = true := by
  intro p
  induction p with
  | nil => intro q h; exact h
  | cons a p ih => intro q h; exact ih q (ncaB_tail a _ h)

theorem ncaB_append_left : ∀ (p q : Bytes), ncaB (p ++ q) = true → ncaB p = true := by
  intro p
  induction p with
  | nil => intro _ _; rfl
  | cons a p ih =>
    intro q h
    cases p with
    | nil => rfl
    | cons b p' =>
      simp only [List.cons_append, ncaB, Bool.and_eq_true] at h ⊢
      exact ⟨h.1, ih q (by simpa using h.2)⟩

/-- the fact the slices need: in `pre ++ a :: b :: rest` with `a` ASCII, `b` is no continuation byte -/
theorem ncaB_at (pre : Bytes) (a b : UInt8) (rest : Bytes) (h : ncaB (pre ++ a :: b :: rest) = true)
    (ha : a.toNat < 128) : isCont b = false := by
  have := ncaB_append_right pre _ h
  simp only [ncaB, Bool.and_eq_true, Bool.not_eq_true', Bool.and_eq_false_iff, decide_eq_false_iff_not] at this
  rcases this.1 with h1 | h1
  · exact absurd ha h1
  · exact h1

/-! ### `split_once` / `rsplit_once` -/

theorem splitOnce_eq (c : UInt8) : ∀ (s p q : Bytes), splitOnce c s = some (p, q) → s = p ++ c :: q := by
  intro s
  induction s with
  | nil => intro p q h; cases h
  | cons b rest ih =>
    intro p q h
    simp only [splitOnce] at h
    split at h
    · rename_i hb
      simp only [Option.some.injEq, Prod.mk.injEq] at h
      obtain ⟨rfl, rfl⟩ := h
      simp [hb]
    · cases hr : splitOnce c rest with
      | none => rw [hr] at h; cases h
      | some pq =>
        obtain ⟨p', q'⟩ := pq
        rw [hr] at h
        simp only [Option.some.injEq, Prod.mk.injEq] at h
        obtain ⟨rfl, rfl⟩ := h
        simp [ih p' q' hr]

theorem rsplitOnce_eq (c : UInt8) (s p q : Bytes) (h : rsplitOnce c s = some (p, q)) : s = p ++ c :: q := by
  unfold rsplitOnce at h
  cases hr : splitOnce c s.reverse with
  | none => rw [hr] at h; cases h
  | some pq =>
    obtain ⟨p', q'⟩ := pq
    rw [hr] at h
    simp only [Option.some.injEq, Prod.mk.injEq] at h
    obtain ⟨rfl, rfl⟩ := h
    have := splitOnce_eq c s.reverse p' q' hr
    have h2 : s = (p' ++ c :: q').reverse := by rw [← this, List.reverse_reverse]
    rw [h2]
    simp

/-! ### the slices -/

theorem boundary_at (pre : Bytes) (c : UInt8) (rest : Bytes) (hc : isCont c = false) :
    isCharBoundary (pre ++ c :: rest) pre.length = true := by
  simp [isCharBoundary, hc]

theorem boundary_after (pre : Bytes) (c : UInt8) (rest : Bytes) (hn : ncaB (pre ++ c :: rest) = true) (hc : c.toNat < 128) :
    isCharBoundary (pre ++ c :: rest) (pre.length + 1) = true := by
  cases rest with
  | nil => simp [isCharBoundary]
  | cons d r =>
    have hd := ncaB_at pre c d r hn hc
    have : (pre ++ c :: d :: r)[pre.length + 1]? = some d := by
      rw [List.getElem?_append_right (by omega)]
      simp
    simp [isCharBoundary, hd]

theorem sliceStr_ok (site : String) (s : Bytes) (a b : Nat) (h1 : a ≤ b) (h2 : b ≤ s.length)
    (h3 : isCharBoundary s a = true) (h4 : isCharBoundary s b = true) : NoPanic (sliceStr site s a b) := by
  unfold sliceStr
  simp only [h1, h2, h3, h4, and_self, if_true]
  exact ⟨_, rfl⟩

/-! ### the parser loop -/

theorem parseLoop_ok (argList : Bytes) (hn : ncaB argList = true) :
    ∀ (rest pre : Bytes) (idx : Nat) (st : PState), argList = pre ++ rest → pre.length = idx →
      st.argStart ≤ idx → isCharBoundary argList st.argStart = true →
      st.templateDepth + rest.length ≤ I32MAX → st.parenDepth + rest.length ≤ I32MAX →
      ∃ r, parseLoop argList rest idx st = .ok r ∧
        ∀ st', r = some st' → st'.argStart ≤ argList.length ∧ isCharBoundary argList st'.argStart = true ∧
          st'.args.length ≤ st.args.length + rest.length := by
  intro rest
  induction rest with
  | nil =>
    intro pre idx st hpre hlen hle hb _ _
    refine ⟨some st, rfl, ?_⟩
    intro st' h
    simp only [Option.some.injEq] at h
    subst h
    refine ⟨?_, hb, by simp⟩
    rw [hpre]; simp; omega
  | cons c rest ih =>
    intro pre idx st hpre hlen hle hb ht hp
    simp only [List.length_cons] at ht hp
    have hpre' : argList = (pre ++ [c]) ++ rest := by rw [hpre]; simp
    have hlen' : (pre ++ [c]).length = idx + 1 := by simp [hlen]
    -- the recursive call with an unchanged argStart
    have step : ∀ st2 : PState, st2.argStart = st.argStart → st2.args = st.args →
        st2.templateDepth + rest.length ≤ I32MAX → st2.parenDepth + rest.length ≤ I32MAX →
        ∃ r, parseLoop argList rest (idx + 1) st2 = .ok r ∧
          ∀ st', r = some st' → st'.argStart ≤ argList.length ∧ isCharBoundary argList st'.argStart = true ∧
            st'.args.length ≤ st.args.length + (rest.length + 1) := by
      intro st2 h1 h1' h2 h3
      obtain ⟨r, hr, hprop⟩ := ih (pre ++ [c]) (idx + 1) st2 hpre' hlen' (by omega) (by rw [h1]; exact hb) h2 h3
      refine ⟨r, hr, fun st' hst' => ?_⟩
      obtain ⟨a, b, c'⟩ := hprop st' hst'
      exact ⟨a, b, by rw [h1'] at c'; omega⟩
    simp only [parseLoop, List.length_cons]
    split
    · -- '<'
      have : st.templateDepth + 1 ≤ I32MAX := by omega
      simp only [this, if_true]
      exact step _ rfl rfl (by simp; omega) (by simp; omega)
    · split
      · -- '>'
        split
        · exact step _ rfl rfl (by simp; omega) (by simp; omega)
        · exact ⟨none, rfl, fun _ h => by cases h⟩
      · split
        · -- '('
          have : st.parenDepth + 1 ≤ I32MAX := by omega
          simp only [this, if_true]
          exact step _ rfl rfl (by simp; omega) (by simp; omega)
        · split
          · -- ')'
            split
            · exact step _ rfl rfl (by simp; omega) (by simp; omega)
            · exact ⟨none, rfl, fun _ h => by cases h⟩
          · split
            · -- ','
              rename_i hcomma
              split
              · have hc128 : c.toNat < 128 := by omega
                have hbidx : isCharBoundary argList idx = true := by
                  rw [hpre, ← hlen]; exact boundary_at pre c rest (isCont_false_of_lt hc128)
                have hidxle : idx ≤ argList.length := by rw [hpre]; simp; omega
                obtain ⟨a, ha⟩ := sliceStr_ok "arg_list[arg_start..idx]" argList st.argStart idx hle hidxle hb hbidx
                simp only [ha]
                have hbnext : isCharBoundary argList (idx + 1) = true := by
                  rw [hpre, ← hlen]; exact boundary_after pre c rest (by rw [← hpre]; exact hn) hc128
                obtain ⟨r, hr, hprop⟩ := ih (pre ++ [c]) (idx + 1) { st with args := trim a :: st.args, argStart := idx + 1 }
                  hpre' hlen' (by simp) (by simpa using hbnext) (by simp; omega) (by simp; omega)
                refine ⟨r, hr, fun st' hst' => ?_⟩
                obtain ⟨x, y, z⟩ := hprop st' hst'
                refine ⟨x, y, ?_⟩
                simp only [List.length_cons] at z
                omega
              · exact step _ rfl rfl (by omega) (by omega)
            · exact step _ rfl rfl (by omega) (by omega)

/-! ### the read head -/

theorem popValue_ok (m : StackMem) (cfp head : Nat) (h : head < cfp → head + 4 ≤ U64MAX) :
    ∃ v h', popValue m cfp head = .ok (v, h') ∧ (head < cfp → h' = head + 4) ∧ (¬ head < cfp → h' = head) := by
  by_cases hc : head < cfp
  · have hw : Consts.arg_pointer_width = 4 := rfl
    have e : popValue m cfp head = .ok (readU32 m head, head + 4) := by
      simp only [popValue, hc, if_true, hw, cadd64_ok _ head 4 (h hc)]
    exact ⟨_, _, e, fun _ => rfl, fun h => absurd hc h⟩
  · have e : popValue m cfp head = .ok (none, head) := by
      simp only [popValue, hc, if_false]
    exact ⟨_, _, e, fun h => absurd h hc, fun _ => rfl⟩

theorem popArgs_ok (m : StackMem) (cfp : Nat) : ∀ (l : List Bytes) (head : Nat),
    (head < cfp → head + 4 * l.length ≤ U64MAX) → NoPanic (popArgs m cfp l head) := by
  intro l
  induction l with
  | nil => intro head _; exact ⟨_, rfl⟩
  | cons a rest ih =>
    intro head h
    simp only [List.length_cons] at h
    obtain ⟨v, h', hp, h1, h2⟩ := popValue_ok m cfp head (fun hc => by have := h hc; omega)
    simp only [popArgs, hp]
    obtain ⟨l', hl'⟩ := ih h' (fun hc' => by
      by_cases hc : head < cfp
      · rw [h1 hc]; have := h hc; omega
      · rw [h2 hc] at hc'; exact absurd hc' hc)
    rw [hl']
    exact ⟨_, rfl⟩

/-! ### `parse_x86_arg_list` and `fill_arguments` -/

theorem boundary_zero (s : Bytes) : isCharBoundary s 0 = true := by simp [isCharBoundary]
theorem boundary_len (s : Bytes) : isCharBoundary s s.length = true := by simp [isCharBoundary]

theorem parseArgList_ok (name : Bytes) (hv : validUtf8 name = true) (hl : name.length ≤ I32MAX) :
    ∃ r, parseArgList name = .ok r ∧ ∀ cc l, r = some (cc, l) → l.length ≤ name.length := by
  unfold parseArgList
  cases h1 : splitOnce 40 name with
  | none => exact ⟨none, rfl, fun _ _ h => by cases h⟩
  | some pq =>
    obtain ⟨nm, after⟩ := pq
    simp only
    have e1 := splitOnce_eq 40 name nm after h1
    cases h2 : rsplitOnce 41 after with
    | none => exact ⟨none, rfl, fun _ _ h => by cases h⟩
    | some pq2 =>
      obtain ⟨argList, junk⟩ := pq2
      simp only
      have e2 := rsplitOnce_eq 41 after argList junk h2
      have hn : ncaB argList = true := by
        have h0 := ncaB_of_valid name hv
        rw [e1] at h0
        have h3 := ncaB_tail _ _ (ncaB_append_right nm _ h0)
        rw [e2] at h3
        exact ncaB_append_left argList _ h3
      have hlen : argList.length + 2 ≤ name.length := by rw [e1, e2]; simp; omega
      obtain ⟨r, hr, hprop⟩ := parseLoop_ok argList hn argList [] 0
        { argStart := 0, templateDepth := 0, parenDepth := 0, args := [] } (by simp) rfl (Nat.le_refl _)
        (boundary_zero _) (by simp; omega) (by simp; omega)
      rw [hr]
      cases r with
      | none => exact ⟨none, rfl, fun _ _ h => by cases h⟩
      | some st =>
        simp only
        obtain ⟨ha, hb, hc⟩ := hprop st rfl
        obtain ⟨last, hlast⟩ := sliceStr_ok "arg_list[arg_start..]" argList st.argStart argList.length ha (Nat.le_refl _) hb (boundary_len _)
        rw [hlast]
        simp only
        split
        · refine ⟨_, rfl, ?_⟩
          intro cc l h
          simp only [Option.some.injEq, Prod.mk.injEq] at h
          obtain ⟨_, rfl⟩ := h
          simp only [List.length_reverse, List.length_cons]
          simp only [List.length_nil, Nat.zero_add] at hc
          omega
        · exact ⟨none, rfl, fun _ _ h => by cases h⟩

theorem frameArgs_ok (frames : List Frame) (mem : Option StackMem) (idx : Nat) (f : Frame)
    (hsp : ∀ g ∈ frames, g.sp ≤ U32MAX)
    (hname : ∀ n, f.name = some n → validUtf8 n = true ∧ n.length ≤ I32MAX) :
    NoPanic (frameArgs frames mem idx f) := by
  unfold frameArgs
  cases mem with
  | none => exact ⟨_, rfl⟩
  | some m =>
    cases hn : f.name with
    | none => exact ⟨_, rfl⟩
    | some name =>
      cases hx : f.isX86 with
      | false => exact ⟨_, rfl⟩
      | true =>
        simp only
        obtain ⟨hv, hl⟩ := hname name hn
        obtain ⟨r, hr, hlen⟩ := parseArgList_ok name hv hl
        rw [hr]
        cases r with
        | none => exact ⟨_, rfl⟩
        | some p =>
          obtain ⟨cc, argList⟩ := p
          simp only
          have hal : argList.length ≤ I32MAX := Nat.le_trans (hlen cc argList rfl) hl
          -- the caller's stack pointer is a u32 whenever the read head can move at all
          have hk : spAt frames (idx + 1) (saturatingAdd64 m.base m.bytes.length) < spAt frames (idx + 2) (saturatingAdd64 m.base m.bytes.length) →
              spAt frames (idx + 1) (saturatingAdd64 m.base m.bytes.length) ≤ U32MAX := by
            intro hlt
            unfold spAt at hlt ⊢
            cases hg : frames[idx + 1]? with
            | some g => exact hsp g (List.mem_of_getElem? hg)
            | none =>
              have : frames[idx + 2]? = none := by
                rw [List.getElem?_eq_none_iff] at hg ⊢
                omega
              rw [hg, this] at hlt
              simp only at hlt
              omega
          generalize spAt frames (idx + 1) (saturatingAdd64 m.base m.bytes.length) = csp at hk ⊢
          generalize spAt frames (idx + 2) (saturatingAdd64 m.base m.bytes.length) = cfp at hk ⊢
          have hU : U32MAX = 4294967295 := rfl
          have hU64 : U64MAX = 18446744073709551615 := rfl
          have hI : I32MAX = 2147483647 := rfl
          cases cc with
          | windowsThisCall =>
            simp only
            obtain ⟨l, hl'⟩ := popArgs_ok m cfp argList csp (fun hc => by have := hk hc; omega)
            rw [hl']
            exact ⟨_, rfl⟩
          | cdecl =>
            simp only
            obtain ⟨l, hl'⟩ := popArgs_ok m cfp argList csp (fun hc => by have := hk hc; omega)
            rw [hl']
            exact ⟨_, rfl⟩
          | otherThisCall =>
            simp only
            obtain ⟨v, h', hp, h1, h2⟩ := popValue_ok m cfp csp (fun hc => by have := hk hc; omega)
            rw [hp]
            simp only
            obtain ⟨l, hl'⟩ := popArgs_ok m cfp argList h' (fun hc' => by
              by_cases hc : csp < cfp
              · rw [h1 hc]; have := hk hc; omega
              · rw [h2 hc] at hc'; exact absurd hc' hc)
            rw [hl']
            exact ⟨_, rfl⟩

theorem fillFrom_ok (frames : List Frame) (mem : Option StackMem)
    (hsp : ∀ g ∈ frames, g.sp ≤ U32MAX) :
    ∀ (rest : List Frame) (idx : Nat),
      (∀ f ∈ rest, ∀ n, f.name = some n → validUtf8 n = true ∧ n.length ≤ I32MAX) →
      NoPanic (fillFrom frames mem idx rest) := by
  intro rest
  induction rest with
  | nil => intro _ _; exact ⟨_, rfl⟩
  | cons f rest ih =>
    intro idx hn
    obtain ⟨a, ha⟩ := frameArgs_ok frames mem idx f hsp (hn f List.mem_cons_self)
    obtain ⟨l, hl⟩ := ih (idx + 1) (fun g hg => hn g (List.mem_cons_of_mem _ hg))
    simp only [fillFrom, ha, hl]
    exact ⟨_, rfl⟩

end MdModel.ArgRecovery
