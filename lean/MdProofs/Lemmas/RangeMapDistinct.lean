/-
  Index-valued range tables are never merged (on top of C08; nothing of C08 is changed).

  The normalising loop `keep` of `into_rangemap_safe` has three branches: drop an entry that
  overlaps the last one with a DIFFERENT value, MERGE an entry that touches the last one with the
  SAME value, emit otherwise. When the values of the input are pairwise distinct — positions in a
  module list / memory list — the merge branch is never taken, so every entry of the table IS an
  input entry, with its own range:

  * `keep_mem_of_distinct`      — the loop only ever emits input entries;
  * `safeVec_mem_of_distinct`   — every entry of `safeVec xs` is an entry of `xs`;
  * `get_same_entry`            — a lookup that finds value `v` at `a` finds `v` at every address of
                                  THE input entry carrying `v` (the entry that is in the table).
  Used by C14 (`own_stack_by_start_redundant`).
-/
import MdProofs.C08
namespace MdModel.RangeMap
open MdModel

/-- values pairwise distinct -/
def DistinctVals (xs : List Entry) : Prop := xs.Pairwise fun a b => a.2 ≠ b.2

/-- with pairwise distinct values `keep` never merges: it emits only entries it was given -/
theorem keep_some_mem_of_distinct (l : Entry) (xs : List Entry) (hd : DistinctVals (l :: xs)) :
    ∀ e ∈ keep (some l) xs, e ∈ l :: xs := by
  induction xs generalizing l with
  | nil => intro e he; simp [keep] at he; subst he; exact List.mem_cons_self
  | cons x rest ih =>
    obtain ⟨lr, lv⟩ := l
    have hne : x.2 ≠ lv := by
      have := (List.pairwise_cons.mp hd).1 x List.mem_cons_self
      exact fun h => this h.symm
    have hrest : DistinctVals ((lr, lv) :: rest) := by
      unfold DistinctVals at hd ⊢
      rw [List.pairwise_cons] at hd ⊢
      exact ⟨fun b hb => hd.1 b (List.mem_cons_of_mem _ hb), (List.pairwise_cons.mp hd.2).2⟩
    have hxrest : DistinctVals (x :: rest) := (List.pairwise_cons.mp hd).2
    intro e he
    simp only [keep] at he
    split at he
    · -- dropped: overlaps the last entry with another value
      rcases List.mem_cons.mp (ih (lr, lv) hrest e he) with h | h
      · exact h ▸ List.mem_cons_self
      · exact List.mem_cons_of_mem _ (List.mem_cons_of_mem _ h)
    · split at he
      · -- the merge branch needs equal values
        rename_i _ h2
        exact absurd h2.2 hne
      · rcases List.mem_cons.mp he with h | h
        · exact h ▸ List.mem_cons_self
        · exact List.mem_cons_of_mem _ (ih x hxrest e h)

theorem keep_mem_of_distinct (xs : List Entry) (hd : DistinctVals xs) : ∀ e ∈ keep none xs, e ∈ xs := by
  cases xs with
  | nil => intro e he; simp [keep] at he
  | cons x rest =>
    simp only [keep]
    exact keep_some_mem_of_distinct x rest hd

theorem distinctVals_validOnly (xs : List (Option Rng × Val))
    (hd : xs.Pairwise fun a b => a.2 ≠ b.2) : DistinctVals (validOnly xs) := by
  unfold DistinctVals validOnly
  refine List.Pairwise.filterMap _ ?_ hd
  intro a a' hne b hb b' hb'
  simp only [Option.map_eq_some_iff] at hb hb'
  obtain ⟨r, _, rfl⟩ := hb
  obtain ⟨r', _, rfl⟩ := hb'
  exact hne

/-- **index-valued tables are never merged**: when the values of the input are pairwise distinct,
    every entry of the table `into_rangemap_safe` builds is an input entry (same range, same value) -/
theorem safeVec_mem_of_distinct (xs : List (Option Rng × Val)) (hd : (xs.map (·.2)).Nodup) :
    ∀ e ∈ safeVec xs, (some e.1, e.2) ∈ xs := by
  have hp : xs.Pairwise fun a b => a.2 ≠ b.2 := by
    have := List.pairwise_map.mp hd
    exact this
  have hs : (sortOpt xs).Pairwise fun a b => a.2 ≠ b.2 := by
    have hperm : (sortOpt xs).Perm xs := List.mergeSort_perm _ _
    exact hperm.symm.pairwise hp (fun h => fun e => h e.symm)
  intro e he
  have h1 : e ∈ validOnly (sortOpt xs) := keep_mem_of_distinct _ (distinctVals_validOnly _ hs) e he
  simp only [validOnly, List.mem_filterMap, Option.map_eq_some_iff] at h1
  obtain ⟨x, hx, r, hr, rfl⟩ := h1
  have hx' : x ∈ xs := List.mem_mergeSort.mp hx
  obtain ⟨x1, x2⟩ := x
  simp only at hr ⊢
  subst hr
  exact hx'

/-- a lookup in an index-valued table that finds `v` at `a` finds `v` at EVERY address of the
    input entry that carries `v` — the table holds that entry with its own range -/
theorem get_same_entry (xs : List (Option Rng × Val)) (hwf : InputWF xs) (hd : (xs.map (·.2)).Nodup)
    (a : Nat) (v : Val) (h : get (safeVec xs) a = some v) :
    ∃ r, (some r, v) ∈ xs ∧ r.lo ≤ a ∧ a ≤ r.hi ∧
      ∀ b, r.lo ≤ b → b ≤ r.hi → get (safeVec xs) b = some v := by
  obtain ⟨e, he, hc, rfl⟩ := get_sound_mem _ a v h
  have hin := safeVec_mem_of_distinct xs hd e he
  simp only [Rng.contains, Bool.and_eq_true, decide_eq_true_eq] at hc
  refine ⟨e.1, hin, hc.1, hc.2, ?_⟩
  intro b h1 h2
  exact get_complete_mem (safeVec xs) (safeVec_sep xs hwf) e he b
    (by simp only [Rng.contains, Bool.and_eq_true, decide_eq_true_eq]; exact ⟨h1, h2⟩)

end MdModel.RangeMap
