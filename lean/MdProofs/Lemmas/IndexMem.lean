/-
  Helper lemmas for C14: the memory-list lookup `memAt` (on top of C08's `get_sound_distinct` and
  `get_complete`), `hasWord`, and the stack-memory selection.
-/
import MdModel.Index
import MdProofs.C08
import MdProofs.Lemmas.IndexUnloaded
namespace MdModel.Index
open MdModel MdModel.RangeMap
open MdModel.Walk (Mem)

/-- the region occupies `[base, base + size)` inside the 64-bit address space -/
def ValidRegion (m : Mem) : Prop := m.size ≠ 0 ∧ m.base + m.size ≤ U64MAX

theorem mkRange_some_iff (b s : Nat) (r : Rng) :
    mkRange b s = some r ↔ s ≠ 0 ∧ b + s ≤ U64MAX ∧ r = ⟨b, b + s - 1⟩ := by
  unfold mkRange
  split
  · simp; omega
  · split
    · simp; omega
    · simp only [Option.some.injEq]
      constructor
      · intro h; exact ⟨by omega, by omega, h.symm⟩
      · rintro ⟨-, -, h⟩; exact h.symm

theorem mem_memEntries (rs : List Mem) (e : Option Rng × Nat) :
    e ∈ memEntries rs ↔ ∃ m, rs[e.2]? = some m ∧ e.1 = mkRange m.base m.size := by
  simp only [memEntries, List.mem_map]
  constructor
  · rintro ⟨⟨m, i⟩, hm, rfl⟩
    exact ⟨m, List.mem_zipIdx_iff_getElem?.mp hm, rfl⟩
  · rintro ⟨m, hm, he⟩
    refine ⟨(m, e.2), List.mem_zipIdx_iff_getElem?.mpr hm, ?_⟩
    obtain ⟨e1, e2⟩ := e
    simp only at he ⊢
    rw [he]

theorem memEntries_distinct (rs : List Mem) :
    ∀ e₁ ∈ memEntries rs, ∀ e₂ ∈ memEntries rs, e₁.2 = e₂.2 → e₁ = e₂ := by
  intro e₁ h₁ e₂ h₂ hv
  obtain ⟨m₁, hm₁, he₁⟩ := (mem_memEntries rs e₁).mp h₁
  obtain ⟨m₂, hm₂, he₂⟩ := (mem_memEntries rs e₂).mp h₂
  rw [hv, hm₂] at hm₁
  cases hm₁
  obtain ⟨a₁, b₁⟩ := e₁
  obtain ⟨a₂, b₂⟩ := e₂
  simp only at he₁ he₂ hv
  rw [he₁, he₂, hv]

/-- **sound**: the region `memory_at_address(a)` returns is a region of the list whose own
    address range contains `a` (C08 `get_sound_distinct`) -/
theorem memAt_sound (rs : List Mem) (a : Nat) (r : Mem) (h : memAt rs a = some r) :
    r ∈ rs ∧ ValidRegion r ∧ r.base ≤ a ∧ a < r.base + r.size := by
  unfold memAt at h
  simp only [Option.bind_eq_some_iff] at h
  obtain ⟨i, hget, hr⟩ := h
  have hmem : (mkRange r.base r.size, i) ∈ memEntries rs :=
    (mem_memEntries rs _).mpr ⟨r, hr, rfl⟩
  obtain ⟨rng, hrng, hlo, hhi⟩ :=
    get_sound_distinct (memEntries rs) a i (memEntries_distinct rs) hget _ hmem rfl
  simp only at hrng
  obtain ⟨h0, hmax, rfl⟩ := (mkRange_some_iff _ _ _).mp hrng
  simp only at hlo hhi
  exact ⟨List.mem_of_getElem? hr, ⟨h0, hmax⟩, hlo, by omega⟩

/-- the address ranges of two regions do not meet (or one of them has no range) -/
def RegionsApart (x r : Mem) : Prop :=
  x.size = 0 ∨ x.base + x.size > U64MAX ∨ x.base + x.size ≤ r.base ∨ r.base + r.size ≤ x.base

theorem memEntries_append_cons (pre post : List Mem) (r : Mem) :
    memEntries (pre ++ r :: post) =
      memEntries pre ++ (mkRange r.base r.size, pre.length) ::
        (post.zipIdx (pre.length + 1)).map (fun (m, i) => (mkRange m.base m.size, i)) := by
  simp only [memEntries, List.zipIdx_append, List.zipIdx_cons, List.map_append, List.map_cons, Nat.zero_add]

/-- **complete**: a region with a range that meets no other region's range is returned for every
    address inside it (C08 `get_complete`) -/
theorem memAt_complete (pre post : List Mem) (r : Mem) (a : Nat) (hr : ValidRegion r)
    (hiso : ∀ x ∈ pre ++ post, RegionsApart x r) (ha : r.base ≤ a ∧ a < r.base + r.size) :
    memAt (pre ++ r :: post) a = some r := by
  obtain ⟨h0, hmax⟩ := hr
  have hrng : mkRange r.base r.size = some ⟨r.base, r.base + r.size - 1⟩ :=
    (mkRange_some_iff _ _ _).mpr ⟨h0, hmax, rfl⟩
  have hwf := memEntries_wf (pre ++ r :: post)
  rw [memEntries_append_cons, hrng] at hwf
  have hget := get_complete (memEntries pre)
    ((post.zipIdx (pre.length + 1)).map (fun (m, i) => (mkRange m.base m.size, i)))
    ⟨r.base, r.base + r.size - 1⟩ pre.length a hwf ?_ ⟨ha.1, by simp only; omega⟩
  · unfold memAt
    rw [memEntries_append_cons, hrng, hget]
    simp
  · intro e he s hs
    have hx : ∃ x ∈ pre ++ post, mkRange x.base x.size = some s := by
      rcases List.mem_append.mp he with he | he
      · simp only [memEntries, List.mem_map] at he
        obtain ⟨⟨m, i⟩, hm, rfl⟩ := he
        exact ⟨m, List.mem_append_left _ (List.mem_of_getElem? (List.mem_zipIdx_iff_getElem?.mp hm)), hs⟩
      · simp only [List.mem_map] at he
        obtain ⟨⟨m, i⟩, hm, rfl⟩ := he
        have := List.mem_zipIdx hm
        exact ⟨m, List.mem_append_right _ (by
          obtain ⟨_, _, hx⟩ := this
          rw [hx]; exact List.getElem_mem _), hs⟩
    obtain ⟨x, hxm, hxs⟩ := hx
    obtain ⟨hx0, hxmax, rfl⟩ := (mkRange_some_iff _ _ _).mp hxs
    have := hiso x hxm
    unfold RegionsApart at this
    simp only [Rng.intersects, Bool.and_eq_false_iff, decide_eq_false_iff_not]
    omega

/-- `get_memory_at_address::<u64>(sp).is_some()`: eight bytes at `sp` inside the region -/
theorem hasWord_some_iff (m : Mem) (sp : Nat) :
    hasWord (some m) sp = true ↔ m.base ≤ sp ∧ sp + 8 ≤ m.base + m.size := by
  simp only [hasWord, Option.bind_some, Walk.Mem.read]
  split
  · simp; omega
  · split
    · simp; omega
    · simp; omega

theorem hasWord_none (sp : Nat) : hasWord none sp = false := rfl

end MdModel.Index
