/-
  C12 helper lemmas: the structural invariant `InvA` of the interleaving model
  (lock/holder consistency, results, counters) and its preservation by every poll.
-/
import MdProofs.Lemmas.Once
namespace MdModel.Once
open MdModel

/-! ## list facts -/

theorem mem_dedup {a : Nat} {l : List Nat} : a ∈ dedup l ↔ a ∈ l := by
  induction l with
  | nil => simp [dedup]
  | cons b l ih =>
    simp only [dedup]
    split <;> simp_all
    grind

theorem nodup_dedup (l : List Nat) : (dedup l).Nodup := by
  induction l with
  | nil => simp [dedup]
  | cons b l ih =>
    simp only [dedup]
    split
    · exact ih
    · exact List.nodup_cons.mpr ⟨by assumption, ih⟩

theorem filter_flip_length {l : List Nat} (hn : l.Nodup) {k : Nat} (hk : k ∈ l) (p q : Nat → Bool)
    (hpk : p k = false) (hqk : q k = true) (hoth : ∀ j, j ≠ k → q j = p j) :
    (l.filter q).length = (l.filter p).length + 1 := by
  induction l with
  | nil => cases hk
  | cons a l ih =>
    have hn' := (List.nodup_cons.mp hn)
    by_cases hak : a = k
    · subst hak
      have hrest : l.filter q = l.filter p := by
        apply List.filter_congr
        intro j hj
        exact hoth j (fun h => hn'.1 (h ▸ hj))
      simp [List.filter_cons, hpk, hqk, hrest]
    · have hk' : k ∈ l := by
        cases hk with
        | head => exact absurd rfl hak
        | tail _ h => exact h
      have := ih hn'.2 hk'
      simp only [List.filter_cons, hoth a hak]
      split <;> simp [this]

theorem filter_length_mono (l : List Nat) (p q : Nat → Bool) (h : ∀ j, p j = true → q j = true) :
    (l.filter p).length ≤ (l.filter q).length := by
  induction l with
  | nil => simp
  | cons a l ih =>
    simp only [List.filter_cons]
    by_cases hp : p a = true
    · simp [hp, h a hp]; exact ih
    · have hp' : p a = false := by simpa using hp
      rw [hp']
      by_cases hq : q a = true
      · simp [hq]; omega
      · have hq' : q a = false := by simpa using hq
        simp [hq']; exact ih

theorem mem_allKeys_of_prog {cfg : Cfg} {t k : Nat} (h : k ∈ cfg.prog t) : k ∈ allKeys cfg := by
  unfold allKeys
  rw [mem_dedup, List.mem_flatten]
  refine ⟨cfg.prog t, ?_, h⟩
  unfold Cfg.prog at h ⊢
  by_cases ht : t < cfg.progs.length
  · simp [List.getD_eq_getElem?_getD, ht]
  · simp [List.getD_eq_getElem?_getD, ht] at h

/-! ## observations over the log -/

@[simp] theorem seenBy_append_call (t k : Nat) (l : List Event) :
    seenBy t (l ++ [.call k]) = seenBy t l := by
  simp [seenBy, List.filterMap_append]

@[simp] theorem seenBy_append_ret (t k : Nat) (l : List Event) :
    seenBy t (l ++ [.ret k]) = seenBy t l := by
  simp [seenBy, List.filterMap_append]

theorem seenBy_append_seen (t t' k : Nat) (r : Res) (l : List Event) :
    seenBy t (l ++ [.seen t' k r]) = seenBy t l ++ (if t' = t then [(k, r)] else []) := by
  simp only [seenBy, List.filterMap_append]
  congr 1
  by_cases h : t' = t <;> simp [List.filterMap, h]

theorem mem_seenBy {t k : Nat} {r : Res} {l : List Event} :
    (k, r) ∈ seenBy t l ↔ Event.seen t k r ∈ l := by
  simp only [seenBy, List.mem_filterMap]
  constructor
  · rintro ⟨e, he, h⟩
    cases e with
    | call _ => simp at h
    | ret _ => simp at h
    | seen t' k' r' =>
      simp only at h
      split at h
      · cases h; subst_vars; exact he
      · cases h
  · intro h
    exact ⟨_, h, by simp⟩

/-! ## the structural invariant -/

structure InvA (cfg : Cfg) (s : State) : Prop where
  /-- a held lock belongs to a task inside the supplier call for that key -/
  held_insup : ∀ k t, s.slot k = .held t → ∃ n, (s.task t).ctl = .inSup k n
  insup_held : ∀ t k n, (s.task t).ctl = .inSup k n → s.slot k = .held t
  /-- a remembered outcome is the supplier's outcome -/
  done_res : ∀ k r, s.slot k = .done r → r = cfg.outcome k
  /-- what a task has seen so far ++ what it still has to see = a function of cfg only -/
  results : ∀ t, seenBy t s.log ++ (todo (s.task t)).map (expected cfg)
      = (cfg.prog t).map (expected cfg)
  seen_done : ∀ t k r, Event.seen t k r ∈ s.log → ∃ r', s.slot k = .done r'
  done_seen : ∀ k r, s.slot k = .done r → ∃ t, Event.seen t k r ∈ s.log
  waiting_slot : ∀ t k, (s.task t).ctl = .waiting k → s.slot k ≠ .empty
  ghost : ∀ t, cfg.ntasks ≤ t → (s.task t).ctl = .fin
  req_eq : s.requested = ((allKeys cfg).filter (fun k => (s.slot k).nonEmpty)).length
  proc_eq : s.processed = ((allKeys cfg).filter (fun k => (s.slot k).isDone)).length

/-- states that differ only in wake flags and waiter lists -/
def SameCore (s s' : State) : Prop :=
  (∀ u, (s'.task u).ctl = (s.task u).ctl ∧ (s'.task u).rest = (s.task u).rest) ∧
  s'.slot = s.slot ∧ s'.log = s.log ∧ s'.requested = s.requested ∧ s'.processed = s.processed

theorem todo_congr {T T' : Task} (h1 : T'.ctl = T.ctl) (h2 : T'.rest = T.rest) : todo T' = todo T := by
  simp [todo, h1, h2]

theorem invA_of_sameCore {cfg : Cfg} {s s' : State} (hc : SameCore s s') (h : InvA cfg s) :
    InvA cfg s' := by
  obtain ⟨ht, hs, hl, hr, hp⟩ := hc
  constructor
  · intro k t; rw [hs, (ht t).1]; exact h.held_insup k t
  · intro t k n; rw [hs, (ht t).1]; exact h.insup_held t k n
  · intro k r; rw [hs]; exact h.done_res k r
  · intro t; rw [hl, todo_congr (ht t).1 (ht t).2]; exact h.results t
  · intro t k r; rw [hl, hs]; exact h.seen_done t k r
  · intro k r; rw [hl, hs]; exact h.done_seen k r
  · intro t k; rw [hs, (ht t).1]; exact h.waiting_slot t k
  · intro t; rw [(ht t).1]; exact h.ghost t
  · rw [hr, hs]; exact h.req_eq
  · rw [hp, hs]; exact h.proc_eq

theorem sameCore_setWoken (s : State) (t : Nat) (b : Bool) : SameCore s (setWoken s t b) := by
  refine ⟨?_, rfl, rfl, rfl, rfl⟩
  intro u; simp only [setWoken_task, upd_apply]; split <;> simp_all

theorem sameCore_setWaiters (s : State) (k : Nat) (ws : List (Nat × Bool)) :
    SameCore s (setWaiters s k ws) := ⟨fun _ => ⟨rfl, rfl⟩, rfl, rfl, rfl, rfl⟩

theorem sameCore_unlock (s : State) (k : Nat) : SameCore s (unlock s k) := by
  unfold unlock
  split
  · refine ⟨?_, rfl, rfl, rfl, rfl⟩
    intro u; simp only [setWoken_task, setWaiters_task, upd_apply]; split <;> simp_all
  · exact ⟨fun _ => ⟨rfl, rfl⟩, rfl, rfl, rfl, rfl⟩

theorem sameCore_trans {a b c : State} (h1 : SameCore a b) (h2 : SameCore b c) : SameCore a c := by
  obtain ⟨t1, s1, l1, r1, p1⟩ := h1
  obtain ⟨t2, s2, l2, r2, p2⟩ := h2
  exact ⟨fun u => ⟨(t2 u).1.trans (t1 u).1, (t2 u).2.trans (t1 u).2⟩, s2.trans s1, l2.trans l1,
    r2.trans r1, p2.trans p1⟩

theorem invA_init (cfg : Cfg) : InvA cfg (init cfg) := by
  constructor
  · intro k t h; simp [init] at h
  · intro t k n h; simp only [init] at h; split at h <;> simp at h
  · intro k r h; simp [init] at h
  · intro t
    simp only [init, seenBy, List.filterMap_nil, List.nil_append]
    by_cases ht : t < cfg.ntasks
    · simp [ht, todo]
    · simp only [ht, if_false, todo, List.map_nil]
      have : cfg.prog t = [] := by
        unfold Cfg.prog Cfg.ntasks at *
        have : cfg.progs.length ≤ t := by omega
        simp [List.getD_eq_getElem?_getD, this]
      simp [this]
  · intro t k r h; simp [init] at h
  · intro k r h; simp [init] at h
  · intro t k h; simp only [init] at h; split at h <;> simp at h
  · intro t ht; simp only [init]; split
    · omega
    · rfl
  · simp only [init, Slot.nonEmpty]; rw [List.filter_eq_nil_iff.mpr]; rfl; intro a _; simp
  · simp only [init, Slot.isDone]; rw [List.filter_eq_nil_iff.mpr]; rfl; intro a _; simp

/-! ### one lookup -/

theorem invA_block (cfg : Cfg) (t k : Nat) (r : List Nat) {s : State} (h : InvA cfg s)
    (hc : (s.task t).ctl = .ready ∨ (s.task t).ctl = .waiting k)
    (htodo : todo (s.task t) = k :: r) (hslot : s.slot k ≠ .empty) :
    InvA cfg (setCtl s t (.waiting k) r) := by
  constructor
  · intro k' u hs
    have := h.held_insup k' u hs
    simp only [setCtl_task, upd_apply]
    grind
  · intro u k' n
    simp only [setCtl_task, upd_apply, setCtl_slot]
    have := h.insup_held u k' n
    grind
  · exact h.done_res
  · intro u
    have := h.results u
    simp only [setCtl_task, upd_apply, setCtl_log]
    grind [todo]
  · exact h.seen_done
  · exact h.done_seen
  · intro u k'
    simp only [setCtl_task, upd_apply, setCtl_slot]
    have := h.waiting_slot u k'
    grind
  · intro u hu
    have := h.ghost u hu
    simp only [setCtl_task, upd_apply]
    grind
  · exact h.req_eq
  · exact h.proc_eq

/-- the lookup of a key whose outcome is already remembered -/
theorem invA_hit (cfg : Cfg) (t k : Nat) (r : List Nat) (res : Res) {s : State} (h : InvA cfg s)
    (hc : (s.task t).ctl = .ready ∨ (s.task t).ctl = .waiting k)
    (htodo : todo (s.task t) = k :: r) (hslot : s.slot k = .done res) :
    InvA cfg (setCtl (emit s (.seen t k res)) t .ready r) := by
  have hres := h.done_res k res hslot
  constructor
  · intro k' u hs
    have := h.held_insup k' u hs
    simp only [setCtl_task, emit_task, upd_apply]
    grind
  · intro u k' n
    simp only [setCtl_task, emit_task, upd_apply, setCtl_slot, emit_slot]
    have := h.insup_held u k' n
    grind
  · exact h.done_res
  · intro u
    have := h.results u
    simp only [setCtl_task, emit_task, upd_apply, setCtl_log, emit_log, seenBy_append_seen]
    by_cases hu : u = t
    · subst hu
      simp only [if_true, todo]
      rw [htodo] at this
      simp only [List.map_cons] at this
      rw [← this, hres]
      simp [expected]
    · have hu' : ¬ t = u := fun h => hu h.symm
      simp only [hu, hu', if_false, List.append_nil]
      exact this
  · intro u k' r' hm
    simp only [setCtl_log, emit_log, List.mem_append, List.mem_singleton] at hm
    simp only [setCtl_slot, emit_slot]
    cases hm with
    | inl hm => exact h.seen_done u k' r' hm
    | inr hm => cases hm; exact ⟨_, hslot⟩
  · intro k' r' hs
    obtain ⟨u, hu⟩ := h.done_seen k' r' hs
    exact ⟨u, by simp [hu]⟩
  · intro u k'
    simp only [setCtl_task, emit_task, upd_apply, setCtl_slot, emit_slot]
    have := h.waiting_slot u k'
    grind
  · intro u hu
    have := h.ghost u hu
    simp only [setCtl_task, emit_task, upd_apply]
    grind
  · exact h.req_eq
  · exact h.proc_eq

theorem mem_prog_of_todo {cfg : Cfg} {s : State} (h : InvA cfg s) {t k : Nat} {r : List Nat}
    (htodo : todo (s.task t) = k :: r) : k ∈ cfg.prog t := by
  have := h.results t
  rw [htodo] at this
  have hm : expected cfg k ∈ (cfg.prog t).map (expected cfg) := by
    rw [← this]; simp
  obtain ⟨k', hk', he⟩ := List.mem_map.mp hm
  simp only [expected, Prod.mk.injEq] at he
  rw [← he.1]; exact hk'

/-- the supplier call of `t` for `k` returns -/
theorem invA_complete (cfg : Cfg) (t k n : Nat) (r : List Nat) {s : State} (h : InvA cfg s)
    (hc : (s.task t).ctl = .inSup k n) (hr : (s.task t).rest = r) :
    InvA cfg (complete cfg t k r s) := by
  unfold complete
  apply invA_of_sameCore (sameCore_unlock _ k)
  have hheld := h.insup_held t k n hc
  have hkeys : k ∈ allKeys cfg :=
    mem_allKeys_of_prog (mem_prog_of_todo h (t := t) (r := r) (by simp [todo, hc, hr]))
  constructor
  · intro k' u
    simp only [setCtl_task, emit_task, setSlot_task, setCtl_slot, emit_slot, setSlot_slot, upd_apply]
    have := h.held_insup k' u
    grind
  · intro u k' n'
    simp only [setCtl_task, emit_task, setSlot_task, setCtl_slot, emit_slot, setSlot_slot, upd_apply]
    have := h.insup_held u k' n'
    grind
  · intro k' r'
    simp only [setCtl_slot, emit_slot, setSlot_slot, upd_apply]
    have := h.done_res k' r'
    grind
  · intro u
    have := h.results u
    simp only [setCtl_task, emit_task, setSlot_task, upd_apply, setCtl_log, emit_log, setSlot_log,
      seenBy_append_seen, seenBy_append_ret]
    by_cases hu : u = t
    · subst hu
      simp only [if_true, todo]
      simp only [todo, hc, hr, List.map_cons] at this
      rw [← this]
      simp [expected]
    · have hu' : ¬ t = u := fun h => hu h.symm
      simp only [hu, hu', if_false, List.append_nil]
      exact this
  · intro u k' r' hm
    simp only [setCtl_log, emit_log, setSlot_log, List.mem_append, List.mem_singleton] at hm
    simp only [setCtl_slot, emit_slot, setSlot_slot, upd_apply]
    rcases hm with (hm | hm) | hm
    · have := h.seen_done u k' r' hm
      grind
    · cases hm
    · cases hm; simp
  · intro k' r'
    simp only [setCtl_slot, emit_slot, setSlot_slot, upd_apply, setCtl_log, emit_log, setSlot_log]
    intro hs
    by_cases hk : k' = k
    · subst hk
      simp only [if_true] at hs
      cases hs
      exact ⟨t, by simp⟩
    · simp only [hk, if_false] at hs
      obtain ⟨u, hu⟩ := h.done_seen k' r' hs
      exact ⟨u, by simp [hu]⟩
  · intro u k'
    simp only [setCtl_task, emit_task, setSlot_task, setCtl_slot, emit_slot, setSlot_slot, upd_apply]
    have := h.waiting_slot u k'
    grind
  · intro u hu
    have := h.ghost u hu
    simp only [setCtl_task, emit_task, setSlot_task, upd_apply]
    grind
  · simp only [setCtl_requested, emit_requested, setSlot_requested, setCtl_slot, emit_slot,
      setSlot_slot]
    rw [h.req_eq]
    congr 1
    apply List.filter_congr
    intro j _
    simp only [upd_apply]
    by_cases hj : j = k
    · subst hj; simp [hheld, Slot.nonEmpty]
    · simp [hj]
  · simp only [setCtl_processed, emit_processed, setSlot_processed, setCtl_slot, emit_slot,
      setSlot_slot]
    rw [h.proc_eq]
    symm
    apply filter_flip_length (nodup_dedup _) hkeys
    · simp [hheld, Slot.isDone]
    · simp [Slot.isDone]
    · intro j hj; simp [upd_apply, hj]

/-- `t` takes the free lock of `k`, finds no value and starts the supplier call -/
theorem invA_acquire (cfg : Cfg) (t k n : Nat) (r : List Nat) {s : State} (h : InvA cfg s)
    (hc : (s.task t).ctl = .ready ∨ (s.task t).ctl = .waiting k)
    (htodo : todo (s.task t) = k :: r) (hslot : s.slot k = .empty) :
    InvA cfg (setCtl (setSlot (emit { s with requested := s.requested + 1 } (.call k)) k (.held t))
      t (.inSup k n) r) := by
  have hkeys : k ∈ allKeys cfg := mem_allKeys_of_prog (mem_prog_of_todo h htodo)
  constructor
  · intro k' u
    simp only [setCtl_task, emit_task, setSlot_task, setCtl_slot, emit_slot, setSlot_slot, upd_apply]
    intro hs
    by_cases hk : k' = k
    · subst hk
      simp only [if_true, Slot.held.injEq] at hs
      subst hs
      exact ⟨n, by simp⟩
    · simp only [hk, if_false] at hs
      obtain ⟨m, hm⟩ := h.held_insup k' u hs
      have hut : u ≠ t := by
        intro e; subst e; rw [hm] at hc; simp at hc
      exact ⟨m, by simp [hut, hm]⟩
  · intro u k' n'
    simp only [setCtl_task, emit_task, setSlot_task, setCtl_slot, emit_slot, setSlot_slot, upd_apply]
    have := h.insup_held u k' n'
    grind
  · intro k' r'
    simp only [setCtl_slot, emit_slot, setSlot_slot, upd_apply]
    have := h.done_res k' r'
    grind
  · intro u
    have := h.results u
    simp only [setCtl_task, emit_task, setSlot_task, upd_apply, setCtl_log, emit_log, setSlot_log,
      seenBy_append_call]
    by_cases hu : u = t
    · subst hu
      simp only [if_true, todo]
      rw [htodo] at this
      exact this
    · simp only [hu, if_false]
      exact this
  · intro u k' r' hm
    simp only [setCtl_log, emit_log, setSlot_log, List.mem_append, List.mem_singleton] at hm
    simp only [setCtl_slot, emit_slot, setSlot_slot, upd_apply]
    rcases hm with hm | hm
    · have := h.seen_done u k' r' hm
      grind
    · cases hm
  · intro k' r'
    simp only [setCtl_slot, emit_slot, setSlot_slot, upd_apply, setCtl_log, emit_log, setSlot_log]
    intro hs
    by_cases hk : k' = k
    · subst hk; simp at hs
    · simp only [hk, if_false] at hs
      obtain ⟨u, hu⟩ := h.done_seen k' r' hs
      exact ⟨u, by simp [hu]⟩
  · intro u k'
    simp only [setCtl_task, emit_task, setSlot_task, setCtl_slot, emit_slot, setSlot_slot, upd_apply]
    have := h.waiting_slot u k'
    grind
  · intro u hu
    have := h.ghost u hu
    simp only [setCtl_task, emit_task, setSlot_task, upd_apply]
    grind
  · simp only [setCtl_requested, emit_requested, setSlot_requested, setCtl_slot, emit_slot,
      setSlot_slot]
    rw [h.req_eq]
    symm
    apply filter_flip_length (nodup_dedup _) hkeys
    · simp [hslot, Slot.nonEmpty]
    · simp [Slot.nonEmpty]
    · intro j hj; simp [upd_apply, hj]
  · simp only [setCtl_processed, emit_processed, setSlot_processed, setCtl_slot, emit_slot,
      setSlot_slot]
    rw [h.proc_eq]
    congr 1
    apply List.filter_congr
    intro j _
    simp only [upd_apply]
    by_cases hj : j = k
    · subst hj; simp [hslot, Slot.isDone]
    · simp [hj]

theorem complete_task (cfg : Cfg) (t k : Nat) (r : List Nat) (s : State) :
    ((complete cfg t k r s).task t).ctl = .ready ∧ ((complete cfg t k r s).task t).rest = r := by
  unfold complete
  have := (sameCore_unlock (setCtl (emit (setSlot (emit { s with processed := s.processed + 1 }
    (.ret k)) k (.done (cfg.outcome k))) (.seen t k (cfg.outcome k))) t .ready r) k).1 t
  simp only [setCtl_task, upd_same] at this
  exact this

/-- `lookup` preserves the invariant; when it reports completion the task is `ready` again -/
theorem invA_lookup (cfg : Cfg) (t k : Nat) (r : List Nat) {s : State} (h : InvA cfg s)
    (hc : (s.task t).ctl = .ready ∨ (s.task t).ctl = .waiting k)
    (htodo : todo (s.task t) = k :: r) :
    InvA cfg (lookup cfg t k r s).1 ∧
    ((lookup cfg t k r s).2 = true →
      (((lookup cfg t k r s).1.task t).ctl = .ready ∧ ((lookup cfg t k r s).1.task t).rest = r)) := by
  unfold lookup
  split
  · rename_i u hslot
    refine ⟨?_, by simp⟩
    exact invA_block cfg t k r (invA_of_sameCore (sameCore_setWaiters s k _) h) hc htodo
      (by simp [hslot])
  · rename_i res hslot
    have hA := invA_hit cfg t k r res (invA_of_sameCore (sameCore_setWaiters s k
      (deregister (s.waiters k) t)) h) hc htodo hslot
    refine ⟨invA_of_sameCore (sameCore_unlock _ k) hA, fun _ => ?_⟩
    have := (sameCore_unlock (setCtl (emit (setWaiters s k (deregister (s.waiters k) t))
      (.seen t k res)) t .ready r) k).1 t
    simp only [setCtl_task, upd_same] at this
    exact this
  · rename_i hslot
    have hsw := invA_of_sameCore (sameCore_setWaiters s k (deregister (s.waiters k) t)) h
    split
    · have hacq := invA_acquire cfg t k 0 r hsw hc htodo hslot
      refine ⟨invA_complete cfg t k 0 r hacq (by simp) (by simp), fun _ => complete_task ..⟩
    · rename_i n _
      have hacq := invA_acquire cfg t k n r hsw hc htodo hslot
      exact ⟨invA_of_sameCore (sameCore_setWoken _ t true) hacq, by simp⟩

theorem invA_finish (cfg : Cfg) (t : Nat) {s : State} (h : InvA cfg s)
    (hc : (s.task t).ctl = .ready) (hr : (s.task t).rest = []) : InvA cfg (setCtl s t .fin []) := by
  constructor
  · intro k' u hs
    have := h.held_insup k' u hs
    simp only [setCtl_task, upd_apply]
    grind
  · intro u k' n
    simp only [setCtl_task, upd_apply, setCtl_slot]
    have := h.insup_held u k' n
    grind
  · exact h.done_res
  · intro u
    have := h.results u
    simp only [setCtl_task, upd_apply, setCtl_log]
    grind [todo]
  · exact h.seen_done
  · exact h.done_seen
  · intro u k'
    simp only [setCtl_task, upd_apply, setCtl_slot]
    have := h.waiting_slot u k'
    grind
  · intro u hu
    have := h.ghost u hu
    simp only [setCtl_task, upd_apply]
    grind
  · exact h.req_eq
  · exact h.proc_eq

theorem invA_tick (cfg : Cfg) (t k n : Nat) {s : State} (h : InvA cfg s)
    (hc : (s.task t).ctl = .inSup k (n + 1)) :
    InvA cfg (setCtl s t (.inSup k n) (s.task t).rest) := by
  constructor
  · intro k' u hs
    have := h.held_insup k' u hs
    have := h.insup_held t k (n + 1) hc
    simp only [setCtl_task, upd_apply]
    grind
  · intro u k' n'
    simp only [setCtl_task, upd_apply, setCtl_slot]
    have := h.insup_held u k' n'
    have := h.insup_held t k (n + 1) hc
    grind
  · exact h.done_res
  · intro u
    have := h.results u
    simp only [setCtl_task, upd_apply, setCtl_log]
    grind [todo]
  · exact h.seen_done
  · exact h.done_seen
  · intro u k'
    simp only [setCtl_task, upd_apply, setCtl_slot]
    have := h.waiting_slot u k'
    grind
  · intro u hu
    have := h.ghost u hu
    simp only [setCtl_task, upd_apply]
    grind
  · exact h.req_eq
  · exact h.proc_eq

theorem invA_runReady (cfg : Cfg) (t : Nat) (ks : List Nat) {s : State} (h : InvA cfg s)
    (hc : (s.task t).ctl = .ready) (hr : (s.task t).rest = ks) :
    InvA cfg (runReady cfg t ks s) := by
  induction ks generalizing s with
  | nil => exact invA_finish cfg t h hc hr
  | cons k r ih =>
    unfold runReady
    have hl := invA_lookup cfg t k r h (Or.inl hc) (by simp [todo, hc, hr])
    split
    · rename_i s' heq
      rw [heq] at hl
      exact ih hl.1 (hl.2 rfl).1 (hl.2 rfl).2
    · rename_i s' heq
      rw [heq] at hl
      exact hl.1

theorem invA_poll (cfg : Cfg) (t : Nat) {s : State} (h : InvA cfg s) : InvA cfg (poll cfg t s) := by
  unfold poll
  simp only
  have hw := invA_of_sameCore (sameCore_setWoken s t false) h
  split
  · exact h
  · rename_i hc
    exact invA_runReady cfg t _ hw (by simp [hc]) (by simp)
  · rename_i k hc
    have hl := invA_lookup cfg t k (s.task t).rest hw (Or.inr (by simp [hc]))
      (by simp [todo, hc])
    split
    · rename_i s' heq
      rw [heq] at hl
      exact invA_runReady cfg t _ hl.1 (hl.2 rfl).1 (hl.2 rfl).2
    · rename_i s' heq
      rw [heq] at hl
      exact hl.1
  · rename_i k n hc
    exact invA_of_sameCore (sameCore_setWoken _ t true) (invA_tick cfg t k n h hc)
  · rename_i k hc
    have hcomp := invA_complete cfg t k 0 (s.task t).rest hw (by simp [hc]) (by simp)
    have := complete_task cfg t k (s.task t).rest (setWoken s t false)
    exact invA_runReady cfg t _ hcomp this.1 this.2

theorem invA_exec (cfg : Cfg) (sched : List Nat) {s : State} (h : InvA cfg s) :
    InvA cfg (exec cfg sched s) := by
  induction sched generalizing s with
  | nil => exact h
  | cons t ts ih => exact ih (invA_poll cfg t h)

theorem invA_reach (cfg : Cfg) (sched : List Nat) : InvA cfg (exec cfg sched (init cfg)) :=
  invA_exec cfg sched (invA_init cfg)

/-! ## consequences used by the property theorems -/

theorem seen_mem_expected {cfg : Cfg} {s : State} (h : InvA cfg s) {t k : Nat} {r : Res}
    (hm : Event.seen t k r ∈ s.log) : (k, r) ∈ (cfg.prog t).map (expected cfg) := by
  rw [← h.results t]
  exact List.mem_append_left _ (mem_seenBy.mpr hm)

theorem lt_ntasks_of_seen {cfg : Cfg} {s : State} (h : InvA cfg s) {t k : Nat} {r : Res}
    (hm : Event.seen t k r ∈ s.log) : t < cfg.ntasks := by
  have := seen_mem_expected h hm
  by_cases ht : t < cfg.ntasks
  · exact ht
  · exfalso
    have : cfg.prog t = [] := by
      unfold Cfg.prog Cfg.ntasks at *
      have : cfg.progs.length ≤ t := by omega
      simp [List.getD_eq_getElem?_getD, this]
    simp_all

theorem nonEmpty_started {cfg : Cfg} {s : State} (h : InvA cfg s) (k : Nat)
    (hne : (s.slot k).nonEmpty = true) :
    ((List.range cfg.ntasks).any fun t => (begun s t).contains k) = true := by
  rw [List.any_eq_true]
  cases hs : s.slot k with
  | empty => simp [hs, Slot.nonEmpty] at hne
  | held u =>
    obtain ⟨n, hn⟩ := h.held_insup k u hs
    have hu : u < cfg.ntasks := by
      by_cases hu : u < cfg.ntasks
      · exact hu
      · have := h.ghost u (by omega); rw [hn] at this; cases this
    exact ⟨u, List.mem_range.mpr hu, by simp [begun, hn]⟩
  | done r =>
    obtain ⟨u, hu⟩ := h.done_seen k r hs
    refine ⟨u, List.mem_range.mpr (lt_ntasks_of_seen h hu), ?_⟩
    simp only [begun, List.contains_eq_mem, List.mem_append, List.mem_map, decide_eq_true_eq]
    exact Or.inl ⟨(k, r), mem_seenBy.mpr hu, rfl⟩

theorem exists_task_of_key {cfg : Cfg} {k : Nat} (hk : k ∈ allKeys cfg) :
    ∃ t, t < cfg.ntasks ∧ k ∈ cfg.prog t := by
  unfold allKeys at hk
  rw [mem_dedup, List.mem_flatten] at hk
  obtain ⟨l, hl, hkl⟩ := hk
  obtain ⟨t, ht, rfl⟩ := List.getElem_of_mem hl
  refine ⟨t, ht, ?_⟩
  unfold Cfg.prog
  simp [List.getD_eq_getElem?_getD, ht, hkl]

end MdModel.Once
