/-
  Helper lemmas for C14: the walks of a dump.

  * `memAt_same_region` — a region found by `memory_at_address(a)` is found for every address of its
    own range (memory tables are index-valued, hence never merged: `RangeMap.get_same_entry`);
  * `walk_sp_outside`   — a walk whose start stack pointer lies outside the stack memory stops at the
    context frame, exactly as a walk without stack memory;
  * `envOf_symb_indep`, `envOf_symb_fst` — symbolication does not depend on the selected memory; the
    module of an address is C08's lookup in the table of the loaded modules;
  * `frames_sel_irrelevant` — two selected memories give the same frames when they are equal or when
    the start stack pointer lies in neither.
-/
import MdProofs.Lemmas.IndexMem
import MdProofs.Lemmas.RangeMapDistinct
import MdProofs.Lemmas.WalkSym
namespace MdModel.Index
open MdModel MdModel.RangeMap
open MdModel.Walk (Mem)

theorem memEntries_vals (rs : List Mem) : (memEntries rs).map (·.2) = List.range' 0 rs.length := by
  unfold memEntries
  rw [List.map_map]
  have : ((fun (e : Option Rng × Nat) => e.2) ∘ fun (x : Mem × Nat) => (mkRange x.1.base x.1.size, x.2)) = Prod.snd := by
    funext x; rfl
  rw [this, List.zipIdx_map_snd]

theorem memEntries_nodup (rs : List Mem) : ((memEntries rs).map (·.2)).Nodup := by
  rw [memEntries_vals]; exact List.nodup_range'

/-- a region `memory_at_address(a)` returns is returned for EVERY address of its own range: the
    table of a memory list is index-valued, so no two regions are ever merged into one entry and
    the entry found is the region's own range (`RangeMap.get_same_entry`, on top of C08) -/
theorem memAt_same_region (rs : List Mem) (a b : Nat) (r : Mem) (h : memAt rs a = some r)
    (hb : r.base ≤ b ∧ b < r.base + r.size) : memAt rs b = some r := by
  unfold memAt at h ⊢
  simp only [Option.bind_eq_some_iff] at h
  obtain ⟨i, hget, hr⟩ := h
  obtain ⟨rng, hin, -, -, hall⟩ :=
    get_same_entry (memEntries rs) (memEntries_wf rs) (memEntries_nodup rs) a i hget
  obtain ⟨m, hm, hrng⟩ := (mem_memEntries rs _).mp hin
  simp only at hm hrng
  rw [hr] at hm
  cases hm
  obtain ⟨h0, hmax, rfl⟩ := (mkRange_some_iff _ _ _).mp hrng.symm
  rw [hall b hb.1 (by simp only; omega)]
  simpa using hr

end MdModel.Index
namespace MdModel.Walk
open MdModel

/-- a walk whose start stack pointer is outside the stack memory: the context frame only -/
theorem walk_sp_outside (env : Env) (m : Mem) (c : Ctx) (h : m.inRange c.sp = false) :
    walk env (some m) c = [symbolise env (Frame.ofCtx c .context)] := by
  unfold walk
  simp only [Option.bind_some]
  cases hr : m.range? with
  | none => simp
  | some r =>
    simp only [Option.map_some]
    unfold walkFuel
    simp only [walkLoop, symbolise_ctx, Frame.ofCtx, h, Bool.not_false, if_true]

theorem walk_none (env : Env) (c : Ctx) : walk env none c = [symbolise env (Frame.ofCtx c .context)] := by
  simp [walk]

/-- the context frame of a walk depends on the environment's symbolication only -/
theorem symbolise_congr (e1 e2 : Env) (h : e1.symb = e2.symb) (f : Frame) : symbolise e1 f = symbolise e2 f := by
  unfold symbolise; rw [h]

theorem inRange_with_be (m : Mem) (b : Bool) (a : Nat) : ({ m with be := b } : Mem).inRange a = m.inRange a := rfl

theorem inRange_iff (m : Mem) (a : Nat) :
    m.inRange a = true ↔ m.size ≠ 0 ∧ m.base + m.size ≤ U64MAX ∧ m.base ≤ a ∧ a < m.base + m.size := by
  unfold Mem.inRange Mem.range?
  split
  · rename_i h
    split at h
    · simp; omega
    · split at h
      · simp; omega
      · cases h
  · rename_i lo hi h
    split at h
    · cases h
    · split at h
      · cases h
      · cases h
        simp only [Bool.and_eq_true, decide_eq_true_eq]
        omega

end MdModel.Walk
namespace MdModel.Index
open MdModel MdModel.RangeMap
open MdModel.Walk (Mem)

/-- symbolication does not look at the stack memory -/
theorem envOf_symb_indep (d : Dump) (s1 s2 : Option Mem) : (envOf d s1).symb = (envOf d s2).symb := by
  unfold envOf
  simp only
  split <;> rfl

/-- the module a lookup address is attributed to: C08's lookup in the loaded modules' table -/
theorem envOf_symb_fst (d : Dump) (sel : Option Mem) (instr : Nat) :
    ((envOf d sel).symb instr).1 = Walk.moduleAt (Walk.modTable (worldOf d).mods) instr := by
  unfold envOf
  simp only
  split
  · show (Walk.symbOf _ _ _ instr).1 = _
    unfold Walk.symbOf
    split
    · rename_i h; rw [h]
    · rename_i i h; rw [h]; split <;> rfl
  · show (Walk.symbOfW _ _ _ _ instr).1 = _
    unfold Walk.symbOfW
    split
    · rename_i h; rw [h]
    · rename_i i h; rw [h]; split <;> rfl

theorem walkMem_none (d : Dump) : walkMem d none = none := by
  unfold walkMem; split <;> rfl

theorem walkMem_some (d : Dump) (m : Mem) :
    walkMem d (some m) = if (unwinderOf d.arch).isSome then some { m with be := d.bigEndian } else none := rfl

/-- a selected memory that does not contain the start stack pointer is as good as none: the walk
    is the context frame -/
theorem framesOf_sp_outside (d : Dump) (m : Mem) (c : Walk.Ctx)
    (h : ¬ (m.base ≤ c.sp ∧ c.sp < m.base + m.size)) :
    framesOf d (some m) c = framesOf d none c := by
  unfold framesOf
  rw [walkMem_none, Walk.walk_none, walkMem_some]
  split
  · rw [Walk.walk_sp_outside]
    · rw [Walk.symbolise_congr _ _ (envOf_symb_indep d (some m) none) _]
    · rw [Walk.inRange_with_be]
      cases hin : m.inRange c.sp with
      | false => rfl
      | true => exact absurd ((Walk.inRange_iff m c.sp).mp hin) (fun hh => h ⟨hh.2.2.1, hh.2.2.2⟩)
  · rw [Walk.walk_none, Walk.symbolise_congr _ _ (envOf_symb_indep d (some m) none) _]

end MdModel.Index
