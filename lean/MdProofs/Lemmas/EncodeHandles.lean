/-
  MdProofs.Lemmas.EncodeHandles — C02: the HANDLE DATA stream reads back: header, descriptors of
  either kind, the two optional names, and the object-information chain (walked with the visited
  set and the fuel of C01's model).
-/
import MdProofs.Lemmas.EncodeMisc
namespace MdModel.Encode
open MdModel MdModel.Dump MdModel.Gen.Layouts MdModel.Gen.LayoutsC02

/-! ## sizes -/

theorem size_objinfo' : Layout.size MINIDUMP_HANDLE_OBJECT_INFORMATION = 12 := by decide

theorem encInfos_length (e : Endian) : ∀ (infos : List MObjInfo) (base : Nat), (encInfos e base infos).length = 12 * infos.length := by
  intro infos
  induction infos with
  | nil => intro base; rfl
  | cons i rest ih =>
    intro base
    cases rest with
    | nil => simp [encInfos, size_objinfo']
    | cons j rest' =>
      simp only [encInfos, List.length_append, encFields_length, size_objinfo', ih (base + 12), List.length_cons]
      omega

theorem encOptString_length (e : Endian) (o : Option (List Nat)) : (encOptString e o).length = optStringSize o := by
  cases o <;> simp [encOptString, optStringSize, encString_length]

theorem oobHandle_length (e : Endian) (v2 : Bool) (off : Nat) (h : MHandle) :
    (oobHandle e v2 off h).length = oobHandleSize v2 h := by
  simp [oobHandle, oobHandleSize, encOptString_length, encInfos_length, Nat.add_assoc]

theorem oobHandles_length (e : Endian) (v2 : Bool) : ∀ (hs : List MHandle) (off : Nat),
    (oobHandles e v2 off hs).length = oobHandlesSize v2 hs := by
  intro hs
  induction hs with
  | nil => intro off; rfl
  | cons h hs ih => intro off; simp [oobHandles, oobHandlesSize, oobHandle_length, ih]

theorem handleRecs_length (v2 : Bool) : ∀ (hs : List MHandle) (off : Nat), (handleRecs v2 off hs).length = hs.length := by
  intro hs
  induction hs with
  | nil => intro off; rfl
  | cons h hs ih => intro off; simp [handleRecs, ih]

theorem handleLayout_size (v2 : Bool) : Layout.size (handleLayout v2) = handleDescSize v2 := by
  cases v2 <;> decide

/-! ## what the wire format can carry -/

def OptValidName : Option (List Nat) → Prop
  | none => True
  | some n => ValidName n

def HandleFits (h : MHandle) : Prop :=
  h.handle < 2 ^ 64 ∧ h.attributes < 2 ^ 32 ∧ h.grantedAccess < 2 ^ 32 ∧ h.handleCount < 2 ^ 32 ∧ h.pointerCount < 2 ^ 32 ∧
  OptValidName h.typeName ∧ OptValidName h.objectName ∧
  ∀ i ∈ h.infos, i.ty < OBJECT_INFO_TYPE_COUNT ∧ i.size < 2 ^ 32

theorem handleRec_fits {all : List UInt8} (hall : all.length < 2 ^ 32) (e : Endian) (v2 : Bool) (off : Nat) (h : MHandle)
    (hf : HandleFits h) (hh : Has all off (oobHandle e v2 off h)) : Fits (handleLayout v2) (handleRec v2 off h) := by
  obtain ⟨h1, h2, h3, h4, h5, _, _, _⟩ := hf
  have hle := hh.length_le
  rw [oobHandle_length] at hle
  unfold oobHandleSize at hle
  have ht : optOff h.typeName off < 2 ^ 32 := by
    cases h.typeName <;> simp [optOff] <;> omega
  have ho : optOff h.objectName (off + optStringSize h.typeName) < 2 ^ 32 := by
    cases h.objectName <;> simp [optOff] <;> omega
  cases v2 with
  | false =>
    simp only [handleLayout, handleRec, MINIDUMP_HANDLE_DESCRIPTOR, Bool.false_eq_true, if_false, List.append_nil, Fits,
      pow_256_4, pow_256_8]
    exact ⟨h1, ht, ho, h2, h3, h4, h5, trivial⟩
  | true =>
    simp only [handleLayout, handleRec, MINIDUMP_HANDLE_DESCRIPTOR_2, if_true, List.cons_append, List.nil_append, Fits,
      pow_256_4, pow_256_8]
    refine ⟨h1, ht, ho, h2, h3, h4, h5, ?_, by decide, trivial⟩
    split <;> omega

/-! ## the object-information chain -/

theorem not_contains {seen : List Nat} {base : Nat} (h : ∀ r ∈ seen, r < base) : seen.contains base = false := by
  rw [Bool.eq_false_iff]
  intro hc
  have := h base (List.contains_iff_mem.mp hc)
  omega

theorem readObjectInfo_enc {all : Bytes} {e : Endian} {base next ty size : Nat} (hb : 0 < base)
    (h : Has all.toList base (encFields e MINIDUMP_HANDLE_OBJECT_INFORMATION [next, ty, size]))
    (hn : next < 2 ^ 32) (ht : ty < OBJECT_INFO_TYPE_COUNT) (hs : size < 2 ^ 32) :
    readObjectInfo all e base = some ⟨next, ty, size⟩ := by
  have hfit : Fits MINIDUMP_HANDLE_OBJECT_INFORMATION [next, ty, size] := by
    simp only [MINIDUMP_HANDLE_OBJECT_INFORMATION, Fits, pow_256_4]
    have : OBJECT_INFO_TYPE_COUNT = 10 := rfl
    exact ⟨hn, by omega, hs, trivial⟩
  have hrd := readFields_has hfit h
  unfold readObjectInfo
  rw [if_neg (by omega)]
  simp only [hrd, fld, List.getD_cons_zero, List.getD_cons_succ, ht, if_true]

/-- **the `while object_info_rva != 0` loop on an encoded chain**: every element, in order -/
theorem walkChain_enc {all : Bytes} (e : Endian) (hall : all.size < 2 ^ 32) :
    ∀ (infos : List MObjInfo) (base fuel : Nat) (seen : List Nat) (acc : List ObjInfo),
      infos ≠ [] → 0 < base → Has all.toList base (encInfos e base infos) → infos.length < fuel →
      (∀ r ∈ seen, r < base) → (∀ i ∈ infos, i.ty < OBJECT_INFO_TYPE_COUNT ∧ i.size < 2 ^ 32) →
      ∃ r, walkChain all e fuel base seen acc = some (acc.reverse ++ r) ∧
        r.map (fun o => (o.ty, o.size)) = infos.map (fun i => (i.ty, i.size)) := by
  intro infos
  induction infos with
  | nil => intro _ _ _ _ h; exact absurd rfl h
  | cons i rest ih =>
    intro base fuel seen acc _ hb h hfuel hseen hok
    obtain ⟨hty, hsz⟩ := hok i (by simp)
    have hnc := not_contains hseen
    cases rest with
    | nil =>
      simp only [encInfos] at h
      have hrd := readObjectInfo_enc hb h (by decide) hty hsz
      simp only [List.length_cons, List.length_nil] at hfuel
      match fuel, hfuel with
      | f + 2, _ =>
        refine ⟨[⟨0, i.ty, i.size⟩], ?_, by simp⟩
        simp only [walkChain, hnc, hrd, Bool.false_eq_true, if_false, if_true]
        rw [if_neg (by omega)]
        simp
    | cons j rest' =>
      simp only [encInfos] at h
      have hle := h.size_le
      simp only [List.length_append, encFields_length, size_objinfo', encInfos_length, List.length_cons] at hle
      have hrd := readObjectInfo_enc hb h.left (by omega) hty hsz
      have h2 := h.right
      simp only [encFields_length, size_objinfo'] at h2
      simp only [List.length_cons] at hfuel
      match fuel, hfuel with
      | f + 1, _ =>
        obtain ⟨r, hr1, hr2⟩ := ih (base + 12) f (base :: seen) (⟨base + 12, i.ty, i.size⟩ :: acc) (by simp) (by omega) h2
          (by simp only [List.length_cons]; omega)
          (by intro x hx; simp only [List.mem_cons] at hx; rcases hx with rfl | hx
              · omega
              · have := hseen x hx; omega)
          (fun x hx => hok x (by simp [hx]))
        refine ⟨⟨base + 12, i.ty, i.size⟩ :: r, ?_, by simp [hr2]⟩
        simp only [walkChain, hnc, hrd, Bool.false_eq_true, if_false]
        rw [if_neg (by omega), hr1]
        simp

theorem walkChain_zero {all : Bytes} (e : Endian) (fuel : Nat) : walkChain all e (fuel + 1) 0 [] [] = some [] := by
  simp [walkChain]

/-! ## one descriptor -/

theorem handleString_none {all : Bytes} (e : Endian) : (handleString all e 0).res = .ok none := by
  simp [handleString]

theorem handleString_some {all : Bytes} {e : Endian} {off : Nat} {n : List Nat} (hoff : 0 < off) (hv : ValidName n)
    (h : Has all.toList off (encString e n)) (hall : all.size < 2 ^ 32) : (handleString all e off).res = .ok (some n) := by
  unfold handleString
  rw [if_neg (by omega), res_bind_ok (readStringUtf16_enc hv h hall)]
  rfl

/-- an optional name at its cited offset -/
theorem handleString_opt {all : Bytes} {e : Endian} {off : Nat} (o : Option (List Nat)) (hoff : 0 < off) (hv : OptValidName o)
    (h : Has all.toList off (encOptString e o)) (hall : all.size < 2 ^ 32) :
    (handleString all e (optOff o off)).res = .ok o := by
  cases o with
  | none => exact handleString_none e
  | some n => exact handleString_some hoff hv h hall

theorem readHandleDescriptor_enc (ms : MemSizes) {s all : Bytes} {e : Endian} {v2 : Bool} {soff off : Nat} {h : MHandle}
    (hs : Has s.toList soff (encFields e (handleLayout v2) (handleRec v2 off h))) (hf : HandleFits h) (hoff : 0 < off)
    (hoob : Has all.toList off (oobHandle e v2 off h)) (hall : all.size < 2 ^ 32) :
    ∃ r, (readHandleDescriptor ms s all e (handleDescSize v2) soff).res = .ok (some r) ∧ rhandleOf r = reportHandle v2 h := by
  have hfit := handleRec_fits (by simpa using hall) e v2 off h hf hoob
  have hrd := readFields_has hfit hs
  obtain ⟨_, _, _, _, _, hvt, hvo, hinfos⟩ := hf
  unfold oobHandle at hoob
  have htn := handleString_opt h.typeName hoff hvt hoob.left.left hall
  have hon : (handleString all e (optOff h.objectName (off + optStringSize h.typeName))).res =
      .ok h.objectName := by
    have := hoob.left.right
    rw [encOptString_length] at this
    exact handleString_opt h.objectName (by omega) hvo this hall
  cases v2 with
  | false =>
    have h32 : Layout.size MINIDUMP_HANDLE_DESCRIPTOR = 32 := by decide
    simp only [handleLayout, Bool.false_eq_true, if_false] at hrd
    unfold readHandleDescriptor
    simp only [handleDescSize, Bool.false_eq_true, if_false, h32, if_true, hrd]
    have e1 : fld (handleRec false off h) 1 = optOff h.typeName off := by simp [handleRec, fld]
    have e2 : fld (handleRec false off h) 2 =
        optOff h.objectName (off + optStringSize h.typeName) := by simp [handleRec, fld]
    rw [e1, res_bind_ok htn, e2, res_bind_ok hon]
    refine ⟨_, rfl, ?_⟩
    simp [rhandleOf, reportHandle, handleRec, fld, handleInfos]
  | true =>
    have h32 : Layout.size MINIDUMP_HANDLE_DESCRIPTOR = 32 := by decide
    have h40 : Layout.size MINIDUMP_HANDLE_DESCRIPTOR_2 = 40 := by decide
    simp only [handleLayout, if_true] at hrd
    unfold readHandleDescriptor
    simp only [handleDescSize, if_true, h32, h40, show ¬ ((40 : Nat) = 32) by decide, if_false, hrd]
    have e1 : fld (handleRec true off h) 1 = optOff h.typeName off := by simp [handleRec, fld]
    have e2 : fld (handleRec true off h) 2 =
        optOff h.objectName (off + optStringSize h.typeName) := by simp [handleRec, fld]
    have e7 : fld (handleRec true off h) 7 =
        (if (handleInfos true h).isEmpty then 0 else off + optStringSize h.typeName + optStringSize h.objectName) := by
      simp [handleRec, fld]
    rw [e1, res_bind_ok htn, e2, res_bind_ok hon, e7]
    have hchain := hoob.right
    simp only [List.length_append, encOptString_length, ← Nat.add_assoc] at hchain
    have hinf : handleInfos true h = h.infos := by simp [handleInfos]
    rw [hinf] at hchain ⊢
    have hwalk : ∃ r, walkChain all e (all.size + 1)
        (if h.infos.isEmpty then 0 else off + optStringSize h.typeName + optStringSize h.objectName) [] [] = some r ∧
        r.map (fun o => (o.ty, o.size)) = h.infos.map (fun i => (i.ty, i.size)) := by
      by_cases hemp : h.infos = []
      · rw [hemp]
        exact ⟨[], by simp [walkChain], rfl⟩
      · have hne : h.infos.isEmpty = false := by simpa using hemp
        rw [hne]
        have hle := hchain.size_le
        rw [encInfos_length] at hle
        have hpos : 0 < h.infos.length := List.length_pos_iff.mpr hemp
        obtain ⟨r, hr1, hr2⟩ := walkChain_enc e hall h.infos _ (all.size + 1) [] [] hemp (by omega) hchain (by omega)
          (by simp) hinfos
        exact ⟨r, by simpa using hr1, hr2⟩
    obtain ⟨r, hr1, hr2⟩ := hwalk
    simp only [hr1]
    rw [res_bind_ok (res_alloc _ _ _)]
    refine ⟨_, rfl, ?_⟩
    simp [rhandleOf, reportHandle, handleRec, fld, hinf, hr2]

/-! ## the descriptor list and the stream -/

theorem readHandles_enc (ms : MemSizes) {s all : Bytes} {e : Endian} {v2 : Bool} (hall : all.size < 2 ^ 32) :
    ∀ (hs : List MHandle) (soff off : Nat), (∀ h ∈ hs, HandleFits h) → 0 < off →
      Has s.toList soff (encRecords e (handleLayout v2) (handleRecs v2 off hs)) →
      Has all.toList off (oobHandles e v2 off hs) →
      ∃ r, (readHandles ms s all e (handleDescSize v2) hs.length soff).res = .ok r ∧
        r.map rhandleOf = hs.map (reportHandle v2) := by
  intro hs
  induction hs with
  | nil => intro soff off _ _ _ _; exact ⟨[], rfl, rfl⟩
  | cons h hs ih =>
    intro soff off hf hoff hrec hoob
    simp only [handleRecs, encRecords_cons] at hrec
    simp only [oobHandles] at hoob
    have hle := hrec.size_le
    obtain ⟨x, hx1, hx2⟩ := readHandleDescriptor_enc ms hrec.left (hf h (by simp)) hoff hoob.left hall
    have h2 := hrec.right
    rw [encFields_length, handleLayout_size] at h2
    have ho2 := hoob.right
    rw [oobHandle_length] at ho2
    obtain ⟨r, hr1, hr2⟩ := ih (soff + handleDescSize v2) (off + oobHandleSize v2 h) (fun h' hh' => hf h' (by simp [hh']))
      (by omega) h2 ho2
    refine ⟨x :: r, ?_, by simp [hx2, hr2]⟩
    simp only [List.length_cons, readHandles]
    rw [if_neg (by omega), res_bind_ok hx1]
    simp only
    rw [res_bind_ok hr1]
    rfl

theorem handleRecs_fits {all : List UInt8} (hall : all.length < 2 ^ 32) (e : Endian) (v2 : Bool) :
    ∀ (hs : List MHandle) (off : Nat), (∀ h ∈ hs, HandleFits h) → Has all off (oobHandles e v2 off hs) →
      ∀ r ∈ handleRecs v2 off hs, Fits (handleLayout v2) r := by
  intro hs
  induction hs with
  | nil => intro off _ _ r hr; simp [handleRecs] at hr
  | cons h hs ih =>
    intro off hf hoob r hr
    simp only [handleRecs, List.mem_cons] at hr
    simp only [oobHandles] at hoob
    cases hr with
    | inl h0 => subst h0; exact handleRec_fits hall e v2 off h (hf h (by simp)) hoob.left
    | inr h1 =>
      have h2 := hoob.right
      rw [oobHandle_length] at h2
      exact ih _ (fun h' hh' => hf h' (by simp [hh'])) h2 r h1

/-- **`MinidumpHandleDataStream::read` on an encoded stream** -/
theorem readHandleData_enc (ms : MemSizes) {s all : Bytes} {e : Endian} {off : Nat} {x : MHandleData}
    (hs : s.toList = encHandleData e off x) (hf : ∀ h ∈ x.handles, HandleFits h) (hoff : 0 < off)
    (hoob : Has all.toList off (oobHandles e x.v2 off x.handles)) (hall : all.size < 2 ^ 32) (hsz : s.size < 2 ^ 32) :
    ∃ r, (readHandleData ms s all e).res = .ok r ∧ r.map rhandleOf = x.handles.map (reportHandle x.v2) := by
  have hU := U32_le_U64
  have hlen : s.size = 16 + x.handles.length * handleDescSize x.v2 := by
    have := congrArg List.length hs
    simpa [encHandleData, handleRecs_length, handleLayout_size, show Layout.size MINIDUMP_HANDLE_DATA_STREAM = 16 by decide]
      using this
  have hd : handleDescSize x.v2 = 32 ∨ handleDescSize x.v2 = 40 := by cases x.v2 <;> simp [handleDescSize]
  have hhdr : Has s.toList 0 (encFields e MINIDUMP_HANDLE_DATA_STREAM [16, handleDescSize x.v2, x.handles.length, 0]) :=
    Has.prefix0 (by rw [hs]; rfl)
  have hfit : Fits MINIDUMP_HANDLE_DATA_STREAM [16, handleDescSize x.v2, x.handles.length, 0] := by
    simp only [MINIDUMP_HANDLE_DATA_STREAM, Fits, pow_256_4]
    refine ⟨by decide, by omega, ?_, by decide, trivial⟩
    rcases hd with hd | hd <;> rw [hd] at hlen <;> omega
  have hh : Has s.toList 0 (encNat e 4 16 ++ (encNat e 4 (handleDescSize x.v2) ++ (encNat e 4 x.handles.length ++
      encNat e 4 0))) := by
    have := hhdr
    simpa [MINIDUMP_HANDLE_DATA_STREAM, encFields] using this
  have h0 : readU32 s 0 e = some 16 := readScalar_has hh.left (by decide)
  have h4 : readU32 s 4 e = some (handleDescSize x.v2) := by
    have := hh.right.left
    simp only [encNat_length] at this
    exact readScalar_has this (by rw [pow_256_4]; omega)
  have h8 : readU32 s 8 e = some x.handles.length := by
    have := hh.right.right.left
    simp only [encNat_length] at this
    exact readScalar_has this (by rw [pow_256_4]; rcases hd with hd | hd <;> rw [hd] at hlen <;> omega)
  have hrecs : Has s.toList 16 (encRecords e (handleLayout x.v2) (handleRecs x.v2 off x.handles)) := by
    refine ⟨encFields e MINIDUMP_HANDLE_DATA_STREAM [16, handleDescSize x.v2, x.handles.length, 0], [], ?_, ?_⟩
    · simp [hs, encHandleData]
    · simp only [encFields_length]; decide
  obtain ⟨r, hr1, hr2⟩ := readHandles_enc ms (v2 := x.v2) hall x.handles 16 off hf hoff hrecs hoob
  refine ⟨r, ?_, hr2⟩
  unfold readHandleData
  simp only [h0, h4, h8]
  have hens : ensureCountInBound s.size x.handles.length (handleDescSize x.v2) 16 =
      .ok (x.handles.length * handleDescSize x.v2 + 16) := by
    unfold ensureCountInBound checkedMul checkedAdd
    rw [if_pos (by omega)]; simp only
    rw [if_pos (by omega)]; simp only
    rw [if_neg (by omega)]
  simp only [hens]
  have h32 : Layout.size MINIDUMP_HANDLE_DESCRIPTOR = 32 := by decide
  have h40 : Layout.size MINIDUMP_HANDLE_DESCRIPTOR_2 = 40 := by decide
  rw [if_neg (by rw [h32, h40]; omega)]
  rw [res_bind_ok (res_alloc _ _ _)]
  exact hr1

end MdModel.Encode
