/-
  MdProofs.Lemmas.BytesTotal — the SUM of all allocation requests.
  * the ten list/record streams: count (linear, `BytesCount`) times the largest request (`K * len`);
  * the Crashpad-info stream, whose allocation COUNT is quadratic (links x entries): the copied
    string bytes are accounted against the budget `charge_string_budget` maintains
    (potential argument: `Pot`), so one module's annotations cost at most `9 * len` bytes and the
    whole stream at most `11 * len + (len / 12) * (9 * len)`.
-/
import MdProofs.Lemmas.BytesCount
import MdProofs.Lemmas.BytesCrashpad
namespace MdModel.Dump
open MdModel MdModel.Gen.Layouts

theorem totalBytes_nil : totalBytes [] = 0 := rfl

theorem totalBytes_cons (a : Alloc) (as : List Alloc) : totalBytes (a :: as) = a.bytes + totalBytes as := by
  simp [totalBytes]

theorem totalBytes_append (xs ys : List Alloc) : totalBytes (xs ++ ys) = totalBytes xs + totalBytes ys := by
  simp [totalBytes, List.sum_append]

theorem totalBytes_reverse (xs : List Alloc) : totalBytes xs.reverse = totalBytes xs := by
  induction xs with
  | nil => rfl
  | cons a as ih => simp [totalBytes_append, totalBytes_cons, ih, totalBytes_nil]; omega

/-- the potential left after `m`: `w a` if it produced `a`, nothing otherwise -/
def potOut {α : Type} (w : α → Nat) (m : M α) : Nat :=
  match m.res with
  | .ok a => w a
  | _ => 0

/-- `Pot T win wout m`: the bytes `m` requests, plus the budget it hands on, are at most the budget
    it was given plus `T` (the requests not charged to the budget). -/
def Pot {α : Type} (T win : Nat) (wout : α → Nat) (m : M α) : Prop :=
  totalBytes m.allocs + potOut wout m ≤ win + T

theorem pot_pure {α : Type} {T : Nat} (w : α → Nat) (a : α) : Pot T (w a) w (pure a : M α) := by
  simp [Pot, potOut, M.pure_def, M.pure', totalBytes_nil]

theorem pot_fail {α : Type} {T : Nat} (win : Nat) (w : α → Nat) (e : Err) : Pot T win w (M.fail e : M α) := by
  simp [Pot, potOut, M.fail, totalBytes_nil]

theorem total_bind {α β : Type} {A C : Nat} {x : M α} {f : α → M β}
    (hx : totalBytes x.allocs ≤ A) (hf : ∀ a, x.res = .ok a → totalBytes (f a).allocs ≤ C) :
    totalBytes (x >>= f).allocs ≤ A + C := by
  rw [M.bind_def]
  unfold M.bind'
  cases hres : x.res with
  | ok a => have := hf a hres; simp only [totalBytes_append]; omega
  | err e => simp only; omega
  | panic s => simp only; omega

theorem total_pure {α : Type} (a : α) : totalBytes (pure a : M α).allocs = 0 := rfl
theorem total_fail {α : Type} (e : Err) : totalBytes (M.fail e : M α).allocs = 0 := rfl
theorem total_alloc (n sz : Nat) (ex : Bool) : totalBytes (M.alloc n sz ex).allocs = n * sz := by
  simp [M.alloc, totalBytes_cons, totalBytes_nil, Alloc.bytes]

/-- a copy charged to the budget -/
theorem pot_copy (left len : Nat) : Pot 0 (left + len) (fun _ => left) (M.alloc len 1) := by
  simp [Pot, potOut, M.alloc, totalBytes_cons, totalBytes_nil, Alloc.bytes]; omega

/-- an allocation that is not charged to the budget -/
theorem pot_alloc (win n sz : Nat) (ex : Bool) : Pot (n * sz) win (fun _ => win) (M.alloc n sz ex) := by
  simp [Pot, potOut, M.alloc, totalBytes_cons, totalBytes_nil, Alloc.bytes]; omega

theorem Pot.mono {α : Type} {T T' win win' : Nat} {w : α → Nat} {m : M α} (h : Pot T win w m)
    (h1 : T ≤ T') (h2 : win ≤ win') : Pot T' win' w m := by
  unfold Pot at *; omega

theorem pot_bind {α β : Type} {T1 T2 win : Nat} {w1 : α → Nat} {w2 : β → Nat} {x : M α} {f : α → M β}
    (hx : Pot T1 win w1 x) (hf : ∀ a, x.res = .ok a → Pot T2 (w1 a) w2 (f a)) :
    Pot (T1 + T2) win w2 (x >>= f) := by
  rw [M.bind_def]
  unfold Pot potOut at *
  unfold M.bind'
  cases hres : x.res with
  | ok a =>
    have h2 := hf a hres
    rw [hres] at hx
    simp only [totalBytes_append] at *
    omega
  | err e => rw [hres] at hx; simp only at *; omega
  | panic s => rw [hres] at hx; simp only at *; omega

theorem pot_loopGo {σ : Type} (step : σ → Nat → M σ) (w : σ → Nat) (h : ∀ s i, Pot 0 (w s) w (step s i)) :
    ∀ (todo i : Nat) (s : σ) (rev : List Alloc),
      totalBytes (M.loopGo step todo i s rev).allocs + potOut w (M.loopGo step todo i s rev) ≤ totalBytes rev + w s := by
  intro todo
  induction todo with
  | zero => intro i s rev; simp [M.loopGo, potOut, totalBytes_reverse]
  | succ t ih =>
    intro i s rev
    have hs := h s i
    unfold Pot potOut at hs
    unfold M.loopGo
    dsimp only
    split
    · rename_i s' hres
      rw [hres] at hs
      simp only at hs
      have := ih (i + 1) s' ((step s i).allocs.reverse ++ rev)
      simp only [totalBytes_append, totalBytes_reverse] at this
      omega
    · rename_i e hres
      rw [hres] at hs
      simp only at hs
      simp only [potOut, totalBytes_reverse, totalBytes_append]
      omega
    · rename_i p hres
      rw [hres] at hs
      simp only at hs
      simp only [potOut, totalBytes_reverse, totalBytes_append]
      omega

theorem pot_loop {σ : Type} (n : Nat) (init : σ) (step : σ → Nat → M σ) (w : σ → Nat)
    (h : ∀ s i, Pot 0 (w s) w (step s i)) : Pot 0 (w init) w (M.loop n init step) := by
  have := pot_loopGo step w h n 0 init []
  unfold Pot
  simpa [M.loop, totalBytes_nil] using this

/-- every iteration requests at most `c` bytes ⇒ `todo` iterations request at most `todo * c` -/
theorem total_loopGo_const {σ : Type} (step : σ → Nat → M σ) (c : Nat) (h : ∀ s i, totalBytes (step s i).allocs ≤ c) :
    ∀ (todo i : Nat) (s : σ) (rev : List Alloc),
      totalBytes (M.loopGo step todo i s rev).allocs ≤ totalBytes rev + todo * c := by
  intro todo
  induction todo with
  | zero => intro i s rev; simp [M.loopGo, totalBytes_reverse]
  | succ t ih =>
    intro i s rev
    have hs := h s i
    unfold M.loopGo
    dsimp only
    rw [Nat.succ_mul]
    split
    · rename_i s' hres
      have := ih (i + 1) s' ((step s i).allocs.reverse ++ rev)
      simp only [totalBytes_append, totalBytes_reverse] at this
      omega
    · simp only [totalBytes_reverse, totalBytes_append]; omega
    · simp only [totalBytes_reverse, totalBytes_append]; omega

theorem Pot.total {α : Type} {T win : Nat} {w : α → Nat} {m : M α} (h : Pot T win w m) :
    totalBytes m.allocs ≤ win + T := by
  unfold Pot at h; omega

/-! ### the Crashpad readers -/

theorem chargeBudget_ok {budget len b : Nat} (h : chargeBudget budget len = .ok b) : budget = b + len := by
  unfold chargeBudget at h
  split at h
  · cases h
  · rename_i b' hb
    cases h
    have := checkedSub_some hb
    omega

theorem pot_stringListStep (all data : Bytes) (e : Endian) (st : List Bytes × Nat) (i : Nat) :
    Pot 0 st.2 (fun st' => st'.2) (stringListStep all data e st i) := by
  unfold stringListStep
  split
  · exact pot_fail _ _ _
  · split
    · exact pot_fail _ _ _
    · rename_i s o hs
      split
      · exact pot_fail _ _ _
      · rename_i budget hb
        rw [chargeBudget_ok hb]
        exact pot_bind (pot_copy budget s.size) (T2 := 0) (w2 := fun st' : List Bytes × Nat => st'.2)
          (f := fun _ => pure (s :: st.1, budget)) (fun _ _ => pot_pure (fun st' : List Bytes × Nat => st'.2) _)

theorem pot_readStringList (ms : MemSizes) (hms : ms.Bounded) (all : Bytes) (e : Endian) (loc : Loc) (budget : Nat) :
    Pot (8 * all.size) budget (fun r => r.2) (readStringList ms all e loc budget) := by
  unfold readStringList
  split
  · exact pot_fail _ _ _
  · rename_i data _
    split
    · exact pot_pure (fun r : List Bytes × Nat => r.2) _
    · split
      · exact pot_fail _ _ _
      · rename_i count _
        split
        · exact pot_fail _ _ _
        · rename_i x hc
          have ⟨hc1, hc2⟩ := ensureCountInBound_ok hc
          have hcap := alloc_bound (count := count) (wire := 4) (len := all.size) (c := 8) (by omega) hms.string
          have hloop : Pot 0 budget (fun st : List Bytes × Nat => st.2)
              (M.loop count ([], budget) (stringListStep all data e)) :=
            pot_loop count ([], budget) (stringListStep all data e) (fun st => st.2) (pot_stringListStep all data e)
          have hrest := pot_bind hloop (T2 := 0) (w2 := fun r : List Bytes × Nat => r.2)
            (f := fun st => pure (st.1.reverse, st.2)) (fun st _ => pot_pure (fun r : List Bytes × Nat => r.2) _)
          have hall := pot_bind (pot_alloc budget count ms.string true) (fun _ _ => hrest)
          exact hall.mono (by omega) (by omega)

theorem pot_dictStep (all data : Bytes) (e : Endian) (st : List (Bytes × Bytes) × Nat) (i : Nat) :
    Pot 0 st.2 (fun st' => st'.2) (dictStep all data e st i) := by
  unfold dictStep
  split
  · exact pot_fail _ _ _
  · split
    · rename_i k _ v _ _ _
      split
      · exact pot_fail _ _ _
      · rename_i budget hb
        rw [chargeBudget_ok hb]
        have h1 : Pot 0 (budget + v.size + k.size) (fun _ => budget + v.size) (M.alloc k.size 1) := pot_copy _ _
        refine (pot_bind h1 (T2 := 0) (fun _ _ => ?_)).mono (by omega) (by omega)
        refine (pot_bind (pot_copy budget v.size) (T2 := 0) (fun _ _ => ?_)).mono (by omega) (by omega)
        exact pot_pure (fun st' : List (Bytes × Bytes) × Nat => st'.2) _
    · exact pot_fail _ _ _

theorem pot_readSimpleDict (all : Bytes) (e : Endian) (loc : Loc) (budget : Nat) :
    Pot 0 budget (fun r => r.2) (readSimpleDict all e loc budget) := by
  unfold readSimpleDict
  split
  · exact pot_fail _ _ _
  · split
    · exact pot_pure (fun r : List (Bytes × Bytes) × Nat => r.2) _
    · split
      · exact pot_fail _ _ _
      · exact pot_loop _ ([], budget) _ (fun st => st.2) (pot_dictStep all _ e)

theorem pot_annotationStep (all data : Bytes) (e : Endian) (st : List (Bytes × AnnotationValue) × Nat) (i : Nat) :
    Pot 0 st.2 (fun st' => st'.2) (annotationStep all data e st i) := by
  unfold annotationStep
  split
  · exact pot_fail _ _ _
  · split
    · exact pot_fail _ _ _
    · rename_i k _ _
      split
      · exact pot_fail _ _ _
      · rename_i budget hb
        rw [chargeBudget_ok hb]
        dsimp only
        have hk : Pot 0 (budget + k.size) (fun _ => budget) (M.alloc k.size 1) := pot_copy _ _
        have hdone : ∀ v, Pot 0 (budget + k.size) (fun st' : List (Bytes × AnnotationValue) × Nat => st'.2)
            (M.alloc k.size 1 >>= fun _ => pure (dictInsert k v st.1, budget)) := fun v =>
          (pot_bind hk (T2 := 0) (fun _ _ => pot_pure (fun st' : List (Bytes × AnnotationValue) × Nat => st'.2) _)).mono
            (by omega) (by omega)
        split
        · exact hdone _
        · split
          · split
            · exact pot_fail _ _ _
            · rename_i v _ _
              split
              · exact pot_fail _ _ _
              · rename_i budget' hb'
                rw [chargeBudget_ok hb']
                have h1 : Pot 0 (budget' + v.size + k.size) (fun _ => budget' + k.size) (M.alloc v.size 1) := by
                  have := pot_copy (budget' + k.size) v.size
                  exact this.mono (by omega) (by omega)
                refine (pot_bind h1 (T2 := 0) (fun _ _ => ?_)).mono (by omega) (by omega)
                refine (pot_bind (pot_copy budget' k.size) (T2 := 0) (fun _ _ => ?_)).mono (by omega) (by omega)
                exact pot_pure (fun st' : List (Bytes × AnnotationValue) × Nat => st'.2) _
          · split
            · exact hdone _
            · exact hdone _

theorem pot_readAnnotationObjects (all : Bytes) (e : Endian) (loc : Loc) (budget : Nat) :
    Pot 0 budget (fun r => r.2) (readAnnotationObjects all e loc budget) := by
  unfold readAnnotationObjects
  split
  · exact pot_fail _ _ _
  · split
    · exact pot_pure (fun r : List (Bytes × AnnotationValue) × Nat => r.2) _
    · split
      · exact pot_fail _ _ _
      · exact pot_loop _ ([], budget) _ (fun st => st.2) (pot_annotationStep all _ e)

/-- One module's annotations: the copies are charged to a budget of `all.size` bytes, the
    `Vec<String>` costs at most `8 * all.size`: at most `9 * all.size` bytes, however many entries
    alias however long a string. -/
theorem total_readModuleCrashpadInfo (ms : MemSizes) (hms : ms.Bounded) (all : Bytes) (e : Endian) (index : Nat) (loc : Loc) :
    totalBytes (readModuleCrashpadInfo ms all e index loc).allocs ≤ 9 * all.size := by
  have h : Pot (8 * all.size) all.size (fun m : ModuleCrashpadInfo => m.budgetLeft) (readModuleCrashpadInfo ms all e index loc) := by
    unfold readModuleCrashpadInfo
    split
    · exact pot_fail _ _ _
    · refine (pot_bind (pot_readStringList ms hms all e _ all.size) (T2 := 0) (fun r1 _ => ?_)).mono (by omega) (by omega)
      refine (pot_bind (pot_readSimpleDict all e _ r1.2) (T2 := 0) (fun r2 _ => ?_)).mono (by omega) (by omega)
      refine (pot_bind (pot_readAnnotationObjects all e _ r2.2) (T2 := 0) (fun r3 _ => ?_)).mono (by omega) (by omega)
      exact pot_pure (fun m : ModuleCrashpadInfo => m.budgetLeft) _
  have := h.total
  omega

theorem total_linkStep (ms : MemSizes) (hms : ms.Bounded) (all data : Bytes) (e : Endian)
    (st : List ModuleCrashpadInfo) (i : Nat) : totalBytes (linkStep ms all data e st i).allocs ≤ 9 * all.size := by
  unfold linkStep
  split
  · rw [total_fail]; omega
  · rename_i v _
    have := total_bind (A := 9 * all.size) (C := 0)
      (total_readModuleCrashpadInfo ms hms all e (fld v 0) ⟨fld v 1, fld v 2⟩) (f := fun info => pure (info :: st))
      (fun a _ => by rw [total_pure]; omega)
    omega

theorem total_readCrashpadModuleLinks (ms : MemSizes) (hms : ms.Bounded) (all : Bytes) (e : Endian) (loc : Loc) :
    totalBytes (readCrashpadModuleLinks ms all e loc).allocs ≤ 10 * all.size + (all.size / 12) * (9 * all.size) := by
  unfold readCrashpadModuleLinks
  split
  · rw [total_fail]; omega
  · rename_i data _
    split
    · rw [total_pure]; omega
    · split
      · rw [total_fail]; omega
      · rename_i count _
        split
        · rw [total_fail]; omega
        · rename_i x hc
          have ⟨hc1, hc2⟩ := ensureCountInBound_ok hc
          rw [size_link] at hc1
          have hcap := alloc_bound (count := count) (wire := 12) (len := all.size) (c := 10) (by omega) hms.moduleCrashpad
          have hcount : count ≤ all.size / 12 := by omega
          have hmul : count * (9 * all.size) ≤ (all.size / 12) * (9 * all.size) := Nat.mul_le_mul_right _ hcount
          have hloop : totalBytes (M.loop count [] (linkStep ms all data e)).allocs ≤ count * (9 * all.size) := by
            have := total_loopGo_const (linkStep ms all data e) (9 * all.size)
              (total_linkStep ms hms all data e) count 0 [] []
            simpa [M.loop, totalBytes_nil] using this
          have h2 := total_bind (A := count * (9 * all.size)) (C := 0) hloop
            (f := fun st : List ModuleCrashpadInfo => pure st.reverse) (fun a _ => by rw [total_pure]; omega)
          have h1 := total_bind (A := count * ms.moduleCrashpad) (C := count * (9 * all.size) + 0)
            (x := M.alloc count ms.moduleCrashpad) (by rw [total_alloc]; omega)
            (f := fun _ => M.loop count [] (linkStep ms all data e) >>= fun st => pure st.reverse) (fun _ _ => h2)
          omega

/-- The whole Crashpad-info stream: at most `11 * len + (len / 12) * (9 * len)` bytes. -/
theorem total_readCrashpadInfo (ms : MemSizes) (hms : ms.Bounded) (b all : Bytes) (e : Endian) :
    totalBytes (readCrashpadInfo ms b all e).allocs ≤ 11 * all.size + (all.size / 12) * (9 * all.size) := by
  unfold readCrashpadInfo
  split
  · rw [total_fail]; omega
  · split
    · rw [total_fail]; omega
    · rename_i v _ _
      have hd := (pot_readSimpleDict all e ⟨fld v 23, fld v 24⟩ all.size).total
      have hl := total_readCrashpadModuleLinks ms hms all e ⟨fld v 25, fld v 26⟩
      have h2 : ∀ d : List (Bytes × Bytes) × Nat,
          totalBytes (readCrashpadModuleLinks ms all e ⟨fld v 25, fld v 26⟩ >>= fun ms' =>
            (pure ⟨fld v 0, d.1, ms'⟩ : M CrashpadInfo)).allocs
            ≤ 10 * all.size + (all.size / 12) * (9 * all.size) + 0 :=
        fun d => total_bind hl (fun _ _ => by rw [total_pure]; omega)
      have h1 := total_bind hd (fun d _ => h2 d)
      omega

end MdModel.Dump
