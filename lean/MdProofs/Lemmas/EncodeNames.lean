/-
  MdProofs.Lemmas.EncodeNames — C02: the thread-name stream and the unloaded-module list read back
  (records + the out-of-band strings at the cited offsets).
-/
import MdProofs.Lemmas.EncodeStreams
namespace MdModel.Encode
open MdModel MdModel.Dump MdModel.Gen.Layouts

def ValidName (cs : List Nat) : Prop := ∀ c ∈ cs, ValidScalar c

theorem nameRecs_length (off : Nat) (ns : List (Nat × List Nat)) : (nameRecs off ns).length = ns.length := by
  induction ns generalizing off with
  | nil => rfl
  | cons n ns ih => obtain ⟨id, nm⟩ := n; simp [nameRecs, ih]

theorem unloadedRecs_length (off : Nat) (us : List MUnloaded) : (unloadedRecs off us).length = us.length := by
  induction us generalizing off with
  | nil => rfl
  | cons u us ih => simp [unloadedRecs, ih]

/-! ## thread names -/

theorem nameRecs_fits {all : List UInt8} (hall : all.length < 2 ^ 32) (e : Endian) :
    ∀ (ns : List (Nat × List Nat)) (off : Nat), (∀ n ∈ ns, n.1 < 2 ^ 32) → Has all off (oobNames e (ns.map (·.2))) →
      ∀ r ∈ nameRecs off ns, Fits MINIDUMP_THREAD_NAME r := by
  intro ns
  induction ns with
  | nil => intro off _ _ r hr; simp [nameRecs] at hr
  | cons n ns ih =>
    intro off hf h r hr
    obtain ⟨id, nm⟩ := n
    simp only [nameRecs, List.mem_cons] at hr
    simp only [List.map_cons, oobNames] at h
    have hle := h.length_le
    simp only [List.length_append, encString_length] at hle
    cases hr with
    | inl h0 =>
      subst h0
      have h1 : id < 2 ^ 32 := hf (id, nm) (by simp)
      simp only [MINIDUMP_THREAD_NAME, Fits, pow_256_4, pow_256_8]
      refine ⟨h1, ?_, trivial⟩; omega
    | inr h1 =>
      have h2 := h.right
      rw [encString_length] at h2
      exact ih _ (fun n' hn' => hf n' (by simp [hn'])) h2 r h1

theorem readNames_enc {all : Bytes} (hall : all.size < 2 ^ 32) (e : Endian) :
    ∀ (ns : List (Nat × List Nat)) (off : Nat) (acc : List (Nat × List Nat)), (∀ n ∈ ns, ValidName n.2) →
      Has all.toList off (oobNames e (ns.map (·.2))) →
      (readNames all e (nameRecs off ns) acc).res = .ok (ns.foldl (fun a p => mapInsert p.1 p.2 a) acc) := by
  intro ns
  induction ns with
  | nil => intro off acc _ _; rfl
  | cons n ns ih =>
    intro off acc hv h
    obtain ⟨id, nm⟩ := n
    simp only [List.map_cons, oobNames] at h
    have hstr := readStringUtf16_enc (hv (id, nm) (by simp)) h.left hall
    have h2 := h.right
    rw [encString_length] at h2
    simp only [nameRecs, readNames, fld, List.getD_cons_zero, List.getD_cons_succ]
    rw [res_bind_ok hstr]
    simp only [List.foldl_cons]
    exact ih _ _ (fun n' hn' => hv n' (by simp [hn'])) h2

theorem readThreadNames_enc (ms : MemSizes) {s all : Bytes} {e : Endian} {pad : Bool} {off : Nat}
    {ns : List (Nat × List Nat)} (hs : s.toList = encThreadNames e pad off ns)
    (hid : ∀ n ∈ ns, n.1 < 2 ^ 32) (hv : ∀ n ∈ ns, ValidName n.2)
    (hoob : Has all.toList off (oobNames e (ns.map (·.2)))) (hall : all.size < 2 ^ 32) (hsz : s.size < 2 ^ 32) :
    (readThreadNames ms s all e).res = .ok (namesMap ns) := by
  have hlen := congrArg List.length hs
  simp only [Array.length_toList, encThreadNames, List.length_append, encRecords_length, nameRecs_length] at hlen
  have hn : (nameRecs off ns).length < 2 ^ 32 := by
    rw [nameRecs_length]
    have h12 : Layout.size MINIDUMP_THREAD_NAME = 12 := by decide
    rw [h12] at hlen
    omega
  have hrd := readStreamList_enc (l := MINIDUMP_THREAD_NAME) (memSz := ms.rawThreadName) (s := s) (e := e) (pad := pad)
    (recs := nameRecs off ns) (by rw [nameRecs_length]; exact hs)
    (nameRecs_fits (by simpa using hall) e ns off hid hoob) hn hsz
  unfold readThreadNames
  rw [res_bind_ok hrd]
  exact readNames_enc hall e ns off [] hv hoob

/-! ## unloaded modules -/

def UnloadedFits (u : MUnloaded) : Prop :=
  u.base < 2 ^ 64 ∧ u.size < 2 ^ 32 ∧ u.checksum < 2 ^ 32 ∧ u.time < 2 ^ 32 ∧ badImageSize u.base u.size = false ∧
  ValidName u.name

theorem unloadedRecs_fits {all : List UInt8} (hall : all.length < 2 ^ 32) (e : Endian) :
    ∀ (us : List MUnloaded) (off : Nat), (∀ u ∈ us, UnloadedFits u) → Has all off (oobNames e (us.map (·.name))) →
      ∀ r ∈ unloadedRecs off us, Fits MINIDUMP_UNLOADED_MODULE r := by
  intro us
  induction us with
  | nil => intro off _ _ r hr; simp [unloadedRecs] at hr
  | cons u us ih =>
    intro off hf h r hr
    simp only [unloadedRecs, List.mem_cons] at hr
    simp only [List.map_cons, oobNames] at h
    have hle := h.length_le
    simp only [List.length_append, encString_length] at hle
    cases hr with
    | inl h0 =>
      subst h0
      obtain ⟨h1, h2, h3, h4, _, _⟩ := hf u (by simp)
      simp only [MINIDUMP_UNLOADED_MODULE, Fits, pow_256_4, pow_256_8]
      refine ⟨h1, h2, h3, h4, ?_, trivial⟩; omega
    | inr h1 =>
      have h2 := h.right
      rw [encString_length] at h2
      exact ih _ (fun u' hu' => hf u' (by simp [hu'])) h2 r h1

theorem readUnloadedModules_enc {all : Bytes} (hall : all.size < 2 ^ 32) (e : Endian) :
    ∀ (us : List MUnloaded) (off : Nat), (∀ u ∈ us, UnloadedFits u) →
      Has all.toList off (oobNames e (us.map (·.name))) →
      ∃ r, (readUnloadedModules all e (unloadedRecs off us)).res = .ok r ∧ r.map munloadedOf = us := by
  intro us
  induction us with
  | nil => intro off _ _; exact ⟨[], rfl, rfl⟩
  | cons u us ih =>
    intro off hf h
    simp only [List.map_cons, oobNames] at h
    obtain ⟨_, _, _, _, hbad, hname⟩ := hf u (by simp)
    have hstr := readStringUtf16_enc hname h.left hall
    have h2 := h.right
    rw [encString_length] at h2
    obtain ⟨r, hr1, hr2⟩ := ih _ (fun u' hu' => hf u' (by simp [hu'])) h2
    refine ⟨⟨u.base, u.size, u.checksum, u.time, off, u.name⟩ :: r, ?_, ?_⟩
    · simp only [unloadedRecs, readUnloadedModules, fld, List.getD_cons_zero, List.getD_cons_succ, hbad,
        Bool.false_eq_true, if_false]
      rw [res_bind_ok hstr]
      simp only
      rw [res_bind_ok hr1]
      rfl
    · simp only [List.map_cons, hr2]
      cases u
      rfl

theorem readUnloadedModuleList_enc (ms : MemSizes) {s all : Bytes} {e : Endian} {off : Nat} {us : List MUnloaded}
    (hs : s.toList = encUnloadedList e off us) (hf : ∀ u ∈ us, UnloadedFits u)
    (hoob : Has all.toList off (oobNames e (us.map (·.name)))) (hall : all.size < 2 ^ 32) (hsz : s.size < 2 ^ 32) :
    ∃ r, (readUnloadedModuleList ms s all e).res = .ok r ∧ r.map munloadedOf = us := by
  have hlen := congrArg List.length hs
  have h24 : Layout.size MINIDUMP_UNLOADED_MODULE = 24 := by decide
  simp only [Array.length_toList, encUnloadedList, List.length_append, encRecords_length, unloadedRecs_length,
    exListHeader, encNat_length, h24] at hlen
  have hn : (unloadedRecs off us).length < 2 ^ 32 := by rw [unloadedRecs_length]; omega
  have hrd := readExStreamList_enc (l := MINIDUMP_UNLOADED_MODULE) (memSz := ms.rawUnloaded) (s := s) (e := e)
    (recs := unloadedRecs off us) (by rw [unloadedRecs_length]; exact hs)
    (unloadedRecs_fits (by simpa using hall) e us off hf hoob) hn (by decide) hsz
  obtain ⟨r, hr1, hr2⟩ := readUnloadedModules_enc hall e us off hf hoob
  refine ⟨r, ?_, hr2⟩
  unfold readUnloadedModuleList
  rw [res_bind_ok hrd, res_bind_ok (res_alloc _ _ _)]
  exact hr1

end MdModel.Encode
