/-
  Helper lemmas for C05 (and the walk bound of C03): what one `get_caller_frame` guarantees about
  the frame it returns (`Link`), for every architecture and whatever the CFI oracle, the symbol
  test and the ptr-auth mask are. Property theorems are in `MdProofs/C05.lean`.
-/
import MdModel.Walk
namespace MdModel.Walk
open MdModel

/-! ### constants (regenerated from the Rust sources: a changed cut-off or adjustment breaks these) -/

theorem nullish_eq (a : Arch) : a.nullish = 4096 := by cases a <;> rfl

/-- the obligation `NULLISH ≥ adj`: `ip - adj` cannot underflow past the cut-off -/
theorem adj_le_nullish (a : Arch) : a.adj ≤ a.nullish := by cases a <;> decide

theorem adj_eff (a : Arch) (c : Ctx) : (effArch a c).adj = a.adj := by
  cases a <;> simp [effArch, Arch.isMips] <;> split <;> rfl

theorem leafOk_eff (a : Arch) (c : Ctx) : (effArch a c).leafOk = a.leafOk := by
  cases a <;> simp [effArch, Arch.isMips] <;> split <;> rfl

theorem ptr_pos (a : Arch) : 0 < a.ptr := by cases a <;> decide

/-! ### stack words, in either byte order, fit their width -/

theorem Mem.byte_lt (m : Mem) (i : Nat) : m.byte i < 256 := by
  unfold Mem.byte; exact UInt8.toNat_lt _

theorem Mem.leAt_lt (m : Mem) (off w : Nat) : m.leAt off w < 256 ^ w := by
  induction w generalizing off with
  | zero => simp [Mem.leAt]
  | succ w ih =>
    have hb := m.byte_lt off
    have := ih (off + 1)
    simp only [Mem.leAt, Nat.pow_succ]
    omega

theorem Mem.beAt_lt (m : Mem) (off w : Nat) : m.beAt off w < 256 ^ w := by
  induction w generalizing off with
  | zero => simp [Mem.beAt]
  | succ w ih =>
    have hb := m.byte_lt off
    have := ih (off + 1)
    have hmul : m.byte off * 256 ^ w ≤ 255 * 256 ^ w := Nat.mul_le_mul_right _ (by omega)
    simp only [Mem.beAt, Nat.pow_succ]
    omega

theorem Mem.wordAt_lt (m : Mem) (off w : Nat) : m.wordAt off w < 256 ^ w := by
  unfold Mem.wordAt
  split
  · exact m.beAt_lt off w
  · exact m.leAt_lt off w

/-- a little-endian memory (the default) reads little-endian words -/
theorem Mem.wordAt_le (m : Mem) (off w : Nat) (h : m.be = false) : m.wordAt off w = m.leAt off w := by
  simp [Mem.wordAt, h]

/-! ### the scan loop -/

theorem scanFrom_spec {ok : Nat → Bool} {mem : Mem} {ptr lim sp : Nat} :
    ∀ {n i j a ip}, scanFrom ok mem ptr lim sp n i = some (j, a, ip) →
      mem.read a ptr = some ip ∧ a = sp + j * ptr ∧ ok ip = true ∧ a ≤ lim ∧ i ≤ j ∧ j < i + n := by
  intro n
  induction n with
  | zero => intro i j a ip h; simp [scanFrom] at h
  | succ n ih =>
    intro i j a ip h
    unfold scanFrom at h
    simp only at h
    split at h
    · cases h
    · split at h
      · cases h
      · rename_i v hv
        split at h
        · rename_i hok
          cases h
          refine ⟨hv, rfl, hok, by omega, Nat.le_refl _, by omega⟩
        · obtain ⟨h1, h2, h3, h4, h5, h6⟩ := ih h
          exact ⟨h1, h2, h3, h4, by omega, by omega⟩

/-- what every scan result guarantees: its return address is the `p`-byte word stored just below
    its stack pointer, and that word was read from the stack memory -/
def ScanOK (mem : Mem) (p : Nat) (c : Ctx) : Prop :=
  p ≤ c.sp ∧ mem.read (c.sp - p) p = some c.ip

theorem scanX86_ok {env : Env} {mem : Mem} {c c' : Ctx} {t : Trust}
    (h : scanX86 env mem c t = some c') : ScanOK mem 4 c' := by
  unfold scanX86 at h
  split at h
  · cases h
  · simp only at h
    split at h
    · cases h
    · rename_i i a ip hs
      split at h
      · cases h
      · split at h
        · cases h
        · cases h
          obtain ⟨hr, _⟩ := scanFrom_spec hs
          exact ⟨by simp, by simpa using hr⟩

theorem scanAmd64_ok {env : Env} {mem : Mem} {c c' : Ctx} {t : Trust}
    (h : scanAmd64 env mem c t = some c') : ScanOK mem 8 c' := by
  unfold scanAmd64 at h
  split at h
  · cases h
  · simp only at h
    split at h
    · cases h
    · rename_i i a ip hs
      split at h
      · cases h
      · split at h
        · cases h
        · cases h
          obtain ⟨hr, _⟩ := scanFrom_spec hs
          exact ⟨by simp, by simpa using hr⟩

theorem scanArm_ok {env : Env} {mem : Mem} {c c' : Ctx} {t : Trust}
    (h : scanArm env mem c t = some c') : ScanOK mem 4 c' := by
  unfold scanArm at h
  split at h
  · cases h
  · split at h
    · cases h
    · rename_i i a ip hs
      split at h
      · cases h
      · cases h
        obtain ⟨hr, _⟩ := scanFrom_spec hs
        exact ⟨by simp, by simpa using hr⟩

theorem scanArm64_ok {env : Env} {a : Arch} {mem : Mem} {c c' : Ctx} {t : Trust}
    (h : scanArm64 env a mem c t = some c') : ScanOK mem 8 c' := by
  unfold scanArm64 at h
  split at h
  · cases h
  · split at h
    · cases h
    · rename_i i ad ip hs
      split at h
      · cases h
      · cases h
        obtain ⟨hr, _⟩ := scanFrom_spec hs
        exact ⟨by simp, by simpa using hr⟩

theorem scanMips32_ok {env : Env} {mem : Mem} {c c' : Ctx} {t : Trust}
    (h : scanMips32 env mem c t = some c') : ScanOK mem 4 c' := by
  unfold scanMips32 at h
  split at h
  · cases h
  · simp only at h
    split at h
    · cases h
    · split at h
      · cases h
      · rename_i i a ip hs
        split at h
        · cases h
        · cases h
          obtain ⟨hr, _⟩ := scanFrom_spec hs
          exact ⟨by simp, by simpa using hr⟩

theorem scanMips64_ok {env : Env} {mem : Mem} {c c' : Ctx}
    (h : scanMips64 env mem c = some c') : ScanOK mem 8 c' := by
  unfold scanMips64 at h
  split at h
  · cases h
  · split at h
    · cases h
    · rename_i i a ip hs
      split at h
      · cases h
      · cases h
        obtain ⟨hr, _⟩ := scanFrom_spec hs
        exact ⟨by simp, by simpa using hr⟩

theorem byScan_ok {env : Env} {a : Arch} {mem : Mem} {c c' : Ctx} {t : Trust}
    (h : byScan env a mem c t = some c') : ScanOK mem a.ptr c' := by
  cases a <;> simp only [byScan] at h
  · exact scanX86_ok h
  · exact scanAmd64_ok h
  · exact scanArm_ok h
  · exact scanArm64_ok h
  · exact scanArm64_ok h
  · exact scanMips32_ok h
  · exact scanMips64_ok h

/-! ### technique dispatch and epilogue -/

theorem candidate_spec {env : Env} {a : Arch} {mem : Mem} {callee : Frame} {grand : Option Frame}
    {c : Ctx} {t : Trust} (h : candidate env a mem callee grand = some (c, t)) :
    (t = .cfi ∨ t = .fp ∨ t = .scan) ∧ (t = .scan → ScanOK mem a.ptr c) := by
  unfold candidate at h
  split at h
  · cases h; exact ⟨Or.inl rfl, fun h => by cases h⟩
  · split at h
    · cases h; exact ⟨Or.inr (Or.inl rfl), fun h => by cases h⟩
    · split at h
      · rename_i c' hs
        cases h
        exact ⟨Or.inr (Or.inr rfl), fun _ => byScan_ok hs⟩
      · cases h

theorem epilogue_spec {a : Arch} {callee f : Frame} {c : Ctx} {t : Trust}
    (h : epilogue a callee c t = some f) :
    f.ctx = c ∧ f.trust = t ∧ f.instruction = c.ip - a.adj ∧ 4096 ≤ c.ip ∧
    (callee.ctx.sp < c.sp ∨ (a.leafOk = true ∧ callee.trust = .context ∧ c.sp = callee.ctx.sp)) := by
  unfold epilogue at h
  split at h
  · cases h
  · rename_i hip
    split at h
    · cases h
    · rename_i hsp
      cases h
      refine ⟨rfl, rfl, rfl, ?_, ?_⟩
      · rw [nullish_eq] at hip; omega
      · by_cases hlt : callee.ctx.sp < c.sp
        · exact Or.inl hlt
        · right
          have hle : c.sp ≤ callee.ctx.sp := by omega
          have : ¬ ((!(a.leafOk && callee.trust == Trust.context && c.sp == callee.ctx.sp)) = true) := fun hh => hsp ⟨hle, hh⟩
          simp only [Bool.not_eq_true', Bool.not_eq_false, Bool.and_eq_true, beq_iff_eq] at this
          exact ⟨this.1.1, this.1.2, this.2⟩

/-- what `get_caller_frame` guarantees about the caller `f` it returns for `callee` -/
structure Link (arch : Arch) (mem : Mem) (callee f : Frame) : Prop where
  trust : f.trust = .cfi ∨ f.trust = .fp ∨ f.trust = .scan
  ip : 4096 ≤ f.ctx.ip
  instr : f.instruction = f.ctx.ip - arch.adj
  sp : callee.ctx.sp < f.ctx.sp ∨
       (arch.leafOk = true ∧ callee.trust = .context ∧ f.ctx.sp = callee.ctx.sp)
  scan : f.trust = .scan → ScanOK mem (effArch arch callee.ctx).ptr f.ctx

theorem step_link {env : Env} {mem : Mem} {callee f : Frame} {grand : Option Frame}
    (h : step env mem callee grand = some f) : Link env.arch mem callee f := by
  unfold step at h
  simp only at h
  split at h
  · cases h
  · rename_i c t hc
    obtain ⟨h1, h2, h3, h4, h5⟩ := epilogue_spec h
    obtain ⟨ht, hs⟩ := candidate_spec hc
    rw [adj_eff] at h3
    rw [leafOk_eff] at h5
    exact ⟨by rw [h2]; exact ht, by rw [h1]; exact h4, by rw [h1]; exact h3, by rw [h1]; exact h5,
      fun hsc => by rw [h1]; exact hs (by rw [← h2]; exact hsc)⟩

/-! ### symbolisation touches neither the context, the trust nor the lookup address -/

@[simp] theorem symbolise_ctx (env : Env) (f : Frame) : (symbolise env f).ctx = f.ctx := rfl
@[simp] theorem symbolise_trust (env : Env) (f : Frame) : (symbolise env f).trust = f.trust := rfl
@[simp] theorem symbolise_instruction (env : Env) (f : Frame) : (symbolise env f).instruction = f.instruction := rfl

theorem Link.symbolise {arch : Arch} {mem : Mem} {p f : Frame} (env : Env) (h : Link arch mem p f) :
    Link arch mem p (symbolise env f) :=
  ⟨h.trust, h.ip, h.instr, h.sp, h.scan⟩

/-! ### the walk loop: consecutive frames are linked -/

/-- every frame of the list is the caller `get_caller_frame` returned for the one before it -/
def Chain (arch : Arch) (mem : Mem) : Frame → List Frame → Prop
  | _, [] => True
  | p, f :: rest => Link arch mem p f ∧ Chain arch mem f rest

theorem walkLoop_chain {env : Env} {mem : Mem} :
    ∀ (n : Nat) (f : Frame) (g : Option Frame),
      ∃ rest, walkLoop env mem n f g = symbolise env f :: rest ∧
        Chain env.arch mem (symbolise env f) rest := by
  intro n
  induction n with
  | zero => intro f g; exact ⟨[], rfl, trivial⟩
  | succ n ih =>
    intro f g
    simp only [walkLoop]
    split
    · exact ⟨[], rfl, trivial⟩
    · split
      · exact ⟨[], rfl, trivial⟩
      · rename_i f' hstep
        obtain ⟨rest', hr, hc⟩ := ih f' (some (symbolise env f))
        refine ⟨_, rfl, ?_⟩
        rw [hr]
        exact ⟨(step_link hstep).symbolise env, hc⟩

/-! ### the walk bound: strictly increasing stack pointers inside the stack memory -/

theorem inRange_spec {m : Mem} {sp : Nat} (h : m.inRange sp = true) :
    m.base ≤ sp ∧ sp < m.base + m.size := by
  unfold Mem.inRange Mem.range? at h
  split at h
  · cases h
  · rename_i lo hi hr
    split at hr
    · cases hr
    · split at hr
      · cases hr
      · cases hr
        simp only [Bool.and_eq_true, decide_eq_true_eq] at h
        omega

/-- an upper bound on the number of frames `walkLoop` still produces from frame `f` on -/
def need (m : Mem) (f : Frame) : Nat :=
  if m.inRange f.ctx.sp then
    (m.base + m.size - f.ctx.sp) + (if f.trust = .context then 1 else 0) + 1
  else 1

theorem need_pos (m : Mem) (f : Frame) : 1 ≤ need m f := by
  unfold need; split <;> omega

@[simp] theorem need_symbolise (env : Env) (m : Mem) (f : Frame) : need m (symbolise env f) = need m f := rfl

theorem need_step {arch : Arch} {m : Mem} {f f' : Frame} (hin : m.inRange f.ctx.sp = true)
    (hl : Link arch m f f') : need m f' + 1 ≤ need m f := by
  have hr := inRange_spec hin
  have ht : f'.trust ≠ .context := by
    rcases hl.trust with h | h | h <;> rw [h] <;> decide
  unfold need
  rw [if_pos hin]
  by_cases hin' : m.inRange f'.ctx.sp = true
  · rw [if_pos hin', if_neg ht]
    have hr' := inRange_spec hin'
    rcases hl.sp with h | ⟨_, h2, h3⟩
    · split <;> omega
    · rw [if_pos h2]; omega
  · rw [if_neg hin']
    split <;> omega

theorem walkLoop_length {env : Env} {mem : Mem} :
    ∀ (n : Nat) (f : Frame) (g : Option Frame), (walkLoop env mem n f g).length ≤ need mem f := by
  intro n
  induction n with
  | zero => intro f g; simpa [walkLoop] using need_pos mem f
  | succ n ih =>
    intro f g
    simp only [walkLoop]
    split
    · simpa using need_pos mem f
    · rename_i hin
      split
      · simpa using need_pos mem f
      · rename_i f' hstep
        have h1 := ih f' (some (symbolise env f))
        have hin' : mem.inRange (symbolise env f).ctx.sp = true := by
          simpa using hin
        have h2 := need_step hin' (step_link hstep)
        simp only [need_symbolise] at h2
        simp only [List.length_cons]
        omega

/-- once the fuel covers `need`, more fuel changes nothing: the loop has stopped by itself -/
theorem walkLoop_fuel {env : Env} {mem : Mem} :
    ∀ (n k : Nat) (f : Frame) (g : Option Frame), need mem f ≤ n → need mem f ≤ k →
      walkLoop env mem n f g = walkLoop env mem k f g := by
  intro n
  induction n with
  | zero => intro k f g h; have := need_pos mem f; omega
  | succ n ih =>
    intro k f g hn hk
    cases k with
    | zero => have := need_pos mem f; omega
    | succ k =>
      simp only [walkLoop]
      split
      · rfl
      · rename_i hin
        split
        · rfl
        · rename_i f' hstep
          have hin' : mem.inRange (symbolise env f).ctx.sp = true := by
            simpa using hin
          have h2 := need_step hin' (step_link hstep)
          simp only [need_symbolise] at h2
          rw [ih k f' _ (by omega) (by omega)]

theorem need_context_le (m : Mem) (c : Ctx) : need m (Frame.ofCtx c .context) ≤ walkFuel m := by
  unfold need walkFuel
  split
  · rename_i hin
    have := inRange_spec hin
    simp only [Frame.ofCtx] at this ⊢
    split <;> omega
  · omega

end MdModel.Walk
