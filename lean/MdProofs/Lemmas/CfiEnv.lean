/-
  C06 inside the stack-walk environment, part 2.

  * consecutive frames of `walk`: the caller is `get_caller_frame` of the callee (`walk_steps`),
    every frame's context satisfies `CtxOk`;
  * `cfiWalk` inside `mkEnv`: module by C08's table, the module's symbol file, its CFI table;
  * what the ARM64 pointer-authentication strip does to the registers (`stripPA_view`);
  * raw values of the stack pointer / instruction pointer after `walk_with_stack_cfi`
    (`raw_fold`): the value set by the register's own rule, else the CFA / return address.
-/
import MdProofs.Lemmas.CfiEnvInv
namespace MdModel.CfiBridge
open MdModel

/-! ## walks: every frame is `get_caller_frame` of the one before it -/

/-- the CFI oracle of an environment keeps `CtxOk` -/
def CfiOk (env : Walk.Env) : Prop :=
  ∀ callee grand r, CtxOk env.arch callee.ctx → env.cfi callee grand = some r → CtxOk env.arch r

theorem mkEnv_cfiOk (arch : Walk.Arch) (os : Walk.Os) (w : Walk.World) (mem : Walk.Mem) :
    CfiOk (Walk.mkEnv arch os w mem) :=
  fun _ grand _ h0 h => cfiOf_ok (arch := arch) (grand := grand) h0 h

theorem candidate_cfi {env : Walk.Env} {a : Walk.Arch} {mem : Walk.Mem} {callee : Walk.Frame}
    {grand : Option Walk.Frame} {c : Walk.Ctx} {t : Walk.Trust}
    (h : Walk.candidate env a mem callee grand = some (c, t)) (ht : t = .cfi) :
    env.cfi callee grand = some c := by
  unfold Walk.candidate at h
  split at h
  · rename_i c' hc; cases h; exact hc
  · split at h
    · cases h; cases ht
    · split at h
      · cases h; cases ht
      · cases h

theorem candidate_of_cfi {env : Walk.Env} {a : Walk.Arch} {mem : Walk.Mem} {callee : Walk.Frame}
    {grand : Option Walk.Frame} {c : Walk.Ctx} (h : env.cfi callee grand = some c) :
    Walk.candidate env a mem callee grand = some (c, .cfi) := by
  unfold Walk.candidate; rw [h]

theorem candidate_ok {env : Walk.Env} {mem : Walk.Mem} {callee : Walk.Frame}
    {grand : Option Walk.Frame} {c : Walk.Ctx} {t : Walk.Trust} (hcfi : CfiOk env)
    (h0 : CtxOk env.arch callee.ctx)
    (h : Walk.candidate env (Walk.effArch env.arch callee.ctx) mem callee grand = some (c, t)) :
    CtxOk env.arch c := by
  unfold Walk.candidate at h
  split at h
  · rename_i c' hc; cases h; exact hcfi _ _ _ h0 hc
  · split at h
    · rename_i c' hc; cases h; exact (byFp_ok h0 hc).of_eff
    · split at h
      · rename_i c' hc; cases h; exact (byScan_ok' h0 hc).of_eff
      · cases h

theorem step_spec {env : Walk.Env} {mem : Walk.Mem} {p f : Walk.Frame} {g : Option Walk.Frame}
    (h : Walk.step env mem p g = some f) :
    ∃ c t, Walk.candidate env (Walk.effArch env.arch p.ctx) mem p g = some (c, t) ∧
      Walk.epilogue (Walk.effArch env.arch p.ctx) p c t = some f := by
  unfold Walk.step at h
  simp only at h
  split at h
  · cases h
  · rename_i c t hc; exact ⟨c, t, hc, h⟩

theorem step_ok {env : Walk.Env} {mem : Walk.Mem} {p f : Walk.Frame} {g : Option Walk.Frame}
    (hcfi : CfiOk env) (h0 : CtxOk env.arch p.ctx) (h : Walk.step env mem p g = some f) :
    CtxOk env.arch f.ctx := by
  obtain ⟨c, t, hc, he⟩ := step_spec h
  rw [(Walk.epilogue_spec he).1]
  exact candidate_ok hcfi h0 hc

/-- a frame found by CFI: the oracle's context went through the epilogue -/
theorem step_cfi {env : Walk.Env} {mem : Walk.Mem} {p f : Walk.Frame} {g : Option Walk.Frame}
    (h : Walk.step env mem p g = some f) (ht : f.trust = .cfi) :
    env.cfi p g = some f.ctx ∧ Walk.epilogue (Walk.effArch env.arch p.ctx) p f.ctx .cfi = some f := by
  obtain ⟨c, t, hc, he⟩ := step_spec h
  obtain ⟨h1, h2, _⟩ := Walk.epilogue_spec he
  rw [h2] at ht
  subst ht
  subst h1
  exact ⟨candidate_cfi hc rfl, he⟩

/-- the frames after `p`: each is the symbolised `get_caller_frame` of its predecessor (for some
    grand-callee frame), whose stack pointer lies in the stack memory; all contexts are `CtxOk` -/
def StepChain (env : Walk.Env) (mem : Walk.Mem) : Walk.Frame → List Walk.Frame → Prop
  | _, [] => True
  | p, f :: rest =>
    (∃ g f', mem.inRange p.ctx.sp = true ∧ Walk.step env mem p g = some f' ∧ f = Walk.symbolise env f') ∧
    CtxOk env.arch f.ctx ∧ StepChain env mem f rest

theorem walkLoop_steps {env : Walk.Env} {mem : Walk.Mem} (hcfi : CfiOk env) :
    ∀ (n : Nat) (f : Walk.Frame) (g : Option Walk.Frame), CtxOk env.arch f.ctx →
      ∃ rest, Walk.walkLoop env mem n f g = Walk.symbolise env f :: rest ∧
        StepChain env mem (Walk.symbolise env f) rest := by
  intro n
  induction n with
  | zero => intro f g _; exact ⟨[], rfl, trivial⟩
  | succ n ih =>
    intro f g h0
    simp only [Walk.walkLoop]
    split
    · exact ⟨[], rfl, trivial⟩
    · rename_i hin
      split
      · exact ⟨[], rfl, trivial⟩
      · rename_i f' hstep
        have hok : CtxOk env.arch f'.ctx := step_ok hcfi (by simpa using h0) hstep
        obtain ⟨rest', hr, hc⟩ := ih f' (some (Walk.symbolise env f)) hok
        refine ⟨_, rfl, ?_⟩
        rw [hr]
        refine ⟨⟨_, f', ?_, hstep, rfl⟩, by simpa using hok, hc⟩
        simpa using hin

theorem stepChain_index {env : Walk.Env} {mem : Walk.Mem} :
    ∀ (rest : List Walk.Frame) (p : Walk.Frame), CtxOk env.arch p.ctx → StepChain env mem p rest →
      ∀ (i : Nat) (h : i + 1 < (p :: rest).length),
        CtxOk env.arch (p :: rest)[i].ctx ∧ CtxOk env.arch (p :: rest)[i + 1].ctx ∧
        ∃ g f', mem.inRange (p :: rest)[i].ctx.sp = true ∧ Walk.step env mem (p :: rest)[i] g = some f' ∧
          (p :: rest)[i + 1] = Walk.symbolise env f' := by
  intro rest
  induction rest with
  | nil => intro p _ _ i h; simp at h
  | cons f t ih =>
    intro p hp hc i h
    obtain ⟨hl, hf, ht⟩ := hc
    cases i with
    | zero => exact ⟨hp, hf, hl⟩
    | succ j =>
      have := ih f hf ht j (by simpa using h)
      simpa using this

/-- consecutive frames of a returned stack: `CtxOk` contexts, the callee's stack pointer inside the
    stack memory the walk uses, the caller = symbolised `get_caller_frame` of the callee -/
def StepsOk (env : Walk.Env) (mem : Option Walk.Mem) (fs : List Walk.Frame) : Prop :=
  ∀ (i : Nat) (h : i + 1 < fs.length),
    CtxOk env.arch fs[i].ctx ∧ CtxOk env.arch fs[i + 1].ctx ∧
    ∃ m g f', mem = some m ∧ m.inRange fs[i].ctx.sp = true ∧
      Walk.step env m fs[i] g = some f' ∧ fs[i + 1] = Walk.symbolise env f'

/-- **every later frame of a walk is `get_caller_frame` of the frame below it** -/
theorem walk_steps (env : Walk.Env) (hcfi : CfiOk env) (mem : Option Walk.Mem) (ctx : Walk.Ctx)
    (hctx : CtxOk env.arch ctx) :
    StepsOk env (mem.bind fun m => m.range?.map fun _ => m) (Walk.walk env mem ctx) := by
  unfold Walk.walk
  simp only
  split
  · intro i h; simp at h
  · rename_i m hm
    obtain ⟨rest, hfs, hc⟩ := walkLoop_steps (mem := m) hcfi (Walk.walkFuel m) (Walk.Frame.ofCtx ctx .context) none hctx
    rw [hfs]
    intro i h
    obtain ⟨h1, h2, g, f', h3, h4, h5⟩ := stepChain_index rest _ (show CtxOk env.arch (Walk.symbolise env (Walk.Frame.ofCtx ctx .context)).ctx from hctx) hc i h
    exact ⟨h1, h2, m, g, f', hm, h3, h4, h5⟩

/-! ## `cfiWalk` in the concrete environment -/

theorem cfiTables_get (w : Walk.World) (i : Nat) :
    (Walk.cfiTables w)[i]? = (w.syms[i]?).map fun s => match s with
      | some sf => Walk.cfiTable sf
      | none => [] := by
  unfold Walk.cfiTables
  rw [List.getElem?_map]
  congr 1

/-- module of the lookup address (C08's table), its symbol file, the file's CFI table -/
theorem cfiWalk_mkEnv (a : Walk.Arch) (w : Walk.World) (mem : Walk.Mem) (callee : Walk.Frame) :
    Walk.cfiWalk a w (Walk.modTable w.mods) (Walk.cfiTables w) mem callee =
      match Walk.moduleAt (Walk.modTable w.mods) callee.instruction with
      | none => none
      | some i =>
        match w.mods[i]?, w.syms[i]? with
        | some m, some (some sf) =>
          Walk.walkFrameCfi sf (Walk.cfiTable sf) m.base ⟨a, callee.ctx, mem⟩
            ⟨callee.ctx, Walk.forwarded a callee.ctx⟩ callee.instruction
        | _, _ => none := by
  unfold Walk.cfiWalk
  cases Walk.moduleAt (Walk.modTable w.mods) callee.instruction with
  | none => rfl
  | some i =>
    simp only [cfiTables_get]
    cases w.mods[i]? with
    | none => rfl
    | some m =>
      cases w.syms[i]? with
      | none => rfl
      | some s =>
        cases s with
        | none => rfl
        | some sf => rfl

/-- an index the CFI table returns is an index of the record list, and the record covers the address -/
theorem cfiTable_index (sf : Walk.SymFile) (a j : Nat) (h : RangeMap.get (Walk.cfiTable sf) a = some j) :
    ∃ rec, sf.cfis[j]? = some rec ∧ (recOf rec).covers a = true := by
  have h' := h
  unfold Walk.cfiTable at h'
  obtain ⟨r, hmem, _, _⟩ := RangeMap.getP_sound _ a j h'
  obtain ⟨q, hq, hqr⟩ := List.mem_filterMap.mp hmem
  obtain ⟨c, k⟩ := q
  simp only [Option.map_eq_some_iff, Prod.mk.injEq] at hqr
  obtain ⟨r', _, _, rfl⟩ := hqr
  have hc : sf.cfis[k]? = some c := by
    have := List.mem_zipIdx_iff_getElem?.mp hq
    simpa using this
  exact ⟨c, hc, covers_of_cfiTable sf a k c h hc⟩

/-! ## the pointer-authentication strip, register by register -/

def isArm64 (a : Walk.Arch) : Bool :=
  match a with
  | .arm64 | .arm64old => true
  | _ => false

/-- what `get_caller_by_cfi`'s last step does to the value of caller register `s` (canonical name):
    on ARM64 `pc`, `lr` and `fp` lose their pointer-authentication bits -/
def paMask (a : Walk.Arch) (mask : Nat) (s : String) (v : Nat) : Nat :=
  if isArm64 a && (s == "pc" || s == "lr" || s == "fp") then v &&& mask else v

/-- `rest` with the value of `m` masked when `m` is valid -/
def maskAt (vs : List String) (m : String) (mask : Nat) (rest : List (String × Nat)) : List (String × Nat) :=
  if vs.contains m then Walk.assocSet rest m (Walk.assocGet rest m &&& mask) else rest

theorem assocGet_maskAt (vs : List String) (m : String) (mask : Nat) (rest : List (String × Nat)) (s : String) :
    Walk.assocGet (maskAt vs m mask rest) s =
      if s = m ∧ vs.contains m = true then Walk.assocGet rest s &&& mask else Walk.assocGet rest s := by
  unfold maskAt
  by_cases hc : vs.contains m = true
  · simp only [hc, if_true, assocGet_assocSet, and_true]
    by_cases hs : s = m
    · subst hs; simp
    · simp [hs]
  · have hc' : m ∉ vs := fun hm => hc (List.contains_iff_mem.mpr hm)
    simp [hc']

theorem strip_step (a : Walk.Arch) (mask : Nat) (c : Walk.Ctx) (vs : List String) (n m : String)
    (hv : c.valid = some vs) (hcan : a.canon n = some m) (hal : a.aliases n = [n, m])
    (hn : vs.contains n = false) (hip : m ≠ a.ipName) (hsp : m ≠ a.spName) :
    (if c.has a n then (c.set a n (c.raw a n &&& mask)).getD c else c) =
      { c with rest := maskAt vs m mask c.rest } := by
  have hhas : c.has a n = vs.contains m := by
    unfold Walk.Ctx.has
    rw [hv]
    simp only [hal, List.any_cons, List.any_nil, hn, Bool.false_or, Bool.or_false]
  rw [hhas]
  unfold Walk.Ctx.set Walk.Ctx.raw maskAt
  simp only [hcan, hip, hsp, if_false, Option.getD_some]
  split <;> rfl

theorem stripPA_view {a : Walk.Arch} {o : Walk.CfiOut} (h : OutOk a o) (mask : Nat) :
    (stripPA a mask { o.ctx with valid := some o.valid }).valid = some o.valid ∧
    (stripPA a mask { o.ctx with valid := some o.valid }).m64 = o.ctx.m64 ∧
    (stripPA a mask { o.ctx with valid := some o.valid }).sp = o.ctx.sp ∧
    (stripPA a mask { o.ctx with valid := some o.valid }).ip = paMask a mask a.ipName o.ctx.ip ∧
    ∀ s, viewW a ⟨stripPA a mask { o.ctx with valid := some o.valid }, o.valid⟩ s =
      (viewW a o s).map (paMask a mask s) := by
  have plain : isArm64 a = false → stripPA a mask { o.ctx with valid := some o.valid } = { o.ctx with valid := some o.valid } := by
    intro hna; cases a <;> first | rfl | exact absurd hna (by decide)
  cases hia : isArm64 a with
  | false =>
    rw [plain hia]
    refine ⟨rfl, rfl, rfl, by simp [paMask, hia], ?_⟩
    intro s
    have : paMask a mask s = id := by funext v; simp [paMask, hia]
    rw [this, Option.map_id]
    rfl
  | true =>
    have hfacts : a.canon "x30" = some "lr" ∧ a.canon "x29" = some "fp" ∧ a.aliases "x30" = ["x30", "lr"] ∧
        a.aliases "x29" = ["x29", "fp"] ∧ a.ipName = "pc" ∧ a.spName = "sp" := by
      cases a <;> first | exact absurd hia (by decide) | (refine ⟨by decide, by decide, by decide, by decide, rfl, rfl⟩)
    obtain ⟨c30, c29, a30, a29, hipn, hspn⟩ := hfacts
    have n30 : o.valid.contains "x30" = false := by
      cases hc : o.valid.contains "x30" with
      | false => rfl
      | true =>
        have := h.names "x30" (List.contains_iff_mem.mp hc)
        rw [c30] at this; exact absurd this (by decide)
    have n29 : o.valid.contains "x29" = false := by
      cases hc : o.valid.contains "x29" with
      | false => rfl
      | true =>
        have := h.names "x29" (List.contains_iff_mem.mp hc)
        rw [c29] at this; exact absurd this (by decide)
    have hstrip0 : stripPA a mask { o.ctx with valid := some o.valid } =
        (fun r : Walk.Ctx => if r.has a "x29" then (r.set a "x29" (r.raw a "x29" &&& mask)).getD r else r)
          ((fun r : Walk.Ctx => if r.has a "x30" then (r.set a "x30" (r.raw a "x30" &&& mask)).getD r else r)
            { o.ctx with valid := some o.valid, ip := o.ctx.ip &&& mask }) := by
      cases a <;> first | exact absurd hia (by decide) | rfl
    have hstrip : stripPA a mask { o.ctx with valid := some o.valid } =
        { o.ctx with valid := some o.valid, ip := o.ctx.ip &&& mask,
                     rest := maskAt o.valid "fp" mask (maskAt o.valid "lr" mask o.ctx.rest) } := by
      rw [hstrip0]
      simp only
      rw [strip_step a mask _ o.valid "x30" "lr" rfl c30 a30 n30 (by rw [hipn]; decide) (by rw [hspn]; decide)]
      rw [strip_step a mask _ o.valid "x29" "fp" rfl c29 a29 n29 (by rw [hipn]; decide) (by rw [hspn]; decide)]
    rw [hstrip]
    have hpc : paMask a mask "pc" = fun v => v &&& mask := by funext v; simp [paMask, hia]
    refine ⟨rfl, rfl, rfl, by rw [hipn, hpc], ?_⟩
    intro s
    unfold viewW rawC
    simp only [hipn, hspn, assocGet_maskAt]
    by_cases hs : o.valid.contains s = true
    · simp only [hs, if_true, Option.map_some, Option.some.injEq]
      by_cases h1 : s = "pc"
      · subst h1; simp [hpc]
      · by_cases h2 : s = "sp"
        · subst h2; simp [paMask]
        · by_cases h3 : s = "fp"
          · subst h3; have hm := List.contains_iff_mem.mp hs; simp [paMask, hia, hm]
          · by_cases h4 : s = "lr"
            · subst h4; have hm := List.contains_iff_mem.mp hs; simp [paMask, hia, hm]
            · simp [h1, h2, h3, h4, paMask]
    · have hs' : s ∉ o.valid := fun hm => hs (List.contains_iff_mem.mpr hm)
      simp [hs']

/-! ## raw values of the stack pointer and the instruction pointer

  Every unwinder reads `sp` and `ip` of the caller context RAW, valid or not (the epilogue's
  tests, the lookup address, the next frame's in-range test). After `walk_with_stack_cfi` they
  hold what the register's own rule set, or — no such rule, or the rule failed — the CFA / the
  return address `set_cfa` / `set_ra` stored there. (On 32-bit ARM `r13`/`sp` and `r15`/`pc` are
  two labels for one register, and the raw value of a register that one rule set and another
  cleared depends on their order; the statement is for registers with a single name.) -/

theorem clearReg_ctx (a : Walk.Arch) (o : Walk.CfiOut) (n : String) : (o.clearReg a n).ctx = o.ctx := by
  unfold Walk.CfiOut.clearReg; split <;> rfl

theorem rawC_setReg (a : Walk.Arch) (o o' : Walk.CfiOut) (n m : String) (v : Nat) (s : String)
    (hm : a.canon n = some m) (h : o.setReg a n v = some o') :
    rawC a o'.ctx s = if s = m then v else rawC a o.ctx s := by
  rw [setReg_spec, hm] at h
  simp only at h
  split at h
  · cases h
  · cases h
    simp only
    unfold rawC
    by_cases hs : s = m
    · subst hs
      by_cases h1 : s = a.ipName
      · subst h1; simp
      · by_cases h2 : s = a.spName
        · subst h2; simp [h1]
        · simp [h1, h2, assocGet_assocSet]
    · simp only [hs, if_false]
      by_cases h1 : m = a.ipName
      · subst h1
        simp [hs]
      · by_cases h2 : m = a.spName
        · subst h2
          simp [h1, hs]
        · simp [h1, h2, assocGet_assocSet, hs]

/-- effect of one loop iteration on the RAW value of register `s` -/
theorem rawC_stepW (x : Walk.CfiIn) (cfa : Nat) (o : Walk.CfiOut) (p : String × List Walk.ETok) (s : String) :
    rawC x.arch (stepW x cfa o p).ctx s =
      if x.arch.canon p.1 = some s then
        match Walk.evalCfi x (some cfa) p.2 [] with
        | some v => if v ≤ x.arch.regMax then v else rawC x.arch o.ctx s
        | none => rawC x.arch o.ctx s
      else rawC x.arch o.ctx s := by
  unfold stepW
  cases he : Walk.evalCfi x (some cfa) p.2 [] with
  | none => simp only [clearReg_ctx, ite_self]
  | some v =>
    simp only
    cases hset : o.setReg x.arch p.1 v with
    | none =>
      simp only [clearReg_ctx]
      rcases (setReg_none_iff _ _ _ _).mp hset with h | h
      · simp [h]
      · have : ¬ v ≤ x.arch.regMax := by omega
        simp [this]
    | some o' =>
      have hne : ¬ (x.arch.canon p.1 = none ∨ v > x.arch.regMax) := fun h => by
        rw [(setReg_none_iff _ _ _ _).mpr h] at hset; cases hset
      cases hm : x.arch.canon p.1 with
      | none => exact absurd (.inl hm) hne
      | some m =>
        have hv : v ≤ x.arch.regMax := by
          have : ¬ v > x.arch.regMax := fun h => hne (.inr h)
          omega
        rw [rawC_setReg _ _ _ _ _ _ _ hm hset]
        by_cases hs : s = m
        · subst hs; simp [hv]
        · have : ¬ m = s := fun e => hs e.symm
          simp [hs, this]

theorem fold_nohit (x : Walk.CfiIn) (cfa : Nat) (s : String) (l : List (String × List Walk.ETok))
    (hno : ∀ p ∈ l, x.arch.canon p.1 ≠ some s) :
    ∀ o : Walk.CfiOut, viewW x.arch (l.foldl (stepW x cfa) o) s = viewW x.arch o s ∧
      rawC x.arch (l.foldl (stepW x cfa) o).ctx s = rawC x.arch o.ctx s := by
  induction l with
  | nil => intro o; exact ⟨rfl, rfl⟩
  | cons p t ih =>
    intro o
    have hp := hno p List.mem_cons_self
    obtain ⟨h1, h2⟩ := ih (fun q hq => hno q (List.mem_cons_of_mem _ hq)) (stepW x cfa o p)
    simp only [List.foldl_cons]
    rw [h1, h2, viewW_stepW, rawC_stepW]
    simp [hp]

/-- **raw value after the loop**: for a register with a single name and distinct rule labels,
    starting from a state in which it is valid — its own rule's value if that was set, else what
    it held before -/
theorem raw_fold (x : Walk.CfiIn) (cfa : Nat) (s : String) (hinj : ∀ n, x.arch.canon n = some s → n = s)
    (l : List (String × List Walk.ETok)) (hnd : (l.map (·.1)).Nodup) :
    ∀ o : Walk.CfiOut, viewW x.arch o s = some (rawC x.arch o.ctx s) →
      rawC x.arch (l.foldl (stepW x cfa) o).ctx s =
        (viewW x.arch (l.foldl (stepW x cfa) o) s).getD (rawC x.arch o.ctx s) := by
  induction l with
  | nil => intro o h; simp [h]
  | cons p t ih =>
    intro o h
    simp only [List.map_cons, List.nodup_cons] at hnd
    simp only [List.foldl_cons]
    by_cases hp : x.arch.canon p.1 = some s
    · have hps : p.1 = s := hinj _ hp
      have hno : ∀ q ∈ t, x.arch.canon q.1 ≠ some s := by
        intro q hq hq'
        apply hnd.1
        rw [hps, ← hinj _ hq']
        exact List.mem_map.mpr ⟨q, hq, rfl⟩
      obtain ⟨h1, h2⟩ := fold_nohit x cfa s t hno (stepW x cfa o p)
      rw [h1, h2, viewW_stepW, rawC_stepW]
      simp only [hp, if_true]
      cases Walk.evalCfi x (some cfa) p.2 [] with
      | none => rfl
      | some v =>
        simp only
        by_cases hv : v ≤ x.arch.regMax <;> simp [hv]
    · have hv1 : viewW x.arch (stepW x cfa o p) s = viewW x.arch o s := by rw [viewW_stepW]; simp [hp]
      have hr1 : rawC x.arch (stepW x cfa o p).ctx s = rawC x.arch o.ctx s := by rw [rawC_stepW]; simp [hp]
      have := ih hnd.2 (stepW x cfa o p) (by rw [hv1, hr1]; exact h)
      rw [this, hr1]

/-- the stack pointer and the instruction pointer have exactly one name, except on 32-bit ARM -/
theorem canon_sp_ip (a : Walk.Arch) (ha : a ≠ .arm) (s : String) (hs : s = a.spName ∨ s = a.ipName) :
    ∀ n, a.canon n = some s → n = s := by
  intro n h
  cases a with
  | arm => exact absurd rfl ha
  | x86 => simp only [Walk.Arch.canon] at h; exact (plain_canon _ n s h).1
  | amd64 => simp only [Walk.Arch.canon] at h; exact (plain_canon _ n s h).1
  | mips32 => simp only [Walk.Arch.canon] at h; exact (plain_canon _ n s h).1
  | mips64 => simp only [Walk.Arch.canon] at h; exact (plain_canon _ n s h).1
  | arm64 =>
    simp only [Walk.Arch.canon] at h
    by_cases h1 : n = "x29"
    · subst h1; simp only [if_true, Option.some.injEq] at h
      rcases hs with hs | hs <;> rw [hs] at h <;> exact absurd h (by decide)
    by_cases h2 : n = "x30"
    · subst h2; simp only [h1, if_true, if_false, Option.some.injEq] at h
      rcases hs with hs | hs <;> rw [hs] at h <;> exact absurd h (by decide)
    simp only [h1, h2, if_false] at h
    exact (plain_canon _ n s h).1
  | arm64old =>
    simp only [Walk.Arch.canon] at h
    by_cases h1 : n = "x29"
    · subst h1; simp only [if_true, Option.some.injEq] at h
      rcases hs with hs | hs <;> rw [hs] at h <;> exact absurd h (by decide)
    by_cases h2 : n = "x30"
    · subst h2; simp only [h1, if_true, if_false, Option.some.injEq] at h
      rcases hs with hs | hs <;> rw [hs] at h <;> exact absurd h (by decide)
    simp only [h1, h2, if_false] at h
    exact (plain_canon _ n s h).1

theorem otherRules_names_nodup {rs : List (Walk.CfiReg × List Walk.ETok)} (h : (rs.map (·.1)).Nodup) :
    ((Walk.otherRules rs).map (·.1)).Nodup := by
  induction rs with
  | nil => exact List.nodup_nil
  | cons p t ih =>
    obtain ⟨k, e⟩ := p
    simp only [List.map_cons, List.nodup_cons] at h
    cases k with
    | cfa => simpa [Walk.otherRules] using ih h.2
    | ra => simpa [Walk.otherRules] using ih h.2
    | other n =>
      have ht := ih h.2
      simp only [Walk.otherRules, List.filterMap_cons, List.map_cons, List.nodup_cons] at ht ⊢
      refine ⟨?_, ht⟩
      intro hm
      apply h.1
      obtain ⟨q, hq, hqn⟩ := List.mem_map.mp hm
      obtain ⟨p', hp', hpq⟩ := List.mem_filterMap.mp hq
      obtain ⟨k', e'⟩ := p'
      cases k' <;> simp at hpq
      subst hpq
      simp only at hqn
      subst hqn
      exact List.mem_map.mpr ⟨_, hp', rfl⟩

/-- raw `sp` / `ip` of the walker model's `walk_with_stack_cfi` result -/
theorem walkCfi_raw (x : Walk.CfiIn) (W : Cfi.Walker) (h : WalkerSim x W) (o0 o : Walk.CfiOut)
    (init : String) (adds : List String) (hw : Walk.walkCfi x o0 init adds = some o)
    (s : String) (hs : s = x.arch.spName ∨ s = x.arch.ipName) (hinj : ∀ n, x.arch.canon n = some s → n = s) :
    ∃ c cfa ra, Cfi.walkCfi W ((init :: adds).map utf8) = some c ∧ c.cfa = some cfa ∧ c.ra = some ra ∧
      rawC x.arch o.ctx s =
        (viewW x.arch o s).getD (if s = x.arch.ipName then ra.toNat else cfa.toNat) := by
  rcases walkCfi_core x W h o0 init adds with ⟨_, hn⟩ | ⟨m, cfaE, raE, cfa, ra, rs, hm, hcfaE, hraE, he1, he2, hf1, hf2, hrel, hw'⟩
  · rw [hn] at hw; cases hw
  · rw [hw'] at hw
    simp only [Option.some.injEq] at hw
    subst hw
    have hC : Cfi.walkCfi W ((init :: adds).map utf8) = some _ :=
      (Cfi.walkCfi_some_iff W _ _).mpr ⟨m, cfaE, raE, cfa, ra, hm, hcfaE, hraE, he1, he2, hf1, hf2, rfl⟩
    refine ⟨_, cfa, ra, hC, (Cfi.foldl_applyOther_cfa_ra W cfa _ _).1, (Cfi.foldl_applyOther_cfa_ra W cfa _ _).2, ?_⟩
    have hnd : ((((Walk.otherRules rs).mergeSort fun p q => Walk.strLe p.1 q.1)).map (·.1)).Nodup :=
      ((List.mergeSort_perm _ _).map _).nodup_iff.mpr (otherRules_names_nodup hrel.nodup)
    have h0v := viewW_afterCfaRa x.arch o0 cfa.toNat ra.toNat s
    have h0r : rawC x.arch (afterCfaRa x.arch o0 cfa.toNat ra.toNat).ctx s =
        if s = x.arch.ipName then ra.toNat else cfa.toNat := by
      unfold rawC afterCfaRa
      by_cases h1 : s = x.arch.ipName
      · simp [h1]
      · rcases hs with hs | hs
        · subst hs; simp [h1]
        · exact absurd hs h1
    have h0 : viewW x.arch (afterCfaRa x.arch o0 cfa.toNat ra.toNat) s =
        some (rawC x.arch (afterCfaRa x.arch o0 cfa.toNat ra.toNat).ctx s) := by
      rw [h0v, h0r]
      by_cases h1 : s = x.arch.ipName
      · simp [h1]
      · rcases hs with hs | hs
        · subst hs; simp [h1]
        · exact absurd hs h1
    rw [raw_fold x cfa.toNat s hinj _ hnd _ h0, h0r]

/-! ## the C06 `Walker` of a callee frame, and `walk_frame` on it -/

/-- the C06 model's `Walker` for callee frame `callee` unwound as architecture `a` over stack
    memory `mem`: `walkerOf` (register names, alias table, valid callee registers, memory image,
    pointer width) with the callee-saved registers forwarded as `callee_forwarded_regs` does -/
def c06Walker (a : Walk.Arch) (mem : Walk.Mem) (callee : Walk.Frame) : Cfi.Walker :=
  walkerOf ⟨a, callee.ctx, mem⟩ callee.instruction (fwdOf a ⟨callee.ctx, Walk.forwarded a callee.ctx⟩)

theorem c06Walker_related {a0 : Walk.Arch} (mem : Walk.Mem) (callee : Walk.Frame) (hok : CtxOk a0 callee.ctx) :
    WalkerSim ⟨Walk.effArch a0 callee.ctx, callee.ctx, mem⟩ (c06Walker (Walk.effArch a0 callee.ctx) mem callee) ∧
    ∀ s, OutSimAt (Walk.effArch a0 callee.ctx) ⟨callee.ctx, Walk.forwarded (Walk.effArch a0 callee.ctx) callee.ctx⟩
      (c06Walker (Walk.effArch a0 callee.ctx) mem callee).caller0 s := by
  constructor
  · exact walkerOf_sim _ _ _ (hok.eff callee.ctx).valid ((hok.eff callee.ctx).reg64 mem)
  · intro s
    exact fwdOf_sim _ _ s (fun _ => rawC_lt hok.ip hok.sp hok.rest s)

/-- **`walk_frame` of the walker model = C06's `walkFrame`, register by register** — with the
    initial states related at EVERY register: the whole validity set and every valid value agree,
    and the raw stack pointer / instruction pointer (single-named) are the rule's value or the
    CFA / return address -/
theorem walkFrameCfi_follows (sf : Walk.SymFile) (modBase : Nat) (x : Walk.CfiIn) (o0 : Walk.CfiOut)
    (W : Cfi.Walker) (h : WalkerSim x W) (hall : ∀ s, OutSimAt x.arch o0 W.caller0 s)
    (i : Nat) (rec : Walk.CfiRec) (hge : ¬ W.instr < modBase)
    (hget : RangeMap.get (Walk.cfiTable sf) (W.instr - modBase) = some i) (hrec : sf.cfis[i]? = some rec) :
    match Cfi.walkFrame (recOf rec) modBase W with
    | none => Walk.walkFrameCfi sf (Walk.cfiTable sf) modBase x o0 W.instr = none
    | some c =>
      ∃ cfa ra o c', c.cfa = some cfa ∧ c.ra = some ra ∧
        Walk.walkFrameCfi sf (Walk.cfiTable sf) modBase x o0 W.instr = some o ∧
        Cfi.walkFrame (recOf rec) modBase (seeded x.arch W cfa ra) = some c' ∧
        (∀ s, viewW x.arch o s = (c'.get (utf8 s)).map UInt64.toNat) ∧
        (∀ s, (s = x.arch.spName ∨ s = x.arch.ipName) → (∀ n, x.arch.canon n = some s → n = s) →
          rawC x.arch o.ctx s =
            ((c'.get (utf8 s)).map UInt64.toNat).getD (if s = x.arch.ipName then ra.toNat else cfa.toNat)) := by
  have hb := (walkFrame_bridge sf modBase x o0 W h).2.2 i rec hge hget hrec
  cases hc : Cfi.walkFrame (recOf rec) modBase W with
  | none => rw [hc] at hb; exact hb
  | some c =>
    rw [hc] at hb
    obtain ⟨cfa, ra, o, c', h1, h2, h3, h4, _, _, h7⟩ := hb
    have hsim : ∀ s, viewW x.arch o s = (c'.get (utf8 s)).map UInt64.toNat := fun s =>
      (h7 s (.inr (.inr (hall s)))).symm
    refine ⟨cfa, ra, o, c', h1, h2, h3, h4, hsim, ?_⟩
    intro s hs hinj
    obtain ⟨hw, hcw⟩ := walkFrame_reduce sf modBase x o0 W i rec hge hget hrec
    rw [hw] at h3
    obtain ⟨c2, cfa2, ra2, hc2, hcfa2, hra2, hraw⟩ := walkCfi_raw x W h o0 o _ _ h3 s hs hinj
    rw [hcw, hc2] at hc
    cases hc
    rw [h1] at hcfa2; rw [h2] at hra2
    cases hcfa2; cases hra2
    rw [hraw, hsim s]

/-! ## `Env.cfi` of `mkEnv` on a callee frame -/

theorem sp_ne_ip (a : Walk.Arch) : a.spName ≠ a.ipName := by cases a <;> decide

theorem rawC_sp (a : Walk.Arch) (c : Walk.Ctx) : rawC a c a.spName = c.sp := by
  unfold rawC; simp [sp_ne_ip a]

theorem rawC_ip (a : Walk.Arch) (c : Walk.Ctx) : rawC a c a.ipName = c.ip := by
  unfold rawC; simp

theorem stepW_m64 (x : Walk.CfiIn) (cfa : Nat) (o : Walk.CfiOut) (p : String × List Walk.ETok) :
    (stepW x cfa o p).ctx.m64 = o.ctx.m64 := by
  unfold stepW
  split
  · split
    · rename_i o' hs
      rw [setReg_spec] at hs
      split at hs
      · cases hs
      · simp only at hs
        split at hs
        · cases hs
        · cases hs
          simp only
          split
          · rfl
          · split <;> rfl
    · rw [clearReg_ctx]
  · rw [clearReg_ctx]

theorem fold_m64 (x : Walk.CfiIn) (cfa : Nat) (l : List (String × List Walk.ETok)) :
    ∀ o : Walk.CfiOut, (l.foldl (stepW x cfa) o).ctx.m64 = o.ctx.m64 := by
  induction l with
  | nil => intro o; rfl
  | cons p t ih => intro o; simp only [List.foldl_cons]; rw [ih, stepW_m64]

theorem walkFrameCfi_m64 {sf : Walk.SymFile} {ct : List RangeMap.Entry} {base : Nat} {x : Walk.CfiIn}
    {o0 o : Walk.CfiOut} {instr : Nat} (h : Walk.walkFrameCfi sf ct base x o0 instr = some o) :
    o.ctx.m64 = o0.ctx.m64 := by
  unfold Walk.walkFrameCfi at h
  split at h
  · cases h
  · simp only at h
    split at h
    · cases h
    · split at h
      · cases h
      · obtain ⟨cfa, ra, l, _, _, rfl⟩ := walkCfi_shape h
        rw [fold_m64]; rfl

/-- `spValid` is the validity of the stack pointer under the architecture's own name for it -/
theorem spValid_eq (a : Walk.Arch) (c : Walk.Ctx) : spValid a c = c.has a a.spName := by
  cases a <;> simp only [spValid, Walk.Ctx.has, Walk.Ctx.hasLit, Walk.Arch.spName] <;>
    cases c.valid <;> simp [Walk.Arch.aliases, Walk.Arch.canon, Walk.Arch.registers]

/-- with a valid stack pointer, a module at the lookup address and a symbol file for it, `Env.cfi` is
    the symbol file's `walk_frame` followed by the validity set and the pointer-authentication strip -/
theorem cfi_reduce (arch : Walk.Arch) (os : Walk.Os) (w : Walk.World) (mem : Walk.Mem)
    (callee : Walk.Frame) (grand : Option Walk.Frame) (k : Nat) (m : Walk.Module) (sf : Walk.SymFile)
    (hsp : spValid (Walk.effArch arch callee.ctx) callee.ctx = true)
    (hmod : Walk.moduleAt (Walk.modTable w.mods) callee.instruction = some k)
    (hm : w.mods[k]? = some m) (hsf : w.syms[k]? = some (some sf)) :
    (Walk.mkEnv arch os w mem).cfi callee grand =
      (Walk.walkFrameCfi sf (Walk.cfiTable sf) m.base ⟨Walk.effArch arch callee.ctx, callee.ctx, mem⟩
        ⟨callee.ctx, Walk.forwarded (Walk.effArch arch callee.ctx) callee.ctx⟩ callee.instruction).map fun o =>
          stripPA (Walk.effArch arch callee.ctx) (Walk.mkEnv arch os w mem).mask { o.ctx with valid := some o.valid } := by
  show Walk.cfiOf arch w (Walk.modTable w.mods) (Walk.cfiTables w) _ mem callee grand = _
  rw [cfiOf_eq, cfiWalk_mkEnv, hmod]
  simp only [hsp, Bool.not_true, Bool.false_eq_true, if_false, hm, hsf]
  rfl

theorem cfi_none_of (arch : Walk.Arch) (os : Walk.Os) (w : Walk.World) (mem : Walk.Mem)
    (callee : Walk.Frame) (grand : Option Walk.Frame) :
    (spValid (Walk.effArch arch callee.ctx) callee.ctx = false → (Walk.mkEnv arch os w mem).cfi callee grand = none) ∧
    (Walk.moduleAt (Walk.modTable w.mods) callee.instruction = none → (Walk.mkEnv arch os w mem).cfi callee grand = none) ∧
    (∀ k, Walk.moduleAt (Walk.modTable w.mods) callee.instruction = some k →
      (∀ sf, w.syms[k]? ≠ some (some sf)) → (Walk.mkEnv arch os w mem).cfi callee grand = none) := by
  have e : (Walk.mkEnv arch os w mem).cfi callee grand =
      Walk.cfiOf arch w (Walk.modTable w.mods) (Walk.cfiTables w) (Walk.mkEnv arch os w mem).mask mem callee grand := rfl
  rw [e, cfiOf_eq, cfiWalk_mkEnv]
  refine ⟨?_, ?_, ?_⟩
  · intro h; simp [h]
  · intro h; rw [h]; simp
  · intro k hk hno
    rw [hk]
    cases hm : w.mods[k]? with
    | none => simp [hm]
    | some m =>
      cases hs : w.syms[k]? with
      | none => simp [hm, hs]
      | some s =>
        cases s with
        | none => simp [hm, hs]
        | some sf => exact absurd hs (hno sf)

end MdModel.CfiBridge
