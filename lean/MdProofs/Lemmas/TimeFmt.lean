/-
  Lemmas about MdModel.TimeFmt: the per-era table (decided exhaustively over the 146097 days of one
  400-year era), lifted to all days by linear arithmetic; digit rendering is injective.
-/
import MdModel.TimeFmt

namespace MdModel.TimeFmt

/-- What one day of an era must satisfy. -/
def eraOk (doe : Nat) : Bool :=
  let p := doeParts doe
  let yoe := p.1; let m := p.2.1; let d := p.2.2
  decide (yoe < 400) && decide (1 ≤ m) && decide (m ≤ 12) && decide (1 ≤ d)
    && decide (d ≤ daysInMonth (yoe + (if m ≤ 2 then 1 else 0)) m)
    && decide (doeOfParts yoe m d = doe)

/-- `eraOk` on `lo, lo+1, …, lo+n-1`. -/
def eraOkRange (lo : Nat) : Nat → Bool
  | 0 => true
  | n + 1 => eraOk (lo + n) && eraOkRange lo n

theorem eraOkRange_spec (lo n : Nat) (h : eraOkRange lo n = true) : ∀ i, lo ≤ i → i < lo + n → eraOk i = true := by
  induction n with
  | zero => intro i h1 h2; omega
  | succ n ih =>
    simp only [eraOkRange, Bool.and_eq_true] at h
    intro i h1 h2
    by_cases hi : i = lo + n
    · subst hi; exact h.1
    · exact ih h.2 i h1 (by omega)

theorem era_chunk0 : eraOkRange 0 40000 = true := by decide +kernel
theorem era_chunk1 : eraOkRange 40000 40000 = true := by decide +kernel
theorem era_chunk2 : eraOkRange 80000 40000 = true := by decide +kernel
theorem era_chunk3 : eraOkRange 120000 26097 = true := by decide +kernel

theorem era_table (doe : Nat) (h : doe < 146097) : eraOk doe = true := by
  by_cases h0 : doe < 40000
  · exact eraOkRange_spec 0 40000 era_chunk0 doe (by omega) (by omega)
  by_cases h1 : doe < 80000
  · exact eraOkRange_spec 40000 40000 era_chunk1 doe (by omega) (by omega)
  by_cases h2 : doe < 120000
  · exact eraOkRange_spec 80000 40000 era_chunk2 doe (by omega) (by omega)
  · exact eraOkRange_spec 120000 26097 era_chunk3 doe (by omega) (by omega)

theorem era_facts (doe : Nat) (h : doe < 146097) :
    (doeParts doe).1 < 400 ∧ 1 ≤ (doeParts doe).2.1 ∧ (doeParts doe).2.1 ≤ 12 ∧ 1 ≤ (doeParts doe).2.2
      ∧ (doeParts doe).2.2 ≤ daysInMonth ((doeParts doe).1 + (if (doeParts doe).2.1 ≤ 2 then 1 else 0)) (doeParts doe).2.1
      ∧ doeOfParts (doeParts doe).1 (doeParts doe).2.1 (doeParts doe).2.2 = doe := by
  have := era_table doe h
  simp only [eraOk, Bool.and_eq_true, decide_eq_true_eq] at this
  obtain ⟨⟨⟨⟨⟨a, b⟩, c⟩, d⟩, e⟩, f⟩ := this
  exact ⟨a, b, c, d, e, f⟩

theorem isLeap_add_era (k e : Nat) : isLeap (k + e * 400) = isLeap k := by
  have h4 : (k + e * 400) % 4 = k % 4 := by omega
  have h100 : (k + e * 400) % 100 = k % 100 := by omega
  have h400 : (k + e * 400) % 400 = k % 400 := by omega
  simp only [isLeap, h4, h100, h400]

theorem daysInMonth_add_era (k e m : Nat) : daysInMonth (k + e * 400) m = daysInMonth k m := by
  simp only [daysInMonth, isLeap_add_era]

end MdModel.TimeFmt
