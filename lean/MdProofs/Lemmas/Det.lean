/-
  Helper lemmas for C13 (MdModel.Det): the byte-string order is a total order, insertion sort
  returns THE sorted permutation, association-list facts.
-/
import MdModel.Det
namespace MdModel.Det
open MdModel

/-! ### `lexLe` is a total order -/

theorem lexLe_refl (a : List Nat) : lexLe a a = true := by
  induction a with
  | nil => rfl
  | cons x xs ih => simp [lexLe, ih]

theorem lexLe_total (a b : List Nat) : lexLe a b = true ∨ lexLe b a = true := by
  induction a generalizing b with
  | nil => left; rfl
  | cons x xs ih =>
    cases b with
    | nil => right; rfl
    | cons y ys =>
      simp only [lexLe]
      by_cases h1 : x < y
      · simp [h1]
      · by_cases h2 : y < x
        · simp [h2]
        · simp only [h1, h2, if_false]
          exact ih ys

theorem lexLe_antisymm {a b : List Nat} (h1 : lexLe a b = true) (h2 : lexLe b a = true) : a = b := by
  induction a generalizing b with
  | nil => cases b with
    | nil => rfl
    | cons y ys => simp [lexLe] at h2
  | cons x xs ih =>
    cases b with
    | nil => simp [lexLe] at h1
    | cons y ys =>
      simp only [lexLe] at h1 h2
      by_cases hxy : x < y
      · have : ¬ y < x := by omega
        simp [hxy, this] at h2
      · by_cases hyx : y < x
        · simp [hxy, hyx] at h1
        · simp only [hxy, hyx, if_false] at h1 h2
          have : x = y := by omega
          rw [this, ih h1 h2]

theorem lexLe_trans {a b c : List Nat} (h1 : lexLe a b = true) (h2 : lexLe b c = true) :
    lexLe a c = true := by
  induction a generalizing b c with
  | nil => rfl
  | cons x xs ih =>
    cases b with
    | nil => simp [lexLe] at h1
    | cons y ys =>
      cases c with
      | nil => simp [lexLe] at h2
      | cons z zs =>
        simp only [lexLe] at h1 h2 ⊢
        by_cases hxy : x < y
        · by_cases hyz : y < z
          · have : x < z := by omega
            simp [this]
          · by_cases hzy : z < y
            · simp [hyz, hzy] at h2
            · have : x < z := by omega
              simp [this]
        · by_cases hyx : y < x
          · simp [hxy, hyx] at h1
          · simp only [hxy, hyx, if_false] at h1
            have hxy' : x = y := by omega
            subst hxy'
            by_cases hxz : x < z
            · simp [hxz]
            · by_cases hzx : z < x
              · simp [hxz, hzx] at h2
              · simp only [hxz, hzx, if_false] at h2 ⊢
                exact ih h1 h2

/-! ### insertion sort -/

section sort
variable {α : Type} (le : α → α → Bool)

theorem insertBy_perm (x : α) (l : List α) : (insertBy le x l).Perm (x :: l) := by
  induction l with
  | nil => exact List.Perm.refl _
  | cons y ys ih =>
    simp only [insertBy]
    split
    · exact List.Perm.refl _
    · exact ((List.perm_cons y).2 ih).trans (List.Perm.swap x y ys)

theorem isort_perm (l : List α) : (isort le l).Perm l := by
  induction l with
  | nil => exact List.Perm.refl _
  | cons x xs ih => exact (insertBy_perm le x _).trans ((List.perm_cons x).2 ih)

theorem insertBy_sorted (total : ∀ a b, le a b = true ∨ le b a = true)
    (trans : ∀ a b c, le a b = true → le b c = true → le a c = true)
    (x : α) (l : List α) (h : l.Pairwise (fun a b => le a b = true)) :
    (insertBy le x l).Pairwise (fun a b => le a b = true) := by
  induction l with
  | nil => simp [insertBy]
  | cons y ys ih =>
    simp only [insertBy]
    rw [List.pairwise_cons] at h
    split
    · rename_i hxy
      rw [List.pairwise_cons]
      refine ⟨?_, List.pairwise_cons.2 h⟩
      intro z hz
      rcases List.mem_cons.1 hz with rfl | hz
      · exact hxy
      · exact trans _ _ _ hxy (h.1 z hz)
    · rename_i hxy
      have hyx : le y x = true := by
        rcases total x y with h' | h'
        · exact absurd h' hxy
        · exact h'
      rw [List.pairwise_cons]
      refine ⟨?_, ih h.2⟩
      intro z hz
      have := (insertBy_perm le x ys).mem_iff.1 hz
      rcases List.mem_cons.1 this with rfl | hz'
      · exact hyx
      · exact h.1 z hz'

theorem isort_sorted (total : ∀ a b, le a b = true ∨ le b a = true)
    (trans : ∀ a b c, le a b = true → le b c = true → le a c = true) (l : List α) :
    (isort le l).Pairwise (fun a b => le a b = true) := by
  induction l with
  | nil => simp [isort]
  | cons x xs ih => exact insertBy_sorted le total trans x _ ih

/-- any two sorted arrangements of the same elements coincide, provided the order is antisymmetric
    on them — so the model's insertion sort stands for EVERY correct sort (`slice::sort_by`) -/
theorem sorted_perm_unique
    {l₁ l₂ : List α} (anti : ∀ a b, a ∈ l₁ → b ∈ l₁ → le a b = true → le b a = true → a = b)
    (h₁ : l₁.Pairwise (fun a b => le a b = true)) (h₂ : l₂.Pairwise (fun a b => le a b = true))
    (hp : l₁.Perm l₂) : l₁ = l₂ :=
  List.Perm.eq_of_pairwise (le := fun a b => le a b = true)
    (fun a b ha hb => anti a b ha (hp.mem_iff.2 hb)) h₁ h₂ hp

theorem isort_eq_of_perm (total : ∀ a b, le a b = true ∨ le b a = true)
    (trans : ∀ a b c, le a b = true → le b c = true → le a c = true)
    {l l' : List α} (anti : ∀ a b, a ∈ l → b ∈ l → le a b = true → le b a = true → a = b)
    (hp : l.Perm l') : isort le l' = isort le l := by
  refine (sorted_perm_unique le ?_ (isort_sorted le total trans l) (isort_sorted le total trans l')
    ((isort_perm le l).trans (hp.trans (isort_perm le l').symm))).symm
  intro a b ha hb
  exact anti a b ((isort_perm le l).mem_iff.1 ha) ((isort_perm le l).mem_iff.1 hb)

end sort

/-! ### sorting map entries by key -/

theorem eq_of_key_eq {β : Type} {l : List (List Nat × β)} (nd : (l.map (·.1)).Nodup)
    {a b : List Nat × β} (ha : a ∈ l) (hb : b ∈ l) (h : a.1 = b.1) : a = b := by
  induction l with
  | nil => cases ha
  | cons x xs ih =>
    simp only [List.map_cons, List.nodup_cons, List.mem_map, not_exists, not_and] at nd
    rcases List.mem_cons.1 ha with rfl | ha'
    · rcases List.mem_cons.1 hb with rfl | hb'
      · rfl
      · exact absurd h.symm (nd.1 b hb')
    · rcases List.mem_cons.1 hb with rfl | hb'
      · exact absurd h (nd.1 a ha')
      · exact ih nd.2 ha' hb'

/-- entries of a map (pairwise distinct keys), listed in two iteration orders, sort to one list -/
theorem isort_keyLe_perm {β : Type} {l l' : List (List Nat × β)} (nd : (l.map (·.1)).Nodup)
    (hp : l.Perm l') : isort keyLe l' = isort keyLe l := by
  apply isort_eq_of_perm keyLe (fun a b => lexLe_total a.1 b.1)
    (fun _ _ _ => lexLe_trans) _ hp
  intro a b ha hb h1 h2
  exact eq_of_key_eq nd ha hb (lexLe_antisymm h1 h2)

end MdModel.Det
