/-
  MdProofs.Lemmas.EncodeStreams — C02's per-stream round trips: a "list stream header + n records"
  lemma for `read_stream_list` (with and without the 4 bytes of padding) and `read_ex_stream_list`,
  strings, and then every covered stream reader applied to its encoded stream with the out-of-band
  data placed at the cited offsets.
-/
import MdProofs.Lemmas.EncodeFile
namespace MdModel.Encode
open MdModel MdModel.Dump MdModel.Gen.Layouts

theorem U32_le_U64 : (2 : Nat) ^ 32 ≤ U64MAX := by decide
theorem pow_256_4 : (256 : Nat) ^ 4 = 2 ^ 32 := by decide
theorem pow_256_8 : (256 : Nat) ^ 8 = 2 ^ 64 := by decide

/-! ## list headers -/

/-- **`read_stream_list`: count (+ 0 or 4 bytes of padding) + n records reads back** -/
theorem readStreamList_enc {l : Layout} {memSz : Nat} {s : Bytes} {e : Endian} {pad : Bool} {recs : List (List Nat)}
    (hs : s.toList = listHeader e pad recs.length ++ encRecords e l recs)
    (hf : ∀ r ∈ recs, Fits l r) (hn : recs.length < 2 ^ 32) (hsz : s.size < 2 ^ 32) :
    (readStreamList l memSz s e).res = .ok recs := by
  have hU := U32_le_U64
  have hlen : s.size = listHeaderSize pad + recs.length * Layout.size l := by
    have := congrArg List.length hs
    simp only [Array.length_toList, List.length_append, encRecords_length, listHeader, encNat_length] at this
    rw [this]; cases pad <;> simp [listHeaderSize]
  have hcount : Has s.toList 0 (encNat e 4 recs.length) := by
    rw [hs, listHeader]
    exact ⟨[], (if pad then [0, 0, 0, 0] else []) ++ encRecords e l recs, by simp, rfl⟩
  have hread : readU32 s 0 e = some recs.length := readScalar_has hcount (by rw [pow_256_4]; exact hn)
  have hrecs : Has s.toList (listHeaderSize pad) (encRecords e l recs) := by
    rw [hs]
    refine ⟨listHeader e pad recs.length, [], by simp, ?_⟩
    cases pad <;> simp [listHeader, listHeaderSize]
  have hent := readEntries_has hf hrecs
  unfold readStreamList
  simp only [hread]
  have hens : ensureCountInBound s.size recs.length (Layout.size l) 4 = .ok (recs.length * Layout.size l + 4) := by
    unfold ensureCountInBound checkedMul checkedAdd
    have : listHeaderSize pad ≥ 4 := by cases pad <;> simp [listHeaderSize]
    rw [if_pos (by omega)]; simp only
    rw [if_pos (by omega)]; simp only
    rw [if_neg (by omega)]
  simp only [hens]
  have hsub : (usizeSub "read_stream_list: bytes.len() - counted_size" s.size (recs.length * Layout.size l + 4)).res =
      .ok (s.size - (recs.length * Layout.size l + 4)) := by
    have : listHeaderSize pad ≥ 4 := by cases pad <;> simp [listHeaderSize]
    exact res_usizeSub (by omega)
  rw [res_bind_ok hsub]
  cases pad with
  | false =>
    have h0 : s.size - (recs.length * Layout.size l + 4) = 0 := by simp [listHeaderSize] at hlen; omega
    simp only [h0, if_true]
    rw [res_bind_ok (res_pure 4), res_bind_ok (res_alloc _ _ _)]
    have hent4 : readEntries l s e 4 recs.length = some recs := by simpa [listHeaderSize] using hent
    simp [hent4, M.ofOption]
  | true =>
    have h4 : s.size - (recs.length * Layout.size l + 4) = 4 := by simp [listHeaderSize] at hlen; omega
    simp only [h4]
    have hadd : (usizeAdd "read_stream_list: *offset += 4" 4 4).res = .ok 8 := res_usizeAdd (by decide)
    simp only [show ¬ ((4 : Nat) = 0) by decide, if_false, if_true]
    rw [res_bind_ok hadd, res_bind_ok (res_alloc _ _ _)]
    have hent8 : readEntries l s e 8 recs.length = some recs := by simpa [listHeaderSize] using hent
    simp [hent8, M.ofOption]

/-- **`read_ex_stream_list`: header size 12, entry size, count + n records reads back** -/
theorem readExStreamList_enc {l : Layout} {memSz : Nat} {s : Bytes} {e : Endian} {recs : List (List Nat)}
    (hs : s.toList = exListHeader e (Layout.size l) recs.length ++ encRecords e l recs)
    (hf : ∀ r ∈ recs, Fits l r) (hn : recs.length < 2 ^ 32) (hl : Layout.size l < 2 ^ 32) (hsz : s.size < 2 ^ 32) :
    (readExStreamList l memSz s e).res = .ok recs := by
  have hU := U32_le_U64
  have hlen : s.size = 12 + recs.length * Layout.size l := by
    have := congrArg List.length hs
    simp [exListHeader] at this
    omega
  have hh : Has s.toList 0 (encNat e 4 12 ++ (encNat e 4 (Layout.size l) ++ encNat e 4 recs.length)) := by
    rw [hs, exListHeader]
    exact ⟨[], encRecords e l recs, by simp, rfl⟩
  have h0 : readU32 s 0 e = some 12 := readScalar_has hh.left (by decide)
  have h4 : readU32 s 4 e = some (Layout.size l) := by
    have := hh.right.left
    simp only [encNat_length] at this
    exact readScalar_has this (by rw [pow_256_4]; exact hl)
  have h8 : readU32 s 8 e = some recs.length := by
    have := hh.right.right
    simp only [encNat_length] at this
    exact readScalar_has this (by rw [pow_256_4]; exact hn)
  have hrecs : Has s.toList 12 (encRecords e l recs) := by
    rw [hs]
    exact ⟨exListHeader e (Layout.size l) recs.length, [], by simp, by simp [exListHeader]⟩
  have hent := readEntries_has hf hrecs
  unfold readExStreamList
  simp only [h0, h4, h8, ne_eq, not_true_eq_false, if_false]
  have hens : ensureCountInBound s.size recs.length (Layout.size l) 12 = .ok (recs.length * Layout.size l + 12) := by
    unfold ensureCountInBound checkedMul checkedAdd
    rw [if_pos (by omega)]; simp only
    rw [if_pos (by omega)]; simp only
    rw [if_neg (by omega)]
  simp only [hens, checkedSub, show (12 : Nat) ≤ 12 by decide, if_true]
  have hadd : (usizeAdd "read_ex_stream_list: *offset += header_padding" 12 (12 - 12)).res = .ok 12 :=
    res_usizeAdd (by decide)
  rw [res_bind_ok hadd, res_bind_ok (res_alloc _ _ _)]
  simp [hent, M.ofOption]

/-! ## memory info -/

def MemInfoFits (i : MMemInfo) : Prop :=
  i.base < 2 ^ 64 ∧ i.allocBase < 2 ^ 64 ∧ i.allocProt < 2 ^ 32 ∧ i.size < 2 ^ 64 ∧ i.state < 2 ^ 32 ∧ i.prot < 2 ^ 32 ∧
  i.ty < 2 ^ 32

theorem memInfoRec_fits {i : MMemInfo} (h : MemInfoFits i) : Fits MINIDUMP_MEMORY_INFO (memInfoRec i) := by
  obtain ⟨h1, h2, h3, h4, h5, h6, h7⟩ := h
  simp only [MINIDUMP_MEMORY_INFO, memInfoRec, Fits, pow_256_4, pow_256_8]
  refine ⟨h1, h2, h3, by decide, h4, h5, h6, h7, by decide, trivial⟩

theorem readMemoryInfoList_enc (ms : MemSizes) {s : Bytes} {e : Endian} {is : List MMemInfo}
    (hs : s.toList = encMemInfoList e is) (hf : ∀ i ∈ is, MemInfoFits i) (hsz : s.size < 2 ^ 32) :
    ∃ r, (readMemoryInfoList ms s e).res = .ok r ∧ r.map mmemInfoOf = is := by
  have hn : (is.map memInfoRec).length < 2 ^ 32 := by
    have := congrArg List.length hs
    simp [encMemInfoList, exListHeader] at this
    have h48 : Layout.size MINIDUMP_MEMORY_INFO = 48 := by decide
    rw [h48] at this
    simp only [List.length_map]
    omega
  have hrd := readExStreamList_enc (l := MINIDUMP_MEMORY_INFO) (memSz := ms.rawMemInfo) (s := s) (e := e)
    (recs := is.map memInfoRec) (by simpa [encMemInfoList] using hs)
    (by intro r hr; obtain ⟨i, hi, rfl⟩ := List.mem_map.mp hr; exact memInfoRec_fits (hf i hi))
    hn (by decide) hsz
  have hres : (readMemoryInfoList ms s e).res = .ok ((is.map memInfoRec).map fun v =>
      (⟨fld v 0, fld v 1, fld v 2, fld v 4, fld v 5, fld v 6, fld v 7⟩ : MemInfo)) := by
    unfold readMemoryInfoList
    rw [res_bind_ok hrd, res_bind_ok (res_alloc _ _ _)]
    rfl
  refine ⟨_, hres, ?_⟩
  · simp only [List.map_map]
    conv => rhs; rw [← List.map_id is]
    apply List.map_congr_left
    intro i _
    cases i
    simp [memInfoRec, mmemInfoOf, fld]

/-! ## locations -/

theorem locationRange_in {len size rva : Nat} (h : rva + size ≤ len) (hlen : len < 2 ^ 32) :
    locationRange len ⟨size, rva⟩ = some (rva, rva + size) := by
  have hU := U32_le_U64
  unfold locationRange checkedAdd
  simp only
  rw [if_pos (by omega)]; simp only
  rw [if_pos (by omega)]

theorem sliceList_has {b : Bytes} {off : Nat} {c : List UInt8} (h : Has b.toList off c) :
    sliceList b off (off + c.length) = c := h.extract

/-! ## threads -/

def ThreadFits (t : MThread) : Prop :=
  t.id < 2 ^ 32 ∧ t.suspend < 2 ^ 32 ∧ t.prioClass < 2 ^ 32 ∧ t.prio < 2 ^ 32 ∧ t.teb < 2 ^ 64 ∧ t.stackBase < 2 ^ 64

theorem oobThreads_length (ts : List MThread) : (oobThreads ts).length = oobThreadsSize ts := by
  induction ts with
  | nil => rfl
  | cons t ts ih => simp [oobThreads, oobThreadsSize, ih]; omega

theorem threadRecs_length (off : Nat) (ts : List MThread) : (threadRecs off ts).length = ts.length := by
  induction ts generalizing off with
  | nil => rfl
  | cons t ts ih => simp [threadRecs, ih]

theorem threadRecs_fits {all : List UInt8} (hall : all.length < 2 ^ 32) :
    ∀ (ts : List MThread) (off : Nat), (∀ t ∈ ts, ThreadFits t) → Has all off (oobThreads ts) →
      ∀ r ∈ threadRecs off ts, Fits MINIDUMP_THREAD r := by
  intro ts
  induction ts with
  | nil => intro off _ _ r hr; simp [threadRecs] at hr
  | cons t ts ih =>
    intro off hf h r hr
    simp only [threadRecs, List.mem_cons] at hr
    simp only [oobThreads] at h
    have hle := h.length_le
    simp only [List.length_append] at hle
    cases hr with
    | inl h0 =>
      subst h0
      obtain ⟨h1, h2, h3, h4, h5, h6⟩ := hf t (by simp)
      simp only [MINIDUMP_THREAD, Fits, pow_256_4, pow_256_8]
      refine ⟨h1, h2, h3, h4, h5, h6, ?_, ?_, ?_, ?_, trivial⟩ <;> omega
    | inr h1 =>
      have h2 : Has all (off + t.ctx.length + t.stack.length) (oobThreads ts) := by
        have := h.right
        simpa [List.length_append, Nat.add_assoc] using this
      exact ih _ (fun t' ht' => hf t' (by simp [ht'])) h2 r h1

theorem thread_decode {all : Bytes} (hall : all.size < 2 ^ 32) (t : MThread) (off : Nat) (hoff : 0 < off)
    (h : Has all.toList off (t.ctx ++ t.stack)) :
    rthreadOf all (Thread.ofVals all.size [t.id, t.suspend, t.prioClass, t.prio, t.teb, t.stackBase,
      t.stack.length, off + t.ctx.length, t.ctx.length, off]) = reportThread t := by
  have hle := h.size_le
  simp only [List.length_append] at hle
  have hctx : locationRange all.size ⟨t.ctx.length, off⟩ = some (off, off + t.ctx.length) :=
    locationRange_in (by omega) hall
  have hstk : locationRange all.size ⟨t.stack.length, off + t.ctx.length⟩ =
      some (off + t.ctx.length, off + t.ctx.length + t.stack.length) := locationRange_in (by omega) hall
  simp only [rthreadOf, Thread.ofVals, fld, List.getD_cons_zero, List.getD_cons_succ, reportThread, hctx,
    Option.map_some, sliceList_has h.left]
  by_cases h0 : t.stack.length = 0
  · simp [readMemoryDesc, h0]
  · have hne : ¬ (off + t.ctx.length = 0 ∨ t.stack.length = 0) := by omega
    have hne' : ¬ (off + t.ctx.length = 0 ∨ False) := by
      intro hh; cases hh with
      | inl h1 => omega
      | inr h1 => exact h1
    simp only [readMemoryDesc, hstk, h0, hne', if_false, Option.map_some]
    have := sliceList_has h.right
    rw [this]

theorem threadRecs_decode {all : Bytes} (hall : all.size < 2 ^ 32) :
    ∀ (ts : List MThread) (off : Nat), 0 < off → Has all.toList off (oobThreads ts) →
      ((threadRecs off ts).map (Thread.ofVals all.size)).map (rthreadOf all) = ts.map reportThread := by
  intro ts
  induction ts with
  | nil => intro off _ _; rfl
  | cons t ts ih =>
    intro off hoff h
    simp only [oobThreads] at h
    have h1 : Has all.toList off (t.ctx ++ t.stack) := h.left
    have h2 : Has all.toList (off + t.ctx.length + t.stack.length) (oobThreads ts) := by
      have := h.right
      simpa [List.length_append, Nat.add_assoc] using this
    simp only [threadRecs, List.map_cons, thread_decode hall t off hoff h1, ih _ (by omega) h2]

theorem readThreadList_enc (ms : MemSizes) {s all : Bytes} {e : Endian} {pad : Bool} {off : Nat} {ts : List MThread}
    (hs : s.toList = encThreadList e pad off ts) (hf : ∀ t ∈ ts, ThreadFits t) (hoff : 0 < off)
    (hoob : Has all.toList off (oobThreads ts)) (hall : all.size < 2 ^ 32) (hsz : s.size < 2 ^ 32) :
    ∃ r, (readThreadList ms s all e).res = .ok r ∧ r.map (rthreadOf all) = ts.map reportThread := by
  have hlen := congrArg List.length hs
  simp only [Array.length_toList, encThreadList, List.length_append, encRecords_length, threadRecs_length] at hlen
  have hn : (threadRecs off ts).length < 2 ^ 32 := by
    rw [threadRecs_length]
    have h48 : Layout.size MINIDUMP_THREAD = 48 := by decide
    rw [h48] at hlen
    omega
  have hrd := readStreamList_enc (l := MINIDUMP_THREAD) (memSz := ms.rawThread) (s := s) (e := e) (pad := pad)
    (recs := threadRecs off ts) (by rw [threadRecs_length]; exact hs)
    (threadRecs_fits (by simpa using hall) ts off hf hoob) hn hsz
  refine ⟨_, ?_, threadRecs_decode hall ts off hoff hoob⟩
  unfold readThreadList
  rw [res_bind_ok hrd, res_bind_ok (res_alloc _ _ _), res_bind_ok (res_alloc _ _ _)]
  rfl

/-! ## memory lists -/

/-- a region of process memory: it lies inside the 64-bit address space (it may end exactly at 2^64) -/
def RegionFits (r : MRegion) : Prop := r.base < 2 ^ 64 ∧ r.base + r.bytes.length ≤ 2 ^ 64

theorem oobMemory_length (rs : List MRegion) : (oobMemory rs).length = oobMemorySize rs := by
  induction rs with
  | nil => rfl
  | cons r rs ih => simp [oobMemory, oobMemorySize, ih]

theorem memRecs_length (off : Nat) (rs : List MRegion) : (memRecs off rs).length = rs.length := by
  induction rs generalizing off with
  | nil => rfl
  | cons r rs ih => simp [memRecs, ih]

theorem memRecs_fits {all : List UInt8} (hall : all.length < 2 ^ 32) :
    ∀ (rs : List MRegion) (off : Nat), (∀ r ∈ rs, RegionFits r) → Has all off (oobMemory rs) →
      ∀ v ∈ memRecs off rs, Fits MINIDUMP_MEMORY_DESCRIPTOR v := by
  intro rs
  induction rs with
  | nil => intro off _ _ v hv; simp [memRecs] at hv
  | cons r rs ih =>
    intro off hf h v hv
    simp only [memRecs, List.mem_cons] at hv
    simp only [oobMemory] at h
    have hle := h.length_le
    simp only [List.length_append] at hle
    cases hv with
    | inl h0 =>
      subst h0
      have h1 : r.base < 2 ^ 64 := (hf r (by simp)).1
      simp only [MINIDUMP_MEMORY_DESCRIPTOR, Fits, pow_256_4, pow_256_8]
      refine ⟨h1, ?_, ?_, trivial⟩ <;> omega
    | inr h1 => exact ih _ (fun r' hr' => hf r' (by simp [hr'])) h.right v h1

/-- the per-descriptor step of `MinidumpMemoryList::read` -/
def pickRegion (allLen : Nat) (v : List Nat) : Option Region :=
  match readMemoryDesc allLen (fld v 0) ⟨fld v 1, fld v 2⟩ with
  | .ok r => some r
  | .error _ => none

theorem pickRegion_rec {all : Bytes} (hall : all.size < 2 ^ 32) (base len off : Nat) (hoff : 0 < off)
    (hle : off + len ≤ all.size) :
    pickRegion all.size [base, len, off] = if len = 0 then none else some ⟨base, len, off⟩ := by
  simp only [pickRegion, fld, List.getD_cons_zero, List.getD_cons_succ]
  by_cases h0 : len = 0
  · simp [readMemoryDesc, h0]
  · have hne : ¬ (off = 0 ∨ len = 0) := by omega
    have hloc : locationRange all.size ⟨len, off⟩ = some (off, off + len) := locationRange_in (by omega) hall
    have hoff0 : ¬ (off = 0) := by omega
    simp [readMemoryDesc, hloc, h0, hoff0]

theorem memRecs_decode {all : Bytes} (hall : all.size < 2 ^ 32) :
    ∀ (rs : List MRegion) (off : Nat), 0 < off → Has all.toList off (oobMemory rs) →
      ((memRecs off rs).filterMap (pickRegion all.size)).map (regionOf all) = rs.filter fun r => r.bytes.length ≠ 0 := by
  intro rs
  induction rs with
  | nil => intro off _ _; rfl
  | cons r rs ih =>
    intro off hoff h
    simp only [oobMemory] at h
    have hle := h.size_le
    simp only [List.length_append] at hle
    have ih' := ih (off + r.bytes.length) (by omega) h.right
    simp only [memRecs, List.filterMap_cons, pickRegion_rec hall r.base r.bytes.length off hoff (by omega)]
    by_cases h0 : r.bytes.length = 0
    · have : ¬ (decide (r.bytes.length ≠ 0) = true) := by simp [h0]
      simp only [h0, if_true, List.filter_cons, ne_eq, not_true_eq_false, decide_false, Bool.false_eq_true, if_false]
      rw [h0] at ih'
      exact ih'
    · have : decide (r.bytes.length ≠ 0) = true := by simp [h0]
      simp only [h0, if_false, List.map_cons, List.filter_cons, this, if_true, ih']
      congr 1
      cases r
      simp only [regionOf, MRegion.mk.injEq, true_and]
      exact sliceList_has h.left

theorem readMemoryList_enc (ms : MemSizes) {s all : Bytes} {e : Endian} {pad : Bool} {off : Nat} {rs : List MRegion}
    (hs : s.toList = encMemoryList e pad off rs) (hf : ∀ r ∈ rs, RegionFits r) (hoff : 0 < off)
    (hoob : Has all.toList off (oobMemory rs)) (hall : all.size < 2 ^ 32) (hsz : s.size < 2 ^ 32) :
    ∃ r, (readMemoryList ms s all e).res = .ok r ∧ r.map (regionOf all) = rs.filter fun r => r.bytes.length ≠ 0 := by
  have hlen := congrArg List.length hs
  simp only [Array.length_toList, encMemoryList, List.length_append, encRecords_length, memRecs_length] at hlen
  have hn : (memRecs off rs).length < 2 ^ 32 := by
    rw [memRecs_length]
    have h16 : Layout.size MINIDUMP_MEMORY_DESCRIPTOR = 16 := by decide
    rw [h16] at hlen
    omega
  have hrd := readStreamList_enc (l := MINIDUMP_MEMORY_DESCRIPTOR) (memSz := ms.rawMemDesc) (s := s) (e := e) (pad := pad)
    (recs := memRecs off rs) (by rw [memRecs_length]; exact hs)
    (memRecs_fits (by simpa using hall) rs off hf hoob) hn hsz
  refine ⟨(memRecs off rs).filterMap (pickRegion all.size), ?_, memRecs_decode hall rs off hoff hoob⟩
  unfold readMemoryList
  rw [res_bind_ok hrd, res_bind_ok (res_alloc _ _ _)]
  rfl

theorem mem64Recs_fits {all : List UInt8} (hall : all.length < 2 ^ 32) :
    ∀ (rs : List MRegion) (off : Nat), (∀ r ∈ rs, RegionFits r) → Has all off (oobMemory rs) →
      ∀ v ∈ mem64Recs rs, Fits MINIDUMP_MEMORY_DESCRIPTOR64 v := by
  intro rs
  induction rs with
  | nil => intro off _ _ v hv; simp [mem64Recs] at hv
  | cons r rs ih =>
    intro off hf h v hv
    simp only [mem64Recs, List.map_cons, List.mem_cons] at hv
    simp only [oobMemory] at h
    have hle := h.length_le
    simp only [List.length_append] at hle
    cases hv with
    | inl h0 =>
      subst h0
      have h1 : r.base < 2 ^ 64 := (hf r (by simp)).1
      simp only [MINIDUMP_MEMORY_DESCRIPTOR64, Fits, pow_256_8]
      refine ⟨h1, ?_, trivial⟩; omega
    | inr h1 => exact ih _ (fun r' hr' => hf r' (by simp [hr'])) h.right v h1

theorem mem64Regions_enc {all : Bytes} (hall : all.size < 2 ^ 32) :
    ∀ (rs : List MRegion) (off : Nat), Has all.toList off (oobMemory rs) →
      ∃ regs, mem64Regions all.size off (mem64Recs rs) = .ok regs ∧ regs.map (regionOf all) = rs := by
  have hU := U32_le_U64
  intro rs
  induction rs with
  | nil => intro off _; exact ⟨[], rfl, rfl⟩
  | cons r rs ih =>
    intro off h
    simp only [oobMemory] at h
    have hle := h.size_le
    simp only [List.length_append] at hle
    obtain ⟨regs, h1, h2⟩ := ih (off + r.bytes.length) h.right
    refine ⟨⟨r.base, r.bytes.length, off⟩ :: regs, ?_, ?_⟩
    · simp only [mem64Recs, List.map_cons, mem64Regions, fld, List.getD_cons_zero, List.getD_cons_succ, checkedAdd]
      rw [if_pos (by omega)]; simp only
      rw [if_pos (by omega)]
      simp only [mem64Recs] at h1
      rw [h1]
    · simp only [List.map_cons, h2]
      congr 1
      cases r
      simp only [regionOf, MRegion.mk.injEq, true_and]
      exact sliceList_has h.left

theorem readMemory64List_enc (ms : MemSizes) {s all : Bytes} {e : Endian} {off : Nat} {rs : List MRegion}
    (hs : s.toList = encMemory64List e off rs) (hf : ∀ r ∈ rs, RegionFits r)
    (hoob : Has all.toList off (oobMemory rs)) (hall : all.size < 2 ^ 32) (hsz : s.size < 2 ^ 32) :
    ∃ r, (readMemory64List ms s all e).res = .ok r ∧ r.map (regionOf all) = rs := by
  have hU := U32_le_U64
  have hlen := congrArg List.length hs
  simp only [Array.length_toList, encMemory64List, List.length_append, encRecords_length, encNat_length, mem64Recs,
    List.length_map] at hlen
  have h16 : Layout.size MINIDUMP_MEMORY_DESCRIPTOR64 = 16 := by decide
  rw [h16] at hlen
  have hoffle := hoob.size_le
  have hh : Has s.toList 0 (encNat e 8 rs.length ++ (encNat e 8 off ++ encRecords e MINIDUMP_MEMORY_DESCRIPTOR64 (mem64Recs rs))) :=
    ⟨[], [], by simp [hs, encMemory64List], rfl⟩
  have h0 : readU64 s 0 e = some rs.length := readScalar_has hh.left (by rw [pow_256_8]; omega)
  have h8 : readU64 s 8 e = some off := by
    have := hh.right.left
    simp only [encNat_length] at this
    exact readScalar_has this (by rw [pow_256_8]; omega)
  have hrecs : Has s.toList 16 (encRecords e MINIDUMP_MEMORY_DESCRIPTOR64 (mem64Recs rs)) := by
    have := hh.right.right
    simpa using this
  have hent := readEntries_has (mem64Recs_fits (by simpa using hall) rs off hf hoob) hrecs
  have hrl : (mem64Recs rs).length = rs.length := by simp [mem64Recs]
  rw [hrl] at hent
  obtain ⟨regs, hr1, hr2⟩ := mem64Regions_enc hall rs off hoob
  refine ⟨regs, ?_, hr2⟩
  unfold readMemory64List
  simp only [h0, h8]
  have hens : ensureCountInBound s.size rs.length (Layout.size MINIDUMP_MEMORY_DESCRIPTOR64) 16 = .ok (rs.length * 16 + 16) := by
    unfold ensureCountInBound checkedMul checkedAdd
    rw [h16]
    rw [if_pos (by omega)]; simp only
    rw [if_pos (by omega)]; simp only
    rw [if_neg (by omega)]
  simp only [hens]
  rw [if_neg (by omega)]
  rw [res_bind_ok (res_alloc _ _ _)]
  simp only [hent, M.ofOption]
  rw [res_bind_ok (res_pure _), res_bind_ok (res_alloc _ _ _)]
  simp [hr1, M.ofExcept]

/-! ## strings -/

/-- a Unicode scalar value: what a Rust `char` can hold ("arbitrary well-formed UTF-16") -/
def ValidScalar (c : Nat) : Prop := c < 0xD800 ∨ (0xE000 ≤ c ∧ c < 0x110000)

theorem leBytes_two (u : Nat) : leBytes 2 u = [UInt8.ofNat (u % 256), UInt8.ofNat (u / 256 % 256)] := by
  simp [leBytes]

theorem utf16Units_encUnits (e : Endian) (us : List Nat) (h : ∀ u ∈ us, u < 65536) :
    utf16Units e (encUnits e us) = us := by
  induction us with
  | nil => simp [encUnits, utf16Units]
  | cons u us ih =>
    have hu : u < 65536 := h u (by simp)
    have ih' := ih (fun x hx => h x (by simp [hx]))
    simp only [encUnits, List.flatMap_cons] at ih' ⊢
    cases e with
    | little =>
      simp only [encNat, leBytes_two, List.cons_append, List.nil_append, utf16Units, ih', UInt8.toNat_ofNat']
      congr 1
      omega
    | big =>
      simp only [encNat, leBytes_two, List.reverse_cons, List.reverse_nil, List.nil_append, List.cons_append,
        utf16Units, ih', UInt8.toNat_ofNat']
      congr 1
      omega

theorem utf16Decode_cons_bmp (u : Nat) (rest : List Nat) (h1 : isHighSurrogate u = false) (h2 : isLowSurrogate u = false) :
    utf16Decode (u :: rest) = (utf16Decode rest).map (u :: ·) := by
  cases rest with
  | nil => simp [utf16Decode, h1, h2]
  | cons l r =>
    rw [utf16Decode]
    simp only [h1, h2, Bool.false_eq_true, if_false]
    cases utf16Decode (l :: r) <;> rfl

theorem utf16Decode_pair (u l : Nat) (rest : List Nat) (h1 : isHighSurrogate u = true) (h2 : isLowSurrogate l = true) :
    utf16Decode (u :: l :: rest) = (utf16Decode rest).map ((0x10000 + (u - 0xD800) * 1024 + (l - 0xDC00)) :: ·) := by
  rw [utf16Decode]
  simp only [h1, h2, if_true]
  cases utf16Decode rest <;> rfl

/-- **names from arbitrary well-formed UTF-16 decode back** (non-BMP included) -/
theorem utf16Decode_units (cs : List Nat) (h : ∀ c ∈ cs, ValidScalar c) :
    utf16Decode (cs.flatMap utf16UnitsOf) = some cs := by
  induction cs with
  | nil => simp [utf16Decode]
  | cons c cs ih =>
    have hc := h c (by simp)
    have ih' := ih (fun x hx => h x (by simp [hx]))
    simp only [List.flatMap_cons]
    by_cases hb : c < 0x10000
    · have h1 : isHighSurrogate c = false := by
        unfold isHighSurrogate ValidScalar at *
        simp only [Bool.and_eq_false_imp, decide_eq_true_eq, decide_eq_false_iff_not]
        omega
      have h2 : isLowSurrogate c = false := by
        unfold isLowSurrogate ValidScalar at *
        simp only [Bool.and_eq_false_imp, decide_eq_true_eq, decide_eq_false_iff_not]
        omega
      simp only [utf16UnitsOf, hb, if_true, List.cons_append, List.nil_append]
      rw [utf16Decode_cons_bmp c _ h1 h2, ih']
      rfl
    · have hlt : c < 0x110000 := by unfold ValidScalar at hc; omega
      have h1 : isHighSurrogate (0xD800 + (c - 0x10000) / 1024) = true := by
        unfold isHighSurrogate
        simp only [Bool.and_eq_true, decide_eq_true_eq]
        omega
      have h2 : isLowSurrogate (0xDC00 + (c - 0x10000) % 1024) = true := by
        unfold isLowSurrogate
        simp only [Bool.and_eq_true, decide_eq_true_eq]
        omega
      simp only [utf16UnitsOf, hb, if_false, List.cons_append, List.nil_append]
      rw [utf16Decode_pair _ _ _ h1 h2, ih']
      have hval : 0x10000 + (0xD800 + (c - 0x10000) / 1024 - 0xD800) * 1024 + (0xDC00 + (c - 0x10000) % 1024 - 0xDC00) = c := by
        omega
      rw [hval]
      rfl

theorem utf16UnitsOf_lt (c : Nat) (h : ValidScalar c) : ∀ u ∈ utf16UnitsOf c, u < 65536 := by
  intro u hu
  unfold utf16UnitsOf at hu
  unfold ValidScalar at h
  split at hu
  · simp at hu; omega
  · simp at hu; omega

theorem encUnits_length (e : Endian) (us : List Nat) : (encUnits e us).length = 2 * us.length := by
  induction us with
  | nil => rfl
  | cons u us ih => simp only [encUnits, List.flatMap_cons, List.length_append, encNat_length, List.length_cons] at ih ⊢; omega

theorem encString_length (e : Endian) (cs : List Nat) : (encString e cs).length = stringSize cs := by
  simp [encString, stringSize, encUnits_length]

/-- **`read_string_utf16` on an encoded `MINIDUMP_STRING`** -/
theorem readStringUtf16_enc {b : Bytes} {off : Nat} {e : Endian} {cs : List Nat} (hv : ∀ c ∈ cs, ValidScalar c)
    (h : Has b.toList off (encString e cs)) (hb : b.size < 2 ^ 32) :
    (readStringUtf16 b off e).res = .ok (some (cs, off + stringSize cs)) := by
  have hU := U32_le_U64
  have hle := h.size_le
  rw [encString_length] at hle
  simp only [stringSize] at hle
  simp only [encString] at h
  have hsz : readU32 b off e = some (2 * (cs.flatMap utf16UnitsOf).length) :=
    readScalar_has h.left (by rw [pow_256_4]; omega)
  have hunits := h.right
  simp only [encNat_length] at hunits
  unfold readStringUtf16
  simp only [hsz]
  have hmod : ¬ (2 * (cs.flatMap utf16UnitsOf).length % 2 ≠ 0) := by omega
  simp only [hmod, if_false]
  have hadd : (usizeAdd "read_string_utf16: *offset + size" (off + 4) (2 * (cs.flatMap utf16UnitsOf).length)).res =
      .ok (off + 4 + 2 * (cs.flatMap utf16UnitsOf).length) := res_usizeAdd (by unfold USIZE_MAX; omega)
  rw [res_bind_ok hadd]
  rw [if_neg (by omega)]
  have hslice := res_sliceRange (site := "read_string_utf16: &bytes[*offset..*offset + size]") (b := b)
    (lo := off + 4) (hi := off + 4 + 2 * (cs.flatMap utf16UnitsOf).length) ⟨by omega, by omega⟩
  rw [res_bind_ok hslice, res_bind_ok (res_alloc _ _ _)]
  have hext : (b.extract (off + 4) (off + 4 + 2 * (cs.flatMap utf16UnitsOf).length)).toList =
      encUnits e (cs.flatMap utf16UnitsOf) := by
    have := hunits.extract
    rw [encUnits_length] at this
    exact this
  have hlt : ∀ u ∈ cs.flatMap utf16UnitsOf, u < 65536 := by
    intro u hu
    obtain ⟨c, hc, hu'⟩ := List.mem_flatMap.mp hu
    exact utf16UnitsOf_lt c (hv c hc) u hu'
  rw [hext, utf16Units_encUnits e _ hlt, utf16Decode_units cs hv]
  simp only [stringSize, Nat.add_assoc]
  rfl

end MdModel.Encode
