/-
  Helper lemmas for C04: a Lean `layout` function for ONE technique — frame-pointer chains on
  x86-64 (not Windows) — mirroring the Rust generator (`gen_chain`, tech `fp`,
  harness/src/engines/chain.rs), with the precondition `preFp (layout …) = true` PROVED for all
  generator parameters. A pattern for discharging a precondition once instead of per case.

  The generator: stack words `w[0..]` at `base + 8 i`; the context has `rsp = addr s0`,
  `rbp = addr f0` (`f0 = s0 + d0`); for every call a record `w[f] = addr f'`, `w[f+1] = ret` with
  `f' = f + 2 + gap`; the outermost record `(0, 0)` and zero words after it; every other word 0.

  The layout itself (`le8`, `wordsMem`, `wAddr`, `fpTail`, `fpWords`, `fpChain`) lives in the model
  (MdModel/Walk/Layout.lean): the driver evaluates it (`chain layout fp …`) and the `chain` engine
  compares it with every generated x86-64 `fp` case — the mirror is tied, not just read off.

  * `read_wordsMem` — `Mem.read` on a memory given as a list of 8-byte words.
  * `preFp_layout` — the precondition holds of the layout, for all parameters.
-/
import MdProofs.Lemmas.WalkChain
set_option linter.unusedSimpArgs false
namespace MdModel.Walk
open MdModel

/-! ### a stack memory from 8-byte words -/

theorem le8_length (v : Nat) : (le8 v).length = 8 := by simp [le8]

theorem flatMap_le8_length (ws : List Nat) : (ws.flatMap le8).length = 8 * ws.length := by
  induction ws with
  | nil => rfl
  | cons w ws ih =>
    rw [List.flatMap_cons, List.length_append, le8_length, ih, List.length_cons]
    omega

theorem wordsMem_size (base : Nat) (ws : List Nat) : (wordsMem base ws).size = 8 * ws.length := by
  simp only [wordsMem, Mem.size, List.size_toArray, flatMap_le8_length]

/-- byte `8 i + j` of the memory is byte `j` of word `i` -/
theorem flatMap_le8_get (ws : List Nat) : ∀ (i j : Nat), i < ws.length → j < 8 →
    (ws.flatMap le8)[8 * i + j]? = (le8 (ws[i]?.getD 0))[j]? := by
  induction ws with
  | nil => intro i j hi; cases hi
  | cons w ws ih =>
    intro i j hi hj
    simp only [List.flatMap_cons]
    cases i with
    | zero =>
      simp only [Nat.mul_zero, Nat.zero_add, List.getElem?_cons_zero, Option.getD_some]
      rw [List.getElem?_append_left (by rw [le8_length]; exact hj)]
    | succ i =>
      have hi' : i < ws.length := by simpa using hi
      rw [List.getElem?_append_right (by rw [le8_length]; omega)]
      have : 8 * (i + 1) + j - (le8 w).length = 8 * i + j := by rw [le8_length]; omega
      rw [this, ih i j hi' hj]
      simp

theorem le8_get (v j : Nat) (hj : j < 8) : (le8 v)[j]? = some (UInt8.ofNat (v / 256 ^ j % 256)) := by
  simp [le8, hj]

theorem wordsMem_byte (base : Nat) (ws : List Nat) (i j : Nat) (hi : i < ws.length) (hj : j < 8) :
    (wordsMem base ws).byte (8 * i + j) = (ws[i]?.getD 0) / 256 ^ j % 256 := by
  unfold Mem.byte wordsMem
  simp only [List.getElem?_toArray, flatMap_le8_get ws i j hi hj, le8_get _ j hj, Option.getD_some]
  have : (ws[i]?.getD 0) / 256 ^ j % 256 < 256 := Nat.mod_lt _ (by decide)
  simp [UInt8.toNat_ofNat, Nat.mod_eq_of_lt this]

theorem digits8 (v : Nat) (hv : v < 18446744073709551616) :
    v % 256 + 256 * (v / 256 % 256 + 256 * (v / 65536 % 256 + 256 * (v / 16777216 % 256 +
      256 * (v / 4294967296 % 256 + 256 * (v / 1099511627776 % 256 + 256 * (v / 281474976710656 % 256 +
      256 * (v / 72057594037927936 % 256 + 256 * 0))))))) = v := by
  omega

/-- **reading word `i`** of a memory given by its words -/
theorem read_wordsMem (base : Nat) (ws : List Nat) (i : Nat) (hi : i < ws.length)
    (hw : ws[i]?.getD 0 < 18446744073709551616) :
    (wordsMem base ws).read (base + 8 * i) 8 = some (ws[i]?.getD 0) := by
  have hb : (wordsMem base ws).base = base := rfl
  unfold Mem.read
  rw [hb, if_neg (by omega)]
  simp only [wordsMem_size]
  have hoff : base + 8 * i - base = 8 * i := by omega
  rw [hoff, if_pos (by omega)]
  simp only [Option.some.injEq]
  generalize hv : ws[i]?.getD 0 = v at hw
  have e0 : (wordsMem base ws).byte (8 * i) = v % 256 := by
    have := wordsMem_byte base ws i 0 hi (by decide); rw [hv] at this; simpa using this
  have e1 : (wordsMem base ws).byte (8 * i + 1) = v / 256 % 256 := by
    have := wordsMem_byte base ws i 1 hi (by decide); rw [hv] at this; simpa using this
  have e2 : (wordsMem base ws).byte (8 * i + 2) = v / 65536 % 256 := by
    have := wordsMem_byte base ws i 2 hi (by decide); rw [hv] at this; simpa using this
  have e3 : (wordsMem base ws).byte (8 * i + 3) = v / 16777216 % 256 := by
    have := wordsMem_byte base ws i 3 hi (by decide); rw [hv] at this; simpa using this
  have e4 : (wordsMem base ws).byte (8 * i + 4) = v / 4294967296 % 256 := by
    have := wordsMem_byte base ws i 4 hi (by decide); rw [hv] at this; simpa using this
  have e5 : (wordsMem base ws).byte (8 * i + 5) = v / 1099511627776 % 256 := by
    have := wordsMem_byte base ws i 5 hi (by decide); rw [hv] at this; simpa using this
  have e6 : (wordsMem base ws).byte (8 * i + 6) = v / 281474976710656 % 256 := by
    have := wordsMem_byte base ws i 6 hi (by decide); rw [hv] at this; simpa using this
  have e7 : (wordsMem base ws).byte (8 * i + 7) = v / 72057594037927936 % 256 := by
    have := wordsMem_byte base ws i 7 hi (by decide); rw [hv] at this; simpa using this
  have hle : (wordsMem base ws).leAt (8 * i) 8 =
      (wordsMem base ws).byte (8 * i) + 256 * ((wordsMem base ws).byte (8 * i + 1) + 256 * ((wordsMem base ws).byte (8 * i + 2) +
      256 * ((wordsMem base ws).byte (8 * i + 3) + 256 * ((wordsMem base ws).byte (8 * i + 4) +
      256 * ((wordsMem base ws).byte (8 * i + 5) + 256 * ((wordsMem base ws).byte (8 * i + 6) +
      256 * ((wordsMem base ws).byte (8 * i + 7) + 256 * 0))))))) := rfl
  rw [Mem.wordAt_le _ _ _ rfl, hle, e0, e1, e2, e3, e4, e5, e6, e7]
  exact digits8 v hw

theorem read_wordsMem_isSome (base : Nat) (ws : List Nat) (i : Nat) (hi : i < ws.length) :
    ((wordsMem base ws).read (base + 8 * i) 8).isSome = true := by
  have hb : (wordsMem base ws).base = base := rfl
  unfold Mem.read
  rw [hb, if_neg (by omega)]
  simp only [wordsMem_size]
  have hoff : base + 8 * i - base = 8 * i := by omega
  rw [hoff, if_pos (by omega)]
  rfl

/-! ### the layout -/

/-- index one past the last word the layout needs -/
def fpEnd : Nat → List (Nat × Nat) → Nat
  | f, [] => f
  | f, (gap, _) :: rest => fpEnd (f + 2 + gap) rest

theorem fpTail_length (base tail : Nat) : ∀ (calls : List (Nat × Nat)) (f : Nat),
    (fpTail base tail f calls).length = fpEnd f calls - f + 3 + tail := by
  intro calls
  induction calls with
  | nil => intro f; simp [fpTail, fpEnd]; omega
  | cons c rest ih =>
    intro f
    obtain ⟨gap, ret⟩ := c
    have hmono : ∀ (calls : List (Nat × Nat)) (f : Nat), f ≤ fpEnd f calls := by
      intro calls
      induction calls with
      | nil => intro f; exact Nat.le_refl _
      | cons c rest ih2 => intro f; obtain ⟨g, r⟩ := c; have := ih2 (f + 2 + g); simp only [fpEnd]; omega
    have := hmono rest (f + 2 + gap)
    simp only [fpTail, fpEnd, List.length_append, List.length_cons, List.length_nil, List.length_replicate, ih]
    omega

theorem fpEnd_ge : ∀ (calls : List (Nat × Nat)) (f : Nat), f ≤ fpEnd f calls := by
  intro calls
  induction calls with
  | nil => intro f; exact Nat.le_refl _
  | cons c rest ih => intro f; obtain ⟨g, r⟩ := c; have := ih (f + 2 + g); simp only [fpEnd]; omega

theorem getD_append_right (l1 l2 : List Nat) (i : Nat) (h : l1.length ≤ i) :
    (l1 ++ l2)[i]?.getD 0 = l2[i - l1.length]?.getD 0 := by
  rw [List.getElem?_append_right h]

theorem getD_append_left (l1 l2 : List Nat) (i : Nat) (h : i < l1.length) :
    (l1 ++ l2)[i]?.getD 0 = l1[i]?.getD 0 := by
  rw [List.getElem?_append_left h]

theorem getD_replicate_zero (n i : Nat) : (List.replicate n 0)[i]?.getD 0 = 0 := by
  by_cases h : i < n
  · simp [List.getElem?_replicate, h]
  · simp [List.getElem?_replicate, h]

/-- every word of the outermost part is zero -/
theorem fpTail_nil_zero (base tail f i : Nat) : (fpTail base tail f [])[i]?.getD 0 = 0 := by
  show (List.replicate 2 0 ++ List.replicate (1 + tail) 0)[i]?.getD 0 = 0
  by_cases h : i < 2
  · rw [getD_append_left _ _ _ (by simpa using h), getD_replicate_zero]
  · rw [getD_append_right _ _ _ (by simpa using h), getD_replicate_zero]

/-! ### the precondition holds of the layout -/

theorem wordsMem_inRange (base : Nat) (ws : List Nat) (i : Nat) (hi : i < ws.length)
    (htop : base + 8 * ws.length ≤ U64MAX) : (wordsMem base ws).inRange (wAddr base i) = true := by
  have hb : (wordsMem base ws).base = base := rfl
  have hU : U64MAX = 18446744073709551615 := rfl
  simp only [Mem.inRange, Mem.range?, wordsMem_size, hb]
  rw [if_neg (by omega), if_neg (by omega)]
  simp only [Bool.and_eq_true, wAddr]
  exact ⟨decide_eq_true (by omega), decide_eq_true (by omega)⟩

/-- every word from index `s` on is zero ⇒ `zerosFrom` at `addr s` -/
theorem wordsMem_zerosFrom (base : Nat) (ws : List Nat) (s : Nat) (hz : ∀ i, s ≤ i → i < ws.length → ws[i]?.getD 0 = 0) :
    zerosFrom (wordsMem base ws) 8 (wAddr base s) = true := by
  have hb : (wordsMem base ws).base = base := rfl
  simp only [zerosFrom, hb, wordsMem_size, Bool.and_eq_true, decide_eq_true_eq, List.all_eq_true, List.mem_range,
    beq_iff_eq, wAddr]
  refine ⟨by omega, ?_⟩
  intro j hj
  have hlt : s + j < ws.length := by
    have : (base + 8 * ws.length - (base + 8 * s)) / 8 = ws.length - s := by omega
    rw [this] at hj; omega
  have ha : base + 8 * s + j * 8 = base + 8 * (s + j) := by omega
  rw [ha, read_wordsMem base ws (s + j) hlt (by rw [hz _ (by omega) hlt]; decide), hz _ (by omega) hlt]

/-- the induction: `ws = pre ++ fpTail … f calls`, the callee's stack pointer at word `s ≤ f`, zeros
    between `s` and `f` -/
theorem preFp_layout_aux (os : Os) (hos : os ≠ .windows) (mask base tail : Nat) (ws : List Nat)
    (hbase : 16 < base) (htop : base + 8 * ws.length + 32 ≤ U64MAX) :
    ∀ (calls : List (Nat × Nat)) (s f : Nat) (pre : List Nat),
      ws = pre ++ fpTail base tail f calls → pre.length = f → s ≤ f →
      (∀ i, s ≤ i → i < f → pre[i]?.getD 0 = 0) →
      (∀ c ∈ calls, 4096 ≤ c.2 ∧ c.2 ≤ U64MAX ∧ nonCanonAmd64 c.2 = false) →
      preFp .amd64 os mask (wordsMem base ws) (wAddr base s) (wAddr base f) (fpChain base f calls) = true := by
  have hU : U64MAX = 18446744073709551615 := rfl
  intro calls
  induction calls with
  | nil =>
    intro s f pre hws hpl hsf hzero _
    have hlen : ws.length = f + 3 + tail := by
      rw [hws, List.length_append, hpl, fpTail_length]; simp [fpEnd]; omega
    -- every word from `s` on is zero
    have hz : ∀ i, s ≤ i → i < ws.length → ws[i]?.getD 0 = 0 := by
      intro i h1 h2
      rw [hws]
      by_cases hif : i < f
      · rw [getD_append_left _ _ _ (by rw [hpl]; exact hif)]; exact hzero i h1 hif
      · rw [getD_append_right _ _ _ (by rw [hpl]; omega)]; exact fpTail_nil_zero base tail f _
    have hr0 : (wordsMem base ws).read (wAddr base f) 8 = some 0 := by
      have := read_wordsMem base ws f (by omega) (by rw [hz f hsf (by omega)]; decide)
      rw [hz f hsf (by omega)] at this; exact this
    have hr1 : (wordsMem base ws).read (wAddr base f + 8) 8 = some 0 := by
      have := read_wordsMem base ws (f + 1) (by omega) (by rw [hz (f + 1) (by omega) (by omega)]; decide)
      rw [hz (f + 1) (by omega) (by omega)] at this
      have ha : wAddr base f + 8 = base + 8 * (f + 1) := by simp only [wAddr]; omega
      rw [ha]; exact this
    have hb : (wordsMem base ws).base = base := rfl
    simp only [preFp, fpChain, endFp, Bool.or_eq_true, Bool.and_eq_true, decide_eq_true_eq, beq_iff_eq, hb]
    right
    refine ⟨⟨hbase, wordsMem_zerosFrom base ws s hz⟩, ⟨hr0, hr1⟩, ?_⟩
    simp only [wAddr]; omega
  | cons c rest ih =>
    intro s f pre hws hpl hsf hzero hrets
    obtain ⟨gap, ret⟩ := c
    obtain ⟨hr4096, hrmax, hrcan⟩ := hrets (gap, ret) List.mem_cons_self
    have hrmax' : ret ≤ 18446744073709551615 := hrmax
    have hge := fpEnd_ge rest (f + 2 + gap)
    have hlen : ws.length = fpEnd (f + 2 + gap) rest + 3 + tail := by
      rw [hws, List.length_append, hpl, fpTail_length]; simp only [fpEnd]; omega
    -- the words of this record and what follows
    have hwf : ws[f]?.getD 0 = wAddr base (f + 2 + gap) := by
      rw [hws, getD_append_right _ _ _ (by omega), hpl, Nat.sub_self]; rfl
    have hwf1 : ws[f + 1]?.getD 0 = ret := by
      rw [hws, getD_append_right _ _ _ (by omega), hpl]
      have : f + 1 - f = 1 := by omega
      rw [this]; rfl
    have hnfp : wAddr base (f + 2 + gap) < 18446744073709551616 := by simp only [wAddr]; omega
    have hr_fp : (wordsMem base ws).read (wAddr base f) 8 = some (wAddr base (f + 2 + gap)) := by
      have := read_wordsMem base ws f (by omega) (by rw [hwf]; exact hnfp)
      rw [hwf] at this; exact this
    have hr_ret : (wordsMem base ws).read (wAddr base f + 8) 8 = some ret := by
      have := read_wordsMem base ws (f + 1) (by omega) (by rw [hwf1]; omega)
      rw [hwf1] at this
      have ha : wAddr base f + 8 = base + 8 * (f + 1) := by simp only [wAddr]; omega
      rw [ha]; exact this
    have hr_nfp : ((wordsMem base ws).read (wAddr base (f + 2 + gap)) 8).isSome = true :=
      read_wordsMem_isSome base ws _ (by omega)
    have hr_sp : ((wordsMem base ws).read (wAddr base (f + 2)) 8).isSome = true :=
      read_wordsMem_isSome base ws _ (by omega)
    -- the rest of the chain
    have hrec := ih (f + 2) (f + 2 + gap) (pre ++ ([wAddr base (f + 2 + gap), ret] ++ List.replicate gap 0))
      (by rw [hws]; simp only [fpTail, List.append_assoc])
      (by simp only [List.length_append, hpl, List.length_cons, List.length_nil, List.length_replicate]; omega)
      (by omega)
      (by
        intro i h1 h2
        rw [getD_append_right _ _ _ (by omega), hpl,
          getD_append_right _ _ _ (by simp only [List.length_cons, List.length_nil]; omega)]
        exact getD_replicate_zero _ _)
      (fun c hc => hrets c (List.mem_cons_of_mem _ hc))
    have hk0 : (wAddr base (f + 2) - 16 - wAddr base f) / 16 = 0 := by simp only [wAddr]; omega
    have e8 : wAddr base (f + 2) - 8 = wAddr base f + 8 := by simp only [wAddr]; omega
    have e16 : wAddr base (f + 2) - 16 = wAddr base f := by simp only [wAddr]; omega
    simp only [preFp, fpChain, Bool.and_eq_true, Option.getD_some]
    have hin : (wordsMem base ws).inRange (wAddr base s) = true := by
      apply wordsMem_inRange
      · omega
      · exact Nat.le_trans (Nat.le_add_right _ _) htop
    refine ⟨⟨hin, ?_⟩, hrec⟩
    simp only [linkFp, Option.isSome_some, Option.getD_some, Bool.and_eq_true, decide_eq_true_eq, beq_iff_eq,
      if_neg hos, Bool.not_eq_true', hk0, e8, e16, Nat.sub_self, Nat.zero_div, List.range_zero, List.all_nil,
      Nat.mul_zero, Nat.add_zero, true_and, and_true]
    refine ⟨⟨hr4096, ?_⟩, ⟨⟨⟨⟨⟨⟨⟨⟨⟨?_, ?_⟩, ?_⟩, hr_ret⟩, hr_fp⟩, ?_⟩, hr_nfp⟩, hrcan⟩, hr_sp⟩, ?_⟩⟩
    all_goals (simp only [wAddr]; omega)

/-- **the generator's frame-pointer layout on x86-64 satisfies `preFp`, for ALL parameters**:
    any stack base above 16 that keeps the stack 32 bytes clear of the top of the address space, any
    positions `s0 ≤ f0` of the context's stack and frame pointers, any number of calls with any
    gaps, any return addresses that are canonical and `≥ 4096`, any amount of trailing zeros -/
theorem preFp_layout (os : Os) (hos : os ≠ .windows) (mask base s0 f0 tail : Nat) (calls : List (Nat × Nat))
    (hbase : 16 < base) (hs : s0 ≤ f0)
    (htop : base + 8 * (fpWords base f0 tail calls).length + 32 ≤ U64MAX)
    (hrets : ∀ c ∈ calls, 4096 ≤ c.2 ∧ c.2 ≤ U64MAX ∧ nonCanonAmd64 c.2 = false) :
    preFp .amd64 os mask (wordsMem base (fpWords base f0 tail calls)) (wAddr base s0) (wAddr base f0)
      (fpChain base f0 calls) = true :=
  preFp_layout_aux os hos mask base tail (fpWords base f0 tail calls) hbase htop calls s0 f0
    (List.replicate f0 0) rfl (by simp) hs (fun i _ _ => getD_replicate_zero _ _) hrets

end MdModel.Walk
