/-
  Bridge C06 ↔ walker model, part 4: `parse_cfi_exprs` and the rule map.

  The walker model keeps the rules as an association list updated in place (`ruleSet`), the C06
  model as a list with the newest entry in front (`RuleMap.insert`). Both are the same finite map:
  `MapRel` (same entries up to order, one entry per register). The parse loops preserve it, so
  the two models collect the same rules from the same lines; lookups, the remaining (`Other`)
  rules and their name order follow.
-/
import MdProofs.Lemmas.CfiBridgeEval
import MdProofs.Lemmas.CfiWalk
namespace MdModel.CfiBridge
open MdModel

/-- common form of both rule maps: C06 registers, C06 token meanings -/
abbrev AMap := List (Cfi.CfiReg × List Cfi.Tok)

def absW (rs : List (Walk.CfiReg × List Walk.ETok)) : AMap := rs.map fun p => (regOf p.1, p.2.map tokOf)
def absC (m : Cfi.RuleMap) : AMap := m.map fun p => (p.1, p.2.map Cfi.classify)

/-- the two rule maps hold the same rules -/
structure MapRel (rs : List (Walk.CfiReg × List Walk.ETok)) (m : Cfi.RuleMap) : Prop where
  perm : (absC m).Perm (absW rs)
  nodup : (rs.map (·.1)).Nodup
  wf : ∀ p ∈ rs, ∀ t ∈ p.2, ETokWf t

theorem MapRel.nil : MapRel [] [] := ⟨List.Perm.refl _, List.nodup_nil, fun _ h => nomatch h⟩

/-! ## `ruleSet` is `insert` -/

theorem ruleSet_keys (rs : List (Walk.CfiReg × List Walk.ETok)) (r : Walk.CfiReg) (e : List Walk.ETok) :
    (Walk.ruleSet rs r e).map (·.1) = if r ∈ rs.map (·.1) then rs.map (·.1) else rs.map (·.1) ++ [r] := by
  induction rs with
  | nil => simp [Walk.ruleSet]
  | cons p t ih =>
    obtain ⟨r', e'⟩ := p
    by_cases h : r' = r
    · subst h; simp [Walk.ruleSet]
    · have h' : ¬ r = r' := fun e => h e.symm
      simp only [Walk.ruleSet, h, if_false, List.map_cons, ih, List.mem_cons, h', false_or]
      split <;> simp

theorem ruleSet_nodup (rs : List (Walk.CfiReg × List Walk.ETok)) (r : Walk.CfiReg) (e : List Walk.ETok)
    (h : (rs.map (·.1)).Nodup) : ((Walk.ruleSet rs r e).map (·.1)).Nodup := by
  rw [ruleSet_keys]
  split
  · exact h
  · rename_i hn
    rw [List.nodup_append]
    exact ⟨h, List.nodup_cons.mpr ⟨List.not_mem_nil, List.nodup_nil⟩, fun a ha b hb => by
      simp only [List.mem_singleton] at hb; subst hb; exact fun e => hn (e ▸ ha)⟩

theorem ruleSet_perm (rs : List (Walk.CfiReg × List Walk.ETok)) (r : Walk.CfiReg) (e : List Walk.ETok)
    (h : (rs.map (·.1)).Nodup) :
    (Walk.ruleSet rs r e).Perm ((r, e) :: rs.filter (fun p => p.1 ≠ r)) := by
  induction rs with
  | nil => simp [Walk.ruleSet]
  | cons p t ih =>
    obtain ⟨r', e'⟩ := p
    simp only [List.map_cons, List.nodup_cons] at h
    by_cases hr : r' = r
    · subst hr
      have : t.filter (fun p => p.1 ≠ r') = t := by
        rw [List.filter_eq_self]
        intro q hq
        simp only [ne_eq, decide_eq_true_eq]
        intro hq'
        exact h.1 (List.mem_map.mpr ⟨q, hq, hq'⟩)
      simp only [Walk.ruleSet, if_true]
      rw [List.filter_cons_of_neg (by simp), this]
    · simp only [Walk.ruleSet, hr, if_false]
      rw [List.filter_cons_of_pos (by simp [hr])]
      exact (List.Perm.cons _ (ih h.2)).trans (List.Perm.swap _ _ _)

theorem ruleSet_mem (rs : List (Walk.CfiReg × List Walk.ETok)) (r : Walk.CfiReg) (e : List Walk.ETok)
    (p : Walk.CfiReg × List Walk.ETok) (hp : p ∈ Walk.ruleSet rs r e) : p = (r, e) ∨ p ∈ rs := by
  induction rs with
  | nil => simp [Walk.ruleSet] at hp; exact .inl hp
  | cons q t ih =>
    obtain ⟨r', e'⟩ := q
    by_cases hr : r' = r
    · simp only [Walk.ruleSet, hr, if_true, List.mem_cons] at hp
      rcases hp with hp | hp
      · exact .inl hp
      · exact .inr (List.mem_cons_of_mem _ hp)
    · simp only [Walk.ruleSet, hr, if_false, List.mem_cons] at hp
      rcases hp with hp | hp
      · exact .inr (hp ▸ List.mem_cons_self)
      · rcases ih hp with h | h
        · exact .inl h
        · exact .inr (List.mem_cons_of_mem _ h)

theorem absW_filter (rs : List (Walk.CfiReg × List Walk.ETok)) (r : Walk.CfiReg) :
    absW (rs.filter (fun p => p.1 ≠ r)) = (absW rs).filter (fun p => p.1 ≠ regOf r) := by
  induction rs with
  | nil => rfl
  | cons p t ih =>
    by_cases h : p.1 = r
    · have h' : regOf p.1 = regOf r := by rw [h]
      simp only [absW] at ih ⊢
      rw [List.filter_cons_of_neg (by simp [h]), List.map_cons, List.filter_cons_of_neg (by simp [h']), ih]
    · have h' : ¬ regOf p.1 = regOf r := fun e => h (regOf_inj e)
      simp only [absW] at ih ⊢
      rw [List.filter_cons_of_pos (by simp [h]), List.map_cons, List.map_cons,
        List.filter_cons_of_pos (by simp [h']), ih]

theorem absC_insert (m : Cfi.RuleMap) (k : Cfi.CfiReg) (e : Cfi.Expr) :
    absC (m.insert k e) = (k, e.map Cfi.classify) :: (absC m).filter (fun p => p.1 ≠ k) := by
  simp only [Cfi.RuleMap.insert, absC, List.map_cons, List.cons.injEq, true_and]
  induction m with
  | nil => rfl
  | cons p t ih =>
    by_cases h : p.1 = k
    · rw [List.filter_cons_of_neg (by simp [h]), List.map_cons, List.filter_cons_of_neg (by simp [h]), ih]
    · rw [List.filter_cons_of_pos (by simp [h]), List.map_cons, List.map_cons,
        List.filter_cons_of_pos (by simp [h]), ih]

/-- one `HashMap::insert` on both sides -/
theorem MapRel.insert {rs m} (h : MapRel rs m) (r : Walk.CfiReg) (ew : List Walk.ETok) (ec : Cfi.Expr)
    (he : ec.map Cfi.classify = ew.map tokOf) (hwf : ∀ t ∈ ew, ETokWf t) :
    MapRel (Walk.ruleSet rs r ew) (m.insert (regOf r) ec) := by
  refine ⟨?_, ruleSet_nodup rs r ew h.nodup, ?_⟩
  · rw [absC_insert, he]
    have h1 : (absW (Walk.ruleSet rs r ew)).Perm (absW ((r, ew) :: rs.filter (fun p => p.1 ≠ r))) :=
      (ruleSet_perm rs r ew h.nodup).map _
    have h2 : absW ((r, ew) :: rs.filter (fun p => p.1 ≠ r)) =
        (regOf r, ew.map tokOf) :: (absW rs).filter (fun p => p.1 ≠ regOf r) := by
      rw [← absW_filter]; rfl
    rw [h2] at h1
    exact (List.Perm.cons _ (h.perm.filter _)).trans h1.symm
  · intro p hp
    rcases ruleSet_mem rs r ew p hp with rfl | hp
    · exact hwf
    · exact h.wf p hp

/-! ## the parse loops -/

/-- agreement of two optional rule maps: both fail, or both succeed with the same rules -/
def OptRel : Option (List (Walk.CfiReg × List Walk.ETok)) → Option Cfi.RuleMap → Prop
  | some rs, some m => MapRel rs m
  | none, none => True
  | _, _ => False

theorem parseLoop_bridge (toks : List (List Char)) :
    ∀ (cur : Option Walk.CfiReg) (ew : List Walk.ETok) (ec : Cfi.Expr) (rs m),
      MapRel rs m → ec.map Cfi.classify = ew.reverse.map tokOf → (∀ t ∈ ew, ETokWf t) →
      OptRel (Walk.parseRules (toks.map Walk.classifyRL) cur ew rs)
             (Cfi.parseLoop (toks.map enc) (cur.map regOf) ec m) := by
  induction toks with
  | nil =>
    intro cur ew ec rs m hrel he hwf
    have hemp : ec.isEmpty = ew.isEmpty := by
      have := congrArg List.length he
      simp only [List.length_map, List.length_reverse] at this
      cases ec <;> cases ew <;> simp_all
    simp only [List.map_nil, Walk.parseRules, Cfi.parseLoop, hemp]
    by_cases h : ew.isEmpty = true
    · simp [h, OptRel]
    · simp only [h, Bool.false_eq_true, if_false]
      cases cur with
      | none => simp [OptRel]
      | some r =>
        simp only [Option.map_some, OptRel]
        exact hrel.insert r ew.reverse ec he (fun t ht => hwf t (List.mem_reverse.mp ht))
  | cons tok rest ih =>
    intro cur ew ec rs m hrel he hwf
    have hemp : ec.isEmpty = ew.isEmpty := by
      have := congrArg List.length he
      simp only [List.length_map, List.length_reverse] at this
      cases ec <;> cases ew <;> simp_all
    have hc := classifyRL_enc tok
    simp only [List.map_cons]
    cases hk : Walk.classifyRL tok with
    | label r =>
      rw [hk] at hc
      obtain ⟨name, hs, hl⟩ := hc
      simp only [Walk.parseRules, Cfi.parseLoop, hs, hl]
      cases cur with
      | none => exact ih (some r) [] [] rs m hrel rfl (fun _ h => nomatch h)
      | some r0 =>
        simp only [Option.map_some, hemp]
        by_cases h : ew.isEmpty = true
        · simp [h, OptRel]
        · simp only [h, Bool.false_eq_true, if_false]
          exact ih (some r) [] [] _ _
            (hrel.insert r0 ew.reverse ec he (fun t ht => hwf t (List.mem_reverse.mp ht))) rfl
            (fun _ h => nomatch h)
    | tok t =>
      rw [hk] at hc
      obtain ⟨hs, hcl⟩ := hc
      simp only [Walk.parseRules, Cfi.parseLoop, hs]
      cases cur with
      | none => simp [OptRel]
      | some r0 =>
        simp only [Option.map_some]
        refine ih (some r0) (t :: ew) (ec ++ [enc tok]) rs m hrel ?_ ?_
        · simp [he, hcl]
        · intro t' ht'
          rcases List.mem_cons.mp ht' with rfl | h
          · have := classifyL_wf tok
            unfold Walk.classifyRL at hk
            split at hk
            · cases hk
            · cases hk; exact this
          · exact hwf t' h

/-- **`parse_cfi_exprs`**: one rule line parsed into related maps gives related maps (or fails on
    both sides) -/
theorem parseLine_bridge (line : String) (rs m) (h : MapRel rs m) :
    OptRel (Walk.parseRules (Walk.tokenize line) none [] rs) (Cfi.parseCfiExprs (utf8 line) m) := by
  unfold Walk.tokenize Cfi.parseCfiExprs utf8
  rw [splitWs_enc]
  exact parseLoop_bridge (Walk.splitWsL line.toList) none [] [] rs m h rfl (fun _ h => nomatch h)

theorem foldl_bind_none {α β} (f : β → α → Option β) (l : List α) :
    l.foldl (fun acc a => acc.bind fun b => f b a) none = none := by
  induction l with
  | nil => rfl
  | cons a l ih => simpa using ih

/-- all lines, INIT first -/
theorem parseAll_bridge (lines : List String) (rs m) (h : MapRel rs m) :
    OptRel (lines.foldl (fun acc line => acc.bind fun out => Walk.parseRules (Walk.tokenize line) none [] out) (some rs))
           (Cfi.parseAll (lines.map utf8) m) := by
  induction lines generalizing rs m with
  | nil => exact h
  | cons l ls ih =>
    simp only [List.foldl_cons, Option.bind_some, List.map_cons, Cfi.parseAll]
    have h1 := parseLine_bridge l rs m h
    cases hw : Walk.parseRules (Walk.tokenize l) none [] rs with
    | none =>
      rw [hw] at h1
      cases hc : Cfi.parseCfiExprs (utf8 l) m with
      | none => rw [foldl_bind_none]; trivial
      | some _ => rw [hc] at h1; exact h1.elim
    | some rs' =>
      rw [hw] at h1
      cases hc : Cfi.parseCfiExprs (utf8 l) m with
      | none => rw [hc] at h1; exact h1.elim
      | some m' => rw [hc] at h1; exact ih rs' m' h1

/-! ## lookups -/

def aget (l : AMap) (k : Cfi.CfiReg) : Option (List Cfi.Tok) := (l.find? (fun p => p.1 = k)).map (·.2)

theorem aget_eq_some_iff (l : AMap) (hn : (l.map (·.1)).Nodup) (k : Cfi.CfiReg) (v : List Cfi.Tok) :
    aget l k = some v ↔ (k, v) ∈ l := by
  induction l with
  | nil => simp [aget]
  | cons p t ih =>
    simp only [List.map_cons, List.nodup_cons] at hn
    obtain ⟨k', v'⟩ := p
    by_cases hk : k' = k
    · subst hk
      simp only [aget, List.find?_cons_of_pos (p := fun p => decide (p.1 = k')) (l := t) (a := (k', v')) (by simp),
        Option.map_some, Option.some.injEq, List.mem_cons, Prod.mk.injEq, true_and]
      constructor
      · intro h; exact .inl h.symm
      · rintro (h | h)
        · exact h.symm
        · exact absurd (List.mem_map.mpr ⟨(k', v), h, rfl⟩) hn.1
    · have : aget ((k', v') :: t) k = aget t k := by
        simp only [aget]; rw [List.find?_cons_of_neg (by simp [hk])]
      rw [this, ih hn.2]
      simp only [List.mem_cons, Prod.mk.injEq]
      constructor
      · exact fun h => .inr h
      · rintro (⟨h, _⟩ | h)
        · exact absurd h.symm hk
        · exact h

theorem aget_perm (l₁ l₂ : AMap) (hp : l₁.Perm l₂) (hn : (l₂.map (·.1)).Nodup) (k : Cfi.CfiReg) :
    aget l₁ k = aget l₂ k := by
  have hn1 : (l₁.map (·.1)).Nodup := (hp.map _).nodup_iff.mpr hn
  apply Option.ext
  intro v
  rw [aget_eq_some_iff l₁ hn1, aget_eq_some_iff l₂ hn, hp.mem_iff]

theorem aget_absC (m : Cfi.RuleMap) (k : Cfi.CfiReg) :
    aget (absC m) k = (m.get k).map (·.map Cfi.classify) := by
  unfold aget absC Cfi.RuleMap.get
  induction m with
  | nil => rfl
  | cons p t ih =>
    by_cases h : p.1 = k
    · rw [List.map_cons, List.find?_cons_of_pos (by simp [h]), List.find?_cons_of_pos (by simp [h])]; rfl
    · rw [List.map_cons, List.find?_cons_of_neg (by simp [h]), List.find?_cons_of_neg (by simp [h])]; exact ih

theorem aget_absW (rs : List (Walk.CfiReg × List Walk.ETok)) (k : Walk.CfiReg) :
    aget (absW rs) (regOf k) = (rs.lookup k).map (·.map tokOf) := by
  unfold aget absW
  induction rs with
  | nil => rfl
  | cons p t ih =>
    obtain ⟨k', e⟩ := p
    by_cases h : k' = k
    · subst h
      rw [List.map_cons, List.find?_cons_of_pos (by simp)]
      simp [List.lookup]
    · have h' : ¬ regOf k' = regOf k := fun e => h (regOf_inj e)
      have hb : (k == k') = false := by rw [beq_eq_false_iff_ne]; exact fun e => h e.symm
      rw [List.map_cons, List.find?_cons_of_neg (by simp [h'])]
      simp only [List.lookup, hb]
      exact ih

theorem absW_keys_nodup (rs : List (Walk.CfiReg × List Walk.ETok)) (h : (rs.map (·.1)).Nodup) :
    ((absW rs).map (·.1)).Nodup := by
  have : (absW rs).map (·.1) = (rs.map (·.1)).map regOf := by simp [absW, List.map_map]
  rw [this, List.Nodup, List.pairwise_map]
  exact h.imp (fun hne e => hne (regOf_inj e))

/-- **same rule for every register**: `.cfa`, `.ra` or any other label -/
theorem MapRel.lookup {rs m} (h : MapRel rs m) (k : Walk.CfiReg) :
    (m.get (regOf k)).map (·.map Cfi.classify) = (rs.lookup k).map (·.map tokOf) := by
  rw [← aget_absC, ← aget_absW]
  exact aget_perm _ _ h.perm (absW_keys_nodup rs h.nodup) _

theorem lookup_wf {rs : List (Walk.CfiReg × List Walk.ETok)} (hwf : ∀ p ∈ rs, ∀ t ∈ p.2, ETokWf t)
    (k : Walk.CfiReg) (e : List Walk.ETok) (h : rs.lookup k = some e) : ∀ t ∈ e, ETokWf t := by
  induction rs with
  | nil => simp [List.lookup] at h
  | cons p t ih =>
    obtain ⟨k', e'⟩ := p
    simp only [List.lookup] at h
    split at h
    · cases h; exact hwf (k', e) List.mem_cons_self
    · exact ih (fun p hp => hwf p (List.mem_cons_of_mem _ hp)) h

/-! ## the remaining rules and their order -/

def aothers (l : AMap) : List (Cfi.Name × List Cfi.Tok) :=
  l.filterMap fun p => match p.1 with
    | .other n => some (n, p.2)
    | _ => none

def fC (p : Cfi.Name × Cfi.Expr) : Cfi.Name × List Cfi.Tok := (p.1, p.2.map Cfi.classify)
def fW (p : String × List Walk.ETok) : Cfi.Name × List Cfi.Tok := (utf8 p.1, p.2.map tokOf)

theorem aothers_absC (m : Cfi.RuleMap) : aothers (absC m) = (Cfi.others m).map fC := by
  induction m with
  | nil => rfl
  | cons p t ih =>
    obtain ⟨k, e⟩ := p
    cases k <;> simp_all [aothers, absC, Cfi.others, fC]

theorem aothers_absW (rs : List (Walk.CfiReg × List Walk.ETok)) :
    aothers (absW rs) = (Walk.otherRules rs).map fW := by
  induction rs with
  | nil => rfl
  | cons p t ih =>
    obtain ⟨k, e⟩ := p
    cases k <;> simp_all [aothers, absW, Walk.otherRules, fW, regOf]

theorem aothers_keys_nodup (l : AMap) (h : (l.map (·.1)).Nodup) : ((aothers l).map (·.1)).Nodup := by
  induction l with
  | nil => exact List.nodup_nil
  | cons p t ih =>
    obtain ⟨k, e⟩ := p
    simp only [List.map_cons, List.nodup_cons] at h
    cases k with
    | cfa => simpa [aothers] using ih h.2
    | ra => simpa [aothers] using ih h.2
    | other n =>
      have ht := ih h.2
      simp only [aothers, List.filterMap_cons, List.map_cons, List.nodup_cons] at ht ⊢
      refine ⟨?_, ht⟩
      intro hm
      apply h.1
      obtain ⟨q, hq, hqn⟩ := List.mem_map.mp hm
      obtain ⟨p', hp', hpq⟩ := List.mem_filterMap.mp hq
      obtain ⟨k', e'⟩ := p'
      cases k' <;> simp at hpq
      subst hpq
      simp only at hqn
      subst hqn
      exact List.mem_map.mpr ⟨_, hp', rfl⟩

theorem eq_of_key_eq {α β} (l : List (α × β)) (h : (l.map (·.1)).Nodup) (a b : α × β)
    (ha : a ∈ l) (hb : b ∈ l) (hk : a.1 = b.1) : a = b := by
  induction l with
  | nil => cases ha
  | cons p t ih =>
    simp only [List.map_cons, List.nodup_cons] at h
    rcases List.mem_cons.mp ha with ha' | ha'
    · rcases List.mem_cons.mp hb with hb' | hb'
      · rw [ha', hb']
      · subst ha'; exact absurd (List.mem_map.mpr ⟨b, hb', hk.symm⟩) h.1
    · rcases List.mem_cons.mp hb with hb' | hb'
      · subst hb'; exact absurd (List.mem_map.mpr ⟨a, ha', hk⟩) h.1
      · exact ih h.2 ha' hb'

/-- **the processing order**: the remaining rules sorted by name are the same list in both models
    (insertion sort by `str::cmp` on bytes vs merge sort by `String` order) -/
theorem others_sorted_eq {rs m} (h : MapRel rs m) :
    (Cfi.sortOthers (Cfi.others m)).map fC =
      ((Walk.otherRules rs).mergeSort fun p q => Walk.strLe p.1 q.1).map fW := by
  let le : Cfi.Name × List Cfi.Tok → Cfi.Name × List Cfi.Tok → Prop := fun a b => Cfi.bytesLe a.1 b.1 = true
  have hperm0 : ((Cfi.others m).map fC).Perm ((Walk.otherRules rs).map fW) := by
    rw [← aothers_absC, ← aothers_absW]
    exact h.perm.filterMap _
  have hnodupW : (((Walk.otherRules rs).map fW).map (·.1)).Nodup := by
    rw [← aothers_absW]
    exact aothers_keys_nodup _ (absW_keys_nodup rs h.nodup)
  have hpermL : ((Cfi.sortOthers (Cfi.others m)).map fC).Perm ((Cfi.others m).map fC) :=
    (Cfi.sortBy_perm _ _).map _
  have hpermR : (((Walk.otherRules rs).mergeSort fun p q => Walk.strLe p.1 q.1).map fW).Perm
      ((Walk.otherRules rs).map fW) := (List.mergeSort_perm _ _).map _
  have hperm := (hpermL.trans hperm0).trans hpermR.symm
  apply List.Perm.eq_of_pairwise (le := le) ?_ ?_ ?_ hperm
  · intro a b ha hb h1 h2
    have hkey : a.1 = b.1 := Cfi.bytesLe_antisymm _ _ h1 h2
    have ha' : a ∈ (Walk.otherRules rs).map fW := (hpermL.trans hperm0).mem_iff.mp ha
    have hb' : b ∈ (Walk.otherRules rs).map fW := hpermR.mem_iff.mp hb
    exact eq_of_key_eq _ hnodupW a b ha' hb' hkey
  · have hs := Cfi.sortBy_pairwise (fun a b : Cfi.Name × Cfi.Expr => Cfi.bytesLe a.1 b.1)
      (fun a b => Cfi.bytesLe_total a.1 b.1) (fun a b c => Cfi.bytesLe_trans a.1 b.1 c.1) (Cfi.others m)
    unfold Cfi.sortOthers
    rw [List.pairwise_map]
    exact hs
  · have hs := List.pairwise_mergeSort (le := fun p q : String × List Walk.ETok => Walk.strLe p.1 q.1)
      (fun a b c h1 h2 => by
        simp only [strLe_enc] at h1 h2 ⊢
        exact Cfi.bytesLe_trans _ _ _ h1 h2)
      (fun a b => by
        simp only [strLe_enc, Bool.or_eq_true]
        exact Cfi.bytesLe_total _ _)
      (Walk.otherRules rs)
    rw [List.pairwise_map]
    exact hs.imp (fun {a b} hab => by simpa [le, fW, strLe_enc] using hab)

end MdModel.CfiBridge
