/-
  C12 helper lemmas: exact counts of supplier calls and returns per key
  (`callCount k = 1` as soon as the slot is no longer empty, `retCount k = 1` as soon as it holds a
  value), calls only for keys some program mentions, and counting the calls of a CLASS of keys
  (used for the per-provider `pending_stats` counters and for "exactly once at the end").
-/
import MdProofs.Lemmas.OnceWake
namespace MdModel.Once
open MdModel

def retCount (k : Nat) (log : List Event) : Nat := log.count (.ret k)

/-- per key: one `call` event iff the slot is not empty, one `ret` event iff it holds a value -/
def CountInv (s : State) : Prop :=
  ∀ k, callCount k s.log = (if (s.slot k).nonEmpty then 1 else 0) ∧
       retCount k s.log = (if (s.slot k).isDone then 1 else 0)

theorem retCount_append (k : Nat) (l : List Event) (e : Event) :
    retCount k (l ++ [e]) = retCount k l + (if e = .ret k then 1 else 0) := by
  simp only [retCount, List.count_append, List.count_cons, List.count_nil, beq_iff_eq]
  omega

@[simp] theorem retCount_append_call (k k' : Nat) (l : List Event) :
    retCount k' (l ++ [.call k]) = retCount k' l := by
  rw [retCount_append]; simp

theorem retCount_append_ret (k k' : Nat) (l : List Event) :
    retCount k' (l ++ [.ret k]) = retCount k' l + (if k = k' then 1 else 0) := by
  rw [retCount_append]; simp

@[simp] theorem retCount_append_seen (t k k' : Nat) (r : Res) (l : List Event) :
    retCount k' (l ++ [.seen t k r]) = retCount k' l := by
  rw [retCount_append]; simp

theorem countInv_init (cfg : Cfg) : CountInv (init cfg) := by
  intro k; simp [init, callCount, retCount, Slot.nonEmpty, Slot.isDone]

/-- `complete` is only ever applied to a state in which `t` holds the lock of `k` -/
theorem countInv_complete (cfg : Cfg) (t k : Nat) (r : List Nat) {s : State} (h : CountInv s)
    (hheld : ∃ u, s.slot k = .held u) : CountInv (complete cfg t k r s) := by
  intro k'
  have hk := h k'
  obtain ⟨u, hu⟩ := hheld
  simp only [complete, setCtl_log, setCtl_slot, emit_log, emit_slot, unlock_log, unlock_slot,
    setSlot_log, setSlot_slot, callCount_append_ret, callCount_append_seen, retCount_append_seen,
    retCount_append_ret, upd_apply]
  by_cases hkk : k' = k
  · subst hkk
    rw [hu] at hk
    simp only [Slot.nonEmpty, Slot.isDone] at hk
    simp [Slot.nonEmpty, Slot.isDone, hk.1, hk.2]
  · have hkk' : ¬ k = k' := fun h => hkk h.symm
    simp only [hkk, hkk', if_false, Nat.add_zero]
    exact hk

theorem countInv_lookup (cfg : Cfg) (t k : Nat) (r : List Nat) {s : State} (h : CountInv s) :
    CountInv (lookup cfg t k r s).1 := by
  unfold lookup
  split
  · intro k'; exact h k'
  · intro k'
    have hk := h k'
    simp only [setCtl_log, setCtl_slot, emit_log, emit_slot, unlock_log, unlock_slot,
      setWaiters_log, setWaiters_slot, callCount_append_seen, retCount_append_seen]
    exact hk
  · rename_i hslot
    have key : CountInv (setSlot (emit { setWaiters s k (deregister (s.waiters k) t) with
        requested := (setWaiters s k (deregister (s.waiters k) t)).requested + 1 } (.call k)) k (.held t)) := by
      intro k'
      have hk := h k'
      simp only [setSlot_log, setSlot_slot, emit_log, emit_slot, callCount_append_call,
        retCount_append_call, upd_apply]
      by_cases hkk : k' = k
      · subst hkk
        rw [hslot] at hk
        simp only [Slot.nonEmpty, Slot.isDone] at hk
        simp only [if_true, Slot.nonEmpty, Slot.isDone]
        refine ⟨?_, hk.2⟩
        show callCount k' s.log + 1 = 1
        have := hk.1
        simp at this
        omega
      · have hkk' : ¬ k = k' := fun h => hkk h.symm
        simp only [hkk, hkk', if_false, Nat.add_zero]
        exact hk
    split
    · refine countInv_complete cfg t k r (s := setCtl _ t (.inSup k 0) r) ?_ ⟨t, by simp⟩
      intro k'; exact key k'
    · intro k'; exact key k'

theorem countInv_runReady (cfg : Cfg) (t : Nat) (ks : List Nat) {s : State} (h : CountInv s) :
    CountInv (runReady cfg t ks s) := by
  induction ks generalizing s with
  | nil => intro k; exact h k
  | cons k r ih =>
    unfold runReady
    have hl := countInv_lookup cfg t k r h
    split
    · rename_i s' heq; rw [heq] at hl; exact ih hl
    · rename_i s' heq; rw [heq] at hl; exact hl

theorem countInv_poll (cfg : Cfg) (t : Nat) {s : State} (hA : InvA cfg s) (h : CountInv s) :
    CountInv (poll cfg t s) := by
  unfold poll
  simp only
  have hw : CountInv (setWoken s t false) := fun k => h k
  split
  · exact h
  · exact countInv_runReady cfg t _ hw
  · rename_i k _
    have hl := countInv_lookup cfg t k (s.task t).rest hw
    split
    · rename_i s' heq; rw [heq] at hl; exact countInv_runReady cfg t _ hl
    · rename_i s' heq; rw [heq] at hl; exact hl
  · intro k; exact h k
  · rename_i k hc
    have hheld := hA.insup_held t k 0 hc
    exact countInv_runReady cfg t _ (countInv_complete cfg t k _ hw ⟨t, hheld⟩)

theorem countInv_exec (cfg : Cfg) (sched : List Nat) {s : State} (hA : InvA cfg s)
    (h : CountInv s) : CountInv (exec cfg sched s) := by
  induction sched generalizing s with
  | nil => exact h
  | cons t ts ih => exact ih (invA_poll cfg t hA) (countInv_poll cfg t hA h)

theorem countInv_reach (cfg : Cfg) (sched : List Nat) : CountInv (exec cfg sched (init cfg)) :=
  countInv_exec cfg sched (invA_init cfg) (countInv_init cfg)

/-- a key whose slot is not empty is mentioned by some program -/
theorem nonEmpty_mem_allKeys {cfg : Cfg} {s : State} (h : InvA cfg s) {k : Nat}
    (hne : (s.slot k).nonEmpty = true) : k ∈ allKeys cfg := by
  cases hs : s.slot k with
  | empty => simp [hs, Slot.nonEmpty] at hne
  | held u =>
    obtain ⟨n, hn⟩ := h.held_insup k u hs
    exact mem_allKeys_of_prog (mem_prog_of_todo h (t := u) (r := (s.task u).rest) (by simp [todo, hn]))
  | done r =>
    obtain ⟨u, hu⟩ := h.done_seen k r hs
    obtain ⟨k', hk', he⟩ := List.mem_map.mp (seen_mem_expected h hu)
    simp only [expected, Prod.mk.injEq] at he
    exact mem_allKeys_of_prog (he.1 ▸ hk')

/-! ## counting the events of a class of keys -/

/-- number of `call` events whose key satisfies `q` -/
def callsOf (q : Nat → Bool) (log : List Event) : Nat :=
  (log.filter fun e => match e with
    | .call s => q s
    | _ => false).length

/-- number of `ret` events whose key satisfies `q` -/
def retsOf (q : Nat → Bool) (log : List Event) : Nat :=
  (log.filter fun e => match e with
    | .ret s => q s
    | _ => false).length

theorem sum_map_zero (K : List Nat) : (K.map fun _ => 0).sum = 0 := by
  induction K with
  | nil => rfl
  | cons a K ih => simp [ih]

theorem sum_indicator_nodup {K : List Nat} (hn : K.Nodup) {s : Nat} (hs : s ∈ K) (f g : Nat → Nat)
    (hfs : f s = g s + 1) (hoth : ∀ j, j ≠ s → f j = g j) :
    (K.map f).sum = (K.map g).sum + 1 := by
  induction K with
  | nil => cases hs
  | cons a K ih =>
    have hn' := List.nodup_cons.mp hn
    by_cases has : a = s
    · subst has
      have hrest : K.map f = K.map g := by
        apply List.map_congr_left
        intro j hj
        exact hoth j (fun h => hn'.1 (h ▸ hj))
      simp only [List.map_cons, List.sum_cons, hrest, hfs]; omega
    · have hs' : s ∈ K := by
        cases hs with
        | head => exact absurd rfl has
        | tail _ h => exact h
      have := ih hn'.2 hs'
      simp only [List.map_cons, List.sum_cons, hoth a has, this]; omega

theorem callsOf_eq_sum (q : Nat → Bool) {K : List Nat} (hn : K.Nodup) (log : List Event)
    (hmem : ∀ s, Event.call s ∈ log → s ∈ K) :
    callsOf q log = (K.map fun k => if q k then callCount k log else 0).sum := by
  induction log with
  | nil => simp [callsOf, callCount, sum_map_zero]
  | cons e l ih =>
    have ih' := ih (fun s hs => hmem s (List.mem_cons_of_mem _ hs))
    cases e with
    | call s =>
      have hsK : s ∈ K := hmem s (by simp)
      by_cases hq : q s = true
      · have : callsOf q (Event.call s :: l) = callsOf q l + 1 := by simp [callsOf, hq]
        rw [this, ih']
        symm
        apply sum_indicator_nodup hn hsK
        · simp [hq, callCount]
        · intro j hj
          have : ¬ s = j := fun h => hj h.symm
          simp [callCount, this]
      · have hq' : q s = false := by simpa using hq
        have : callsOf q (Event.call s :: l) = callsOf q l := by simp [callsOf, hq']
        rw [this, ih']
        apply congrArg
        apply List.map_congr_left
        intro j _
        by_cases hj : s = j
        · subst hj; simp [hq']
        · simp [callCount, hj]
    | ret s =>
      have : callsOf q (Event.ret s :: l) = callsOf q l := by simp [callsOf]
      rw [this, ih']
      apply congrArg
      apply List.map_congr_left
      intro j _
      simp [callCount, List.count_cons]
    | seen t s r =>
      have : callsOf q (Event.seen t s r :: l) = callsOf q l := by simp [callsOf]
      rw [this, ih']
      apply congrArg
      apply List.map_congr_left
      intro j _
      simp [callCount, List.count_cons]

theorem retsOf_eq_sum (q : Nat → Bool) {K : List Nat} (hn : K.Nodup) (log : List Event)
    (hmem : ∀ s, Event.ret s ∈ log → s ∈ K) :
    retsOf q log = (K.map fun k => if q k then retCount k log else 0).sum := by
  induction log with
  | nil => simp [retsOf, retCount, sum_map_zero]
  | cons e l ih =>
    have ih' := ih (fun s hs => hmem s (List.mem_cons_of_mem _ hs))
    cases e with
    | ret s =>
      have hsK : s ∈ K := hmem s (by simp)
      by_cases hq : q s = true
      · have : retsOf q (Event.ret s :: l) = retsOf q l + 1 := by simp [retsOf, hq]
        rw [this, ih']
        symm
        apply sum_indicator_nodup hn hsK
        · simp [hq, retCount]
        · intro j hj
          have : ¬ s = j := fun h => hj h.symm
          simp [retCount, this]
      · have hq' : q s = false := by simpa using hq
        have : retsOf q (Event.ret s :: l) = retsOf q l := by simp [retsOf, hq']
        rw [this, ih']
        apply congrArg
        apply List.map_congr_left
        intro j _
        by_cases hj : s = j
        · subst hj; simp [hq']
        · simp [retCount, hj]
    | call s =>
      have : retsOf q (Event.call s :: l) = retsOf q l := by simp [retsOf]
      rw [this, ih']
      apply congrArg
      apply List.map_congr_left
      intro j _
      simp [retCount, List.count_cons]
    | seen t s r =>
      have : retsOf q (Event.seen t s r :: l) = retsOf q l := by simp [retsOf]
      rw [this, ih']
      apply congrArg
      apply List.map_congr_left
      intro j _
      simp [retCount, List.count_cons]

theorem sum_indicator_eq_filter_length (K : List Nat) (q : Nat → Bool) :
    (K.map fun k => if q k then 1 else 0).sum = (K.filter q).length := by
  induction K with
  | nil => rfl
  | cons a K ih =>
    simp only [List.map_cons, List.sum_cons, List.filter_cons, ih]
    split <;> simp <;> omega

theorem count_pos_mem {e : Event} {l : List Event} (h : 0 < l.count e) : e ∈ l :=
  List.count_pos_iff.mp h

/-- calls of the keys in class `q` = number of keys of that class whose slot is no longer empty -/
theorem callsOf_eq_filter {cfg : Cfg} {s : State} (hA : InvA cfg s) (hC : CountInv s)
    (q : Nat → Bool) :
    callsOf q s.log = ((allKeys cfg).filter fun k => q k && (s.slot k).nonEmpty).length := by
  rw [callsOf_eq_sum q (nodup_dedup _) s.log]
  · rw [← sum_indicator_eq_filter_length]
    apply congrArg
    apply List.map_congr_left
    intro k _
    rw [(hC k).1]
    cases q k <;> simp
  · intro k hk
    apply nonEmpty_mem_allKeys hA
    have hc : 0 < callCount k s.log := List.count_pos_iff.mpr hk
    have := (hC k).1
    by_cases hne : (s.slot k).nonEmpty = true
    · exact hne
    · simp [hne] at this; omega

theorem retsOf_eq_filter {cfg : Cfg} {s : State} (hA : InvA cfg s) (hC : CountInv s)
    (q : Nat → Bool) :
    retsOf q s.log = ((allKeys cfg).filter fun k => q k && (s.slot k).isDone).length := by
  rw [retsOf_eq_sum q (nodup_dedup _) s.log]
  · rw [← sum_indicator_eq_filter_length]
    apply congrArg
    apply List.map_congr_left
    intro k _
    rw [(hC k).2]
    cases q k <;> simp
  · intro k hk
    apply nonEmpty_mem_allKeys hA
    have hc : 0 < retCount k s.log := List.count_pos_iff.mpr hk
    have := (hC k).2
    cases hs : s.slot k with
    | empty => simp [hs, Slot.isDone] at this; omega
    | held u => simp [hs, Slot.isDone] at this; omega
    | done r => simp [Slot.nonEmpty]

/-- once every task has finished, every key some program mentions holds a value -/
theorem all_done_of_allFin {cfg : Cfg} {s : State} (hA : InvA cfg s) (hfin : allFin cfg s = true)
    {k : Nat} (hk : k ∈ allKeys cfg) : ∃ r, s.slot k = .done r := by
  obtain ⟨t, ht, hkt⟩ := exists_task_of_key hk
  have hft : isFin s t = true := by
    simp only [allFin, List.all_eq_true, List.mem_range] at hfin
    exact hfin t ht
  have hres := hA.results t
  simp only [isFin, beq_iff_eq] at hft
  simp only [todo, hft, List.map_nil, List.append_nil] at hres
  have hm : expected cfg k ∈ seenBy t s.log := by
    rw [hres]; exact List.mem_map.mpr ⟨k, hkt, rfl⟩
  exact hA.seen_done t k _ (mem_seenBy.mp hm)

end MdModel.Once
