/-
  Helper lemmas for C12 (MdModel.Once): field projections of the state helpers, and the
  "at most one supplier call per key" invariant.
-/
import MdModel.OnceCore
namespace MdModel.Once
open MdModel

/-! ## function update -/

@[simp] theorem upd_same {α : Type} (f : Nat → α) (i : Nat) (v : α) : upd f i v i = v := by
  simp [upd]

theorem upd_other {α : Type} (f : Nat → α) {i j : Nat} (v : α) (h : j ≠ i) : upd f i v j = f j := by
  simp [upd, h]

theorem upd_apply {α : Type} (f : Nat → α) (i j : Nat) (v : α) :
    upd f i v j = if j = i then v else f j := rfl

/-! ## projections of the state helpers -/

section proj
variable (s : State) (t k : Nat) (c : Ctl) (r : List Nat) (b : Bool) (e : Event) (v : Slot)
  (ws : List (Nat × Bool))

@[simp] theorem setCtl_slot : (setCtl s t c r).slot = s.slot := rfl
@[simp] theorem setCtl_waiters : (setCtl s t c r).waiters = s.waiters := rfl
@[simp] theorem setCtl_log : (setCtl s t c r).log = s.log := rfl
@[simp] theorem setCtl_requested : (setCtl s t c r).requested = s.requested := rfl
@[simp] theorem setCtl_processed : (setCtl s t c r).processed = s.processed := rfl
@[simp] theorem setCtl_task :
    (setCtl s t c r).task = upd s.task t ⟨c, r, (s.task t).woken⟩ := rfl

@[simp] theorem setWoken_slot : (setWoken s t b).slot = s.slot := rfl
@[simp] theorem setWoken_waiters : (setWoken s t b).waiters = s.waiters := rfl
@[simp] theorem setWoken_log : (setWoken s t b).log = s.log := rfl
@[simp] theorem setWoken_requested : (setWoken s t b).requested = s.requested := rfl
@[simp] theorem setWoken_processed : (setWoken s t b).processed = s.processed := rfl
@[simp] theorem setWoken_task :
    (setWoken s t b).task = upd s.task t ⟨(s.task t).ctl, (s.task t).rest, b⟩ := rfl

@[simp] theorem emit_slot : (emit s e).slot = s.slot := rfl
@[simp] theorem emit_waiters : (emit s e).waiters = s.waiters := rfl
@[simp] theorem emit_log : (emit s e).log = s.log ++ [e] := rfl
@[simp] theorem emit_requested : (emit s e).requested = s.requested := rfl
@[simp] theorem emit_processed : (emit s e).processed = s.processed := rfl
@[simp] theorem emit_task : (emit s e).task = s.task := rfl

@[simp] theorem setSlot_slot : (setSlot s k v).slot = upd s.slot k v := rfl
@[simp] theorem setSlot_waiters : (setSlot s k v).waiters = s.waiters := rfl
@[simp] theorem setSlot_log : (setSlot s k v).log = s.log := rfl
@[simp] theorem setSlot_requested : (setSlot s k v).requested = s.requested := rfl
@[simp] theorem setSlot_processed : (setSlot s k v).processed = s.processed := rfl
@[simp] theorem setSlot_task : (setSlot s k v).task = s.task := rfl

@[simp] theorem setWaiters_slot : (setWaiters s k ws).slot = s.slot := rfl
@[simp] theorem setWaiters_waiters : (setWaiters s k ws).waiters = upd s.waiters k ws := rfl
@[simp] theorem setWaiters_log : (setWaiters s k ws).log = s.log := rfl
@[simp] theorem setWaiters_requested : (setWaiters s k ws).requested = s.requested := rfl
@[simp] theorem setWaiters_processed : (setWaiters s k ws).processed = s.processed := rfl
@[simp] theorem setWaiters_task : (setWaiters s k ws).task = s.task := rfl

@[simp] theorem unlock_slot : (unlock s k).slot = s.slot := by
  unfold unlock; split <;> rfl
@[simp] theorem unlock_log : (unlock s k).log = s.log := by
  unfold unlock; split <;> rfl
@[simp] theorem unlock_requested : (unlock s k).requested = s.requested := by
  unfold unlock; split <;> rfl
@[simp] theorem unlock_processed : (unlock s k).processed = s.processed := by
  unfold unlock; split <;> rfl

end proj

/-! ## at most one supplier call per key -/

/-- the number of `call k` events is 0 while the slot of `k` is empty and at most 1 afterwards -/
def CallInv (s : State) : Prop :=
  ∀ k, callCount k s.log ≤ 1 ∧ (s.slot k = .empty → callCount k s.log = 0)

theorem callCount_append (k : Nat) (l : List Event) (e : Event) :
    callCount k (l ++ [e]) = callCount k l + (if e = .call k then 1 else 0) := by
  simp only [callCount, List.count_append, List.count_cons, List.count_nil, beq_iff_eq]
  omega

theorem callCount_append_call (k k' : Nat) (l : List Event) :
    callCount k' (l ++ [.call k]) = callCount k' l + (if k = k' then 1 else 0) := by
  rw [callCount_append]; simp

@[simp] theorem callCount_append_ret (k k' : Nat) (l : List Event) :
    callCount k' (l ++ [.ret k]) = callCount k' l := by
  rw [callCount_append]; simp

@[simp] theorem callCount_append_seen (t k k' : Nat) (r : Res) (l : List Event) :
    callCount k' (l ++ [.seen t k r]) = callCount k' l := by
  rw [callCount_append]; simp

theorem callInv_init (cfg : Cfg) : CallInv (init cfg) := by
  intro k; simp [init, callCount]

theorem callInv_complete (cfg : Cfg) (t k : Nat) (r : List Nat) {s : State} (h : CallInv s) :
    CallInv (complete cfg t k r s) := by
  intro k'
  have hk := h k'
  simp only [complete, setCtl_log, setCtl_slot, emit_log, emit_slot, unlock_log, unlock_slot,
    setSlot_log, setSlot_slot, callCount_append_ret, callCount_append_seen, upd_apply]
  refine ⟨hk.1, ?_⟩
  by_cases hkk : k' = k
  · simp [hkk]
  · simp only [hkk, if_false]; exact hk.2

theorem callInv_lookup (cfg : Cfg) (t k : Nat) (r : List Nat) {s : State} (h : CallInv s) :
    CallInv (lookup cfg t k r s).1 := by
  unfold lookup
  split
  · -- held
    intro k'; exact h k'
  · -- done
    intro k'
    have hk := h k'
    simp only [setCtl_log, setCtl_slot, emit_log, emit_slot, unlock_log, unlock_slot,
      setWaiters_log, setWaiters_slot, callCount_append_seen]
    exact hk
  · -- empty
    rename_i hslot
    have key : CallInv (setSlot (emit { setWaiters s k (deregister (s.waiters k) t) with
        requested := (setWaiters s k (deregister (s.waiters k) t)).requested + 1 } (.call k)) k (.held t)) := by
      intro k'
      have hk := h k'
      simp only [setSlot_log, setSlot_slot, emit_log, emit_slot, callCount_append_call, upd_apply]
      by_cases hkk : k' = k
      · subst hkk
        have h0 := hk.2 hslot
        simp only [if_true]
        show callCount k' s.log + 1 ≤ 1 ∧ _
        refine ⟨by omega, ?_⟩
        intro hc; cases hc
      · have hkk' : ¬ k = k' := fun h => hkk h.symm
        simp only [hkk, hkk', if_false, Nat.add_zero]
        exact hk
    split
    · exact callInv_complete cfg t k r key
    · intro k'; exact key k'

theorem callInv_runReady (cfg : Cfg) (t : Nat) (ks : List Nat) {s : State} (h : CallInv s) :
    CallInv (runReady cfg t ks s) := by
  induction ks generalizing s with
  | nil => intro k; exact h k
  | cons k r ih =>
    unfold runReady
    have hl := callInv_lookup cfg t k r h
    split
    · rename_i s' heq; rw [heq] at hl; exact ih hl
    · rename_i s' heq; rw [heq] at hl; exact hl

theorem callInv_setWoken (s : State) (t : Nat) (b : Bool) (h : CallInv s) :
    CallInv (setWoken s t b) := by
  intro k; exact h k

theorem callInv_poll (cfg : Cfg) (t : Nat) {s : State} (h : CallInv s) : CallInv (poll cfg t s) := by
  unfold poll
  simp only
  split
  · exact h
  · exact callInv_runReady cfg t _ (callInv_setWoken s t false h)
  · rename_i k _
    have hl := callInv_lookup cfg t k (s.task t).rest (callInv_setWoken s t false h)
    split
    · rename_i s' heq; rw [heq] at hl; exact callInv_runReady cfg t _ hl
    · rename_i s' heq; rw [heq] at hl; exact hl
  · intro k; exact h k
  · exact callInv_runReady cfg t _ (callInv_complete cfg t _ _ (callInv_setWoken s t false h))

theorem callInv_exec (cfg : Cfg) (sched : List Nat) {s : State} (h : CallInv s) :
    CallInv (exec cfg sched s) := by
  induction sched generalizing s with
  | nil => exact h
  | cons t ts ih => exact ih (callInv_poll cfg t h)

end MdModel.Once
