/-
  MdProofs.Lemmas.BytesMisc — `Safe` (no panic outcome, every allocation bounded) for the readers of
  `MdModel.DumpMisc`: Breakpad info, assertion info, macOS crash info (record versions, C-string
  table walk, the printer's indexing), macOS boot args, the `exception_information` reads of the
  crash-reason / crash-address accessors.
-/
import MdModel.DumpMisc
import MdProofs.Lemmas.BytesCtx
namespace MdModel.Dump
open MdModel MdModel.Gen.Layouts MdModel.Gen.LayoutsX

theorem size_assertion : Layout.size MINIDUMP_ASSERTION_INFO = 776 := by decide +kernel
theorem size_mac_header : Layout.size MINIDUMP_MAC_CRASH_INFO = 172 := by decide +kernel
theorem mac_header_length : MINIDUMP_MAC_CRASH_INFO.length = 43 := by decide +kernel

theorem misc_layouts_used :
    MINIDUMP_BREAKPAD_INFO = [("validity", 4), ("dump_thread_id", 4), ("requesting_thread_id", 4)] ∧
    fieldIdx MINIDUMP_ASSERTION_INFO "expression[0]" = some 0 ∧ fieldIdx MINIDUMP_ASSERTION_INFO "function[0]" = some 128 ∧
    fieldIdx MINIDUMP_ASSERTION_INFO "file[0]" = some 256 ∧ fieldIdx MINIDUMP_ASSERTION_INFO "line" = some 384 ∧
    fieldIdx MINIDUMP_ASSERTION_INFO "_type" = some 385 ∧ MINIDUMP_ASSERTION_INFO.length = 386 ∧
    fieldIdx MINIDUMP_MAC_CRASH_INFO "record_count" = some 1 ∧ fieldIdx MINIDUMP_MAC_CRASH_INFO "record_start_size" = some 2 ∧
    fieldIdx MINIDUMP_MAC_CRASH_INFO "records[0].data_size" = some 3 ∧ fieldIdx MINIDUMP_MAC_CRASH_INFO "records[0].rva" = some 4 ∧
    fieldIdx MINIDUMP_MAC_CRASH_INFO "records[19].rva" = some 42 ∧
    MINIDUMP_MAC_CRASH_INFO_RECORD = [("stream_type", 8), ("version", 8)] ∧
    MINIDUMP_MAC_CRASH_INFO_RECORD_4 = [("stream_type", 8), ("version", 8), ("thread", 8), ("dialog_mode", 8)] ∧
    MINIDUMP_MAC_CRASH_INFO_RECORD_5 = [("stream_type", 8), ("version", 8), ("thread", 8), ("dialog_mode", 8), ("abort_cause", 8)] ∧
    MINIDUMP_MAC_BOOTARGS = [("stream_type", 4), ("bootargs", 8)] ∧
    BREAKPAD_VALID_DumpThreadId = 1 ∧ BREAKPAD_VALID_RequestingThreadId = 2 ∧
    NUM_STRINGS_MINIDUMP_MAC_CRASH_INFO_RECORD_STRINGS = 0 ∧ NUM_STRINGS_MINIDUMP_MAC_CRASH_INFO_RECORD_STRINGS_4 = 5 ∧
    NUM_STRINGS_MINIDUMP_MAC_CRASH_INFO_RECORD_STRINGS_5 = 5 := by decide +kernel

/-! ### Breakpad info, assertion -/

theorem readBreakpadInfo_safe {B : Nat} (b : Bytes) (e : Endian) : Safe B (readBreakpadInfo b e) := by
  unfold readBreakpadInfo
  split
  · exact safe_fail _
  · exact safe_pure _

theorem length_takeWhile_le {α : Type} (p : α → Bool) : ∀ l : List α, (l.takeWhile p).length ≤ l.length := by
  intro l
  induction l with
  | nil => simp
  | cons a t ih =>
    simp only [List.takeWhile_cons]
    split
    · simp only [List.length_cons]; omega
    · simp

theorem utf16ToString_safe {B : Nat} (data : List Nat) (h : 3 * data.length ≤ B) : Safe B (utf16ToString data) := by
  unfold utf16ToString
  have hle : (data.takeWhile (· ≠ 0)).length ≤ data.length := length_takeWhile_le _ _
  dsimp only
  rw [if_pos hle]
  exact safe_bind (safe_alloc (by omega)) (fun _ _ => safe_pure _)

theorem readAssertion_safe {B : Nat} (b : Bytes) (e : Endian) (hB : b.size ≤ B) : Safe B (readAssertion b e) := by
  unfold readAssertion
  split
  · exact safe_fail _
  · rename_i v hv
    have hfit := readFields_some hv
    rw [size_assertion] at hfit
    have h776 : 776 ≤ b.size := by
      cases hfit with
      | inl h => exact absurd h (by decide +kernel)
      | inr h => omega
    have hlen : ∀ l : List Nat, 3 * (l.take 128).length ≤ B := by
      intro l
      have : (l.take 128).length ≤ 128 := by simp [List.length_take]; omega
      omega
    refine safe_bind (utf16ToString_safe _ (hlen _)) (fun _ _ => ?_)
    refine safe_bind (utf16ToString_safe _ (hlen _)) (fun _ _ => ?_)
    exact safe_bind (utf16ToString_safe _ (hlen _)) (fun _ _ => safe_pure _)

/-! ### macOS crash info -/

theorem readCStringUtf8_ok {b s : Bytes} {off stop : Nat} (h : (readCStringUtf8 b off).res = .ok (some (s, stop))) :
    s.size ≤ b.size := by
  unfold readCStringUtf8 at h
  split at h
  · cases h
  · obtain ⟨last, _, h⟩ := bind_ok h
    obtain ⟨s', hs', h⟩ := bind_ok h
    have := pure_ok h
    cases this
    have := (sliceRange_ok hs').1
    subst this
    simp only [Array.size_extract]
    omega

theorem readCStringUtf8X_safe {B : Nat} (b : Bytes) (off : Nat) (hB : b.size ≤ B) : Safe B (readCStringUtf8X b off) := by
  unfold readCStringUtf8X
  refine safe_bind (readCStringUtf8_safe b off) (fun r hr => ?_)
  split
  · exact safe_pure _
  · rename_i s stop
    have := readCStringUtf8_ok hr
    split
    · exact safe_bind (safe_alloc (by omega)) (fun _ _ => safe_pure _)
    · exact safe_pure _

theorem readCStrings_safe {B : Nat} (rec : Bytes) (hB : rec.size ≤ B) : ∀ (n off : Nat), Safe B (readCStrings rec n off) := by
  intro n
  induction n with
  | zero => intro off; exact safe_pure _
  | succ n ih =>
    intro off
    unfold readCStrings
    refine safe_bind (readCStringUtf8X_safe rec off hB) (fun r _ => ?_)
    split
    · exact safe_fail _
    · exact safe_bind (ih _) (fun _ _ => safe_pure _)

theorem readMacVariant_safe {B : Nat} (rec : Bytes) (e : Endian) (so variant : Nat) (l : Layout) (n : Nat) (hB : rec.size ≤ B) :
    Safe B (readMacVariant rec e so variant l n) := by
  unfold readMacVariant
  split
  · exact safe_fail _
  · split
    · exact safe_fail _
    · exact safe_bind (readCStrings_safe rec hB _ _) (fun _ _ => safe_pure _)

theorem readMacRecord_safe {B : Nat} (all : Bytes) (e : Endian) (so : Nat) (loc : Loc) (prev : Option Nat) (hB : all.size ≤ B) :
    Safe B (readMacRecord all e so loc prev) := by
  unfold readMacRecord
  split
  · exact safe_fail _
  · rename_i rec hrec
    have hr : rec.size ≤ B := Nat.le_trans (locationSlice_size hrec) hB
    split
    · exact safe_fail _
    · dsimp only
      split
      · exact safe_fail _
      · split
        · exact safe_bind (readMacVariant_safe _ _ _ _ _ _ hr) (fun _ _ => safe_pure _)
        · split
          · exact safe_bind (readMacVariant_safe _ _ _ _ _ _ hr) (fun _ _ => safe_pure _)
          · split
            · exact safe_bind (readMacVariant_safe _ _ _ _ _ _ hr) (fun _ _ => safe_pure _)
            · exact safe_pure _

theorem readMacRecords_safe {B : Nat} (all : Bytes) (e : Endian) (so : Nat) (hB : all.size ≤ B) :
    ∀ (locs : List Loc) (prev : Option Nat), Safe B (readMacRecords all e so locs prev) := by
  intro locs
  induction locs with
  | nil => intro prev; exact safe_pure _
  | cons loc rest ih =>
    intro prev
    unfold readMacRecords
    refine safe_bind (readMacRecord_safe all e so loc prev hB) (fun r _ => ?_)
    exact safe_bind (ih _) (fun _ _ => safe_pure _)

theorem readMacCrashInfo_safe {B : Nat} (b all : Bytes) (e : Endian) (hB : all.size ≤ B) :
    Safe B (readMacCrashInfo b all e) := by
  unfold readMacCrashInfo
  split
  · exact safe_fail _
  · exact readMacRecords_safe all e _ hB _ _

/-- the record loop runs at most 20 times, whatever `record_count` says -/
theorem macRecordLocs_length : ∀ (v : List Nat), (macRecordLocs v).length ≤ v.length / 2 := by
  intro v
  induction v using macRecordLocs.induct with
  | case1 sz rva rest ih => simp only [macRecordLocs, List.length_cons]; omega
  | case2 v h =>
    cases v with
    | nil => simp [macRecordLocs]
    | cons a t =>
      cases t with
      | nil => simp [macRecordLocs]
      | cons c t' => exact absurd rfl (h a c t')

theorem readMacRecords_length (all : Bytes) (e : Endian) (so : Nat) :
    ∀ (locs : List Loc) (prev : Option Nat) (rs : List MacRecord),
      (readMacRecords all e so locs prev).res = .ok rs → rs.length ≤ locs.length := by
  intro locs
  induction locs with
  | nil => intro prev rs h; have := pure_ok h; subst this; simp
  | cons loc rest ih =>
    intro prev rs h
    unfold readMacRecords at h
    obtain ⟨r, _, h⟩ := bind_ok h
    obtain ⟨rs', hrs', h⟩ := bind_ok h
    have := pure_ok h
    subst this
    have := ih _ _ hrs'
    cases r.2 <;> simp <;> omega

theorem macRecordAt_safe {B : Nat} (rs : List MacRecord) (i : Nat) (h : i < rs.length) : Safe B (macRecordAt rs i) := by
  unfold macRecordAt
  rw [List.getElem?_eq_getElem h]
  exact safe_pure _

/-! ### boot args, crash reason inputs -/

theorem readMacBootargs_safe {B : Nat} (b all : Bytes) (e : Endian) (hsz : SliceLen all.size) (hB : 2 * all.size ≤ B) :
    Safe B (readMacBootargs b all e) := by
  unfold readMacBootargs
  split
  · exact safe_fail _
  · exact safe_bind (readStringUtf16_safe _ _ _ hsz hB) (fun _ _ => safe_pure _)

theorem infoAt_safe {B : Nat} (x : Exception) (i : Nat) (h : i < x.info.length) : Safe B (infoAt x i) := by
  unfold infoAt
  rw [List.getElem?_eq_getElem h]
  exact safe_pure _

/-- `exception_information[0]`, `[1]`, `[2]` exist for every exception stream that could be read -/
theorem reasonInputs_safe {B : Nat} (x : Exception) (h : x.info.length = 15) : Safe B (reasonInputs x) := by
  unfold reasonInputs
  refine safe_bind (infoAt_safe x 0 (by omega)) (fun _ _ => ?_)
  refine safe_bind (infoAt_safe x 1 (by omega)) (fun _ _ => ?_)
  exact safe_bind (infoAt_safe x 2 (by omega)) (fun _ _ => safe_pure _)

/-! ### the C-string scan ends: `len + 1` steps always suffice -/

/-- once the fuel covers the rest of the buffer, more fuel changes nothing: a `none` of
    `cstringScan b (b.size + 1) off` is a genuine "no NUL before the end", never an exhausted loop -/
theorem cstringScan_enough (b : Bytes) : ∀ (fuel off : Nat), b.size + 1 ≤ fuel + off →
    cstringScan b (fuel + 1) off = cstringScan b fuel off := by
  intro fuel
  induction fuel with
  | zero =>
    intro off h
    have : readScalar b off 1 .little = none := by
      unfold readScalar; rw [if_pos (by omega)]
    simp [cstringScan, this]
  | succ f ih =>
    intro off h
    rw [cstringScan]
    conv => rhs; rw [cstringScan]
    split
    · rfl
    · rfl
    · exact ih (off + 1) (by omega)

theorem cstringScan_fuel_irrelevant (b : Bytes) (off extra : Nat) :
    cstringScan b (b.size + 1 + extra) off = cstringScan b (b.size + 1) off := by
  induction extra with
  | zero => rfl
  | succ n ih =>
    rw [← ih]
    have h : b.size + 1 + (n + 1) = (b.size + 1 + n) + 1 := by omega
    rw [h]
    exact cstringScan_enough b (b.size + 1 + n) off (by omega)


end MdModel.Dump
