/-
  C12 helper lemmas: the progress measure. Every poll is non-increasing in `measure`, and a poll of
  a task that is neither finished nor blocked on a held lock strictly decreases it.
-/
import MdProofs.Lemmas.OnceInv
namespace MdModel.Once
open MdModel

/-- tasks other than `t` keep their control state and program -/
def OtherSame (t : Nat) (s s' : State) : Prop :=
  ∀ u, u ≠ t → (s'.task u).ctl = (s.task u).ctl ∧ (s'.task u).rest = (s.task u).rest

theorem otherSame_refl (t : Nat) (s : State) : OtherSame t s s := fun _ _ => ⟨rfl, rfl⟩

theorem otherSame_trans {t : Nat} {a b c : State} (h1 : OtherSame t a b) (h2 : OtherSame t b c) :
    OtherSame t a c := fun u hu =>
  ⟨(h2 u hu).1.trans (h1 u hu).1, (h2 u hu).2.trans (h1 u hu).2⟩

theorem otherSame_of_sameCore {t : Nat} {s s' : State} (h : SameCore s s') : OtherSame t s s' :=
  fun u _ => h.1 u

theorem otherSame_setCtl (s : State) (t : Nat) (c : Ctl) (r : List Nat) :
    OtherSame t s (setCtl s t c r) := by
  intro u hu; simp [upd_apply, hu]

theorem otherSame_complete (cfg : Cfg) (t k : Nat) (r : List Nat) (s : State) :
    OtherSame t s (complete cfg t k r s) := by
  unfold complete
  refine otherSame_trans ?_ (otherSame_of_sameCore (sameCore_unlock _ k))
  intro u hu; simp [upd_apply, hu]

theorem otherSame_lookup (cfg : Cfg) (t k : Nat) (r : List Nat) (s : State) :
    OtherSame t s (lookup cfg t k r s).1 := by
  unfold lookup
  split
  · intro u hu; simp [upd_apply, hu]
  · refine otherSame_trans ?_ (otherSame_of_sameCore (sameCore_unlock _ k))
    intro u hu; simp [upd_apply, hu]
  · split
    · refine otherSame_trans ?_ (otherSame_complete cfg t k r _)
      intro u hu; simp [upd_apply, hu]
    · intro u hu; simp [upd_apply, hu]

theorem otherSame_runReady (cfg : Cfg) (t : Nat) (ks : List Nat) (s : State) :
    OtherSame t s (runReady cfg t ks s) := by
  induction ks generalizing s with
  | nil => exact otherSame_setCtl s t .fin []
  | cons k r ih =>
    unfold runReady
    have hl := otherSame_lookup cfg t k r s
    split
    · rename_i s' heq; rw [heq] at hl; exact otherSame_trans hl (ih s')
    · rename_i s' heq; rw [heq] at hl; exact hl

theorem otherSame_poll (cfg : Cfg) (t : Nat) (s : State) : OtherSame t s (poll cfg t s) := by
  unfold poll
  simp only
  have hw : OtherSame t s (setWoken s t false) := otherSame_of_sameCore (sameCore_setWoken s t false)
  split
  · exact otherSame_refl t s
  · exact otherSame_trans hw (otherSame_runReady cfg t _ _)
  · rename_i k _
    have hl := otherSame_lookup cfg t k (s.task t).rest (setWoken s t false)
    split
    · rename_i s' heq; rw [heq] at hl
      exact otherSame_trans hw (otherSame_trans hl (otherSame_runReady cfg t _ _))
    · rename_i s' heq; rw [heq] at hl; exact otherSame_trans hw hl
  · exact otherSame_trans (otherSame_setCtl s t _ _)
      (otherSame_of_sameCore (sameCore_setWoken _ t true))
  · exact otherSame_trans hw (otherSame_trans (otherSame_complete cfg t _ _ _)
      (otherSame_runReady cfg t _ _))

/-! ## the measure of the polled task -/

theorem taskMeasure_congr (cfg : Cfg) {T T' : Task} (h1 : T'.ctl = T.ctl) (h2 : T'.rest = T.rest) :
    taskMeasure cfg T' = taskMeasure cfg T := by
  simp [taskMeasure, h1, h2]

theorem cost_cons (cfg : Cfg) (k : Nat) (r : List Nat) :
    cost cfg (k :: r) = (cfg.sup k).delay + 3 + cost cfg r := by
  simp [cost]

/-- after `lookup`: completed → `ready` with program `r`; otherwise the task's measure is at most
    that of `waiting k`, and smaller when the lock was not held -/
theorem lookup_measure (cfg : Cfg) (t k : Nat) (r : List Nat) (s : State) :
    ((lookup cfg t k r s).2 = true →
      ((lookup cfg t k r s).1.task t).ctl = .ready ∧ ((lookup cfg t k r s).1.task t).rest = r) ∧
    ((lookup cfg t k r s).2 = false →
      taskMeasure cfg ((lookup cfg t k r s).1.task t) ≤ (cfg.sup k).delay + 3 + cost cfg r ∧
      ((∀ u, s.slot k ≠ .held u) →
        taskMeasure cfg ((lookup cfg t k r s).1.task t) ≤ (cfg.sup k).delay + 1 + cost cfg r)) := by
  unfold lookup
  split
  · rename_i u hs
    refine ⟨by simp, fun _ => ⟨by simp [taskMeasure], fun h => absurd hs (h u)⟩⟩
  · rename_i res _
    refine ⟨fun _ => ?_, by simp⟩
    have := (sameCore_unlock (setCtl (emit (setWaiters s k (deregister (s.waiters k) t))
      (.seen t k res)) t .ready r) k).1 t
    simp only [setCtl_task, upd_same] at this
    exact this
  · split
    · exact ⟨fun _ => complete_task .., by simp⟩
    · rename_i n hd
      refine ⟨by simp, fun _ => ?_⟩
      simp only [setWoken_task, setCtl_task, upd_same, taskMeasure, hd]
      omega

theorem runReady_measure (cfg : Cfg) (t : Nat) (ks : List Nat) (s : State) :
    taskMeasure cfg ((runReady cfg t ks s).task t) ≤ cost cfg ks := by
  induction ks generalizing s with
  | nil => simp [runReady, taskMeasure]
  | cons k r ih =>
    unfold runReady
    have hl := lookup_measure cfg t k r s
    rw [cost_cons]
    split
    · rename_i s' heq
      have := ih s'
      omega
    · rename_i s' heq
      rw [heq] at hl
      exact (hl.2 rfl).1

/-- a task is blocked when it waits for a lock that is held -/
def blocked (s : State) (t : Nat) : Prop :=
  ∃ k u, (s.task t).ctl = .waiting k ∧ s.slot k = .held u

theorem poll_task_le (cfg : Cfg) (t : Nat) (s : State) :
    taskMeasure cfg ((poll cfg t s).task t) ≤ taskMeasure cfg (s.task t) := by
  unfold poll
  simp only
  split
  · exact Nat.le_refl _
  · rename_i hc
    have := runReady_measure cfg t (s.task t).rest (setWoken s t false)
    have hm : taskMeasure cfg (s.task t) = cost cfg (s.task t).rest + 1 := by
      simp [taskMeasure, hc]
    rw [hm]
    omega
  · rename_i k hc
    have hl := lookup_measure cfg t k (s.task t).rest (setWoken s t false)
    split
    · rename_i s' heq
      have := runReady_measure cfg t (s.task t).rest s'
      have hm : taskMeasure cfg (s.task t) = (cfg.sup k).delay + 3 + cost cfg (s.task t).rest := by
        simp [taskMeasure, hc]
      rw [hm]
      omega
    · rename_i s' heq
      rw [heq] at hl
      have := (hl.2 rfl).1
      have hm : taskMeasure cfg (s.task t) = (cfg.sup k).delay + 3 + cost cfg (s.task t).rest := by
        simp [taskMeasure, hc]
      rw [hm]
      exact this
  · rename_i k n hc
    simp [taskMeasure, hc]
  · rename_i k hc
    have := runReady_measure cfg t (s.task t).rest (complete cfg t k (s.task t).rest (setWoken s t false))
    have hm : taskMeasure cfg (s.task t) = 0 + 2 + cost cfg (s.task t).rest := by
      simp [taskMeasure, hc]
    rw [hm]
    omega

theorem poll_task_lt (cfg : Cfg) (t : Nat) (s : State) (hfin : (s.task t).ctl ≠ .fin)
    (hnb : ¬ blocked s t) :
    taskMeasure cfg ((poll cfg t s).task t) < taskMeasure cfg (s.task t) := by
  unfold poll
  simp only
  split
  · rename_i hc; exact absurd hc hfin
  · rename_i hc
    have := runReady_measure cfg t (s.task t).rest (setWoken s t false)
    have hm : taskMeasure cfg (s.task t) = cost cfg (s.task t).rest + 1 := by
      simp [taskMeasure, hc]
    rw [hm]
    omega
  · rename_i k hc
    have hl := lookup_measure cfg t k (s.task t).rest (setWoken s t false)
    have hfree : ∀ u, (setWoken s t false).slot k ≠ .held u := by
      intro u hu
      exact hnb ⟨k, u, hc, hu⟩
    split
    · rename_i s' heq
      have := runReady_measure cfg t (s.task t).rest s'
      have hm : taskMeasure cfg (s.task t) = (cfg.sup k).delay + 3 + cost cfg (s.task t).rest := by
        simp [taskMeasure, hc]
      rw [hm]
      omega
    · rename_i s' heq
      rw [heq] at hl
      have : taskMeasure cfg (s'.task t) ≤ (cfg.sup k).delay + 1 + cost cfg (s.task t).rest :=
        (hl.2 rfl).2 hfree
      have hm : taskMeasure cfg (s.task t) = (cfg.sup k).delay + 3 + cost cfg (s.task t).rest := by
        simp [taskMeasure, hc]
      rw [hm]
      omega
  · rename_i k n hc
    simp [taskMeasure, hc]
  · rename_i k hc
    have := runReady_measure cfg t (s.task t).rest (complete cfg t k (s.task t).rest (setWoken s t false))
    have hm : taskMeasure cfg (s.task t) = 0 + 2 + cost cfg (s.task t).rest := by
      simp [taskMeasure, hc]
    rw [hm]
    omega

/-! ## the global measure -/

theorem sum_range_change (f g : Nat → Nat) (t n : Nat) (h : ∀ u, u ≠ t → f u = g u) :
    (t < n → ((List.range n).map f).sum + g t = ((List.range n).map g).sum + f t) ∧
    (n ≤ t → ((List.range n).map f).sum = ((List.range n).map g).sum) := by
  induction n with
  | zero => simp
  | succ n ih =>
    simp only [List.range_succ, List.map_append, List.map_cons, List.map_nil, List.sum_append,
      List.sum_cons, List.sum_nil, Nat.add_zero]
    constructor
    · intro ht
      by_cases htn : t = n
      · subst htn
        have := ih.2 (Nat.le_refl _)
        omega
      · have := ih.1 (by omega)
        have := h n (fun e => htn e.symm)
        omega
    · intro ht
      have := ih.2 (by omega)
      have := h n (by omega)
      omega

theorem measure_poll (cfg : Cfg) (t : Nat) (s : State) :
    (t < cfg.ntasks → measure cfg (poll cfg t s) + taskMeasure cfg (s.task t)
        = measure cfg s + taskMeasure cfg ((poll cfg t s).task t)) ∧
    (cfg.ntasks ≤ t → measure cfg (poll cfg t s) = measure cfg s) := by
  have ho := otherSame_poll cfg t s
  have := sum_range_change (fun u => taskMeasure cfg ((poll cfg t s).task u))
    (fun u => taskMeasure cfg (s.task u)) t cfg.ntasks
    (fun u hu => taskMeasure_congr cfg (ho u hu).1 (ho u hu).2)
  exact this

/-- every poll is non-increasing in the measure -/
theorem measure_poll_le (cfg : Cfg) (t : Nat) (s : State) :
    measure cfg (poll cfg t s) ≤ measure cfg s := by
  have hm := measure_poll cfg t s
  have hle := poll_task_le cfg t s
  by_cases ht : t < cfg.ntasks
  · have := hm.1 ht; omega
  · have := hm.2 (by omega); omega

/-- a poll of an unfinished, unblocked task strictly decreases the measure -/
theorem measure_poll_lt (cfg : Cfg) (t : Nat) (s : State) (ht : t < cfg.ntasks)
    (hfin : (s.task t).ctl ≠ .fin) (hnb : ¬ blocked s t) :
    measure cfg (poll cfg t s) < measure cfg s := by
  have hm := (measure_poll cfg t s).1 ht
  have hlt := poll_task_lt cfg t s hfin hnb
  omega

theorem measure_exec_le (cfg : Cfg) (sched : List Nat) (s : State) :
    measure cfg (exec cfg sched s) ≤ measure cfg s := by
  induction sched generalizing s with
  | nil => exact Nat.le_refl _
  | cons t ts ih => exact Nat.le_trans (ih _) (measure_poll_le cfg t s)

/-- in a state satisfying the invariant with an unfinished task, some unfinished task is not
    blocked -/
theorem exists_unblocked {cfg : Cfg} {s : State} (h : InvA cfg s) (hnf : allFin cfg s = false) :
    ∃ t, t < cfg.ntasks ∧ (s.task t).ctl ≠ .fin ∧ ¬ blocked s t := by
  have : ∃ t, t < cfg.ntasks ∧ (s.task t).ctl ≠ .fin := by
    simp only [allFin, List.all_eq_false, List.mem_range, isFin, beq_iff_eq] at hnf
    exact hnf
  obtain ⟨t, ht, hf⟩ := this
  by_cases hb : blocked s t
  · obtain ⟨k, u, _, hs⟩ := hb
    obtain ⟨n, hn⟩ := h.held_insup k u hs
    have hu : u < cfg.ntasks := by
      by_cases hu : u < cfg.ntasks
      · exact hu
      · have := h.ghost u (by omega); rw [hn] at this; cases this
    refine ⟨u, hu, by simp [hn], ?_⟩
    rintro ⟨k', u', hw, _⟩
    rw [hn] at hw; cases hw
  · exact ⟨t, ht, hf, hb⟩

/-! ## fairness: rounds that poll every task -/

theorem poll_of_fin (cfg : Cfg) (t : Nat) (s : State) (h : (s.task t).ctl = .fin) :
    poll cfg t s = s := by
  unfold poll; simp [h]

theorem poll_blocked_slot (cfg : Cfg) (t : Nat) (s : State) (h : blocked s t) :
    (poll cfg t s).slot = s.slot := by
  obtain ⟨k, u, hc, hs⟩ := h
  unfold poll
  simp only [hc]
  unfold lookup
  simp [hs]

theorem exec_append (cfg : Cfg) (a b : List Nat) (s : State) :
    exec cfg (a ++ b) s = exec cfg b (exec cfg a s) := by
  induction a generalizing s with
  | nil => rfl
  | cons t ts ih => exact ih _

/-- a poll that does not decrease the measure is a poll of a finished or blocked task; it leaves
    every slot and every control state as it was -/
theorem poll_stutter {cfg : Cfg} {s : State} (h : InvA cfg s) (u : Nat)
    (hm : ¬ measure cfg (poll cfg u s) < measure cfg s) :
    (poll cfg u s).slot = s.slot ∧ ∀ t, ((poll cfg u s).task t).ctl = (s.task t).ctl := by
  by_cases hf : (s.task u).ctl = .fin
  · rw [poll_of_fin cfg u s hf]; exact ⟨rfl, fun _ => rfl⟩
  · have hu : u < cfg.ntasks := by
      by_cases hu : u < cfg.ntasks
      · exact hu
      · exact absurd (h.ghost u (by omega)) hf
    have hb : blocked s u := by
      by_cases hb : blocked s u
      · exact hb
      · exact absurd (measure_poll_lt cfg u s hu hf hb) hm
    refine ⟨poll_blocked_slot cfg u s hb, fun t => ?_⟩
    by_cases htu : t = u
    · subst htu
      obtain ⟨k, v, hc, hs⟩ := hb
      unfold poll
      simp only [hc]
      unfold lookup
      simp [hs]
    · exact (otherSame_poll cfg u s t htu).1

/-- if an unfinished, unblocked task occurs in `r`, running `r` strictly decreases the measure -/
theorem exec_decreases {cfg : Cfg} (r : List Nat) {s : State} (h : InvA cfg s) (t : Nat)
    (ht : t < cfg.ntasks) (hf : (s.task t).ctl ≠ .fin) (hnb : ¬ blocked s t) (hmem : t ∈ r) :
    measure cfg (exec cfg r s) < measure cfg s := by
  induction r generalizing s with
  | nil => cases hmem
  | cons u r' ih =>
    show measure cfg (exec cfg r' (poll cfg u s)) < measure cfg s
    by_cases hlt : measure cfg (poll cfg u s) < measure cfg s
    · exact Nat.lt_of_le_of_lt (measure_exec_le cfg r' _) hlt
    · have hst := poll_stutter h u hlt
      have hut : t ≠ u := by
        intro e; subst e
        exact hlt (measure_poll_lt cfg t s ht hf hnb)
      have hmem' : t ∈ r' := by
        cases hmem with
        | head => exact absurd rfl hut
        | tail _ hm => exact hm
      have hf' : ((poll cfg u s).task t).ctl ≠ .fin := by rw [hst.2 t]; exact hf
      have hnb' : ¬ blocked (poll cfg u s) t := by
        rintro ⟨k, v, hc, hs⟩
        rw [hst.2 t] at hc
        rw [hst.1] at hs
        exact hnb ⟨k, v, hc, hs⟩
      have := ih (invA_poll cfg u h) hf' hnb' hmem'
      have hle := measure_poll_le cfg u s
      omega

theorem exec_of_allFin {cfg : Cfg} (r : List Nat) {s : State} (h : InvA cfg s)
    (hfin : allFin cfg s = true) : exec cfg r s = s := by
  induction r with
  | nil => rfl
  | cons u r' ih =>
    show exec cfg r' (poll cfg u s) = s
    have hf : (s.task u).ctl = .fin := by
      by_cases hu : u < cfg.ntasks
      · simp only [allFin, List.all_eq_true, List.mem_range, isFin, beq_iff_eq] at hfin
        exact hfin u hu
      · exact h.ghost u (by omega)
    rw [poll_of_fin cfg u s hf]; exact ih

/-- enough fair rounds finish every task -/
theorem rounds_finish {cfg : Cfg} (rounds : List (List Nat))
    (hr : ∀ r ∈ rounds, ∀ t, t < cfg.ntasks → t ∈ r) {s : State} (h : InvA cfg s)
    (hlen : measure cfg s ≤ rounds.length) : allFin cfg (exec cfg rounds.flatten s) = true := by
  induction rounds generalizing s with
  | nil =>
    by_cases hfin : allFin cfg s = true
    · exact hfin
    · exfalso
      obtain ⟨t, ht, hf, hnb⟩ := exists_unblocked h (by simpa using hfin)
      have := measure_poll_lt cfg t s ht hf hnb
      simp at hlen
      omega
  | cons r rs ih =>
    simp only [List.flatten_cons, exec_append]
    by_cases hfin : allFin cfg s = true
    · rw [exec_of_allFin r h hfin, exec_of_allFin _ h hfin]; exact hfin
    · obtain ⟨t, ht, hf, hnb⟩ := exists_unblocked h (by simpa using hfin)
      have hdec := exec_decreases r h t ht hf hnb (hr r List.mem_cons_self t ht)
      apply ih (fun r' hr' => hr r' (List.mem_cons_of_mem _ hr')) (invA_exec cfg r h)
      simp only [List.length_cons] at hlen
      omega

/-- the completion phase the driver uses (`finish`: round-robin rounds) finishes every task when
    given `measure` rounds -/
theorem finish_allFin {cfg : Cfg} (fuel : Nat) {s : State} (h : InvA cfg s)
    (hfuel : measure cfg s ≤ fuel) : allFin cfg (finish cfg fuel s) = true := by
  induction fuel generalizing s with
  | zero =>
    by_cases hfin : allFin cfg s = true
    · exact hfin
    · exfalso
      obtain ⟨t, ht, hf, hnb⟩ := exists_unblocked h (by simpa using hfin)
      have := measure_poll_lt cfg t s ht hf hnb
      omega
  | succ f ih =>
    unfold finish
    by_cases hfin : allFin cfg s = true
    · simp [hfin]
    · simp only [hfin]
      obtain ⟨t, ht, hf, hnb⟩ := exists_unblocked h (by simpa using hfin)
      have hdec := exec_decreases (List.range cfg.ntasks) h t ht hf hnb (List.mem_range.mpr ht)
      apply ih (invA_exec cfg _ h)
      omega

end MdModel.Once
