/-
  C04 — the junk half of the scan generator's side condition from a record-level fact: a word
  `< 4096` is no valid instruction when every module starts at or above 4096 (`tidy_world`: module
  bases `≥ 0x10000`) — `instruction_seems_valid_by_symbols` finds no module for `word - 1`
  (C08 soundness of the module table lookup, `get_sound`).
-/
import MdProofs.C08
import MdModel.Walk.LayoutGenScan
namespace MdModel.Walk
open MdModel MdModel.RangeMap

theorem moduleAt_none_below (mods : List Module) (hb : ∀ m ∈ mods, 4096 ≤ m.base) (x : Nat) (hx : x < 4096) :
    moduleAt (modTable mods) x = none := by
  unfold moduleAt modTable
  cases hg : get (safeVec (mods.zipIdx.map fun (m, i) => (mkRange m.base m.size, i))) x with
  | none => rfl
  | some v =>
    exfalso
    obtain ⟨r, hmem, hlo, _⟩ := get_sound _ _ _ hg
    simp only [List.mem_map, Prod.mk.injEq] at hmem
    obtain ⟨y, hy, hr, _⟩ := hmem
    obtain ⟨_, _, hy3⟩ := List.mem_zipIdx hy
    have hym : y.1 ∈ mods := by rw [hy3]; exact List.getElem_mem _
    have h1 := hb y.1 hym
    unfold mkRange at hr
    split at hr
    · cases hr
    · split at hr
      · cases hr
      · cases hr; simp only at hlo; omega

/-- **a junk word is no valid instruction** in the environment of a world whose modules all start at
    or above 4096 -/
theorem junk_not_valid (a : Arch) (os : Os) (w : World) (mem : Mem) (hb : ∀ m ∈ w.mods, 4096 ≤ m.base)
    (v : Nat) (hv : v < 4096) : instrValid (mkEnv a os w mem) a v = false := by
  have hok : (mkEnv a os w mem).instrOk v = false := by
    show instrOkOf w (modTable w.mods) _ v = false
    unfold instrOkOf
    simp only [moduleAt_none_below w.mods hb (v - 1) (by omega)]
    split <;> rfl
  simp only [instrValid, hok, Bool.and_false]

theorem gscanFramesOk_of_J (a : Arch) (os : Os) (w : World) (mem : Mem) (hb : ∀ m ∈ w.mods, 4096 ≤ m.base)
    (frames : List ScFr) : ∀ first, gscanFramesOkJ (mkEnv a os w mem) a first frames = true →
      gscanFramesOk (mkEnv a os w mem) a first frames = true := by
  induction frames with
  | nil => intro _ _; rfl
  | cons c rest ih =>
    intro first h
    simp only [gscanFramesOkJ, Bool.and_eq_true, List.all_eq_true, decide_eq_true_eq] at h
    obtain ⟨⟨⟨⟨⟨⟨⟨h1, h2⟩, h3⟩, h4⟩, h5⟩, h6⟩, h7⟩, h8⟩ := h
    simp only [gscanFramesOk, Bool.and_eq_true, List.all_eq_true, decide_eq_true_eq]
    refine ⟨⟨⟨⟨⟨⟨⟨h1, h2⟩, ?_⟩, h4⟩, h5⟩, h6⟩, h7⟩, ih _ h8⟩
    intro x hx
    simp [h3 x hx, junk_not_valid a os w mem hb x (h3 x hx)]

end MdModel.Walk
