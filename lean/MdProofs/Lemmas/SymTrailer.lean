/-
  What the symbol parser model (`MdModel.SymLine`, `MdModel.SymParse`) does with the line
  `INFO URL <url>\n` that `commit_cache_file` appends to a cache entry (http.rs:165):

    * `line_infoUrl`      the top-level record parser returns `Line::InfoUrl(url)` and consumes exactly
                          the line — for a URL as `Url::to_string` writes it (ASCII, no blank / tab /
                          CR / LF: leading blanks would be skipped by `space1`, the text is cut at
                          CR / LF and must be valid UTF-8);
    * `funcSubline_info`, `stackCfi_info`   an open FUNC / STACK CFI INIT item does not take the line
                          as one of its sub-records, so the item is finished and the line goes to the
                          top level;
    * `Lsym_infoUrl`      one round of the `parse_more` loop on that line: finish the open item, set
                          `url` (a later note overrides an earlier one), count the line;
    * `finish_setUrl`     … and `SymbolParser::finish` afterwards yields the same table, URL set.
-/
import MdModel.SymParse
import MdProofs.Lemmas.SymParseLocal
namespace MdModel.Sym
open MdModel MdModel.Stream

/-- `"INFO URL "` -/
def infoUrlTagB : Bytes := [73, 78, 70, 79, 32, 85, 82, 76, 32]

example : kw "INFO URL " = infoUrlTagB := by decide

/-- the bytes of a URL as `Url::to_string` serialises it -/
def UrlBytes (u : Bytes) : Prop := ∀ b ∈ u, b ≠ 10 ∧ b ≠ 13 ∧ b ≠ 32 ∧ b ≠ 9 ∧ b < 128

/-- the appended line, followed by anything -/
def noteThen (u s : Bytes) : Bytes := infoUrlTagB ++ u ++ Sym.NL :: s

theorem takeWhile_stop (p : UInt8 → Bool) (u : Bytes) (x : UInt8) (s : Bytes)
    (hu : ∀ b ∈ u, p b = true) (hx : p x = false) :
    (u ++ x :: s).takeWhile p = u ∧ (u ++ x :: s).dropWhile p = x :: s := by
  induction u with
  | nil => simp [hx]
  | cons b rest ih =>
    have hb : p b = true := hu b (by simp)
    have := ih (fun c hc => hu c (by simp [hc]))
    simp [hb, this]

theorem takeWhile_none (p : UInt8 → Bool) (u : Bytes) (x : UInt8) (s : Bytes)
    (hu : ∀ b ∈ u, p b = false) (hx : p x = false) :
    (u ++ x :: s).takeWhile p = [] ∧ (u ++ x :: s).dropWhile p = u ++ x :: s := by
  cases u with
  | nil => simp [hx]
  | cons b rest =>
    have hb : p b = false := hu b (by simp)
    simp [hb]

theorem validUtf8_cons_ascii (b : UInt8) (rest : Bytes) (hb : b < 0x80) :
    validUtf8 (b :: rest) = validUtf8 rest := by
  match rest with
  | [] => simp [validUtf8, hb]
  | [_] => simp [validUtf8, hb]
  | [_, _] => simp [validUtf8, hb]
  | _ :: _ :: _ :: _ => simp [validUtf8, hb]

theorem validUtf8_ascii (u : Bytes) (h : ∀ b ∈ u, b < 128) : validUtf8 u = true := by
  induction u with
  | nil => simp [validUtf8]
  | cons b rest ih =>
    rw [validUtf8_cons_ascii b rest (h b (by simp))]
    exact ih (fun c hc => h c (by simp [hc]))

theorem line_infoUrl (u s : Bytes) (hu : UrlBytes u) : line (noteThen u s) = .ok s (.infoUrl u) := by
  have h1 : ∀ b ∈ u, isSpaceTab b = false := by
    intro b hb; obtain ⟨_, _, h3, h4, _⟩ := hu b hb
    simp [isSpaceTab, SP, TAB, h3, h4]
  have h2 : ∀ b ∈ u, (b != CR && b != Sym.NL) = true := by
    intro b hb; obtain ⟨h1, h2, _, _, _⟩ := hu b hb
    simp [CR, Sym.NL, h1, h2]
  obtain ⟨t1, d1⟩ := takeWhile_none isSpaceTab u Sym.NL s h1 (by decide)
  obtain ⟨t2, d2⟩ := takeWhile_stop (fun c => c != CR && c != Sym.NL) u Sym.NL s h2 (by decide)
  have hv := validUtf8_ascii u (fun b hb => (hu b hb).2.2.2.2)
  have h3 : List.dropWhile (fun c => c == CR) (Sym.NL :: s) = Sym.NL :: s := by
    rw [List.dropWhile_cons]; simp [Sym.NL, CR]
  unfold line orElse infoUrl keyword terminated
  simp [noteThen, infoUrlTagB, P.bind, tag, kw, space1, takeWhile1P, List.isPrefixOf, cut, utf8, mapRes,
    notMyEol, takeWhileP, myEol, P.pure, t1, d1, t2, d2, h3, hv, isSpaceTab, SP, TAB]


theorem myEol_info (u s : Bytes) : myEol (noteThen u s) = .error := by
  simp [noteThen, infoUrlTagB, myEol, P.bind, takeWhileP, tag, CR, Sym.NL]

theorem funcSubline_info (u s : Bytes) : funcSubline (noteThen u s) = .error := by
  simp [noteThen, infoUrlTagB, funcSubline, kw, funcLineData, terminated, P.bind, hexStr, isHexDigit]

theorem stackCfi_info (u s : Bytes) : stackCfi (noteThen u s) = .error := by
  simp [noteThen, infoUrlTagB, stackCfi, keyword, terminated, P.bind, tag, kw]


theorem topLevel_info (st : PState) (u s : Bytes) (hu : UrlBytes u) :
    topLevel st (noteThen u s) = .ok s { st with url := some u, lines := st.lines + 1 } := by
  unfold topLevel
  rw [myEol_info, line_infoUrl u s hu]
  rfl

/-- after `finish_item` nothing is open -/
theorem finishCur_cur {st st' : PState} (h : finishCur st = .ok st') : st'.cur = .none := by
  unfold finishCur at h
  cases hc : st.cur with
  | none => rw [hc] at h; cases h; exact hc
  | func f ls inl =>
    rw [hc] at h
    simp only [finishFunc] at h
    split at h
    · cases h
    · split at h <;> cases h <;> rfl
  | cfi c =>
    rw [hc] at h
    simp only [finishCfi] at h
    cases h
    split <;> rfl

/-- **one round of the `parse_more` loop on the appended note**: whatever item is open is finished
    (`finish_item`), the URL is set — overriding an `INFO URL` line the file may have had itself —
    and the line is counted; exactly the note is consumed. -/
theorem stepLine_info (st : PState) (u s : Bytes) (hu : UrlBytes u) :
    stepLine st (noteThen u s) =
      match finishCur st with
      | .ok st' => .ok s { st' with url := some u, lines := st'.lines + 1 }
      | .panic e => .panic e := by
  unfold stepLine
  cases hc : st.cur with
  | none =>
    simp only []
    rw [topLevel_info st u s hu]
    simp [finishCur, hc]
  | func f ls inl =>
    simp only []
    rw [funcSubline_info]
    cases finishCur st with
    | panic e => rfl
    | ok st' => simp only []; rw [topLevel_info st' u s hu]
  | cfi c =>
    simp only []
    rw [stackCfi_info]
    cases finishCur st with
    | panic e => rfl
    | ok st' => simp only []; rw [topLevel_info st' u s hu]

theorem Lsym_info (st : PState) (u : Bytes) (hu : UrlBytes u) :
    Lsym st (noteThen u []) =
      match finishCur st with
      | .ok st' => .ok { st' with url := some u, lines := st'.lines + 1 }
      | .panic e => .panic e := by
  unfold Lsym
  rw [stepLine_info st u [] hu]
  cases finishCur st <;> rfl

/-- `SymbolParser::finish` after the note: the table `finish` would have given without it, URL set -/
theorem finish_setUrl (st st' : PState) (h : finishCur st = .ok st') (u : Bytes) :
    finish { st' with url := some u, lines := st'.lines + 1 } =
      match finish st with
      | .ok f => .ok { f with url := some u }
      | .panic e => .panic e := by
  have hc := finishCur_cur h
  have h2 : finishCur { st' with url := some u, lines := st'.lines + 1 } =
      .ok { st' with url := some u, lines := st'.lines + 1 } := by
    simp [finishCur, hc]
  unfold finish
  rw [h, h2]
  simp only []
  cases tableP st'.functions.reverse <;> cases tableP st'.cfi.reverse <;>
    cases tableP (winBack st'.winFdInfos st'.winFd) <;> cases tableP (winBack st'.winFpoInfos st'.winFpo) <;> rfl


end MdModel.Sym
