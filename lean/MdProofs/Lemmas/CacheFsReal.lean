/-
  The loop of `parse_async` (`MdModel.CacheFs.Real`: `afterFetch`, `recover`, `pump`, `drain`)
  expressed through the blocks of the synchronous loop (`MdModel.Stream`), and what the buffer
  machine lemmas of C09/C10 give for it:

    * `afterFetch_eq_step`   outside recovery one iteration is literally `Stream.step`
    * `tail_spec`            the loop invariant `Inv` (callback bytes ++ window ++ unread = received)
    * `tail_measure`         `Stream.measure` decreases: `pump`/`drain` never run out of fuel
    * `tail_safe`            no panic outcome (parser invariant `PInv`)
    * `cb_grows`             the callback log only grows (so `newCb` is the increment)
-/
import MdModel.CacheFs
import MdProofs.Lemmas.SymStream
import MdProofs.Lemmas.SymChunk
import MdProofs.Lemmas.SymParseLocal
import MdProofs.Lemmas.SymNoPanic
import MdProofs.Lemmas.SymTrailer
namespace MdModel.CacheFs.Real
open MdModel MdModel.Stream MdModel.Sym MdModel.Gen.SymConsts

/-! ### `parse_async`'s end-of-input test vs. the synchronous one -/

theorem zeroBlockA_eq (hadSpace ended : Bool) (s : LoopSt) (h : ended = true ∨ hadSpace = false) :
    zeroBlockA hadSpace ended s = Stream.zeroBlock MAX_BUFFER_CAPACITY symOps hadSpace s := by
  unfold zeroBlockA Stream.zeroBlock
  rcases h with h | h <;> subst h <;> simp

/-- the tail of an iteration of the synchronous loop -/
def tailS (s1 : LoopSt) : Sum LoopSt (LoopOut × LoopSt) :=
  if (readBlock s1).2.length = 0 then
    Stream.zeroBlock MAX_BUFFER_CAPACITY symOps (decide (s1.buf.availableSpace > 0)) (readBlock s1).1
  else parseBlock symOps { (readBlock s1).1 with triedToGrow := false }

theorem step_eq_tailS (s0 : LoopSt) :
    Stream.step MAX_BUFFER_CAPACITY symOps s0 = tailS (recover s0) := by
  unfold Stream.step tailS recover
  rfl

/-- while the chunk lasts (or after the end of the response) a zero-length read means what it
    means for a `Read`er: `!(had_space && response_ended)` = `!had_space` -/
theorem afterFetch_eq_tailS (ended : Bool) (s1 : LoopSt) (h : ended = true ∨ s1.unread ≠ []) :
    afterFetch ended s1 = tailS s1 := by
  unfold afterFetch tailS
  dsimp only
  split
  · next hz =>
    apply zeroBlockA_eq
    rcases h with h | h
    · exact Or.inl h
    · right
      obtain ⟨r1, _, r3⟩ := readChunk_spec s1.buf.availableSpace s1.unread s1.sched
      have hz' : (readChunk s1.buf.availableSpace s1.unread s1.sched).1.length = 0 := hz
      rcases r3 hz' with h0 | h0
      · simp [h0]
      · exact absurd h0 h
  · rfl

theorem recover_of_notRec (s : LoopSt) (h : s.inRecovery = false) : recover s = s := by
  unfold recover; simp [h]

theorem afterFetch_eq_step (ended : Bool) (s1 : LoopSt) (h : ended = true ∨ s1.unread ≠ [])
    (hr : s1.inRecovery = false) :
    afterFetch ended s1 = Stream.step MAX_BUFFER_CAPACITY symOps s1 := by
  rw [afterFetch_eq_tailS ended s1 h, step_eq_tailS, recover_of_notRec s1 hr]

/-! ### the loop invariant across the tail of an iteration (second half of `Stream.step_spec`) -/

/-- what holds after the recovery block, i.e. at the point where `parse_async` awaits a chunk -/
structure Post (input : Bytes) (s : LoopSt) : Prop where
  mid : Mid MAX_BUFFER_CAPACITY input s
  fully : s.fullyConsumed = true → s.buf.data = []

theorem recover_post (input : Bytes) (s : LoopSt) (h : Inv MAX_BUFFER_CAPACITY input s) :
    Post input (recover s) := by
  unfold recover
  by_cases hr : s.inRecovery = true
  · simp only [hr, if_true]
    obtain ⟨h1, h2⟩ := recoverBlock_mid MAX_BUFFER_CAPACITY input symOps s h.toMid
    exact ⟨h1, h2⟩
  · simp only [hr]
    exact ⟨h.toMid, fun hf => h.fully hf (by simpa using hr)⟩

theorem tailS_spec (input : Bytes) (s1 : LoopSt) (hp : Post input s1) :
    (∀ s', tailS s1 = .inl s' → Inv MAX_BUFFER_CAPACITY input s') ∧
    (∀ out sf, tailS s1 = .inr (out, sf) →
      Mid MAX_BUFFER_CAPACITY input sf ∧ ∀ ps, out = .ok ps → sf.buf.data = [] ∧ sf.unread = []) := by
  obtain ⟨hm1, hf1⟩ := hp
  unfold tailS
  obtain ⟨hm2, hd2, hz2⟩ := readBlock_mid MAX_BUFFER_CAPACITY input s1 hm1
  have hfl : (readBlock s1).1.fullyConsumed = s1.fullyConsumed := rfl
  have hrc : (readBlock s1).1.inRecovery = s1.inRecovery := rfl
  split
  · next hz =>
    -- size == 0
    have hnil : (readBlock s1).2 = [] := List.eq_nil_of_length_eq_zero hz
    rw [hnil, List.append_nil] at hd2
    have hfull : (readBlock s1).1.fullyConsumed = true → (readBlock s1).1.buf.data = [] := by
      intro hf
      rw [hfl] at hf
      rw [hd2]; exact hf1 hf
    obtain ⟨z1, z2⟩ := zeroBlock_spec MAX_BUFFER_CAPACITY input symOps (decide (s1.buf.availableSpace > 0)) _ hm2 hfull
    refine ⟨z1, fun out sf hz' => ?_⟩
    obtain ⟨q1, q2, q3⟩ := z2 out sf hz'
    refine ⟨q1, fun ps hps => ⟨q3 ps hps, ?_⟩⟩
    -- Ok: the window is empty, so there was space, so the reader is at end of input
    rw [q2]
    rcases hz2 hz with hsp | hun
    · exfalso
      -- zeroBlock returned Ok, hence fullyConsumed, hence the window is empty
      have hfc : (readBlock s1).1.fullyConsumed = true := by
        unfold zeroBlock at hz'
        subst hps
        split at hz'
        · obtain ⟨_, _, p3⟩ := parseBlock_spec MAX_BUFFER_CAPACITY input symOps _ hm2
          exact absurd rfl ((p3 _ _ hz').2.2 ps)
        · split at hz'
          · next hf => exact hf
          · split at hz'
            · dsimp only at hz'; split at hz' <;> cases hz'
            · split at hz' <;> cases hz'
      have hd : s1.buf.data = [] := by rw [← hd2]; exact hfull hfc
      have := hm1.buf
      simp only [Buf.availableSpace, Buf.end_, hd, List.length_nil, Nat.add_zero] at hsp
      have h1 := this.half; have h2 := this.capPos; have h3 := this.fits
      omega
    · exact hun
  · -- size > 0
    have hm3 : Mid MAX_BUFFER_CAPACITY input { (readBlock s1).1 with triedToGrow := false } :=
      hm2.congr rfl rfl rfl rfl
    obtain ⟨p1, p2, p3⟩ := parseBlock_spec MAX_BUFFER_CAPACITY input symOps _ hm3
    refine ⟨fun s' h1 => ?_, fun out sf h1 => ?_⟩
    · by_cases hr : s1.inRecovery = true
      · have := p2 s' h1 hr
        subst this
        exact ⟨hm3, fun _ h2 => by simp only [hrc] at h2; rw [hr] at h2; cases h2⟩
      · exact p1 s' h1 (by rw [show ({ (readBlock s1).1 with triedToGrow := false } : LoopSt).inRecovery = s1.inRecovery from rfl]; simpa using hr)
    · obtain ⟨q1, _, q2⟩ := p3 out sf h1
      exact ⟨q1, fun ps hps => absurd hps (q2 ps)⟩


/-! ### the callback log only grows -/

/-- `s'` was reached from `s` by pushing entries on the callback log -/
def CbExt (s s' : LoopSt) : Prop := ∃ new, s'.cb = new ++ s.cb

theorem CbExt.refl (s : LoopSt) : CbExt s s := ⟨[], rfl⟩
theorem CbExt.trans {a b c : LoopSt} (h1 : CbExt a b) (h2 : CbExt b c) : CbExt a c := by
  obtain ⟨n1, e1⟩ := h1
  obtain ⟨n2, e2⟩ := h2
  exact ⟨n2 ++ n1, by rw [e2, e1, List.append_assoc]⟩
theorem CbExt.of_eq {a b : LoopSt} (h : b.cb = a.cb) : CbExt a b := ⟨[], by simp [h]⟩

/-- `newCb` is the increment of the callback bytes -/
theorem cbBytes_newCb {s s' : LoopSt} (h : CbExt s s') : cbBytes s' = cbBytes s ++ newCb s s' := by
  obtain ⟨new, e⟩ := h
  unfold newCb cbBytes
  rw [e]
  simp

theorem recover_cb (s : LoopSt) : CbExt s (recover s) := by
  unfold recover
  split
  · unfold recoverBlock
    dsimp only
    split
    · exact ⟨[_], rfl⟩
    · exact ⟨[_], rfl⟩
  · exact CbExt.refl s

theorem parseBlock_cb (s : LoopSt) :
    (∀ s', parseBlock symOps s = .inl s' → CbExt s s') ∧
    (∀ out sf, parseBlock symOps s = .inr (out, sf) → CbExt s sf) := by
  unfold parseBlock
  split
  · exact ⟨fun s' h => (by cases h; exact CbExt.refl s), fun _ _ h => (by cases h)⟩
  · dsimp only
    split
    · exact ⟨fun _ h => (by cases h), fun _ _ h => (by cases h; exact CbExt.of_eq rfl)⟩
    · exact ⟨fun _ h => (by cases h), fun _ _ h => (by cases h; exact CbExt.of_eq rfl)⟩
    · split
      · exact ⟨fun _ h => (by cases h), fun _ _ h => (by cases h; exact CbExt.of_eq rfl)⟩
      · exact ⟨fun _ h => (by cases h; exact ⟨[_], rfl⟩), fun _ _ h => (by cases h)⟩

theorem tailS_cb (s1 : LoopSt) :
    (∀ s', tailS s1 = .inl s' → CbExt s1 s') ∧
    (∀ out sf, tailS s1 = .inr (out, sf) → CbExt s1 sf) := by
  have hrb : CbExt s1 (readBlock s1).1 := CbExt.of_eq rfl
  unfold tailS
  split
  · unfold zeroBlock
    split
    · obtain ⟨p1, p2⟩ := parseBlock_cb (readBlock s1).1
      exact ⟨fun s' h => hrb.trans (p1 s' h), fun out sf h => hrb.trans (p2 out sf h)⟩
    · split
      · exact ⟨fun _ h => (by cases h), fun _ _ h => (by cases h; exact hrb)⟩
      · split
        · dsimp only
          split
          · exact ⟨fun _ h => (by cases h; exact CbExt.of_eq rfl), fun _ _ h => (by cases h)⟩
          · exact ⟨fun _ h => (by cases h; exact CbExt.of_eq rfl), fun _ _ h => (by cases h)⟩
        · split
          · exact ⟨fun _ h => (by cases h), fun _ _ h => (by cases h; exact hrb)⟩
          · exact ⟨fun _ h => (by cases h), fun _ _ h => (by cases h; exact hrb)⟩
  · obtain ⟨p1, p2⟩ := parseBlock_cb { (readBlock s1).1 with triedToGrow := false }
    have hrb' : CbExt s1 { (readBlock s1).1 with triedToGrow := false } := CbExt.of_eq rfl
    exact ⟨fun s' h => hrb'.trans (p1 s' h), fun out sf h => hrb'.trans (p2 out sf h)⟩

/-! ### `pump` and `drain` -/

theorem pump_await (input : Bytes) : ∀ (fuel : Nat) (s1 s' : LoopSt), Post input s1 → s1.unread ≠ [] →
    pump fuel s1 = .await s' → Post input s' ∧ s'.unread = [] ∧ CbExt s1 s' := by
  intro fuel
  induction fuel with
  | zero => intro s1 s' _ _ h; simp [pump] at h
  | succ n ih =>
    intro s1 s' hp hun h
    unfold pump at h
    rw [afterFetch_eq_tailS false s1 (Or.inr hun)] at h
    obtain ⟨t1, _⟩ := tailS_spec input s1 hp
    obtain ⟨c1, _⟩ := tailS_cb s1
    cases ht : tailS s1 with
    | inr r => rw [ht] at h; obtain ⟨o, f⟩ := r; simp at h
    | inl s2 =>
      rw [ht] at h
      dsimp only at h
      have hp2 : Post input (recover s2) := recover_post input s2 (t1 s2 ht)
      have hc2 : CbExt s1 (recover s2) := (c1 s2 ht).trans (recover_cb s2)
      split at h
      · next he =>
        cases h
        exact ⟨hp2, List.isEmpty_iff.mp he, hc2⟩
      · next he =>
        obtain ⟨q1, q2, q3⟩ := ih (recover s2) s' hp2 (by intro e; rw [e] at he; simp at he) h
        exact ⟨q1, q2, hc2.trans q3⟩

theorem drain_spec (input : Bytes) : ∀ (fuel : Nat) (s1 : LoopSt) (out : LoopOut) (sf : LoopSt),
    Post input s1 → drain fuel s1 = some (out, sf) →
    Mid MAX_BUFFER_CAPACITY input sf ∧ CbExt s1 sf ∧
      ∀ ps, out = .ok ps → sf.buf.data = [] ∧ sf.unread = [] := by
  intro fuel
  induction fuel with
  | zero => intro s1 out sf _ h; simp [drain] at h
  | succ n ih =>
    intro s1 out sf hp h
    unfold drain at h
    rw [afterFetch_eq_tailS true s1 (Or.inl rfl)] at h
    obtain ⟨t1, t2⟩ := tailS_spec input s1 hp
    obtain ⟨c1, c2⟩ := tailS_cb s1
    cases ht : tailS s1 with
    | inr r =>
      rw [ht] at h
      obtain ⟨o, f⟩ := r
      simp only [Option.some.injEq, Prod.mk.injEq] at h
      obtain ⟨rfl, rfl⟩ := h
      exact ⟨(t2 _ _ ht).1, c2 _ _ ht, (t2 _ _ ht).2⟩
    | inl s2 =>
      rw [ht] at h
      dsimp only at h
      obtain ⟨q1, q2, q3⟩ := ih (recover s2) out sf (recover_post input s2 (t1 s2 ht)) h
      exact ⟨q1, ((c1 s2 ht).trans (recover_cb s2)).trans q2, q3⟩


/-! ### no panic outcome (second half of `Stream.step_safe`), and `Ok` only at the end of the response -/

theorem symOps_safe' : ParserSafe symOps PInv :=
  ⟨fun st w h => parseMore_ok st w h, fun _ h => h.congr rfl rfl rfl rfl⟩

theorem recover_safe (s : LoopSt) (h : PInv s.ps) : PInv (recover s).ps := by
  unfold recover
  split
  · unfold recoverBlock
    dsimp only
    split
    · exact symOps_safe'.2 _ h
    · exact h
  · exact h

theorem tailS_safe (s1 : LoopSt) (h1 : PInv s1.ps) :
    (∀ s', tailS s1 = .inl s' → PInv s'.ps) ∧
    (∀ out sf, tailS s1 = .inr (out, sf) → (∀ e, out ≠ .panic e) ∧ ∀ ps, out = .ok ps → PInv ps) := by
  unfold tailS
  have h2 : PInv (readBlock s1).1.ps := h1
  split
  · unfold zeroBlock
    split
    · obtain ⟨p1, p2⟩ := parseBlock_safe symOps PInv symOps_safe' _ h2
      exact ⟨p1, fun out sf h => ⟨(p2 out sf h).1, fun ps hps => absurd hps ((p2 out sf h).2 ps)⟩⟩
    · split
      · refine ⟨fun _ h => (by cases h), fun out sf h => ?_⟩
        cases h
        exact ⟨fun e h => (by cases h), fun ps h => (by cases h; exact h2)⟩
      · split
        · dsimp only
          split
          · exact ⟨fun s' h => (by cases h; exact h2), fun _ _ h => (by cases h)⟩
          · exact ⟨fun s' h => (by cases h; exact h2), fun _ _ h => (by cases h)⟩
        · split
          · refine ⟨fun _ h => (by cases h), fun out sf h => ?_⟩
            cases h
            exact ⟨fun e h => (by cases h), fun ps h => (by cases h)⟩
          · refine ⟨fun _ h => (by cases h), fun out sf h => ?_⟩
            cases h
            exact ⟨fun e h => (by cases h), fun ps h => (by cases h)⟩
  · obtain ⟨p1, p2⟩ := parseBlock_safe symOps PInv symOps_safe' { (readBlock s1).1 with triedToGrow := false } h2
    exact ⟨p1, fun out sf h => ⟨(p2 out sf h).1, fun ps hps => absurd hps ((p2 out sf h).2 ps)⟩⟩

theorem parseBlock_not_ok (s : LoopSt) (ps : PState) (sf : LoopSt) :
    parseBlock symOps s ≠ .inr (.ok ps, sf) := by
  intro h
  unfold parseBlock at h
  split at h
  · cases h
  · dsimp only at h
    split at h
    · cases h
    · cases h
    · split at h <;> cases h

/-- `Ok` is only returned from a zero-length read with nothing left in the window: the reader is
    where it was -/
theorem tailS_ok_unread (s1 : LoopSt) (ps : PState) (sf : LoopSt) (h : tailS s1 = .inr (.ok ps, sf)) :
    sf.unread = s1.unread := by
  unfold tailS at h
  obtain ⟨_, _, rb3⟩ := readBlock_measure s1
  split at h
  · next hz =>
    unfold zeroBlock at h
    split at h
    · exact absurd h (parseBlock_not_ok _ ps sf)
    · split at h
      · cases h; exact (rb3 hz).2
      · split at h
        · dsimp only at h; split at h <;> cases h
        · split at h <;> cases h
  · exact absurd h (parseBlock_not_ok _ ps sf)

/-! ### termination (second half of `Stream.step_measure`): `pump` and `drain` never run out of fuel -/

/-- after the recovery block: still recovering means the whole window was discarded -/
def RecDone (s : LoopSt) : Prop := s.inRecovery = true → s.fullyConsumed = true ∧ s.buf.data = []

theorem recover_measure (s : LoopSt) :
    (recover s).unread = s.unread ∧ Stream.measure (recover s) ≤ Stream.measure s ∧ RecDone (recover s) := by
  unfold recover
  by_cases hr : s.inRecovery = true
  · simp only [hr, if_true]
    obtain ⟨h1, h2, h3⟩ := recoverBlock_measure symOps s hr
    refine ⟨h1, ?_, h3⟩
    unfold Stream.measure; rw [h1]; omega
  · simp only [hr]
    exact ⟨rfl, Nat.le_refl _, fun h => absurd h hr⟩

theorem tailS_measure (s1 s' : LoopSt) (hrec1 : RecDone s1) (h : tailS s1 = .inl s') :
    Stream.measure s' < Stream.measure s1 := by
  unfold tailS at h
  obtain ⟨rb1, rb2, rb3⟩ := readBlock_measure s1
  have hfl : (readBlock s1).1.fullyConsumed = s1.fullyConsumed := rfl
  have hrc : (readBlock s1).1.inRecovery = s1.inRecovery := rfl
  split at h
  · next hz =>
    obtain ⟨hd2, hu2⟩ := rb3 hz
    unfold zeroBlock at h
    split at h
    · next hjf =>
      -- fall through to the parser after a finished recovery
      have hjf' : (readBlock s1).1.justFinished = true ∧ (readBlock s1).1.buf.data ≠ [] := by
        simp only [Bool.and_eq_true, Bool.not_eq_true', List.isEmpty_eq_false_iff] at hjf; exact hjf
      have hnr : s1.inRecovery = false := by
        cases hr : s1.inRecovery with
        | false => rfl
        | true => exact absurd ((hrec1 hr).2) (by rw [← hd2]; exact hjf'.2)
      obtain ⟨p1, p2, p3, p4, p5, p6⟩ := parseBlock_measure symOps _ s' h
      have hj' : s'.justFinished = false := p6 (hrc.trans hnr)
      have := flagsM_just s' (readBlock s1).1 hj' hjf'.1 p3 p4
      simp only [Stream.measure]
      rw [p1, hu2]; rw [hd2] at p2; rw [rb2] at this
      omega
    · split at h
      · cases h
      · next hnf =>
        have hnr : s1.inRecovery = false := by
          cases hr : s1.inRecovery with
          | false => rfl
          | true => exact absurd ((hfl.trans (hrec1 hr).1)) hnf
        split at h
        · next hgrow =>
          have htg : (readBlock s1).1.triedToGrow = false := by
            simp only [Bool.and_eq_true, Bool.not_eq_true'] at hgrow; exact hgrow.1
          dsimp only at h
          split at h
          · cases h
            -- enter recovery
            exact measure_lt _ s1.unread.length s1.buf.data.length (flagsM s1)
              (by show (readBlock s1).1.unread.length = _; rw [hu2])
              (by show (readBlock s1).1.buf.data.length ≤ _; rw [hd2]; exact Nat.le_refl _)
              (by rw [← rb2]; exact flagsM_rec _ (readBlock s1).1 rfl rfl rfl (hrc.trans hnr))
          · cases h
            -- grow
            exact measure_lt _ s1.unread.length s1.buf.data.length (flagsM s1)
              (by show (readBlock s1).1.unread.length = _; rw [hu2])
              (by show ((readBlock s1).1.buf.grow _).data.length ≤ _; rw [Buf.grow_data, hd2]; exact Nat.le_refl _)
              (by rw [← rb2]; exact flagsM_tried _ (readBlock s1).1 rfl rfl htg rfl)
        · split at h <;> cases h
  · next hnz =>
    obtain ⟨p1, p2, p3, p4, p5, p6⟩ := parseBlock_measure symOps _ s' h
    have hfl' := flagsM_reset s' (readBlock s1).1 p5 p4
    have e1 : s'.unread.length = (readBlock s1).1.unread.length := by rw [p1]
    have p2' : s'.buf.data.length ≤ (readBlock s1).1.buf.data.length := p2
    have hfl'' : flagsM s' ≤ flagsM s1 + 1 := by rw [← rb2]; exact hfl'
    have : (readBlock s1).2.length ≠ 0 := hnz
    show 8 * s'.unread.length + 4 * s'.buf.data.length + flagsM s'
      < 8 * s1.unread.length + 4 * s1.buf.data.length + flagsM s1
    omega

theorem pump_fuel : ∀ (fuel : Nat) (s1 : LoopSt), RecDone s1 → s1.unread ≠ [] →
    Stream.measure s1 < fuel → pump fuel s1 ≠ .fuel := by
  intro fuel
  induction fuel with
  | zero => intro s1 _ _ h; omega
  | succ n ih =>
    intro s1 hrd hun hm
    unfold pump
    rw [afterFetch_eq_tailS false s1 (Or.inr hun)]
    cases ht : tailS s1 with
    | inr r => obtain ⟨o, f⟩ := r; simp
    | inl s2 =>
      dsimp only
      have h1 := tailS_measure s1 s2 hrd ht
      obtain ⟨_, h2, h3⟩ := recover_measure s2
      split
      · simp
      · next he => exact ih (recover s2) h3 (by intro e; rw [e] at he; simp at he) (by omega)

theorem drain_fuel : ∀ (fuel : Nat) (s1 : LoopSt), RecDone s1 →
    Stream.measure s1 < fuel → drain fuel s1 ≠ none := by
  intro fuel
  induction fuel with
  | zero => intro s1 _ h; omega
  | succ n ih =>
    intro s1 hrd hm
    unfold drain
    rw [afterFetch_eq_tailS true s1 (Or.inl rfl)]
    cases ht : tailS s1 with
    | inr r => simp
    | inl s2 =>
      dsimp only
      have h1 := tailS_measure s1 s2 hrd ht
      obtain ⟨_, h2, h3⟩ := recover_measure s2
      exact ih (recover s2) h3 (by omega)


/-! ### law 1: `callback_prefix` -/

theorem init_post : Post [] init := by
  have h := init_inv MAX_BUFFER_CAPACITY INITIAL_BUFFER_CAPACITY ({} : PState) [] [] (by decide) (by decide)
  exact ⟨h.toMid, fun hf => by simp [init, Stream.init] at hf⟩

/-- handing the next chunk to a suspended loop -/
theorem post_extend (input b : Bytes) (s : LoopSt) (hp : Post input s) (hun : s.unread = []) :
    Post (input ++ b) { s with unread := b } := by
  obtain ⟨⟨hb, hc, hs, ht⟩, hf⟩ := hp
  refine ⟨⟨hb, hc, ?_, ht⟩, hf⟩
  show cbBytes s ++ s.buf.data ++ b = input ++ b
  rw [hun, List.append_nil] at hs
  rw [hs]

/-- the state after the chunks `rx`: suspended with an exhausted reader, the invariant holds for the
    bytes received, and the reported callback bytes are the callback log -/
theorem runRev_post : ∀ (rx : List Bytes) (s : LoopSt) (cb : Bytes),
    model.runRev rx = some (s, cb) → Post (bodyOf rx) s ∧ s.unread = [] ∧ cb = cbBytes s := by
  intro rx
  induction rx with
  | nil =>
    intro s cb h
    simp only [ParserModel.runRev, Option.some.injEq, Prod.mk.injEq] at h
    obtain ⟨rfl, rfl⟩ := h
    exact ⟨init_post, rfl, rfl⟩
  | cons b older ih =>
    intro s cb h
    simp only [ParserModel.runRev] at h
    cases ho : model.runRev older with
    | none => rw [ho] at h; simp at h
    | some r0 =>
      obtain ⟨s0, cb0⟩ := r0
      rw [ho] at h
      obtain ⟨hp0, hu0, hc0⟩ := ih s0 cb0 ho
      dsimp only at h
      cases hf : model.feed s0 b with
      | none => rw [hf] at h; simp at h
      | some r1 =>
        obtain ⟨s1, cb1⟩ := r1
        rw [hf] at h
        simp only [Option.some.injEq, Prod.mk.injEq] at h
        obtain ⟨rfl, rfl⟩ := h
        have hf' : feed s0 b = some (s, cb1) := hf
        unfold feed at hf'
        by_cases hb : b.isEmpty = true
        · rw [if_pos hb] at hf'
          simp only [Option.some.injEq, Prod.mk.injEq] at hf'
          obtain ⟨rfl, rfl⟩ := hf'
          have : b = [] := List.isEmpty_iff.mp hb
          subst this
          simp only [bodyOf, List.append_nil]
          exact ⟨hp0, hu0, hc0⟩
        · rw [if_neg hb] at hf'
          have hbne : b ≠ [] := fun e => hb (by simp [e])
          cases hpm : pump (feedFuel s0 b) { s0 with unread := b } with
          | fuel => rw [hpm] at hf'; simp at hf'
          | returned o f => rw [hpm] at hf'; simp at hf'
          | await s' =>
            rw [hpm] at hf'
            simp only [Option.some.injEq, Prod.mk.injEq] at hf'
            obtain ⟨e1, e2⟩ := hf'
            obtain ⟨q1, q2, q3⟩ := pump_await (bodyOf older ++ b) _ _ s'
              (post_extend (bodyOf older) b s0 hp0 hu0) hbne hpm
            rw [← e1, ← e2]
            refine ⟨q1, q2, ?_⟩
            have hcb : CbExt s0 s' := q3
            rw [cbBytes_newCb hcb, hc0]

/-- **`ParserLaws.callback_prefix` for the real parser**: what the tee callback has been given is
    always a prefix of the bytes received, and all of them when `parse_async` returns `Ok` — C10's
    `callback_prefix` / `callback_final`, for the loop of `parse_async` -/
theorem callback_prefix_real (rx : List Bytes) (s : LoopSt) (cb : Bytes)
    (h : model.runRev rx = some (s, cb)) :
    (∃ rest, cb ++ rest = bodyOf rx) ∧
    (∀ fin t, model.finish s = some (fin, t) → cb ++ fin = bodyOf rx) := by
  obtain ⟨hp, hun, hcb⟩ := runRev_post rx s cb h
  refine ⟨⟨s.buf.data, ?_⟩, fun fin t hfin => ?_⟩
  · have := hp.mid.split
    rw [hun, List.append_nil] at this
    rw [hcb]; exact this
  · have hfin' : finish s = some (fin, t) := hfin
    unfold finish at hfin'
    cases hd : drain (finishFuel s) s with
    | none => rw [hd] at hfin'; simp at hfin'
    | some r =>
      obtain ⟨out, sf⟩ := r
      rw [hd] at hfin'
      obtain ⟨m, hext, hok⟩ := drain_spec (bodyOf rx) _ s out sf hp hd
      cases out with
      | err k l => simp at hfin'
      | panic e => simp at hfin'
      | ok ps =>
        dsimp only at hfin'
        cases hfs : Sym.finish ps with
        | panic e => rw [hfs] at hfin'; simp at hfin'
        | ok f =>
          rw [hfs] at hfin'
          simp only [Option.some.injEq, Prod.mk.injEq] at hfin'
          obtain ⟨rfl, rfl⟩ := hfin'
          obtain ⟨hd0, hu0⟩ := hok ps rfl
          have := m.split
          rw [hd0, hu0, List.append_nil, List.append_nil, cbBytes_newCb hext] at this
          rw [hcb]; exact this


/-! ### what `none` stands for: `feed` / `finish` are total, never panic, and `Ok` comes only from `finish` -/

theorem pump_await_safe : ∀ (fuel : Nat) (s1 s' : LoopSt), PInv s1.ps → s1.unread ≠ [] →
    pump fuel s1 = .await s' → RecDone s' ∧ PInv s'.ps := by
  intro fuel
  induction fuel with
  | zero => intro s1 s' _ _ h; simp [pump] at h
  | succ n ih =>
    intro s1 s' hq hun h
    unfold pump at h
    rw [afterFetch_eq_tailS false s1 (Or.inr hun)] at h
    obtain ⟨t1, _⟩ := tailS_safe s1 hq
    cases ht : tailS s1 with
    | inr r => rw [ht] at h; obtain ⟨o, f⟩ := r; simp at h
    | inl s2 =>
      rw [ht] at h
      dsimp only at h
      have hq2 : PInv (recover s2).ps := recover_safe s2 (t1 s2 ht)
      split at h
      · cases h; exact ⟨(recover_measure s2).2.2, hq2⟩
      · next he => exact ih (recover s2) s' hq2 (by intro e; rw [e] at he; simp at he) h

theorem pump_returned (input : Bytes) : ∀ (fuel : Nat) (s1 : LoopSt) (out : LoopOut) (sf : LoopSt),
    Post input s1 → PInv s1.ps → s1.unread ≠ [] → pump fuel s1 = .returned out sf →
    ∃ k l, out = .err k l := by
  intro fuel
  induction fuel with
  | zero => intro s1 out sf _ _ _ h; simp [pump] at h
  | succ n ih =>
    intro s1 out sf hp hq hun h
    unfold pump at h
    rw [afterFetch_eq_tailS false s1 (Or.inr hun)] at h
    obtain ⟨t1, t2⟩ := tailS_safe s1 hq
    obtain ⟨u1, u2⟩ := tailS_spec input s1 hp
    cases ht : tailS s1 with
    | inr r =>
      rw [ht] at h
      obtain ⟨o, f⟩ := r
      have e1 : o = out := by cases h; rfl
      subst e1
      cases o with
      | err k l => exact ⟨k, l, rfl⟩
      | panic e => exact absurd rfl ((t2 _ _ ht).1 e)
      | ok ps =>
        exfalso
        have h1 := tailS_ok_unread s1 ps f ht
        have h2 := ((u2 _ _ ht).2 ps rfl).2
        exact hun (by rw [← h1, h2])
    | inl s2 =>
      rw [ht] at h
      dsimp only at h
      split at h
      · cases h
      · next he =>
        exact ih (recover s2) out sf (recover_post input s2 (u1 s2 ht)) (recover_safe s2 (t1 s2 ht))
          (by intro e; rw [e] at he; simp at he) h

theorem drain_safe : ∀ (fuel : Nat) (s1 : LoopSt) (out : LoopOut) (sf : LoopSt),
    PInv s1.ps → drain fuel s1 = some (out, sf) → (∀ e, out ≠ .panic e) ∧ ∀ ps, out = .ok ps → PInv ps := by
  intro fuel
  induction fuel with
  | zero => intro s1 out sf _ h; simp [drain] at h
  | succ n ih =>
    intro s1 out sf hq h
    unfold drain at h
    rw [afterFetch_eq_tailS true s1 (Or.inl rfl)] at h
    obtain ⟨t1, t2⟩ := tailS_safe s1 hq
    cases ht : tailS s1 with
    | inr r =>
      rw [ht] at h
      obtain ⟨o, f⟩ := r
      have e1 : o = out := by cases h; rfl
      subst e1
      exact t2 _ _ ht
    | inl s2 =>
      rw [ht] at h
      exact ih (recover s2) out sf (recover_safe s2 (t1 s2 ht)) h

theorem flagsM_le (s : LoopSt) : flagsM s ≤ 3 := by
  unfold flagsM
  cases s.justFinished <;> cases s.triedToGrow <;> cases s.inRecovery <;> simp

/-- every state in which `parse_async` awaits a chunk: loop invariant, exhausted reader, recovery
    block done, parser invariant -/
structure Susp (input : Bytes) (s : LoopSt) : Prop where
  post : Post input s
  unread : s.unread = []
  recDone : RecDone s
  safe : PInv s.ps

theorem runRev_susp : ∀ (rx : List Bytes) (s : LoopSt) (cb : Bytes),
    model.runRev rx = some (s, cb) → Susp (bodyOf rx) s := by
  intro rx
  induction rx with
  | nil =>
    intro s cb h
    have e : model.init = s := by simp only [ParserModel.runRev] at h; cases h; rfl
    rw [← e]
    exact ⟨init_post, rfl, fun h => by simp [model, init, Stream.init] at h, PInv.init⟩
  | cons b older ih =>
    intro s cb h
    obtain ⟨hp, hu, _⟩ := runRev_post (b :: older) s cb h
    simp only [ParserModel.runRev] at h
    cases ho : model.runRev older with
    | none => rw [ho] at h; simp at h
    | some r0 =>
      obtain ⟨s0, cb0⟩ := r0
      rw [ho] at h
      have h0 := ih s0 cb0 ho
      dsimp only at h
      cases hf : model.feed s0 b with
      | none => rw [hf] at h; simp at h
      | some r1 =>
        obtain ⟨s1, cb1⟩ := r1
        rw [hf] at h
        have e1 : s1 = s := by cases h; rfl
        rw [← e1]
        rw [← e1] at hp hu
        have hf' : feed s0 b = some (s1, cb1) := hf
        unfold feed at hf'
        by_cases hb : b.isEmpty = true
        · rw [if_pos hb] at hf'
          have e2 : s0 = s1 := by cases hf'; rfl
          rw [← e2]
          rw [← e2] at hp
          exact ⟨hp, h0.unread, h0.recDone, h0.safe⟩
        · rw [if_neg hb] at hf'
          have hbne : b ≠ [] := fun e => hb (by simp [e])
          cases hpm : pump (feedFuel s0 b) { s0 with unread := b } with
          | fuel => rw [hpm] at hf'; simp at hf'
          | returned o f => rw [hpm] at hf'; simp at hf'
          | await s' =>
            rw [hpm] at hf'
            have e2 : s' = s1 := by cases hf'; rfl
            rw [← e2]
            rw [← e2] at hp hu
            obtain ⟨q1, q2⟩ := pump_await_safe _ _ s' (show PInv ({ s0 with unread := b } : LoopSt).ps from h0.safe) hbne hpm
            exact ⟨hp, hu, q1, q2⟩

/-- **`feed` is total and its `none` is an `Err` of `parse_async`**: from any state reached on
    chunks, a (non-empty) chunk either leaves the loop awaiting the next one, or makes
    `parse_async` return `Err` — never a panic, never `Ok` (bytes are still unread), and the
    model's fuel is never exhausted. -/
theorem feed_total (rx : List Bytes) (s : LoopSt) (cb b : Bytes) (h : model.runRev rx = some (s, cb))
    (hb : b ≠ []) :
    (∃ s', pump (feedFuel s b) { s with unread := b } = .await s') ∨
    (∃ k l sf, pump (feedFuel s b) { s with unread := b } = .returned (.err k l) sf) := by
  have hs := runRev_susp rx s cb h
  have hp := post_extend (bodyOf rx) b s hs.post hs.unread
  have hm : Stream.measure ({ s with unread := b } : LoopSt) < feedFuel s b := by
    have := flagsM_le ({ s with unread := b } : LoopSt)
    unfold Stream.measure feedFuel
    show 8 * b.length + 4 * s.buf.data.length + flagsM ({ s with unread := b } : LoopSt) < _
    omega
  cases hpm : pump (feedFuel s b) { s with unread := b } with
  | await s' => exact Or.inl ⟨s', rfl⟩
  | fuel => exact absurd hpm (pump_fuel _ _ hs.recDone hb hm)
  | returned out sf =>
    obtain ⟨k, l, e⟩ := pump_returned _ _ _ out sf hp hs.safe hb hpm
    exact Or.inr ⟨k, l, sf, by rw [e]⟩

/-- **`finish` is total and its `none` is an `Err`**: at the end of the response `parse_async`
    returns `Ok(parser.finish())` — `finish` never takes a panic outcome — or an `Err`. -/
theorem finish_total (rx : List Bytes) (s : LoopSt) (cb : Bytes) (h : model.runRev rx = some (s, cb)) :
    (∃ fin t, model.finish s = some (fin, t)) ∨
    (∃ k l sf, drain (finishFuel s) s = some (.err k l, sf)) := by
  have hs := runRev_susp rx s cb h
  have hm : Stream.measure s < finishFuel s := by
    have := flagsM_le s
    unfold Stream.measure finishFuel
    rw [hs.unread]
    simp only [List.length_nil]
    omega
  cases hd : drain (finishFuel s) s with
  | none => exact absurd hd (drain_fuel _ _ hs.recDone hm)
  | some r =>
    obtain ⟨out, sf⟩ := r
    obtain ⟨d1, d2⟩ := drain_safe _ _ out sf hs.safe hd
    cases out with
    | err k l => exact Or.inr ⟨k, l, sf, rfl⟩
    | panic e => exact absurd rfl (d1 e)
    | ok ps =>
      left
      obtain ⟨f, hf⟩ := finish_ok ps (d2 ps rfl)
      refine ⟨newCb s sf, f, ?_⟩
      show finish s = _
      unfold finish
      rw [hd]
      simp only [hf]
      rfl


/-! ### law 2: `chunk_independent` -/

theorem shortLines_iff (b : Bytes) : shortLines b ↔ ShortLines (MAX_BUFFER_CAPACITY / 2) b := Iff.rfl

theorem ShortLines.prefix {half : Nat} {a b : Bytes} (h : ShortLines half (a ++ b)) : ShortLines half a := by
  intro x seg y he hn
  exact h x seg (y ++ b) (by rw [he]; simp) hn

/-- in a `J` state (no recovery) the answer the loop is heading for is the reference semantics of
    the whole input received -/
theorem J_spec (input : Bytes) (s : LoopSt) (hJ : J MAX_BUFFER_CAPACITY input Lsym {} s) :
    specRest Lsym symOps.lines s.ps (!(cbBytes s).isEmpty) (s.buf.data ++ s.unread) =
      specOut Lsym symOps.lines {} input := by
  obtain ⟨ls, hls, hcb, hfold⟩ := hJ.aligned
  have hsplit := hJ.inv.split
  unfold specOut
  rw [← hsplit, hcb, List.append_assoc, specRest_append Lsym symOps.lines {} s.ps false ls hls _ hfold]
  congr 1
  rw [flatten_isEmpty_of_lines ls hls]
  simp

theorem J_extend (input b : Bytes) (s : LoopSt) (hJ : J MAX_BUFFER_CAPACITY input Lsym {} s)
    (hun : s.unread = []) : J MAX_BUFFER_CAPACITY (input ++ b) Lsym {} { s with unread := b } := by
  obtain ⟨hinv, h2, h3, h4, h5, h6, h7, h8⟩ := hJ
  have hp := post_extend input b s ⟨hinv.toMid, fun hf => hinv.fully hf h2⟩ hun
  exact ⟨⟨hp.mid, fun hf _ => hp.fully hf⟩, h2, h3, h4, h5, h6, h7, h8⟩

theorem init_J' : J MAX_BUFFER_CAPACITY [] Lsym {} init :=
  init_J MAX_BUFFER_CAPACITY INITIAL_BUFFER_CAPACITY [] Lsym {} [] (by decide) ⟨4, by decide⟩

theorem pump_J (input : Bytes) (hshort : ShortLines (MAX_BUFFER_CAPACITY / 2) input) :
    ∀ (fuel : Nat) (s1 s' : LoopSt), J MAX_BUFFER_CAPACITY input Lsym {} s1 → s1.unread ≠ [] →
      pump fuel s1 = .await s' → J MAX_BUFFER_CAPACITY input Lsym {} s' ∧ s'.unread = [] := by
  intro fuel
  induction fuel with
  | zero => intro s1 s' _ _ h; simp [pump] at h
  | succ n ih =>
    intro s1 s' hJ hun h
    unfold pump at h
    rw [afterFetch_eq_step false s1 (Or.inr hun) hJ.notRec] at h
    rcases step_J MAX_BUFFER_CAPACITY input symOps Lsym {} parseMore_eq (by decide) hshort s1 hJ with
      ⟨sf, hs⟩ | ⟨s2, hs, hJ2, _⟩
    · rw [hs] at h; simp at h
    · rw [hs] at h
      dsimp only at h
      rw [recover_of_notRec s2 hJ2.notRec] at h
      split at h
      · next he => cases h; exact ⟨hJ2, List.isEmpty_iff.mp he⟩
      · next he => exact ih s2 s' hJ2 (by intro e; rw [e] at he; simp at he) h

theorem drain_J (input : Bytes) (hshort : ShortLines (MAX_BUFFER_CAPACITY / 2) input) :
    ∀ (fuel : Nat) (s1 : LoopSt) (out : LoopOut) (sf : LoopSt), J MAX_BUFFER_CAPACITY input Lsym {} s1 →
      drain fuel s1 = some (out, sf) → out = specOut Lsym symOps.lines {} input := by
  intro fuel
  induction fuel with
  | zero => intro s1 out sf _ h; simp [drain] at h
  | succ n ih =>
    intro s1 out sf hJ h
    unfold drain at h
    rw [afterFetch_eq_step true s1 (Or.inl rfl) hJ.notRec] at h
    rcases step_J MAX_BUFFER_CAPACITY input symOps Lsym {} parseMore_eq (by decide) hshort s1 hJ with
      ⟨sf', hs⟩ | ⟨s2, hs, hJ2, _⟩
    · rw [hs] at h
      simp only [Option.some.injEq, Prod.mk.injEq] at h
      rw [← h.1]
      exact J_spec input s1 hJ
    · rw [hs] at h
      dsimp only at h
      rw [recover_of_notRec s2 hJ2.notRec] at h
      exact ih s2 out sf hJ2 h

theorem runRev_J : ∀ (rx : List Bytes) (s : LoopSt) (cb : Bytes),
    ShortLines (MAX_BUFFER_CAPACITY / 2) (bodyOf rx) → model.runRev rx = some (s, cb) →
    J MAX_BUFFER_CAPACITY (bodyOf rx) Lsym {} s ∧ s.unread = [] := by
  intro rx
  induction rx with
  | nil =>
    intro s cb _ h
    have e : model.init = s := by simp only [ParserModel.runRev] at h; cases h; rfl
    rw [← e]
    exact ⟨init_J', rfl⟩
  | cons b older ih =>
    intro s cb hshort h
    simp only [ParserModel.runRev] at h
    cases ho : model.runRev older with
    | none => rw [ho] at h; simp at h
    | some r0 =>
      obtain ⟨s0, cb0⟩ := r0
      rw [ho] at h
      have hshort0 : ShortLines (MAX_BUFFER_CAPACITY / 2) (bodyOf older) := ShortLines.prefix hshort
      obtain ⟨hJ0, hu0⟩ := ih s0 cb0 hshort0 ho
      dsimp only at h
      cases hf : model.feed s0 b with
      | none => rw [hf] at h; simp at h
      | some r1 =>
        obtain ⟨s1, cb1⟩ := r1
        rw [hf] at h
        have e1 : s1 = s := by cases h; rfl
        rw [← e1]
        have hf' : feed s0 b = some (s1, cb1) := hf
        unfold feed at hf'
        by_cases hb : b.isEmpty = true
        · rw [if_pos hb] at hf'
          have e2 : s0 = s1 := by cases hf'; rfl
          rw [← e2]
          have : b = [] := List.isEmpty_iff.mp hb
          subst this
          simp only [bodyOf, List.append_nil]
          exact ⟨hJ0, hu0⟩
        · rw [if_neg hb] at hf'
          have hbne : b ≠ [] := fun e => hb (by simp [e])
          cases hpm : pump (feedFuel s0 b) { s0 with unread := b } with
          | fuel => rw [hpm] at hf'; simp at hf'
          | returned o f => rw [hpm] at hf'; simp at hf'
          | await s' =>
            rw [hpm] at hf'
            have e2 : s' = s1 := by cases hf'; rfl
            rw [← e2]
            exact pump_J (bodyOf older ++ b) hshort _ _ s' (J_extend (bodyOf older) b s0 hJ0 hu0) hbne hpm

/-- **`ParserLaws.chunk_independent` for the real parser**: on C10's domain (every line shorter
    than 80 KiB) a successful parse by `parse_async`, whatever the chunks the response arrived in,
    yields the table of `SymbolFile::from_bytes` on the same bytes. From C10's machinery: both
    compute the reference semantics `specOut` (`step_J`, `stream_eq_spec`). -/
theorem chunk_independent_real (rx : List Bytes) (cb : Bytes) (t : Sym.SymbolFile)
    (hshort : shortLines (bodyOf rx)) (h : model.stream rx = some (cb, t)) :
    model.parse (bodyOf rx) = some t := by
  have hshort' : ShortLines (MAX_BUFFER_CAPACITY / 2) (bodyOf rx) := hshort
  unfold ParserModel.stream at h
  cases hr : model.runRev rx with
  | none => rw [hr] at h; simp at h
  | some r =>
    obtain ⟨s, cb0⟩ := r
    rw [hr] at h
    dsimp only at h
    obtain ⟨hJ, _⟩ := runRev_J rx s cb0 hshort' hr
    cases hfin : model.finish s with
    | none => rw [hfin] at h; simp at h
    | some r2 =>
      obtain ⟨fin, t'⟩ := r2
      rw [hfin] at h
      have ht : t' = t := by cases h; rfl
      have hfin' : finish s = some (fin, t') := hfin
      unfold finish at hfin'
      cases hd : drain (finishFuel s) s with
      | none => rw [hd] at hfin'; simp at hfin'
      | some r3 =>
        obtain ⟨out, sf⟩ := r3
        rw [hd] at hfin'
        have hout := drain_J (bodyOf rx) hshort' _ s out sf hJ hd
        cases out with
        | err k l => simp at hfin'
        | panic e => simp at hfin'
        | ok ps =>
          dsimp only at hfin'
          cases hfs : Sym.finish ps with
          | panic e => rw [hfs] at hfin'; simp at hfin'
          | ok f =>
            rw [hfs] at hfin'
            have hft : f = t' := by cases hfin'; rfl
            -- the whole-buffer parse computes the same reference semantics
            obtain ⟨sf', hwhole⟩ := machine_eq_spec MAX_BUFFER_CAPACITY INITIAL_BUFFER_CAPACITY (bodyOf rx)
              symOps Lsym {} [] parseMore_eq (by decide) (by decide) ⟨4, by decide⟩ hshort'
            show parse (bodyOf rx) = some t
            unfold parse parseResult parseStream
            rw [hwhole, ← hout]
            simp only [hfs]
            rw [← ht, ← hft]


/-! ### law 3: `info_url_trailer` -/

theorem trailer_eq_note (u : Url) : trailer u = noteThen u [] := by
  simp [trailer, noteThen, infoUrlTag, infoUrlTagB, Sym.NL]

theorem trailer_isLine (u : Url) (hu : UrlClean u) : IsLine (trailer u) := by
  refine ⟨infoUrlTag ++ u, ?_, rfl⟩
  intro h
  rcases List.mem_append.mp h with h | h
  · revert h; decide
  · exact (hu _ h).1 rfl

/-- a whole-buffer parse that succeeds, on C10's domain: the fold of the per-line step over the
    lines of the file gave the state `ps` whose `finish` is the table -/
theorem parse_some_spec (body : Bytes) (t : Sym.SymbolFile)
    (hshort : ShortLines (MAX_BUFFER_CAPACITY / 2) body) :
    parse body = some t ↔
      ∃ ps, specOut Lsym symOps.lines {} body = .ok ps ∧ Sym.finish ps = .ok t := by
  obtain ⟨sf, hw⟩ := machine_eq_spec MAX_BUFFER_CAPACITY INITIAL_BUFFER_CAPACITY body
    symOps Lsym {} [] parseMore_eq (by decide) (by decide) ⟨4, by decide⟩ hshort
  unfold parse parseResult parseStream
  rw [hw]
  cases specOut Lsym symOps.lines {} body with
  | err k l => simp
  | panic e => simp
  | ok ps =>
    simp only []
    cases hfs : Sym.finish ps with
    | panic e => simp [hfs]
    | ok f => simp [hfs]

/-- **`ParserLaws.info_url_trailer` for the real parser** (new; from the parser model): if a body
    parses to `t` and ends in a line feed, the body followed by `INFO URL <url>\n` — the cache entry
    `commit_cache_file` writes — parses to `t` with `url = Some(url)`: an open FUNC / STACK CFI INIT
    item is finished by the note exactly as `finish` would have finished it; an `INFO URL` line the
    body has itself is overridden. Domain: every line of the entry, the note included, shorter than
    80 KiB (C10's domain; a note longer than the parser's window would be dropped as an over-long
    line); the URL as `Url::to_string` writes it. -/
theorem info_url_trailer_real (body : Bytes) (t : Sym.SymbolFile) (u : Url) (hu : UrlClean u)
    (hnl : EndsNl body) (hshort : shortLines (body ++ trailer u)) (h : model.parse body = some t) :
    model.parse (body ++ trailer u) = some (model.setUrl t u) := by
  have hshortE : ShortLines (MAX_BUFFER_CAPACITY / 2) (body ++ trailer u) := hshort
  have hshortB : ShortLines (MAX_BUFFER_CAPACITY / 2) body := ShortLines.prefix hshortE
  obtain ⟨ps, hspec, hfin⟩ := (parse_some_spec body t hshortB).mp h
  apply (parse_some_spec (body ++ trailer u) _ hshortE).mpr
  -- the lines of the body
  obtain ⟨pre, hpre⟩ := hnl
  have hrest : (linesOf body).2 = [] := by rw [hpre]; exact linesAux_endNL pre []
  have hflat : (linesOf body).1.flatten = body := by
    have := linesOf_flatten body; rw [hrest, List.append_nil] at this; exact this
  have hlines := linesOf_isLine body
  -- the fold over them succeeded
  have hfold : foldL Lsym {} (linesOf body).1 = .ok ps ∧ (linesOf body).1.isEmpty = false := by
    unfold specOut specRest at hspec
    cases hf : foldL Lsym {} (linesOf body).1 with
    | err k l => rw [hf] at hspec; simp at hspec
    | panic e => rw [hf] at hspec; simp at hspec
    | ok st' =>
      rw [hf] at hspec
      simp only [Bool.not_false, Bool.true_and] at hspec
      cases he : (linesOf body).1.isEmpty with
      | true => rw [he] at hspec; simp at hspec
      | false =>
        rw [he, hrest] at hspec
        simp at hspec
        exact ⟨by rw [hspec], rfl⟩
  -- `finish ps` succeeded, so the open item was finished without a panic outcome
  obtain ⟨st', hfc⟩ : ∃ st', finishCur ps = .ok st' := by
    unfold Sym.finish at hfin
    cases hfc : finishCur ps with
    | panic e => rw [hfc] at hfin; simp at hfin
    | ok st' => exact ⟨st', rfl⟩
  refine ⟨{ st' with url := some u, lines := st'.lines + 1 }, ?_, ?_⟩
  · unfold specOut
    rw [← hflat, specRest_append Lsym symOps.lines {} ps false _ hlines (trailer u) hfold.1]
    unfold specRest
    have hl : linesOf (trailer u) = ([trailer u], []) := by
      have := linesOf_append_lines [trailer u] (by
        intro l hl; simp only [List.mem_singleton] at hl; rw [hl]; exact trailer_isLine u hu) []
      simpa [linesOf, linesAux] using this
    rw [hl]
    simp only [foldL]
    rw [trailer_eq_note, Lsym_info ps u hu, hfc]
    simp [hfold.2]
  · rw [finish_setUrl ps st' hfc u, hfin]
    rfl

/-! ### the hypothesis "every line of the entry is short" from its parts -/

/-- a newline-free stretch of `x ++ "\n" ++ y` lies inside `x` or inside `y` -/
theorem seg_split {a seg b x y : Bytes} (h : a ++ seg ++ b = x ++ Stream.NL :: y) (hn : Stream.NL ∉ seg) :
    (∃ c, x = a ++ seg ++ c) ∨ (∃ d, y = d ++ seg ++ b) := by
  rcases List.append_eq_append_iff.mp h with ⟨c, h1, h2⟩ | ⟨c, h1, h2⟩
  · -- x = (a ++ seg) ++ c
    exact Or.inl ⟨c, h1⟩
  · -- a ++ seg = x ++ c,  NL :: y = c ++ b
    cases c with
    | nil => exact Or.inl ⟨[], by simpa using h1.symm⟩
    | cons c0 c' =>
      have hc0 : c0 = Stream.NL := by simp at h2; exact h2.1.symm
      have hy : y = c' ++ b := by simp at h2; exact h2.2
      subst hc0
      -- a ++ seg = (x ++ [NL]) ++ c'
      have h1' : a ++ seg = (x ++ [Stream.NL]) ++ c' := by simpa using h1
      rcases List.append_eq_append_iff.mp h1' with ⟨d, g1, g2⟩ | ⟨d, g1, g2⟩
      · -- x ++ [NL] = a ++ d, seg = d ++ c'
        cases hd : d.getLast? with
        | none =>
          have : d = [] := List.getLast?_eq_none_iff.mp hd
          subst this
          right
          refine ⟨[], ?_⟩
          simp at g2
          simp [hy, g2]
        | some z =>
          exfalso
          obtain ⟨d0, hd0⟩ := List.getLast?_eq_some_iff.mp hd
          -- the last byte of d is the NL
          have : (x ++ [Stream.NL]).getLast? = (a ++ d).getLast? := by rw [g1]
          rw [hd0] at this
          simp at this
          subst this
          apply hn
          rw [g2, hd0]
          simp
      · -- a = x ++ [NL] ++ d, c' = d ++ seg
        right
        exact ⟨d, by rw [hy, g2]⟩

theorem shortLines_join {half : Nat} {x y : Bytes} (hx : ShortLines half x) (hy : ShortLines half y) :
    ShortLines half (x ++ Stream.NL :: y) := by
  intro a seg b he hn
  rcases seg_split he.symm hn with ⟨c, h⟩ | ⟨d, h⟩
  · exact hx a seg c h hn
  · exact hy d seg b h hn

theorem shortLines_short {half : Nat} {y : Bytes} (h : y.length < half) : ShortLines half y := by
  intro a seg b he _
  have : y.length = a.length + seg.length + b.length := by rw [he]; simp only [List.length_append]
  omega

/-- the hypothesis of `cached_equals_original_real` from its parts: a body with short lines that ends
    in a line feed, and a URL shorter than 80 KiB − 10 -/
theorem shortLines_entry (body : Bytes) (u : Url) (hb : shortLines body) (hnl : EndsNl body)
    (hlen : u.length + 10 < MAX_BUFFER_CAPACITY / 2) : shortLines (body ++ trailer u) := by
  obtain ⟨pre, rfl⟩ := hnl
  have hpre : ShortLines (MAX_BUFFER_CAPACITY / 2) pre := ShortLines.prefix (b := [10]) hb
  have e : pre ++ [10] ++ trailer u = pre ++ Stream.NL :: trailer u := by simp [Stream.NL]
  show ShortLines (MAX_BUFFER_CAPACITY / 2) (pre ++ [10] ++ trailer u)
  rw [e]
  apply shortLines_join hpre
  apply shortLines_short
  simp [trailer, infoUrlTag]
  omega


/-! ### completeness: a body that parses is accepted by `parse_async` under every chunking -/

/-- In a `J` state with bytes still unread, an iteration that returns does so with a parser error
    of a complete line — an error that every extension of the input has as well. -/
theorem step_J_unread (input : Bytes)
    (s : LoopSt) (hJ : J MAX_BUFFER_CAPACITY input Lsym {} s) (hun : s.unread ≠ [])
    (out : LoopOut) (sf : LoopSt) (h : Stream.step MAX_BUFFER_CAPACITY symOps s = .inr (out, sf)) :
    ∀ ext, specOut Lsym symOps.lines {} (input ++ ext) = out := by
  obtain ⟨hinv, hnr, hnj, hnoNL, ⟨ls0, hls0, hcb0, hfold0⟩, hfully, htried, _⟩ := hJ
  obtain ⟨f_cb, f_ps, f_fc, f_tg, f_ir, f_jf, f_tc, f_cap, f_un⟩ := readBlock_facts s
  obtain ⟨hm2, hd2, hz2⟩ := readBlock_mid MAX_BUFFER_CAPACITY input s hinv.toMid
  have hstep : Stream.step MAX_BUFFER_CAPACITY symOps s =
      if (readBlock s).2.length = 0 then
        zeroBlock MAX_BUFFER_CAPACITY symOps (decide (s.buf.availableSpace > 0)) (readBlock s).1
      else parseBlock symOps { (readBlock s).1 with triedToGrow := false } := by
    unfold Stream.step; simp only [hnr, Bool.false_eq_true, if_false]
  rw [hstep] at h
  by_cases hz : (readBlock s).2.length = 0
  · -- a zero-length read with bytes unread: the buffer is full, the loop grows it and goes on
    exfalso
    rw [if_pos hz] at h
    have hnil : (readBlock s).2 = [] := List.eq_nil_of_length_eq_zero hz
    rw [hnil, List.nil_append] at f_un
    rw [hnil, List.append_nil] at hd2
    have hsp : s.buf.availableSpace = 0 := by
      rcases hz2 hz with h0 | h0
      · exact h0
      · rw [f_un] at h0; exact absurd h0 hun
    have hnf : s.fullyConsumed = false := by
      cases hfc : s.fullyConsumed with
      | false => rfl
      | true =>
        exfalso
        have hd := (hfully.mp hfc).1
        have hb := hinv.buf
        simp only [Buf.availableSpace, Buf.end_, hd, List.length_nil, Nat.add_zero] at hsp
        have h1 := hb.half; have h2 := hb.capPos
        omega
    have hnt : s.triedToGrow = false := by
      cases ht : s.triedToGrow with
      | false => rfl
      | true => have := htried ht; omega
    unfold zeroBlock at h
    simp only [f_jf, hnj, Bool.false_and, Bool.false_eq_true, if_false, f_fc, hnf, f_tg, hnt,
      Bool.not_false, Bool.true_and] at h
    have : (!decide (s.buf.availableSpace > 0)) = true := by simp [hsp]
    rw [if_pos this] at h
    split at h <;> cases h
  · rw [if_neg hz] at h
    -- the parser ran on the window and failed on one of its complete lines
    have hpm : symOps.parseMore (readBlock s).1.ps (readBlock s).1.buf.data =
        pmSpec Lsym s.ps (readBlock s).1.buf.data := by
      rw [f_ps]; exact parseMore_eq _ _
    have hlines := linesOf_isLine (readBlock s).1.buf.data
    have hsplit := hinv.split
    intro ext
    -- the input, split into the lines consumed so far, the lines of the window, and the rest
    have hinput : input ++ ext = ls0.flatten ++ ((linesOf (readBlock s).1.buf.data).1.flatten ++
        ((linesOf (readBlock s).1.buf.data).2 ++ ((readBlock s).1.unread ++ ext))) := by
      rw [← hsplit, hcb0, ← f_un]
      have := linesOf_flatten (readBlock s).1.buf.data
      rw [hd2] at this ⊢
      simp only [List.append_assoc]
      rw [← List.append_assoc ((linesOf (s.buf.data ++ (readBlock s).2)).1.flatten), this]
      simp only [List.append_assoc]
    unfold parseBlock at h
    rw [if_neg (by show ¬ ((readBlock s).1.inRecovery = true); rw [f_ir, hnr]; simp)] at h
    dsimp only at h
    rw [hpm] at h
    unfold pmSpec at h
    unfold specOut
    rw [hinput, specRest_append Lsym symOps.lines {} s.ps false ls0 hls0 _ hfold0]
    cases hf : foldL Lsym s.ps (linesOf (readBlock s).1.buf.data).1 with
    | err k n =>
      rw [hf] at h
      have : out = .err k n := by cases h; rfl
      rw [this]
      exact specRest_err Lsym symOps.lines s.ps _ _ hlines _ k n hf
    | panic e =>
      rw [hf] at h
      have : out = .panic e := by cases h; rfl
      rw [this]
      exact specRest_panic Lsym symOps.lines s.ps _ _ hlines _ e hf
    | ok st' =>
      exfalso
      rw [hf] at h
      dsimp only at h
      split at h
      · next hgt =>
        have hwl : (readBlock s).1.buf.data.length =
            (linesOf (readBlock s).1.buf.data).1.flatten.length + (linesOf (readBlock s).1.buf.data).2.length := by
          rw [← List.length_append, linesOf_flatten]
        omega
      · cases h

theorem pump_J_complete (input : Bytes) (hshort : ShortLines (MAX_BUFFER_CAPACITY / 2) input) :
    ∀ (fuel : Nat) (s1 : LoopSt), J MAX_BUFFER_CAPACITY input Lsym {} s1 → s1.unread ≠ [] →
      Stream.measure s1 < fuel →
      (∃ s', pump fuel s1 = .await s') ∨
      (∃ out sf, pump fuel s1 = .returned out sf ∧ ∀ ext, specOut Lsym symOps.lines {} (input ++ ext) = out) := by
  intro fuel
  induction fuel with
  | zero => intro s1 _ _ h; omega
  | succ n ih =>
    intro s1 hJ hun hm
    unfold pump
    rw [afterFetch_eq_step false s1 (Or.inr hun) hJ.notRec]
    cases hs : Stream.step MAX_BUFFER_CAPACITY symOps s1 with
    | inr r =>
      obtain ⟨out, sf⟩ := r
      exact Or.inr ⟨out, sf, rfl, step_J_unread input s1 hJ hun out sf hs⟩
    | inl s2 =>
      dsimp only
      have hJ2 : J MAX_BUFFER_CAPACITY input Lsym {} s2 := by
        rcases step_J MAX_BUFFER_CAPACITY input symOps Lsym {} parseMore_eq (by decide) hshort s1 hJ with
          ⟨sf, h1⟩ | ⟨s2', h1, hJ2, _⟩
        · rw [hs] at h1; cases h1
        · rw [hs] at h1; cases h1; exact hJ2
      rw [recover_of_notRec s2 hJ2.notRec]
      have hlt := step_measure MAX_BUFFER_CAPACITY symOps s1 s2 hs
      split
      · exact Or.inl ⟨s2, rfl⟩
      · next he => exact ih s2 hJ2 (by intro e; rw [e] at he; simp at he) (by omega)

theorem drain_J_complete (input : Bytes) (hshort : ShortLines (MAX_BUFFER_CAPACITY / 2) input) :
    ∀ (fuel : Nat) (s1 : LoopSt), J MAX_BUFFER_CAPACITY input Lsym {} s1 → Stream.measure s1 < fuel →
      ∃ sf, drain fuel s1 = some (specOut Lsym symOps.lines {} input, sf) := by
  intro fuel
  induction fuel with
  | zero => intro s1 _ h; omega
  | succ n ih =>
    intro s1 hJ hm
    unfold drain
    rw [afterFetch_eq_step true s1 (Or.inl rfl) hJ.notRec]
    rcases step_J MAX_BUFFER_CAPACITY input symOps Lsym {} parseMore_eq (by decide) hshort s1 hJ with
      ⟨sf, h1⟩ | ⟨s2, h1, hJ2, _⟩
    · rw [h1]
      exact ⟨sf, by rw [J_spec input s1 hJ]⟩
    · rw [h1]
      dsimp only
      rw [recover_of_notRec s2 hJ2.notRec]
      have hlt := step_measure MAX_BUFFER_CAPACITY symOps s1 s2 h1
      exact ih s2 hJ2 (by omega)

/-- every chunk of a response whose body (possibly continued by `fut`) parses is taken in: the
    loop awaits the next chunk after each -/
theorem runRev_complete : ∀ (rx : List Bytes) (fut : Bytes),
    ShortLines (MAX_BUFFER_CAPACITY / 2) (bodyOf rx ++ fut) →
    (∃ ps, specOut Lsym symOps.lines {} (bodyOf rx ++ fut) = .ok ps) →
    ∃ s cb, model.runRev rx = some (s, cb) := by
  intro rx
  induction rx with
  | nil => intro _ _ _; exact ⟨_, _, rfl⟩
  | cons b older ih =>
    intro fut hshort hok
    have e : bodyOf (b :: older) ++ fut = bodyOf older ++ (b ++ fut) := by simp [bodyOf]
    obtain ⟨s0, cb0, h0⟩ := ih (b ++ fut) (e ▸ hshort) (e ▸ hok)
    have hsh : ShortLines (MAX_BUFFER_CAPACITY / 2) (bodyOf (b :: older)) := ShortLines.prefix hshort
    obtain ⟨hJ0, hu0⟩ := runRev_J older s0 cb0 (ShortLines.prefix (b := b) hsh) h0
    simp only [ParserModel.runRev, h0]
    by_cases hb : b.isEmpty = true
    · have : model.feed s0 b = some (s0, []) := by
        show feed s0 b = _
        unfold feed; rw [if_pos hb]; rfl
      rw [this]; exact ⟨_, _, rfl⟩
    · have hbne : b ≠ [] := fun e => hb (by simp [e])
      have hJ1 := J_extend (bodyOf older) b s0 hJ0 hu0
      have hm : Stream.measure ({ s0 with unread := b } : LoopSt) < feedFuel s0 b := by
        have := flagsM_le ({ s0 with unread := b } : LoopSt)
        unfold Stream.measure feedFuel
        show 8 * b.length + 4 * s0.buf.data.length + flagsM ({ s0 with unread := b } : LoopSt) < _
        omega
      rcases pump_J_complete (bodyOf older ++ b) hsh _ _ hJ1 hbne hm with ⟨s', hp⟩ | ⟨out, sf, hp, hext⟩
      · have : model.feed s0 b = some (s', newCb s0 s') := by
          show feed s0 b = _
          unfold feed; rw [if_neg hb, hp]
        rw [this]; exact ⟨_, _, rfl⟩
      · -- `parse_async` returned in the middle of the response: the whole body would not parse either
        exfalso
        obtain ⟨ps, hps⟩ := hok
        have h1 := hext fut
        have h2 : bodyOf (b :: older) = bodyOf older ++ b := rfl
        rw [← h2, hps] at h1
        obtain ⟨k, l, hk⟩ := pump_returned (bodyOf older ++ b) _ _ out sf
          (post_extend (bodyOf older) b s0 ⟨hJ0.inv.toMid, fun hf => hJ0.inv.fully hf hJ0.notRec⟩ hu0)
          (runRev_susp older s0 cb0 h0).safe hbne hp
        rw [hk] at h1
        cases h1

/-- **completeness of the download** (the converse of `chunk_independent_real`): on C10's domain, if
    `SymbolFile::from_bytes` accepts the body, then `parse_async` accepts it under EVERY chunking of
    the response, with the same table, having handed exactly the body to the tee callback -/
theorem stream_complete (rx : List Bytes) (t : Sym.SymbolFile) (hshort : shortLines (bodyOf rx))
    (hp : model.parse (bodyOf rx) = some t) : model.stream rx = some (bodyOf rx, t) := by
  have hshort' : ShortLines (MAX_BUFFER_CAPACITY / 2) (bodyOf rx) := hshort
  obtain ⟨ps, hspec, hfin⟩ := (parse_some_spec (bodyOf rx) t hshort').mp hp
  obtain ⟨s, cb, hr⟩ := runRev_complete rx [] (by simpa using hshort') ⟨ps, by simpa using hspec⟩
  obtain ⟨hJ, hu⟩ := runRev_J rx s cb hshort' hr
  have hm : Stream.measure s < finishFuel s := by
    have := flagsM_le s
    unfold Stream.measure finishFuel
    rw [hu]; simp only [List.length_nil]; omega
  obtain ⟨sf, hd⟩ := drain_J_complete (bodyOf rx) hshort' _ s hJ hm
  rw [hspec] at hd
  have hfinish : model.finish s = some (newCb s sf, t) := by
    show finish s = _
    unfold finish
    rw [hd]
    simp only [hfin]
  have hbody := (callback_prefix_real rx s cb hr).2 _ _ hfinish
  unfold ParserModel.stream
  rw [hr]
  simp only [hfinish]
  rw [hbody]
  rfl


/-- **the three laws hold for the real parser model** — no assumption left about the parser -/
theorem laws : ParserLaws model :=
  { callback_prefix := callback_prefix_real
    chunk_independent := chunk_independent_real
    info_url_trailer := info_url_trailer_real }


end MdModel.CacheFs.Real
