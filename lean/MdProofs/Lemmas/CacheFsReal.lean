/-
  The loop of `parse_async` (`MdModel.CacheFs.Real`: `afterFetch`, `recover`, `pump`, `drain`)
  expressed through the blocks of the synchronous loop (`MdModel.Stream`), and what the buffer
  machine lemmas of C09/C10 give for it:

    * `afterFetch_eq_step`   outside recovery one iteration is literally `Stream.step`
    * `tail_spec`            the loop invariant `Inv` (callback bytes ++ window ++ unread = received)
    * `tail_measure`         `Stream.measure` decreases: `pump`/`drain` never run out of fuel
    * `tail_safe`            no panic outcome (parser invariant `PInv`)
    * `cb_grows`             the callback log only grows (so `newCb` is the increment)
-/
import MdModel.CacheFs
import MdProofs.Lemmas.SymStream
import MdProofs.Lemmas.SymChunk
import MdProofs.Lemmas.SymParseLocal
import MdProofs.Lemmas.SymNoPanic
namespace MdModel.CacheFs.Real
open MdModel MdModel.Stream MdModel.Sym MdModel.Gen.SymConsts

/-! ### `parse_async`'s end-of-input test vs. the synchronous one -/

theorem zeroBlockA_eq (hadSpace ended : Bool) (s : LoopSt) (h : ended = true ∨ hadSpace = false) :
    zeroBlockA hadSpace ended s = Stream.zeroBlock MAX_BUFFER_CAPACITY symOps hadSpace s := by
  unfold zeroBlockA Stream.zeroBlock
  rcases h with h | h <;> subst h <;> simp

/-- the tail of an iteration of the synchronous loop -/
def tailS (s1 : LoopSt) : Sum LoopSt (LoopOut × LoopSt) :=
  if (readBlock s1).2.length = 0 then
    Stream.zeroBlock MAX_BUFFER_CAPACITY symOps (decide (s1.buf.availableSpace > 0)) (readBlock s1).1
  else parseBlock symOps { (readBlock s1).1 with triedToGrow := false }

theorem step_eq_tailS (s0 : LoopSt) :
    Stream.step MAX_BUFFER_CAPACITY symOps s0 = tailS (recover s0) := by
  unfold Stream.step tailS recover
  rfl

/-- while the chunk lasts (or after the end of the response) a zero-length read means what it
    means for a `Read`er: `!(had_space && response_ended)` = `!had_space` -/
theorem afterFetch_eq_tailS (ended : Bool) (s1 : LoopSt) (h : ended = true ∨ s1.unread ≠ []) :
    afterFetch ended s1 = tailS s1 := by
  unfold afterFetch tailS
  dsimp only
  split
  · next hz =>
    apply zeroBlockA_eq
    rcases h with h | h
    · exact Or.inl h
    · right
      obtain ⟨r1, _, r3⟩ := readChunk_spec s1.buf.availableSpace s1.unread s1.sched
      have hz' : (readChunk s1.buf.availableSpace s1.unread s1.sched).1.length = 0 := hz
      rcases r3 hz' with h0 | h0
      · simp [h0]
      · exact absurd h0 h
  · rfl

theorem recover_of_notRec (s : LoopSt) (h : s.inRecovery = false) : recover s = s := by
  unfold recover; simp [h]

theorem afterFetch_eq_step (ended : Bool) (s1 : LoopSt) (h : ended = true ∨ s1.unread ≠ [])
    (hr : s1.inRecovery = false) :
    afterFetch ended s1 = Stream.step MAX_BUFFER_CAPACITY symOps s1 := by
  rw [afterFetch_eq_tailS ended s1 h, step_eq_tailS, recover_of_notRec s1 hr]

/-! ### the loop invariant across the tail of an iteration (second half of `Stream.step_spec`) -/

/-- what holds after the recovery block, i.e. at the point where `parse_async` awaits a chunk -/
structure Post (input : Bytes) (s : LoopSt) : Prop where
  mid : Mid MAX_BUFFER_CAPACITY input s
  fully : s.fullyConsumed = true → s.buf.data = []

theorem recover_post (input : Bytes) (s : LoopSt) (h : Inv MAX_BUFFER_CAPACITY input s) :
    Post input (recover s) := by
  unfold recover
  by_cases hr : s.inRecovery = true
  · simp only [hr, if_true]
    obtain ⟨h1, h2⟩ := recoverBlock_mid MAX_BUFFER_CAPACITY input symOps s h.toMid
    exact ⟨h1, h2⟩
  · simp only [hr]
    exact ⟨h.toMid, fun hf => h.fully hf (by simpa using hr)⟩

theorem tailS_spec (input : Bytes) (s1 : LoopSt) (hp : Post input s1) :
    (∀ s', tailS s1 = .inl s' → Inv MAX_BUFFER_CAPACITY input s') ∧
    (∀ out sf, tailS s1 = .inr (out, sf) →
      Mid MAX_BUFFER_CAPACITY input sf ∧ ∀ ps, out = .ok ps → sf.buf.data = [] ∧ sf.unread = []) := by
  obtain ⟨hm1, hf1⟩ := hp
  unfold tailS
  obtain ⟨hm2, hd2, hz2⟩ := readBlock_mid MAX_BUFFER_CAPACITY input s1 hm1
  have hfl : (readBlock s1).1.fullyConsumed = s1.fullyConsumed := rfl
  have hrc : (readBlock s1).1.inRecovery = s1.inRecovery := rfl
  split
  · next hz =>
    -- size == 0
    have hnil : (readBlock s1).2 = [] := List.eq_nil_of_length_eq_zero hz
    rw [hnil, List.append_nil] at hd2
    have hfull : (readBlock s1).1.fullyConsumed = true → (readBlock s1).1.buf.data = [] := by
      intro hf
      rw [hfl] at hf
      rw [hd2]; exact hf1 hf
    obtain ⟨z1, z2⟩ := zeroBlock_spec MAX_BUFFER_CAPACITY input symOps (decide (s1.buf.availableSpace > 0)) _ hm2 hfull
    refine ⟨z1, fun out sf hz' => ?_⟩
    obtain ⟨q1, q2, q3⟩ := z2 out sf hz'
    refine ⟨q1, fun ps hps => ⟨q3 ps hps, ?_⟩⟩
    -- Ok: the window is empty, so there was space, so the reader is at end of input
    rw [q2]
    rcases hz2 hz with hsp | hun
    · exfalso
      -- zeroBlock returned Ok, hence fullyConsumed, hence the window is empty
      have hfc : (readBlock s1).1.fullyConsumed = true := by
        unfold zeroBlock at hz'
        subst hps
        split at hz'
        · obtain ⟨_, _, p3⟩ := parseBlock_spec MAX_BUFFER_CAPACITY input symOps _ hm2
          exact absurd rfl ((p3 _ _ hz').2.2 ps)
        · split at hz'
          · next hf => exact hf
          · split at hz'
            · dsimp only at hz'; split at hz' <;> cases hz'
            · split at hz' <;> cases hz'
      have hd : s1.buf.data = [] := by rw [← hd2]; exact hfull hfc
      have := hm1.buf
      simp only [Buf.availableSpace, Buf.end_, hd, List.length_nil, Nat.add_zero] at hsp
      have h1 := this.half; have h2 := this.capPos; have h3 := this.fits
      omega
    · exact hun
  · -- size > 0
    have hm3 : Mid MAX_BUFFER_CAPACITY input { (readBlock s1).1 with triedToGrow := false } :=
      hm2.congr rfl rfl rfl rfl
    obtain ⟨p1, p2, p3⟩ := parseBlock_spec MAX_BUFFER_CAPACITY input symOps _ hm3
    refine ⟨fun s' h1 => ?_, fun out sf h1 => ?_⟩
    · by_cases hr : s1.inRecovery = true
      · have := p2 s' h1 hr
        subst this
        exact ⟨hm3, fun _ h2 => by simp only [hrc] at h2; rw [hr] at h2; cases h2⟩
      · exact p1 s' h1 (by rw [show ({ (readBlock s1).1 with triedToGrow := false } : LoopSt).inRecovery = s1.inRecovery from rfl]; simpa using hr)
    · obtain ⟨q1, _, q2⟩ := p3 out sf h1
      exact ⟨q1, fun ps hps => absurd hps (q2 ps)⟩


/-! ### the callback log only grows -/

/-- `s'` was reached from `s` by pushing entries on the callback log -/
def CbExt (s s' : LoopSt) : Prop := ∃ new, s'.cb = new ++ s.cb

theorem CbExt.refl (s : LoopSt) : CbExt s s := ⟨[], rfl⟩
theorem CbExt.trans {a b c : LoopSt} (h1 : CbExt a b) (h2 : CbExt b c) : CbExt a c := by
  obtain ⟨n1, e1⟩ := h1
  obtain ⟨n2, e2⟩ := h2
  exact ⟨n2 ++ n1, by rw [e2, e1, List.append_assoc]⟩
theorem CbExt.of_eq {a b : LoopSt} (h : b.cb = a.cb) : CbExt a b := ⟨[], by simp [h]⟩

/-- `newCb` is the increment of the callback bytes -/
theorem cbBytes_newCb {s s' : LoopSt} (h : CbExt s s') : cbBytes s' = cbBytes s ++ newCb s s' := by
  obtain ⟨new, e⟩ := h
  unfold newCb cbBytes
  rw [e]
  simp

theorem recover_cb (s : LoopSt) : CbExt s (recover s) := by
  unfold recover
  split
  · unfold recoverBlock
    dsimp only
    split
    · exact ⟨[_], rfl⟩
    · exact ⟨[_], rfl⟩
  · exact CbExt.refl s

theorem parseBlock_cb (s : LoopSt) :
    (∀ s', parseBlock symOps s = .inl s' → CbExt s s') ∧
    (∀ out sf, parseBlock symOps s = .inr (out, sf) → CbExt s sf) := by
  unfold parseBlock
  split
  · exact ⟨fun s' h => (by cases h; exact CbExt.refl s), fun _ _ h => (by cases h)⟩
  · dsimp only
    split
    · exact ⟨fun _ h => (by cases h), fun _ _ h => (by cases h; exact CbExt.of_eq rfl)⟩
    · exact ⟨fun _ h => (by cases h), fun _ _ h => (by cases h; exact CbExt.of_eq rfl)⟩
    · split
      · exact ⟨fun _ h => (by cases h), fun _ _ h => (by cases h; exact CbExt.of_eq rfl)⟩
      · exact ⟨fun _ h => (by cases h; exact ⟨[_], rfl⟩), fun _ _ h => (by cases h)⟩

theorem tailS_cb (s1 : LoopSt) :
    (∀ s', tailS s1 = .inl s' → CbExt s1 s') ∧
    (∀ out sf, tailS s1 = .inr (out, sf) → CbExt s1 sf) := by
  have hrb : CbExt s1 (readBlock s1).1 := CbExt.of_eq rfl
  unfold tailS
  split
  · unfold zeroBlock
    split
    · obtain ⟨p1, p2⟩ := parseBlock_cb (readBlock s1).1
      exact ⟨fun s' h => hrb.trans (p1 s' h), fun out sf h => hrb.trans (p2 out sf h)⟩
    · split
      · exact ⟨fun _ h => (by cases h), fun _ _ h => (by cases h; exact hrb)⟩
      · split
        · dsimp only
          split
          · exact ⟨fun _ h => (by cases h; exact CbExt.of_eq rfl), fun _ _ h => (by cases h)⟩
          · exact ⟨fun _ h => (by cases h; exact CbExt.of_eq rfl), fun _ _ h => (by cases h)⟩
        · split
          · exact ⟨fun _ h => (by cases h), fun _ _ h => (by cases h; exact hrb)⟩
          · exact ⟨fun _ h => (by cases h), fun _ _ h => (by cases h; exact hrb)⟩
  · obtain ⟨p1, p2⟩ := parseBlock_cb { (readBlock s1).1 with triedToGrow := false }
    have hrb' : CbExt s1 { (readBlock s1).1 with triedToGrow := false } := CbExt.of_eq rfl
    exact ⟨fun s' h => hrb'.trans (p1 s' h), fun out sf h => hrb'.trans (p2 out sf h)⟩

/-! ### `pump` and `drain` -/

theorem pump_await (input : Bytes) : ∀ (fuel : Nat) (s1 s' : LoopSt), Post input s1 → s1.unread ≠ [] →
    pump fuel s1 = .await s' → Post input s' ∧ s'.unread = [] ∧ CbExt s1 s' := by
  intro fuel
  induction fuel with
  | zero => intro s1 s' _ _ h; simp [pump] at h
  | succ n ih =>
    intro s1 s' hp hun h
    unfold pump at h
    rw [afterFetch_eq_tailS false s1 (Or.inr hun)] at h
    obtain ⟨t1, _⟩ := tailS_spec input s1 hp
    obtain ⟨c1, _⟩ := tailS_cb s1
    cases ht : tailS s1 with
    | inr r => rw [ht] at h; obtain ⟨o, f⟩ := r; simp at h
    | inl s2 =>
      rw [ht] at h
      dsimp only at h
      have hp2 : Post input (recover s2) := recover_post input s2 (t1 s2 ht)
      have hc2 : CbExt s1 (recover s2) := (c1 s2 ht).trans (recover_cb s2)
      split at h
      · next he =>
        cases h
        exact ⟨hp2, List.isEmpty_iff.mp he, hc2⟩
      · next he =>
        obtain ⟨q1, q2, q3⟩ := ih (recover s2) s' hp2 (by intro e; rw [e] at he; simp at he) h
        exact ⟨q1, q2, hc2.trans q3⟩

theorem drain_spec (input : Bytes) : ∀ (fuel : Nat) (s1 : LoopSt) (out : LoopOut) (sf : LoopSt),
    Post input s1 → drain fuel s1 = some (out, sf) →
    Mid MAX_BUFFER_CAPACITY input sf ∧ CbExt s1 sf ∧
      ∀ ps, out = .ok ps → sf.buf.data = [] ∧ sf.unread = [] := by
  intro fuel
  induction fuel with
  | zero => intro s1 out sf _ h; simp [drain] at h
  | succ n ih =>
    intro s1 out sf hp h
    unfold drain at h
    rw [afterFetch_eq_tailS true s1 (Or.inl rfl)] at h
    obtain ⟨t1, t2⟩ := tailS_spec input s1 hp
    obtain ⟨c1, c2⟩ := tailS_cb s1
    cases ht : tailS s1 with
    | inr r =>
      rw [ht] at h
      obtain ⟨o, f⟩ := r
      simp only [Option.some.injEq, Prod.mk.injEq] at h
      obtain ⟨rfl, rfl⟩ := h
      exact ⟨(t2 _ _ ht).1, c2 _ _ ht, (t2 _ _ ht).2⟩
    | inl s2 =>
      rw [ht] at h
      dsimp only at h
      obtain ⟨q1, q2, q3⟩ := ih (recover s2) out sf (recover_post input s2 (t1 s2 ht)) h
      exact ⟨q1, ((c1 s2 ht).trans (recover_cb s2)).trans q2, q3⟩


/-! ### law 1: `callback_prefix` -/

theorem init_post : Post [] init := by
  have h := init_inv MAX_BUFFER_CAPACITY INITIAL_BUFFER_CAPACITY ({} : PState) [] [] (by decide) (by decide)
  exact ⟨h.toMid, fun hf => by simp [init, Stream.init] at hf⟩

/-- handing the next chunk to a suspended loop -/
theorem post_extend (input b : Bytes) (s : LoopSt) (hp : Post input s) (hun : s.unread = []) :
    Post (input ++ b) { s with unread := b } := by
  obtain ⟨⟨hb, hc, hs, ht⟩, hf⟩ := hp
  refine ⟨⟨hb, hc, ?_, ht⟩, hf⟩
  show cbBytes s ++ s.buf.data ++ b = input ++ b
  rw [hun, List.append_nil] at hs
  rw [hs]

/-- the state after the chunks `rx`: suspended with an exhausted reader, the invariant holds for the
    bytes received, and the reported callback bytes are the callback log -/
theorem runRev_post : ∀ (rx : List Bytes) (s : LoopSt) (cb : Bytes),
    model.runRev rx = some (s, cb) → Post (bodyOf rx) s ∧ s.unread = [] ∧ cb = cbBytes s := by
  intro rx
  induction rx with
  | nil =>
    intro s cb h
    simp only [ParserModel.runRev, Option.some.injEq, Prod.mk.injEq] at h
    obtain ⟨rfl, rfl⟩ := h
    exact ⟨init_post, rfl, rfl⟩
  | cons b older ih =>
    intro s cb h
    simp only [ParserModel.runRev] at h
    cases ho : model.runRev older with
    | none => rw [ho] at h; simp at h
    | some r0 =>
      obtain ⟨s0, cb0⟩ := r0
      rw [ho] at h
      obtain ⟨hp0, hu0, hc0⟩ := ih s0 cb0 ho
      dsimp only at h
      cases hf : model.feed s0 b with
      | none => rw [hf] at h; simp at h
      | some r1 =>
        obtain ⟨s1, cb1⟩ := r1
        rw [hf] at h
        simp only [Option.some.injEq, Prod.mk.injEq] at h
        obtain ⟨rfl, rfl⟩ := h
        have hf' : feed s0 b = some (s, cb1) := hf
        unfold feed at hf'
        by_cases hb : b.isEmpty = true
        · rw [if_pos hb] at hf'
          simp only [Option.some.injEq, Prod.mk.injEq] at hf'
          obtain ⟨rfl, rfl⟩ := hf'
          have : b = [] := List.isEmpty_iff.mp hb
          subst this
          simp only [bodyOf, List.append_nil]
          exact ⟨hp0, hu0, hc0⟩
        · rw [if_neg hb] at hf'
          have hbne : b ≠ [] := fun e => hb (by simp [e])
          cases hpm : pump (feedFuel s0 b) { s0 with unread := b } with
          | fuel => rw [hpm] at hf'; simp at hf'
          | returned o f => rw [hpm] at hf'; simp at hf'
          | await s' =>
            rw [hpm] at hf'
            simp only [Option.some.injEq, Prod.mk.injEq] at hf'
            obtain ⟨e1, e2⟩ := hf'
            obtain ⟨q1, q2, q3⟩ := pump_await (bodyOf older ++ b) _ _ s'
              (post_extend (bodyOf older) b s0 hp0 hu0) hbne hpm
            rw [← e1, ← e2]
            refine ⟨q1, q2, ?_⟩
            have hcb : CbExt s0 s' := q3
            rw [cbBytes_newCb hcb, hc0]

/-- **`ParserLaws.callback_prefix` for the real parser**: what the tee callback has been given is
    always a prefix of the bytes received, and all of them when `parse_async` returns `Ok` — C10's
    `callback_prefix` / `callback_final`, for the loop of `parse_async` -/
theorem callback_prefix_real (rx : List Bytes) (s : LoopSt) (cb : Bytes)
    (h : model.runRev rx = some (s, cb)) :
    (∃ rest, cb ++ rest = bodyOf rx) ∧
    (∀ fin t, model.finish s = some (fin, t) → cb ++ fin = bodyOf rx) := by
  obtain ⟨hp, hun, hcb⟩ := runRev_post rx s cb h
  refine ⟨⟨s.buf.data, ?_⟩, fun fin t hfin => ?_⟩
  · have := hp.mid.split
    rw [hun, List.append_nil] at this
    rw [hcb]; exact this
  · have hfin' : finish s = some (fin, t) := hfin
    unfold finish at hfin'
    cases hd : drain (finishFuel s) s with
    | none => rw [hd] at hfin'; simp at hfin'
    | some r =>
      obtain ⟨out, sf⟩ := r
      rw [hd] at hfin'
      obtain ⟨m, hext, hok⟩ := drain_spec (bodyOf rx) _ s out sf hp hd
      cases out with
      | err k l => simp at hfin'
      | panic e => simp at hfin'
      | ok ps =>
        dsimp only at hfin'
        cases hfs : Sym.finish ps with
        | panic e => rw [hfs] at hfin'; simp at hfin'
        | ok f =>
          rw [hfs] at hfin'
          simp only [Option.some.injEq, Prod.mk.injEq] at hfin'
          obtain ⟨rfl, rfl⟩ := hfin'
          obtain ⟨hd0, hu0⟩ := hok ps rfl
          have := m.split
          rw [hd0, hu0, List.append_nil, List.append_nil, cbBytes_newCb hext] at this
          rw [hcb]; exact this


end MdModel.CacheFs.Real
