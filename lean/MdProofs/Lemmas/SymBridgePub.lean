/-
  Bridge C11 ↔ walker model, part 2: names and PUBLIC records.

  `MdModel.Symbolize` (C11) keeps names as byte lists and finds the nearest PUBLIC by sorting
  (`mergeSort pubLe`) and scanning backwards; `MdModel.Walk` keeps `String`s and finds it with one
  `foldl` that keeps the greatest record (in `String` order on code points) at or below the address.
  Related by `nm` = UTF-8 bytes (the `utf8` of the C06 bridge, `strLe_enc`: code-point order is byte
  order) and `pubOf`.
-/
import MdProofs.Lemmas.Symbolize
import MdProofs.Lemmas.SymbolizeScan
import MdProofs.Lemmas.WalkSym
import MdProofs.Lemmas.CfiBridgeUtf8
namespace MdModel.SymBridge
open MdModel MdModel.RangeMap
open MdModel.CfiBridge (utf8 utf8_eq_iff strLe_enc)

/-- a walker-model name as a C11 name: its UTF-8 bytes -/
def nm (s : String) : Symbolize.Name := (utf8 s).map UInt8.toNat

theorem nm_inj {s t : String} (h : nm s = nm t) : s = t := by
  apply utf8_eq_iff.mp
  unfold nm at h
  exact (List.map_inj_right (f := UInt8.toNat) (fun a b hab => UInt8.toNat_inj.mp hab)).mp h

theorem nm_eq_iff {s t : String} : nm s = nm t ↔ s = t := ⟨nm_inj, fun h => h ▸ rfl⟩

theorem lexLe_bytes (a b : List UInt8) :
    Symbolize.lexLe (a.map UInt8.toNat) (b.map UInt8.toNat) = Cfi.bytesLe a b := by
  induction a generalizing b with
  | nil => simp [Symbolize.lexLe, Cfi.bytesLe]
  | cons x a ih =>
    cases b with
    | nil => simp [Symbolize.lexLe, Cfi.bytesLe]
    | cons y b =>
      simp only [List.map_cons, Symbolize.lexLe, Cfi.bytesLe, ih b]
      by_cases h1 : x < y
      · have : x.toNat < y.toNat := UInt8.lt_iff_toNat_lt.mp h1
        simp [h1, this]
      · by_cases h2 : y < x
        · have h2' : y.toNat < x.toNat := UInt8.lt_iff_toNat_lt.mp h2
          have h3 : ¬ x.toNat < y.toNat := by omega
          have h4 : x.toNat ≠ y.toNat := by omega
          simp [h1, h2, h3, h4]
        · have h1' : ¬ x.toNat < y.toNat := fun h => h1 (UInt8.lt_iff_toNat_lt.mpr h)
          have h2' : ¬ y.toNat < x.toNat := fun h => h2 (UInt8.lt_iff_toNat_lt.mpr h)
          have : x.toNat = y.toNat := by omega
          simp [h1, h2, this]

/-- `String` order (the walker model) = `lexLe` on the UTF-8 bytes (C11) -/
theorem lexLe_nm (s t : String) : Symbolize.lexLe (nm s) (nm t) = (decide (s < t) || s == t) := by
  unfold nm
  rw [lexLe_bytes, ← strLe_enc]
  rfl

theorem str_lt_ne {s t : String} (h : s < t) : s ≠ t := by
  intro e; subst e
  exact (String.lt_irrefl s) h

/-- a PUBLIC record of the walker model as a C11 record -/
def pubOf (p : Walk.PubRec) : Symbolize.Pub := ⟨p.addr, nm p.name, p.psize⟩

/-- the two derived `Ord`s on `PublicSymbol` agree -/
theorem pubLe_sim (p q : Walk.PubRec) : Walk.pubLe p q = Symbolize.pubLe (pubOf p) (pubOf q) := by
  unfold Walk.pubLe Symbolize.pubLe pubOf
  simp only
  rw [lexLe_nm]
  have hne : (nm p.name != nm q.name) = !(p.name == q.name) := by
    by_cases h : p.name = q.name
    · rw [h]; simp
    · have : nm p.name ≠ nm q.name := fun e => h (nm_inj e)
      have a1 : (nm p.name != nm q.name) = true := bne_iff_ne.mpr this
      have a2 : (p.name == q.name) = false := beq_eq_false_iff_ne.mpr h
      rw [a1, a2]; rfl
  have heq : (nm p.name == nm q.name) = (p.name == q.name) := by
    by_cases h : p.name = q.name
    · rw [h]; simp
    · have : nm p.name ≠ nm q.name := fun e => h (nm_inj e)
      have a1 : (nm p.name == nm q.name) = false := beq_eq_false_iff_ne.mpr this
      have a2 : (p.name == q.name) = false := beq_eq_false_iff_ne.mpr h
      rw [a1, a2]
  rw [hne, heq]
  by_cases hlt : p.name < q.name
  · have hb : (p.name == q.name) = false := beq_eq_false_iff_ne.mpr (str_lt_ne hlt)
    simp [hlt, hb]
  · simp [hlt]

/-- the step of `nearestPublic`'s fold -/
def npStep (a : Nat) (best : Option Walk.PubRec) (p : Walk.PubRec) : Option Walk.PubRec :=
  if p.addr ≤ a then
    match best with
    | none => some p
    | some b => if Walk.pubLe b p then some p else some b
  else best

theorem nearestPublic_eq (pubs : List Walk.PubRec) (a : Nat) :
    Walk.nearestPublic pubs a = pubs.foldl (npStep a) none := rfl

/-- what the walker model's `nearestPublic` returns: the greatest record at or below the address -/
theorem nearestPublic_max (pubs : List Walk.PubRec) (a : Nat) :
    (∀ p, Walk.nearestPublic pubs a = some p →
        p ∈ pubs ∧ p.addr ≤ a ∧ ∀ q ∈ pubs, q.addr ≤ a → Walk.pubLe q p = true) ∧
    (Walk.nearestPublic pubs a = none → ∀ q ∈ pubs, a < q.addr) := by
  rw [nearestPublic_eq]
  have key : ∀ (l : List Walk.PubRec) (done : List Walk.PubRec) (best : Option Walk.PubRec),
      (∀ b, best = some b → b ∈ done ∧ b.addr ≤ a ∧ ∀ q ∈ done, q.addr ≤ a → Walk.pubLe q b = true) →
      (best = none → ∀ q ∈ done, a < q.addr) →
      (∀ p, l.foldl (npStep a) best = some p →
        p ∈ done ++ l ∧ p.addr ≤ a ∧ ∀ q ∈ done ++ l, q.addr ≤ a → Walk.pubLe q p = true) ∧
      (l.foldl (npStep a) best = none → ∀ q ∈ done ++ l, a < q.addr) := by
    intro l
    induction l with
    | nil =>
      intro done best h1 h2
      simp only [List.foldl_nil, List.append_nil]
      exact ⟨fun p hp => h1 p hp, h2⟩
    | cons x t ih =>
      intro done best h1 h2
      simp only [List.foldl_cons]
      have hsplit : done ++ x :: t = (done ++ [x]) ++ t := by simp
      rw [hsplit]
      apply ih (done ++ [x])
      · intro b hb
        unfold npStep at hb
        by_cases hx : x.addr ≤ a
        · rw [if_pos hx] at hb
          cases best with
          | none =>
            simp only [Option.some.injEq] at hb
            subst hb
            refine ⟨by simp, hx, ?_⟩
            intro q hq hqa
            rcases List.mem_append.mp hq with hq | hq
            · have := h2 rfl q hq; omega
            · simp only [List.mem_singleton] at hq; subst hq
              rw [pubLe_sim]; exact Symbolize.pubLe_refl _
          | some b0 =>
            obtain ⟨m0, a0, mx0⟩ := h1 b0 rfl
            simp only at hb
            by_cases hle : Walk.pubLe b0 x = true
            · rw [if_pos hle] at hb
              simp only [Option.some.injEq] at hb
              subst hb
              refine ⟨by simp, hx, ?_⟩
              intro q hq hqa
              rcases List.mem_append.mp hq with hq | hq
              · have := mx0 q hq hqa
                rw [pubLe_sim] at this hle ⊢
                exact Symbolize.pubLe_trans _ _ _ this hle
              · simp only [List.mem_singleton] at hq; subst hq
                rw [pubLe_sim]; exact Symbolize.pubLe_refl _
            · rw [if_neg hle] at hb
              simp only [Option.some.injEq] at hb
              subst hb
              refine ⟨by simp [m0], a0, ?_⟩
              intro q hq hqa
              rcases List.mem_append.mp hq with hq | hq
              · exact mx0 q hq hqa
              · simp only [List.mem_singleton] at hq; subst hq
                have := Symbolize.pubLe_total (pubOf b0) (pubOf q)
                rw [← pubLe_sim, ← pubLe_sim] at this
                simp only [Bool.or_eq_true] at this
                rcases this with h | h
                · exact absurd h hle
                · exact h
        · rw [if_neg hx] at hb
          obtain ⟨m0, a0, mx0⟩ := h1 b hb
          refine ⟨by simp [m0], a0, ?_⟩
          intro q hq hqa
          rcases List.mem_append.mp hq with hq | hq
          · exact mx0 q hq hqa
          · simp only [List.mem_singleton] at hq; subst hq; omega
      · intro hb q hq
        unfold npStep at hb
        by_cases hx : x.addr ≤ a
        · rw [if_pos hx] at hb
          cases best with
          | none => simp at hb
          | some b0 =>
            simp only at hb
            split at hb <;> cases hb
        · rw [if_neg hx] at hb
          rcases List.mem_append.mp hq with hq | hq
          · exact h2 hb q hq
          · simp only [List.mem_singleton] at hq; subst hq; omega
  have := key pubs [] none (fun b hb => by cases hb) (fun _ q hq => by cases hq)
  simpa using this

/-- **the two models pick the same PUBLIC** -/
theorem nearest_sim (pubs : List Walk.PubRec) (a : Nat) :
    Symbolize.findNearestPublic ((pubs.map pubOf).mergeSort Symbolize.pubLe) a =
      (Walk.nearestPublic pubs a).map pubOf := by
  obtain ⟨c1, c2⟩ := Symbolize.findNearestPublic_spec (pubs.map pubOf) a
  obtain ⟨w1, w2⟩ := nearestPublic_max pubs a
  cases hw : Walk.nearestPublic pubs a with
  | none =>
    cases hc : Symbolize.findNearestPublic ((pubs.map pubOf).mergeSort Symbolize.pubLe) a with
    | none => rfl
    | some pc =>
      obtain ⟨hm, ha, _⟩ := c1 pc hc
      obtain ⟨q, hq, rfl⟩ := List.mem_map.mp hm
      have := w2 hw q hq
      simp only [pubOf] at ha
      omega
  | some pw =>
    obtain ⟨hm, ha, hmax⟩ := w1 pw hw
    cases hc : Symbolize.findNearestPublic ((pubs.map pubOf).mergeSort Symbolize.pubLe) a with
    | none =>
      have := c2 hc (pubOf pw) (List.mem_map_of_mem hm)
      simp only [pubOf] at this
      omega
    | some pc =>
      obtain ⟨hcm, hca, hcmax⟩ := c1 pc hc
      obtain ⟨q, hq, rfl⟩ := List.mem_map.mp hcm
      have k1 : Symbolize.pubLe (pubOf q) (pubOf pw) = true := by
        rw [← pubLe_sim]; exact hmax q hq hca
      have k2 : Symbolize.pubLe (pubOf pw) (pubOf q) = true :=
        hcmax (pubOf pw) (List.mem_map_of_mem hm) ha
      simp only [Option.map_some, Option.some.injEq]
      exact Symbolize.pubLe_antisymm _ _ k1 k2

end MdModel.SymBridge
