/-
  MdProofs.Lemmas.BytesMore — `readMore` / `readWhole` (MdModel.DumpFull): the third group of
  readers put together. The only panic outcome of `readWhole` is the Linux-maps reader on hostile
  text; allocation bounds hold on every path (also the panicking one).
-/
import MdModel.DumpFull
import MdProofs.Lemmas.BytesMiscInfo
import MdProofs.Lemmas.BytesMaps
import MdProofs.Lemmas.BytesIds
import MdProofs.Lemmas.BytesRegs
namespace MdModel.Dump
open MdModel MdModel.Gen.Layouts MdModel.Gen.LayoutsX
open MdModel.Gen.LayoutsC02 (ST_MiscInfoStream ST_LinuxMaps)
open MdModel.Gen.MapsGuard (MAPS_GUARDED)

/-! ### the Linux-maps operation: reader + lookups -/

theorem readMapsOutG_panic_iff (g : Bool) (s : Bytes) : IsPanic (readMapsOutG g s) ↔ g = false ∧ MapsHostile s.toList := by
  unfold readMapsOutG
  rw [isPanic_bind, readLinuxMapsG_panic_iff]
  constructor
  · intro h
    cases h with
    | inl h => exact h
    | inr h =>
      exfalso
      obtain ⟨m, hm, hp⟩ := h
      have hwf := (readLinuxMapsX_ok (readLinuxMapsG_ok hm)).1
      rw [isPanic_bind] at hp
      cases hp with
      | inl hp => exact (noPanic_iff _).mp (mapsProbes_safe (B := 0) m hwf _).1 hp
      | inr hp => obtain ⟨_, _, hp⟩ := hp; exact isPanic_pure _ hp
  · intro h; exact .inl h

theorem readMapsOutG_allocsLe (g : Bool) (s : Bytes) : AllocsLe (32 * s.size) (readMapsOutG g s) := by
  unfold readMapsOutG
  refine allocsLe_bind (readLinuxMapsG_allocsLe g s) (fun m _ => ?_)
  refine allocsLe_bind (allocsLe_of_nil (mapsProbes_allocs m _)) (fun _ _ => allocsLe_pure _)

theorem cnt_readMapsOutG (g : Bool) (s : Bytes) : CntLe (4 * s.size + 6) (readMapsOutG g s) := by
  unfold readMapsOutG
  refine (cnt_bind (cnt_readLinuxMapsG g s) (C := 0) (fun m _ => ?_)).mono (by omega)
  refine cnt_bind (A := 0) ?_ (C := 0) (fun _ _ => cnt_pure _)
  rw [cnt_zero_iff]; exact mapsProbes_allocs m _

/-! ### what `readAll` guarantees about the lists the third group works on -/

theorem readModuleList_length {ms : MemSizes} {b all : Bytes} {e : Endian} {mods : List Module}
    (h : (readModuleList ms b all e).res = .ok mods) : mods.length * 108 ≤ b.size := by
  unfold readModuleList at h
  obtain ⟨raws, hraws, h⟩ := bind_ok h
  obtain ⟨_, _, h⟩ := bind_ok h
  have h1 := readStreamList_ok hraws
  rw [size_module] at h1
  have : ∀ (rs : List RawModule) (ms' : List Module), (readModules all e rs).res = .ok ms' → ms'.length ≤ rs.length := by
    intro rs
    induction rs with
    | nil => intro ms' h'; have := pure_ok h'; subst this; simp
    | cons r rest ih =>
      intro ms' h'
      unfold readModules at h'
      split at h'
      · have := ih ms' h'; simp only [List.length_cons]; omega
      · obtain ⟨_, _, h'⟩ := bind_ok h'
        obtain ⟨ms'', hms'', h'⟩ := bind_ok h'
        have := pure_ok h'; subst this
        have := ih ms'' hms''
        simp only [List.length_cons]; omega
  have := this _ _ h
  simp only [List.length_map] at this
  exact Nat.le_trans (Nat.mul_le_mul_right _ this) h1

theorem readMemoryInfoList_length {ms : MemSizes} {b : Bytes} {e : Endian} {is : List MemInfo}
    (h : (readMemoryInfoList ms b e).res = .ok is) : is.length * 48 ≤ b.size := by
  unfold readMemoryInfoList at h
  obtain ⟨raws, hraws, h⟩ := bind_ok h
  obtain ⟨_, _, h⟩ := bind_ok h
  have := pure_ok h; subst this
  have h1 := readExStreamList_ok hraws
  rw [size_meminfo] at h1
  simpa using h1

/-- the facts about a `Parsed` that `readMore`'s bounds need -/
structure ParsedOk2 (b : Bytes) (p : Parsed) : Prop where
  modules : ∀ ms, p.modules = .ok ms → (∀ m ∈ ms, ModuleOk b.size m) ∧ ms.length * 108 ≤ b.size
  memInfo : ∀ is, p.memInfo = .ok is → is.length * 48 ≤ b.size

theorem readAll_parsedOk2 {ms : MemSizes} {b : Bytes} {p : Parsed} (h : (readAll ms b).res = .ok (.ok p)) :
    ParsedOk2 b p ∧ readDump b = .ok p.dump := by
  unfold readAll at h
  split at h
  · cases h
  · rename_i d hd
    obtain ⟨c, hc, h⟩ := bind_ok h
    obtain ⟨cp, _, h⟩ := bind_ok h
    have := pure_ok h
    cases this
    unfold readCore at hc
    dsimp only at hc
    obtain ⟨threads, _, hc⟩ := bind_ok hc
    obtain ⟨modules, hmod, hc⟩ := bind_ok hc
    obtain ⟨unloaded, _, hc⟩ := bind_ok hc
    obtain ⟨memory, _, hc⟩ := bind_ok hc
    obtain ⟨memory64, _, hc⟩ := bind_ok hc
    obtain ⟨memInfo, hmi, hc⟩ := bind_ok hc
    obtain ⟨threadNames, _, hc⟩ := bind_ok hc
    obtain ⟨threadInfo, _, hc⟩ := bind_ok hc
    obtain ⟨handles, _, hc⟩ := bind_ok hc
    obtain ⟨exception, _, hc⟩ := bind_ok hc
    have := pure_ok hc
    subst this
    refine ⟨⟨fun mods hmods => ?_, fun is his => ?_⟩, hd⟩
    · simp only at hmods
      subst hmods
      obtain ⟨s, hs, hr⟩ := getStream_ok_inv hmod
      have := readModuleList_length hr
      exact ⟨readModuleList_ok hr, by omega⟩
    · simp only at his
      subst his
      obtain ⟨s, hs, hr⟩ := getStream_ok_inv hmi
      have := readMemoryInfoList_length hr
      omega

/-! ### `readMore`: the only panic is the Linux-maps reader on hostile text -/

theorem isPanic_catch {α : Type} (x : M α) : IsPanic (M.catch' x) ↔ IsPanic x := by
  unfold M.catch' IsPanic
  cases hres : x.res with
  | ok a => simp
  | err e => simp
  | panic s => simp

theorem isPanic_getStream {α : Type} (d : Dump) (b : Bytes) (ty : Nat) (reader : Bytes → M α) :
    IsPanic (getStream d b ty reader) ↔ ∃ s, getRawStream d b ty = .ok s ∧ IsPanic (reader s) := by
  unfold getStream
  cases hraw : getRawStream d b ty with
  | error er =>
    simp only [reduceCtorEq, false_and, exists_false, iff_false]
    exact isPanic_pure _
  | ok s =>
    simp only [Except.ok.injEq, exists_eq_left']
    exact isPanic_catch _

/-- the file has a Linux-maps stream whose text makes procfs-core panic -/
def MapsStreamHostile (b : Bytes) (d : Dump) : Prop :=
  ∃ s, getRawStream d b ST_LinuxMaps = .ok s ∧ MapsHostile s.toList

theorem isPanic_of_safe {α : Type} {B : Nat} {m : M α} (h : Safe B m) : ¬ IsPanic m := (noPanic_iff m).mp h.1

theorem isPanic_bind_safe {α β : Type} {B : Nat} {x : M α} {f : α → M β} (hx : Safe B x) :
    IsPanic (x >>= f) ↔ ∃ a, x.res = .ok a ∧ IsPanic (f a) := by
  rw [isPanic_bind]
  constructor
  · intro h
    cases h with
    | inl h => exact absurd h (isPanic_of_safe hx)
    | inr h => exact h
  · intro h; exact .inr h

/-- the operations of `readMore` after the Linux-maps one -/
def moreTail (b : Bytes) (f : Full) (misc : Except Err MiscPrinted) (maps : Except String (Except Err MapsOut)) : M More :=
  let d := f.base.dump
  let e := d.endian
  let infoOpt := match f.base.memInfo with
    | .ok is => some is
    | .error _ => none
  (match maps with
   | .error site => pure (.error site)
   | .ok r =>
     let mapsOpt := match r with
       | .ok mo => some mo.maps
       | .error _ => none
     unifiedOut infoOpt mapsOpt >>= fun u => pure (.ok u)) >>= fun unified =>
  let osp := match f.extra.sys with
    | .ok si => some (osPartsOf si)
    | .error _ => none
  let os := match f.extra.sys with
    | .ok si => Encode.osOfPlatform si.platform
    | .error _ => Encode.Os.unknown
  (match f.base.modules with
   | .ok ms => modulesOut os e ms >>= fun r => pure (some r)
   | .error _ => pure none) >>= fun modules =>
  let unloaded := match f.base.unloaded with
    | .ok us => some (us.map unloadedIds)
    | .error _ => none
  getStream d b ST_MozSoftErrors readSoftErrors >>= fun soft =>
  (match f.base.threads, f.extra.sys with
   | .ok ts, .ok si => threadRegisters b e si.arch ts >>= fun r => pure (some r)
   | _, _ => pure none) >>= fun regs =>
  (match f.base.exception, f.extra.sys with
   | .ok x, .ok si => registersOf b e si.arch x.context >>= fun r => pure (some r)
   | _, _ => pure none) >>= fun excRegs =>
  pure { misc := misc, maps := maps, unified := unified, osParts := osp, modules := modules, unloaded := unloaded,
         softErrors := soft, regs := regs, excRegs := excRegs }

theorem readMore_eq (caught : Bool) (b : Bytes) (f : Full) :
    readMore caught b f =
      (getStream f.base.dump b ST_MiscInfoStream (fun s => readMiscInfoX s f.base.dump.endian) >>= fun misc =>
       guarded caught (getStream f.base.dump b ST_LinuxMaps readMapsOut) >>= fun maps => moreTail b f misc maps) := rfl

/-- what the maps operation hands on, when it did not panic -/
def MapsResOk (maps : Except String (Except Err MapsOut)) : Prop :=
  ∀ r mo, maps = .ok r → r = .ok mo → MapsWF mo.maps ∧ ∀ x ∈ mo.maps.entries, x.hi ≤ U64MAX

theorem readLinuxMapsX_hi {b : Bytes} {m : LinuxMapsX} (h : (readLinuxMapsX b).res = .ok m) : ∀ x ∈ m.entries, x.hi ≤ U64MAX := by
  unfold readLinuxMapsX at h
  obtain ⟨es, hes, h⟩ := bind_ok h
  obtain ⟨_, _, h⟩ := bind_ok h
  obtain ⟨t, _, h⟩ := bind_ok h
  have := pure_ok h
  subst this
  exact (mapsLoopX_ok_count _ _ _ _ hes).2 (fun x hx => by cases hx)

theorem readMapsOutG_ok {g : Bool} {s : Bytes} {mo : MapsOut} (h : (readMapsOutG g s).res = .ok mo) :
    MapsWF mo.maps ∧ ∀ x ∈ mo.maps.entries, x.hi ≤ U64MAX := by
  unfold readMapsOutG at h
  obtain ⟨m, hm, h⟩ := bind_ok h
  obtain ⟨_, _, h⟩ := bind_ok h
  have := pure_ok h
  subst this
  have hx := readLinuxMapsG_ok hm
  exact ⟨(readLinuxMapsX_ok hx).1, readLinuxMapsX_hi hx⟩

theorem moreTail_safe (b : Bytes) (f : Full) (misc : Except Err MiscPrinted) (maps : Except String (Except Err MapsOut))
    (hp : ParsedOk2 b f.base) (hmaps : MapsResOk maps) : Safe (Bnd b) (moreTail b f misc maps) := by
  unfold moreTail
  dsimp only
  refine safe_bind ?_ (fun _ _ => ?_)
  · split
    · exact safe_pure _
    · rename_i r
      refine safe_bind (unifiedOut_safe _ _ (fun is his => ?_) (fun m hm => ?_)) (fun _ _ => safe_pure _)
      · split at his
        · rename_i is' hmi
          cases his
          have := hp.memInfo _ hmi
          unfold Bnd K; omega
        · cases his
      · split at hm
        · rename_i mo
          cases hm
          exact hmaps _ mo rfl rfl
        · cases hm
  refine safe_bind ?_ (fun _ _ => ?_)
  · split
    · rename_i ms hms
      have ⟨hok, _⟩ := hp.modules _ hms
      exact safe_bind (modulesOut_safe _ _ (by unfold Bnd K; omega) ms hok) (fun _ _ => safe_pure _)
    · exact safe_pure _
  refine safe_bind (getStream_safe _ _ _ _ (fun s _ => readSoftErrors_safe s)) (fun _ _ => ?_)
  refine safe_bind ?_ (fun _ _ => ?_)
  · split
    · exact safe_bind (threadRegisters_safe _ _ _ _) (fun _ _ => safe_pure _)
    · exact safe_pure _
  refine safe_bind ?_ (fun _ _ => safe_pure _)
  · split
    · exact safe_bind (registersOf_safe _ _ _ _) (fun _ _ => safe_pure _)
    · exact safe_pure _

theorem misc_getStream_safe (b : Bytes) (d : Dump) :
    Safe (Bnd b) (getStream d b ST_MiscInfoStream (fun s => readMiscInfoX s d.endian)) :=
  getStream_safe _ _ _ _ (fun s hs => readMiscInfoX_safe s _ (by unfold Bnd K; omega))

/-- **the panic frontier of the third group** -/
theorem readMore_panic_iff (b : Bytes) (f : Full) (hp : ParsedOk2 b f.base) :
    IsPanic (readMore false b f) ↔ MAPS_GUARDED = false ∧ MapsStreamHostile b f.base.dump := by
  rw [readMore_eq]
  rw [isPanic_bind_safe (misc_getStream_safe b f.base.dump)]
  unfold guarded
  simp only [Bool.false_eq_true, ↓reduceIte]
  constructor
  · intro ⟨misc, _, hp'⟩
    rw [isPanic_bind, isPanic_bind] at hp'
    cases hp' with
    | inl h1 =>
      cases h1 with
      | inl h2 =>
        obtain ⟨s, hs, hps⟩ := (isPanic_getStream _ _ _ _).mp h2
        have := (readMapsOutG_panic_iff MAPS_GUARDED s).mp hps
        exact ⟨this.1, s, hs, this.2⟩
      | inr h2 => obtain ⟨_, _, h3⟩ := h2; exact absurd h3 (isPanic_pure _)
    | inr h1 =>
      exfalso
      obtain ⟨maps, hmaps, htail⟩ := h1
      obtain ⟨r, hr, hpure⟩ := bind_ok hmaps
      have := pure_ok hpure
      subst this
      refine isPanic_of_safe (moreTail_safe b f misc (.ok r) hp ?_) htail
      intro r' mo h1 h2
      cases h1
      subst h2
      obtain ⟨s, _, hread⟩ := getStream_ok_inv hr
      exact readMapsOutG_ok hread
  · intro ⟨hg, s, hs, hh⟩
    have hmisc := misc_getStream_safe b f.base.dump
    cases hres : (getStream f.base.dump b ST_MiscInfoStream (fun s => readMiscInfoX s f.base.dump.endian)).res with
    | panic p => exact absurd ⟨p, hres⟩ (isPanic_of_safe hmisc)
    | err e => exact absurd hres (getStream_noErr _ _ _ _ e)
    | ok misc =>
      refine ⟨misc, rfl, ?_⟩
      rw [isPanic_bind, isPanic_bind]
      exact .inl (.inl ((isPanic_getStream _ _ _ _).mpr ⟨s, hs, (readMapsOutG_panic_iff MAPS_GUARDED s).mpr ⟨hg, hh⟩⟩))

/-! ### allocations of `readMore`, on every path -/

theorem allocsLe_of_safe {α : Type} {B : Nat} {m : M α} (h : Safe B m) : AllocsLe B m := h.2

theorem readMore_allocsLe (caught : Bool) (b : Bytes) (f : Full) (hp : ParsedOk2 b f.base) :
    AllocsLe (Bnd b) (readMore caught b f) := by
  rw [readMore_eq]
  refine allocsLe_bind (misc_getStream_safe b f.base.dump).2 (fun misc _ => ?_)
  have hmapsop : AllocsLe (Bnd b) (getStream f.base.dump b ST_LinuxMaps readMapsOut) :=
    allocsLe_getStream _ _ _ _ (fun s hs => by
      have := readMapsOutG_allocsLe MAPS_GUARDED s
      intro a ha
      have := this a ha
      unfold Bnd K; omega)
  refine allocsLe_bind ?_ (fun maps hmaps => ?_)
  · unfold guarded
    split
    · unfold M.catchUnwind
      cases (getStream f.base.dump b ST_LinuxMaps readMapsOut).res <;> exact hmapsop
    · exact allocsLe_bind hmapsop (fun _ _ => allocsLe_pure _)
  · refine (moreTail_safe b f misc maps hp ?_).2
    intro r mo h1 h2
    subst h1 h2
    have hr : (getStream f.base.dump b ST_LinuxMaps readMapsOut).res = .ok (.ok mo) := by
      unfold guarded at hmaps
      split at hmaps
      · unfold M.catchUnwind at hmaps
        cases hres : (getStream f.base.dump b ST_LinuxMaps readMapsOut).res with
        | ok a => rw [hres] at hmaps; simp only at hmaps; cases hmaps; rfl
        | err e => rw [hres] at hmaps; cases hmaps
        | panic p => rw [hres] at hmaps; cases hmaps
      · obtain ⟨a, ha, hpure⟩ := bind_ok hmaps
        have := pure_ok hpure
        cases this
        exact ha
    obtain ⟨s, _, hread⟩ := getStream_ok_inv hr
    exact readMapsOutG_ok hread

theorem cnt_guarded {α : Type} {N : Nat} (caught : Bool) {x : M α} (h : CntLe N x) : CntLe N (guarded caught x) := by
  unfold guarded
  split
  · unfold M.catchUnwind CntLe
    cases x.res <;> exact h
  · exact (cnt_bind h (C := 0) (fun _ _ => cnt_pure _)).mono (by omega)

theorem cnt_moreTail (b : Bytes) (f : Full) (misc : Except Err MiscPrinted) (maps : Except String (Except Err MapsOut))
    (hp : ParsedOk2 b f.base) : CntLe (1 + 4 * (b.size / 108)) (moreTail b f misc maps) := by
  unfold moreTail
  dsimp only
  refine (cnt_bind (A := 1) ?_ (C := 4 * (b.size / 108)) (fun _ _ => ?_)).mono (by omega)
  · split
    · exact (cnt_pure _).mono (by omega)
    · exact (cnt_bind (cnt_unifiedOut _ _) (C := 0) (fun _ _ => cnt_pure _)).mono (by omega)
  refine (cnt_bind (A := 4 * (b.size / 108)) ?_ (C := 0) (fun _ _ => ?_)).mono (by omega)
  · split
    · rename_i ms hms
      have ⟨_, hlen⟩ := hp.modules _ hms
      have : ms.length ≤ b.size / 108 := by omega
      exact (cnt_bind (cnt_modulesOut _ _ ms) (C := 0) (fun _ _ => cnt_pure _)).mono (by omega)
    · exact (cnt_pure _).mono (by omega)
  refine cnt_bind (A := 0) (cnt_getStream_const (N := 0) _ _ _ _ (fun s => cnt_readSoftErrors s)) (C := 0) (fun _ _ => ?_)
  refine cnt_bind (A := 0) ?_ (C := 0) (fun _ _ => ?_)
  · split
    · refine cnt_bind (A := 0) ?_ (C := 0) (fun _ _ => cnt_pure _)
      rw [cnt_zero_iff]; exact threadRegisters_allocs _ _ _ _
    · exact cnt_pure _
  refine cnt_bind (A := 0) ?_ (C := 0) (fun _ _ => cnt_pure _)
  · split
    · refine cnt_bind (A := 0) ?_ (C := 0) (fun _ _ => cnt_pure _)
      rw [cnt_zero_iff]; exact registersOf_allocs _ _ _ _
    · exact cnt_pure _

/-- the third group makes at most `5 * len + 11` allocations -/
theorem cnt_readMore (caught : Bool) (b : Bytes) (f : Full) (hp : ParsedOk2 b f.base) :
    CntLe (5 * b.size + 11) (readMore caught b f) := by
  rw [readMore_eq]
  refine (cnt_bind (cnt_getStream_const (N := 4) _ _ _ _ (fun s => cnt_readMiscInfoX s _)) (C := 5 * b.size + 7) (fun _ _ => ?_)).mono (by omega)
  have hm : CntLe (4 * b.size + 6) (getStream f.base.dump b ST_LinuxMaps readMapsOut) := by
    unfold getStream
    split
    · exact (cnt_pure _).mono (by omega)
    · rename_i s hs
      have := getRawStream_size hs
      exact (cnt_catch (cnt_readMapsOutG MAPS_GUARDED s)).mono (by omega)
  refine (cnt_bind (cnt_guarded caught hm) (C := 1 + 4 * (b.size / 108)) (fun _ _ => cnt_moreTail b f _ _ hp)).mono (by omega)

/-! ### errors of the third group are values -/

theorem noErr_outcomeToM {α : Type} (o : Outcome α) : NoErr (outcomeToM o) := by
  intro e h; cases o <;> cases h

theorem noErr_getRegs (ctx : Gen.Regs.Ctx) (st : Regs.State) : ∀ ns : List String, NoErr (getRegs ctx st ns) := by
  intro ns
  induction ns with
  | nil => exact noErr_pure _
  | cons n rest ih =>
    unfold getRegs
    exact noErr_bind (noErr_outcomeToM _) (fun _ => noErr_bind ih (fun _ => noErr_pure _))

theorem noErr_fmtRegs (ctx : Gen.Regs.Ctx) (st : Regs.State) : ∀ ns : List String, NoErr (fmtRegs ctx st ns) := by
  intro ns
  induction ns with
  | nil => exact noErr_pure _
  | cons n rest ih =>
    unfold fmtRegs
    exact noErr_bind (noErr_outcomeToM _) (fun _ => noErr_bind ih (fun _ => noErr_pure _))

theorem noErr_registersOf (all : Bytes) (e : Endian) (arch : Nat) (range : Option (Nat × Nat)) :
    NoErr (registersOf all e arch range) := by
  unfold registersOf
  split
  · exact noErr_pure _
  · split
    · exact noErr_pure _
    · refine noErr_bind ?_ (fun _ => noErr_pure _)
      unfold ctxRegisters
      dsimp only
      exact noErr_bind (noErr_outcomeToM _) (fun _ => noErr_bind (noErr_getRegs _ _ _) (fun _ =>
        noErr_bind (noErr_fmtRegs _ _ _) (fun _ => noErr_pure _)))

theorem noErr_threadRegisters (all : Bytes) (e : Endian) (arch : Nat) : ∀ ts : List Thread, NoErr (threadRegisters all e arch ts) := by
  intro ts
  induction ts with
  | nil => exact noErr_pure _
  | cons t rest ih =>
    unfold threadRegisters
    exact noErr_bind (noErr_registersOf _ _ _ _) (fun _ => noErr_bind ih (fun _ => noErr_pure _))

theorem noErr_tableAt (site : String) (table : List RangeMap.Entry) (n a : Nat) : NoErr (tableAt site table n a) := by
  unfold tableAt
  split
  · exact noErr_pure _
  · exact noErr_ite (noErr_pure _) (noErr_panic _)

theorem noErr_byAddrIndices (site : String) (n : Nat) : ∀ table : List RangeMap.Entry, NoErr (byAddrIndices site n table) := by
  intro table
  induction table with
  | nil => exact noErr_pure _
  | cons en rest ih =>
    obtain ⟨r, i⟩ := en
    unfold byAddrIndices
    exact noErr_ite (noErr_bind ih (fun _ => noErr_pure _)) (noErr_panic _)

theorem noErr_probeAll (site : String) (table : List RangeMap.Entry) (n : Nat) : ∀ as : List Nat, NoErr (probeAll site table n as) := by
  intro as
  induction as with
  | nil => exact noErr_pure _
  | cons a rest ih =>
    unfold probeAll
    exact noErr_bind (noErr_tableAt _ _ _ _) (fun _ => noErr_bind ih (fun _ => noErr_pure _))

theorem noErr_unifiedOut (info : Option (List MemInfo)) (maps : Option LinuxMapsX) : NoErr (unifiedOut info maps) := by
  unfold unifiedOut
  split
  · exact noErr_pure _
  · refine noErr_bind ?_ (fun _ => noErr_bind (noErr_byAddrIndices _ _ _) (fun _ => noErr_bind (noErr_probeAll _ _ _ _) (fun _ => noErr_pure _)))
    unfold memInfoFromRegions
    refine noErr_bind (noErr_alloc _ _ _) (fun _ => ?_)
    split
    · exact noErr_pure _
    · exact noErr_panic _
  · exact noErr_bind (noErr_byAddrIndices _ _ _) (fun _ => noErr_bind (noErr_probeAll _ _ _ _) (fun _ => noErr_pure _))

theorem noErr_stringFromBytesNul (bs : List UInt8) : NoErr (stringFromBytesNul bs) := by
  unfold stringFromBytesNul
  dsimp only
  exact noErr_bind (noErr_ite (noErr_pure _) (noErr_alloc _ _ _)) (fun _ => noErr_pure _)

theorem noErr_modulesOut (os : Encode.Os) (e : Endian) : ∀ ms : List Module, NoErr (modulesOut os e ms) := by
  intro ms
  induction ms with
  | nil => exact noErr_pure _
  | cons m rest ih =>
    unfold modulesOut
    refine noErr_bind ?_ (fun _ => noErr_bind ?_ (fun _ => noErr_bind ih (fun _ => noErr_pure _)))
    · unfold moduleIds
      dsimp only
      refine noErr_bind ?_ (fun _ => noErr_bind ?_ (fun _ => noErr_pure _))
      · split
        · exact noErr_alloc _ _ _
        · exact noErr_pure _
      · unfold debugFileX
        split
        · exact noErr_bind (noErr_stringFromBytesNul _) (fun _ => noErr_pure _)
        · exact noErr_bind (noErr_stringFromBytesNul _) (fun _ => noErr_pure _)
        · exact noErr_pure _
        · exact noErr_pure _
    · unfold modulePrint
      split
      · refine noErr_loopGo _ (fun s i => ?_) _ _ _ _
        split
        · exact noErr_pure _
        · exact noErr_panic _
      · exact noErr_pure _
      · exact noErr_bind (noErr_alloc _ _ _) (fun _ => noErr_bind (noErr_alloc _ _ _) (fun _ => noErr_pure _))
      · exact noErr_bind (noErr_alloc _ _ _) (fun _ => noErr_bind (noErr_alloc _ _ _) (fun _ => noErr_pure _))
      · exact noErr_pure _

theorem noErr_catchUnwind {α : Type} {x : M α} (h : NoErr x) : NoErr (M.catchUnwind x) := by
  intro e he
  unfold M.catchUnwind at he
  cases hres : x.res with
  | ok a => rw [hres] at he; cases he
  | err e' => exact h e' hres
  | panic p => rw [hres] at he; cases he

theorem readMore_noErr (caught : Bool) (b : Bytes) (f : Full) : NoErr (readMore caught b f) := by
  rw [readMore_eq]
  refine noErr_bind (getStream_noErr _ _ _ _) (fun misc => noErr_bind ?_ (fun maps => ?_))
  · unfold guarded
    split
    · exact noErr_catchUnwind (getStream_noErr _ _ _ _)
    · exact noErr_bind (getStream_noErr _ _ _ _) (fun _ => noErr_pure _)
  · unfold moreTail
    dsimp only
    refine noErr_bind ?_ (fun _ => noErr_bind ?_ (fun _ => noErr_bind (getStream_noErr _ _ _ _) (fun _ =>
      noErr_bind ?_ (fun _ => noErr_bind ?_ (fun _ => noErr_pure _)))))
    · split
      · exact noErr_pure _
      · exact noErr_bind (noErr_unifiedOut _ _) (fun _ => noErr_pure _)
    · split
      · exact noErr_bind (noErr_modulesOut _ _ _) (fun _ => noErr_pure _)
      · exact noErr_pure _
    · split
      · exact noErr_bind (noErr_threadRegisters _ _ _ _) (fun _ => noErr_pure _)
      · exact noErr_pure _
    · split
      · exact noErr_bind (noErr_registersOf _ _ _ _) (fun _ => noErr_pure _)
      · exact noErr_pure _

theorem readWholeWith_noErr (caught : Bool) (ms : MemSizes) (b : Bytes) : NoErr (readWholeWith caught ms b) := by
  unfold readWholeWith
  refine noErr_bind (readFull_noErr ms b) (fun r => ?_)
  split
  · exact noErr_pure _
  · exact noErr_bind (readMore_noErr _ _ _) (fun _ => noErr_pure _)

/-! ### the render mode (`catch_unwind` around the maps operation) changes nothing unless that operation panics -/

theorem guarded_true_eq_false {α : Type} (x : M α) (h : ¬ IsPanic x) : guarded true x = guarded false x := by
  unfold guarded M.catchUnwind
  simp only [↓reduceIte, Bool.false_eq_true]
  rw [M.bind_def]
  unfold M.bind'
  cases hres : x.res with
  | ok a => simp [M.pure_def, M.pure']
  | err e => rfl
  | panic p => exact absurd ⟨p, hres⟩ h

theorem readMore_caught_eq (b : Bytes) (f : Full) (h : ¬ IsPanic (readMore false b f)) : readMore true b f = readMore false b f := by
  rw [readMore_eq, readMore_eq]
  have hmaps : ¬ IsPanic (getStream f.base.dump b ST_LinuxMaps readMapsOut) := by
    intro hp
    apply h
    rw [readMore_eq, isPanic_bind_safe (misc_getStream_safe b f.base.dump)]
    cases hres : (getStream f.base.dump b ST_MiscInfoStream (fun s => readMiscInfoX s f.base.dump.endian)).res with
    | panic p => exact absurd ⟨p, hres⟩ (isPanic_of_safe (misc_getStream_safe b f.base.dump))
    | err e => exact absurd hres (getStream_noErr _ _ _ _ e)
    | ok misc =>
      refine ⟨misc, rfl, ?_⟩
      rw [isPanic_bind]
      left
      unfold guarded
      simp only [Bool.false_eq_true, ↓reduceIte]
      rw [isPanic_bind]
      exact .inl hp
  rw [guarded_true_eq_false _ hmaps]

theorem readWholeWith_caught_eq (ms : MemSizes) (b : Bytes) (h : ¬ IsPanic (readWholeWith false ms b)) :
    readWholeWith true ms b = readWholeWith false ms b := by
  unfold readWholeWith at h ⊢
  cases hres : (readFull ms b).res with
  | panic p => rw [M.bind_def, M.bind_def]; unfold M.bind'; simp only [hres]
  | err e => rw [M.bind_def, M.bind_def]; unfold M.bind'; simp only [hres]
  | ok r =>
    cases r with
    | error er => rw [M.bind_def, M.bind_def]; unfold M.bind'; simp only [hres]
    | ok f =>
      have hm : ¬ IsPanic (readMore false b f) := by
        intro hp
        apply h
        rw [isPanic_bind]
        right
        refine ⟨.ok f, hres, ?_⟩
        simp only
        rw [isPanic_bind]
        exact .inl hp
      rw [M.bind_def, M.bind_def]
      unfold M.bind'
      simp only [hres]
      rw [readMore_caught_eq b f hm]

end MdModel.Dump
