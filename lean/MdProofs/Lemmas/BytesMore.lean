/-
  MdProofs.Lemmas.BytesMore — `readMore` / `readWhole` (MdModel.DumpFull): the third group of
  readers put together. The only panic outcome of `readWhole` is the Linux-maps reader on hostile
  text; allocation bounds hold on every path (also the panicking one).
-/
import MdModel.DumpFull
import MdProofs.Lemmas.BytesMiscInfo
import MdProofs.Lemmas.BytesMaps
namespace MdModel.Dump
open MdModel MdModel.Gen.Layouts MdModel.Gen.LayoutsX

/-! ### the Linux-maps operation: reader + lookups -/

theorem readMapsOutG_panic_iff (g : Bool) (s : Bytes) : IsPanic (readMapsOutG g s) ↔ g = false ∧ MapsHostile s.toList := by
  unfold readMapsOutG
  rw [isPanic_bind, readLinuxMapsG_panic_iff]
  constructor
  · intro h
    cases h with
    | inl h => exact h
    | inr h =>
      exfalso
      obtain ⟨m, hm, hp⟩ := h
      have hwf := (readLinuxMapsX_ok (readLinuxMapsG_ok hm)).1
      rw [isPanic_bind] at hp
      cases hp with
      | inl hp => exact (noPanic_iff _).mp (mapsProbes_safe (B := 0) m hwf _).1 hp
      | inr hp => obtain ⟨_, _, hp⟩ := hp; exact isPanic_pure _ hp
  · intro h; exact .inl h

theorem readMapsOutG_allocsLe (g : Bool) (s : Bytes) : AllocsLe (32 * s.size) (readMapsOutG g s) := by
  unfold readMapsOutG
  refine allocsLe_bind (readLinuxMapsG_allocsLe g s) (fun m _ => ?_)
  refine allocsLe_bind (allocsLe_of_nil (mapsProbes_allocs m _)) (fun _ _ => allocsLe_pure _)

theorem cnt_readMapsOutG (g : Bool) (s : Bytes) : CntLe (4 * s.size + 6) (readMapsOutG g s) := by
  unfold readMapsOutG
  refine (cnt_bind (cnt_readLinuxMapsG g s) (C := 0) (fun m _ => ?_)).mono (by omega)
  refine cnt_bind (A := 0) ?_ (C := 0) (fun _ _ => cnt_pure _)
  rw [cnt_zero_iff]; exact mapsProbes_allocs m _

end MdModel.Dump
