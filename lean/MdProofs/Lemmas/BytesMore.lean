/-
  MdProofs.Lemmas.BytesMore — `readMore` / `readWhole` (MdModel.DumpFull): the third group of
  readers put together. The only panic outcome of `readWhole` is the Linux-maps reader on hostile
  text; allocation bounds hold on every path (also the panicking one).
-/
import MdModel.DumpFull
import MdProofs.Lemmas.BytesMiscInfo
import MdProofs.Lemmas.BytesMaps
namespace MdModel.Dump
open MdModel MdModel.Gen.Layouts MdModel.Gen.LayoutsX

/-! ### the Linux-maps operation: reader + lookups -/

theorem readMapsOut_panic_iff (s : Bytes) : IsPanic (readMapsOut s) ↔ MapsHostile s.toList := by
  unfold readMapsOut
  rw [isPanic_bind, readLinuxMapsX_panic_iff]
  constructor
  · intro h
    cases h with
    | inl h => exact h
    | inr h =>
      exfalso
      obtain ⟨m, hm, hp⟩ := h
      have hwf := (readLinuxMapsX_ok hm).1
      rw [isPanic_bind] at hp
      cases hp with
      | inl hp => exact (noPanic_iff _).mp (mapsProbes_safe (B := 0) m hwf _).1 hp
      | inr hp => obtain ⟨_, _, hp⟩ := hp; exact isPanic_pure _ hp
  · intro h; exact .inl h

theorem readMapsOut_allocsLe (s : Bytes) : AllocsLe (32 * s.size) (readMapsOut s) := by
  unfold readMapsOut
  refine allocsLe_bind (readLinuxMapsX_allocsLe s) (fun m _ => ?_)
  refine allocsLe_bind (allocsLe_of_nil (mapsProbes_allocs m _)) (fun _ _ => allocsLe_pure _)

theorem cnt_readMapsOut (s : Bytes) : CntLe (3 * s.size + 5) (readMapsOut s) := by
  unfold readMapsOut
  refine (cnt_bind (cnt_readLinuxMapsX s) (C := 0) (fun m _ => ?_)).mono (by omega)
  refine cnt_bind (A := 0) ?_ (C := 0) (fun _ _ => cnt_pure _)
  rw [cnt_zero_iff]; exact mapsProbes_allocs m _

end MdModel.Dump
