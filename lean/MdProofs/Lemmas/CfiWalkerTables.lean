/-
  TABLE FACTS for the real `CfiStackWalker` (C06 / C07 on top of C18): Boolean checks over the
  tables generated from context.rs / format.rs (`MdModel.Gen.Regs`) and from the six unwinder files
  (`MdModel.Gen.CfiWalkerConsts`), decided by the kernel. They are re-decided whenever a generated
  table changes: a callee-saved register that is not a register of its context type, a stack
  pointer name that is an alias, `Mips32Context` no longer sharing CONTEXT_MIPS's rules … makes one
  of them false and the build of C06 fails.
-/
import MdProofs.C18
import MdModel.CfiWalker
namespace MdModel.CfiWalker
open MdModel MdModel.Gen.Regs MdModel.Regs MdModel.Gen.CfiWalkerConsts

/-- every name of `REGISTERS` is its own canonical name (`memoize_register(r) = Some(r)`) -/
theorem registers_canonical (c : Ctx) : (registers c).all (fun r => memoName c r == some r) = true := by
  cases c <;> decide +kernel

/-- `stack_pointer_register_name()` / `instruction_pointer_register_name()` are canonical names:
    what `set_cfa` / `set_ra` put into the validity set is what `memoize_register` would put -/
theorem sp_ip_canonical (c : Ctx) :
    (memoName c (spName c) == some (spName c) && memoName c (ipName c) == some (ipName c)
      && (registers c).contains (spName c) && (registers c).contains (ipName c)
      && spName c != ipName c) = true := by
  cases c <;> decide +kernel

/-- the register width is 32 or 64 bits -/
theorem regBits_cases (c : Ctx) : regBits c = 32 ∨ regBits c = 64 := by
  cases c <;> decide

/-- `Mips32Context` keeps every provided method of the trait; CONTEXT_MIPS — whose tables the model
    of `Mips32Context` uses — has the trait defaults too -/
theorem mips_rules_default :
    (match memoRule .MIPS with | .default => true | _ => false) = true ∧
    (match validRule .MIPS with | .default => true | _ => false) = true ∧ mips32Bits = 32 := by
  decide

/-- `CALLEE_SAVED_REGS` of every unwinder: canonical register names of its context type, no
    duplicates, neither the instruction pointer … -/
theorem calleeSaved_canonical (k : Kind) :
    ((calleeSaved k.file).all (fun r => (registers k.rawCtx).contains r && memoName k.rawCtx r == some r
        && r != ipName k.rawCtx)
      && !Regs.hasDup (calleeSaved k.file)) = true := by
  cases k <;> decide +kernel

/-- the name the stack-pointer test uses denotes the stack pointer -/
theorem spTest_is_sp (k : Kind) :
    (memoName k.rawCtx (spTestName k.file) == some (spName k.rawCtx)) = true := by
  cases k <;> decide +kernel

/-- where the test is literal (`which.contains`) the name is the canonical one and the context type
    has no aliases of it -/
theorem spTest_literal (k : Kind) :
    (match spLookup k.file with
     | .literal => spTestName k.file == spName k.rawCtx &&
         (knownNames k.rawCtx).all (fun n => !(sameReg k.rawCtx n (spName k.rawCtx)) || n == spName k.rawCtx)
     | .isValid => true) = true := by
  cases k <;> decide +kernel

/-- where `callee_forwarded_regs` is literal, the callee-saved registers have no aliases -/
theorem fwd_literal_no_alias (k : Kind) :
    (match fwdLookup k.file with
     | .literal => (calleeSaved k.file).all fun r =>
         (knownNames k.rawCtx).all (fun n => !(sameReg k.rawCtx r n) || n == r)
     | .isValid => true) = true := by
  cases k <;> decide +kernel

/-- the registers the ARM64 post-processing strips are the instruction pointer, `lr` and `fp` -/
theorem strip_regs (k : Kind) :
    ((stripRegs k.file).map (fun p => memoName k.rawCtx p.1) =
      (match k with
       | .arm64 | .arm64old => [some "pc", some "lr", some "fp"]
       | _ => [])) = true := by
  cases k <;> decide +kernel

/-- the unwinders' kinds use 32-bit walkers exactly for x86, ARM and MIPS in 32-bit mode -/
theorem kind_bits (k : Kind) :
    k.cpu.bits = (match k with | .x86 | .arm | .mips32 => 32 | _ => 64) := by
  cases k <;> rfl

end MdModel.CfiWalker
