/-
  Helper lemmas for C04, canonical STACK CFI chains whose records save SEVERAL callee-saved
  registers (part 2): the link predicate, the expected frame, one `get_caller_frame`, the chain.

  * `cfiLinkG` — one frame: the record covering the lookup address is the canonical rule followed
    by groups `$r: .cfa LIT + ^` (or the leaf rule, context frame on ARM / ARM64 / MIPS); the claimed
    frame pointer and registers are the slot words / the callee's values.
  * `cfiFrameG` — the expected frame; `callerReg` — the value of one callee-saved register in it.
  * `step_cfiG`, `walkLoop_cfiG_chain` (instance of `walkLoop_chain_generic`).
-/
import MdProofs.Lemmas.WalkCfiChainRegs
namespace MdModel.Walk
open MdModel

/-- the groups of the record covering `instr` (tokens after the nine of the canonical rule) -/
def savedAt (w : World) (instr : Nat) : List (String × Nat) :=
  match cfiRecordAt w instr with
  | some rec => (groupsOf ((tokenize rec.init).drop 9)).getD []
  | none => []

/-- the value the caller has in the callee-saved register `r`: the slot word where the record
    saves it, the callee's value otherwise; the frame pointer goes through the ptr-auth strip -/
def callerReg (a : Arch) (mask : Nat) (mem : Mem) (saved : List (String × Nat)) (st : Frame) (e : Exp)
    (r : String) : Nat :=
  let v := match saved.lookup r with
    | some lit => slotWord a mem e.sp lit
    | none => st.ctx.raw a r
  if r = a.fpName then stripOf a mask v else v

/-- the frame the walker must produce for the expected caller `e` of the frame `st`: the callee's
    registers with ip, sp as generated, every saved register := its slot word (applied in name
    order, as `walk_with_stack_cfi` does), on ARM64 the frame pointer stripped -/
def cfiFrameG (w : World) (a : Arch) (mask : Nat) (mem : Mem) (st : Frame) (e : Exp) : Frame :=
  let rest1 := (byName (savedAt w st.instruction)).foldl
    (fun rest g => assocSet rest g.1 (slotWord a mem e.sp g.2)) st.ctx.rest
  let rest2 := if a = .arm64 ∨ a = .arm64old then assocSet rest1 "fp" (assocGet rest1 "fp" &&& mask) else rest1
  { ctx := { ip := e.ret, sp := e.sp, rest := rest2, valid := some (validAfter a), m64 := st.ctx.m64 },
    trust := .cfi, instruction := e.ret - a.adj }

/-- one frame of a CFI chain whose records may save several callee-saved registers -/
def cfiLinkG (w : World) (a : Arch) (mask : Nat) (mem : Mem) (st : Frame) (e : Exp) : Bool :=
  let p := a.ptr
  decide (effArch a st.ctx = a) &&
  decide (4096 ≤ e.ret) && decide (e.sp ≤ a.regMax) && decide (e.ret ≤ a.regMax) &&
  match cfiRecordAt w st.instruction with
  | none => false
  | some rec =>
    let toks := tokenize rec.init
    let saved := (groupsOf (toks.drop 9)).getD []
    rec.adds.isEmpty &&
    (if st.trust = .context ∧ a.leafOk ∧ toks = leafToks a then
       decide (e.sp = st.ctx.sp) && decide (st.ctx.raw a (lrName a) ≤ a.regMax) &&
       decide (e.ret = stripOf a mask (st.ctx.raw a (lrName a)))
     else
       let bytes := e.sp - st.ctx.sp
       decide (st.ctx.sp < e.sp) && decide (p ≤ bytes) &&
       (mem.read (e.sp - p) p).map (stripOf a mask) == some e.ret &&
       decide (toks.take 9 = canonicalToks a bytes false) && (groupsOf (toks.drop 9)).isSome &&
       decide ((saved.map (·.1)).Nodup) &&
       saved.all fun g => a.calleeSaved.contains g.1 && g.1 != a.spName &&
         (mem.read ((e.sp + g.2) % W64) p).isSome) &&
    -- the claimed registers
    e.fp == some (callerReg a mask mem saved st e a.fpName) &&
    e.regs.all fun (r, val) => a.calleeSaved.contains r && r != a.spName && callerReg a mask mem saved st e r == val

/-- the decidable precondition of `walk_layout_cfi_regs`, frame by frame -/
def preCfiG (w : World) (a : Arch) (mask : Nat) (mem : Mem) : Frame → List Exp → Bool
  | st, [] => !mem.inRange st.ctx.sp || cfiEnd w a mem st
  | st, e :: rest =>
    mem.inRange st.ctx.sp && cfiLinkG w a mask mem st e && preCfiG w a mask mem (cfiFrameG w a mask mem st e) rest

/-- the frames such a chain must be walked to -/
def expectedCfiG (env : Env) (w : World) (a : Arch) (mem : Mem) : Frame → List Exp → List Frame
  | _, [] => []
  | st, e :: rest =>
    symbolise env (cfiFrameG w a env.mask mem st e) :: expectedCfiG env w a mem (cfiFrameG w a env.mask mem st e) rest

/-! ### callee-saved register names -/

theorem canon_calleeSaved {a : Arch} {r : String} (h : a.calleeSaved.contains r = true) :
    a.canon r = some r ∧ r ≠ a.ipName := by
  have hall : a.calleeSaved.all (fun r => a.canon r == some r && r != a.ipName) = true := by
    cases a <;> decide
  have hm : r ∈ a.calleeSaved := by simpa using h
  have := List.all_eq_true.mp hall r hm
  simpa using this

theorem spName_not_ip_of_calleeSaved (a : Arch) : a.spName ≠ a.ipName := by cases a <;> decide

/-! ### `get_caller_by_cfi` on a linked frame -/

theorem cfiOf_assembleG {a : Arch} {w : World} {mask : Nat} {mem : Mem} {f : Frame} {g : Option Frame}
    {e : Exp} {ip0 : Nat} {rest1 : List (String × Nat)} (hinv : CfiInv a f)
    (hw : cfiWalk a w (modTable w.mods) (cfiTables w) mem f =
      some { ctx := { f.ctx with sp := e.sp, ip := ip0, rest := rest1 }, valid := validAfter a })
    (hip : e.ret = stripOf a mask ip0)
    (hrest : rest1 = (byName (savedAt w f.instruction)).foldl
      (fun rest g => assocSet rest g.1 (slotWord a mem e.sp g.2)) f.ctx.rest) :
    cfiOf a w (modTable w.mods) (cfiTables w) mask mem f g = some (cfiFrameG w a mask mem f e).ctx := by
  obtain ⟨heff, htv, _⟩ := hinv
  have hval : f.ctx.valid = none ∨ f.ctx.valid = some (validAfter a) := by
    rcases htv with h | h
    · exact Or.inl h.2
    · exact Or.inr h.2
  rw [cfiOf_of_walk heff hval hw rfl]
  unfold cfiFrameG
  simp only [hip, stripOf_eq, ← hrest]
  split <;> rfl

theorem groupsOf_leaf (a : Arch) : groupsOf ((leafToks a).drop 9) = some [] := by
  simp [leafToks, groupsOf]

theorem cfiOf_linkG {a : Arch} {w : World} {mask : Nat} {mem : Mem} {f : Frame} {g : Option Frame} {e : Exp}
    (hinv : CfiInv a f) (hl : cfiLinkG w a mask mem f e = true) :
    cfiOf a w (modTable w.mods) (cfiTables w) mask mem f g = some (cfiFrameG w a mask mem f e).ctx := by
  have hinv' := hinv
  obtain ⟨heff, htv, _⟩ := hinv
  have hval : f.ctx.valid = none ∨ f.ctx.valid = some (validAfter a) := by
    rcases htv with h | h
    · exact Or.inl h.2
    · exact Or.inr h.2
  have hfw := forwarded_of_inv hval
  unfold cfiLinkG at hl
  simp only [Bool.and_eq_true, decide_eq_true_eq] at hl
  obtain ⟨⟨⟨⟨_, h4096⟩, hspmax⟩, hretmax⟩, hm⟩ := hl
  cases hrec : cfiRecordAt w f.instruction with
  | none => rw [hrec] at hm; cases hm
  | some rec =>
    rw [hrec] at hm
    simp only [Bool.and_eq_true, List.isEmpty_iff] at hm
    obtain ⟨⟨⟨hadds, hshape⟩, _⟩, _⟩ := hm
    have hwalk := cfiWalk_of_record a w mem f rec hrec hadds
    rw [hfw] at hwalk
    by_cases hleaf : f.trust = Trust.context ∧ a.leafOk = true ∧ tokenize rec.init = leafToks a
    · rw [if_pos hleaf] at hshape
      simp only [Bool.and_eq_true, decide_eq_true_eq] at hshape
      obtain ⟨⟨hesp, hlrmax⟩, heret⟩ := hshape
      have hctx : f.ctx.valid = none := by
        rcases htv with h | h
        · exact h.2
        · exact absurd hleaf.1 h.1
      have hspm : f.ctx.sp ≤ a.regMax := by omega
      have hw2 := walkCfi_leaf { arch := a, callee := f.ctx, mem := mem }
        { ctx := f.ctx, valid := a.calleeSaved } rec.init f.ctx.sp (f.ctx.raw a (lrName a)) hleaf.2.1 hleaf.2.2
        (reg_sp_of_inv hval hspm) hspm (reg_lr_of_all hctx hleaf.2.1 hlrmax) hlrmax
      refine cfiOf_assembleG hinv' (ip0 := f.ctx.raw a (lrName a)) (rest1 := f.ctx.rest) ?_ heret ?_
      · rw [hwalk, hw2, hesp]; rfl
      · simp only [savedAt, hrec, hleaf.2.2, groupsOf_leaf, Option.getD_some, byName, List.mergeSort_nil,
          List.foldl_nil]
    · rw [if_neg hleaf] at hshape
      simp only [Bool.and_eq_true, decide_eq_true_eq, beq_iff_eq, List.all_eq_true, bne_iff_ne] at hshape
      obtain ⟨⟨⟨⟨⟨⟨hlt, hpb⟩, hret⟩, htake⟩, hgs⟩, hnd⟩, hall⟩ := hshape
      obtain ⟨saved, hsaved⟩ := Option.isSome_iff_exists.mp hgs
      rw [hsaved, Option.getD_some] at hnd hall
      have htoks : tokenize rec.init = canonicalToksG a (e.sp - f.ctx.sp) saved := by
        rw [← List.take_append_drop 9 (tokenize rec.init), htake, groupsOf_spec _ _ hsaved]
        rfl
      have hsum : f.ctx.sp + (e.sp - f.ctx.sp) = e.sp := by omega
      have hspm : f.ctx.sp ≤ a.regMax := by omega
      have hreg := reg_sp_of_inv hval hspm
      cases hrd : mem.read (e.sp - a.ptr) a.ptr with
      | none => rw [hrd] at hret; cases hret
      | some ret =>
        rw [hrd] at hret
        simp only [Option.map_some, Option.some.injEq] at hret
        have hw2 := walkCfi_canonG { arch := a, callee := f.ctx, mem := mem }
          { ctx := f.ctx, valid := a.calleeSaved } rec.init (e.sp - f.ctx.sp) f.ctx.sp ret saved htoks hreg
          (by show f.ctx.sp + (e.sp - f.ctx.sp) ≤ a.regMax; omega)
          (by show a.ptr ≤ f.ctx.sp + (e.sp - f.ctx.sp); omega)
          (by show mem.read (f.ctx.sp + (e.sp - f.ctx.sp) - a.ptr) a.ptr = some ret; rw [hsum]; exact hrd)
          hnd
          (by
            intro g hg
            have hgc := hall g hg
            obtain ⟨hc, hip⟩ := canon_calleeSaved hgc.1.1
            refine ⟨hc, hip, hgc.1.2, by simpa using hgc.1.1, ?_⟩
            show (mem.read ((f.ctx.sp + (e.sp - f.ctx.sp) + g.2) % W64) a.ptr).isSome = true
            rw [hsum]; exact hgc.2)
        refine cfiOf_assembleG hinv' (ip0 := ret)
          (rest1 := (byName saved).foldl (fun rest g => assocSet rest g.1 (slotWord a mem e.sp g.2)) f.ctx.rest)
          ?_ hret.symm ?_
        · rw [hwalk, hw2]
          simp only [hsum]
          rfl
        · simp only [savedAt, hrec, hsaved, Option.getD_some]

/-! ### one `get_caller_frame`, the chain -/

theorem cfiLinkG_epilogue {a : Arch} {w : World} {mask : Nat} {mem : Mem} {f : Frame} {e : Exp}
    (hl : cfiLinkG w a mask mem f e = true) :
    effArch a f.ctx = a ∧ 4096 ≤ e.ret ∧ e.sp ≤ a.regMax ∧
      (f.ctx.sp < e.sp ∨ (a.leafOk = true ∧ f.trust = .context ∧ e.sp = f.ctx.sp)) := by
  unfold cfiLinkG at hl
  simp only [Bool.and_eq_true, decide_eq_true_eq] at hl
  obtain ⟨⟨⟨⟨heff, h4096⟩, hspmax⟩, _⟩, hm⟩ := hl
  refine ⟨heff, h4096, hspmax, ?_⟩
  cases hrec : cfiRecordAt w f.instruction with
  | none => rw [hrec] at hm; cases hm
  | some rec =>
    rw [hrec] at hm
    simp only [Bool.and_eq_true] at hm
    obtain ⟨⟨⟨_, hshape⟩, _⟩, _⟩ := hm
    split at hshape
    · rename_i hleaf
      simp only [Bool.and_eq_true, decide_eq_true_eq] at hshape
      exact Or.inr ⟨hleaf.2.1, hleaf.1, hshape.1.1⟩
    · simp only [Bool.and_eq_true, decide_eq_true_eq] at hshape
      exact Or.inl hshape.1.1.1.1.1.1

theorem cfiViewG_transfer {a : Arch} {w : World} {mask : Nat} {mem : Mem} {f st : Frame} (e : Exp)
    (hv : CfiView a f st) :
    CfiInv a f ∧ cfiLinkG w a mask mem f e = cfiLinkG w a mask mem st e ∧
      cfiFrameG w a mask mem f e = cfiFrameG w a mask mem st e := by
  obtain ⟨h1, h2, h3, h4⟩ := hv
  refine ⟨?_, ?_, ?_⟩
  · unfold CfiInv at *
    rw [h1, h2]; exact h4
  · unfold cfiLinkG callerReg
    rw [h1, h2, h3]
  · unfold cfiFrameG
    rw [h1, h3]

/-- **one `get_caller_frame` on a frame covered by a canonical record saving several registers** -/
theorem step_cfiG {env : Env} {a : Arch} {w : World} {mem : Mem} (harch : env.arch = a)
    (hcfi : env.cfi = cfiOf a w (modTable w.mods) (cfiTables w) env.mask mem)
    (f : Frame) (g : Option Frame) (st : Frame) (e : Exp)
    (hv : CfiView a f st) (hl : cfiLinkG w a env.mask mem st e = true) :
    step env mem f g = some (cfiFrameG w a env.mask mem st e) := by
  obtain ⟨hinv, hle, hfe⟩ := cfiViewG_transfer (w := w) (mask := env.mask) (mem := mem) e hv
  rw [← hle] at hl
  rw [← hfe]
  obtain ⟨_, h4096, _, hsp⟩ := cfiLinkG_epilogue hl
  have hc := cfiOf_linkG (g := g) hinv hl
  unfold step
  simp only [harch, hinv.1, candidate, hcfi, hc]
  unfold epilogue
  have hip : (cfiFrameG w a env.mask mem f e).ctx.ip = e.ret := rfl
  have hsp' : (cfiFrameG w a env.mask mem f e).ctx.sp = e.sp := rfl
  rw [hip, hsp', nullish_eq, if_neg (by omega)]
  rcases hsp with h | ⟨h1, h2, h3⟩
  · rw [if_neg (by omega)]
    rfl
  · rw [if_neg (by simp [h1, h2, h3])]
    rfl

theorem cfiFrameG_view {a : Arch} {w : World} {mask : Nat} {mem : Mem} (st : Frame) (e : Exp)
    (hl : cfiLinkG w a mask mem st e = true) :
    CfiView a (cfiFrameG w a mask mem st e) (cfiFrameG w a mask mem st e) := by
  obtain ⟨heff, _, hspmax, _⟩ := cfiLinkG_epilogue hl
  exact ⟨rfl, rfl, rfl, heff, Or.inr ⟨by simp [cfiFrameG], rfl⟩, hspmax⟩

theorem preCfiG_foldr (w : World) (a : Arch) (mask : Nat) (mem : Mem) (chain : List Exp) (st : Frame) :
    preCfiG w a mask mem st chain =
      (chain.foldr (fun e (k : Frame → Bool) => fun st =>
          mem.inRange st.ctx.sp && cfiLinkG w a mask mem st e && k (cfiFrameG w a mask mem st e))
        (fun st => !mem.inRange st.ctx.sp || cfiEnd w a mem st)) st := by
  induction chain generalizing st with
  | nil => rfl
  | cons e rest ih => simp only [preCfiG, List.foldr_cons, ih]

theorem expectedCfiG_foldr (env : Env) (w : World) (a : Arch) (mem : Mem) (chain : List Exp) (st : Frame) :
    expectedCfiG env w a mem st chain =
      (chain.foldr (fun e (k : Frame → List Frame) => fun st =>
          symbolise env (cfiFrameG w a env.mask mem st e) :: k (cfiFrameG w a env.mask mem st e)) (fun _ => [])) st := by
  induction chain generalizing st with
  | nil => rfl
  | cons e rest ih => simp only [expectedCfiG, List.foldr_cons, ih]

/-- **canonical STACK CFI chains with saved-register groups, any depth** — an instance of
    `walkLoop_chain_generic` -/
theorem walkLoop_cfiG_chain {env : Env} {a : Arch} {w : World} {mem : Mem} (harch : env.arch = a)
    (hcfi : env.cfi = cfiOf a w (modTable w.mods) (cfiTables w) env.mask mem)
    (hok0 : a = .arm → env.instrOk 0 = false) :
    ∀ (chain : List Exp) (n : Nat) (f : Frame) (g : Option Frame) (st : Frame),
      CfiView a f st → preCfiG w a env.mask mem st chain = true → need mem f ≤ n →
      walkLoop env mem n f g = symbolise env f :: expectedCfiG env w a mem st chain := by
  intro chain n f g st hv hp hn
  rw [expectedCfiG_foldr]
  rw [preCfiG_foldr] at hp
  exact walkLoop_chain_generic (σ := Frame) (CfiView a) (cfiLinkG w a env.mask mem) (cfiEnd w a mem)
    (fun st => st.ctx.sp) (cfiFrameG w a env.mask mem) (cfiFrameG w a env.mask mem)
    (fun f st h => by rw [h.1])
    (fun f st h => h)
    (fun f g st e h hl => step_cfiG harch hcfi f g st e h hl)
    (fun st e hl => cfiFrameG_view st e hl)
    (fun f g st h he => by
      obtain ⟨h1, h2, h3, h4⟩ := h
      have hinv : CfiInv a f := by unfold CfiInv at *; rw [h1, h2]; exact h4
      have he' : cfiEnd w a mem f = true := by unfold cfiEnd at *; rw [h1, h3]; exact he
      exact step_cfi_end harch hcfi hok0 f g hinv he')
    chain n f g st hv hp hn

/-! ### the registers of the expected frame -/

theorem assocGet_assocSet_ne (l : List (String × Nat)) (k k' : String) (v : Nat) (h : k ≠ k') :
    assocGet (assocSet l k v) k' = assocGet l k' := by
  induction l with
  | nil => simp [assocSet, assocGet, h]
  | cons p l ih =>
    obtain ⟨k₀, v₀⟩ := p
    by_cases h0 : k₀ = k
    · subst h0; simp [assocSet, assocGet, h]
    · by_cases h1 : k₀ = k'
      · subst h1; simp [assocSet, assocGet, h0]
      · simp [assocSet, assocGet, h0, h1, ih]

theorem assocGet_foldl_not_mem (F : Nat → Nat) (L : List (String × Nat)) (r : String) :
    ∀ (rest : List (String × Nat)), r ∉ L.map (·.1) →
      assocGet (L.foldl (fun rest g => assocSet rest g.1 (F g.2)) rest) r = assocGet rest r := by
  induction L with
  | nil => intro rest _; rfl
  | cons g L ih =>
    intro rest h
    simp only [List.map_cons, List.mem_cons, not_or] at h
    simp only [List.foldl_cons]
    rw [ih _ h.2, assocGet_assocSet_ne _ _ _ _ (Ne.symm h.1)]

theorem assocGet_foldl_mem (F : Nat → Nat) (L : List (String × Nat)) (r : String) (lit : Nat) :
    ∀ (rest : List (String × Nat)), (L.map (·.1)).Nodup → (r, lit) ∈ L →
      assocGet (L.foldl (fun rest g => assocSet rest g.1 (F g.2)) rest) r = F lit := by
  induction L with
  | nil => intro rest _ h; cases h
  | cons g L ih =>
    intro rest hnd hm
    simp only [List.map_cons, List.nodup_cons] at hnd
    simp only [List.foldl_cons]
    rcases List.mem_cons.mp hm with h | h
    · subst h
      rw [assocGet_foldl_not_mem F L _ _ hnd.1, assocGet_assocSet_same]
    · exact ih _ hnd.2 h

theorem lookup_some_mem {l : List (String × Nat)} {r : String} {v : Nat} (h : l.lookup r = some v) :
    (r, v) ∈ l := by
  induction l with
  | nil => cases h
  | cons p l ih =>
    obtain ⟨k, x⟩ := p
    simp only [List.lookup_cons] at h
    split at h
    · rename_i hk
      have : r = k := by simpa using hk
      cases h; subst this; exact List.mem_cons_self
    · exact List.mem_cons_of_mem _ (ih h)

theorem lookup_none_not_mem {l : List (String × Nat)} {r : String} (h : l.lookup r = none) :
    r ∉ l.map (·.1) := by
  induction l with
  | nil => simp
  | cons p l ih =>
    obtain ⟨k, x⟩ := p
    simp only [List.lookup_cons] at h
    split at h
    · cases h
    · rename_i hk
      have hne : ¬ r = k := by simpa using hk
      simp only [List.map_cons, List.mem_cons, not_or]
      exact ⟨hne, ih h⟩

/-- the groups of a linked frame's record have pairwise distinct names -/
theorem cfiLinkG_nodup {a : Arch} {w : World} {mask : Nat} {mem : Mem} {f : Frame} {e : Exp}
    (hl : cfiLinkG w a mask mem f e = true) : ((savedAt w f.instruction).map (·.1)).Nodup := by
  unfold cfiLinkG at hl
  simp only [Bool.and_eq_true] at hl
  obtain ⟨_, hm⟩ := hl
  unfold savedAt
  cases hrec : cfiRecordAt w f.instruction with
  | none => rw [hrec] at hm; cases hm
  | some rec =>
    rw [hrec] at hm
    simp only [Bool.and_eq_true] at hm
    obtain ⟨⟨⟨_, hshape⟩, _⟩, _⟩ := hm
    split at hshape
    · rename_i hleaf
      simp only [hleaf.2.2, groupsOf_leaf, Option.getD_some, List.map_nil]
      exact List.nodup_nil
    · simp only [Bool.and_eq_true, decide_eq_true_eq] at hshape
      exact hshape.1.2

theorem raw_calleeSaved {a : Arch} {r : String} (c : Ctx) (h : a.calleeSaved.contains r = true)
    (hsp : r ≠ a.spName) : c.raw a r = assocGet c.rest r := by
  obtain ⟨hc, hip⟩ := canon_calleeSaved h
  simp [Ctx.raw, hc, hip, hsp]

/-- **the expected frame holds, in every callee-saved register, its slot word where the record
    saves it and the callee's value otherwise** -/
theorem cfiFrameG_reg {a : Arch} {w : World} {mask : Nat} {mem : Mem} {f : Frame} {e : Exp}
    (hl : cfiLinkG w a mask mem f e = true) {r : String} (hr : a.calleeSaved.contains r = true)
    (hsp : r ≠ a.spName) :
    (cfiFrameG w a mask mem f e).ctx.raw a r = callerReg a mask mem (savedAt w f.instruction) f e r := by
  have hnd := cfiLinkG_nodup hl
  have hperm : (byName (savedAt w f.instruction)).Perm (savedAt w f.instruction) := List.mergeSort_perm _ _
  have hnd' : ((byName (savedAt w f.instruction)).map (·.1)).Nodup :=
    (hperm.map (fun g : String × Nat => g.1)).nodup_iff.mpr hnd
  rw [raw_calleeSaved _ hr hsp]
  -- the value after the groups have been applied
  have h1 : assocGet ((byName (savedAt w f.instruction)).foldl
      (fun rest g => assocSet rest g.1 (slotWord a mem e.sp g.2)) f.ctx.rest) r =
      match (savedAt w f.instruction).lookup r with
      | some lit => slotWord a mem e.sp lit
      | none => f.ctx.raw a r := by
    cases hlk : (savedAt w f.instruction).lookup r with
    | some lit =>
      have hm : (r, lit) ∈ byName (savedAt w f.instruction) := List.mem_mergeSort.mpr (lookup_some_mem hlk)
      exact assocGet_foldl_mem (slotWord a mem e.sp) _ r lit _ hnd' hm
    | none =>
      have hm : r ∉ (byName (savedAt w f.instruction)).map (·.1) := by
        intro hin
        obtain ⟨g, hg, hgr⟩ := List.mem_map.mp hin
        exact lookup_none_not_mem hlk (List.mem_map.mpr ⟨g, List.mem_mergeSort.mp hg, hgr⟩)
      rw [assocGet_foldl_not_mem (slotWord a mem e.sp) _ r _ hm, raw_calleeSaved _ hr hsp]
  unfold cfiFrameG callerReg
  simp only [stripOf_eq]
  by_cases h64 : a = .arm64 ∨ a = .arm64old
  · simp only [if_pos h64, fpName_arm64 h64]
    by_cases hfp : r = "fp"
    · subst hfp
      rw [if_pos rfl, assocGet_assocSet_same, h1]
    · rw [if_neg hfp, assocGet_assocSet_ne _ _ _ _ (Ne.symm hfp), h1]
  · simp only [if_neg h64, ite_self, h1]

theorem fpName_calleeSaved (a : Arch) : a.calleeSaved.contains a.fpName = true ∧ a.fpName ≠ a.spName := by
  cases a <;> decide

theorem has_calleeSaved {a : Arch} {c : Ctx} {r : String} (hv : c.valid = some (validAfter a))
    (hr : a.calleeSaved.contains r = true) : c.has a r = true := by
  have hall : a.calleeSaved.all (fun r => (a.aliases r).any fun n => (validAfter a).contains n) = true := by
    cases a <;> decide
  have hm : r ∈ a.calleeSaved := by simpa using hr
  have := List.all_eq_true.mp hall r hm
  simpa [Ctx.has, hv] using this

end MdModel.Walk
