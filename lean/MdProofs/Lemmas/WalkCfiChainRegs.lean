/-
  Helper lemmas for C04, canonical STACK CFI chains whose records save SEVERAL callee-saved
  registers (part 1): `walk_with_stack_cfi` on
      `.cfa: $sp N + .ra: .cfa -W + ^  ($r: .cfa LIT + ^)*`
  for a symbolic frame size AND a symbolic list of groups.

  * `groupToks`, `canonicalToksG`, `groupsOf` — the token shape and its recognizer.
  * `parseRules_groups` — `parse_cfi_exprs` on a list of groups with pairwise distinct names.
  * `foldl_saved` — the loop over the remaining rules, applied in name order (`mergeSort`).
  * `walkCfi_canonG` — the caller registers after the whole rule set.
-/
import MdProofs.Lemmas.WalkCfiChainLoop
namespace MdModel.Walk
open MdModel

/-- `$r: .cfa LIT + ^` (`LIT` = the `u64` bit pattern of the literal, e.g. `2^64 - 16` for `-16`) -/
def groupToks (g : String × Nat) : List RTok :=
  [.label (.other g.1), .tok .cfa, .tok (.lit g.2), .tok .add, .tok .deref]

/-- the canonical rule followed by the groups of the saved registers -/
def canonicalToksG (a : Arch) (bytes : Nat) (saved : List (String × Nat)) : List RTok :=
  canonicalToks a bytes false ++ saved.flatMap groupToks

/-- the groups a token list consists of (`none` when it is not a sequence of groups) -/
def groupsOf : List RTok → Option (List (String × Nat))
  | [] => some []
  | .label (.other r) :: .tok .cfa :: .tok (.lit v) :: .tok .add :: .tok .deref :: rest =>
    (groupsOf rest).map fun l => (r, v) :: l
  | _ => none

theorem groupsOf_spec : ∀ (toks : List RTok) (saved : List (String × Nat)),
    groupsOf toks = some saved → toks = saved.flatMap groupToks := by
  intro toks
  induction toks using groupsOf.induct with
  | case1 => intro saved h; simp only [groupsOf, Option.some.injEq] at h; subst h; rfl
  | case2 r v rest ih =>
    intro saved h
    simp only [groupsOf, Option.map_eq_some_iff] at h
    obtain ⟨l, hl, rfl⟩ := h
    simp only [List.flatMap_cons, groupToks, List.cons_append, List.nil_append]
    rw [← ih l hl]
  | case3 toks h1 h2 =>
    intro saved h
    unfold groupsOf at h
    split at h
    · exact absurd rfl h1
    · exact absurd rfl (h2 _ _ _)
    · cases h

/-- the slot expression of a group -/
def slotE (v : Nat) : List ETok := [.cfa, .lit v, .add, .deref]

/-! ### `parse_cfi_exprs` on the groups -/

theorem ruleSet_append_of_not_mem (out : List (CfiReg × List ETok)) (r : CfiReg) (e : List ETok)
    (h : r ∉ out.map (·.1)) : ruleSet out r e = out ++ [(r, e)] := by
  induction out with
  | nil => rfl
  | cons p out ih =>
    obtain ⟨r', e'⟩ := p
    simp only [List.map_cons, List.mem_cons, not_or] at h
    simp only [ruleSet, if_neg (Ne.symm h.1), ih h.2, List.cons_append]

theorem parseRules_groups : ∀ (saved : List (String × Nat)) (r : CfiReg) (ex : List ETok)
    (out : List (CfiReg × List ETok)), ex ≠ [] → r ∉ out.map (·.1) →
    (saved.map (·.1)).Nodup → (∀ g ∈ saved, CfiReg.other g.1 ∉ out.map (·.1) ∧ CfiReg.other g.1 ≠ r) →
    parseRules (saved.flatMap groupToks) (some r) ex out =
      some (out ++ (r, ex.reverse) :: saved.map fun g => (CfiReg.other g.1, slotE g.2)) := by
  intro saved
  induction saved with
  | nil =>
    intro r ex out hex hr _ _
    cases ex with
    | nil => exact absurd rfl hex
    | cons t ex =>
      simp only [List.flatMap_nil, parseRules, List.isEmpty_cons, Bool.false_eq_true, if_false, List.map_nil]
      rw [ruleSet_append_of_not_mem _ _ _ hr]
  | cons g saved ih =>
    intro r ex out hex hr hnd hfresh
    cases ex with
    | nil => exact absurd rfl hex
    | cons t ex =>
      simp only [List.map_cons, List.nodup_cons] at hnd
      have hg := hfresh g List.mem_cons_self
      simp only [List.flatMap_cons, groupToks, List.cons_append, List.nil_append, parseRules, List.isEmpty_cons,
        Bool.false_eq_true, if_false]
      rw [ruleSet_append_of_not_mem _ _ _ hr]
      have hr' : CfiReg.other g.1 ∉ (out ++ [(r, (t :: ex).reverse)]).map (·.1) := by
        simp only [List.map_append, List.map_cons, List.map_nil, List.mem_append, List.mem_singleton, not_or]
        exact ⟨hg.1, hg.2⟩
      rw [ih (CfiReg.other g.1) [.deref, .add, .lit g.2, .cfa] _ (by simp) hr' hnd.2 ?_]
      · simp [slotE]
      · intro g' hg'
        have := hfresh g' (List.mem_cons_of_mem _ hg')
        refine ⟨?_, ?_⟩
        · simp only [List.map_append, List.map_cons, List.map_nil, List.mem_append, List.mem_singleton, not_or]
          exact ⟨this.1, this.2⟩
        · intro heq
          injection heq with heq
          exact hnd.1 (heq ▸ List.mem_map_of_mem (f := (·.1)) hg')

/-! ### the loop over the remaining rules -/

/-- one round of the loop at the end of `walk_with_stack_cfi` -/
def applyRule (x : CfiIn) (cfa : Nat) (o : CfiOut) (p : String × List ETok) : CfiOut :=
  match evalCfi x (some cfa) p.2 [] with
  | some v =>
    (match o.setReg x.arch p.1 v with
     | some o' => o'
     | none => o.clearReg x.arch p.1)
  | none => o.clearReg x.arch p.1

/-- the word a group's slot holds (0 when unreadable — excluded by the precondition) -/
def slotWord (a : Arch) (mem : Mem) (cfa v : Nat) : Nat := (mem.read ((cfa + v) % W64) a.ptr).getD 0

theorem setInsert_of_mem {l : List String} {s : String} (h : s ∈ l) : setInsert l s = l := by
  simp [setInsert, h]

/-- a group whose register is a known, already valid register other than ip / sp and whose slot
    is readable sets that register to the slot word and changes nothing else -/
theorem applyRule_group (x : CfiIn) (cfa : Nat) (o : CfiOut) (g : String × Nat)
    (hc : x.arch.canon g.1 = some g.1) (hip : g.1 ≠ x.arch.ipName) (hsp : g.1 ≠ x.arch.spName)
    (hv : g.1 ∈ o.valid) (hr : (x.mem.read ((cfa + g.2) % W64) x.arch.ptr).isSome = true) :
    applyRule x cfa o (g.1, slotE g.2) =
      { ctx := { o.ctx with rest := assocSet o.ctx.rest g.1 (slotWord x.arch x.mem cfa g.2) }, valid := o.valid } := by
  obtain ⟨w, hw⟩ := Option.isSome_iff_exists.mp hr
  have hle := read_le_regMax hw
  simp only [applyRule, slotE, evalCfi, CfiIn.deref_eq, hw, CfiOut.setReg, hc, if_neg (Nat.not_lt.mpr hle),
    Ctx.set, if_neg hip, if_neg hsp, setInsert_of_mem hv, slotWord, Option.getD_some]

theorem foldl_saved (x : CfiIn) (cfa : Nat) (L : List (String × Nat)) :
    ∀ (o : CfiOut),
      (∀ g ∈ L, x.arch.canon g.1 = some g.1 ∧ g.1 ≠ x.arch.ipName ∧ g.1 ≠ x.arch.spName ∧ g.1 ∈ o.valid ∧
        (x.mem.read ((cfa + g.2) % W64) x.arch.ptr).isSome = true) →
      (L.map fun g => (g.1, slotE g.2)).foldl (applyRule x cfa) o =
        { ctx := { o.ctx with rest := L.foldl (fun rest g => assocSet rest g.1 (slotWord x.arch x.mem cfa g.2)) o.ctx.rest },
          valid := o.valid } := by
  induction L with
  | nil => intro o _; rfl
  | cons g L ih =>
    intro o h
    obtain ⟨hc, hip, hsp, hv, hr⟩ := h g List.mem_cons_self
    simp only [List.map_cons, List.foldl_cons]
    rw [applyRule_group x cfa o g hc hip hsp hv hr]
    rw [ih]
    intro g' hg'
    exact h g' (List.mem_cons_of_mem _ hg')

/-- sorting the remaining rules by name = sorting the groups by name -/
theorem mergeSort_groups (L : List (String × Nat)) :
    (L.map fun g => (g.1, slotE g.2)).mergeSort (fun p q => strLe p.1 q.1) =
      (L.mergeSort fun p q => strLe p.1 q.1).map fun g => (g.1, slotE g.2) := by
  symm
  exact List.map_mergeSort (fun _ _ _ _ => rfl)

theorem otherRules_groups (cfaE raE : List ETok) (saved : List (String × Nat)) :
    otherRules ([(CfiReg.cfa, cfaE)] ++ (CfiReg.ra, raE) :: saved.map fun g => (CfiReg.other g.1, slotE g.2)) =
      saved.map fun g => (g.1, slotE g.2) := by
  simp only [otherRules, List.singleton_append, List.filterMap_cons, List.filterMap_map]
  induction saved with
  | nil => rfl
  | cons g saved ih => simp only [List.filterMap_cons, Function.comp_apply, List.map_cons, ih]

theorem mem_setInsert_of_mem {l : List String} {s t : String} (h : s ∈ l) : s ∈ setInsert l t := by
  unfold setInsert
  split
  · exact h
  · exact List.mem_append_left _ h

/-- the byte order of the groups in which `walk_with_stack_cfi` applies them -/
def byName (saved : List (String × Nat)) : List (String × Nat) := saved.mergeSort fun p q => strLe p.1 q.1

/-! ### `walk_with_stack_cfi` on the canonical rule with groups -/

theorem walkCfi_canonG (x : CfiIn) (o : CfiOut) (init : String) (bytes sp ret : Nat)
    (saved : List (String × Nat))
    (htok : tokenize init = canonicalToksG x.arch bytes saved)
    (hsp : x.reg x.arch.spName = some sp) (hmax : sp + bytes ≤ x.arch.regMax)
    (hp : x.arch.ptr ≤ sp + bytes)
    (hra : x.mem.read (sp + bytes - x.arch.ptr) x.arch.ptr = some ret)
    (hnd : (saved.map (·.1)).Nodup)
    (hsv : ∀ g ∈ saved, x.arch.canon g.1 = some g.1 ∧ g.1 ≠ x.arch.ipName ∧ g.1 ≠ x.arch.spName ∧
      g.1 ∈ o.valid ∧ (x.mem.read ((sp + bytes + g.2) % W64) x.arch.ptr).isSome = true) :
    walkCfi x o init [] =
      some { ctx := { o.ctx with sp := sp + bytes, ip := ret,
                                 rest := (byName saved).foldl (fun rest g =>
                                   assocSet rest g.1 (slotWord x.arch x.mem (sp + bytes) g.2)) o.ctx.rest },
             valid := setInsert (setInsert o.valid x.arch.spName) x.arch.ipName } := by
  have h8 := ptr_le_eight x.arch
  have h0 := ptr_pos x.arch
  have hW := regMax_lt_W64 x.arch
  have hret := read_le_regMax hra
  have hcfa : (sp + bytes) % W64 = sp + bytes := by unfold W64; omega
  have hsub : (sp + bytes + (2 ^ 64 - x.arch.ptr)) % W64 = sp + bytes - x.arch.ptr := by unfold W64; omega
  have hnot : ¬ (sp + bytes > x.arch.regMax ∨ ret > x.arch.regMax) := by omega
  have hparse := parseRules_groups saved .ra [.deref, .add, .lit (2 ^ 64 - x.arch.ptr), .cfa]
    [(.cfa, [spTok x.arch, .lit bytes, .add])] (by simp) (by simp) hnd (by intro g _; simp)
  simp only [walkCfi, List.foldl_cons, List.foldl_nil, Option.bind_some, htok, canonicalToksG, canonicalToks,
    Bool.false_eq_true, if_false, List.append_nil, List.cons_append, List.nil_append, parseRules, ruleSet,
    List.isEmpty_cons, List.reverse_cons, List.reverse_nil, hparse]
  simp only [List.lookup_cons, List.cons_append, List.nil_append, beq_self_eq_true, CfiReg.ra_beq_cfa]
  simp only [evalCfi_spTok, hsp]
  simp only [evalCfi, hcfa, hsub, CfiIn.deref_eq, hra, if_neg hnot]
  have hor := otherRules_groups [spTok x.arch, .lit bytes, .add] [.cfa, .lit (2 ^ 64 - x.arch.ptr), .add, .deref] saved
  simp only [List.cons_append, List.nil_append] at hor
  rw [hor, mergeSort_groups]
  show some (List.foldl (applyRule x (sp + bytes)) _ _) = _
  rw [foldl_saved]
  · rfl
  · intro g hg
    have hg' : g ∈ saved := (List.mem_mergeSort).mp hg
    obtain ⟨h1, h2, h3, h4, h5⟩ := hsv g hg'
    exact ⟨h1, h2, h3, mem_setInsert_of_mem (mem_setInsert_of_mem h4), h5⟩

end MdModel.Walk
