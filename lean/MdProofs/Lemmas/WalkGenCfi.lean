/-
  Helper lemmas for C04 (MdProofs/C04Gen.lean): the canonical STACK CFI GENERATOR of the `chain`
  engine as a Lean function (`gcfiWords` / `gcfiChain`, MdModel/Walk/LayoutGen.lean), generically in
  the architecture, and `preCfiFrom` of it for all parameters — given the side condition `gcfiSide`
  on the module list and symbol records (which record covers which lookup address).
-/
import MdProofs.Lemmas.WalkGenMem
set_option linter.unusedSimpArgs false
set_option linter.unusedVariables false
namespace MdModel.Walk
open MdModel

theorem canon_ne_leaf (a : Arch) (b : Nat) (s : Bool) : canonicalToks a b s ≠ leafToks a := by
  intro h; have := congrArg List.length h; cases s <;> simp [canonicalToks, leafToks] at this

theorem canon_false_ne_true (a : Arch) (b : Nat) : canonicalToks a b false ≠ canonicalToks a b true := by
  intro h; have := congrArg List.length h; simp [canonicalToks] at this

/-- one frame of `n ≠ 0` words is a `linkCfi` -/
theorem linkCfi_frame (w : World) (a : Arch) (mask : Nat) (mem : Mem) (instr base s fp lr : Nat) (first : Bool)
    (c : CfiFr) (rec : CfiRec)
    (hn : c.n ≠ 0) (hrec : cfiRecordAt w instr = some rec) (hadds : rec.adds.isEmpty = true)
    (htoks : tokenize rec.init = canonicalToks a (a.ptr * c.n) c.saves)
    (hret : 4096 ≤ c.ret) (hretmax : c.ret ≤ a.regMax) (hstrip : stripOf a mask c.ret = c.ret)
    (hfp : stripOf a mask fp = fp)
    (hsv : c.saves = true → 2 ≤ c.n ∧ stripOf a mask c.fpv = c.fpv)
    (htop : pAddr a.ptr base (s + c.n) ≤ a.regMax)
    (hr_ret : mem.read (pAddr a.ptr base (s + c.n) - a.ptr) a.ptr = some c.ret)
    (hr_fp : c.saves = true → mem.read (pAddr a.ptr base (s + c.n) - 2 * a.ptr) a.ptr = some c.fpv) :
    linkCfi w a mask mem instr (pAddr a.ptr base s) fp lr first
      { ret := c.ret, sp := pAddr a.ptr base (s + c.n), fp := some (if c.n ≠ 0 ∧ c.saves then c.fpv else fp) } = true := by
  have hp := ptr_pos a
  have hpos : 0 < c.n := Nat.pos_of_ne_zero hn
  have hbytes : pAddr a.ptr base (s + c.n) - pAddr a.ptr base s = a.ptr * c.n := by
    simp only [pAddr, Nat.mul_add]; omega
  have hmul : 0 < a.ptr * c.n := Nat.mul_pos hp hpos
  have hlt : pAddr a.ptr base s < pAddr a.ptr base (s + c.n) := by simp only [pAddr, Nat.mul_add]; omega
  have hple : a.ptr ≤ a.ptr * c.n := Nat.le_mul_of_pos_right _ hpos
  unfold linkCfi
  simp only [hrec, hadds, htoks, hbytes, canon_ne_leaf, and_false, if_false, hr_ret, Option.map_some, hstrip,
    Bool.and_eq_true, decide_eq_true_eq, beq_iff_eq, true_and, hret, hretmax, htop, hlt, hple, Bool.true_and,
    BEq.rfl, and_true, decide_true, ite_false, if_false]
  cases hs : c.saves with
  | false =>
    simp only [canon_false_ne_true, if_false, ite_false, hn, Bool.false_eq_true, and_false, hfp, BEq.rfl,
      decide_true, Bool.and_self, ne_eq, not_false_eq_true]
  | true =>
    obtain ⟨h2, hsf⟩ := hsv hs
    have h2p : 2 * a.ptr ≤ a.ptr * c.n := by
      have := Nat.mul_le_mul_left a.ptr h2; omega
    simp only [if_true, ite_true, hr_fp hs, Option.map_some, hsf, hn, ne_eq, not_false_eq_true, and_self,
      Option.isSome_some, BEq.rfl, Bool.and_self, h2p, decide_true]

/-- the leaf first frame is a `linkCfi` -/
theorem linkCfi_leaf (w : World) (a : Arch) (mask : Nat) (mem : Mem) (instr base s fp lr : Nat)
    (c : CfiFr) (rec : CfiRec) (hleaf : a.leafOk = true)
    (hrec : cfiRecordAt w instr = some rec) (hadds : rec.adds.isEmpty = true)
    (htoks : tokenize rec.init = leafToks a)
    (hret : 4096 ≤ c.ret) (hretmax : c.ret ≤ a.regMax) (hstrip : stripOf a mask c.ret = c.ret)
    (hfp : stripOf a mask fp = fp) (htop : pAddr a.ptr base s ≤ a.regMax) (hlr : lr = c.ret) :
    linkCfi w a mask mem instr (pAddr a.ptr base s) fp lr true
      { ret := c.ret, sp := pAddr a.ptr base s, fp := some fp } = true := by
  subst hlr
  unfold linkCfi
  simp only [hrec, hadds, htoks, hleaf, and_self, if_true, ite_true, hstrip, hfp, BEq.rfl, decide_true,
    Bool.and_self, hret, hretmax, htop, Bool.true_and, true_and]

theorem CfiFr.words_spec (c : CfiFr) (hn : c.n ≠ 0) (hsv : c.saves = true → 2 ≤ c.n) :
    c.words.length = c.n ∧ c.words[c.n - 1]?.getD 0 = c.ret ∧ (c.saves = true → c.words[c.n - 2]?.getD 0 = c.fpv) := by
  unfold CfiFr.words
  rw [if_neg hn]
  cases hs : c.saves with
  | false =>
    simp only [Bool.false_eq_true, if_false, false_implies, and_true]
    refine ⟨by simp; omega, ?_⟩
    rw [getD_append_right' _ _ _ (by simp)]
    simp
  | true =>
    have h2 := hsv hs
    simp only [if_true, true_implies]
    refine ⟨by simp; omega, ?_, ?_⟩
    · rw [getD_append_right' _ _ _ (by simp; omega)]
      have : c.n - 1 - (List.replicate (c.n - 2) 0).length = 1 := by simp; omega
      rw [this]; rfl
    · rw [getD_append_right' _ _ _ (by simp)]
      simp

/-- the induction on the frames: `ws = pre ++ body frames ++ zeros`, the callee's stack pointer at
    word `s = pre.length` -/
theorem preCfi_gen_aux (w : World) (a : Arch) (os : Os) (mask base tail : Nat) (ws : List Nat)
    (hbase : 16 < base) (htop : base + a.ptr * ws.length ≤ a.regMax) :
    ∀ (frames : List CfiFr) (s fp instr lr : Nat) (first : Bool) (pre : List Nat),
      ws = pre ++ (gcfiBody frames ++ List.replicate tail 0) → pre.length = s →
      stripOf a mask fp = fp →
      gcfiSide w a instr first frames = true → gcfiFramesOk a mask frames = true →
      (∀ c rest, frames = c :: rest → c.n = 0 → lr = c.ret ∧ s < ws.length) →
      (tail = 0 ∨ gcfiLastFp fp frames = 0) →
      preCfiFrom w a os mask (wordsMemP a.ptr base ws) instr (pAddr a.ptr base s) fp lr first
        (gcfiChain a.ptr base s fp frames) = true := by
  have hp := ptr_pos a
  have hpow := regMax_lt_pow a
  have h64 := regMax_le_u64 a
  have haddr : ∀ i, i ≤ ws.length → pAddr a.ptr base i ≤ a.regMax := by
    intro i hi
    have : a.ptr * i ≤ a.ptr * ws.length := Nat.mul_le_mul_left _ hi
    simp only [pAddr]; omega
  intro frames
  induction frames with
  | nil =>
    intro s fp instr lr first pre hws hpl hfp hside _ _ hend
    have hlen : ws.length = s + tail := by rw [hws]; simp [gcfiBody, hpl]
    simp only [preCfiFrom, gcfiChain, Bool.or_eq_true, Bool.not_eq_true', Bool.and_eq_true, decide_eq_true_eq]
    rcases hend with ht | hl
    · left; exact wordsMemP_not_inRange a.ptr base ws s (by omega)
    · right
      refine ⟨⟨⟨by simpa [gcfiSide] using hside, by simpa [gcfiLastFp] using hl⟩, hbase⟩, ?_⟩
      apply wordsMemP_zerosFrom a.ptr base ws s hp
      intro i h1 h2
      rw [hws, getD_append_right' _ _ _ (by omega), hpl]
      simp only [gcfiBody, List.nil_append]
      exact getD_replicate_zero' _ _
  | cons c rest ih =>
    intro s fp instr lr first pre hws hpl hfp hside hok hleaf0 hend
    simp only [gcfiSide, Bool.and_eq_true] at hside
    obtain ⟨hrecs, hside'⟩ := hside
    simp only [gcfiFramesOk, List.all_cons, Bool.and_eq_true, decide_eq_true_eq] at hok
    obtain ⟨⟨⟨⟨hr4096, hrmax⟩, hrstrip⟩, hsvok⟩, hok'⟩ := hok
    cases hrq : cfiRecordAt w instr with
    | none => rw [hrq] at hrecs; simp at hrecs
    | some rec =>
      rw [hrq] at hrecs
      simp only [Bool.and_eq_true] at hrecs
      obtain ⟨hadds, hshape⟩ := hrecs
      by_cases hn : c.n = 0
      · -- the leaf first frame
        rw [if_pos hn] at hshape
        simp only [Bool.and_eq_true, beq_iff_eq] at hshape
        obtain ⟨⟨hfirst, hleafOk⟩, htoks⟩ := hshape
        obtain ⟨hlr, hslt⟩ := hleaf0 c rest rfl hn
        subst hfirst
        have hcw : c.words = [] := by simp [CfiFr.words, hn]
        have hrec := ih s fp (c.ret - a.adj) 0 false pre (by rw [hws]; simp [gcfiBody, hcw]) hpl hfp hside'
          (by simpa [gcfiFramesOk] using hok')
          (by
            intro c' rest' hc' hn'
            subst hc'
            simp only [gcfiSide, Bool.and_eq_true] at hside'
            obtain ⟨h1, _⟩ := hside'
            cases hq : cfiRecordAt w (c.ret - a.adj) with
            | none => rw [hq] at h1; simp at h1
            | some r' => rw [hq] at h1; simp [hn'] at h1)
          (by simpa [gcfiLastFp, hn] using hend)
        have hin : (wordsMemP a.ptr base ws).inRange (pAddr a.ptr base s) = true :=
          wordsMemP_inRange a.ptr base ws s hp hslt (by omega)
        simp only [preCfiFrom, gcfiChain, hn, Nat.add_zero, ne_eq, not_true_eq_false, false_and, if_false,
          Bool.and_eq_true, Option.getD_some]
        exact ⟨⟨hin, linkCfi_leaf w a mask _ instr base s fp lr c rec hleafOk hrq hadds htoks hr4096 hrmax hrstrip hfp
          (haddr s (by omega)) hlr⟩, hrec⟩
      · rw [if_neg hn] at hshape
        have htoks : tokenize rec.init = canonicalToks a (a.ptr * c.n) c.saves := by simpa using hshape
        have hsv : c.saves = true → 2 ≤ c.n ∧ c.fpv ≤ a.regMax ∧ stripOf a mask c.fpv = c.fpv := by
          intro hs
          simp only [hs, Bool.not_true, Bool.or_false, Bool.false_or, Bool.or_eq_true, beq_iff_eq, Bool.and_eq_true,
            decide_eq_true_eq] at hsvok
          rcases hsvok with h | h
          · exact absurd h hn
          · exact ⟨h.1.1, h.1.2, h.2⟩
        obtain ⟨hwl, hwret, hwfp⟩ := c.words_spec hn (fun h => (hsv h).1)
        have hpos : 0 < c.n := Nat.pos_of_ne_zero hn
        have hlen : s + c.n ≤ ws.length := by
          rw [hws]; simp only [gcfiBody, List.length_append, hpl, hwl]; omega
        -- the words of this frame
        have hget : ∀ j, j < c.n → ws[s + j]?.getD 0 = c.words[j]?.getD 0 := by
          intro j hj
          rw [hws, getD_append_right' _ _ _ (by omega), hpl]
          have : s + j - s = j := by omega
          rw [this]
          simp only [gcfiBody, List.append_assoc]
          rw [getD_append_left' _ _ _ (by omega)]
        have e1 : pAddr a.ptr base (s + c.n) - a.ptr = pAddr a.ptr base (s + (c.n - 1)) := by
          have : s + c.n = s + (c.n - 1) + 1 := by omega
          simp only [pAddr]; rw [this, Nat.mul_succ]; omega
        have hr_ret : (wordsMemP a.ptr base ws).read (pAddr a.ptr base (s + c.n) - a.ptr) a.ptr = some c.ret := by
          rw [e1]
          exact read_wordsMemP_eq a.ptr base ws _ c.ret (by omega) (by rw [hget _ (by omega), hwret]) (by omega)
        have hr_fp : c.saves = true →
            (wordsMemP a.ptr base ws).read (pAddr a.ptr base (s + c.n) - 2 * a.ptr) a.ptr = some c.fpv := by
          intro hs
          obtain ⟨h2, hfm, _⟩ := hsv hs
          have e2 : pAddr a.ptr base (s + c.n) - 2 * a.ptr = pAddr a.ptr base (s + (c.n - 2)) := by
            have : s + c.n = s + (c.n - 2) + 2 := by omega
            simp only [pAddr]; rw [this, Nat.mul_add]; omega
          rw [e2]
          exact read_wordsMemP_eq a.ptr base ws _ c.fpv (by omega) (by rw [hget _ (by omega), hwfp hs]) (by omega)
        have hfp' : stripOf a mask (if c.n ≠ 0 ∧ c.saves = true then c.fpv else fp) = (if c.n ≠ 0 ∧ c.saves = true then c.fpv else fp) := by
          by_cases hs : c.saves = true
          · simp only [hn, hs, ne_eq, not_false_eq_true, and_self, if_true]; exact (hsv hs).2.2
          · have hs' : c.saves = false := by simpa using hs
            simp only [hs', Bool.false_eq_true, and_false, if_false]; exact hfp
        have hrec := ih (s + c.n) (if c.n ≠ 0 ∧ c.saves = true then c.fpv else fp) (c.ret - a.adj) 0 false (pre ++ c.words)
          (by rw [hws]; simp only [gcfiBody, List.append_assoc])
          (by simp only [List.length_append, hpl, hwl])
          hfp' hside' (by simpa [gcfiFramesOk] using hok')
          (by
            intro c' rest' hc' hn'
            subst hc'
            simp only [gcfiSide, Bool.and_eq_true] at hside'
            obtain ⟨h1, _⟩ := hside'
            cases hq : cfiRecordAt w (c.ret - a.adj) with
            | none => rw [hq] at h1; simp at h1
            | some r' => rw [hq] at h1; simp [hn'] at h1)
          (by simpa [gcfiLastFp] using hend)
        have hin : (wordsMemP a.ptr base ws).inRange (pAddr a.ptr base s) = true :=
          wordsMemP_inRange a.ptr base ws s hp (by omega) (by omega)
        simp only [preCfiFrom, gcfiChain, Bool.and_eq_true, Option.getD_some]
        exact ⟨⟨hin, linkCfi_frame w a mask _ instr base s fp lr first c rec hn hrq hadds htoks hr4096 hrmax hrstrip hfp
          (fun h => ⟨(hsv h).1, (hsv h).2.2⟩) (haddr _ hlen) hr_ret hr_fp⟩, hrec⟩

end MdModel.Walk
