/-
  C15 — JSON output is always valid, schema-conformant and self-consistent.

  Property text: "For every process state, the JSON report is valid UTF-8 JSON matching the
  documented schema: field names, types, enumerations, and hex-string addresses padded to the
  crashing platform's pointer width. Its redundant fields agree: thread_count and frame_count
  equal the array lengths, frame numbers are their positions, the crashing-thread copy is the
  indexed thread plus its registers, module and function offsets equal address minus base, and
  the modules array mirrors the module list."

  The theorems are about `MdModel.Json` (`printJson`, `render`, `parse`, `Conforms`), the model
  that the compiled driver executes and that the `json` engine compares byte for byte with
  `ProcessState::print_json` on every run.
-/
import MdProofs.Lemmas.JsonParse
import MdProofs.Lemmas.JsonSchema
import MdProofs.Lemmas.JsonConsistent
namespace MdModel.Json
open MdModel

/-! ## 0. shape of the report -/

/-- What a successful `print_json` built: the three mapped arrays and the object. -/
theorem printJson_ok (s : StateModel) (j : Json) (h : printJson s = .ok j) :
    ∃ ms ts us,
      omapM (moduleJson s.sys.cpu.pw s.certInfo s.symbolStats) s.modules = .ok ms ∧
      omapM (threadJson s.sys.cpu.pw) s.threads = .ok ts ∧
      omapM (unloadedJson s.sys.cpu.pw s.certInfo) s.unloaded = .ok us ∧
      addCrashing s ts (baseFields s.sys.cpu.pw s ms ts us) = .ok j := by
  simp only [printJson, obind] at h
  split at h
  · rename_i ms hms
    split at h
    · rename_i ts hts
      split at h
      · rename_i us hus
        exact ⟨ms, ts, us, hms, hts, hus, h⟩
      · cases h
    · cases h
  · cases h

/-- every member of the literal is in the report, with or without the crashing-thread copy -/
theorem addCrashing_get (s : StateModel) (ts : List Json) (out : List (String × Json)) (j : Json)
    (h : addCrashing s ts out = .ok j) (k : String) (hk : k ≠ "crashing_thread") :
    j.get k = lookupLast k out := by
  simp only [addCrashing] at h
  split at h
  · cases h; exact get_mkObj k out
  · split at h
    · split at h
      · cases h; exact get_mkObj k out
      · split at h
        · cases h
          rw [get_mkObj, lookupLast_append]
          simp [lookupLast, hk]
        · cases h
    · cases h

/-! ## 1. "thread_count and frame_count equal the array lengths, frame numbers are their positions" -/

theorem frameJson_frame (pw : PW) (i : Nat) (f : FrameM) (j : Json) (h : frameJson pw i f = .ok j) :
    j.get "frame" = some (.nat i) := by
  simp only [frameJson, obind] at h
  split at h
  · split at h
    · cases h; simp [get_mkObj, lookupLast]
    · cases h
  · cases h

theorem threadJson_shape (pw : PW) (t : ThreadM) (tj : Json) (h : threadJson pw t = .ok tj) :
    ∃ fs, framesJson pw 0 t.frames = .ok fs ∧
      tj.get "frame_count" = some (.nat t.frames.length) ∧
      tj.get "frames" = some (.arr fs) ∧
      tj.get "thread_id" = some (.nat t.threadId) := by
  simp only [threadJson, obind] at h
  split at h
  · rename_i fs hfs
    cases h
    exact ⟨fs, hfs, by simp [get_mkObj, lookupLast], by simp [get_mkObj, lookupLast],
      by simp [get_mkObj, lookupLast]⟩
  · cases h

/-- **counts_agree** — `thread_count` is the length of `threads`, which has one entry per call
    stack in order; every entry's `frame_count` is the length of its `frames`, which has one entry
    per frame in order; the `frame` member of the `k`-th entry is `k`. -/
theorem counts_agree (s : StateModel) (j : Json) (h : printJson s = .ok j) :
    ∃ ts, j.get "threads" = some (.arr ts) ∧
      j.get "thread_count" = some (.nat ts.length) ∧ ts.length = s.threads.length ∧
      ∀ (i : Nat) (t : ThreadM) (tj : Json), s.threads[i]? = some t → ts[i]? = some tj →
        ∃ fs, tj.get "frames" = some (.arr fs) ∧
          tj.get "frame_count" = some (.nat fs.length) ∧ fs.length = t.frames.length ∧
          ∀ (k : Nat) (fj : Json), fs[k]? = some fj → fj.get "frame" = some (.nat k) := by
  obtain ⟨ms, ts, us, _, hts, _, hj⟩ := printJson_ok s j h
  obtain ⟨hlen, hth⟩ := omapM_ok _ _ _ hts
  refine ⟨ts, ?_, ?_, hlen, ?_⟩
  · rw [addCrashing_get s ts _ j hj "threads" (by decide)]; simp [baseFields, lookupLast]
  · rw [addCrashing_get s ts _ j hj "thread_count" (by decide)]; simp [baseFields, lookupLast, hlen]
  · intro i t tj hti htj
    obtain ⟨tj', htj', htok⟩ := hth i t hti
    rw [htj] at htj'
    cases htj'
    obtain ⟨fs, hfs, hcount, hframes, _⟩ := threadJson_shape _ t tj htok
    obtain ⟨hfl, hfk⟩ := framesJson_ok _ _ _ _ hfs
    refine ⟨fs, hframes, by rw [hcount, hfl], hfl, ?_⟩
    intro k fj hk
    have hk' : k < t.frames.length := by
      rw [← hfl]; exact (List.getElem?_eq_some_iff.mp hk).1
    obtain ⟨fj', h1, h2⟩ := hfk k t.frames[k] (by simp [hk'])
    rw [hk] at h1
    cases h1
    simpa using frameJson_frame _ _ _ _ h2

/-! ## 2. "the crashing-thread copy is the indexed thread plus its registers" -/

/-- **crashing_thread_copy** — when the requesting thread has at least one frame, the top-level
    `crashing_thread` is the `threads` entry at that index with `registers` (the valid general
    purpose registers of frame 0's context) inserted into its first frame and `threads_index`
    added; nothing else differs. Otherwise there is no `crashing_thread` member. -/
theorem crashing_thread_copy (s : StateModel) (j : Json) (h : printJson s = .ok j) :
    (∀ i t f0 rest, s.requestingThread = some i → s.threads[i]? = some t → t.frames = f0 :: rest →
      ∃ ts kvs fj0 fjs, j.get "threads" = some (.arr ts) ∧ ts[i]? = some (.obj kvs) ∧
        getKV "frames" kvs = some (.arr (.obj fj0 :: fjs)) ∧
        j.get "crashing_thread" = some (.obj (insertKV "threads_index" (.nat i)
          (insertKV "frames" (.arr (.obj (insertKV "registers" (registersJson f0.ctx) fj0) :: fjs)) kvs)))) ∧
    ((s.requestingThread = none ∨
      ∃ i t, s.requestingThread = some i ∧ s.threads[i]? = some t ∧ t.frames = []) →
      j.get "crashing_thread" = none) := by
  obtain ⟨ms, ts, us, _, hts, _, hj⟩ := printJson_ok s j h
  have hthreads : j.get "threads" = some (.arr ts) := by
    rw [addCrashing_get s ts _ j hj "threads" (by decide)]; simp [baseFields, lookupLast]
  constructor
  · intro i t f0 rest hreq hti hfr
    simp only [addCrashing, hreq, hti] at hj
    split at hj
    · rename_i t' tj ht' htj
      cases ht'
      simp only [hfr] at hj
      split at hj
      · rename_i c hc
        cases hj
        simp only [crashingCopy] at hc
        split at hc
        · rename_i kvs
          split at hc
          · rename_i fj0 fjs hfr'
            cases hc
            refine ⟨ts, kvs, fj0, fjs, hthreads, htj, hfr', ?_⟩
            rw [get_mkObj, lookupLast_append]
            simp [lookupLast]
          · cases hc
        · cases hc
      · cases hj
    · cases hj
  · intro hno
    simp only [addCrashing] at hj
    rcases hno with hnone | ⟨i, t, hreq, hti, hfr⟩
    · simp only [hnone] at hj
      cases hj
      simp [get_mkObj, baseFields, lookupLast]
    · simp only [hreq, hti] at hj
      split at hj
      · rename_i t' tj ht' htj
        cases ht'
        simp only [hfr] at hj
        cases hj
        simp [get_mkObj, baseFields, lookupLast]
      · cases hj

/-- Read through `get`: the copy agrees with the indexed thread on every member except `frames`
    and `threads_index`; `threads_index` is the index. -/
theorem crashing_thread_members (s : StateModel) (j : Json) (h : printJson s = .ok j)
    (i : Nat) (t : ThreadM) (f0 : FrameM) (rest : List FrameM)
    (hreq : s.requestingThread = some i) (hti : s.threads[i]? = some t) (hfr : t.frames = f0 :: rest) :
    ∃ ts tj c, j.get "threads" = some (.arr ts) ∧ ts[i]? = some tj ∧
      j.get "crashing_thread" = some c ∧
      c.get "threads_index" = some (.nat i) ∧
      ∀ k, k ≠ "threads_index" → k ≠ "frames" → c.get k = tj.get k := by
  obtain ⟨ts, kvs, fj0, fjs, h1, h2, _, h4⟩ := (crashing_thread_copy s j h).1 i t f0 rest hreq hti hfr
  refine ⟨ts, .obj kvs, _, h1, h2, h4, ?_, ?_⟩
  · simp [Json.get, getKV_insertKV]
  · intro k hk1 hk2
    simp [Json.get, getKV_insertKV, hk1, hk2]

/-! ## 2b. the redundancies, recomputed from the document alone

  `Consistent` (MdModel/Json.lean §8b) is a predicate on a JSON document: it recomputes
  `thread_count`, every `frame_count`, every `frame`, every `missing_symbols`, `num_records` and
  the `crashing_thread` copy from the rest of the document. The engine evaluates it on the REAL
  bytes of `print_json` (protocol field `R:`); this theorem says the model's report satisfies it
  for every state on which `print_json` returns. -/

/-- **consistent** — "Its redundant fields agree: thread_count and frame_count equal the array
    lengths, frame numbers are their positions, the crashing-thread copy is the indexed thread
    plus its registers" (plus `missing_symbols` ⇔ `function` is null, `num_records` = number of
    `records`, `threads_index` = `crash_info.crashing_thread`), as ONE decidable predicate of
    the report. No hypothesis on the state. -/
theorem consistent (s : StateModel) (j : Json) (h : printJson s = .ok j) : Consistent j = true := by
  obtain ⟨ms, ts, us, _, hts, _, hj⟩ := printJson_ok s j h
  obtain ⟨hlen, hth⟩ := omapM_ok _ _ _ hts
  have hthreads : j.get "threads" = some (.arr ts) := by
    rw [addCrashing_get s ts _ j hj "threads" (by decide)]; simp [baseFields, lookupLast]
  have hcount : j.get "thread_count" = some (.nat s.threads.length) := by
    rw [addCrashing_get s ts _ j hj "thread_count" (by decide)]; simp [baseFields, lookupLast]
  have hci : j.get "crash_info" = some (crashInfoJson s.sys.cpu.pw s) := by
    rw [addCrashing_get s ts _ j hj "crash_info" (by decide)]; simp [baseFields, lookupLast]
  have hmac : j.get "mac_crash_info" = some (optJ (fun rs : List MacRecord =>
      mkObj [("num_records", .nat rs.length), ("records", .arr (rs.map (macRecordJson s.sys.cpu.pw)))])
      s.macCrashInfo) := by
    rw [addCrashing_get s ts _ j hj "mac_crash_info" (by decide)]; simp [baseFields, lookupLast]
  have hall : ts.all threadConsistent = true := by
    rw [List.all_eq_true]
    intro tj htj
    obtain ⟨k, hk, hkx⟩ := List.getElem_of_mem htj
    have hk' : k < s.threads.length := by omega
    obtain ⟨tj', h1, h2⟩ := hth k s.threads[k] (by simp [hk'])
    have : ts[k]? = some tj := by simp [hk, hkx]
    rw [this] at h1; cases h1
    exact threadJson_consistent _ _ _ h2
  have hcrash : crashingConsistent j ts = true := by
    cases hreq : s.requestingThread with
    | none =>
      have := (crashing_thread_copy s j h).2 (Or.inl hreq)
      simp [crashingConsistent, this]
    | some i =>
      cases hti : s.threads[i]? with
      | none =>
        -- out of range: `print_json` panics, so there is no report
        simp only [addCrashing, hreq, hti] at hj
        cases hj
      | some t =>
        cases hfr : t.frames with
        | nil =>
          have := (crashing_thread_copy s j h).2 (Or.inr ⟨i, t, hreq, hti, hfr⟩)
          simp [crashingConsistent, this]
        | cons f0 rest =>
          obtain ⟨ts', kvs, fj0, fjs, e1, e2, e3, e4⟩ := (crashing_thread_copy s j h).1 i t f0 rest hreq hti hfr
          rw [hthreads] at e1
          cases e1
          have hidx : (crashInfoJson s.sys.cpu.pw s).get "crashing_thread" = some (.nat i) := by
            simp [crashInfoJson, get_mkObj, lookupLast, hreq, optNat, optJ]
          have hbind : ((j.get "crash_info").bind (Json.get "crashing_thread")) = some (.nat i) := by
            rw [hci]; exact hidx
          have hcopy := copyOf_crashingCopy kvs fj0 fjs (registersJson f0.ctx) i e3
          unfold crashingConsistent
          rw [e4, hbind]
          simp only [Json.get, getKV_insertKV, if_true, Json.nat, JNum.ofNat, e2] at hcopy ⊢
          rw [hcopy]
          simp [optBeq, Json.beq]
  have hmacc : macConsistent j = true := by
    simp only [macConsistent, hmac]
    cases s.macCrashInfo with
    | none => rfl
    | some rs =>
      simp only [optJ, mkObj, getKV_lits]
      simp [lookupLast]
  simp only [Consistent, hthreads, hcount, hall, hcrash, hmacc, Bool.and_true]
  exact isNatJ_of_eq _ _ _ rfl hlen.symm

/-! ## 2c. "enumerations": the strings the model can emit are exactly the listed ones

  `…Documented` are the lists of json-schema.md verbatim, `…Undocumented` the extra values of
  `FrameTrust::as_str` / `Cpu` Display (MdModel/Json.lean §8). Both directions: nothing outside
  the lists is ever emitted, and no listed string is dead. -/

/-- **enumerations_exact** — `trust`, `cpu_arch`, `crash_inconsistencies[]`,
    `memory_accesses[].access_type`, `adjusted_address.kind` and (for known platforms)
    `system_info.os` range over exactly the listed strings. -/
theorem enumerations_exact :
    (∀ t : Trust, t.name ∈ trustDocumented ++ trustUndocumented) ∧
    (∀ v ∈ trustDocumented ++ trustUndocumented, ∃ t : Trust, t.name = v) ∧
    (∀ c : Cpu, c.name ∈ cpuDocumented ++ cpuUndocumented) ∧
    (∀ v ∈ cpuDocumented ++ cpuUndocumented, ∃ c : Cpu, c.name = v) ∧
    (∀ i : Inconsistency, i.name ∈ inconsistencyDocumented) ∧
    (∀ v ∈ inconsistencyDocumented, ∃ i : Inconsistency, i.name = v) ∧
    (∀ a : AccessType, a ≠ .underivable → a.lower ∈ accessTypeDocumented) ∧
    (∀ v ∈ accessTypeDocumented, ∃ a : AccessType, a ≠ .underivable ∧ a.lower = v) ∧
    (∀ o : Os, (∀ n, o ≠ .unknown n) → o.longName ∈ osDocumented) ∧
    (∀ v ∈ osDocumented, ∃ o : Os, o.longName = v) ∧
    (∀ pw (a : Adjusted), ∃ k, (adjustedJson pw a).get "kind" = some (.str k) ∧ k ∈ adjustedKindDocumented) := by
  refine ⟨?_, ?_, ?_, ?_, ?_, ?_, ?_, ?_, ?_, ?_, ?_⟩
  · intro t; cases t <;> simp [Trust.name, trustDocumented, trustUndocumented]
  · intro v hv
    simp only [trustDocumented, trustUndocumented, List.cons_append, List.nil_append, List.mem_cons,
      List.not_mem_nil, or_false] at hv
    rcases hv with rfl | rfl | rfl | rfl | rfl | rfl | rfl
    all_goals first
      | exact ⟨.context, rfl⟩
      | exact ⟨.cfi, rfl⟩
      | exact ⟨.framePointer, rfl⟩
      | exact ⟨.scan, rfl⟩
      | exact ⟨.cfiScan, rfl⟩
      | exact ⟨.preWalked, rfl⟩
      | exact ⟨.none, rfl⟩
  · intro c; cases c <;> simp [Cpu.name, cpuDocumented, cpuUndocumented]
  · intro v hv
    simp only [cpuDocumented, cpuUndocumented, List.cons_append, List.nil_append, List.mem_cons,
      List.not_mem_nil, or_false] at hv
    rcases hv with rfl | rfl | rfl | rfl | rfl | rfl | rfl | rfl | rfl | rfl
    all_goals first
      | exact ⟨.x86, rfl⟩
      | exact ⟨.amd64, rfl⟩
      | exact ⟨.ppc, rfl⟩
      | exact ⟨.ppc64, rfl⟩
      | exact ⟨.sparc, rfl⟩
      | exact ⟨.arm, rfl⟩
      | exact ⟨.arm64, rfl⟩
      | exact ⟨.unknown, rfl⟩
      | exact ⟨.mips, rfl⟩
      | exact ⟨.mips64, rfl⟩
  · intro i; cases i <;> simp [Inconsistency.name, inconsistencyDocumented]
  · intro v hv
    simp only [inconsistencyDocumented, List.mem_cons, List.not_mem_nil, or_false] at hv
    rcases hv with rfl | rfl | rfl | rfl | rfl
    all_goals first
      | exact ⟨.intDivByZeroNotPossible, rfl⟩
      | exact ⟨.privInstructionCrashWithoutPrivInstruction, rfl⟩
      | exact ⟨.nonCanonicalAddressFalselyReported, rfl⟩
      | exact ⟨.accessViolationWhenAccessAllowed, rfl⟩
      | exact ⟨.crashingAccessNotFoundInMemoryAccesses, rfl⟩
  · intro a ha; cases a <;> simp_all [AccessType.lower, accessTypeDocumented]
  · intro v hv
    simp only [accessTypeDocumented, List.mem_cons, List.not_mem_nil, or_false] at hv
    rcases hv with rfl | rfl | rfl
    all_goals first
      | exact ⟨.read, by decide, rfl⟩
      | exact ⟨.write, by decide, rfl⟩
      | exact ⟨.readWrite, by decide, rfl⟩
  · intro o ho
    cases o with
    | unknown n => exact absurd rfl (ho n)
    | _ => simp [Os.longName, osDocumented]
  · intro v hv
    simp only [osDocumented, List.mem_cons, List.not_mem_nil, or_false] at hv
    rcases hv with rfl | rfl | rfl | rfl | rfl | rfl | rfl | rfl
    all_goals first
      | exact ⟨.windows, rfl⟩
      | exact ⟨.macos, rfl⟩
      | exact ⟨.ios, rfl⟩
      | exact ⟨.linux, rfl⟩
      | exact ⟨.solaris, rfl⟩
      | exact ⟨.android, rfl⟩
      | exact ⟨.ps3, rfl⟩
      | exact ⟨.nacl, rfl⟩
  · intro pw a
    cases a with
    | nonCanonical v => exact ⟨"non-canonical", by simp [adjustedJson, get_mkObj, lookupLast], by simp [adjustedKindDocumented]⟩
    | nullOffset v => exact ⟨"null-pointer", by simp [adjustedJson, get_mkObj, lookupLast], by simp [adjustedKindDocumented]⟩

/-- **memory_accesses_shape** — `crash_info.memory_accesses[k]` of every state (no hypothesis):
    `address` is the access address as a platform-width hex string, `size` the size or `null`,
    `is_likely_guard_page` is present only as `true`, and `access_type` is absent exactly for an
    underivable access and otherwise one of "read" | "write" | "readwrite". -/
theorem memory_accesses_shape (pw : PW) (a : MemAccess) :
    (memAccessJson pw a).get "address" = some (.str (hexAddr pw a.address)) ∧
    (memAccessJson pw a).get "size" = some (optNat a.size) ∧
    (memAccessJson pw a).get "is_likely_guard_page" = (if a.guard then some (.bool true) else none) ∧
    (memAccessJson pw a).get "access_type" =
      (match a.ty with
       | .read => some (.str "read") | .write => some (.str "write")
       | .readWrite => some (.str "readwrite") | .underivable => none) := by
  unfold memAccessJson
  cases hg : a.guard <;> cases ht : a.ty <;>
    simp [get_mkObj, lookupLast, AccessType.lower]

/-! ## 3. well-formedness of a state

  `WF` is what the producers of a `ProcessState` establish (each clause is another property's
  conclusion, so C15 assumes exactly what the pipeline proves elsewhere):
  * `req`      — `requesting_thread` is a position in `threads` (processor.rs: it is taken from
                 `threads.len()` while the vector is filled; C14 `requesting_thread_rule`);
  * `modEnd`/`unlEnd` — `base + size` fits `u64` (module list drops, unloaded list rejects such
                 entries: minidump.rs `from_modules` / C08 `mkRange`);
  * `frameMod` — a frame's module covers its instruction, so `base ≤ instruction`
                 (`module_at_address` lookup, C08 `get_sound`);
  * `frameFn`  — `function_base ≤ instruction` (C11 "bases ≤ instruction").
  Outside `WF` the real code panics on the unchecked `u64` subtraction/addition (overflow checks
  on) or on the `threads[requesting_thread]` index, and so does the model (engine `json`
  exercises these states too). -/
structure WF (s : StateModel) : Prop where
  req : ∀ i, s.requestingThread = some i → i < s.threads.length
  modEnd : ∀ m ∈ s.modules, m.base + m.size ≤ U64MAX
  unlEnd : ∀ m ∈ s.unloaded, m.base + m.size ≤ U64MAX
  frameMod : ∀ t ∈ s.threads, ∀ f ∈ t.frames, ∀ nm base, f.module = some (nm, base) → base ≤ f.instruction
  frameFn : ∀ t ∈ s.threads, ∀ f ∈ t.frames, ∀ fb, f.functionBase = some fb → fb ≤ f.instruction

/-! ## 4. "module and function offsets equal address minus base" -/

/-- one frame: no underflow, and the two offsets are `instruction - base` -/
theorem frameJson_offsets (pw : PW) (i : Nat) (f : FrameM)
    (hm : ∀ nm base, f.module = some (nm, base) → base ≤ f.instruction)
    (hf : ∀ fb, f.functionBase = some fb → fb ≤ f.instruction) :
    ∃ j, frameJson pw i f = .ok j ∧
      j.get "offset" = some (.str (hexAddr pw f.instruction)) ∧
      j.get "module_offset" =
        some (match f.module with
              | none => .null
              | some (_, base) => .str (hexAddr pw (f.instruction - base))) ∧
      j.get "function_offset" =
        some (match f.functionBase with
              | none => .null
              | some fb => .str (hexAddr pw (f.instruction - fb))) := by
  cases hmod : f.module with
  | none =>
    cases hfb : f.functionBase with
    | none =>
      refine ⟨_, by simp only [frameJson, obind, hmod, hfb]; rfl, ?_, ?_, ?_⟩ <;>
        simp [get_mkObj, lookupLast]
    | some fb =>
      have := hf fb hfb
      have hlt : ¬ f.instruction < fb := by omega
      refine ⟨_, by simp only [frameJson, obind, hmod, hfb, checkedSub, hlt, if_false]; rfl, ?_, ?_, ?_⟩ <;>
        simp [get_mkObj, lookupLast]
  | some m =>
    obtain ⟨nm, base⟩ := m
    have := hm nm base hmod
    have hlt : ¬ f.instruction < base := by omega
    cases hfb : f.functionBase with
    | none =>
      refine ⟨_, by simp only [frameJson, obind, hmod, hfb, checkedSub, hlt, if_false]; rfl, ?_, ?_, ?_⟩ <;>
        simp [get_mkObj, lookupLast]
    | some fb =>
      have := hf fb hfb
      have hlt2 : ¬ f.instruction < fb := by omega
      refine ⟨_, by simp only [frameJson, obind, hmod, hfb, checkedSub, hlt, hlt2, if_false]; rfl, ?_, ?_, ?_⟩ <;>
        simp [get_mkObj, lookupLast]

theorem threadJson_total (pw : PW) (t : ThreadM)
    (hm : ∀ f ∈ t.frames, ∀ nm base, f.module = some (nm, base) → base ≤ f.instruction)
    (hf : ∀ f ∈ t.frames, ∀ fb, f.functionBase = some fb → fb ≤ f.instruction) :
    ∃ tj, threadJson pw t = .ok tj := by
  obtain ⟨fs, hfs⟩ := framesJson_total pw t.frames
    (fun f hfm i => by
      obtain ⟨j, hj, _⟩ := frameJson_offsets pw i f (hm f hfm) (hf f hfm)
      exact ⟨j, hj⟩) 0
  exact ⟨_, by simp only [threadJson, obind, hfs]; rfl⟩

theorem moduleJson_total (pw : PW) (ci : List (String × String)) (ss : List (String × Stats))
    (m : ModuleM) (h : m.base + m.size ≤ U64MAX) : ∃ j, moduleJson pw ci ss m = .ok j := by
  have : ¬ m.base + m.size > U64MAX := by omega
  exact ⟨_, by simp only [moduleJson, obind, checkedAdd, this, if_false]; rfl⟩

theorem unloadedJson_total (pw : PW) (ci : List (String × String))
    (m : UnloadedM) (h : m.base + m.size ≤ U64MAX) : ∃ j, unloadedJson pw ci m = .ok j := by
  have : ¬ m.base + m.size > U64MAX := by omega
  exact ⟨_, by simp only [unloadedJson, obind, checkedAdd, this, if_false]; rfl⟩

theorem crashingCopy_threadJson (pw : PW) (t : ThreadM) (tj : Json) (f0 : FrameM) (rest : List FrameM)
    (h : threadJson pw t = .ok tj) (hfr : t.frames = f0 :: rest) (regs : Json) (i : Nat) :
    ∃ c, crashingCopy tj regs i = some c := by
  simp only [threadJson, obind] at h
  split at h
  · rename_i fs hfs
    cases h
    obtain ⟨hl, hk⟩ := framesJson_ok _ _ _ _ hfs
    rw [hfr] at hl hk
    obtain ⟨fj, hfj, hok⟩ := hk 0 f0 (by simp)
    cases fs with
    | nil => simp at hl
    | cons a fs' =>
      simp at hfj
      subst hfj
      simp only [frameJson, obind] at hok
      split at hok
      · split at hok
        · cases hok
          simp only [crashingCopy, mkObj, getKV_foldl]
          simp [lookupLast]
        · cases hok
      · cases hok
  · cases h

/-- **no panic under `WF`**: the unchecked `-`/`+` and the index in `print_json` cannot fire. -/
theorem printJson_total (s : StateModel) (wf : WF s) : ∃ j, printJson s = .ok j := by
  obtain ⟨ms, hms⟩ := omapM_total (moduleJson s.sys.cpu.pw s.certInfo s.symbolStats) s.modules
    (fun m hm => moduleJson_total _ _ _ m (wf.modEnd m hm))
  obtain ⟨ts, hts⟩ := omapM_total (threadJson s.sys.cpu.pw) s.threads
    (fun t ht => threadJson_total _ t (wf.frameMod t ht) (wf.frameFn t ht))
  obtain ⟨us, hus⟩ := omapM_total (unloadedJson s.sys.cpu.pw s.certInfo) s.unloaded
    (fun m hm => unloadedJson_total _ _ m (wf.unlEnd m hm))
  obtain ⟨hlen, hth⟩ := omapM_ok _ _ _ hts
  simp only [printJson, obind, hms, hts, hus, addCrashing]
  cases hreq : s.requestingThread with
  | none => exact ⟨_, rfl⟩
  | some i =>
    have hi := wf.req i hreq
    have h1 : s.threads[i]? = some s.threads[i] := by simp [hi]
    obtain ⟨tj, htj, htok⟩ := hth i _ h1
    simp only [h1, htj]
    cases hfr : s.threads[i].frames with
    | nil => exact ⟨_, rfl⟩
    | cons f0 rest =>
      obtain ⟨c, hc⟩ := crashingCopy_threadJson _ _ tj f0 rest htok hfr (registersJson f0.ctx) i
      simp only [hc]
      exact ⟨_, rfl⟩

/-- **offsets_agree** — under `WF` the report exists and, for every frame of every thread, the
    frame's entry carries `offset = instruction`, `module_offset = instruction − module base`
    (`null` without a module) and `function_offset = instruction − function base` (`null`
    without a function), with `base ≤ instruction` so that `−` is the true difference. -/
theorem offsets_agree (s : StateModel) (wf : WF s) :
    ∃ j ts, printJson s = .ok j ∧ j.get "threads" = some (.arr ts) ∧
      ∀ (i : Nat) (t : ThreadM), s.threads[i]? = some t →
        ∃ tj fs, ts[i]? = some tj ∧ tj.get "frames" = some (.arr fs) ∧
          ∀ (k : Nat) (f : FrameM), t.frames[k]? = some f →
            ∃ fj, fs[k]? = some fj ∧
              fj.get "offset" = some (.str (hexAddr s.sys.cpu.pw f.instruction)) ∧
              (∀ nm base, f.module = some (nm, base) → base ≤ f.instruction ∧
                fj.get "module_offset" = some (.str (hexAddr s.sys.cpu.pw (f.instruction - base)))) ∧
              (f.module = none → fj.get "module_offset" = some .null) ∧
              (∀ fb, f.functionBase = some fb → fb ≤ f.instruction ∧
                fj.get "function_offset" = some (.str (hexAddr s.sys.cpu.pw (f.instruction - fb)))) ∧
              (f.functionBase = none → fj.get "function_offset" = some .null) := by
  obtain ⟨j, hj⟩ := printJson_total s wf
  obtain ⟨ms, ts, us, _, hts, _, hadd⟩ := printJson_ok s j hj
  obtain ⟨hlen, hth⟩ := omapM_ok _ _ _ hts
  refine ⟨j, ts, hj, ?_, ?_⟩
  · rw [addCrashing_get s ts _ j hadd "threads" (by decide)]; simp [baseFields, lookupLast]
  · intro i t hti
    obtain ⟨tj, htj, htok⟩ := hth i t hti
    obtain ⟨fs, hfs, _, hframes, _⟩ := threadJson_shape _ t tj htok
    obtain ⟨hfl, hfk⟩ := framesJson_ok _ _ _ _ hfs
    refine ⟨tj, fs, htj, hframes, ?_⟩
    intro k f hk
    obtain ⟨fj, hfj, hok⟩ := hfk k f hk
    have htm : t ∈ s.threads := List.mem_of_getElem? hti
    have hfm : f ∈ t.frames := List.mem_of_getElem? hk
    obtain ⟨fj', hok', ho, hmo, hfo⟩ :=
      frameJson_offsets s.sys.cpu.pw (0 + k) f (wf.frameMod t htm f hfm) (wf.frameFn t htm f hfm)
    rw [hok] at hok'
    cases hok'
    refine ⟨fj, hfj, ho, ?_, ?_, ?_, ?_⟩
    · intro nm base hmod
      exact ⟨wf.frameMod t htm f hfm nm base hmod, by rw [hmo, hmod]⟩
    · intro hmod; rw [hmo, hmod]
    · intro fb hfb
      exact ⟨wf.frameFn t htm f hfm fb hfb, by rw [hfo, hfb]⟩
    · intro hfb; rw [hfo, hfb]

/-! ## 5. "the modules array mirrors the module list" -/

theorem moduleJson_members (pw : PW) (ci : List (String × String)) (ss : List (String × Stats))
    (m : ModuleM) (j : Json) (h : moduleJson pw ci ss m = .ok j) :
    m.base + m.size ≤ U64MAX ∧
    j.get "base_addr" = some (.str (hexAddr pw m.base)) ∧
    j.get "end_addr" = some (.str (hexAddr pw (m.base + m.size))) ∧
    j.get "filename" = some (.str (basename m.name)) ∧
    j.get "code_id" = some (.str m.codeId) := by
  by_cases hgt : m.base + m.size > U64MAX
  · simp only [moduleJson, obind, checkedAdd, hgt, if_true] at h
    cases h
  · simp only [moduleJson, obind, checkedAdd, hgt, if_false] at h
    cases h
    refine ⟨by omega, ?_, ?_, ?_, ?_⟩ <;> simp [get_mkObj, lookupLast]

theorem unloadedJson_members (pw : PW) (ci : List (String × String))
    (m : UnloadedM) (j : Json) (h : unloadedJson pw ci m = .ok j) :
    m.base + m.size ≤ U64MAX ∧
    j.get "base_addr" = some (.str (hexAddr pw m.base)) ∧
    j.get "end_addr" = some (.str (hexAddr pw (m.base + m.size))) ∧
    j.get "filename" = some (.str m.name) := by
  by_cases hgt : m.base + m.size > U64MAX
  · simp only [unloadedJson, obind, checkedAdd, hgt, if_true] at h
    cases h
  · simp only [unloadedJson, obind, checkedAdd, hgt, if_false] at h
    cases h
    refine ⟨by omega, ?_, ?_, ?_⟩ <;> simp [get_mkObj, lookupLast]

/-- **modules_mirror** — `modules` (and `unloaded_modules`) has exactly one entry per module of
    the list, in the list's order; the entry at position `i` carries that module's base address,
    end address (`base + size`, inside `u64`), file name (`basename` of the path for loaded
    modules, the raw name for unloaded ones) and code id; `main_module` is 0. -/
theorem modules_mirror (s : StateModel) (j : Json) (h : printJson s = .ok j) :
    ∃ ms us, j.get "modules" = some (.arr ms) ∧ ms.length = s.modules.length ∧
      j.get "unloaded_modules" = some (.arr us) ∧ us.length = s.unloaded.length ∧
      j.get "main_module" = some (.nat 0) ∧
      (∀ (i : Nat) (m : ModuleM), s.modules[i]? = some m → ∃ mj, ms[i]? = some mj ∧
        mj.get "base_addr" = some (.str (hexAddr s.sys.cpu.pw m.base)) ∧
        mj.get "end_addr" = some (.str (hexAddr s.sys.cpu.pw (m.base + m.size))) ∧
        m.base + m.size ≤ U64MAX ∧
        mj.get "filename" = some (.str (basename m.name)) ∧
        mj.get "code_id" = some (.str m.codeId)) ∧
      (∀ (i : Nat) (m : UnloadedM), s.unloaded[i]? = some m → ∃ mj, us[i]? = some mj ∧
        mj.get "base_addr" = some (.str (hexAddr s.sys.cpu.pw m.base)) ∧
        mj.get "end_addr" = some (.str (hexAddr s.sys.cpu.pw (m.base + m.size))) ∧
        m.base + m.size ≤ U64MAX ∧
        mj.get "filename" = some (.str m.name)) := by
  obtain ⟨ms, ts, us, hms, _, hus, hadd⟩ := printJson_ok s j h
  obtain ⟨hml, hmk⟩ := omapM_ok _ _ _ hms
  obtain ⟨hul, huk⟩ := omapM_ok _ _ _ hus
  refine ⟨ms, us, ?_, hml, ?_, hul, ?_, ?_, ?_⟩
  · rw [addCrashing_get s ts _ j hadd "modules" (by decide)]; simp [baseFields, lookupLast]
  · rw [addCrashing_get s ts _ j hadd "unloaded_modules" (by decide)]; simp [baseFields, lookupLast]
  · rw [addCrashing_get s ts _ j hadd "main_module" (by decide)]; simp [baseFields, lookupLast]
  · intro i m hi
    obtain ⟨mj, hmj, hok⟩ := hmk i m hi
    obtain ⟨a, b, c, d, e⟩ := moduleJson_members _ _ _ m mj hok
    exact ⟨mj, hmj, b, c, a, d, e⟩
  · intro i m hi
    obtain ⟨mj, hmj, hok⟩ := huk i m hi
    obtain ⟨a, b, c, d⟩ := unloadedJson_members _ _ m mj hok
    exact ⟨mj, hmj, b, c, a, d⟩

/-! ## 6. "hex-string addresses padded to the crashing platform's pointer width" -/

theorem hexDigits_hex (v : Nat) : (hexDigits v).all isHexLower = true :=
  digitsB_all 16 isHexLower (by decide) (fun d hd => (digitChar_hex d hd).1) v

theorem hexValue_hexDigits (v : Nat) : hexValue (hexDigits v) = v :=
  valB_digitsB 16 hexVal (by decide) (fun d hd => (digitChar_hex d hd).2.1) v

theorem hexPad_toList (w v : Nat) :
    (hexPad w v).toList = '0' :: 'x' :: (List.replicate (w - (hexDigits v).length) '0' ++ hexDigits v) := by
  simp [hexPad, padLeft]

/-- **hex_width** — an address is `0x` followed by lower-case hex digits only: at least the
    platform's digit count (8 on 32-bit CPUs, 16 on 64-bit and unknown CPUs), and exactly that
    many whenever the value fits the platform's pointers (always, for a `u64` on a 64-bit or
    unknown platform: 18 characters). -/
theorem hex_width (pw : PW) (v : Nat) :
    ∃ ds, (hexAddr pw v).toList = '0' :: 'x' :: ds ∧ ds.all isHexLower = true ∧
      pw.digits ≤ ds.length ∧ (v < 16 ^ pw.digits → ds.length = pw.digits) := by
  refine ⟨_, hexPad_toList _ _, ?_, ?_, ?_⟩
  · simp only [List.all_append, hexDigits_hex, Bool.and_true]
    simp [isHexLower, isDigit]
  · simp only [List.length_append, List.length_replicate]; omega
  · intro hv
    have h1 : 1 ≤ pw.digits := by cases pw <;> decide
    have := digitsB_length_le 16 (by decide) v pw.digits h1 hv
    simp only [List.length_append, List.length_replicate]
    unfold hexDigits
    omega

theorem hex_width_u64 (pw : PW) (v : Nat) (hv : v ≤ U64MAX) (h : pw ≠ .b32) :
    (hexAddr pw v).toList.length = 18 := by
  obtain ⟨ds, h1, _, _, h4⟩ := hex_width pw v
  have hd : pw.digits = 16 := by cases pw <;> simp_all [PW.digits]
  rw [h1, List.length_cons, List.length_cons, h4 (by rw [hd]; simp [U64MAX] at hv; omega), hd]

theorem hex_width_u32 (v : Nat) (hv : v ≤ U32MAX) : (hexAddr .b32 v).toList.length = 10 := by
  obtain ⟨ds, h1, _, _, h4⟩ := hex_width .b32 v
  rw [h1, List.length_cons, List.length_cons, h4 (by simp [PW.digits, U32MAX] at *; omega)]
  rfl

/-- **hex_roundtrip** — reading the digits after `0x` back gives the address. -/
theorem hex_roundtrip (pw : PW) (v : Nat) : parseHexStr (hexAddr pw v) = some v := by
  obtain ⟨ds, h1, h2, h3, _⟩ := hex_width pw v
  have hds : ds = List.replicate (pw.digits - (hexDigits v).length) '0' ++ hexDigits v := by
    have := hexPad_toList pw.digits v
    unfold hexAddr at h1
    rw [h1] at this
    simpa using this
  have hne : ds ≠ [] := by
    rw [hds]; simp [digitsB_ne_nil, hexDigits]
  simp only [parseHexStr, h1, hne, ne_eq, not_false_eq_true, h2, and_self, if_true]
  rw [hds]
  unfold hexValue
  rw [valB_zeros 16 hexVal (by decide)]
  exact congrArg some (hexValue_hexDigits v)

/-- the same shape holds for register values (`format_register`, width = register size) and
    the microcode version (`{:#x}`, width 0) -/
theorem hexPad_roundtrip (w v : Nat) : parseHexStr (hexPad w v) = some v := by
  have hne : List.replicate (w - (hexDigits v).length) '0' ++ hexDigits v ≠ [] := by
    simp [digitsB_ne_nil, hexDigits]
  have hall : (List.replicate (w - (hexDigits v).length) '0' ++ hexDigits v).all isHexLower = true := by
    simp only [List.all_append, hexDigits_hex, Bool.and_true]
    simp [isHexLower, isDigit]
  simp only [parseHexStr, hexPad_toList, hne, ne_eq, not_false_eq_true, hall, and_self, if_true]
  unfold hexValue
  rw [valB_zeros 16 hexVal (by decide)]
  exact congrArg some (hexValue_hexDigits v)

/-! ## 7. "the JSON report is valid UTF-8 JSON" -/

/-- **render_parses** — for EVERY value (strings over all Unicode scalar values incl. quotes,
    backslashes, controls, non-BMP; every number token; any nesting), the compact rendering is
    accepted by the strict RFC 8259 parser and denotes the value it was rendered from. -/
theorem render_parses (j : Json) : parse (render j) = some j := parse_render j

/-- the bytes written are valid UTF-8 (they are the UTF-8 encoding of a character sequence)
    and parse back to the value -/
theorem render_parses_bytes (j : Json) :
    (renderBytes j).IsValidUTF8 ∧ parseBytes (renderBytes j) = some j := by
  refine ⟨(String.ofList (render j)).isValidUTF8, ?_⟩
  have : String.fromUTF8? (String.ofList (render j)).toUTF8 = some (String.ofList (render j)) := by
    unfold String.fromUTF8?
    split
    · rfl
    · rename_i h; exact absurd (String.ofList (render j)).isValidUTF8 h
  simp only [parseBytes, renderBytes, this, String.toList_ofList]
  exact parse_render j

/-- in particular the report of every state on which `print_json` returns -/
theorem report_valid_json (s : StateModel) (j : Json) (_h : printJson s = .ok j) :
    (renderBytes j).IsValidUTF8 ∧ parseBytes (renderBytes j) = some j := render_parses_bytes j

/-! ## 8. "matching the documented schema: field names, types, enumerations, hex strings"

  `Conforms` (MdModel/Json.lean §8) is the transcription of json-schema.md. Besides `WF` the
  theorem needs
  * `Typed s`      — every number is inside the width of the Rust field it comes from (`u64`
                     addresses, `u32` ids/lines/counts, `u8` sizes …) and the `BTreeSet`s of
                     unloaded-module offsets are non-empty and ascending; these are facts of the
                     Rust types / of the processor, not restrictions on the dump;
  * `Documented s` — (a) the OS id is a known one: for `Os::Unknown` the code prints `0x0x…`,
                     which is not the documented `<hexstring>` (KNOWN FINDING, see
                     `os_unknown_not_hexstring` and notes/C15.md); (b) `soft_errors`, when
                     present, is an array of objects (or nulls): `print_json` passes the public
                     field through unchanged, and it is the PROCESSOR that establishes this
                     (processor.rs keeps the parsed stream only if it is an array of objects,
                     /repo 7c77347; engine `json` checks that on processed synthetic dumps).
                     `handles[].handle` is a `<u64>` in the document since /repo b67afac and is
                     covered by `Typed`. -/

structure Typed (s : StateModel) : Prop where
  pid : ∀ n, s.pid = some n → n ≤ U32MAX
  nthreads : s.threads.length ≤ U32MAX
  cpuCount : s.sys.cpuCount ≤ U32MAX
  microcode : ∀ n, s.sys.microcode = some n → n ≤ U64MAX
  mapCount : ∀ n, s.memoryMapCount = some n → n ≤ U32MAX
  threads : ∀ t ∈ s.threads, ThreadTyped t
  regs : ∀ t ∈ s.threads, ∀ f ∈ t.frames, RegsTyped f.ctx
  exc : ∀ e, s.exc = some e → ExcTyped e
  mac : ∀ rs, s.macCrashInfo = some rs → rs.length ≤ U32MAX ∧ ∀ r ∈ rs,
    (∀ n, r.thread = some n → n ≤ U64MAX) ∧ (∀ n, r.dialogMode = some n → n ≤ U64MAX) ∧
    (∀ n, r.abortCause = some n → n ≤ U64MAX)
  handles : ∀ hs, s.handles = some hs → ∀ h ∈ hs, h.handle ≤ U64MAX

structure Documented (s : StateModel) : Prop where
  os : ∀ v, s.sys.os ≠ .unknown v
  soft : ∀ j, s.softErrors = some j → ∃ xs, j = .arr xs ∧ ∀ x ∈ xs, x = .null ∨ ∃ kvs, x = .obj kvs

theorem widthOf_report (s : StateModel) (j : Json)
    (hsys : j.get "system_info" = some (systemInfoJson s.sys)) : widthOf j = s.sys.cpu.pw.digits := by
  simp only [widthOf, hsys, Option.bind_some, systemInfoJson, get_mkObj]
  cases s.sys.cpu <;> simp [lookupLast, Cpu.name, Cpu.pw, PW.digits]

/-- all members of the `json!` literal have their documented types -/
theorem check_base (s : StateModel) (ms ts us : List Json) (extra : List (String × Json))
    (wf : WF s) (ty : Typed s) (doc : Documented s)
    (hms : ∀ x ∈ ms, ∀ q, check s.sys.cpu.pw.digits (.obj moduleFields) x q = none)
    (hts : ∀ x ∈ ts, ∀ q, check s.sys.cpu.pw.digits (.obj threadFields) x q = none)
    (hus : ∀ x ∈ us, ∀ q, check s.sys.cpu.pw.digits (.obj unloadedFields) x q = none)
    (hextra : ∀ q, check s.sys.cpu.pw.digits (.obj (("threads_index", .u32) :: threadFields))
      (match lookupLast "crashing_thread" extra with | some c => c | none => .null) q = none)
    (hextra' : ∀ k, k ≠ "crashing_thread" → lookupLast k extra = none) :
    check s.sys.cpu.pw.digits schema (mkObj (baseFields s.sys.cpu.pw s ms ts us ++ extra)) "$" = none := by
  have hreq : ∀ n, s.requestingThread = some n → n ≤ U32MAX := fun n hn => by
    have := wf.req n hn; have := ty.nthreads; omega
  have hlsb : ∀ q, check s.sys.cpu.pw.digits (.obj lsbFields) (optJ (fun l : Lsb => mkObj [("id", .str l.id),
      ("release", .str l.release), ("codename", .str l.codename), ("description", .str l.description)]) s.lsb) q
      = none := by
    intro q; cases s.lsb with
    | none => exact check_null _ _ _
    | some l => exact check_lsb _ l q
  have hsoft : ∀ q, check s.sys.cpu.pw.digits (.arr (.obj [])) (optJ id s.softErrors) q = none := by
    intro q
    cases hs : s.softErrors with
    | none => exact check_null _ _ _
    | some j =>
      obtain ⟨xs, rfl, hxs⟩ := doc.soft j hs
      apply check_arr
      intro x hx q'
      rcases hxs x hx with h | ⟨kvs, h⟩ <;> subst h <;> simp [check, checkFields]
  have hmac : ∀ q, check s.sys.cpu.pw.digits (.obj macFields)
      (optJ (fun rs : List MacRecord => mkObj [("num_records", .nat rs.length),
        ("records", .arr (rs.map (macRecordJson s.sys.cpu.pw)))]) s.macCrashInfo) q = none := by
    intro q
    cases hm : s.macCrashInfo with
    | none => exact check_null _ _ _
    | some rs =>
      obtain ⟨hn, hr⟩ := ty.mac rs hm
      have hrec := fun q' => check_arr s.sys.cpu.pw.digits (.obj macRecordFields)
          (rs.map (macRecordJson s.sys.cpu.pw)) q'
        (by
          intro x hx q''
          obtain ⟨r, hrm, rfl⟩ := List.mem_map.mp hx
          exact check_macRecord _ r q'' (hr r hrm).1 (hr r hrm).2.1 (hr r hrm).2.2)
      simp [macFields, optJ_some, checkFields_mkObj, checkFields, getKV_insertKV, getKV, check_u32 _ _ _ hn, hrec]
  have hboot : ∀ q, check s.sys.cpu.pw.digits .str (optJ optStr s.macBootArgs) q = none := by
    intro q; cases s.macBootArgs with
    | none => exact check_null _ _ _
    | some o => exact check_optStr _ o q
  have hhandles : ∀ q, check s.sys.cpu.pw.digits (.arr (.obj handleFields))
      (optJ (fun hs : List HandleM => .arr (hs.map handleJson)) s.handles) q = none := by
    intro q
    cases hh : s.handles with
    | none => exact check_null _ _ _
    | some hs =>
      apply check_arr
      intro x hx q'
      obtain ⟨h, hm, rfl⟩ := List.mem_map.mp hx
      exact check_handleJson _ h (ty.handles hs hh h hm) q'
  have hsys := fun q => check_systemInfo s.sys.cpu.pw.digits s.sys doc.os ty.cpuCount ty.microcode q
  have hci := fun q => check_crashInfo s.sys.cpu.pw s q ty.exc hreq
  have hmods := fun q => check_arr _ _ ms q hms
  have hthreads := fun q => check_arr _ _ ts q hts
  have hunl := fun q => check_arr _ _ us q hus
  have hct : lookupLast "crashing_thread" (baseFields s.sys.cpu.pw s ms ts us ++ extra) =
      lookupLast "crashing_thread" extra := by
    rw [lookupLast_append]; cases lookupLast "crashing_thread" extra <;> simp [baseFields, lookupLast]
  unfold schema
  rw [checkFields_mkObj]
  simp only [checkFields, getKV_lits, lookupLast_append, hct]
  simp (config := {decide := true}) only [hextra' _]
  simp [baseFields, lookupLast, check_optNat_u32 _ _ _ ty.pid, check_optNat_u32 _ _ _ ty.mapCount,
    check_u32 _ _ _ ty.nthreads, check_u32 _ 0 _ (by decide), hlsb, hsoft, hmac, hboot, hhandles, hsys, hci,
    hmods, hthreads, hunl]
  cases hl : lookupLast "crashing_thread" extra with
  | none => rfl
  | some c =>
    have := hextra "$.crashing_thread"
    simp only [hl] at this
    simp [this]

theorem conforms_of_check (s : StateModel) (lits : List (String × Json))
    (hsys : (mkObj lits).get "system_info" = some (systemInfoJson s.sys))
    (h : check s.sys.cpu.pw.digits schema (mkObj lits) "$" = none) : Conforms (mkObj lits) = true := by
  have hw := widthOf_report s (mkObj lits) hsys
  simp only [Conforms, conformsAt]
  simp only [mkObj] at hw h ⊢
  rw [hw, h]
  rfl

/-- **conforms** — for every well-formed, well-typed state outside the three documented
    departures, `print_json` returns and its value satisfies the schema predicate: every
    documented member has its documented JSON type (or is `null`), enumerations hold, every
    address is a `0x` hex string of at least the platform's pointer width, `offsets` arrays are
    non-empty and ascending, `registers` maps names to hex strings. -/
theorem conforms (s : StateModel) (wf : WF s) (ty : Typed s) (doc : Documented s) :
    ∃ j, printJson s = .ok j ∧ Conforms j = true := by
  obtain ⟨j, hj⟩ := printJson_total s wf
  refine ⟨j, hj, ?_⟩
  obtain ⟨ms, ts, us, hms, hts, hus, hadd⟩ := printJson_ok s j hj
  obtain ⟨_, hmk⟩ := omapM_ok _ _ _ hms
  obtain ⟨htl, htk⟩ := omapM_ok _ _ _ hts
  obtain ⟨_, huk⟩ := omapM_ok _ _ _ hus
  have mem_idx : ∀ {α β : Type} (f : α → Outcome β) (xs : List α) (ys : List β),
      omapM f xs = .ok ys → ∀ y ∈ ys, ∃ x ∈ xs, f x = .ok y := by
    intro α β f xs ys h y hy
    obtain ⟨hl, hk⟩ := omapM_ok f xs ys h
    obtain ⟨k, hklt, hky⟩ := List.getElem_of_mem hy
    have hk' : k < xs.length := by omega
    obtain ⟨y', h1, h2⟩ := hk k xs[k] (by simp [hk'])
    have : ys[k]? = some y := by simp [hklt, hky]
    rw [this] at h1; cases h1
    exact ⟨xs[k], List.getElem_mem hk', h2⟩
  have hms' : ∀ x ∈ ms, ∀ q, check s.sys.cpu.pw.digits _ x q = none := fun x hx q => by
    obtain ⟨m, _, hok⟩ := mem_idx _ _ _ hms x hx
    exact check_moduleJson _ _ _ m x hok q
  have hts' : ∀ x ∈ ts, ∀ q, check s.sys.cpu.pw.digits (.obj threadFields) x q = none := fun x hx q => by
    obtain ⟨t, ht, hok⟩ := mem_idx _ _ _ hts x hx
    exact check_threadJson _ t x hok (ty.threads t ht) q
  have hus' : ∀ x ∈ us, ∀ q, check s.sys.cpu.pw.digits _ x q = none := fun x hx q => by
    obtain ⟨m, _, hok⟩ := mem_idx _ _ _ hus x hx
    exact check_unloadedJson _ _ m x hok q
  have hsysget : ∀ extra : List (String × Json), (∀ k, k ≠ "crashing_thread" → lookupLast k extra = none) →
      (mkObj (baseFields s.sys.cpu.pw s ms ts us ++ extra)).get "system_info" = some (systemInfoJson s.sys) := by
    intro extra he
    rw [get_mkObj, lookupLast_append, he _ (by decide)]
    simp [baseFields, lookupLast]
  have nocopy : Conforms (mkObj (baseFields s.sys.cpu.pw s ms ts us)) = true := by
    have hb := check_base s ms ts us [] wf ty doc hms' hts' hus'
      (by intro q; simp [lookupLast, check_null]) (by intro k _; rfl)
    have hs := hsysget [] (by intro k _; rfl)
    simp only [List.append_nil] at hb hs
    exact conforms_of_check s _ hs hb
  simp only [addCrashing] at hadd
  split at hadd
  · cases hadd; exact nocopy
  · rename_i i hreq
    split at hadd
    · rename_i t tj hti htj
      split at hadd
      · cases hadd; exact nocopy
      · rename_i f0 rest hfr
        split at hadd
        · rename_i c hc
          cases hadd
          have htm : t ∈ s.threads := List.mem_of_getElem? hti
          have htjm : tj ∈ ts := List.mem_of_getElem? htj
          obtain ⟨tj', htj', htok⟩ := htk i t hti
          rw [htj] at htj'; cases htj'
          obtain ⟨fs, hfs, _, hframes, _⟩ := threadJson_shape _ t tj htok
          have hfsc := check_framesJson s.sys.cpu.pw t.frames 0 fs hfs (ty.threads t htm).frames
            (by have := (ty.threads t htm).nframes; omega)
          have hi : i ≤ U32MAX := by
            have := wf.req i hreq; have := ty.nthreads; omega
          have hcc := fun q => check_crashingCopy s.sys.cpu.pw.digits tj c (registersJson f0.ctx) i fs hc
            (hts' tj htjm) hframes hfsc
            (fun q' => check_registers _ f0.ctx (ty.regs t htm f0 (by rw [hfr]; simp)) q') hi q
          have hex' : ∀ k, k ≠ "crashing_thread" → lookupLast k [("crashing_thread", c)] = none := by
            intro k hk; simp [lookupLast, hk]
          have hb := check_base s ms ts us [("crashing_thread", c)] wf ty doc hms' hts' hus'
            (by intro q; simpa [lookupLast] using hcc q) hex'
          exact conforms_of_check s _ (hsysget _ hex') hb
        · cases hadd
    · cases hadd

/-- Necessity of `Documented.os`: the unknown-OS spelling `0x0x…` is not a `<hexstring>`. -/
theorem os_unknown_not_hexstring (v : Nat) (w : Nat) : isHexString w (Os.longName (.unknown v)) = false := by
  simp [Os.longName, isHexString, hexPad, String.toList_append, isHexLower, isDigit]

/-! ## 9. non-vacuity: a concrete state satisfying every hypothesis set -/

def exFrame : FrameM :=
  { instruction := 0x401234, module := some ("C:\\bin\\app \"x\".exe", 0x400000),
    unloaded := [("old.dll", [0x10, 0x20])], functionName := some "main\n", functionBase := some 0x401000,
    sourceFile := some "a.c", sourceLine := some 7, inlines := [⟨"inl", none, some 3⟩],
    trust := .context, ctx := ⟨4, [("eip", 0x401234), ("esp", 0xff00)], some ["eip"]⟩ }

def exState : StateModel :=
  { pid := some 42, certInfo := [], exc := some ⟨"SIGSEGV", 0x10, some (.nullOffset 0x10), some "add dword [rbx], eax",
      some [⟨0x10, some 4, true, .readWrite⟩, ⟨0xff00, none, false, .underivable⟩], some (.update 0x401000 false),
      [⟨0x10, some "rbx", false, false, false, 2, true, some ⟨false, 0, [2, 5], none⟩⟩],
      [.crashingAccessNotFoundInMemoryAccesses]⟩,
    assertion := none, requestingThread := some 0,
    threads := [⟨[exFrame], 7, some "t", none⟩, ⟨[], 8, none, none⟩],
    sys := ⟨.linux, some "5.4", none, .x86, none, 4, some 0x1f⟩, lsb := none, procLimits := none,
    macCrashInfo := none, macBootArgs := none,
    modules := [⟨0x400000, 0x10000, "C:\\bin\\app \"x\".exe", none, "0", "", none⟩],
    unloaded := [⟨0x10000, 0x1000, "old.dll", "5f00"⟩], handles := some [⟨3, some "File", none⟩],
    symbolStats := [], memoryMapCount := some 12, softErrors := some (.arr [.obj []]) }

example : WF exState := by
  constructor <;> simp [exState, exFrame, U64MAX]

example : Typed exState := by
  constructor
  · simp [exState, U32MAX]
  · simp [exState, U32MAX]
  · simp [exState, U32MAX]
  · simp [exState, U64MAX]
  · simp [exState, U32MAX]
  · intro t ht
    simp [exState] at ht
    rcases ht with rfl | rfl
    · refine ⟨by simp [U32MAX], by simp [U32MAX], ?_⟩
      intro f hf
      simp at hf; subst hf
      constructor <;> simp [exFrame, U64MAX, U32MAX, ascending]
    · exact ⟨by simp [U32MAX], by simp [U32MAX], by simp⟩
  · intro t ht f hf
    simp [exState] at ht
    rcases ht with rfl | rfl
    · simp at hf; subst hf; intro r hr; simp [exFrame] at hr; rcases hr with rfl | rfl <;> simp [U64MAX]
    · simp at hf
  · intro e he
    simp [exState] at he; subst he
    constructor <;> simp [U64MAX, U32MAX]
  · simp [exState]
  · simp [exState, U64MAX]

example : Documented exState := by
  constructor
  · simp [exState]
  · intro j hj
    simp [exState] at hj; subst hj
    exact ⟨_, rfl, by simp⟩

/-- the hypothesis of `consistent` is inhabited: the example state has a report -/
example : ∃ j, printJson exState = .ok j ∧ Consistent j = true := by
  obtain ⟨j, hj⟩ := printJson_total exState (by constructor <;> simp [exState, exFrame, U64MAX])
  exact ⟨j, hj, consistent exState j hj⟩

/-- `Consistent` is not trivially true: a document whose `thread_count` disagrees with `threads` -/
example : Consistent (.obj [("thread_count", .nat 1), ("threads", .arr [])]) = false := by
  simp [Consistent, Json.get, getKV, isNatJ, JNum.ofNat]

/-- `Conforms` rejects an `access_type` outside the documented enumeration (the seeded C15-2a
    regression prints "read/write") -/
example : check 16 (.obj memAccessFields) (.obj [("access_type", .str "read/write")]) "$" =
    some "$.access_type" := by
  simp [memAccessFields, check, checkFields, getKV, accessTy, accessTypeDocumented]

/-- a state outside `WF` on which the model (like the code) panics: instruction below the module base -/
example : printJson { exState with threads := [⟨[{ exFrame with instruction := 0x3fffff }], 7, none, none⟩] } =
    .panic "module_offset: frame.instruction - module.raw.base_of_image" := by
  simp [printJson, exState, exFrame, omapM, obind, moduleJson, checkedAdd, U64MAX, threadJson, framesJson,
    frameJson, checkedSub]

end MdModel.Json
